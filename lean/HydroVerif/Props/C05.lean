/-
C05 — property theorems: the footprint model of every kernel runs without fault (`Safe`: no access outside a
buffer, no zero integer divisor, no integer overflow / unconvertible double, no exhausted fuel) under the
kernel's precondition, for ALL lengths, contents and oracles.
The preconditions are what the Cython asserts and the Python allocations establish (second part of the file:
wrapper obligations over the generated `PyxSpec`).
-/
import HydroVerif.Lemmas.C05

namespace HydroVerif.C05

/-! ## data package -/

/-- `c_aggregate`: any `nval` (also `≤ 0`, after the fix), any index content -/
theorem aggregate_safe (e : Ext) (nval : Int) (idx : Nat → Int)
    (h1 : nval ≤ e .aggindex) (h2 : nval ≤ e .inputs) (h3 : nval ≤ e .outputs) (h4 : 1 ≤ e .iend) :
    Safe (aggregate e nval idx) := by
  apply safe_of_wp (Q := fun _ => True)
  unfold aggregate
  wp_lin
  refine wp_forLoop (fun _ s => 0 ≤ s.2 ∧ s.2 < nval) _ _ _ (by simp; omega) ?_ ?_
  · intro j s hj0 hj1 hI
    unfold aggBody
    wp_run
  · intro x hx
    cases x with
    | inr c => exact wp_pure trivial
    | inl s =>
      have := hx s rfl
      wp_run

/-- `c_flathomogen` -/
theorem flathomogen_safe (e : Ext) (nval : Int) (idx : Nat → Int)
    (h1 : nval ≤ e .aggindex) (h2 : nval ≤ e .inputs) (h3 : nval ≤ e .outputs) :
    Safe (flathomogen e nval idx) := by
  apply safe_of_wp (Q := fun _ => True)
  unfold flathomogen
  wp_lin
  refine wp_forLoop (fun i s => 0 ≤ s.2 ∧ s.2 ≤ i) _ _ _ (by simp) ?_ ?_
  · intro j s hj0 hj1 hI
    unfold homBody homFlush
    wp_run
  · intro x hx
    cases x with
    | inr c => exact wp_pure trivial
    | inl s =>
      have := hx s rfl
      unfold homFlush
      wp_run

/-- `c_islin`: any `nval` (0 and 1 included, after the fix), any `npoints`, any outcome of the float tests -/
theorem islin_safe (e : Ext) (nval npoints : Int) (lin : Nat → Bool)
    (h1 : nval ≤ e .data) (h2 : nval ≤ e .islin) : Safe (islin e nval npoints lin) := by
  apply safe_of_wp (Q := fun _ => True)
  unfold islin
  wp_lin
  refine wp_forLoop (fun i s => 0 ≤ s.2 ∧ s.2 ≤ i) _ _ _ (by simp) ?_ ?_
  · intro j s hj0 hj1 hI
    unfold islinBody
    wp_run
  · intro x hx
    cases x <;> wp_run

/-- `c_eckhardt` -/
theorem eckhardt_safe (e : Ext) (nval : Int) (bad : Bool)
    (h1 : nval ≤ e .inputs) (h2 : nval ≤ e .outputs) : Safe (eckhardt e nval bad) := by
  apply safe_of_wp (Q := fun _ => True)
  unfold eckhardt
  wp_run

/-- `c_dateutils_daysinmonth`, `c_dateutils_dayofyear`: the 13-entry tables are indexed behind the guards -/
theorem daysinmonth_safe (month : Int) : Safe (daysinmonth month) := by
  apply safe_of_wp (Q := fun _ => True)
  unfold daysinmonth
  wp_run

theorem dayofyear_safe (month day : Int) : Safe (dayofyear month day) := by
  apply safe_of_wp (Q := fun _ => True)
  unfold dayofyear
  wp_run

/-- `c_dateutils_comparedates` -/
theorem comparedates_safe (e : Ext) (a b : Nat → Int) (h1 : 3 ≤ e .date1) (h2 : 3 ≤ e .date2) :
    Safe (comparedates e a b) := by
  apply safe_of_wp (Q := fun _ => True)
  unfold comparedates
  wp_run

theorem add1month_safe (e : Ext) (d : Nat → Int) (h : 3 ≤ e .date)
    (hd : ∀ k, I32 (d k)) : Safe (add1month e d) := by
  apply safe_of_wp (Q := fun _ => True)
  unfold add1month
  have h0 := hd 0
  simp only [I32, i32max] at *
  wp_run
  all_goals simp at *
  all_goals omega

theorem getdate_safe (e : Ext) (d4 d2 d0 : Int) (h : 3 ≤ e .date)
    (h0 : -2147483648 < d0 ∧ d0 < 2147483648) (h4 : -214748 ≤ d4 ∧ d4 ≤ 214748)
    (h42 : -101 ≤ d2 - d4 * 100 ∧ d2 - d4 * 100 ≤ 101)
    (h40 : -10001 ≤ d0 - d4 * 10000 ∧ d0 - d4 * 10000 ≤ 10001) (inrange : Bool) :
    Safe (getdate e inrange (some d4) (some d2) (some d0)) := by
  apply safe_of_wp (Q := fun _ => True)
  unfold getdate
  wp_run

theorem getdate_rejects (e : Ext) (d4 d2 d0 : XInt) : Safe (getdate e false d4 d2 d0) := by
  apply safe_of_wp (Q := fun _ => True)
  unfold getdate
  wp_run
theorem add1day_safe (e : Ext) (d : Nat → Int) (h : 3 ≤ e .date)
    (hd : ∀ k, I32 (d k)) : Safe (add1day e d) := by
  apply safe_of_wp (Q := fun _ => True)
  unfold add1day
  have h0 := hd 0
  have h2 := hd 2
  have hr := nbdayOf_range (d 0) (d 1)
  simp only [I32, i32max] at *
  wp_run
  all_goals simp at *
  all_goals omega

/-! ## stat package -/

theorem armodelSim_safe (e : Ext) (nval nparams : Int) (pnan : Nat → Bool) (bad : Bool)
    (h1 : nparams ≤ e .params) (h2 : nval ≤ e .innov) (h3 : nval ≤ e .outputs) :
    Safe (armodelSim e nval nparams pnan bad) := by
  apply safe_of_wp (Q := fun _ => True)
  unfold armodelSim
  refine wp_bind (wp_mono (wp_arChecks e nparams pnan bad h1) ?_)
  intro c hc
  cases c with
  | none => wp_run
  | some u =>
    have := hc rfl
    wp_run

theorem armodelResidual_safe (e : Ext) (nval nparams : Int) (pnan : Nat → Bool) (bad : Bool) (xnan : Nat → Bool)
    (h1 : nparams ≤ e .params) (h2 : nval ≤ e .inputs) (h3 : nval ≤ e .residuals) :
    Safe (armodelResidual e nval nparams pnan bad xnan) := by
  apply safe_of_wp (Q := fun _ => True)
  unfold armodelResidual
  refine wp_bind (wp_mono (wp_arChecks e nparams pnan bad h1) ?_)
  intro c hc
  cases c with
  | none => wp_run
  | some u =>
    have := hc rfl
    wp_run

theorem adTest_safe (e : Ext) (nval : Int) (bad : Nat → Bool) (h1 : nval ≤ e .unifdata) (h2 : 2 ≤ e .outputs) :
    Safe (adTest e nval bad) := by
  apply safe_of_wp (Q := fun _ => True)
  unfold adTest
  wp_run

theorem olsleverage_safe (e : Ext) (nval npreds : Int) (hp : 0 ≤ npreds)
    (h1 : npreds * nval ≤ e .predictors) (h2 : npreds * npreds ≤ e .tXXinv) (h3 : nval ≤ e .leverages)
    (h32 : npreds * nval ≤ 2147483647) (h33 : npreds * npreds ≤ 2147483647) :
    Safe (olsleverage e nval npreds) := by
  apply safe_of_wp (Q := fun _ => True)
  unfold olsleverage
  refine wp_bind (wp_forEach (fun i hi0 hi1 => ?_) (wp_pure trivial))
  have bi := mul_idx_bound hp hi0 (show i < nval by omega)
  refine wp_forEach (fun j hj0 hj1 => ?_) trivial
  have bj := mul_idx_bound hp hj0 (show j < npreds by omega)
  wp_run

theorem paretofront_safe (e : Ext) (nval ncol : Int) (dom : Nat → Nat → Bool) (hc : 0 ≤ ncol)
    (h1 : ncol * nval ≤ e .data) (h2 : nval ≤ e .isdominated) (h32 : ncol * nval ≤ 2147483647) :
    Safe (paretofront e nval ncol dom) := by
  apply safe_of_wp (Q := fun _ => True)
  unfold paretofront
  refine wp_bind (wp_forEach (fun i hi0 hi1 => ?_) (wp_pure trivial))
  have bi := mul_idx_bound hc hi0 (show i < nval by omega)
  wp_lin
  refine wp_forLoop (fun _ _ => True) _ _ _ trivial ?_ ?_
  · intro j s hj0 hj1 _
    have bj := mul_idx_bound hc hj0 (show j < nval by omega)
    wp_run
  · intro x _
    wp_run

theorem crps_safe (e : Ext) (nval ncol useW : Int) (unsorted : Nat → Nat → Bool)
    (hc : 1 ≤ ncol) (h1 : nval ≤ e .obs) (h2 : ncol * nval ≤ e .sim)
    (h3 : useW = 1 → nval ≤ e .weights) (h4 : (ncol + 1) * 7 ≤ e .table) (h5 : 5 ≤ e .decompos)
    (h32 : ncol * nval ≤ 2147483647) (h33 : (ncol + 1) * 7 ≤ 2147483647) :
    Safe (crps e nval ncol useW unsorted) := by
  apply safe_of_wp (Q := fun _ => True)
  unfold crps
  wp_lin
  refine wp_forLoop (fun _ _ => True) _ _ _ trivial ?_ ?_
  · intro i s hi0 hi1 _
    have bi := mul_idx_bound (show (0:Int) ≤ ncol by omega) hi0 (show i < nval by omega)
    unfold crpsRow
    wp_lin
    all_goals wp_run
  · intro x _
    wp_run

theorem ensrank_safe (e : Ext) (nval ncol : Int) (badeps : Bool)
    (h1 : ncol * nval ≤ e .sim) (h2 : nval * nval ≤ e .fmat) (h3 : nval ≤ e .ranks)
    (h32 : ncol * nval ≤ 2147483647) (h33 : nval * nval ≤ 2147483647) (h34 : 2 * ncol ≤ 2147483647) :
    Safe (ensrank e nval ncol badeps) := by
  apply safe_of_wp (Q := fun _ => True)
  unfold ensrank
  refine wp_ite (fun _ => wp_pure trivial) (fun _ => wp_ite (fun _ => wp_pure trivial) (fun hn => ?_))
  have hc : 0 ≤ ncol := by omega
  refine wp_bind (wp_i32 ⟨by omega, by omega⟩ ?_)
  refine wp_bind (wp_forEach (fun j _ _ => ?_) ?_)
  · wp_run
  refine wp_bind (wp_forEach (fun i1 hi10 hi11 => ?_) (wp_pure trivial))
  refine wp_forEach (fun i2 hi20 hi21 => ?_) trivial
  have b1 := mul_idx_bound hc hi10 (show i1 < nval by omega)
  have b2 := mul_idx_bound hc (show 0 ≤ i2 by omega) (show i2 < nval by omega)
  have e2 : ncol * (i2 - 1) = ncol * i2 - ncol := by ring
  have b3 := mul_idx_bound' (show (0:Int) ≤ nval by omega) hi10 (show i1 < nval by omega)
  unfold ensrankPair
  wp_run
/-! ## gis package -/
open HydroVerif.C07

theorem coord2cell_safe (e : Ext) (nrows ncols nval : Int) (fx fy : Nat → XInt)
    (hN : nrows * ncols ≤ 9223372036854775807)
    (h1 : 2 * nval ≤ e .xycoords) (h2 : nval ≤ e .idxcell) :
    Safe (coord2cell e nrows ncols nval fx fy) := by
  apply safe_of_wp (Q := fun _ => True)
  unfold coord2cell
  refine wp_bind (wp_forEach (fun i hi0 hi1 => ?_) (wp_pure trivial))
  wp_lin
  refine wp_mono (wp_coord2cell1 _ _ hN) (fun _ _ => ?_)
  wp_lin

theorem cell2rowcol_safe (e : Ext) (nrows ncols nval : Int) (cells : Nat → Int)
    (hr : 0 ≤ nrows) (hc : 0 ≤ ncols) (hN : nrows * ncols ≤ 9223372036854775807)
    (h1 : nval ≤ e .idxcell) (h2 : 2 * nval ≤ e .rowcols) :
    Safe (cell2rowcol e nrows ncols nval cells) := by
  apply safe_of_wp (Q := fun _ => True)
  unfold cell2rowcol
  have h0 : 0 ≤ nrows * ncols := Int.mul_nonneg hr hc
  refine wp_bind (wp_forEach (fun i hi0 hi1 => ?_) (wp_pure trivial))
  wp_lin
  refine wp_getnxy (ncols_ne_zero_of_inGrid (nrows := nrows) (ncols := ncols) (c := cells i.toNat) (by unfold InGrid; omega)) (fun _ => ?_)
  wp_lin

theorem cell2coord_safe (e : Ext) (nrows ncols nval : Int) (cells : Nat → Int)
    (hr : 0 ≤ nrows) (hc : 0 ≤ ncols) (hN : nrows * ncols ≤ 9223372036854775807)
    (h1 : nval ≤ e .idxcell) (h2 : 2 * nval ≤ e .xycoords) :
    Safe (cell2coord e nrows ncols nval cells) := by
  apply safe_of_wp (Q := fun _ => True)
  unfold cell2coord
  have h0 : 0 ≤ nrows * ncols := Int.mul_nonneg hr hc
  refine wp_bind (wp_forEach (fun i hi0 hi1 => ?_) (wp_pure trivial))
  wp_lin
  refine wp_getnxy (ncols_ne_zero_of_inGrid (nrows := nrows) (ncols := ncols) (c := cells i.toNat) (by unfold InGrid; omega)) (fun _ => ?_)
  wp_lin

theorem neighbours_safe (e : Ext) (nrows ncols idx : Int)
    (hr : 0 ≤ nrows) (hc : 0 ≤ ncols) (hN : nrows * ncols ≤ 9223372036854775807)
    (h1 : 9 ≤ e .neighbours) : Safe (neighbours e nrows ncols idx) := by
  apply safe_of_wp (Q := fun _ => True)
  unfold neighbours
  refine wp_bind (wp_mono (wp_neighboursInto h1 hr hc hN) (fun r _ => ?_))
  cases r <;> exact wp_pure trivial

theorem upstream_safe (e : Ext) (nrows ncols nval : Int) (code fdir cells : Nat → Int)
    (hr : 0 ≤ nrows) (hc : 0 ≤ ncols) (hN : nrows * ncols ≤ 9223372036854775807)
    (hfd : nrows * ncols ≤ e .flowdir) (hcode : 9 ≤ e .flowdircode)
    (h1 : nval ≤ e .idxdown) (h2 : 9 * nval ≤ e .idxup) :
    Safe (upstream e nrows ncols nval code fdir cells) := by
  apply safe_of_wp (Q := fun _ => True)
  unfold upstream
  refine wp_bind (wp_forLoop (fun _ _ => True) _ _ _ trivial ?_ ?_)
  · intro i _ hi0 hi1 _
    wp_lin
    refine wp_mono (wp_upstream1 hr hc hN hfd hcode (by omega) (by omega)) (fun ok _ => ?_)
    wp_lin
  · intro x _
    cases x <;> exact wp_pure trivial

theorem downstream_safe (e : Ext) (nrows ncols nval : Int) (code fdir cells : Nat → Int)
    (hr : 0 ≤ nrows) (hc : 0 ≤ ncols) (hN : nrows * ncols ≤ 9223372036854775807)
    (hfd : nrows * ncols ≤ e .flowdir) (hcode : 9 ≤ e .flowdircode)
    (h1 : nval ≤ e .idxup) (h2 : nval ≤ e .idxdown) :
    Safe (downstream e nrows ncols nval code fdir cells) := by
  apply safe_of_wp (Q := fun _ => True)
  unfold downstream
  refine wp_bind (wp_forLoop (fun _ _ => True) _ _ _ trivial ?_ ?_)
  · intro i _ hi0 hi1 _
    wp_lin
    refine wp_mono (wp_downstream1 hr hc hN hfd hcode (by omega) (by omega) (by omega)) (fun d _ => ?_)
    cases d <;> wp_lin
  · intro x _
    cases x <;> exact wp_pure trivial
end HydroVerif.C05
