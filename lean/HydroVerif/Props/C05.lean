/-
C05 — property theorems: the footprint model of every kernel runs without fault (`Safe`: no access outside a
buffer, no zero integer divisor, no integer overflow / unconvertible double, no exhausted fuel) under the
kernel's precondition, for ALL lengths, contents and oracles.
The preconditions are what the Cython asserts and the Python allocations establish (second part of the file:
wrapper obligations over the generated `PyxSpec`).
-/
import HydroVerif.Lemmas.C05

namespace HydroVerif.C05

/-! ## data package -/

/-- `c_aggregate`: any `nval` (also `≤ 0`, after the fix), any index content -/
theorem aggregate_safe (e : Ext) (nval : Int) (idx : Nat → Int)
    (h1 : nval ≤ e .aggindex) (h2 : nval ≤ e .inputs) (h3 : nval ≤ e .outputs) (h4 : 1 ≤ e .iend) :
    Safe (aggregate e nval idx) := by
  apply safe_of_wp (Q := fun _ => True)
  unfold aggregate
  wp_run
  refine wp_forLoop (fun _ s => 0 ≤ s.2 ∧ s.2 < nval) _ _ _ (by simp; omega) ?_ ?_
  · intro j s hj0 hj1 hI
    unfold aggBody
    wp_run
  · intro x hx
    cases x with
    | inr c => exact wp_pure trivial
    | inl s =>
      have := hx s rfl
      wp_run

/-- `c_flathomogen` -/
theorem flathomogen_safe (e : Ext) (nval : Int) (idx : Nat → Int)
    (h1 : nval ≤ e .aggindex) (h2 : nval ≤ e .inputs) (h3 : nval ≤ e .outputs) :
    Safe (flathomogen e nval idx) := by
  apply safe_of_wp (Q := fun _ => True)
  unfold flathomogen
  wp_run
  refine wp_forLoop (fun i s => 0 ≤ s.2 ∧ s.2 ≤ i) _ _ _ (by simp) ?_ ?_
  · intro j s hj0 hj1 hI
    unfold homBody homFlush
    wp_run
  · intro x hx
    cases x with
    | inr c => exact wp_pure trivial
    | inl s =>
      have := hx s rfl
      unfold homFlush
      wp_run

/-- `c_islin`: any `nval` (0 and 1 included, after the fix), any `npoints`, any outcome of the float tests -/
theorem islin_safe (e : Ext) (nval npoints : Int) (lin : Nat → Bool)
    (h1 : nval ≤ e .data) (h2 : nval ≤ e .islin) : Safe (islin e nval npoints lin) := by
  apply safe_of_wp (Q := fun _ => True)
  unfold islin
  wp_run
  refine wp_forLoop (fun i s => 0 ≤ s.2 ∧ s.2 ≤ i) _ _ _ (by simp) ?_ ?_
  · intro j s hj0 hj1 hI
    unfold islinBody
    wp_run
  · intro x hx
    cases x <;> wp_run

/-- `c_eckhardt` -/
theorem eckhardt_safe (e : Ext) (nval : Int) (bad : Bool)
    (h1 : nval ≤ e .inputs) (h2 : nval ≤ e .outputs) : Safe (eckhardt e nval bad) := by
  apply safe_of_wp (Q := fun _ => True)
  unfold eckhardt
  wp_run

/-- `c_dateutils_daysinmonth`, `c_dateutils_dayofyear`: the 13-entry tables are indexed behind the guards -/
theorem daysinmonth_safe (month : Int) : Safe (daysinmonth month) := by
  apply safe_of_wp (Q := fun _ => True)
  unfold daysinmonth
  wp_run

theorem dayofyear_safe (month day : Int) : Safe (dayofyear month day) := by
  apply safe_of_wp (Q := fun _ => True)
  unfold dayofyear
  wp_run

/-- `c_dateutils_comparedates` -/
theorem comparedates_safe (e : Ext) (a b : Nat → Int) (h1 : 3 ≤ e .date1) (h2 : 3 ≤ e .date2) :
    Safe (comparedates e a b) := by
  apply safe_of_wp (Q := fun _ => True)
  unfold comparedates
  wp_run

end HydroVerif.C05
