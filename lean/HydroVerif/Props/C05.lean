/-
C05 — property theorems: the footprint model of every kernel runs without fault (`Safe`: no access outside a
buffer, no zero integer divisor, no integer overflow / unconvertible double, no exhausted fuel) under the
kernel's precondition, for ALL lengths, contents and oracles; the preconditions are what the Cython asserts and
the Python allocations establish (wrapper obligations over the GENERATED `PyxSpec`).

Clause → theorems → what stays outside (the same table is in harness/registry.d/C05.json, key "clauses"):

1. "every Python entry point that reaches a compiled kernel" (quantifier)
     `wrappers_covered` (the generated list of wrappers that call a kernel is exactly the 37 that have a
     `<wrapper>_wrapper` theorem below; a wrapper added to a .pyx breaks it) + the harness' completeness check
     (builder, `K_safe`, `_wrapper`, tightness cases per wrapper).  Outside: functions of the extension modules are
     found by parsing the .pyx (translator trusted; it refuses what it cannot parse).
2. "read or write outside the buffers they were given", all lengths incl. 0 and 1, all contents, all options
     `aggregate_safe … delineateArea_safe` (37 `K_safe`, one per kernel: `Fault.oob` unreachable under `KernelPre`) and
     the 37 `_wrapper` theorems (asserts ∧ PyAlloc ⇒ KernelPre of the actual call).  Outside: that the compiled
     C text performs the model's accesses (run time: sanitizer outcome + exact-extent tightness probes); index
     products of the `int` kernels below 2^31 and `NumpySize` are hypotheses.
3. "divide an integer by zero"
     `Fault.div0` unreachable: `accumulate_safe`, `slope_safe` (any `nprint`, 0 included), every kernel using
     `getnxy` (`% ncols`, reached only with a cell of the grid, hence `ncols ≠ 0`), `voronoi_safe` (any grid size:
     refused before), `inside_safe` (`nvertices ≥ 1` from the wrapper's column reduction), `combi_safe`,
     `isleapyear_safe`.
4. "overflow a signed integer" (and conversions of doubles)
     `Fault.ovf` unreachable: `var2h_safe` (64-bit period start), `coord2cell_safe` / `slice_safe` /
     `intersect_safe` (NaN, inf, huge coordinates never converted), `getdate_safe` + `getdate_rejects`,
     `add1month_safe`, `add1day_safe` (year 2147483647), `combi_safe`, the i32 index products (hypotheses, see 2).
5. "or otherwise bring the interpreter down"
     `Fault.fuel` unreachable: `delineateArea_safe` (the unbounded `while` ends within `nval+1` layers),
     `var2h_safe` (inner walk bounded by `nvalvar`); bounded loops are structural.  Outside: stalls / aborts of
     anything else are only observed (worker time limits, abnormal exits).
6. "input the kernels cannot handle is answered with a Python exception or the documented sentinel value"
     the error return comes before ANY access (equalities valid for every extents function):
     `aggregate_rejects_empty`, `flathomogen_rejects_empty`, `eckhardt_empty`, `eckhardt_rejects_badparam`,
     `islin_empty`, `armodelSim_rejects_order`, `armodelResidual_rejects_order`, `ensrank_rejects_size`,
     `voronoi_rejects`, `accumulate_rejects`, `delineateArea_rejects_nval`, `delineateBoundary_rejects_nval`,
     `delineateBoundary_rejects_negative_cell`, `excludeZeroArea_rejects`, `neighbours_rejects_cell`,
     `combi_sentinel`, `var2h_rejects_options`, `getdate_rejects`.  Outside: that the Python wrapper turns the
     code into `ValueError` and validates lengths / options itself is compared at run time (return code class of
     every recorded kernel call vs the model; an error code must surface as an exception), not modelled in Lean.
7. "the code that exists" (tie of the models to the source): for the integer kernels of `data/c_dateutils.c`
   (`isleapyear, daysinmonth, dayofyear, comparedates, add1month, add1day`), `c_combi`, and `clipi, getnxy,
   c_cell2rowcol, c_neighbours, c_upstream, c_downstream` of `gis/c_grid.c` the model is GENERATED from the C text
   on every run (`Generated/CKernels.lean`, namespace `CGen`, by `harness/c2lean.py`) with values and faults:
     `cgen_*_value` (results for all arguments of the stated region: Gregorian rule, month lengths, lexicographic
     order, next day / next month, `Nat.choose`, `C07.colOf/rowOf/neighbour`), `cgen_*_safe` (no fault under the
     kernel's precondition, all lengths and contents, any garbage in uninitialised local arrays),
     `cgen_*_refines` (the hand-written footprint model is the image of the generated function: equality for the scalar
     kernels, same return code under the kernel's precondition for add1month, add1day, comparedates, upstream, downstream),
     `cgen_*_wrapper` (Cython asserts ⇒ precondition of the GENERATED kernel).
   Outside: clang's parser, the translator, the primitives of `Model/CSem.lean` — validated at run time by calling
   the compiled kernels through ctypes on boundary and random inputs and comparing values and buffers exactly.
Every theorem has a concrete instance of its hypotheses in the last section.
-/
import HydroVerif.Lemmas.C05
import HydroVerif.Lemmas.C05Wrap
import HydroVerif.Lemmas.CGenDate
import HydroVerif.Lemmas.CGenGrid

namespace HydroVerif.C05

/-! ## data package -/

/-- `c_aggregate`: any `nval` (also `≤ 0`, after the fix), any index content -/
theorem aggregate_safe (e : Ext) (nval : Int) (idx : Nat → Int)
    (h1 : nval ≤ e .aggindex) (h2 : nval ≤ e .inputs) (h3 : nval ≤ e .outputs) (h4 : 1 ≤ e .iend) :
    Safe (aggregate e nval idx) := by
  apply safe_of_wp (Q := fun _ => True)
  unfold aggregate
  wp_lin
  refine wp_forLoop (fun _ s => 0 ≤ s.2 ∧ s.2 < nval) _ _ _ (by simp; omega) ?_ ?_
  · intro j s hj0 hj1 hI
    unfold aggBody
    wp_run
  · intro x hx
    cases x with
    | inr c => exact wp_pure trivial
    | inl s =>
      have := hx s rfl
      wp_run

/-- `c_flathomogen` -/
theorem flathomogen_safe (e : Ext) (nval : Int) (idx : Nat → Int)
    (h1 : nval ≤ e .aggindex) (h2 : nval ≤ e .inputs) (h3 : nval ≤ e .outputs) :
    Safe (flathomogen e nval idx) := by
  apply safe_of_wp (Q := fun _ => True)
  unfold flathomogen
  wp_lin
  refine wp_forLoop (fun i s => 0 ≤ s.2 ∧ s.2 ≤ i) _ _ _ (by simp) ?_ ?_
  · intro j s hj0 hj1 hI
    unfold homBody homFlush
    wp_run
  · intro x hx
    cases x with
    | inr c => exact wp_pure trivial
    | inl s =>
      have := hx s rfl
      unfold homFlush
      wp_run

/-- `c_islin`: any `nval` (0 and 1 included, after the fix), any `npoints`, any outcome of the float tests -/
theorem islin_safe (e : Ext) (nval npoints : Int) (lin : Nat → Bool)
    (h1 : nval ≤ e .data) (h2 : nval ≤ e .islin) : Safe (islin e nval npoints lin) := by
  apply safe_of_wp (Q := fun _ => True)
  unfold islin
  wp_lin
  refine wp_forLoop (fun i s => 0 ≤ s.2 ∧ s.2 ≤ i) _ _ _ (by simp) ?_ ?_
  · intro j s hj0 hj1 hI
    unfold islinBody
    wp_run
  · intro x hx
    cases x <;> wp_run

/-- `c_eckhardt` -/
theorem eckhardt_safe (e : Ext) (nval : Int) (bad : Bool)
    (h1 : nval ≤ e .inputs) (h2 : nval ≤ e .outputs) : Safe (eckhardt e nval bad) := by
  apply safe_of_wp (Q := fun _ => True)
  unfold eckhardt
  wp_run

/-- `c_dateutils_isleapyear`: remainders by the constants 4, 100, 400 -/
theorem isleapyear_safe (year : Int) : Safe (isleapyear year) := by
  apply safe_of_wp (Q := fun _ => True)
  unfold isleapyear
  wp_run

/-- `c_dateutils_daysinmonth`, `c_dateutils_dayofyear`: the 13-entry tables are indexed behind the guards -/
theorem daysinmonth_safe (month : Int) : Safe (daysinmonth month) := by
  apply safe_of_wp (Q := fun _ => True)
  unfold daysinmonth
  wp_run

theorem dayofyear_safe (month day : Int) : Safe (dayofyear month day) := by
  apply safe_of_wp (Q := fun _ => True)
  unfold dayofyear
  wp_run

/-- `c_dateutils_comparedates` -/
theorem comparedates_safe (e : Ext) (a b : Nat → Int) (h1 : 3 ≤ e .date1) (h2 : 3 ≤ e .date2) :
    Safe (comparedates e a b) := by
  apply safe_of_wp (Q := fun _ => True)
  unfold comparedates
  wp_run

theorem add1month_safe (e : Ext) (d : Nat → Int) (h : 3 ≤ e .date)
    (hd : ∀ k, I32 (d k)) : Safe (add1month e d) := by
  apply safe_of_wp (Q := fun _ => True)
  unfold add1month
  have h0 := hd 0
  simp only [I32, i32max] at *
  wp_run
  all_goals simp at *
  all_goals omega

theorem getdate_safe (e : Ext) (d4 d2 d0 : Int) (h : 3 ≤ e .date)
    (h0 : -2147483648 < d0 ∧ d0 < 2147483648) (h4 : -214748 ≤ d4 ∧ d4 ≤ 214748)
    (h42 : -101 ≤ d2 - d4 * 100 ∧ d2 - d4 * 100 ≤ 101)
    (h40 : -10001 ≤ d0 - d4 * 10000 ∧ d0 - d4 * 10000 ≤ 10001) (inrange : Bool) :
    Safe (getdate e inrange (some d4) (some d2) (some d0)) := by
  apply safe_of_wp (Q := fun _ => True)
  unfold getdate
  wp_run

theorem getdate_rejects (e : Ext) (d4 d2 d0 : XInt) : Safe (getdate e false d4 d2 d0) := by
  apply safe_of_wp (Q := fun _ => True)
  unfold getdate
  wp_run
theorem add1day_safe (e : Ext) (d : Nat → Int) (h : 3 ≤ e .date)
    (hd : ∀ k, I32 (d k)) : Safe (add1day e d) := by
  apply safe_of_wp (Q := fun _ => True)
  unfold add1day
  have h0 := hd 0
  have h2 := hd 2
  have hr := nbdayOf_range (d 0) (d 1)
  simp only [I32, i32max] at *
  wp_run
  all_goals simp at *
  all_goals omega

/-- `c_var2h` (with the bounded start scan and the 64-bit period start): the pointer `varindex` stays in
`0 .. nvalvar-2` because the stamp it points at always precedes the end of the current period — for any stamps,
sorted or not (a decrease is answered with the error return) -/
theorem var2h_safe (e : Ext) (nvalvar nvalh nbsec rainfall hstart : Int) (sec : Nat → Int)
    (h1 : nvalvar ≤ e .varsec) (h2 : nvalvar ≤ e .varvalues) (h3 : nvalh ≤ e .hvalues)
    (hh : nvalh ≤ 2147483647) (hs : -4611686018427387904 ≤ hstart ∧ hstart ≤ 4611686018427387904) :
    Safe (var2h e nvalvar nvalh nbsec rainfall hstart sec) := by
  apply safe_of_wp (Q := fun _ => True)
  unfold var2h
  refine wp_ite (fun _ => wp_pure trivial) (fun _ => wp_ite (fun _ => wp_pure trivial) (fun hnb => ?_))
  have hnb : nbsec = 1800 ∨ nbsec = 3600 := by omega
  refine wp_bind (wp_mono (wp_var2hScan h1) (fun v0 hv0 => ?_))
  refine wp_ite (fun _ => wp_pure trivial) (fun hv => ?_)
  have hv0' := hv0.2 (by omega)
  refine wp_bind (wp_forLoop
    (fun i v => 0 ≤ v ∧ v + 1 < nvalvar ∧ sec v.toNat < hstart + i * nbsec + nbsec) _ _ _ ?_ ?_ ?_)
  · refine ⟨by omega, by omega, ?_⟩
    rcases hnb with h | h <;> subst h <;> omega
  · intro i v hi0 hi1 hI
    obtain ⟨hv0, hv1, hsv⟩ := hI
    unfold var2hBody
    have hp : 0 ≤ i * nbsec ∧ i * nbsec ≤ 7730941132800 := by
      rcases hnb with h | h <;> subst h <;> omega
    wp_lin
    refine wp_forLoopP
      (fun j (s : Int × Int) => s.1 = v + j ∧ s.1 + 1 < nvalvar ∧ s.2 = sec s.1.toNat ∧
        (1 ≤ j → sec (s.1 - 1).toNat < hstart + i * nbsec + nbsec) ∧ (j = 0 → s.2 < hstart + i * nbsec + nbsec))
      (fun (r : Int ⊕ Int) => ∀ v', r = Sum.inr v' → 0 ≤ v' - 1 ∧ v' - 1 + 1 < nvalvar ∧ sec (v' - 1).toNat < hstart + i * nbsec + nbsec)
      _ _ _ ?_ ?_ ?_
    · exact ⟨by omega, hv1, rfl, by intro h; omega, fun _ => hsv⟩
    · intro j s hj0 hj1 hJ
      obtain ⟨hw, hw1, ht, hprev, hfirst⟩ := hJ
      unfold var2hInner
      wp_lin
      · refine ⟨(by intro s' hs; cases hs), ?_⟩
        intro r hr; cases hr
        intro v' hv'; cases hv'
      · refine ⟨(by intro s' hs; cases hs), ?_⟩
        intro r hr; cases hr
        intro v' hv'; cases hv'
        have e1 : s.1 + 1 - 1 = s.1 := by omega
        rw [e1]
        exact ⟨by omega, by omega, by rw [← ht]; assumption⟩
      · refine ⟨?_, (by intro r hr; cases hr)⟩
        intro s' hs; cases hs
        refine ⟨by simp; omega, by simp; omega, rfl, ?_, by intro h; omega⟩
        intro _
        have e1 : s.1 + 1 - 1 = s.1 := by omega
        simp only [e1]
        rw [← ht]; assumption
      · refine ⟨(by intro s' hs; cases hs), ?_⟩
        intro r hr; cases hr
        intro v' hv'; cases hv'
        have hj1' : 1 ≤ j := by
          by_contra hj
          have : j = 0 := by omega
          have := hfirst this
          omega
        exact ⟨by omega, by omega, hprev hj1'⟩
    · intro x hinv hp
      cases x with
      | inl s =>
        have := (hinv s rfl)
        omega
      | inr r =>
        cases r with
        | inl c => exact wp_pure (by intro s' hs; cases hs)
        | inr v' =>
          have := hp _ rfl v' rfl
          simp only []
          wp_lin
          intro s' hs; cases hs
          refine ⟨this.1, this.2.1, ?_⟩
          have e1 : hstart + (i + 1) * nbsec + nbsec = hstart + i * nbsec + nbsec + nbsec := by ring
          rw [e1]
          omega
  · intro x _
    cases x <;> exact wp_pure trivial
/-- `c_combi` (after the fix): no `int`/`long long` overflow, no zero divisor — the accepted arguments are the
finite table `0 ≤ k ≤ 30`, `0 ≤ n-k ≤ 30`, checked exhaustively by kernel evaluation (`combi_table`) -/
theorem combi_safe (n k : Int) (hn : I32 n) : Safe (combi n k) := by
  unfold I32 at hn
  by_cases hr : n < 0 ∨ k < 0 ∨ k > 30
  · unfold combi; simp only [hr, if_true]; exact ⟨_, rfl⟩
  · by_cases hd : n - k > 30
    · apply safe_of_wp (Q := fun _ => True)
      unfold combi
      simp only [hr, if_false]
      refine wp_bind (wp_i32 ⟨by omega, by omega⟩ ?_)
      simp only [hd, if_true]
      exact wp_pure trivial
    · have h1 : n.toNat < 61 := by omega
      have h2 : k.toNat < 31 := by omega
      have := combi_table ⟨n.toNat, h1⟩ ⟨k.toNat, h2⟩
      simp only [] at this
      have e1 : ((n.toNat : Nat) : Int) = n := by omega
      have e2 : ((k.toNat : Nat) : Int) = k := by omega
      rw [e1, e2] at this
      exact safe_of_isOk this
/-! ## stat package -/

theorem armodelSim_safe (e : Ext) (nval nparams : Int) (pnan : Nat → Bool) (bad : Bool)
    (h1 : nparams ≤ e .params) (h2 : nval ≤ e .innov) (h3 : nval ≤ e .outputs) :
    Safe (armodelSim e nval nparams pnan bad) := by
  apply safe_of_wp (Q := fun _ => True)
  unfold armodelSim
  refine wp_bind (wp_mono (wp_arChecks e nparams pnan bad h1) ?_)
  intro c hc
  cases c with
  | none => wp_run
  | some u =>
    have := hc rfl
    wp_run

theorem armodelResidual_safe (e : Ext) (nval nparams : Int) (pnan : Nat → Bool) (bad : Bool) (xnan : Nat → Bool)
    (h1 : nparams ≤ e .params) (h2 : nval ≤ e .inputs) (h3 : nval ≤ e .residuals) :
    Safe (armodelResidual e nval nparams pnan bad xnan) := by
  apply safe_of_wp (Q := fun _ => True)
  unfold armodelResidual
  refine wp_bind (wp_mono (wp_arChecks e nparams pnan bad h1) ?_)
  intro c hc
  cases c with
  | none => wp_run
  | some u =>
    have := hc rfl
    wp_run

theorem adTest_safe (e : Ext) (nval : Int) (bad : Nat → Bool) (h1 : nval ≤ e .unifdata) (h2 : 2 ≤ e .outputs) :
    Safe (adTest e nval bad) := by
  apply safe_of_wp (Q := fun _ => True)
  unfold adTest
  wp_run

theorem olsleverage_safe (e : Ext) (nval npreds : Int) (hp : 0 ≤ npreds)
    (h1 : npreds * nval ≤ e .predictors) (h2 : npreds * npreds ≤ e .tXXinv) (h3 : nval ≤ e .leverages)
    (h32 : npreds * nval ≤ 2147483647) (h33 : npreds * npreds ≤ 2147483647) :
    Safe (olsleverage e nval npreds) := by
  apply safe_of_wp (Q := fun _ => True)
  unfold olsleverage
  refine wp_bind (wp_forEach (fun i hi0 hi1 => ?_) (wp_pure trivial))
  have bi := mul_idx_bound hp hi0 (show i < nval by omega)
  refine wp_forEach (fun j hj0 hj1 => ?_) trivial
  have bj := mul_idx_bound hp hj0 (show j < npreds by omega)
  wp_run

theorem paretofront_safe (e : Ext) (nval ncol : Int) (dom : Nat → Nat → Bool) (hc : 0 ≤ ncol)
    (h1 : ncol * nval ≤ e .data) (h2 : nval ≤ e .isdominated) (h32 : ncol * nval ≤ 2147483647) :
    Safe (paretofront e nval ncol dom) := by
  apply safe_of_wp (Q := fun _ => True)
  unfold paretofront
  refine wp_bind (wp_forEach (fun i hi0 hi1 => ?_) (wp_pure trivial))
  have bi := mul_idx_bound hc hi0 (show i < nval by omega)
  wp_lin
  refine wp_forLoop (fun _ _ => True) _ _ _ trivial ?_ ?_
  · intro j s hj0 hj1 _
    have bj := mul_idx_bound hc hj0 (show j < nval by omega)
    wp_run
  · intro x _
    wp_run

theorem crps_safe (e : Ext) (nval ncol useW : Int) (unsorted : Nat → Nat → Bool)
    (hc : 1 ≤ ncol) (h1 : nval ≤ e .obs) (h2 : ncol * nval ≤ e .sim)
    (h3 : useW = 1 → nval ≤ e .weights) (h4 : (ncol + 1) * 7 ≤ e .table) (h5 : 5 ≤ e .decompos)
    (h32 : ncol * nval ≤ 2147483647) (h33 : (ncol + 1) * 7 ≤ 2147483647) :
    Safe (crps e nval ncol useW unsorted) := by
  apply safe_of_wp (Q := fun _ => True)
  unfold crps
  wp_lin
  refine wp_forLoop (fun _ _ => True) _ _ _ trivial ?_ ?_
  · intro i s hi0 hi1 _
    have bi := mul_idx_bound (show (0:Int) ≤ ncol by omega) hi0 (show i < nval by omega)
    unfold crpsRow
    wp_lin
    all_goals wp_run
  · intro x _
    wp_run

theorem ensrank_safe (e : Ext) (nval ncol : Int) (badeps : Bool)
    (h1 : ncol * nval ≤ e .sim) (h2 : nval * nval ≤ e .fmat) (h3 : nval ≤ e .ranks)
    (h32 : ncol * nval ≤ 2147483647) (h33 : nval * nval ≤ 2147483647) (h34 : 2 * ncol ≤ 2147483647) :
    Safe (ensrank e nval ncol badeps) := by
  apply safe_of_wp (Q := fun _ => True)
  unfold ensrank
  refine wp_ite (fun _ => wp_pure trivial) (fun _ => wp_ite (fun _ => wp_pure trivial) (fun hn => ?_))
  have hc : 0 ≤ ncol := by omega
  refine wp_bind (wp_i32 ⟨by omega, by omega⟩ ?_)
  refine wp_bind (wp_forEach (fun j _ _ => ?_) ?_)
  · wp_run
  refine wp_bind (wp_forEach (fun i1 hi10 hi11 => ?_) (wp_pure trivial))
  refine wp_forEach (fun i2 hi20 hi21 => ?_) trivial
  have b1 := mul_idx_bound hc hi10 (show i1 < nval by omega)
  have b2 := mul_idx_bound hc (show 0 ≤ i2 by omega) (show i2 < nval by omega)
  have e2 : ncol * (i2 - 1) = ncol * i2 - ncol := by ring
  have b3 := mul_idx_bound' (show (0:Int) ≤ nval by omega) hi10 (show i1 < nval by omega)
  unfold ensrankPair
  wp_run
/-! ## gis package -/
open HydroVerif.C07

theorem coord2cell_safe (e : Ext) (nrows ncols nval : Int) (fx fy : Nat → XInt)
    (hN : nrows * ncols ≤ 9223372036854775807)
    (h1 : 2 * nval ≤ e .xycoords) (h2 : nval ≤ e .idxcell) :
    Safe (coord2cell e nrows ncols nval fx fy) := by
  apply safe_of_wp (Q := fun _ => True)
  unfold coord2cell
  refine wp_bind (wp_forEach (fun i hi0 hi1 => ?_) (wp_pure trivial))
  wp_lin
  refine wp_mono (wp_coord2cell1 _ _ hN) (fun _ _ => ?_)
  wp_lin

theorem cell2rowcol_safe (e : Ext) (nrows ncols nval : Int) (cells : Nat → Int)
    (hr : 0 ≤ nrows) (hc : 0 ≤ ncols) (hN : nrows * ncols ≤ 9223372036854775807)
    (h1 : nval ≤ e .idxcell) (h2 : 2 * nval ≤ e .rowcols) :
    Safe (cell2rowcol e nrows ncols nval cells) := by
  apply safe_of_wp (Q := fun _ => True)
  unfold cell2rowcol
  have h0 : 0 ≤ nrows * ncols := Int.mul_nonneg hr hc
  refine wp_bind (wp_forEach (fun i hi0 hi1 => ?_) (wp_pure trivial))
  wp_lin
  refine wp_getnxy (ncols_ne_zero_of_inGrid (nrows := nrows) (ncols := ncols) (c := cells i.toNat) (by unfold InGrid; omega)) (fun _ => ?_)
  wp_lin

theorem cell2coord_safe (e : Ext) (nrows ncols nval : Int) (cells : Nat → Int)
    (hr : 0 ≤ nrows) (hc : 0 ≤ ncols) (hN : nrows * ncols ≤ 9223372036854775807)
    (h1 : nval ≤ e .idxcell) (h2 : 2 * nval ≤ e .xycoords) :
    Safe (cell2coord e nrows ncols nval cells) := by
  apply safe_of_wp (Q := fun _ => True)
  unfold cell2coord
  have h0 : 0 ≤ nrows * ncols := Int.mul_nonneg hr hc
  refine wp_bind (wp_forEach (fun i hi0 hi1 => ?_) (wp_pure trivial))
  wp_lin
  refine wp_getnxy (ncols_ne_zero_of_inGrid (nrows := nrows) (ncols := ncols) (c := cells i.toNat) (by unfold InGrid; omega)) (fun _ => ?_)
  wp_lin

theorem neighbours_safe (e : Ext) (nrows ncols idx : Int)
    (hr : 0 ≤ nrows) (hc : 0 ≤ ncols) (hN : nrows * ncols ≤ 9223372036854775807)
    (h1 : 9 ≤ e .neighbours) : Safe (neighbours e nrows ncols idx) := by
  apply safe_of_wp (Q := fun _ => True)
  unfold neighbours
  refine wp_bind (wp_mono (wp_neighboursInto h1 hr hc hN) (fun r _ => ?_))
  cases r <;> exact wp_pure trivial

theorem upstream_safe (e : Ext) (nrows ncols nval : Int) (code fdir cells : Nat → Int)
    (hr : 0 ≤ nrows) (hc : 0 ≤ ncols) (hN : nrows * ncols ≤ 9223372036854775807)
    (hfd : nrows * ncols ≤ e .flowdir) (hcode : 9 ≤ e .flowdircode)
    (h1 : nval ≤ e .idxdown) (h2 : 9 * nval ≤ e .idxup) :
    Safe (upstream e nrows ncols nval code fdir cells) := by
  apply safe_of_wp (Q := fun _ => True)
  unfold upstream
  refine wp_bind (wp_forLoop (fun _ _ => True) _ _ _ trivial ?_ ?_)
  · intro i _ hi0 hi1 _
    wp_lin
    refine wp_mono (wp_upstream1 hr hc hN hfd hcode (by omega) (by omega)) (fun ok _ => ?_)
    wp_lin
  · intro x _
    cases x <;> exact wp_pure trivial

theorem downstream_safe (e : Ext) (nrows ncols nval : Int) (code fdir cells : Nat → Int)
    (hr : 0 ≤ nrows) (hc : 0 ≤ ncols) (hN : nrows * ncols ≤ 9223372036854775807)
    (hfd : nrows * ncols ≤ e .flowdir) (hcode : 9 ≤ e .flowdircode)
    (h1 : nval ≤ e .idxup) (h2 : nval ≤ e .idxdown) :
    Safe (downstream e nrows ncols nval code fdir cells) := by
  apply safe_of_wp (Q := fun _ => True)
  unfold downstream
  refine wp_bind (wp_forLoop (fun _ _ => True) _ _ _ trivial ?_ ?_)
  · intro i _ hi0 hi1 _
    wp_lin
    refine wp_mono (wp_downstream1 hr hc hN hfd hcode (by omega) (by omega) (by omega)) (fun d _ => ?_)
    cases d <;> wp_lin
  · intro x _
    cases x <;> exact wp_pure trivial
theorem accumulate_safe (e : Ext) (nrows ncols nprint maxcells : Int) (code fdir : Nat → Int)
    (hc : 0 ≤ ncols) (hN : nrows * ncols ≤ 9223372036854775807)
    (hfd : nrows * ncols ≤ e .flowdir) (hcode : 9 ≤ e .flowdircode)
    (h1 : nrows * ncols ≤ e .toacc) (h2 : nrows * ncols ≤ e .accumulation) :
    Safe (accumulate e nrows ncols nprint maxcells code fdir) := by
  apply safe_of_wp (Q := fun _ => True)
  unfold accumulate
  refine wp_ite (fun _ => wp_pure trivial) (fun _ => wp_ite (fun _ => wp_pure trivial) (fun hr => ?_))
  have hr : 0 ≤ nrows := by omega
  have h0 : 0 ≤ nrows * ncols := Int.mul_nonneg hr hc
  refine wp_bind (wp_i64 ⟨by omega, by omega⟩ ?_)
  refine wp_bind (wp_forLoop (fun _ _ => True) _ _ _ trivial ?_ ?_)
  · intro i _ hi0 hi1 _
    wp_lin
    all_goals (
      refine wp_forLoop (fun _ cur => InGrid nrows ncols cur) _ _ i ?_ ?_ ?_
      · unfold InGrid; omega
      · intro j cur _ _ hcur
        unfold accWalk
        refine wp_bind (wp_mono (wp_downstream1 hr hc hN hfd hcode (le_refl 0) (by simp [oneExt]) (by simp [oneExt])) ?_)
        intro d hd
        cases d with
        | none => exact wp_pure (by intro s' hs; cases hs)
        | some dn =>
          have hdn := hd.2 dn rfl
          unfold InGrid at hdn hcur
          simp only []
          wp_lin
          intro s' hs; cases hs; unfold InGrid; omega
      · intro w _
        wp_run)
  · intro x _
    wp_run

theorem slope_safe (e : Ext) (nrows ncols nprint : Int) (code fdir : Nat → Int)
    (hc : 0 ≤ ncols) (hN : nrows * ncols ≤ 9223372036854775807)
    (hfd : nrows * ncols ≤ e .flowdir) (hcode : 9 ≤ e .flowdircode)
    (h1 : nrows * ncols ≤ e .altitude) (h2 : nrows * ncols ≤ e .slopeval) :
    Safe (slope e nrows ncols nprint code fdir) := by
  apply safe_of_wp (Q := fun _ => True)
  unfold slope
  refine wp_ite (fun _ => wp_pure trivial) (fun hr => ?_)
  have hr : 0 ≤ nrows := by omega
  have h0 : 0 ≤ nrows * ncols := Int.mul_nonneg hr hc
  refine wp_bind (wp_i64 ⟨by omega, by omega⟩ ?_)
  refine wp_bind (wp_forLoop (fun _ _ => True) _ _ _ trivial ?_ ?_)
  · intro i _ hi0 hi1 _
    wp_lin
    all_goals (
      refine wp_mono (wp_downstream1 hr hc hN hfd hcode (le_refl 0) (by simp [oneExt]) (by simp [oneExt])) ?_
      intro d hd
      cases d with
      | none => exact wp_pure (by intro s' hs; cases hs)
      | some dn =>
        have hdn := hd.2 dn rfl
        unfold InGrid at hdn
        simp only []
        wp_lin)
  · intro x _
    wp_run
theorem slice_safe (e : Ext) (nrows ncols nval : Int) (f1 f2 f3 : Nat → XInt × XInt)
    (hN : nrows * ncols ≤ 9223372036854775807)
    (h1 : nrows * ncols ≤ e .data) (h2 : 2 * nval ≤ e .xyslice) (h3 : nval ≤ e .zslice) :
    Safe (slice e nrows ncols nval f1 f2 f3) := by
  apply safe_of_wp (Q := fun _ => True)
  unfold slice
  refine wp_bind (wp_forEach (fun i hi0 hi1 => ?_) (wp_pure trivial))
  wp_lin
  refine wp_mono (wp_coord2cell1 _ _ hN) (fun c1 hc1 => ?_)
  refine wp_ite (fun _ => wp_pure trivial) (fun hp1 => ?_)
  have g1 : InGrid nrows ncols c1 := hc1.resolve_left (by omega)
  refine wp_bind (wp_getnxy (ncols_ne_zero_of_inGrid g1) (fun _ => ?_))
  unfold InGrid at g1
  wp_lin
  refine wp_mono (wp_coord2cell1 _ _ hN) (fun c2 hc2 => ?_)
  refine wp_ite (fun _ => wp_pure trivial) (fun hp2 => ?_)
  refine wp_bind (wp_mono (wp_coord2cell1 _ _ hN) (fun c3 hc3 => ?_))
  refine wp_ite (fun _ => wp_pure trivial) (fun hp3 => ?_)
  unfold InGrid at hc2 hc3
  wp_lin

theorem voronoi_safe (e : Ext) (nrows ncols ncells npoints : Int) (cells : Nat → Int) (closer : Nat → Nat → Bool)
    (h1 : ncells ≤ e .idxcellsArea) (h2 : 2 * npoints ≤ e .xypoints) (h3 : npoints ≤ e .weights) :
    Safe (voronoi e nrows ncols ncells npoints cells closer) := by
  apply safe_of_wp (Q := fun _ => True)
  unfold voronoi
  wp_lin
  refine wp_getnxy (by omega) (fun _ => ?_)
  refine wp_bind (wp_forLoop (fun _ jmin => 0 ≤ jmin ∧ jmin < npoints) _ _ _ (by simp; omega) ?_ ?_)
  · intro j jmin hj0 hj1 hI
    wp_lin
  · intro x hx
    cases x with
    | inr x => exact nomatch x
    | inl jmin =>
      have := hx jmin rfl
      wp_lin

theorem inside_safe (e : Ext) (nprint npoints nvertices : Int) (outbox : Nat → Bool)
    (hv : 1 ≤ nvertices) (hv32 : 2 * nvertices ≤ 2147483647)
    (h1 : 2 * npoints ≤ e .points) (h2 : 2 * nvertices ≤ e .polygon) (h3 : npoints ≤ e .inside)
    (h4 : 2 ≤ e .xlim) (h5 : 2 ≤ e .ylim) (h32 : 2 * npoints ≤ 2147483647) :
    Safe (inside e nprint npoints nvertices outbox) := by
  apply safe_of_wp (Q := fun _ => True)
  unfold inside
  refine wp_bind (wp_forEach (fun ipt hi0 hi1 => ?_) (wp_pure trivial))
  wp_lin

theorem excludeZeroArea_safe (e : Ext) (nval : Int) (h1 : 2 * nval ≤ e .xycoords) (h2 : nval ≤ e .idxok) :
    Safe (excludeZeroArea e nval) := by
  apply safe_of_wp (Q := fun _ => True)
  unfold excludeZeroArea
  wp_run

theorem delineateRiver_safe (e : Ext) (nrows ncols nval idxupstream : Int) (code fdir : Nat → Int)
    (hr : 0 ≤ nrows) (hc : 0 ≤ ncols) (hN : nrows * ncols ≤ 9223372036854775807)
    (hfd : nrows * ncols ≤ e .flowdir) (hcode : 9 ≤ e .flowdircode)
    (h1 : 1 ≤ e .npoints) (h2 : nval ≤ e .idxcells) (h3 : 5 * nval ≤ e .rivdata) :
    Safe (delineateRiver e nrows ncols nval idxupstream code fdir) := by
  apply safe_of_wp (Q := fun _ => True)
  unfold delineateRiver
  have h0 : 0 ≤ nrows * ncols := Int.mul_nonneg hr hc
  refine wp_bind (wp_i64 ⟨by omega, by omega⟩ ?_)
  refine wp_ite (fun _ => wp_pure trivial) (fun hv => ?_)
  wp_lin
  refine wp_forLoop (fun _ cur => InGrid nrows ncols cur) _ _ idxupstream ?_ ?_ ?_
  · unfold InGrid; omega
  · intro i cur hi0 hi1 hcur
    have hnz := ncols_ne_zero_of_inGrid hcur
    wp_lin
    refine wp_mono (wp_downstream1 hr hc hN hfd hcode (le_refl 0) (by simp [oneExt]) (by simp [oneExt])) ?_
    intro d hd
    wp_lin
    refine wp_getnxy hnz (fun _ => ?_)
    wp_lin
    · cases d with
      | none => exact wp_pure (by intro s' hs; cases hs)
      | some dn =>
        have hdn := hd.2 dn rfl
        simp only []
        wp_lin
        intro s' hs; cases hs
        rcases hdn with h | h | h
        · omega
        · omega
        · exact h
  · intro x _
    wp_run

theorem flowpathlengths_safe (e : Ext) (nrows ncols nval outlet : Int) (code fdir cells : Nat → Int)
    (hr : 0 ≤ nrows) (hc : 0 ≤ ncols) (hN : nrows * ncols ≤ 9223372036854775807)
    (hfd : nrows * ncols ≤ e .flowdir) (hcode : 9 ≤ e .flowdircode)
    (h1 : nval ≤ e .idxcellsArea) (h2 : 3 * nval ≤ e .flowpaths) :
    Safe (flowpathlengths e nrows ncols nval outlet code fdir cells) := by
  apply safe_of_wp (Q := fun _ => True)
  unfold flowpathlengths
  refine wp_bind (wp_forEach (fun i hi0 hi1 => ?_) (wp_pure trivial))
  wp_lin
  -- the walk keeps `idxcell_down` either negative or a cell of the grid
  refine wp_forLoopP (fun _ (s : Int × Int × Int) => s.2.1 < 0 ∨ InGrid nrows ncols s.2.1)
    (fun (s : Int × Int × Int) => s.2.1 < 0 ∨ InGrid nrows ncols s.2.1) _ _ _ (Or.inl (by simp)) ?_ ?_
  · intro j s _ _ hs
    unfold flowpathWalk
    refine wp_bind (wp_mono (wp_downstream1 hr hc hN hfd hcode (le_refl 0) (by simp [oneExt]) (by simp [oneExt])) ?_)
    intro d hd
    cases d with
    | none => exact wp_pure ⟨(by intro s' h; cases h), (by intro r h; cases h; exact hs)⟩
    | some dn =>
      have hdn := hd.2 dn rfl
      simp only []
      refine wp_ite (fun hneg => wp_pure ⟨(by intro s' h; cases h), (by intro r h; cases h; exact Or.inl hneg)⟩)
        (fun hpos => ?_)
      have hg : InGrid nrows ncols dn := by
        rcases hdn with h | h | h
        · omega
        · omega
        · exact h
      refine wp_ite (fun _ => wp_pure ⟨(by intro s' h; cases h), (by intro r h; cases h; exact Or.inr hg)⟩) (fun _ => ?_)
      have hnz := ncols_ne_zero_of_inGrid hg
      unfold stepSquareDist
      refine wp_bind (wp_bind (wp_getnxy hnz (fun _ => wp_bind (wp_getnxy hnz (fun _ => wp_pure ?_)))))
      exact wp_pure ⟨(by intro s' h; cases h; exact Or.inr hg), (by intro r h; cases h)⟩
  · intro x hinv hp
    have hx : ∀ s, (x = .inl s ∨ x = .inr s) → (s.2.1 < 0 ∨ InGrid nrows ncols s.2.1) := by
      intro s h
      rcases h with h | h
      · exact hinv s h
      · exact hp s h
    cases x with
    | inl s =>
      have := hx s (Or.inl rfl)
      simp only []
      refine wp_ite (fun hcnd => ?_) (fun _ => by wp_lin)
      have hg : InGrid nrows ncols s.2.1 := this.resolve_left (by omega)
      have hnz := ncols_ne_zero_of_inGrid hg
      unfold stepSquareDist
      refine wp_bind (wp_bind (wp_getnxy hnz (fun _ => wp_bind (wp_getnxy hnz (fun _ => wp_pure ?_)))))
      wp_lin
    | inr s =>
      have := hx s (Or.inr rfl)
      simp only []
      refine wp_ite (fun hcnd => ?_) (fun _ => by wp_lin)
      have hg : InGrid nrows ncols s.2.1 := this.resolve_left (by omega)
      have hnz := ncols_ne_zero_of_inGrid hg
      unfold stepSquareDist
      refine wp_bind (wp_bind (wp_getnxy hnz (fun _ => wp_bind (wp_getnxy hnz (fun _ => wp_pure ?_)))))
      wp_lin
/-- `c_intersect`: the cells stored so far are distinct cells of the target grid, so there are at most
`nrows*ncols` of them — the extent `Catchment.intersect` allocates — whatever the number of points -/
theorem intersect_safe (e : Ext) (nrows ncols nval : Int) (f : Nat → XInt × XInt)
    (hr : 0 ≤ nrows) (hc : 0 ≤ ncols) (hN : nrows * ncols ≤ 9223372036854775807)
    (h1 : 2 * nval ≤ e .xyarea) (h2 : nrows * ncols ≤ e .idxcells) (h3 : nrows * ncols ≤ e .weights)
    (h4 : 1 ≤ e .npoints) :
    Safe (intersect e nrows ncols nval f) := by
  apply safe_of_wp (Q := fun _ => True)
  unfold intersect
  have h0 : 0 ≤ nrows * ncols := Int.mul_nonneg hr hc
  refine wp_bind (wp_forLoop (fun _ stored => stored.Nodup ∧ ∀ x ∈ stored, 0 ≤ x ∧ x < nrows * ncols) _ _ []
    ⟨List.nodup_nil, by simp⟩ ?_ ?_)
  · intro i stored hi0 hi1 hI
    have hlen := length_le_of_nodup_range h0 stored hI.1 hI.2
    wp_lin
    refine wp_mono (wp_coord2cell1 _ _ hN) (fun c hc => ?_)
    refine wp_ite (fun _ => wp_pure (by intro s' hs; cases hs; exact hI)) (fun hp => ?_)
    have hg : 0 ≤ c ∧ c < nrows * ncols := hc.resolve_left (by omega)
    refine wp_bind (wp_mono (wp_intersectFind (by omega) (by omega)) (fun found hf => ?_))
    refine wp_bite (fun _ => wp_pure (by intro s' hs; cases hs; exact hI)) (fun hnf => ?_)
    have hnot : c ∉ stored := by
      intro hm
      have := hf.2 hm
      rw [hnf] at this
      cases this
    have hnd : (stored ++ [c]).Nodup := by
      rw [List.nodup_append]
      refine ⟨hI.1, List.nodup_singleton c, ?_⟩
      intro a ha b hb
      simp at hb
      subst hb
      intro hab; subst hab; exact hnot ha
    have hrange : ∀ x ∈ stored ++ [c], 0 ≤ x ∧ x < nrows * ncols := by
      intro x hx
      rcases List.mem_append.1 hx with h | h
      · exact hI.2 x h
      · simp at h; subst h; exact hg
    have hlen2 := length_le_of_nodup_range h0 _ hnd hrange
    simp at hlen2
    wp_lin
  · intro x _
    cases x with
    | inr x => exact nomatch x
    | inl s => wp_lin
/-- `c_delineate_boundary` (after the fixes): for any area cells (sorted by `qsort`), any mask content, any grid
with sides below 2·10⁹ — cells outside the grid are refused before they index the mask, the boundary buffer is
written at `knext` only when a cell was found -/
theorem delineateBoundary_safe (e : Ext) (nrows ncols nval : Int) (cells mask : Nat → Int)
    (hr : 0 ≤ nrows ∧ nrows ≤ 2000000000) (hc : 0 ≤ ncols ∧ ncols ≤ 2000000000)
    (hsorted : ∀ i j : Nat, i ≤ j → (j : Int) < nval → cells i ≤ cells j)
    (h1 : nval ≤ e .idxcellsArea) (h2 : nval ≤ e .buffer) (h3 : nrows * ncols ≤ e .mask)
    (h4 : nval ≤ e .idxboundary) :
    Safe (delineateBoundary e nrows ncols nval cells mask) := by
  apply safe_of_wp (Q := fun _ => True)
  unfold delineateBoundary
  refine wp_ite (fun _ => wp_pure trivial) (fun hv => ?_)
  have hv : 1 ≤ nval := by omega
  have hn0 : 0 ≤ nrows * ncols := Int.mul_nonneg hr.1 hc.1
  have hn1 : nrows * ncols ≤ 4000000000000000000 := by nlinarith
  refine wp_bind (wp_i64 ⟨by omega, by omega⟩ ?_)
  refine wp_bind (wp_forEach (fun i _ _ => wp_acc ⟨by omega, by omega⟩ trivial) ?_)
  refine wp_bind (wp_rdI ⟨by omega, by omega⟩ ?_)
  refine wp_ite (fun _ => wp_pure trivial) (fun hfirst => ?_)
  refine wp_bind (wp_rdI ⟨by omega, by omega⟩ ?_)
  refine wp_ite (fun _ => wp_pure trivial) (fun hlast => ?_)
  have hcells : ∀ i : Nat, (i : Int) < nval → 0 ≤ cells i ∧ cells i < nrows * ncols := by
    intro i hi
    have a := hsorted 0 i (Nat.zero_le _) hi
    have b := hsorted i (nval - 1).toNat (by omega) (by omega)
    simp only [Int.toNat_zero] at hfirst
    omega
  refine wp_bind (wp_mono (wp_bndStep1 hv h1 h2 h3 hcells hn1 hc) (fun b1 hb1 => ?_))
  cases b1 with
  | none => exact wp_pure trivial
  | some buf =>
    obtain ⟨hl1, hl2, hmem⟩ := hb1 buf rfl
    simp only []
    have hstart : buf.getD 0 (-1) ∈ buf := by
      have hlt : 0 < buf.length := by omega
      simp only [List.getD_eq_getElem?_getD, List.getElem?_eq_getElem hlt, Option.getD_some]
      exact List.getElem_mem _
    have hgs : InGrid nrows ncols (buf.getD 0 (-1)) := hmem _ hstart
    refine wp_bind (wp_acc ⟨by omega, by omega⟩ ?_)
    refine wp_bind (wp_getnxy_range hgs hc.1 (fun sxy hsxy => ?_))
    refine wp_bind (wp_acc ⟨by omega, by omega⟩ ?_)
    have hd : (if nrows > ncols then nrows else ncols) * (if nrows > ncols then nrows else ncols)
        ≤ 4000000000000000000 ∧ 0 ≤ (if nrows > ncols then nrows else ncols) *
          (if nrows > ncols then nrows else ncols) := by
      split <;> constructor <;> nlinarith
    refine wp_bind (wp_i64 ⟨by omega, by omega⟩ ?_)
    refine wp_bind (wp_forLoopP (BndInv nrows ncols buf.length) (fun (s : Bnd2) => 0 ≤ s.ibnd ∧ s.ibnd < (buf.length : Int))
      _ _ _ ?_ ?_ ?_)
    · refine ⟨hgs, by simp, ?_, ⟨Or.inl rfl, (by intro h; simp at h)⟩, rfl⟩
      intro b hb'
      rcases List.mem_or_eq_of_mem_set hb' with h | h
      · exact Or.inr (hmem b h)
      · left; omega
    · intro j s hj0 hj1 hI
      exact wp_bndWalk (by omega) (by omega) ⟨hj0, by omega⟩ hr.2 hc ⟨hsxy.1, hsxy.2.1⟩
        ⟨hsxy.2.2.1, hsxy.2.2.2⟩ hI
    · intro x hinl hinr
      have hib : ∀ s : Bnd2, (x = .inl s ∨ x = .inr s) → 0 ≤ s.ibnd ∧ s.ibnd ≤ (buf.length : Int) := by
        intro s h
        rcases h with h | h
        · have := (hinl s h).2.2.2.2
          omega
        · have := hinr s h
          omega
      cases x with
      | inl s =>
        have := hib s (Or.inl rfl)
        simp only []
        wp_lin
      | inr s =>
        have := hib s (Or.inr rfl)
        simp only []
        wp_lin
/-- `c_delineate_area`: for any flow directions (cycles included), any outlet, inlets and buffer size `nval` —
the three work buffers of `nval` cells are never overrun, and the unbounded `while` loop ends within `nval+1`
layers -/
theorem delineateArea_safe (e : Ext) (nrows ncols nval ninlets idxoutlet : Int) (code fdir inlets : Nat → Int)
    (hr : 0 ≤ nrows) (hc : 0 ≤ ncols) (hN : nrows * ncols ≤ 9223372036854775807)
    (hfd : nrows * ncols ≤ e .flowdir) (hcode : 9 ≤ e .flowdircode) (hin : ninlets ≤ e .idxinlets)
    (ha : nval ≤ e .idxcellsArea) (hb1 : nval ≤ e .buffer1) (hb2 : nval ≤ e .buffer2) :
    Safe (delineateArea e nrows ncols nval ninlets idxoutlet code fdir inlets) := by
  apply safe_of_wp (Q := fun _ => True)
  unfold delineateArea
  refine wp_ite (fun _ => wp_pure trivial) (fun hv => ?_)
  have hn0 : 0 ≤ nrows * ncols := Int.mul_nonneg hr hc
  refine wp_bind (wp_i64 ⟨by omega, by omega⟩ ?_)
  refine wp_ite (fun _ => wp_pure trivial) (fun ho => ?_)
  refine wp_bind (wp_forLoop (fun _ _ => True) _ _ _ trivial ?_ ?_)
  · intro m _ _ _ _
    wp_lin
  · intro r _
    cases r with
    | inr u => exact wp_pure trivial
    | inl u =>
      simp only []
      refine wp_bind (wp_acc ⟨by omega, by omega⟩ ?_)
      refine wp_bind (wp_forLoop (LInv nrows ncols nval) _ _ _ ?_ ?_ ?_)
      · refine ⟨by simp, by simp; omega, by simp, by simp; omega, ?_⟩
        intro b hb
        simp at hb
        subst hb
        unfold InGrid; omega
      · intro t s ht0 _ hs
        exact wp_daLayer hr hc hN hfd hcode hin ha hb1 hb2 ht0 hs
      · intro w hw
        cases w with
        | inr c => exact wp_pure trivial
        | inl s =>
          have := hw s rfl
          unfold LInv at this
          omega
/-! ## rejected input: the error return / sentinel comes BEFORE any access

"Input the kernels cannot handle is answered with a Python exception or the documented sentinel value": for the
inputs below the model returns its error code (turned into `ValueError` by the Python wrapper — compared with the
real code on every recorded call) or the documented sentinel, whatever the extents of the buffers: nothing is
touched (equalities hold for every `e`, also `e = fun _ => 0`). -/

theorem aggregate_rejects_empty (e : Ext) (nval : Int) (idx : Nat → Int) (h : nval < 1) :
    aggregate e nval idx = .ok 1 := by
  unfold aggregate; simp [h]; rfl

theorem flathomogen_rejects_empty (e : Ext) (nval : Int) (idx : Nat → Int) (h : nval < 1) :
    flathomogen e nval idx = .ok 1 := by
  unfold flathomogen; simp [h]; rfl

theorem eckhardt_empty (e : Ext) (nval : Int) (h : nval < 1) : eckhardt e nval false = .ok 0 := by
  unfold eckhardt; simp [h]; rfl

theorem eckhardt_rejects_badparam (e : Ext) (nval : Int) : eckhardt e nval true = .ok 1 := by
  unfold eckhardt; simp; rfl

theorem islin_empty (e : Ext) (nval npoints : Int) (lin : Nat → Bool) (h : nval < 1) :
    islin e nval npoints lin = .ok 0 := by
  unfold islin
  have h2 : nval < 2 := by omega
  have h1 : ¬ nval = 1 := by omega
  simp [h2, h1]; rfl

theorem armodelSim_rejects_order (e : Ext) (nval nparams : Int) (pnan : Nat → Bool) (bad : Bool)
    (h : nparams ≤ 0 ∨ nparams > 10) : armodelSim e nval nparams pnan bad = .ok 1 := by
  unfold armodelSim arChecks
  have : nparams > arMax ∨ nparams ≤ 0 := by unfold arMax; omega
  simp [this]; rfl

theorem armodelResidual_rejects_order (e : Ext) (nval nparams : Int) (pnan : Nat → Bool) (bad : Bool)
    (xnan : Nat → Bool) (h : nparams ≤ 0 ∨ nparams > 10) :
    armodelResidual e nval nparams pnan bad xnan = .ok 1 := by
  unfold armodelResidual arChecks
  have : nparams > arMax ∨ nparams ≤ 0 := by unfold arMax; omega
  simp [this]; rfl

theorem ensrank_rejects_size (e : Ext) (nval ncol : Int) (h : ncol ≤ 0 ∨ nval ≤ 0) :
    ensrank e nval ncol false = .ok 1 := by
  unfold ensrank; simp [h]; rfl

theorem voronoi_rejects (e : Ext) (nrows ncols ncells npoints : Int) (cells : Nat → Int)
    (closer : Nat → Nat → Bool) (h : npoints < 1 ∨ nrows < 1 ∨ ncols < 1) :
    voronoi e nrows ncols ncells npoints cells closer = .ok 1 := by
  unfold voronoi
  by_cases h1 : npoints < 1
  · simp [h1]; rfl
  · have h2 : nrows < 1 ∨ ncols < 1 := by omega
    simp [h1, h2]; rfl

theorem accumulate_rejects (e : Ext) (nrows ncols nprint maxcells : Int) (code fdir : Nat → Int)
    (h : maxcells < 1 ∨ nrows < 1) : accumulate e nrows ncols nprint maxcells code fdir = .ok 1 := by
  unfold accumulate
  by_cases h1 : maxcells < 1
  · simp [h1]; rfl
  · have h2 : nrows < 1 := by omega
    simp [h1, h2]; rfl

theorem delineateArea_rejects_nval (e : Ext) (nrows ncols nval ninlets idxoutlet : Int)
    (code fdir inlets : Nat → Int) (h : nval < 1) :
    delineateArea e nrows ncols nval ninlets idxoutlet code fdir inlets = .ok 1 := by
  unfold delineateArea; simp [h]; rfl

theorem delineateBoundary_rejects_nval (e : Ext) (nrows ncols nval : Int) (cells mask : Nat → Int)
    (h : nval < 1) : delineateBoundary e nrows ncols nval cells mask = .ok 1 := by
  unfold delineateBoundary; simp [h]; rfl

theorem excludeZeroArea_rejects (e : Ext) (nval : Int) (h : nval ≤ 2) : excludeZeroArea e nval = .ok 1 := by
  unfold excludeZeroArea; simp [h]; rfl

theorem combi_sentinel (n k : Int) (h : n < 0 ∨ k < 0 ∨ k > 30) : combi n k = .ok (-1) := by
  unfold combi; simp [h]; rfl

theorem var2h_rejects_options (e : Ext) (nvalvar nvalh nbsec rainfall hstart : Int) (sec : Nat → Int)
    (h : rainfall < 0 ∨ rainfall > 1 ∨ (nbsec ≠ 1800 ∧ nbsec ≠ 3600)) :
    var2h e nvalvar nvalh nbsec rainfall hstart sec = .ok 1 := by
  unfold var2h
  by_cases h1 : rainfall < 0 ∨ rainfall > 1
  · simp [h1]; rfl
  · have h2 : nbsec ≠ 1800 ∧ nbsec ≠ 3600 := by omega
    simp [h1, h2]; rfl
theorem neighbours_rejects_cell (e : Ext) (nrows ncols idx : Int)
    (hN : -9223372036854775808 ≤ nrows * ncols ∧ nrows * ncols ≤ 9223372036854775807)
    (h : idx < 0 ∨ idx ≥ nrows * ncols) : neighbours e nrows ncols idx = .ok 1 := by
  unfold neighbours neighboursInto
  simp [i64, i64min, i64max, hN.1, hN.2, h, bind, Except.bind, pure, Except.pure]

/-- area cells outside the grid (below 0 after the sort): error return, only `idxcells_area` was touched -/
theorem delineateBoundary_rejects_negative_cell (e : Ext) (nrows ncols nval : Int) (cells mask : Nat → Int)
    (hv : 1 ≤ nval) (h1 : nval ≤ e .idxcellsArea)
    (hN : -9223372036854775808 ≤ nrows * ncols ∧ nrows * ncols ≤ 9223372036854775807)
    (hneg : cells 0 < 0) :
    wp (delineateBoundary e nrows ncols nval cells mask) (fun c => c = 1) := by
  unfold delineateBoundary
  refine wp_ite (fun h => by omega) (fun _ => ?_)
  refine wp_bind (wp_i64 hN ?_)
  refine wp_bind (wp_forEach (fun i _ _ => wp_acc ⟨by omega, by omega⟩ trivial) ?_)
  refine wp_bind (wp_rdI ⟨by omega, by omega⟩ ?_)
  simp only [Int.toNat_zero]
  exact wp_ite (fun _ => wp_pure rfl) (fun h => absurd hneg h)

/-! ## wrapper obligations

For every Cython wrapper `f` the generated `PyxSpec.f` gives the shapes, the integer scalars, the `assert`
lines and the actual arguments of the kernel call. Each theorem below derives the kernel's precondition from
the asserts (plus, where the asserts do not suffice, the hand-written `PyAlloc_f` of `Lemmas/C05Wrap.lean` —
what the Python wrapper establishes — and the explicit size assumptions `intFit` / `NumpySize` / the 32-bit
products of the `int` kernels), and concludes that the footprint model, run with the extents of the buffers
actually handed over, is safe for all contents. A weakened or deleted assert in the `.pyx` makes the
corresponding `asserts` weaker and the proof fail. -/
section wrappers
open HydroVerif.Generated PyxSpec

macro "wrap_arith" : tactic =>
  `(tactic| first | omega | (push_cast; omega) | (push_cast; nlinarith) | (push_cast; ring_nf; omega) | (push_cast at *; nlinarith))

theorem aggregate_wrapper (s : aggregate.Shapes) (v : aggregate.Scalars) (ha : aggregate.asserts s v)
    (idx : Nat → Int) :
    Safe (C05.aggregate (ext_aggregate (aggregate.call s v)) (aggregate.call s v).nval idx) := by
  unfold aggregate.asserts at ha
  apply aggregate_safe <;> simp [ext_aggregate, aggregate.call] <;> wrap_arith

theorem flathomogen_wrapper (s : flathomogen.Shapes) (v : flathomogen.Scalars) (ha : flathomogen.asserts s v)
    (idx : Nat → Int) :
    Safe (C05.flathomogen (ext_flathomogen (flathomogen.call s v)) (flathomogen.call s v).nval idx) := by
  unfold flathomogen.asserts at ha
  apply flathomogen_safe <;> simp [ext_flathomogen, flathomogen.call] <;> wrap_arith

theorem islin_wrapper (s : islin.Shapes) (v : islin.Scalars) (ha : islin.asserts s v) (lin : Nat → Bool) :
    Safe (C05.islin (ext_islin (islin.call s v)) (islin.call s v).nval (islin.call s v).npoints lin) := by
  unfold islin.asserts at ha
  apply islin_safe <;> simp [ext_islin, islin.call] <;> wrap_arith

theorem eckhardt_wrapper (s : eckhardt.Shapes) (v : eckhardt.Scalars) (ha : eckhardt.asserts s v) (bad : Bool) :
    Safe (C05.eckhardt (ext_eckhardt (eckhardt.call s v)) (eckhardt.call s v).nval bad) := by
  unfold eckhardt.asserts at ha
  apply eckhardt_safe <;> simp [ext_eckhardt, eckhardt.call] <;> wrap_arith

theorem var2h_wrapper (s : var2h.Shapes) (v : var2h.Scalars) (ha : var2h.asserts s v)
    (hf : var2h.intFit s v) (hp : PyAlloc_var2h v) (sec : Nat → Int) :
    Safe (C05.var2h (ext_var2h (var2h.call s v)) (var2h.call s v).nvalvar (var2h.call s v).nvalh
      (var2h.call s v).nbsec_per_period (var2h.call s v).rainfall (var2h.call s v).hstartsec sec) := by
  unfold var2h.asserts at ha
  unfold var2h.intFit at hf
  unfold PyAlloc_var2h at hp
  apply var2h_safe <;> simp [ext_var2h, var2h.call] <;> wrap_arith

theorem add1month_wrapper (s : add1month.Shapes) (v : add1month.Scalars) (ha : add1month.asserts s v)
    (d : Nat → Int) (hd : ∀ k, I32 (d k)) :
    Safe (C05.add1month (ext_add1month (add1month.call s v)) d) := by
  unfold add1month.asserts at ha
  apply add1month_safe _ _ _ hd; simp [ext_add1month, add1month.call]; wrap_arith

theorem add1day_wrapper (s : add1day.Shapes) (v : add1day.Scalars) (ha : add1day.asserts s v)
    (d : Nat → Int) (hd : ∀ k, I32 (d k)) :
    Safe (C05.add1day (ext_add1day (add1day.call s v)) d) := by
  unfold add1day.asserts at ha
  apply add1day_safe _ _ _ hd; simp [ext_add1day, add1day.call]; wrap_arith

theorem comparedates_wrapper (s : comparedates.Shapes) (v : comparedates.Scalars)
    (ha : comparedates.asserts s v) (a b : Nat → Int) :
    Safe (C05.comparedates (ext_comparedates (comparedates.call s v)) a b) := by
  unfold comparedates.asserts at ha
  apply comparedates_safe <;> simp [ext_comparedates, comparedates.call] <;> wrap_arith

theorem getdate_wrapper (s : getdate.Shapes) (v : getdate.Scalars) (ha : getdate.asserts s v)
    (d4 d2 d0 : Int) (h0 : -2147483648 < d0 ∧ d0 < 2147483648) (h4 : -214748 ≤ d4 ∧ d4 ≤ 214748)
    (h42 : -101 ≤ d2 - d4 * 100 ∧ d2 - d4 * 100 ≤ 101)
    (h40 : -10001 ≤ d0 - d4 * 10000 ∧ d0 - d4 * 10000 ≤ 10001) (inrange : Bool) :
    Safe (C05.getdate (ext_getdate (getdate.call s v)) inrange (some d4) (some d2) (some d0)) := by
  unfold getdate.asserts at ha
  apply getdate_safe _ _ _ _ _ h0 h4 h42 h40; simp [ext_getdate, getdate.call]; wrap_arith

theorem combi_wrapper (s : combi.Shapes) (v : combi.Scalars) (hr : combi.scalarRange v) :
    Safe (C05.combi (combi.call s v).n (combi.call s v).k) := by
  unfold combi.scalarRange FitsI32 at hr
  exact combi_safe _ _ hr.1
theorem armodel_sim_wrapper (s : armodel_sim.Shapes) (v : armodel_sim.Scalars) (ha : armodel_sim.asserts s v)
    (pnan : Nat → Bool) (bad : Bool) :
    Safe (armodelSim (ext_armodel_sim (armodel_sim.call s v)) (armodel_sim.call s v).nval
      (armodel_sim.call s v).nparams pnan bad) := by
  unfold armodel_sim.asserts at ha
  apply armodelSim_safe <;> simp [ext_armodel_sim, armodel_sim.call] <;> wrap_arith

theorem armodel_residual_wrapper (s : armodel_residual.Shapes) (v : armodel_residual.Scalars)
    (ha : armodel_residual.asserts s v) (pnan : Nat → Bool) (bad : Bool) (xnan : Nat → Bool) :
    Safe (armodelResidual (ext_armodel_residual (armodel_residual.call s v)) (armodel_residual.call s v).nval
      (armodel_residual.call s v).nparams pnan bad xnan) := by
  unfold armodel_residual.asserts at ha
  apply armodelResidual_safe <;> simp [ext_armodel_residual, armodel_residual.call] <;> wrap_arith

theorem crps_wrapper (s : crps.Shapes) (v : crps.Scalars) (ha : crps.asserts s v) (hp : PyAlloc_crps s v)
    (h32 : (s.sim_1 : Int) * s.sim_0 ≤ 2147483647) (h33 : ((s.sim_1 : Int) + 1) * 7 ≤ 2147483647)
    (unsorted : Nat → Nat → Bool) :
    Safe (C05.crps (ext_crps (crps.call s v)) (crps.call s v).nval (crps.call s v).ncol
      (crps.call s v).use_weights unsorted) := by
  unfold crps.asserts at ha
  unfold PyAlloc_crps at hp
  obtain ⟨a1, a2, a3, a4⟩ := ha
  obtain ⟨p1, p2, p3⟩ := hp
  apply crps_safe <;> simp only [ext_crps, crps.call]
  · omega
  · omega
  · push_cast; nlinarith
  · intro h; omega
  · push_cast; rw [a3, a4]
  · omega
  · exact h32
  · exact h33

theorem ensrank_wrapper (s : ensrank.Shapes) (v : ensrank.Scalars) (ha : ensrank.asserts s v)
    (h32 : (s.sim_1 : Int) * s.sim_0 ≤ 2147483647) (h33 : (s.sim_0 : Int) * s.sim_0 ≤ 2147483647)
    (h34 : 2 * (s.sim_1 : Int) ≤ 2147483647) (badeps : Bool) :
    Safe (C05.ensrank (ext_ensrank (ensrank.call s v)) (ensrank.call s v).nval (ensrank.call s v).ncol badeps) := by
  unfold ensrank.asserts at ha
  obtain ⟨a1, a2, a3⟩ := ha
  apply ensrank_safe <;> simp only [ext_ensrank, ensrank.call]
  · push_cast; nlinarith
  · push_cast; rw [← a2, ← a3]
  · omega
  · exact h32
  · exact h33
  · exact h34

theorem ad_test_wrapper (s : ad_test.Shapes) (v : ad_test.Scalars) (ha : ad_test.asserts s v) (bad : Nat → Bool) :
    Safe (adTest (ext_ad_test (ad_test.call s v)) (ad_test.call s v).nval bad) := by
  unfold ad_test.asserts at ha
  apply adTest_safe <;> simp [ext_ad_test, ad_test.call] <;> wrap_arith

theorem pareto_front_wrapper (s : pareto_front.Shapes) (v : pareto_front.Scalars) (ha : pareto_front.asserts s v)
    (h32 : (s.data_1 : Int) * s.data_0 ≤ 2147483647) (dom : Nat → Nat → Bool) :
    Safe (paretofront (ext_paretofront (pareto_front.call s v)) (pareto_front.call s v).nval
      (pareto_front.call s v).ncol dom) := by
  unfold pareto_front.asserts at ha
  apply paretofront_safe <;> simp only [ext_paretofront, pareto_front.call]
  · omega
  · push_cast; nlinarith
  · omega
  · exact h32

theorem olsleverage_wrapper (s : olsleverage.Shapes) (v : olsleverage.Scalars) (ha : olsleverage.asserts s v)
    (h32 : (s.predictors_1 : Int) * s.predictors_0 ≤ 2147483647)
    (h33 : (s.predictors_1 : Int) * s.predictors_1 ≤ 2147483647) :
    Safe (C05.olsleverage (ext_olsleverage (olsleverage.call s v)) (olsleverage.call s v).nval
      (olsleverage.call s v).npreds) := by
  unfold olsleverage.asserts at ha
  obtain ⟨a1, a2, a3⟩ := ha
  apply olsleverage_safe <;> simp only [ext_olsleverage, olsleverage.call]
  · omega
  · push_cast; nlinarith
  · push_cast; rw [a3, ← a2]
  · omega
  · exact h32
  · exact h33

theorem coord2cell_wrapper (s : coord2cell.Shapes) (v : coord2cell.Scalars) (ha : coord2cell.asserts s v)
    (hp : PyAlloc_coord2cell s v) (fx fy : Nat → XInt) :
    Safe (C05.coord2cell (ext_coord2cell (coord2cell.call s v)) (coord2cell.call s v).nrows
      (coord2cell.call s v).ncols (coord2cell.call s v).nval fx fy) := by
  unfold coord2cell.asserts at ha
  obtain ⟨p1, p2, p3, p4⟩ := hp
  apply coord2cell_safe <;> simp only [ext_coord2cell, coord2cell.call]
  · exact p4
  · rw [p1]; push_cast; omega
  · omega

theorem cell2coord_wrapper (s : cell2coord.Shapes) (v : cell2coord.Scalars) (ha : cell2coord.asserts s v)
    (hp : PyAlloc_grid v.nrows v.ncols) (cells : Nat → Int) :
    Safe (C05.cell2coord (ext_cell2coord (cell2coord.call s v)) (cell2coord.call s v).nrows
      (cell2coord.call s v).ncols (cell2coord.call s v).nval cells) := by
  unfold cell2coord.asserts at ha
  obtain ⟨p1, p2, p3⟩ := hp
  obtain ⟨a1, a2⟩ := ha
  apply cell2coord_safe <;> simp only [ext_cell2coord, cell2coord.call]
  · exact p1
  · exact p2
  · exact p3
  · omega
  · push_cast; rw [a2]; omega

theorem cell2rowcol_wrapper (s : cell2rowcol.Shapes) (v : cell2rowcol.Scalars) (ha : cell2rowcol.asserts s v)
    (hp : PyAlloc_grid v.nrows v.ncols) (cells : Nat → Int) :
    Safe (C05.cell2rowcol (ext_cell2rowcol (cell2rowcol.call s v)) (cell2rowcol.call s v).nrows
      (cell2rowcol.call s v).ncols (cell2rowcol.call s v).nval cells) := by
  unfold cell2rowcol.asserts at ha
  obtain ⟨p1, p2, p3⟩ := hp
  obtain ⟨a1, a2⟩ := ha
  apply cell2rowcol_safe <;> simp only [ext_cell2rowcol, cell2rowcol.call]
  · exact p1
  · exact p2
  · exact p3
  · omega
  · push_cast; rw [a2]; omega

theorem neighbours_wrapper (s : neighbours.Shapes) (v : neighbours.Scalars) (ha : neighbours.asserts s v)
    (hp : PyAlloc_grid v.nrows v.ncols) :
    Safe (C05.neighbours (ext_neighbours (neighbours.call s v)) (neighbours.call s v).nrows
      (neighbours.call s v).ncols (neighbours.call s v).idxcell) := by
  unfold neighbours.asserts at ha
  obtain ⟨p1, p2, p3⟩ := hp
  apply neighbours_safe <;> simp only [ext_neighbours, neighbours.call]
  · exact p1
  · exact p2
  · exact p3
  · omega

theorem slice_wrapper (s : slice'.Shapes) (v : slice'.Scalars) (ha : slice'.asserts s v)
    (hp : PyAlloc_slice s) (f1 f2 f3 : Nat → XInt × XInt) :
    Safe (C05.slice (ext_slice (slice'.call s v)) (slice'.call s v).nrows (slice'.call s v).ncols
      (slice'.call s v).nval f1 f2 f3) := by
  unfold slice'.asserts at ha
  obtain ⟨p1, p2⟩ := hp
  unfold NumpySize at p2
  apply slice_safe <;> simp only [ext_slice, slice'.call]
  · exact p2
  · push_cast; omega
  · push_cast; rw [ha]; omega
  · omega
theorem upstream_wrapper (s : upstream.Shapes) (v : upstream.Scalars) (ha : upstream.asserts s v)
    (hn : NumpySize s.flowdir_0 s.flowdir_1) (code fdir cells : Nat → Int) :
    Safe (C05.upstream (ext_upstream (upstream.call s v)) (upstream.call s v).nrows (upstream.call s v).ncols
      (upstream.call s v).nval code fdir cells) := by
  unfold upstream.asserts at ha
  unfold NumpySize at hn
  obtain ⟨a1, a2, a3, a4⟩ := ha
  apply upstream_safe <;> simp only [ext_upstream, upstream.call]
  · omega
  · omega
  · exact hn
  · push_cast; omega
  · have e0 : s.flowdircode_0 = 3 := by omega
    have e1 : s.flowdircode_1 = 3 := by omega
    rw [e0, e1]
  · omega
  · push_cast; rw [a2]; omega

theorem downstream_wrapper (s : downstream.Shapes) (v : downstream.Scalars) (ha : downstream.asserts s v)
    (hn : NumpySize s.flowdir_0 s.flowdir_1) (code fdir cells : Nat → Int) :
    Safe (C05.downstream (ext_downstream (downstream.call s v)) (downstream.call s v).nrows
      (downstream.call s v).ncols (downstream.call s v).nval code fdir cells) := by
  unfold downstream.asserts at ha
  unfold NumpySize at hn
  obtain ⟨a1, a2, a3⟩ := ha
  apply downstream_safe <;> simp only [ext_downstream, downstream.call]
  · omega
  · omega
  · exact hn
  · push_cast; omega
  · have e0 : s.flowdircode_0 = 3 := by omega
    have e1 : s.flowdircode_1 = 3 := by omega
    rw [e0, e1]
  · omega
  · omega

theorem accumulate_wrapper (s : accumulate.Shapes) (v : accumulate.Scalars) (ha : accumulate.asserts s v)
    (hn : NumpySize s.flowdir_0 s.flowdir_1) (code fdir : Nat → Int) :
    Safe (C05.accumulate (ext_accumulate (accumulate.call s v)) (accumulate.call s v).nrows
      (accumulate.call s v).ncols (accumulate.call s v).nprint (accumulate.call s v).max_accumulated_cells
      code fdir) := by
  unfold accumulate.asserts at ha
  unfold NumpySize at hn
  obtain ⟨a1, a2, a3, a4, a5, a6⟩ := ha
  apply accumulate_safe <;> simp only [ext_accumulate, accumulate.call]
  · omega
  · exact hn
  · push_cast; omega
  · have e0 : s.flowdircode_0 = 3 := by omega
    have e1 : s.flowdircode_1 = 3 := by omega
    rw [e0, e1]
  · push_cast; rw [a3, a4]
  · push_cast; rw [a5, a6]

theorem slope_wrapper (s : slope.Shapes) (v : slope.Scalars) (ha : slope.asserts s v)
    (hn : NumpySize s.flowdir_0 s.flowdir_1) (code fdir : Nat → Int) :
    Safe (C05.slope (ext_slope (slope.call s v)) (slope.call s v).nrows (slope.call s v).ncols
      (slope.call s v).nprint code fdir) := by
  unfold slope.asserts at ha
  unfold NumpySize at hn
  obtain ⟨a1, a2, a3, a4, a5, a6⟩ := ha
  apply slope_safe <;> simp only [ext_slope, slope.call]
  · omega
  · exact hn
  · push_cast; omega
  · have e0 : s.flowdircode_0 = 3 := by omega
    have e1 : s.flowdircode_1 = 3 := by omega
    rw [e0, e1]
  · push_cast; rw [a3, a4]
  · push_cast; rw [a5, a6]

theorem intersect_wrapper (s : intersect.Shapes) (v : intersect.Scalars) (ha : intersect.asserts s v)
    (hp : PyAlloc_intersect s v) (f : Nat → XInt × XInt) :
    Safe (C05.intersect (ext_intersect (intersect.call s v)) (intersect.call s v).nrows
      (intersect.call s v).ncols (intersect.call s v).nval f) := by
  unfold intersect.asserts at ha
  obtain ⟨a1, a2, a3⟩ := ha
  obtain ⟨p1, p2, p3, p4⟩ := hp
  apply intersect_safe <;> simp only [ext_intersect, intersect.call]
  · exact p1
  · exact p2
  · exact p3
  · push_cast; rw [a1]; omega
  · omega
  · omega
  · omega

theorem voronoi_wrapper (s : voronoi.Shapes) (v : voronoi.Scalars) (ha : voronoi.asserts s v)
    (cells : Nat → Int) (closer : Nat → Nat → Bool) :
    Safe (C05.voronoi (ext_voronoi (voronoi.call s v)) (voronoi.call s v).nrows (voronoi.call s v).ncols
      (voronoi.call s v).ncells (voronoi.call s v).npoints cells closer) := by
  unfold voronoi.asserts at ha
  obtain ⟨a1, a2⟩ := ha
  apply voronoi_safe <;> simp only [ext_voronoi, voronoi.call]
  · omega
  · push_cast; rw [a1]; omega
  · omega

theorem points_inside_polygon_wrapper (s : points_inside_polygon.Shapes) (v : points_inside_polygon.Scalars)
    (ha : points_inside_polygon.asserts s v) (hr : points_inside_polygon.reductions s)
    (h32 : 2 * (s.points_0 : Int) ≤ 2147483647) (h33 : 2 * (s.polygon_0 : Int) ≤ 2147483647)
    (outbox : Nat → Bool) :
    Safe (C05.inside (ext_inside (points_inside_polygon.call s v)) (points_inside_polygon.call s v).nprint
      (points_inside_polygon.call s v).npoints (points_inside_polygon.call s v).nvertices outbox) := by
  unfold points_inside_polygon.asserts at ha
  unfold points_inside_polygon.reductions at hr
  obtain ⟨a1, a2, a3⟩ := ha
  apply inside_safe <;> simp only [ext_inside, points_inside_polygon.call]
  · omega
  · exact h33
  · push_cast; rw [a2]; omega
  · push_cast; rw [a3]; omega
  · omega
  · omega
  · omega
  · exact h32

theorem exclude_zero_area_boundary_wrapper (s : exclude_zero_area_boundary.Shapes)
    (v : exclude_zero_area_boundary.Scalars) (ha : exclude_zero_area_boundary.asserts s v)
    (hp : PyAlloc_exclude_zero s) :
    Safe (excludeZeroArea (ext_exclude_zero (exclude_zero_area_boundary.call s v))
      (exclude_zero_area_boundary.call s v).nval) := by
  unfold exclude_zero_area_boundary.asserts at ha
  unfold PyAlloc_exclude_zero at hp
  apply excludeZeroArea_safe <;> simp only [ext_exclude_zero, exclude_zero_area_boundary.call]
  · push_cast; rw [hp]; omega
  · omega

theorem delineate_river_wrapper (s : delineate_river.Shapes) (v : delineate_river.Scalars)
    (ha : delineate_river.asserts s v) (hn : NumpySize s.flowdir_0 s.flowdir_1) (code fdir : Nat → Int) :
    Safe (delineateRiver (ext_delineate_river (delineate_river.call s v)) (delineate_river.call s v).nrows
      (delineate_river.call s v).ncols (delineate_river.call s v).nval (delineate_river.call s v).idxupstream
      code fdir) := by
  unfold delineate_river.asserts at ha
  unfold NumpySize at hn
  obtain ⟨a1, a2, a3, a4, a5⟩ := ha
  apply delineateRiver_safe <;> simp only [ext_delineate_river, delineate_river.call]
  · omega
  · omega
  · exact hn
  · push_cast; omega
  · have e0 : s.flowdircode_0 = 3 := by omega
    have e1 : s.flowdircode_1 = 3 := by omega
    rw [e0, e1]
  · omega
  · omega
  · push_cast; rw [a4]; omega

theorem delineate_flowpathlengths_in_catchment_wrapper (s : delineate_flowpathlengths_in_catchment.Shapes)
    (v : delineate_flowpathlengths_in_catchment.Scalars)
    (ha : delineate_flowpathlengths_in_catchment.asserts s v)
    (hn : NumpySize s.flowdir_0 s.flowdir_1) (code fdir cells : Nat → Int) :
    Safe (flowpathlengths (ext_flowpathlengths (delineate_flowpathlengths_in_catchment.call s v))
      (delineate_flowpathlengths_in_catchment.call s v).nrows
      (delineate_flowpathlengths_in_catchment.call s v).ncols
      (delineate_flowpathlengths_in_catchment.call s v).nval
      (delineate_flowpathlengths_in_catchment.call s v).idxcell_outlet code fdir cells) := by
  unfold delineate_flowpathlengths_in_catchment.asserts at ha
  unfold NumpySize at hn
  obtain ⟨a1, a2, a3, a4⟩ := ha
  apply flowpathlengths_safe <;>
    simp only [ext_flowpathlengths, delineate_flowpathlengths_in_catchment.call]
  · omega
  · omega
  · exact hn
  · push_cast; omega
  · have e0 : s.flowdircode_0 = 3 := by omega
    have e1 : s.flowdircode_1 = 3 := by omega
    rw [e0, e1]
  · omega
  · push_cast; rw [a4]; omega
theorem delineate_boundary_wrapper (s : delineate_boundary.Shapes) (v : delineate_boundary.Scalars)
    (ha : delineate_boundary.asserts s v) (hp : PyAlloc_boundary v) (cells mask : Nat → Int)
    (hsorted : ∀ i j : Nat, i ≤ j → (j : Int) < (s.idxcells_area_0 : Int) → cells i ≤ cells j) :
    Safe (delineateBoundary (ext_delineate_boundary (delineate_boundary.call s v))
      (delineate_boundary.call s v).nrows (delineate_boundary.call s v).ncols
      (delineate_boundary.call s v).nval cells mask) := by
  unfold delineate_boundary.asserts at ha
  obtain ⟨a1, a2, a3⟩ := ha
  obtain ⟨p1, p2⟩ := hp
  apply delineateBoundary_safe <;> simp only [ext_delineate_boundary, delineate_boundary.call]
  · exact p1
  · exact p2
  · exact hsorted
  · omega
  · omega
  · omega
  · omega

theorem delineate_area_wrapper (s : delineate_area.Shapes) (v : delineate_area.Scalars)
    (ha : delineate_area.asserts s v) (hn : NumpySize s.flowdir_0 s.flowdir_1) (code fdir inlets : Nat → Int) :
    Safe (delineateArea (ext_delineate_area (delineate_area.call s v)) (delineate_area.call s v).nrows
      (delineate_area.call s v).ncols (delineate_area.call s v).nval (delineate_area.call s v).ninlets
      (delineate_area.call s v).idxoutlet code fdir inlets) := by
  unfold delineate_area.asserts at ha
  unfold NumpySize at hn
  obtain ⟨a1, a2, a3, a4⟩ := ha
  apply delineateArea_safe <;> simp only [ext_delineate_area, delineate_area.call]
  · omega
  · omega
  · exact hn
  · push_cast; omega
  · have e0 : s.flowdircode_0 = 3 := by omega
    have e1 : s.flowdircode_1 = 3 := by omega
    rw [e0, e1]
  · omega
  · omega
  · omega
  · omega

theorem isleapyear_wrapper (s : isleapyear.Shapes) (v : isleapyear.Scalars) :
    Safe (C05.isleapyear (isleapyear.call s v).year) := by
  apply safe_of_wp (Q := fun _ => True)
  unfold C05.isleapyear
  wp_run

theorem daysinmonth_wrapper (s : daysinmonth.Shapes) (v : daysinmonth.Scalars) :
    Safe (C05.daysinmonth (daysinmonth.call s v).month) := daysinmonth_safe _

theorem dayofyear_wrapper (s : dayofyear.Shapes) (v : dayofyear.Scalars) :
    Safe (C05.dayofyear (dayofyear.call s v).month (dayofyear.call s v).day) := dayofyear_safe _ _

/-- every wrapper of the three `.pyx` files that reaches a kernel, in file order — each has its `_wrapper`
theorem above; a wrapper added to (or removed from) a `.pyx` changes the generated list and breaks this -/
theorem wrappers_covered : PyxSpec.wrappers.map (·.1) =
    ["combi", "isleapyear", "daysinmonth", "dayofyear", "add1month", "add1day", "comparedates", "getdate",
     "aggregate", "flathomogen", "islin", "var2h", "eckhardt",
     "olsleverage", "armodel_sim", "armodel_residual", "crps", "ensrank", "ad_test", "pareto_front",
     "coord2cell", "cell2coord", "cell2rowcol", "slice", "neighbours", "upstream", "downstream",
     "delineate_area", "delineate_boundary", "exclude_zero_area_boundary", "delineate_river", "accumulate",
     "intersect", "voronoi", "slope", "points_inside_polygon", "delineate_flowpathlengths_in_catchment"] := by
  decide
end wrappers


/-! ## the definitions GENERATED from the C text (`Generated/CKernels.lean`, rewritten by `harness/c2lean.py` from
`data/c_dateutils.c`, `data/c_dutils.c`, `gis/c_grid.c` on every run)

Every statement below is about `CGen.f`, the translation of the C function `f` with its full integer semantics
(values, out-of-bounds accesses, zero divisors, `int` / `long long` overflow): a change of the C text changes
`CGen.f` and the statement is re-proved against the new text.
 * value theorems `cgen_f_value` give the result for ALL arguments in the stated region — in particular the run ends
   with `.ok` (no fault);
 * `cgen_f_safe`: under the kernel's precondition (the one of the footprint theorem `f_safe`) the generated function
   returns `.ok _` for all lengths and contents;
 * `cgen_f_refines`: the hand-written footprint model of `Model/C05.lean` is the image of the generated function — for the
   scalar kernels an equality for ALL arguments (`isleapyear`, `combi`; `daysinmonth`, `dayofyear` under the code class),
   for the kernels with buffers (`add1month`, `add1day`, `comparedates`, `upstream`, `downstream`): under the kernel's
   precondition both end without fault with the same return code;
 * `cgen_f_wrapper`: the Cython asserts (GENERATED `PyxSpec`) give the precondition of the GENERATED kernel. -/
section generated
open HydroVerif.CSem

/-- `c_dateutils_isleapyear` is the Gregorian rule, for every `year` (negative years included) -/
theorem cgen_isleapyear_gregorian (y : Int) : CGen.c_dateutils_isleapyear y =
    .ok (if 4 ∣ y ∧ (¬ 100 ∣ y ∨ 400 ∣ y) then 1 else 0) := by
  rw [cgen_isleapyear_eq']
  simp only [Int.dvd_iff_tmod_eq_zero, ne_eq]

/-- the footprint model `C05.isleapyear` IS the generated function -/
theorem cgen_isleapyear_refines (y : Int) : CGen.c_dateutils_isleapyear y = isleapyear y := by
  rw [cgen_isleapyear_eq']
  simp [isleapyear, cmod, bind, Except.bind, pure, Except.pure]

/-- `c_dateutils_daysinmonth`: the length of the month for months 1..12, `-1` otherwise; never a fault (the table
`days_in_month[13]` is indexed behind the guard, `n+1` cannot overflow) -/
theorem cgen_daysinmonth_value (y m : Int) : CGen.c_dateutils_daysinmonth y m =
    .ok (if 1 ≤ m ∧ m ≤ 12 then nbdayOf y m else -1) := cgen_daysinmonth_eq' y m

/-- the footprint model `C05.daysinmonth` (code class `-1` / `0`) is the image of the generated function -/
theorem cgen_daysinmonth_refines (y m : Int) :
    (CGen.c_dateutils_daysinmonth y m).map (fun v => if v < 0 then -1 else 0) = daysinmonth m := by
  rw [cgen_daysinmonth_eq']
  have h := nbdayOf_range y m
  unfold daysinmonth
  by_cases hm : 1 ≤ m ∧ m ≤ 12
  · have h1 : ¬ (m < 1 ∨ m > 12) := by omega
    have h2 : ¬ nbdayOf y m < 0 := by omega
    have h3 : 0 ≤ m ∧ m < 13 := by omega
    simp [hm, h1, h2, h3, acc, Except.map, bind, Except.bind, pure, Except.pure]
  · have h1 : m < 1 ∨ m > 12 := by omega
    simp [hm, h1, Except.map, pure, Except.pure]

/-- `c_dateutils_dayofyear`: days before the month (non-leap year) plus the day, `-1` outside month 1..12 / day 1..31 -/
theorem cgen_dayofyear_value (m d : Int) : CGen.c_dateutils_dayofyear m d =
    .ok (if 1 ≤ m ∧ m ≤ 12 ∧ 1 ≤ d ∧ d ≤ 31 then daysBefore m + d else -1) := cgen_dayofyear_eq' m d

/-- the footprint model `C05.dayofyear` is the image of the generated function -/
theorem cgen_dayofyear_refines (m d : Int) :
    (CGen.c_dateutils_dayofyear m d).map (fun v => if v < 0 then -1 else 0) = dayofyear m d := by
  rw [cgen_dayofyear_eq']
  obtain ⟨h1, h2, h3, h4, h5, h6, h7, h8, h9, h10, h11, h12⟩ := daysBefore_vals
  unfold dayofyear
  by_cases hm : m < 1 ∨ m > 12
  · have : ¬ (1 ≤ m ∧ m ≤ 12 ∧ 1 ≤ d ∧ d ≤ 31) := by omega
    simp [hm, this, Except.map, pure, Except.pure]
  · by_cases hd : d < 1 ∨ d > 31
    · have : ¬ (1 ≤ m ∧ m ≤ 12 ∧ 1 ≤ d ∧ d ≤ 31) := by omega
      simp [hm, hd, this, Except.map, pure, Except.pure]
    · have h : 1 ≤ m ∧ m ≤ 12 ∧ 1 ≤ d ∧ d ≤ 31 := by omega
      have h3 : 0 ≤ m ∧ m < 13 := by omega
      have hb : ¬ daysBefore m + d < 0 := by
        have : m = 1 ∨ m = 2 ∨ m = 3 ∨ m = 4 ∨ m = 5 ∨ m = 6 ∨ m = 7 ∨ m = 8 ∨ m = 9 ∨ m = 10 ∨ m = 11 ∨ m = 12 := by
          omega
        rcases this with rfl | rfl | rfl | rfl | rfl | rfl | rfl | rfl | rfl | rfl | rfl | rfl <;> omega
      simp [hm, hd, h, h3, hb, acc, Except.map, bind, Except.bind, pure, Except.pure]

/-- `c_dateutils_comparedates` is the lexicographic order on (year, month, day): `1` earlier, `0` same, `-1` later -/
theorem cgen_comparedates_value (y1 m1 d1 y2 m2 d2 : Int) (r1 r2 : List Int) :
    CGen.c_dateutils_comparedates (y1 :: m1 :: d1 :: r1) (y2 :: m2 :: d2 :: r2) = .ok (cmp3 y1 m1 d1 y2 m2 d2) :=
  cgen_comparedates_eq' y1 m1 d1 y2 m2 d2 r1 r2

/-- no access outside two dates of (at least) three fields, whatever they hold -/
theorem cgen_comparedates_safe (a b : List Int) (ha : 3 ≤ a.length) (hb : 3 ≤ b.length) :
    Safe (CGen.c_dateutils_comparedates a b) := by
  obtain ⟨y1, m1, d1, r1, rfl⟩ := three_of_length ha
  obtain ⟨y2, m2, d2, r2, rfl⟩ := three_of_length hb
  exact ⟨_, cgen_comparedates_eq' y1 m1 d1 y2 m2 d2 r1 r2⟩

/-- `c_dateutils_add1month` on a date with a month 1..12: the same day of the next month, clipped to its length;
after December comes January of the next year -/
theorem cgen_add1month_value (y m d : Int) (r : List Int) (hy : I32 y) (hm : 1 ≤ m ∧ m ≤ 12)
    (hlast : ¬ (m = 12 ∧ y = 2147483647)) :
    CGen.c_dateutils_add1month (y :: m :: d :: r) = .ok (0,
      (if m < 12 then y else y + 1) :: (if m < 12 then m + 1 else 1) ::
        (if d > nbdayOf (if m < 12 then y else y + 1) (if m < 12 then m + 1 else 1)
          then nbdayOf (if m < 12 then y else y + 1) (if m < 12 then m + 1 else 1) else d) :: r) := by
  rw [cgen_add1month_eq' y m d r hy (by unfold I32; omega)]
  have h31 : nbdayOf (y + 1) 1 = 31 := by simp [nbdayOf]
  by_cases h : m < 12
  · have : ¬ m + 1 < 1 := by omega
    simp [h, this]
  · have h2 : ¬ y = 2147483647 := by omega
    simp [h, h2, h31]

/-- December of the last `int` year has no next month: error return, the date is left as it was (no overflow) -/
theorem cgen_add1month_last (d : Int) (r : List Int) :
    CGen.c_dateutils_add1month (2147483647 :: 12 :: d :: r) = .ok (1, 2147483647 :: 12 :: d :: r) := by
  rw [cgen_add1month_eq' _ _ d r (by unfold I32; omega) (by unfold I32; omega)]
  simp

/-- no fault on ANY date of (at least) three `int` fields -/
theorem cgen_add1month_safe (date : List Int) (h : 3 ≤ date.length) (hI : ∀ x ∈ date, I32 x) :
    Safe (CGen.c_dateutils_add1month date) := by
  obtain ⟨y, m, d, r, rfl⟩ := three_of_length h
  exact ⟨_, cgen_add1month_eq' y m d r (hI y (by simp)) (hI m (by simp))⟩

/-- `c_dateutils_add1day` on a valid date: the next day of the Gregorian calendar -/
theorem cgen_add1day_value (y m d : Int) (r : List Int) (hy : I32 y) (hm : 1 ≤ m ∧ m ≤ 12)
    (hd : 1 ≤ d ∧ d ≤ nbdayOf y m) (hlast : ¬ (m = 12 ∧ d = 31 ∧ y = 2147483647)) :
    CGen.c_dateutils_add1day (y :: m :: d :: r) = .ok (0,
      if d < nbdayOf y m then y :: m :: (d + 1) :: r
      else if m < 12 then y :: (m + 1) :: 1 :: r else (y + 1) :: 1 :: 1 :: r) := by
  have hr := nbdayOf_range y m
  rw [cgen_add1day_eq' y m d r hy (by unfold I32; omega) (by unfold I32; omega)]
  have h1 : ¬ (m < 1 ∨ m > 12) := by omega
  have h12 : nbdayOf y 12 = 31 := by simp [nbdayOf]
  by_cases h : d < nbdayOf y m
  · simp [h1, h]
  · have e : d = nbdayOf y m := by omega
    have h2 : ¬ (m = 12 ∧ y = 2147483647) := by
      rintro ⟨rfl, rfl⟩
      omega
    simp only [h1, h, e, h2, if_false, if_true]
    by_cases hm12 : m < 12 <;> simp [hm12]

/-- the last day of the last `int` year has no next day: error return, the date is left as it was -/
theorem cgen_add1day_last (r : List Int) :
    CGen.c_dateutils_add1day (2147483647 :: 12 :: 31 :: r) = .ok (1, 2147483647 :: 12 :: 31 :: r) := by
  rw [cgen_add1day_eq' _ _ _ r (by unfold I32; omega) (by unfold I32; omega) (by unfold I32; omega)]
  simp [nbdayOf]

/-- no fault on ANY date of (at least) three `int` fields (invalid months and days are answered with the error code) -/
theorem cgen_add1day_safe (date : List Int) (h : 3 ≤ date.length) (hI : ∀ x ∈ date, I32 x) :
    Safe (CGen.c_dateutils_add1day date) := by
  obtain ⟨y, m, d, r, rfl⟩ := three_of_length h
  exact ⟨_, cgen_add1day_eq' y m d r (hI y (by simp)) (hI m (by simp)) (hI d (by simp))⟩

/-- `c_combi(n, k)` is the binomial coefficient on the whole region where it does not return the sentinel and
`k ≤ n` (for `k > n` the C code returns 1) -/
theorem cgen_combi_choose (n k : Int) (hk : 0 ≤ k) (hkn : k ≤ n) (hk30 : k ≤ 30) (hd : n - k ≤ 30) :
    CGen.c_combi n k = .ok (Nat.choose n.toNat k.toNat) := cgen_combi_choose' n k hk hkn hk30 hd

/-- the sentinel `-1` comes before any product is formed (and `n-k` is formed only for non-negative arguments) -/
theorem cgen_combi_sentinel (n k : Int) (hn : I32 n) (hk : I32 k) (h : n < 0 ∨ k < 0 ∨ k > 30 ∨ n - k > 30) :
    CGen.c_combi n k = .ok (-1) := cgen_combi_sentinel' n k hn hk h

/-- no `int` / `long long` overflow, no zero divisor, for ALL `int` arguments -/
theorem cgen_combi_safe (n k : Int) (hn : I32 n) (hk : I32 k) : Safe (CGen.c_combi n k) := cgen_combi_safe' n k hn hk

/-- `clipi` -/
theorem cgen_clipi_value (x a b : Int) : CGen.clipi x a b = .ok (if x < a then a else if x > b then b else x) :=
  cgen_clipi_eq' x a b

/-- `getnxy` writes the column and the row of `C07` for a cell number `≥ 0` of a grid with columns -/
theorem cgen_getnxy_value (ncols idx : Int) (nxy : List Int) (h2 : 2 ≤ nxy.length) (hc : 0 < ncols) (h0 : 0 ≤ idx)
    (hI : idx ≤ 9223372036854775807) :
    CGen.getnxy ncols idx nxy = .ok (0, (nxy.set 0 (colOf ncols idx)).set 1 (rowOf ncols idx)) :=
  cgen_getnxy_eq' nxy h2 hc h0 hI

/-- `c_cell2rowcol` under the kernel's precondition: no fault, and entry `i` of the output is the (row, column)
of `C07.cell2rowcol` — `(-1, -1)` for a cell number outside the grid — for all lengths and contents -/
theorem cgen_cell2rowcol_value (junk : Nat → Int) (nrows ncols nval : Int) (idxcell rowcols : List Int)
    (hr : 0 ≤ nrows) (hc : 0 ≤ ncols) (hN : nrows * ncols ≤ 9223372036854775807)
    (h1 : nval ≤ idxcell.length) (h2 : 2 * nval ≤ rowcols.length)
    (hL : (rowcols.length : Int) ≤ 9223372036854775807) :
    ∃ out, CGen.c_cell2rowcol junk nrows ncols nval idxcell rowcols = .ok (0, out) ∧
      out.length = rowcols.length ∧
      ∀ i : Nat, (i : Int) < nval →
        out.getD (2 * i) 0 = (C07.cell2rowcol nrows ncols (idxcell.getD i 0)).1 ∧
        out.getD (2 * i + 1) 0 = (C07.cell2rowcol nrows ncols (idxcell.getD i 0)).2 := by
  obtain ⟨⟨c, out⟩, hx, h0, hl, hv⟩ := cgen_cell2rowcol_spec' junk nrows ncols nval idxcell rowcols hr hc hN h1 h2 hL
  simp only [] at h0
  subst h0
  exact ⟨out, hx, hl, hv⟩

theorem cgen_cell2rowcol_safe (junk : Nat → Int) (nrows ncols nval : Int) (idxcell rowcols : List Int)
    (hr : 0 ≤ nrows) (hc : 0 ≤ ncols) (hN : nrows * ncols ≤ 9223372036854775807)
    (h1 : nval ≤ idxcell.length) (h2 : 2 * nval ≤ rowcols.length)
    (hL : (rowcols.length : Int) ≤ 9223372036854775807) :
    Safe (CGen.c_cell2rowcol junk nrows ncols nval idxcell rowcols) :=
  safe_of_wp (cgen_cell2rowcol_spec' junk nrows ncols nval idxcell rowcols hr hc hN h1 h2 hL)

/-- `c_neighbours` for a cell of the grid: no fault, entry `k` is `C07.neighbour … k` (the rest of the buffer is
left alone), whatever the local `nxy[2]` held -/
theorem cgen_neighbours_value (junk : Nat → Int) (nrows ncols idx : Int) (nb : List Int)
    (hr : 0 ≤ nrows) (hc : 0 ≤ ncols) (hN : nrows * ncols ≤ 9223372036854775807)
    (hg : 0 ≤ idx ∧ idx < nrows * ncols) (h9 : 9 ≤ nb.length) :
    ∃ out, CGen.c_neighbours junk nrows ncols idx nb = .ok (0, out) ∧ out.length = nb.length ∧
      (∀ k : Nat, k < 9 → out.getD k 0 = neighbour nrows ncols idx k) ∧
      ∀ p : Nat, 9 ≤ p → out.getD p 0 = nb.getD p 0 := by
  obtain ⟨⟨c, out⟩, hx, h0, hl, hv, hrest⟩ := cgen_neighbours_spec' junk nrows ncols idx nb hr hc hN hg h9
  simp only [] at h0
  subst h0
  exact ⟨out, hx, hl, hv, hrest⟩

/-- a cell number outside the grid is refused before anything is touched (any buffer, also an empty one) -/
theorem cgen_neighbours_rejects (junk : Nat → Int) (nrows ncols idx : Int) (nb : List Int)
    (hN : -9223372036854775808 ≤ nrows * ncols ∧ nrows * ncols ≤ 9223372036854775807)
    (h : idx < 0 ∨ idx ≥ nrows * ncols) : CGen.c_neighbours junk nrows ncols idx nb = .ok (1, nb) :=
  cgen_neighbours_invalid' junk nrows ncols idx nb hN h

/-- `c_neighbours` under the kernel's precondition, any cell number -/
theorem cgen_neighbours_safe (junk : Nat → Int) (nrows ncols idx : Int) (nb : List Int)
    (hr : 0 ≤ nrows) (hc : 0 ≤ ncols) (hN : nrows * ncols ≤ 9223372036854775807) (h9 : 9 ≤ nb.length) :
    Safe (CGen.c_neighbours junk nrows ncols idx nb) := by
  have h0 : 0 ≤ nrows * ncols := Int.mul_nonneg hr hc
  by_cases hg : 0 ≤ idx ∧ idx < nrows * ncols
  · exact safe_of_wp (cgen_neighbours_spec' junk nrows ncols idx nb hr hc hN hg h9)
  · exact ⟨_, cgen_neighbours_invalid' junk nrows ncols idx nb ⟨by omega, hN⟩ (by omega)⟩

/-- `c_upstream` under the kernel's precondition (the one of `upstream_safe`): no access outside a buffer — the
neighbours read from the local array are `-1` or cells of the grid, `k` stays below 9 — no overflow, no zero
divisor, for all lengths, flow directions, codes and cell numbers, whatever the local array held -/
theorem cgen_upstream_safe (junk : Nat → Int) (nrows ncols nval : Int) (code fdir cells out : List Int)
    (hr : 0 ≤ nrows) (hc : 0 ≤ ncols) (hN : nrows * ncols ≤ 9223372036854775807)
    (hfd : nrows * ncols ≤ fdir.length) (hcode : 9 ≤ code.length)
    (h1 : nval ≤ cells.length) (h2 : 9 * nval ≤ out.length) (hL : (out.length : Int) ≤ 9223372036854775807) :
    Safe (CGen.c_upstream junk nrows ncols code fdir nval cells out) :=
  safe_of_wp (cgen_upstream_safe' junk nrows ncols nval code fdir cells out hr hc hN hfd hcode h1 h2 hL)

/-- `c_downstream` under the kernel's precondition (the one of `downstream_safe`) -/
theorem cgen_downstream_safe (junk : Nat → Int) (nrows ncols nval : Int) (code fdir cells out : List Int)
    (hr : 0 ≤ nrows) (hc : 0 ≤ ncols) (hN : nrows * ncols ≤ 9223372036854775807)
    (hfd : nrows * ncols ≤ fdir.length) (hcode : 9 ≤ code.length)
    (h1 : nval ≤ cells.length) (h2 : nval ≤ out.length) :
    Safe (CGen.c_downstream junk nrows ncols code fdir nval cells out) :=
  safe_of_wp (cgen_downstream_safe' junk nrows ncols nval code fdir cells out hr hc hN hfd hcode h1 h2)

/-- `c_dateutils_add1month`: under the kernel's precondition the generated function and the hand-written footprint
model both end without fault, with the same return code -/
theorem cgen_add1month_refines (date : List Int) (e : Ext) (h : 3 ≤ date.length) (he : e .date = date.length)
    (hI : ∀ x ∈ date, I32 x) :
    ∃ x c, CGen.c_dateutils_add1month date = .ok x ∧ add1month e (fun k => date.getD k 0) = .ok c ∧ c = x.1 := by
  obtain ⟨c, hc, hcv⟩ := add1month_code e (fun k => date.getD k 0) (by omega) (getD_I32 date hI)
  obtain ⟨y, m, d, r, rfl⟩ := three_of_length h
  refine ⟨_, c, cgen_add1month_eq' y m d r (hI y (by simp)) (hI m (by simp)), hc, ?_⟩
  rw [hcv]
  simp only [List.getD_cons_zero, List.getD_cons_succ]
  (repeat' split) <;> simp_all

theorem cgen_add1day_refines (date : List Int) (e : Ext) (h : 3 ≤ date.length) (he : e .date = date.length)
    (hI : ∀ x ∈ date, I32 x) :
    ∃ x c, CGen.c_dateutils_add1day date = .ok x ∧ add1day e (fun k => date.getD k 0) = .ok c ∧ c = x.1 := by
  obtain ⟨c, hc, hcv⟩ := add1day_code e (fun k => date.getD k 0) (by omega) (getD_I32 date hI)
  obtain ⟨y, m, d, r, rfl⟩ := three_of_length h
  refine ⟨_, c, cgen_add1day_eq' y m d r (hI y (by simp)) (hI m (by simp)) (hI d (by simp)), hc, ?_⟩
  rw [hcv]
  simp only [List.getD_cons_zero, List.getD_cons_succ]
  (repeat' split) <;> simp_all

theorem cgen_comparedates_refines (a b : List Int) (e : Ext) (ha : 3 ≤ a.length) (hb : 3 ≤ b.length)
    (he1 : e .date1 = a.length) (he2 : e .date2 = b.length) :
    ∃ c, CGen.c_dateutils_comparedates a b = .ok c ∧
      comparedates e (fun k => a.getD k 0) (fun k => b.getD k 0) = .ok c := by
  obtain ⟨c, hc, hcv⟩ := comparedates_code e (fun k => a.getD k 0) (fun k => b.getD k 0) (by omega) (by omega)
  obtain ⟨y1, m1, d1, r1, rfl⟩ := three_of_length ha
  obtain ⟨y2, m2, d2, r2, rfl⟩ := three_of_length hb
  refine ⟨_, cgen_comparedates_eq' y1 m1 d1 y2 m2 d2 r1 r2, ?_⟩
  rw [hc, hcv]
  simp only [List.getD_cons_zero, List.getD_cons_succ]

/-- `c_combi`: the hand-written model IS the generated function on every pair of `int`s -/
theorem cgen_combi_refines (n k : Int) (hn : I32 n) (hk : I32 k) : CGen.c_combi n k = combi n k := by
  by_cases h : n < 0 ∨ k < 0 ∨ k > 30
  · rw [cgen_combi_sentinel' n k hn hk (by omega), combi_sentinel n k h]
  · by_cases hd : n - k > 30
    · rw [cgen_combi_sentinel' n k hn hk (by omega)]
      unfold I32 at hn hk
      symm
      apply eq_ok_of_wp
      unfold combi
      simp only [h, if_false]
      refine wp_bind (wp_i32 ⟨by omega, by omega⟩ ?_)
      simp only [hd, if_true]
      exact wp_pure rfl
    · have h1 : n.toNat < 61 := by omega
      have h2 : k.toNat < 31 := by omega
      have := cgen_combi_same_table ⟨n.toNat, h1⟩ ⟨k.toNat, h2⟩
      simp only [] at this
      have e1 : ((n.toNat : Nat) : Int) = n := by omega
      have e2 : ((k.toNat : Nat) : Int) = k := by omega
      rw [e1, e2] at this
      exact eq_of_sameOk this

/-- `c_downstream`: under the kernel's precondition the generated function and the hand-written footprint model both
end without fault and return the same code (`0`: every cell number is a cell of the grid, `1` otherwise) -/
theorem cgen_downstream_refines (junk : Nat → Int) (nrows ncols nval : Int) (code fdir cells out : List Int) (e : Ext)
    (hr : 0 ≤ nrows) (hc : 0 ≤ ncols) (hN : nrows * ncols ≤ 9223372036854775807)
    (hfd : nrows * ncols ≤ fdir.length) (hcode : 9 ≤ code.length)
    (h1 : nval ≤ cells.length) (h2 : nval ≤ out.length)
    (he1 : e .flowdir = fdir.length) (he2 : e .flowdircode = code.length) (he3 : e .idxup = cells.length)
    (he4 : e .idxdown = out.length) :
    ∃ x c, CGen.c_downstream junk nrows ncols code fdir nval cells out = .ok x ∧
      downstream e nrows ncols nval (fun k => code.getD k 0) (fun k => fdir.getD k 0) (fun k => cells.getD k 0) = .ok c ∧
      c = x.1 := by
  obtain ⟨x, hx, _, hxc⟩ := cgen_downstream_code' junk nrows ncols nval code fdir cells out hr hc hN hfd hcode h1 h2
  obtain ⟨c, hc', hcc⟩ := downstream_code e nrows ncols nval (fun k => code.getD k 0) (fun k => fdir.getD k 0)
    (fun k => cells.getD k 0) hr hc hN (by omega) (by omega) (by omega) (by omega)
  refine ⟨x, c, hx, hc', ?_⟩
  rcases hxc with ⟨a, b⟩ | ⟨a, b⟩ <;> rcases hcc with ⟨a', b'⟩ | ⟨a', b'⟩
  · omega
  · exact absurd b b'
  · exact absurd b' b
  · omega

/-- `c_upstream`: the same for the kernel with the two inner loops -/
theorem cgen_upstream_refines (junk : Nat → Int) (nrows ncols nval : Int) (code fdir cells out : List Int) (e : Ext)
    (hr : 0 ≤ nrows) (hc : 0 ≤ ncols) (hN : nrows * ncols ≤ 9223372036854775807)
    (hfd : nrows * ncols ≤ fdir.length) (hcode : 9 ≤ code.length)
    (h1 : nval ≤ cells.length) (h2 : 9 * nval ≤ out.length) (hL : (out.length : Int) ≤ 9223372036854775807)
    (he1 : e .flowdir = fdir.length) (he2 : e .flowdircode = code.length) (he3 : e .idxdown = cells.length)
    (he4 : e .idxup = out.length) :
    ∃ x c, CGen.c_upstream junk nrows ncols code fdir nval cells out = .ok x ∧
      upstream e nrows ncols nval (fun k => code.getD k 0) (fun k => fdir.getD k 0) (fun k => cells.getD k 0) = .ok c ∧
      c = x.1 := by
  obtain ⟨x, hx, _, hxc⟩ := cgen_upstream_code' junk nrows ncols nval code fdir cells out hr hc hN hfd hcode h1 h2 hL
  obtain ⟨c, hc', hcc⟩ := upstream_code e nrows ncols nval (fun k => code.getD k 0) (fun k => fdir.getD k 0)
    (fun k => cells.getD k 0) hr hc hN (by omega) (by omega) (by omega) (by omega)
  refine ⟨x, c, hx, hc', ?_⟩
  rcases hxc with ⟨a, b⟩ | ⟨a, b⟩ <;> rcases hcc with ⟨a', b'⟩ | ⟨a', b'⟩
  · omega
  · exact absurd b b'
  · exact absurd b' b
  · omega

/-! ### the Cython asserts give the precondition of the GENERATED kernels

Buffers are lists whose lengths are the extents of the generated `call` (`PyxSpec.f.call`). -/
open HydroVerif.Generated PyxSpec

theorem cgen_add1month_wrapper (s : add1month.Shapes) (v : add1month.Scalars) (ha : add1month.asserts s v)
    (date : List Int) (hl : date.length = (add1month.call s v).date) (hI : ∀ x ∈ date, I32 x) :
    Safe (CGen.c_dateutils_add1month date) := by
  unfold add1month.asserts at ha
  exact cgen_add1month_safe date (by simp only [add1month.call] at hl; omega) hI

theorem cgen_add1day_wrapper (s : add1day.Shapes) (v : add1day.Scalars) (ha : add1day.asserts s v)
    (date : List Int) (hl : date.length = (add1day.call s v).date) (hI : ∀ x ∈ date, I32 x) :
    Safe (CGen.c_dateutils_add1day date) := by
  unfold add1day.asserts at ha
  exact cgen_add1day_safe date (by simp only [add1day.call] at hl; omega) hI

theorem cgen_comparedates_wrapper (s : comparedates.Shapes) (v : comparedates.Scalars)
    (ha : comparedates.asserts s v) (a b : List Int) (hl1 : a.length = (comparedates.call s v).date1)
    (hl2 : b.length = (comparedates.call s v).date2) : Safe (CGen.c_dateutils_comparedates a b) := by
  unfold comparedates.asserts at ha
  simp only [comparedates.call] at hl1 hl2
  exact cgen_comparedates_safe a b (by omega) (by omega)

theorem cgen_combi_wrapper (s : combi.Shapes) (v : combi.Scalars) (hr : combi.scalarRange v) :
    Safe (CGen.c_combi (combi.call s v).n (combi.call s v).k) := by
  unfold combi.scalarRange FitsI32 at hr
  exact cgen_combi_safe _ _ hr.1 hr.2

theorem cgen_cell2rowcol_wrapper (s : cell2rowcol.Shapes) (v : cell2rowcol.Scalars) (ha : cell2rowcol.asserts s v)
    (hp : PyAlloc_grid v.nrows v.ncols) (junk : Nat → Int) (idxcell rowcols : List Int)
    (hl1 : idxcell.length = (cell2rowcol.call s v).idxcell) (hl2 : rowcols.length = (cell2rowcol.call s v).rowcols)
    (hL : (rowcols.length : Int) ≤ 9223372036854775807) :
    Safe (CGen.c_cell2rowcol junk (cell2rowcol.call s v).nrows (cell2rowcol.call s v).ncols
      (cell2rowcol.call s v).nval idxcell rowcols) := by
  unfold cell2rowcol.asserts at ha
  obtain ⟨p1, p2, p3⟩ := hp
  obtain ⟨a1, a2⟩ := ha
  simp only [cell2rowcol.call] at hl1 hl2 ⊢
  apply cgen_cell2rowcol_safe _ _ _ _ _ _ p1 p2 p3
  · omega
  · rw [hl2]; push_cast; rw [a2]; omega
  · exact hL

theorem cgen_neighbours_wrapper (s : neighbours.Shapes) (v : neighbours.Scalars) (ha : neighbours.asserts s v)
    (hp : PyAlloc_grid v.nrows v.ncols) (junk : Nat → Int) (nb : List Int)
    (hl : nb.length = (neighbours.call s v).neighbours) :
    Safe (CGen.c_neighbours junk (neighbours.call s v).nrows (neighbours.call s v).ncols
      (neighbours.call s v).idxcell nb) := by
  unfold neighbours.asserts at ha
  obtain ⟨p1, p2, p3⟩ := hp
  simp only [neighbours.call] at hl ⊢
  exact cgen_neighbours_safe _ _ _ _ _ p1 p2 p3 (by omega)

theorem cgen_upstream_wrapper (s : upstream.Shapes) (v : upstream.Scalars) (ha : upstream.asserts s v)
    (hn : NumpySize s.flowdir_0 s.flowdir_1) (junk : Nat → Int) (code fdir cells out : List Int)
    (hl1 : code.length = (upstream.call s v).flowdircode) (hl2 : fdir.length = (upstream.call s v).flowdir)
    (hl3 : cells.length = (upstream.call s v).idxdown) (hl4 : out.length = (upstream.call s v).idxup)
    (hL : (out.length : Int) ≤ 9223372036854775807) :
    Safe (CGen.c_upstream junk (upstream.call s v).nrows (upstream.call s v).ncols code fdir
      (upstream.call s v).nval cells out) := by
  unfold upstream.asserts at ha
  unfold NumpySize at hn
  obtain ⟨a1, a2, a3, a4⟩ := ha
  simp only [upstream.call] at hl1 hl2 hl3 hl4 ⊢
  apply cgen_upstream_safe
  · omega
  · omega
  · exact hn
  · rw [hl2]; push_cast; omega
  · have e0 : s.flowdircode_0 = 3 := by omega
    have e1 : s.flowdircode_1 = 3 := by omega
    rw [hl1, e0, e1]
  · omega
  · rw [hl4]; push_cast; rw [a2]; omega
  · exact hL

theorem cgen_downstream_wrapper (s : downstream.Shapes) (v : downstream.Scalars) (ha : downstream.asserts s v)
    (hn : NumpySize s.flowdir_0 s.flowdir_1) (junk : Nat → Int) (code fdir cells out : List Int)
    (hl1 : code.length = (downstream.call s v).flowdircode) (hl2 : fdir.length = (downstream.call s v).flowdir)
    (hl3 : cells.length = (downstream.call s v).idxup) (hl4 : out.length = (downstream.call s v).idxdown) :
    Safe (CGen.c_downstream junk (downstream.call s v).nrows (downstream.call s v).ncols code fdir
      (downstream.call s v).nval cells out) := by
  unfold downstream.asserts at ha
  unfold NumpySize at hn
  obtain ⟨a1, a2, a3⟩ := ha
  simp only [downstream.call] at hl1 hl2 hl3 hl4 ⊢
  apply cgen_downstream_safe
  · omega
  · omega
  · exact hn
  · rw [hl2]; push_cast; omega
  · have e0 : s.flowdircode_0 = 3 := by omega
    have e1 : s.flowdircode_1 = 3 := by omega
    rw [hl1, e0, e1]
  · omega
  · omega

end generated

/-! ## the hypotheses are satisfiable, the models are not trivially safe -/

macro "ex_arith" : tactic => `(tactic| first | (norm_num [constExt]; done) | (simp [constExt]; done) | decide | (intros; simp [constExt] at *; omega))

/-! one concrete, non-trivial instance of the hypotheses of every kernel theorem (extents `constExt n`: every
buffer has `n` elements) -/
def exCode : Nat → Int := fun j => [32, 64, 128, 16, 0, 1, 8, 4, 2].getD j 0
def exFdir : Nat → Int := fun i => [4, 4, 4, 1, 16, 4, 0, 0, 0].getD i 0
def exCodeL : List Int := [32, 64, 128, 16, 0, 1, 8, 4, 2]
def exFdirL : List Int := [4, 4, 4, 1, 16, 4, 0, 0, 0]

example : Safe (aggregate (constExt 4) 4 (fun i => (i / 2 : Nat))) := aggregate_safe _ _ _ (by ex_arith) (by ex_arith) (by ex_arith) (by ex_arith)
example : Safe (flathomogen (constExt 4) 4 (fun i => (i / 2 : Nat))) := flathomogen_safe _ _ _ (by ex_arith) (by ex_arith) (by ex_arith)
example : Safe (islin (constExt 6) 6 3 (fun i => decide (2 ≤ i))) := islin_safe _ _ _ _ (by ex_arith) (by ex_arith)
example : Safe (eckhardt (constExt 5) 5 false) := eckhardt_safe _ _ _ (by ex_arith) (by ex_arith)
example : Safe (comparedates (constExt 3) (fun _ => 2000) (fun i => 2000 + i)) := comparedates_safe _ _ _ (by ex_arith) (by ex_arith)
example : Safe (add1month (constExt 3) (fun i => if i = 0 then 2147483647 else if i = 1 then 12 else 31)) :=
  add1month_safe _ _ (by ex_arith) (by intro k; unfold I32; split <;> [skip; split] <;> omega)
example : Safe (add1day (constExt 3) (fun i => if i = 0 then 2024 else if i = 1 then 2 else 29)) :=
  add1day_safe _ _ (by ex_arith) (by intro k; unfold I32; split <;> [skip; split] <;> omega)
example : Safe (getdate (constExt 3) true (some 2024) (some 202401) (some 20240131)) :=
  getdate_safe _ _ _ _ (by ex_arith) (by norm_num) (by norm_num) (by norm_num) (by norm_num) _
example : Safe (var2h (constExt 5) 5 4 3600 0 3600 (fun i => [0, 1000, 5000, 9000, 20000].getD i 0)) :=
  var2h_safe _ _ _ _ _ _ _ (by ex_arith) (by ex_arith) (by ex_arith) (by norm_num) (by norm_num)
example : Safe (combi 60 30) := combi_safe _ _ (by unfold I32; norm_num)
example : Safe (armodelSim (constExt 10) 7 10 (fun _ => false) false) := armodelSim_safe _ _ _ _ _ (by ex_arith) (by ex_arith) (by ex_arith)
example : Safe (armodelResidual (constExt 10) 7 10 (fun _ => false) false (fun i => decide (i = 3))) :=
  armodelResidual_safe _ _ _ _ _ _ (by ex_arith) (by ex_arith) (by ex_arith)
example : Safe (adTest (constExt 6) 6 (fun _ => false)) := adTest_safe _ _ _ (by ex_arith) (by ex_arith)
example : Safe (olsleverage (constExt 12) 4 3) := olsleverage_safe _ _ _ (by norm_num) (by ex_arith) (by ex_arith) (by ex_arith) (by norm_num) (by norm_num)
example : Safe (paretofront (constExt 12) 4 3 (fun i j => decide (i < j))) :=
  paretofront_safe _ _ _ _ (by norm_num) (by ex_arith) (by ex_arith) (by norm_num)
example : Safe (crps (constExt 28) 5 3 0 (fun _ _ => false)) :=
  crps_safe _ _ _ _ _ (by norm_num) (by ex_arith) (by ex_arith) (by ex_arith) (by ex_arith) (by ex_arith) (by norm_num) (by norm_num)
example : Safe (ensrank (constExt 16) 4 3 false) :=
  ensrank_safe _ _ _ _ (by ex_arith) (by ex_arith) (by ex_arith) (by norm_num) (by norm_num) (by norm_num)
example : Safe (coord2cell (constExt 10) 3 3 5 (fun i => if i = 0 then none else some (i : Int)) (fun _ => some 1)) :=
  coord2cell_safe _ _ _ _ _ _ (by norm_num) (by ex_arith) (by ex_arith)
example : Safe (cell2rowcol (constExt 10) 3 3 5 (fun i => (i : Int) * 3 - 1)) :=
  cell2rowcol_safe _ _ _ _ _ (by norm_num) (by norm_num) (by norm_num) (by ex_arith) (by ex_arith)
example : Safe (cell2coord (constExt 10) 3 3 5 (fun i => (i : Int) * 3 - 1)) :=
  cell2coord_safe _ _ _ _ _ (by norm_num) (by norm_num) (by norm_num) (by ex_arith) (by ex_arith)
example : Safe (neighbours (constExt 9) 3 3 4) := neighbours_safe _ _ _ _ (by norm_num) (by norm_num) (by norm_num) (by ex_arith)
example : Safe (upstream (constExt 27) 3 3 3 exCode exFdir (fun i => (i : Int) * 4)) :=
  upstream_safe _ _ _ _ _ _ _ (by norm_num) (by norm_num) (by norm_num) (by ex_arith) (by ex_arith) (by ex_arith) (by ex_arith)
example : Safe (downstream (constExt 9) 3 3 3 exCode exFdir (fun i => (i : Int) * 4)) :=
  downstream_safe _ _ _ _ _ _ _ (by norm_num) (by norm_num) (by norm_num) (by ex_arith) (by ex_arith) (by ex_arith) (by ex_arith)
example : Safe (accumulate (constExt 9) 3 3 0 9 exCode exFdir) :=
  accumulate_safe _ _ _ _ _ _ _ (by norm_num) (by norm_num) (by ex_arith) (by ex_arith) (by ex_arith) (by ex_arith)
example : Safe (slope (constExt 9) 3 3 0 exCode exFdir) :=
  slope_safe _ _ _ _ _ _ (by norm_num) (by norm_num) (by ex_arith) (by ex_arith) (by ex_arith) (by ex_arith)
example : Safe (slice (constExt 9) 3 3 4 (fun _ => (some 1, some 1)) (fun _ => (some 2, some 1)) (fun _ => (none, some 0))) :=
  slice_safe _ _ _ _ _ _ _ (by norm_num) (by ex_arith) (by ex_arith) (by ex_arith)
example : Safe (voronoi (constExt 6) 3 3 5 3 (fun i => i) (fun i j => decide (i = j))) :=
  voronoi_safe _ _ _ _ _ _ _ (by ex_arith) (by ex_arith) (by ex_arith)
example : Safe (inside (constExt 8) 0 4 3 (fun i => decide (i = 1))) :=
  inside_safe _ _ _ _ _ (by norm_num) (by norm_num) (by ex_arith) (by ex_arith) (by ex_arith) (by ex_arith) (by ex_arith) (by norm_num)
example : Safe (excludeZeroArea (constExt 10) 5) := excludeZeroArea_safe _ _ (by ex_arith) (by ex_arith)
example : Safe (delineateRiver (constExt 20) 3 3 4 0 exCode exFdir) :=
  delineateRiver_safe _ _ _ _ _ _ _ (by norm_num) (by norm_num) (by norm_num) (by ex_arith) (by ex_arith) (by ex_arith) (by ex_arith) (by ex_arith)
example : Safe (flowpathlengths (constExt 12) 3 3 4 7 exCode exFdir (fun i => i)) :=
  flowpathlengths_safe _ _ _ _ _ _ _ _ (by norm_num) (by norm_num) (by norm_num) (by ex_arith) (by ex_arith) (by ex_arith) (by ex_arith)
example : Safe (intersect (constExt 12) 3 4 6 (fun i => (some (i % 4 : Nat), some 1))) :=
  intersect_safe _ _ _ _ _ (by norm_num) (by norm_num) (by norm_num) (by ex_arith) (by ex_arith) (by ex_arith) (by ex_arith)
example : Safe (delineateBoundary (constExt 9) 3 3 3 (fun k => if k = 2 then 5 else 2) (fun _ => 1)) :=
  delineateBoundary_safe _ _ _ _ _ _ (by norm_num) (by norm_num)
    (by intro i j hij hj; split <;> split <;> omega) (by ex_arith) (by ex_arith) (by ex_arith) (by ex_arith)
example : Safe (delineateArea (constExt 9) 3 3 9 1 7 exCode exFdir (fun _ => 0)) :=
  delineateArea_safe _ _ _ _ _ _ _ _ _ (by norm_num) (by norm_num) (by norm_num) (by ex_arith) (by ex_arith) (by ex_arith)
    (by ex_arith) (by ex_arith) (by ex_arith)


/-- a concrete run: 4 values in 2 groups touch `outputs[0..1]`, `iend[0]` -/
example : aggregate (fun b => match b with | .aggindex => 4 | .inputs => 4 | .outputs => 2 | .iend => 1 | _ => 0)
    4 (fun i => if i < 2 then 1 else 2) = .ok 0 := by decide
/-- one element less for `outputs` and the same run faults at `outputs[1]`: the footprint is tight -/
example : aggregate (fun b => match b with | .aggindex => 4 | .inputs => 4 | .outputs => 1 | .iend => 1 | _ => 0)
    4 (fun i => if i < 2 then 1 else 2) = .error (.oob .outputs 1) := by decide
/-- `nprint = 0` is harmless only because of the `nprint > 0` guard: a bare `i % nprint` is `div0` -/
example : cmod 5 0 = .error .div0 := by decide
/-- `(long long) NaN` is a fault of the model: the fixed `c_coord2cell` never converts it -/
example : castI64 none = .error .ovf := rfl
example : coord2cell1 3 3 none (some 1) = .ok (-1) := by decide +kernel
/-- the asserts of the `aggregate` wrapper hold for the shapes `dutils.aggregate` allocates (n = 5) -/
example : HydroVerif.Generated.PyxSpec.aggregate.asserts { aggindex_0 := 5, inputs_0 := 5, outputs_0 := 5, iend_0 := 1 }
    { oper := 0, maxnan := 0 } := by
  simp [HydroVerif.Generated.PyxSpec.aggregate.asserts]
/-- `PyAlloc_intersect` for a 3 x 4 target grid -/
example : PyAlloc_intersect { xy_area_0 := 7, xy_area_1 := 2, npoints_0 := 1, idxcells_0 := 12, weights_0 := 12 }
    { nrows := 3, ncols := 4 } := by
  simp [PyAlloc_intersect]
/-- the sortedness hypothesis of `delineateBoundary_safe` for the cells `2, 2, 5` -/
example : ∀ i j : Nat, i ≤ j → (j : Int) < 3 →
    (fun k => if k = 2 then (5 : Int) else 2) i ≤ (fun k => if k = 2 then (5 : Int) else 2) j := by
  intro i j hij hj
  simp only []
  split <;> split <;> omega
/-- a one-cell area (the defect repaired in `c_delineate_boundary`) runs clean in the model -/
example : isOk (delineateBoundary
    (fun b => match b with | .idxcellsArea => 1 | .buffer => 1 | .mask => 9 | .idxboundary => 1 | _ => 0)
    3 3 1 (fun _ => 4) (fun i => if i = 4 then 1 else 0)) = true := by decide +kernel

/-! concrete runs of the GENERATED definitions (kernel evaluation): the hypotheses of the `cgen_*` theorems are
satisfiable, and the generated functions do fault outside them -/
section generated_examples
open HydroVerif.CSem
example : CGen.c_dateutils_add1day [2024, 2, 28] = .ok (0, [2024, 2, 29]) := by decide +kernel
example : CGen.c_dateutils_add1day [2023, 2, 28, 7] = .ok (0, [2023, 3, 1, 7]) := by decide +kernel
example : CGen.c_dateutils_add1month [2024, 1, 31] = .ok (0, [2024, 2, 29]) := by decide +kernel
example : CGen.c_dateutils_add1day [2024, 2] = .error (.oob (.arg 0) 2) := by decide +kernel
example : CGen.c_dateutils_isleapyear 1900 = .ok 0 := by decide +kernel
example : CGen.c_combi 40 20 = .ok 137846528820 := by decide +kernel
example : CGen.c_combi (-2147483648) 1 = .ok (-1) := by decide +kernel
example : CGen.getnxy 0 5 [0, 0] = .error .div0 := by decide +kernel
example : CGen.c_cell2rowcol driverJunk 3 4 3 [0, 5, 12] [9, 9, 9, 9, 9, 9] = .ok (0, [0, 0, 1, 1, -1, -1]) := by decide +kernel
example : CGen.c_neighbours driverJunk 3 3 4 [0, 0, 0, 0, 0, 0, 0, 0, 0] = .ok (0, [0, 1, 2, 3, -1, 5, 6, 7, 8]) := by
  decide +kernel
example : CGen.c_neighbours driverJunk 3 3 0 [0, 0, 0, 0, 0, 0, 0, 0] = .error (.oob (.arg 3) 8) := by decide +kernel
/-- hypotheses of `cgen_add1day_value`, `cgen_add1month_value`: 28 February 2024 -/
example : I32 2024 ∧ (1 ≤ (2 : Int) ∧ (2 : Int) ≤ 12) ∧ (1 ≤ (28 : Int) ∧ (28 : Int) ≤ nbdayOf 2024 2) := by
  refine ⟨by unfold I32; omega, by omega, by omega, by decide⟩
/-- hypotheses of `cgen_combi_choose`: `C(40, 20)` -/
example : (0 : Int) ≤ 20 ∧ (20 : Int) ≤ 40 ∧ (20 : Int) ≤ 30 ∧ (40 : Int) - 20 ≤ 30 := by omega
/-- hypotheses of `cgen_cell2rowcol_value` / `cgen_upstream_safe` / `cgen_downstream_safe`: a 3 x 3 grid, two cells -/
example : (0 : Int) ≤ 3 ∧ (3 : Int) * 3 ≤ 9223372036854775807 ∧ (3 : Int) * 3 ≤ (exFdirL.length : Int) ∧
    9 ≤ exCodeL.length ∧ (2 : Int) ≤ ([4, 7] : List Int).length ∧ 9 * (2 : Int) ≤ (List.replicate 18 (0 : Int)).length := by
  decide
example : Safe (CGen.c_upstream driverJunk 3 3 exCodeL exFdirL 2 [4, 7] (List.replicate 18 0)) :=
  cgen_upstream_safe _ _ _ _ _ _ _ _ (by omega) (by omega) (by omega) (by decide) (by decide) (by decide) (by decide)
    (by decide)
example : CGen.c_upstream driverJunk 3 3 exCodeL exFdirL 2 [4, 7] (List.replicate 18 0) =
    .ok (0, [1, 3, -1, -1, -1, -1, -1, -1, -1, -1, -1, -1, -1, -1, -1, -1, -1, -1]) := by decide +kernel
example : CGen.c_downstream driverJunk 3 3 exCodeL exFdirL 3 [0, 4, 8] [9, 9, 9] = .ok (0, [3, 3, -2]) := by
  decide +kernel
/-- the same call with a flow direction grid one element short faults in the generated model -/
example : CGen.c_downstream driverJunk 3 3 exCodeL (exFdirL.take 8) 3 [0, 4, 8] [9, 9, 9] =
    .error (.oob (.arg 3) 8) := by decide +kernel
end generated_examples

end HydroVerif.C05
