/-
C18 — computations leave their arguments untouched and are repeatable: the part carried by a theorem.

Two models.  `Model/C18.lean`: the buffer-ownership DSL of ONE call (numpy's copy semantics are its axioms, the C
kernels enter through their write-sets, the contents semantics is parametric in what the kernels compute).
`Model/C18Obj.lean`: a Catchment receiver ACROSS calls (which array every attribute refers to, every public method
with every way it can stop half-way, the caller overwriting what accessors hand out); histories are `List Op`.
Both are tied to the code by harness/c18.py on every run: recorder shim at the Cython boundary (`run`, `safe`, `mark`,
`kernels`), second call with read-only arguments (`pywritten`, `repeat`), aliasing of what is handed back (`results`),
dtypes of Grid arguments (`retyped`), random object histories (`hist`).

CLAUSE → THEOREMS → WHAT REMAINS OUTSIDE

1. "leave the numeric arrays, series and data frames passed to them bit-for-bit unchanged (values, dtype, shape)"
   * kernel-facing wrappers (every site where a buffer reaches C; cross-checked against the source on every run) and
     the pure-Python bodies that store in place into something derived from an argument (absolute_peak_error, lag,
     monthly2daily, gsmooth, YeoJohnson.forward, lstsq, acf, iqr, kde, lhs): `soundness`, `soundness_except`,
     `written_args_private` (every program, every dtype / layout / container of every argument, every allocator state),
     `caller_contents_unchanged` (every kernel semantics respecting the write-sets), `safe_marks_nothing`, one
     `<wrapper>_safe` per call site (42), `delineateBoundary*_safe_except_receiver`,
     `pointsInsidePolygonOut_safe_except_output`, `kdeSeeded_safe_except_rng`, `lhs_safe_except_rng` with the witnesses
     `..._writes_receiver` / `..._writes_output` / `kdeSeeded_advances_generator`.
     Non-vacuity: `andersonDarlingAsarray_*`, `kdePinned_*`, `lstsqInterceptPinned_*`, `iqrOverwriteInput_*`,
     `accumulateWritesFlowdir_*`.
   * dtype: `noRetype_keeps_dtypes` + `wrappers_noRetype` (no modelled wrapper but the four grid-level functions
     changes the dtype of anything it is given), `accumulate_retypes`, `accumulateDefault_retypes`, `slope_retypes`,
     `delineateRiver_retypes` (exactly which Grid arguments are converted, to what).
   * what is handed back or kept: `returned_private`, `wrappers_return_private`, `*_stores_private` (Grid.data setter, clip,
     apply, clone, Catchment.__init__): nothing of the caller's is returned or stored, so no LATER call or edit can reach
     it; `pointsInsidePolygonOut_returns_caller`, `gridDataSetterNoCopy_*` show the check is load-bearing.
   * receiver state (Catchment): `history_wf` (along every history two attributes never share a non-empty array),
     `op_frame` / `history_frame` (every method, accepted or rejected, leaves every attribute outside its write-set as
     it was: same array, same contents), `delineateBoundary_keeps_area`.
   * outside: (a) that the DSL terms are the bodies and that numpy behaves as axiomatised — measured correspondence;
     (b) shape of the caller's object and every function that never stores in place and never reaches a kernel —
     snapshot oracle only.
2. "grid arguments keep their cell values"
   * `accumulate_safe`, `accumulateDefault_safe`, `slope_safe`, `delineateRiver_safe`, `gsmooth_safe` with the `retype`
     statement (the caller's grid is converted in place; the local keeps denoting the caller's cells), contents by
     `caller_contents_unchanged`; `accumulateWritesFlowdir_writes_caller_grid` shows the flag is load-bearing.
   * outside: Grid methods that are pure Python and never store in place — oracle (+ Grid object histories).
3. "calling the same function twice with the same arguments, and the same random seed, returns the same result"
   * one call: `runs_independent` (result depends on the caller's buffers only: not on the heap, not on the allocator),
     `second_call_same_result`, `every_call_same_result` (any number of consecutive calls),
     `second_call_after_editing_results` + `second_call_after_editing_returned` (the caller may overwrite what a call
     returned: its hypothesis is discharged by `returned_private`), `second_call_same_result_after_restore` (same SEED:
     the generator state is a caller buffer the call may write; put back, the second call repeats the first).
   * histories on a receiver: `delineateArea_answer` (what an accepted delineation stores is a function of THAT call's
     arguments, from any earlier state), `computeFpl_answer`, `delineateBoundary_answer`,
     `computeFpl_independent_of_interleaved_op` / `_of_boundary` (interleaving), `delineateBoundary_twice` (repeatable
     although it sorts receiver state; hypothesis "sorting a sorted array changes nothing" shown necessary by an example),
     fault paths `delineateArea_badOutlet_unchanged`, `delineateArea_kernelError_state`, `computeFpl_rejected_unchanged`,
     `delineateBoundary_rejected_state`; `sharedArea_not_wf` / `sharedArea_boundary_changes_area` show `WF` is needed.
   * outside: these are statements about the models (kernels are functions of their inputs there). Module-level state,
     caches and work buffers of the real code are observed only: two-call / third-call oracle, history streams against a
     pristine interpreter incl. call A → rejected call B → call A, twin-object oracle of the object histories.
4. quantifier "every public function … x contiguous / strided, float / integer, array / pandas x two calls"
   * theorems quantify over all kinds (`kinds : Nat → Kind` arbitrary), all programs, all operation lists and all
     outcomes; the list of public entry points is an inventory read from the current source on every run (harness),
     not a Lean object.

Weaker than the clause, stated plainly: nothing here proves a fact about Python text; `Safe` / `ReturnsPrivate` theorems
are decided on hand-written terms whose faithfulness is a measured correspondence, `Kind` abstracts an argument to
(viewable, dtype, C-contiguous), and the object model abstracts contents to what the kernels are said to compute.
-/
import HydroVerif.Lemmas.C18
import HydroVerif.Lemmas.C18Obj
namespace HydroVerif.C18

/-! ### generic theorems -/

/-- **Soundness of the ownership check.**  For every program, every set of caller buffers the wrapper is
entitled to write, every dtype / layout / container of every argument and every allocator state: a
caller buffer written during the run (by a kernel or in place) is one of the allowed ones. -/
theorem soundness_except (allowed : List Nat) (p : Program) (h : SafeExcept allowed p)
    (kinds : Nat → Kind) (n0 : Nat) (i : Nat)
    (hw : Buf.caller i ∈ (runFrom (init kinds n0) p).written) : i ∈ allowed :=
  (sound_aux allowed p absInit (init kinds n0) h (absOK_init kinds n0)
    (by intro i hi; simp [init] at hi) (by intro e he; simp [init] at he)).1 i hw

/-- **Soundness, pure computations.**  If every kernel-written or in-place-written local of the body was
produced by `copy`/`alloc` inside the call (`Safe`), no caller buffer is in the written set — whatever
the arguments are. -/
theorem soundness (p : Program) (h : Safe p) (kinds : Nat → Kind) (i : Nat) :
    Buf.caller i ∉ (run p kinds).written := by
  intro hw
  have := soundness_except [] p h kinds 0 i hw
  simp at this

/-- the same seen at the Cython boundary (what the recorder shim observes): in a `Safe` wrapper, an
argument of a kernel call that the C code writes never aliases a caller buffer -/
theorem written_args_private (p : Program) (h : Safe p) (kinds : Nat → Kind) :
    ∀ e ∈ (run p kinds).events, ∀ arg ∈ e.args, arg.2 = true → arg.1 = none := by
  intro e he arg harg hw
  have hev := (sound_aux [] p absInit (init kinds 0) h (absOK_init kinds 0)
    (by intro i hi; simp [init] at hi) (by intro e he; simp [init] at he)).2
  cases h1 : arg.1 with
  | none => rfl
  | some i => have := hev e he arg harg hw i h1; simp at this

/-- **Arguments untouched (contents).**  Whatever the kernels compute (any `sem`), as long as they store
only through the pointers of their write-set, a `SafeExcept allowed` wrapper leaves the contents of every
caller buffer outside `allowed` exactly as they were. -/
theorem caller_contents_unchanged {α : Type} (sem : Sem α) (allowed : List Nat) (p : Program)
    (h : SafeExcept allowed p) (kinds : Nat → Kind) (m0 : Mem α) (n0 : Nat) (i : Nat) (hi : i ∉ allowed) :
    (mrun sem p kinds m0 n0).mem (.caller i) = m0 (.caller i) := by
  rcases mrun_frame sem p ⟨init kinds n0, m0⟩ (.caller i) with h1 | ⟨n, hn, _⟩ | h1
  · exact h1
  · cases hn
  · exact absurd (soundness_except allowed p h kinds n0 i h1) hi

/-- **Two runs are independent of the heap.**  Two runs of the same wrapper on the same kinds of
arguments, from memories that agree on the caller buffers (and hold anything elsewhere) and from any two
allocator states, perform the same kernel calls with the same aliasing, leave the same contents in the
buffer of every local (in particular in the returned one) and the same contents in the caller buffers.
No `Safe` hypothesis: this is determinism of the model. -/
theorem runs_independent {α : Type} (sem : Sem α) (p : Program) (kinds : Nat → Kind) (m m' : Mem α)
    (n0 δ : Nat) (hm : ∀ i, m' (.caller i) = m (.caller i)) :
    let r := mrun sem p kinds m n0
    let r' := mrun sem p kinds m' (n0 + δ)
    r'.st.events = r.st.events ∧ (∀ x, r'.mem (r'.st.env x).buf = r.mem (r.st.env x).buf) ∧
      ∀ i, r'.mem (.caller i) = r.mem (.caller i) := by
  intro r r'
  have hrel : Rel δ n0 r r' := rel_run sem p (rel_init kinds m m' n0 δ hm)
  refine ⟨hrel.events, ?_, ?_⟩
  · intro x; rw [hrel.envBuf x]; exact hrel.mem _ (hrel.valid x)
  · intro i; exact hrel.mem (.caller i) trivial

/-- **Repeatable.**  After a `Safe` call, a second call with the same arguments — started from the
memory and the allocator state the first one left behind — performs the same kernel calls and leaves the
same contents in every local, and the caller's buffers still hold their original contents. -/
theorem second_call_same_result {α : Type} (sem : Sem α) (p : Program) (h : Safe p) (kinds : Nat → Kind)
    (m0 : Mem α) :
    let r1 := mrun sem p kinds m0 0
    let r2 := mrun sem p kinds r1.mem (0 + r1.st.next)
    r2.st.events = r1.st.events ∧ (∀ x, r2.mem (r2.st.env x).buf = r1.mem (r1.st.env x).buf) ∧
      ∀ i, r2.mem (.caller i) = m0 (.caller i) := by
  intro r1 r2
  have hkeep : ∀ i, r1.mem (.caller i) = m0 (.caller i) := fun i =>
    caller_contents_unchanged sem [] p h kinds m0 0 i (by simp)
  have hind := runs_independent sem p kinds m0 r1.mem 0 r1.st.next hkeep
  refine ⟨hind.1, hind.2.1, ?_⟩
  intro i
  rw [hind.2.2 i]; exact hkeep i

/-- **Editing a returned object does not change a later answer.**  After a `Safe` call, let the caller do
anything to the private buffers the call produced (the returned array included): as long as the caller's own
buffers hold what they held, the next call gives the same kernel calls and the same contents in every local. -/
theorem second_call_after_editing_results {α : Type} (sem : Sem α) (p : Program) (h : Safe p)
    (kinds : Nat → Kind) (m0 medit : Mem α) (n : Nat)
    (hkeep : ∀ i, medit (.caller i) = (mrun sem p kinds m0 0).mem (.caller i)) :
    let r1 := mrun sem p kinds m0 0
    let r2 := mrun sem p kinds medit (0 + n)
    r2.st.events = r1.st.events ∧ (∀ x, r2.mem (r2.st.env x).buf = r1.mem (r1.st.env x).buf) ∧
      ∀ i, r2.mem (.caller i) = m0 (.caller i) := by
  intro r1 r2
  have hk1 : ∀ i, r1.mem (.caller i) = m0 (.caller i) := fun i =>
    caller_contents_unchanged sem [] p h kinds m0 0 i (by simp)
  have hind := runs_independent sem p kinds m0 medit 0 n (fun i => by rw [hkeep i]; exact hk1 i)
  refine ⟨hind.1, hind.2.1, ?_⟩
  intro i
  rw [hind.2.2 i]; exact hk1 i

/-- **Repeatable, any number of times.**  Every one of `k+1` consecutive calls of a `Safe` wrapper with the same
arguments — each started from the memory and allocator state left by the previous one — performs the same kernel
calls, leaves the same contents in every local as the first call did, and the caller's buffers keep their
original contents throughout. -/
theorem every_call_same_result {α : Type} (sem : Sem α) (p : Program) (h : Safe p) (kinds : Nat → Kind)
    (m0 : Mem α) (k : Nat) :
    let r1 := nthCall sem p kinds m0 0
    let rk := nthCall sem p kinds m0 k
    rk.st.events = r1.st.events ∧ (∀ x, rk.mem (rk.st.env x).buf = r1.mem (r1.st.env x).buf) ∧
      ∀ i, rk.mem (.caller i) = m0 (.caller i) := by
  induction k with
  | zero =>
    refine ⟨rfl, fun _ => rfl, ?_⟩
    intro i
    exact caller_contents_unchanged sem [] p h kinds m0 0 i (by simp)
  | succ k ih =>
    intro r1 rk
    have hprev : ∀ i, (nthCall sem p kinds m0 k).mem (.caller i) = m0 (.caller i) := ih.2.2
    have hind := runs_independent sem p kinds m0 (nthCall sem p kinds m0 k).mem 0
      (nthCall sem p kinds m0 k).st.next hprev
    have hk1 : ∀ i, r1.mem (.caller i) = m0 (.caller i) := fun i =>
      caller_contents_unchanged sem [] p h kinds m0 0 i (by simp)
    refine ⟨hind.1, hind.2.1, ?_⟩
    intro i
    have := hind.2.2 i
    show (nthCall sem p kinds m0 (k + 1)).mem (.caller i) = m0 (.caller i)
    rw [show nthCall sem p kinds m0 (k + 1) = mrun sem p kinds (nthCall sem p kinds m0 k).mem
          (0 + (nthCall sem p kinds m0 k).st.next) from rfl, this]
    exact hk1 i

/-- the marking semantics the driver runs (`mark` request) agrees with the written set: under `Safe`, no caller
buffer is marked, for any kinds -/
theorem safe_marks_nothing (p : Program) (h : Safe p) (kinds : Nat → Kind) (n : Nat) :
    markedCallers p kinds n = [] := by
  unfold markedCallers
  simp only [List.filter_eq_nil_iff, List.mem_range]
  intro i _
  have := caller_contents_unchanged markSem [] p h kinds (fun _ => 0) 0 i (by simp)
  simp [this]


/-! ### histories on one receiver (`Model/C18Obj.lean`): every list of operations, every outcome of every one -/

/-- **The receiver stays well formed along every history**: whatever public methods are called, in whatever order,
whatever the data make each of them do (accepted, empty area, rejected at any of its fault sites), and whatever the
caller does to the arrays the accessors hand out: two attributes of the Catchment never refer to the same non-empty
array. -/
theorem history_wf {α} (sem : OSem α) (ops : List Op) (m0 : Mem α) : WF (orun sem ops m0).obj :=
  wf_runFrom sem ops _ wf_new

/-- **Frame of one operation.**  On a well-formed receiver an operation leaves every attribute outside its documented
write-set alone: it refers to the same array (or is still `None`) and that array holds the same contents — also when
the operation is rejected half-way, and also for `delineate_boundary`, whose kernel sorts an array of the receiver. -/
theorem op_frame {α} (sem : OSem α) (s : OState α) (h : WF s.obj) (op : Op) (f : Field) (hf : f ∉ op.writes) :
    (ostep sem s op).obj.slot f = s.obj.slot f ∧ (ostep sem s op).content f = s.content f := by
  cases op with
  | read g => exact ⟨rfl, rfl⟩
  | callerEdit g =>
    have hfg : f ≠ g := by simpa [Op.writes] using hf
    simp only [ostep]
    cases hs : s.obj.slot g with
    | none => exact ⟨rfl, rfl⟩
    | some b => exact ⟨by simp, by simpa [OState.content] using store_content_other h hs hfg sem.edit⟩
  | computeFpl o =>
    have hfg : f ≠ .fpl := by simpa [Op.writes] using hf
    simp only [ostep]
    split
    · cases o
      · exact ⟨by simp [alloc_slot_other _ _ hfg], by simpa [OState.content] using alloc_content_other h _ hfg⟩
      · exact ⟨rfl, rfl⟩
    · exact ⟨rfl, rfl⟩
  | delineateBoundary mask o =>
    simp only [Op.writes, List.mem_cons, List.not_mem_nil, or_false, not_or] at hf
    obtain ⟨h1, h2, h3⟩ := hf
    simp only [ostep]
    split
    · rename_i a b ha hb
      split
      · exact ⟨rfl, rfl⟩
      · have hst : (s.store b sem.sort).content f = s.content f := store_content_other h hb h1 sem.sort
        have hwf : WF (s.store b sem.sort).obj := by simpa using h
        cases o
        · refine ⟨by simp [alloc_slot_other _ _ h3, alloc_slot_other _ _ h2], ?_⟩
          have e1 := alloc_content_other hwf (sem.boundary ((s.store b sem.sort).mem b) mask) h2
          have e2 := alloc_content_other (wf_alloc hwf .boundary (sem.boundary ((s.store b sem.sort).mem b) mask))
            (sem.xy (sem.boundary ((s.store b sem.sort).mem b) mask)) h3
          simpa [OState.content] using e2.trans (e1.trans hst)
        · exact ⟨by simp, by simpa [OState.content] using hst⟩
    · exact ⟨rfl, rfl⟩
  | delineateArea wi arg o =>
    simp only [Op.writes, List.mem_cons, List.not_mem_nil, or_false, not_or] at hf
    obtain ⟨h1, h2, h3, h4⟩ := hf
    have hp := areaPrologue_content sem h wi arg h1 h2
    have hpw := areaPrologue_wf sem h wi arg
    have hps : (areaPrologue sem s wi arg).obj.slot f = s.obj.slot f := by
      unfold areaPrologue
      cases wi <;> simp [OState.alloc, Obj.set, h1, h2]
    cases o with
    | badOutlet => exact ⟨rfl, rfl⟩
    | badInlets =>
      exact ⟨by simp [ostep, alloc_slot_other _ _ h1],
        by simpa [ostep, OState.content] using alloc_content_other h (sem.outlet arg) h1⟩
    | badNval => exact ⟨by simpa [ostep] using hps, by simpa [ostep, OState.content] using hp⟩
    | kernelError =>
      refine ⟨by simpa [ostep, Obj.set, h3, h4] using hps, ?_⟩
      simpa [ostep, OState.content, Obj.set, h3, h4] using hp
    | cells =>
      simp only [ostep]
      refine ⟨by simpa [alloc_slot_other _ _ h4, alloc_slot_other _ _ h3] using hps, ?_⟩
      have e1 := alloc_content_other hpw (sem.area arg) h3
      have e2 := alloc_content_other (wf_alloc hpw .area (sem.area arg)) (sem.fill (sem.area arg)) h4
      simpa [OState.content] using e2.trans (e1.trans hp)
    | empty =>
      simp only [ostep]
      have e1 := alloc_content_other hpw sem.emptyArr h3
      have e0 : ((areaPrologue sem s wi arg).alloc .area sem.emptyArr).obj.slot f = s.obj.slot f := by
        rw [alloc_slot_other _ _ h3]; exact hps
      refine ⟨by simpa [Obj.set, h4] using e0, ?_⟩
      have := e1.trans hp
      simpa [OState.content, Obj.set, h4] using this

/-- **Frame along a history.**  After ANY history on a new Catchment, ANY further list of operations none of which
has attribute `f` in its write-set leaves what the accessor of `f` hands out exactly as it was. -/
theorem history_frame {α} (sem : OSem α) (ops : List Op) (m0 : Mem α) (more : List Op) (f : Field)
    (hf : ∀ op ∈ more, f ∉ op.writes) :
    (orunFrom sem (orun sem ops m0) more).content f = (orun sem ops m0).content f ∧
      (orunFrom sem (orun sem ops m0) more).obj.slot f = (orun sem ops m0).obj.slot f := by
  have key : ∀ (more : List Op) (s : OState α), WF s.obj → (∀ op ∈ more, f ∉ op.writes) →
      (orunFrom sem s more).content f = s.content f ∧ (orunFrom sem s more).obj.slot f = s.obj.slot f := by
    intro more
    induction more with
    | nil => intro s _ _; exact ⟨rfl, rfl⟩
    | cons op more ih =>
      intro s hs hm
      have h1 := op_frame sem s hs op f (hm op (by simp))
      have h2 := ih (ostep sem s op) (wf_step sem s hs op) (fun o ho => hm o (by simp [ho]))
      exact ⟨h2.1.trans h1.2, h2.2.trans h1.1⟩
  exact key more _ (history_wf sem ops m0) hf

/-! fault paths: the state a rejected operation leaves behind -/

/-- a delineation rejected before anything is assigned leaves the receiver and the heap exactly as they were -/
theorem delineateArea_badOutlet_unchanged {α} (sem : OSem α) (s : OState α) (wi : Bool) (arg : Nat) :
    (ostep sem s (.delineateArea wi arg .badOutlet)).obj = s.obj ∧
      (ostep sem s (.delineateArea wi arg .badOutlet)).mem = s.mem ∧
      (ostep sem s (.delineateArea wi arg .badOutlet)).raised = true := ⟨rfl, rfl, rfl⟩

/-- a delineation the kernel rejects raises and leaves area and filled area `None` (the stated state), with boundary,
boundary coordinates and flow path lengths exactly as they were -/
theorem delineateArea_kernelError_state {α} (sem : OSem α) (s : OState α) (h : WF s.obj) (wi : Bool) (arg : Nat) :
    let s' := ostep sem s (.delineateArea wi arg .kernelError)
    s'.raised = true ∧ s'.obj.slot .area = none ∧ s'.obj.slot .filled = none ∧
      ∀ f, f = .boundary ∨ f = .xyboundary ∨ f = .fpl → s'.obj.slot f = s.obj.slot f ∧ s'.content f = s.content f := by
  refine ⟨rfl, by simp [ostep, Obj.set], by simp [ostep, Obj.set], ?_⟩
  intro f hf
  apply op_frame sem s h
  rcases hf with hf | hf | hf <;> simp [hf, Op.writes]

/-- a rejected `compute_flowpathlengths` (attribute missing, or the kernel returns an error) changes nothing at all -/
theorem computeFpl_rejected_unchanged {α} (sem : OSem α) (s : OState α) (o : KernOut)
    (hr : (ostep sem s (.computeFpl o)).raised = true) :
    (ostep sem s (.computeFpl o)).obj = s.obj ∧ (ostep sem s (.computeFpl o)).mem = s.mem := by
  rcases computeFpl_cases sem s o with h | ⟨a, out, _, _, _, h⟩
  · rw [h]; exact ⟨rfl, rfl⟩
  · rw [h] at hr; simp [OState.done] at hr

/-- a rejected `delineate_boundary` re-assigns no attribute; at most the ORDER of the filled cells has changed -/
theorem delineateBoundary_rejected_state {α} (sem : OSem α) (s : OState α) (h : WF s.obj) (mask : Option Nat) (o : KernOut)
    (hr : (ostep sem s (.delineateBoundary mask o)).raised = true) :
    (ostep sem s (.delineateBoundary mask o)).obj = s.obj ∧
      ∀ f, f ≠ .filled → (ostep sem s (.delineateBoundary mask o)).content f = s.content f := by
  rcases delineateBoundary_cases sem s mask o with h1 | ⟨a, b, _, hb, _, ⟨_, h1⟩ | ⟨_, h1⟩⟩
  · rw [h1]; exact ⟨rfl, fun _ _ => rfl⟩
  · rw [h1]
    refine ⟨by simp, ?_⟩
    intro f hf
    simpa [OState.content] using store_content_other h hb hf sem.sort
  · rw [h1] at hr; simp [OState.done] at hr

/-! answers: what a method stores is a function of its arguments and of what it reads — not of the history -/

/-- **`delineate_area` forgets the history.**  After an accepted delineation the outlet, the inlets, the area and the
filled area handed out by the accessors are functions of the arguments of THAT call only — whatever state the
receiver was in (any earlier delineation, accepted or rejected, with or without inlets). -/
theorem delineateArea_answer {α} (sem : OSem α) (s : OState α) (h : WF s.obj) (wi : Bool) (arg : Nat) :
    let s' := ostep sem s (.delineateArea wi arg .cells)
    s'.raised = false ∧ s'.content .outlet = some (sem.outlet arg) ∧
      s'.content .inlets = (if wi then some (sem.inlets arg) else none) ∧
      s'.content .area = some (sem.area arg) ∧ s'.content .filled = some (sem.fill (sem.area arg)) := by
  have hpw := areaPrologue_wf sem h wi arg
  have hw3 := wf_alloc hpw .area (sem.area arg)
  have ho : (areaPrologue sem s wi arg).content .outlet = some (sem.outlet arg) := by
    unfold areaPrologue
    cases wi
    · simp [OState.content, OState.alloc, Obj.set, memSet]
    · simp only [if_true]
      rw [alloc_content_other (wf_alloc h _ _) _ (by decide)]
      simp [OState.content, OState.alloc, Obj.set, memSet]
  have hi : (areaPrologue sem s wi arg).content .inlets = (if wi then some (sem.inlets arg) else none) := by
    unfold areaPrologue
    cases wi <;> simp [OState.content, OState.alloc, Obj.set, memSet]
  refine ⟨rfl, ?_, ?_, ?_, ?_⟩
  · simp only [ostep]
    have e := (alloc_content_other hw3 (sem.fill (sem.area arg)) (f := .filled) (g := .outlet) (by decide)).trans
      (alloc_content_other hpw (sem.area arg) (f := .area) (g := .outlet) (by decide))
    simpa [OState.content] using e.trans ho
  · simp only [ostep]
    have e := (alloc_content_other hw3 (sem.fill (sem.area arg)) (f := .filled) (g := .inlets) (by decide)).trans
      (alloc_content_other hpw (sem.area arg) (f := .area) (g := .inlets) (by decide))
    simpa [OState.content] using e.trans hi
  · simp only [ostep]
    have e := alloc_content_other hw3 (sem.fill (sem.area arg)) (f := .filled) (g := .area) (by decide)
    have e2 : ((areaPrologue sem s wi arg).alloc .area (sem.area arg)).content .area = some (sem.area arg) := by
      simp [OState.content, OState.alloc, Obj.set, memSet]
    simpa [OState.content] using e.trans e2
  · simp [ostep, OState.content, OState.alloc, Obj.set, memSet, OState.done]

/-- what `compute_flowpathlengths` stores: a function of the outlet and of the area cells the accessors hand out -/
theorem computeFpl_answer {α} (sem : OSem α) (s : OState α) :
    (ostep sem s (.computeFpl .ok)).content .fpl =
      match s.content .area, s.content .outlet with
      | some a, some o => some (sem.fpl o a)
      | _, _ => s.content .fpl := by
  simp only [ostep, OState.content]
  cases ha : s.obj.slot .area <;> cases ho : s.obj.slot .outlet <;>
    simp [OState.alloc, Obj.set, memSet, OState.done, OState.fail]

/-- **Interleaving.**  On a well-formed receiver, calling any operation `b` that has neither the area, the outlet nor
the flow path lengths in its write-set (`delineate_boundary` with any outcome, any accessor, any read-only method)
before `compute_flowpathlengths` does not change the flow path lengths that call stores. -/
theorem computeFpl_independent_of_interleaved_op {α} (sem : OSem α) (s : OState α) (h : WF s.obj) (b : Op)
    (ha : Field.area ∉ b.writes) (ho : Field.outlet ∉ b.writes) (hf : Field.fpl ∉ b.writes) :
    (ostep sem (ostep sem s b) (.computeFpl .ok)).content .fpl = (ostep sem s (.computeFpl .ok)).content .fpl := by
  rw [computeFpl_answer, computeFpl_answer, (op_frame sem s h b .area ha).2, (op_frame sem s h b .outlet ho).2,
    (op_frame sem s h b .fpl hf).2]

/-- in particular: delineating the boundary in between (whose kernel sorts the filled cells in place) -/
theorem computeFpl_independent_of_boundary {α} (sem : OSem α) (s : OState α) (h : WF s.obj) (mask : Option Nat)
    (o : KernOut) :
    (ostep sem (ostep sem s (.delineateBoundary mask o)) (.computeFpl .ok)).content .fpl =
      (ostep sem s (.computeFpl .ok)).content .fpl :=
  computeFpl_independent_of_interleaved_op sem s h _ (by simp [Op.writes]) (by simp [Op.writes]) (by simp [Op.writes])

/-- `delineate_boundary` leaves the area cells alone (same array, same contents, same order) on every well-formed
receiver — hence after every history -/
theorem delineateBoundary_keeps_area {α} (sem : OSem α) (ops : List Op) (m0 : Mem α) (mask : Option Nat) (o : KernOut) :
    (ostep sem (orun sem ops m0) (.delineateBoundary mask o)).content .area = (orun sem ops m0).content .area :=
  (op_frame sem _ (history_wf sem ops m0) _ .area (by simp [Op.writes])).2

/-- what `delineate_boundary` stores: a function of the SORTED filled cells and of the mask -/
theorem delineateBoundary_answer {α} (sem : OSem α) (s : OState α) (h : WF s.obj) (mask : Option Nat) (a b : Buf)
    (ha : s.obj.slot .area = some a) (hb : s.obj.slot .filled = some b) (hz : b ∉ s.obj.zero) :
    let s' := ostep sem s (.delineateBoundary mask .ok)
    s'.raised = false ∧ s'.content .boundary = some (sem.boundary (sem.sort (s.mem b)) mask) ∧
      s'.content .filled = some (sem.sort (s.mem b)) ∧ s'.obj.slot .filled = some b ∧ s'.obj.zero = s.obj.zero := by
  have hwf : WF (s.store b sem.sort).obj := by simpa using h
  have hm : (s.store b sem.sort).mem b = sem.sort (s.mem b) := store_mem_same s b sem.sort hz
  have hstep : ostep sem s (.delineateBoundary mask .ok) =
      (((s.store b sem.sort).alloc .boundary (sem.boundary (sem.sort (s.mem b)) mask)).alloc .xyboundary
        (sem.xy (sem.boundary (sem.sort (s.mem b)) mask))).done := by
    simp [ostep, ha, hb, hz, hm]
  intro s'
  have hs' : s' = _ := hstep
  rw [hs']
  refine ⟨rfl, ?_, ?_, ?_, ?_⟩
  · have e := alloc_content_other (wf_alloc hwf .boundary (sem.boundary (sem.sort (s.mem b)) mask))
      (sem.xy (sem.boundary (sem.sort (s.mem b)) mask)) (f := .xyboundary) (g := .boundary) (by decide)
    have e2 : ((s.store b sem.sort).alloc .boundary (sem.boundary (sem.sort (s.mem b)) mask)).content .boundary =
        some (sem.boundary (sem.sort (s.mem b)) mask) := by
      simp [OState.content, OState.alloc, Obj.set, memSet]
    simpa [OState.content] using e.trans e2
  · have hbf : (s.store b sem.sort).content .filled = some (sem.sort (s.mem b)) := by
      simp [OState.content, hb, hm]
    have e1 := alloc_content_other hwf (sem.boundary (sem.sort (s.mem b)) mask) (f := .boundary) (g := .filled)
      (by decide)
    have e2 := alloc_content_other (wf_alloc hwf .boundary (sem.boundary (sem.sort (s.mem b)) mask))
      (sem.xy (sem.boundary (sem.sort (s.mem b)) mask)) (f := .xyboundary) (g := .filled) (by decide)
    simpa [OState.content] using e2.trans (e1.trans hbf)
  · simp [OState.alloc, Obj.set, hb]
  · simp [OState.alloc, Obj.set]

/-- the hypotheses of `delineateBoundary_answer` are the code's own guards: without an area, without filled cells,
or with an empty area, `delineate_boundary` raises and leaves the receiver and the heap exactly as they were -/
theorem delineateBoundary_guard {α} (sem : OSem α) (s : OState α) (mask : Option Nat) (o : KernOut)
    (hg : s.obj.slot .area = none ∨ s.obj.slot .filled = none ∨ ∃ b, s.obj.slot .filled = some b ∧ b ∈ s.obj.zero) :
    (ostep sem s (.delineateBoundary mask o)).raised = true ∧ (ostep sem s (.delineateBoundary mask o)).obj = s.obj ∧
      (ostep sem s (.delineateBoundary mask o)).mem = s.mem := by
  rcases delineateBoundary_cases sem s mask o with h | ⟨a, b, ha, hb, hz, _⟩
  · rw [h]; exact ⟨rfl, rfl, rfl⟩
  · rcases hg with hg | hg | ⟨b', hb', hz'⟩
    · rw [ha] at hg; cases hg
    · rw [hb] at hg; cases hg
    · rw [hb] at hb'; cases hb'; exact absurd hz' hz

/-- the empty area: both accessors hand out the same zero-length array, again whatever the receiver held before -/
theorem delineateArea_empty_answer {α} (sem : OSem α) (s : OState α) (wi : Bool) (arg : Nat) :
    let s' := ostep sem s (.delineateArea wi arg .empty)
    s'.raised = false ∧ s'.content .area = some sem.emptyArr ∧ s'.content .filled = some sem.emptyArr ∧
      s'.obj.slot .area = s'.obj.slot .filled ∧ ∀ b, s'.obj.slot .area = some b → b ∈ s'.obj.zero := by
  refine ⟨rfl, ?_, ?_, ?_, ?_⟩
  · simp [ostep, OState.content, OState.alloc, Obj.set, memSet]
  · simp [ostep, OState.content, OState.alloc, Obj.set, memSet]
  · simp [ostep, OState.alloc, Obj.set]
  · intro b hb
    simp [ostep, OState.alloc, Obj.set] at hb ⊢
    simp [hb]

/-- **`delineate_boundary` is repeatable** although it sorts receiver state in place: when sorting a sorted array
changes nothing (true of `qsort`), the second of two consecutive calls stores the same boundary as the first. -/
theorem delineateBoundary_twice {α} (sem : OSem α) (hs : ∀ x, sem.sort (sem.sort x) = sem.sort x) (s : OState α)
    (h : WF s.obj) (mask : Option Nat) (a b : Buf) (ha : s.obj.slot .area = some a) (hb : s.obj.slot .filled = some b)
    (hz : b ∉ s.obj.zero) :
    let s1 := ostep sem s (.delineateBoundary mask .ok)
    (ostep sem s1 (.delineateBoundary mask .ok)).content .boundary = s1.content .boundary := by
  intro s1
  have r1 := delineateBoundary_answer sem s h mask a b ha hb hz
  have hw1 : WF s1.obj := wf_step sem s h _
  have ha1 : s1.obj.slot .area = some a := by
    rw [(op_frame sem s h (.delineateBoundary mask .ok) .area (by simp [Op.writes])).1]; exact ha
  have hb1 : s1.obj.slot .filled = some b := r1.2.2.2.1
  have hz1 : b ∉ s1.obj.zero := by rw [r1.2.2.2.2]; exact hz
  have r2 := delineateBoundary_answer sem s1 hw1 mask a b ha1 hb1 hz1
  have hmem : s1.mem b = sem.sort (s.mem b) := by
    have h3 : s1.content .filled = some (sem.sort (s.mem b)) := r1.2.2.1
    unfold OState.content at h3
    rw [hb1] at h3
    simpa using h3
  rw [r2.2.1, r1.2.1, hmem, hs]

/-! the hypotheses are needed: the separation invariant (`WF`) and the idempotent sort -/

/-- without separation the frame fails: on a receiver whose area and filled area are ONE non-empty array (what an
"area without holes needs no second vector" edit produces), `delineate_boundary` changes the area cells -/
theorem sharedArea_not_wf {α} (v : α) : ¬ WF (sharedAreaState v).obj := by
  intro h
  have := h.sep .area .filled (.fresh 1) (by decide) rfl rfl
  simp [sharedAreaState] at this

theorem sharedArea_boundary_changes_area :
    (ostep omarkSem (sharedAreaState 7) (.delineateBoundary none .ok)).content .area = some 8 ∧
      (sharedAreaState (7 : Nat)).content .area = some 7 := by decide

/-! non-vacuity of the object-level statements -/

/-- a history with an empty area, a rejected delineation, caller edits and the methods in every order: well formed,
and the flow path lengths do not depend on whether the boundary was delineated in between -/
example :
    let h : List Op := [.delineateArea true 1 .cells, .computeFpl .ok, .delineateArea false 2 .kernelError,
      .delineateArea false 3 .empty, .delineateBoundary none .ok, .delineateArea true 4 .cells, .callerEdit .filled]
    let s := orun omarkSem h (fun _ => 0)
    s.obj.slot .area = some (.fresh 10) ∧ s.obj.slot .filled = some (.fresh 11) ∧ s.content .filled = some 1 ∧
      (ostep omarkSem (ostep omarkSem s (.delineateBoundary none .ok)) (.computeFpl .ok)).content .fpl =
        (ostep omarkSem s (.computeFpl .ok)).content .fpl ∧
      (ostep omarkSem s (.delineateBoundary none .ok)).content .filled = some 2 ∧
      (ostep omarkSem s (.delineateBoundary none .ok)).content .area = some 0 := by decide

/-- the condition of the interleaving theorem is needed: an operation that has the area in its write-set (the caller
reversing the cells the accessor handed out) does change what `compute_flowpathlengths` stores -/
example :
    let sem : OSem Nat := { omarkSem with fpl := fun o a => o + 10 * a, area := fun _ => 3 }
    let s := orun sem [.delineateArea false 0 .cells] (fun _ => 0)
    (ostep sem s (.computeFpl .ok)).content .fpl = some 30 ∧
      (ostep sem (ostep sem s (.callerEdit .area)) (.computeFpl .ok)).content .fpl = some 40 ∧
      (ostep sem (ostep sem s (.callerEdit .filled)) (.computeFpl .ok)).content .fpl = some 30 := by decide

/-- the empty area: filled area and area are the same zero-length array, `delineate_boundary` is rejected and the
receiver is untouched -/
example :
    let s := orun omarkSem [.delineateArea false 0 .empty] (fun _ => 0)
    s.obj.slot .area = s.obj.slot .filled ∧ s.obj.slot .area = some (.fresh 1) ∧
      (ostep omarkSem s (.delineateBoundary none .ok)).raised = true ∧
      (ostep omarkSem s (.callerEdit .area)).content .filled = some 0 := by decide

/-- a sort that is not idempotent (the marking instance counts stores) gives another boundary argument the second
time: the hypothesis of `delineateBoundary_twice` is used -/
example :
    let s := orun omarkSem [.delineateArea false 0 .cells, .delineateBoundary none .ok] (fun _ => 0)
    s.content .filled = some 1 ∧ (ostep omarkSem s (.delineateBoundary none .ok)).content .filled = some 2 := by decide


/-! ### repeatability when the call is entitled to write something of the caller's (the random generator, an output
array, receiver state) -/

/-- **Same seed, same result.**  Let a wrapper be entitled to write the caller buffers in `allowed` (numpy's global
random generator `rngState` for the functions that draw numbers; a caller-supplied work / output array) and nothing
else. If, after a first call, the caller puts back what those buffers held (`np.random.seed(seed)` again) — whatever
the call left everywhere else on the heap — a second call with the same arguments performs the same kernel calls and
leaves the same contents in every local (the returned one included) and in every caller buffer as the first. -/
theorem second_call_same_result_after_restore {α : Type} (sem : Sem α) (allowed : List Nat) (p : Program)
    (h : SafeExcept allowed p) (kinds : Nat → Kind) (m0 : Mem α) :
    let r1 := mrun sem p kinds m0 0
    let restored : Mem α := fun b => match b with
      | .caller i => if i ∈ allowed then m0 (.caller i) else r1.mem (.caller i)
      | b => r1.mem b
    let r2 := mrun sem p kinds restored (0 + r1.st.next)
    r2.st.events = r1.st.events ∧ (∀ x, r2.mem (r2.st.env x).buf = r1.mem (r1.st.env x).buf) ∧
      ∀ i, r2.mem (.caller i) = r1.mem (.caller i) := by
  intro r1 restored r2
  have hm : ∀ i, restored (.caller i) = m0 (.caller i) := by
    intro i
    by_cases hi : i ∈ allowed
    · simp [restored, hi]
    · simp only [restored, hi, if_false]
      exact caller_contents_unchanged sem allowed p h kinds m0 0 i hi
  exact runs_independent sem p kinds m0 restored 0 r1.st.next hm

/-- the functions that draw random numbers write the generator's state and no other caller buffer -/
theorem kdeSeeded_safe_except_rng : SafeExcept [rngState] kdeSeeded := by decide
theorem lhs_safe_except_rng : SafeExcept [rngState] lhs := by decide
theorem kdeSeeded_not_safe : ¬ Safe kdeSeeded := by decide
/-- … and they do write it, whatever the arguments are: without re-seeding, the second call starts elsewhere -/
theorem kdeSeeded_advances_generator (kinds : Nat → Kind) : Buf.caller rngState ∈ (run kdeSeeded kinds).written := by
  have h : kdeSeeded = kdeSeeded.take 2 ++ kdeSeeded.drop 2 := (List.take_append_drop 2 _).symm
  rw [run, h]
  apply written_of_prefix
  cases hc : anyLayout.sat (kinds 0) <;> simp [runFrom, kdeSeeded, step, init, upd, hc, rngState]


/-! ### what a call hands back or keeps -/

/-- **Nothing of the caller's is handed back or kept.**  If the syntactic check says that the locals a wrapper returns
(or stores into its receiver) were made inside the call, they hold private buffers — for every dtype / layout /
container of every argument. A later in-place write through them (the caller editing a result, `Grid.fill` on the
receiver that stored them) therefore cannot reach a caller buffer. -/
theorem returned_private (p : Program) (xs : List Nat) (h : ReturnsPrivate p xs) (kinds : Nat → Kind) (x : Nat)
    (hx : x ∈ xs) : ((run p kinds).env x).buf.isFresh = true := by
  have hok := absOK_run p absInit (init kinds) (absOK_init kinds 0) x
  have hnone : (absRun absInit p x).isNone = true := by
    have := (List.all_eq_true.mp h) x hx
    simpa using this
  cases ha : absRun absInit p x with
  | none => rw [ha] at hok; exact hok
  | some r => rw [ha] at hnone; simp at hnone

/-- **The caller may overwrite what a call returned** — the hypothesis of `second_call_after_editing_results` holds for
edits of returned arrays: after a `Safe` call whose results are private, storing ANY contents into the buffer of a
returned local leaves every caller buffer as it was, and the next call gives the original answer again. -/
theorem second_call_after_editing_returned {α : Type} (sem : Sem α) (p : Program) (h : Safe p) (xs : List Nat)
    (hr : ReturnsPrivate p xs) (kinds : Nat → Kind) (m0 : Mem α) (x : Nat) (hx : x ∈ xs) (v : α) :
    let r1 := mrun sem p kinds m0 0
    let r2 := mrun sem p kinds (memSet r1.mem (r1.st.env x).buf v) (0 + r1.st.next)
    r2.st.events = r1.st.events ∧ (∀ y, r2.mem (r2.st.env y).buf = r1.mem (r1.st.env y).buf) ∧
      ∀ i, r2.mem (.caller i) = m0 (.caller i) := by
  intro r1 r2
  apply second_call_after_editing_results sem p h kinds m0
  intro i
  have hf : ((run p kinds).env x).buf.isFresh = true := returned_private p xs hr kinds x hx
  have hst : r1.st = run p kinds := mrunFrom_st sem p _
  have hne : Buf.caller i ≠ (r1.st.env x).buf := by
    intro e
    rw [hst] at e
    rw [← e] at hf
    simp [Buf.isFresh] at hf
  show memSet r1.mem (r1.st.env x).buf v (.caller i) = r1.mem (.caller i)
  simp [memSet, hne]

/-- every modelled wrapper except the one with a caller-supplied OUTPUT array hands back private buffers only -/
theorem wrappers_return_private : ∀ w ∈ wrappers, w.1 ∉ ["points_inside_polygon_out", "grid_data_setter_nocopy"] →
    ReturnsPrivate w.2 ((results.lookup w.1).getD []) := by decide

/-- `points_inside_polygon(inside=...)` returns the caller's own array … -/
theorem pointsInsidePolygonOut_returns_caller (kinds : Nat → Kind) :
    resultCallers "points_inside_polygon_out" pointsInsidePolygonOut kinds = [2] := by
  simp [resultCallers, results, List.lookup, run, runFrom, pointsInsidePolygonOut, step, init, upd, Buf.callerIdx]

/-- … and a data setter that converts with `copy=False` is rejected: for a C-contiguous array the grid keeps the caller's
own buffer, which `Grid.fill` / `Grid.__setitem__` then write -/
theorem gridDataSetterNoCopy_not_private : ¬ ReturnsPrivate gridDataSetterNoCopy [11] := by decide
theorem gridDataSetterNoCopy_keeps_caller (kinds : Nat → Kind) (hv : (kinds 0).view = true) (hc : (kinds 0).contig = true) :
    ((run gridDataSetterNoCopy kinds).env 11).buf = .caller 0 := by
  simp [run, runFrom, gridDataSetterNoCopy, step, init, upd, Cond.sat, anyLayout, cContig, hv, hc]

/-! ### dtype of the objects the caller passed -/

/-- a body that converts no object in place leaves the dtype of everything the caller passed as it was -/
theorem noRetype_keeps_dtypes (p : Program) (h : noRetype p = true) (kinds : Nat → Kind) (i : Nat) :
    callerDType (run p kinds) kinds i = (kinds i).dt := by
  have : (run p kinds).retyped = [] := runFrom_retyped_of_noRetype p (init kinds) h
  simp [callerDType, this]

/-- every modelled wrapper except the four grid-level functions is such a body -/
theorem wrappers_noRetype : ∀ w ∈ wrappers, w.1 ∉ retypingWrappers → noRetype w.2 = true := by decide

/-- the grid-level functions convert exactly these Grid arguments, to these dtypes, whatever they were -/
theorem accumulate_retypes (kinds : Nat → Kind) : (run accumulate kinds).retyped = [(1, .f64), (0, .i64)] := by
  simp [run, runFrom, accumulate, step, init, upd]
theorem accumulateDefault_retypes (kinds : Nat → Kind) : (run accumulateDefault kinds).retyped = [(0, .i64)] := by
  simp [run, runFrom, accumulateDefault, step, init, upd]
theorem slope_retypes (kinds : Nat → Kind) : (run slope kinds).retyped = [(1, .f64), (0, .i64)] := by
  simp [run, runFrom, slope, step, init, upd]
theorem delineateRiver_retypes (kinds : Nat → Kind) : (run delineateRiver kinds).retyped = [(0, .i64)] := by
  simp [run, runFrom, delineateRiver, step, init, upd]

/-! ### the wrappers of hydrodiy (one obligation per kernel call site; decided: the check is syntactic) -/

theorem aggregate_safe : Safe aggregate := by decide
theorem flathomogen_safe : Safe flathomogen := by decide
theorem var2h_safe : Safe var2h := by decide
theorem islinear_safe : Safe islinear := by decide
theorem eckhardt_safe : Safe eckhardt := by decide
theorem crps_safe : Safe crps := by decide
theorem andersonDarling_safe : Safe andersonDarling := by decide
theorem dscore_safe : Safe dscore := by decide
theorem armodelSim_safe : Safe armodelSim := by decide
theorem armodelResidual_safe : Safe armodelResidual := by decide
theorem paretoFront_safe : Safe paretoFront := by decide
theorem coord2cell_safe : Safe coord2cell := by decide
theorem cell2coord_safe : Safe cell2coord := by decide
theorem cell2rowcol_safe : Safe cell2rowcol := by decide
theorem neighbours_safe : Safe neighbours := by decide
theorem gridSlice_safe : Safe gridSlice := by decide
theorem upstream_safe : Safe upstream := by decide
theorem downstream_safe : Safe downstream := by decide
theorem delineateArea_safe : Safe delineateArea := by decide
theorem delineateAreaNoInlets_safe : Safe delineateAreaNoInlets := by decide
theorem flowpathlengths_safe : Safe flowpathlengths := by decide
theorem intersect_safe : Safe intersect := by decide
theorem delineateRiver_safe : Safe delineateRiver := by decide
theorem accumulate_safe : Safe accumulate := by decide
theorem accumulateDefault_safe : Safe accumulateDefault := by decide
theorem voronoi_safe : Safe voronoi := by decide
theorem slope_safe : Safe slope := by decide
theorem pointsInsidePolygon_safe : Safe pointsInsidePolygon := by decide
theorem kdeFixed_safe : Safe kdeFixed := by decide

/-! pure-Python bodies that store in place into something derived from an argument -/
theorem absolutePeakError_safe : Safe absolutePeakError := by decide
theorem lag_safe : Safe lag := by decide
theorem monthly2daily_safe : Safe monthly2daily := by decide
theorem gsmooth_safe : Safe gsmooth := by decide
theorem yeoJohnsonForward_safe : Safe yeoJohnsonForward := by decide
theorem lstsqIntercept_safe : Safe lstsqIntercept := by decide
theorem acf_safe : Safe acf := by decide
theorem iqr_safe : Safe iqr := by decide
theorem gridDataSetter_safe : Safe gridDataSetter := by decide
theorem gridClip_safe : Safe gridClip := by decide
theorem gridClone_safe : Safe gridClone := by decide
theorem gridApply_safe : Safe gridApply := by decide
theorem catchmentInit_safe : Safe catchmentInit := by decide
theorem lag_returns_private : ReturnsPrivate lag [10] := by decide
theorem gridDataSetter_stores_private : ReturnsPrivate gridDataSetter [11] := by decide
theorem gridClip_stores_private : ReturnsPrivate gridClip [11] := by decide
theorem gridApply_stores_private : ReturnsPrivate gridApply [12] := by decide
theorem catchmentInit_stores_private : ReturnsPrivate catchmentInit [10] := by decide

/-! wrappers that write a caller buffer by design: the check fails, the exact exception set is proved,
and the write is exhibited for EVERY kind of argument (the buffer goes to the kernel as it is) -/

/-- `Catchment.delineate_boundary`: the kernel qsorts `self._idxcells_area_filled` (caller 1, receiver
state — not an argument) and nothing else that exists before the call -/
theorem delineateBoundary_safe_except_receiver : SafeExcept [1] delineateBoundary := by decide
theorem delineateBoundaryNoMask_safe_except_receiver : SafeExcept [1] delineateBoundaryNoMask := by decide
theorem delineateBoundary_not_safe : ¬ Safe delineateBoundary := by decide
theorem delineateBoundary_writes_receiver (kinds : Nat → Kind) :
    Buf.caller 1 ∈ (run delineateBoundary kinds).written := by
  have h : delineateBoundary = delineateBoundary.take 5 ++ delineateBoundary.drop 5 :=
    (List.take_append_drop 5 _).symm
  rw [run, h]
  apply written_of_prefix
  simp [runFrom, delineateBoundary, step, init, upd]

/-- `gutils.points_inside_polygon(inside=...)`: the caller-supplied OUTPUT array (caller 2) is the only
caller buffer written; `points` and `polygon` are not -/
theorem pointsInsidePolygonOut_safe_except_output : SafeExcept [2] pointsInsidePolygonOut := by decide
theorem pointsInsidePolygonOut_not_safe : ¬ Safe pointsInsidePolygonOut := by decide
theorem pointsInsidePolygonOut_writes_output (kinds : Nat → Kind) :
    Buf.caller 2 ∈ (run pointsInsidePolygonOut kinds).written := by
  simp [run, runFrom, pointsInsidePolygonOut, step, init, upd]

/-! the check is not vacuous: two realistic edits are rejected, with the failing argument kind -/

/-- `np.asarray(x, dtype=np.float64)` instead of `.astype(np.float64)` before `ad_test`: rejected … -/
theorem andersonDarlingAsarray_not_safe : ¬ Safe andersonDarlingAsarray := by decide
/-- … and for a float64 ndarray (any layout) the kernel then sorts the caller's own array -/
theorem andersonDarlingAsarray_sorts_caller (kinds : Nat → Kind) (hv : (kinds 0).view = true)
    (hd : (kinds 0).dt = .f64) : Buf.caller 0 ∈ (run andersonDarlingAsarray kinds).written := by
  simp [run, runFrom, andersonDarlingAsarray, step, init, upd, Cond.sat, anyLayout, hv, hd]
/-- whereas any other dtype is converted, hence copied -/
theorem andersonDarlingAsarray_other_dtype (kinds : Nat → Kind) (hd : (kinds 0).dt ≠ .f64) :
    Buf.caller 0 ∉ (run andersonDarlingAsarray kinds).written := by
  rcases hk : kinds 0 with ⟨v, d, c⟩
  rw [hk] at hd
  cases v <;> cases d <;>
    simp_all [run, runFrom, andersonDarlingAsarray, step, init, upd, Cond.sat, anyLayout, freshKind]

/-- … and so is anything `np.atleast_1d` has to convert (a list, a frame of mixed columns), whatever its dtype -/
theorem andersonDarlingAsarray_converted_kept (kinds : Nat → Kind) (hv : (kinds 0).view = false) :
    Buf.caller 0 ∉ (run andersonDarlingAsarray kinds).written := by
  rcases hk : kinds 0 with ⟨v, d, c⟩
  rw [hk] at hv
  simp only at hv
  subst hv
  cases d <;> simp_all [run, runFrom, andersonDarlingAsarray, step, init, upd, Cond.sat, anyLayout, freshKind]

/-- the grid functions convert the caller's grid in place (`flowdir.dtype = np.int64`): the buffer the kernel
receives IS the caller's grid data, so `accumulate_safe` rests on the kernel reading it only; a kernel that
stores into it is rejected, and the caller's flow-direction grid is written whatever its dtype -/
theorem accumulateWritesFlowdir_not_safe : ¬ Safe accumulateWritesFlowdir := by decide
theorem accumulateWritesFlowdir_writes_caller_grid (kinds : Nat → Kind) :
    Buf.caller 0 ∈ (run accumulateWritesFlowdir kinds).written := by
  simp [run, runFrom, accumulateWritesFlowdir, step, init, upd]

/-- `putils.kde` as pinned (jitter added to the `np.asarray` image of the argument): rejected, and the
caller's array is written whenever `np.asarray` is a view -/
theorem kdePinned_not_safe : ¬ Safe kdePinned := by decide
theorem kdePinned_writes_caller (kinds : Nat → Kind) (hv : (kinds 0).view = true) :
    Buf.caller 0 ∈ (run kdePinned kinds).written := by
  simp [run, runFrom, kdePinned, step, init, upd, Cond.sat, anyLayout, hv]

/-- … and only then: a list (or anything `np.asarray` has to convert) is not touched -/
theorem kdePinned_converted_argument_kept (kinds : Nat → Kind) (hv : (kinds 0).view = false) :
    Buf.caller 0 ∉ (run kdePinned kinds).written := by
  simp [run, runFrom, kdePinned, step, init, upd, Cond.sat, anyLayout, hv]

/-- `sutils.lstsq(add_intercept=True)` as pinned (the column was added to the caller's frame): rejected, and the
caller's frame is written whatever it holds -/
theorem lstsqInterceptPinned_not_safe : ¬ Safe lstsqInterceptPinned := by decide
theorem lstsqInterceptPinned_writes_caller (kinds : Nat → Kind) :
    Buf.caller 0 ∈ (run lstsqInterceptPinned kinds).written := by
  simp [run, runFrom, lstsqInterceptPinned, step, init, upd]

/-- `np.nanpercentile(ref[i, :], perc, overwrite_input=True)` in `metrics.iqr`: rejected, and the caller's matrix is
written exactly when `np.atleast_2d` hands its buffer through -/
theorem iqrOverwriteInput_not_safe : ¬ Safe iqrOverwriteInput := by decide
theorem iqrOverwriteInput_writes_caller (kinds : Nat → Kind) (hv : (kinds 1).view = true) :
    Buf.caller 1 ∈ (run iqrOverwriteInput kinds).written := by
  cases h0 : (kinds 0).view <;>
    simp [run, runFrom, iqrOverwriteInput, step, init, upd, Cond.sat, anyLayout, hv, h0]

/-! non-vacuity of the generic statements on a concrete wrapper and concrete kinds -/

/-- contents instance: values are naturals, `ad_test` overwrites both arguments; the caller's buffer keeps
its contents (7) although the kernel writes its first argument -/
example :
    let sem : Sem Nat := ⟨fun _ v => v, fun _ => 0, fun v => v + 1, fun _ vs => vs.map (· + 100)⟩
    (mrun sem andersonDarling (fun _ => ⟨true, .f64, true⟩) (fun _ => 7)).mem (.caller 0) = 7 ∧
    (mrun sem andersonDarlingAsarray (fun _ => ⟨true, .f64, true⟩) (fun _ => 7)).mem (.caller 0) = 107 := by
  decide

/-- four consecutive calls: the caller's buffer keeps its contents under the real wrapper, and is stored to on
every call (7 → 11) under the `np.asarray` edit -/
example :
    (nthCall markSem andersonDarling (fun _ => ⟨true, .f64, true⟩) (fun _ => 7) 3).mem (.caller 0) = 7 ∧
    (nthCall markSem andersonDarlingAsarray (fun _ => ⟨true, .f64, true⟩) (fun _ => 7) 3).mem (.caller 0) = 11 := by
  decide
example : markedCallers andersonDarlingAsarray (fun _ => ⟨true, .f64, true⟩) 10 = [0] ∧
    markedCallers delineateBoundary (fun _ => ⟨true, .i64, true⟩) 10 = [1] := by decide

/-- re-seeding: the generator (contents 7) is advanced by the call (8); put back, the second call leaves the same
contents everywhere; not put back, the generator moves on (9) -/
example :
    let k : Nat → Kind := fun _ => ⟨true, .f64, true⟩
    let r1 := mrun markSem kdeSeeded k (fun _ => 7)
    let r2 := mrun markSem kdeSeeded k (memSet r1.mem (.caller rngState) 7) r1.st.next
    let r2' := mrun markSem kdeSeeded k r1.mem r1.st.next
    r1.mem (.caller rngState) = 8 ∧ r2.mem (.caller rngState) = 8 ∧ r2'.mem (.caller rngState) = 9 ∧
      r1.mem (.caller 0) = 7 := by decide

/-- dtypes after `accumulate(flowdir: int32 grid, to_accumulate: float32 grid)` -/
example :
    let k : Nat → Kind := fun i => if i = 0 then ⟨true, .i32, true⟩ else ⟨true, .f32, true⟩
    callerDType (run accumulate k) k 0 = .i64 ∧ callerDType (run accumulate k) k 1 = .f64 ∧
      callerDType (run accumulate k) k 2 = .f32 ∧ callerDType (run crps k) k 0 = .i32 := by decide

/-- the caller overwrites what `anderson_darling_test` returned (local 10) with 99: the second call stores what the
first one stored, and the caller's sample (7) is still there -/
example :
    let k : Nat → Kind := fun _ => ⟨true, .f64, true⟩
    let r1 := mrun markSem andersonDarling k (fun _ => 7)
    let r2 := mrun markSem andersonDarling k (memSet r1.mem (r1.st.env 10).buf 99) (0 + r1.st.next)
    ReturnsPrivate andersonDarling [10] ∧ (r1.st.env 10).buf = .fresh 1 ∧ r1.mem (.fresh 1) = 1 ∧
      r2.mem (r2.st.env 10).buf = 1 ∧ r2.mem (.caller 0) = 7 := by decide

/-- `delineateBoundary_twice` on a concrete receiver with an idempotent sort (contents are sets of cells abstracted to a
number, sorting sets bit 0): its hypotheses hold after any accepted delineation, and the two boundaries agree -/
example :
    let sem : OSem Nat := idemSem
    let s := orun sem [.delineateArea true 3 .cells, .computeFpl .ok] (fun _ => 0)
    s.obj.slot .area = some (.fresh 2) ∧ s.obj.slot .filled = some (.fresh 3) ∧ (Buf.fresh 3) ∉ s.obj.zero ∧
      (ostep sem s (.delineateBoundary none .ok)).content .boundary = some 90 ∧
      (ostep sem (ostep sem s (.delineateBoundary none .ok)) (.delineateBoundary none .ok)).content .boundary = some 90 := by
  decide

/-- rejected operations on a concrete receiver: the kernel error of a delineation leaves the stated state, a rejected
`compute_flowpathlengths` / `delineate_boundary` nothing (the filled cells are sorted by the latter) -/
example :
    let s := orun omarkSem [.delineateArea true 1 .cells, .delineateBoundary none .ok, .computeFpl .ok] (fun _ => 0)
    let s1 := ostep omarkSem s (.delineateArea false 2 .kernelError)
    s1.raised = true ∧ s1.obj.slot .area = none ∧ s1.obj.slot .filled = none ∧ s1.obj.slot .inlets = none ∧
      s1.content .boundary = s.content .boundary ∧ s1.content .fpl = s.content .fpl ∧ s.content .fpl = some 0 ∧
      (ostep omarkSem s (.computeFpl .kernelError)).raised = true ∧
      (ostep omarkSem s (.delineateBoundary (some 2) .kernelError)).content .filled = some 2 ∧
      (ostep omarkSem s (.delineateBoundary (some 2) .kernelError)).content .boundary = s.content .boundary ∧
      (ostep omarkSem s1 (.delineateBoundary none .ok)).raised = true := by decide

/-- the read-only pass-through is visible in the events: a C-contiguous float64 `xycoords` reaches
`c_coord2cell` itself, a float32 one is converted -/
example : (run coord2cell (fun _ => ⟨true, .f64, true⟩)).events = [⟨"coord2cell", [(some 0, false), (none, true)]⟩] := by
  decide
example : (run coord2cell (fun _ => ⟨true, .f32, true⟩)).events = [⟨"coord2cell", [(none, false), (none, true)]⟩] := by
  decide

end HydroVerif.C18
