/-
C18 — computations leave their arguments untouched and are repeatable: the part carried by a theorem.

Everything proved here is about the ownership model of `Model/C18.lean`: numpy's copy semantics are its axioms,
the C kernels enter through their write-sets, the contents semantics is parametric in what the kernels compute.
The model is tied to the code by the recorder shim of harness/c18.py (`run`, `safe`, `mark`, `kernels` requests of
the driver are executed and compared on every run).

CLAUSE → THEOREMS → WHAT REMAINS OUTSIDE

1. "leave the numeric arrays, series and data frames passed to them bit-for-bit unchanged (values, dtype, shape)"
   * kernel-facing wrappers (every site where a buffer reaches C; cross-checked against the source on every run):
     `soundness`, `soundness_except`, `written_args_private` (every program, every dtype / layout / container of every
     argument, every allocator state), `caller_contents_unchanged` (every kernel semantics respecting the write-sets),
     `safe_marks_nothing` (the executable marking semantics the driver runs), and one `<wrapper>_safe` per call site
     (29), `delineateBoundary*_safe_except_receiver`, `pointsInsidePolygonOut_safe_except_output` with the witnesses
     `..._writes_receiver` / `..._writes_output`.  Non-vacuity: `andersonDarlingAsarray_*`, `kdePinned_*`,
     `accumulateWritesFlowdir_*`.
   * outside: (a) that the DSL terms are the wrapper bodies and that numpy behaves as axiomatised — shim
     correspondence; (b) dtype / shape of the caller's OBJECT (a view-or-copy model has no notion of rebinding an
     attribute) and every function that never reaches a kernel — snapshot oracle only.
2. "grid arguments keep their cell values"
   * `accumulate_safe`, `accumulateDefault_safe`, `slope_safe`, `delineateRiver_safe` with the `retype` statement
     (the caller's grid is converted in place; the local keeps denoting the caller's cells), contents by
     `caller_contents_unchanged`; `accumulateWritesFlowdir_writes_caller_grid` shows the flag is load-bearing.
   * outside: Grid / Catchment methods that are pure Python — oracle only.
3. "calling the same function twice with the same arguments, and the same random seed, returns the same result"
   * `runs_independent` (result depends on the caller's buffers only: not on the heap, not on the allocator),
     `second_call_same_result`, `every_call_same_result` (any number of consecutive calls),
     `second_call_after_editing_results` (the caller may overwrite what a call returned).
   * outside: these are statements about the model (kernels are functions of their inputs there). Randomness
     (np.random under a seed), module-level state, caches and work buffers of the real code are observed only:
     two-call / third-call oracle and the history streams against a pristine interpreter.
4. quantifier "every public function … x contiguous / strided, float / integer, array / pandas x two calls"
   * theorems quantify over all kinds (`kinds : Nat → Kind` arbitrary) and all programs; the list of public entry
     points is an inventory read from the current source on every run (harness), not a Lean object.

Weaker than the clause, stated plainly: nothing here proves a fact about Python text; `Safe` theorems are decided
on hand-written terms whose faithfulness is a measured correspondence, and `Kind` abstracts an argument to
(viewable, dtype, C-contiguous).
-/
import HydroVerif.Lemmas.C18
namespace HydroVerif.C18

/-! ### generic theorems -/

/-- **Soundness of the ownership check.**  For every program, every set of caller buffers the wrapper is
entitled to write, every dtype / layout / container of every argument and every allocator state: a
caller buffer written during the run (by a kernel or in place) is one of the allowed ones. -/
theorem soundness_except (allowed : List Nat) (p : Program) (h : SafeExcept allowed p)
    (kinds : Nat → Kind) (n0 : Nat) (i : Nat)
    (hw : Buf.caller i ∈ (runFrom (init kinds n0) p).written) : i ∈ allowed :=
  (sound_aux allowed p absInit (init kinds n0) h (absOK_init kinds n0)
    (by intro i hi; simp [init] at hi) (by intro e he; simp [init] at he)).1 i hw

/-- **Soundness, pure computations.**  If every kernel-written or in-place-written local of the body was
produced by `copy`/`alloc` inside the call (`Safe`), no caller buffer is in the written set — whatever
the arguments are. -/
theorem soundness (p : Program) (h : Safe p) (kinds : Nat → Kind) (i : Nat) :
    Buf.caller i ∉ (run p kinds).written := by
  intro hw
  have := soundness_except [] p h kinds 0 i hw
  simp at this

/-- the same seen at the Cython boundary (what the recorder shim observes): in a `Safe` wrapper, an
argument of a kernel call that the C code writes never aliases a caller buffer -/
theorem written_args_private (p : Program) (h : Safe p) (kinds : Nat → Kind) :
    ∀ e ∈ (run p kinds).events, ∀ arg ∈ e.args, arg.2 = true → arg.1 = none := by
  intro e he arg harg hw
  have hev := (sound_aux [] p absInit (init kinds 0) h (absOK_init kinds 0)
    (by intro i hi; simp [init] at hi) (by intro e he; simp [init] at he)).2
  cases h1 : arg.1 with
  | none => rfl
  | some i => have := hev e he arg harg hw i h1; simp at this

/-- **Arguments untouched (contents).**  Whatever the kernels compute (any `sem`), as long as they store
only through the pointers of their write-set, a `SafeExcept allowed` wrapper leaves the contents of every
caller buffer outside `allowed` exactly as they were. -/
theorem caller_contents_unchanged {α : Type} (sem : Sem α) (allowed : List Nat) (p : Program)
    (h : SafeExcept allowed p) (kinds : Nat → Kind) (m0 : Mem α) (n0 : Nat) (i : Nat) (hi : i ∉ allowed) :
    (mrun sem p kinds m0 n0).mem (.caller i) = m0 (.caller i) := by
  rcases mrun_frame sem p ⟨init kinds n0, m0⟩ (.caller i) with h1 | ⟨n, hn, _⟩ | h1
  · exact h1
  · cases hn
  · exact absurd (soundness_except allowed p h kinds n0 i h1) hi

/-- **Two runs are independent of the heap.**  Two runs of the same wrapper on the same kinds of
arguments, from memories that agree on the caller buffers (and hold anything elsewhere) and from any two
allocator states, perform the same kernel calls with the same aliasing, leave the same contents in the
buffer of every local (in particular in the returned one) and the same contents in the caller buffers.
No `Safe` hypothesis: this is determinism of the model. -/
theorem runs_independent {α : Type} (sem : Sem α) (p : Program) (kinds : Nat → Kind) (m m' : Mem α)
    (n0 δ : Nat) (hm : ∀ i, m' (.caller i) = m (.caller i)) :
    let r := mrun sem p kinds m n0
    let r' := mrun sem p kinds m' (n0 + δ)
    r'.st.events = r.st.events ∧ (∀ x, r'.mem (r'.st.env x).buf = r.mem (r.st.env x).buf) ∧
      ∀ i, r'.mem (.caller i) = r.mem (.caller i) := by
  intro r r'
  have hrel : Rel δ n0 r r' := rel_run sem p (rel_init kinds m m' n0 δ hm)
  refine ⟨hrel.events, ?_, ?_⟩
  · intro x; rw [hrel.envBuf x]; exact hrel.mem _ (hrel.valid x)
  · intro i; exact hrel.mem (.caller i) trivial

/-- **Repeatable.**  After a `Safe` call, a second call with the same arguments — started from the
memory and the allocator state the first one left behind — performs the same kernel calls and leaves the
same contents in every local, and the caller's buffers still hold their original contents. -/
theorem second_call_same_result {α : Type} (sem : Sem α) (p : Program) (h : Safe p) (kinds : Nat → Kind)
    (m0 : Mem α) :
    let r1 := mrun sem p kinds m0 0
    let r2 := mrun sem p kinds r1.mem (0 + r1.st.next)
    r2.st.events = r1.st.events ∧ (∀ x, r2.mem (r2.st.env x).buf = r1.mem (r1.st.env x).buf) ∧
      ∀ i, r2.mem (.caller i) = m0 (.caller i) := by
  intro r1 r2
  have hkeep : ∀ i, r1.mem (.caller i) = m0 (.caller i) := fun i =>
    caller_contents_unchanged sem [] p h kinds m0 0 i (by simp)
  have hind := runs_independent sem p kinds m0 r1.mem 0 r1.st.next hkeep
  refine ⟨hind.1, hind.2.1, ?_⟩
  intro i
  rw [hind.2.2 i]; exact hkeep i

/-- **Editing a returned object does not change a later answer.**  After a `Safe` call, let the caller do
anything to the private buffers the call produced (the returned array included): as long as the caller's own
buffers hold what they held, the next call gives the same kernel calls and the same contents in every local. -/
theorem second_call_after_editing_results {α : Type} (sem : Sem α) (p : Program) (h : Safe p)
    (kinds : Nat → Kind) (m0 medit : Mem α) (n : Nat)
    (hkeep : ∀ i, medit (.caller i) = (mrun sem p kinds m0 0).mem (.caller i)) :
    let r1 := mrun sem p kinds m0 0
    let r2 := mrun sem p kinds medit (0 + n)
    r2.st.events = r1.st.events ∧ (∀ x, r2.mem (r2.st.env x).buf = r1.mem (r1.st.env x).buf) ∧
      ∀ i, r2.mem (.caller i) = m0 (.caller i) := by
  intro r1 r2
  have hk1 : ∀ i, r1.mem (.caller i) = m0 (.caller i) := fun i =>
    caller_contents_unchanged sem [] p h kinds m0 0 i (by simp)
  have hind := runs_independent sem p kinds m0 medit 0 n (fun i => by rw [hkeep i]; exact hk1 i)
  refine ⟨hind.1, hind.2.1, ?_⟩
  intro i
  rw [hind.2.2 i]; exact hk1 i

/-- **Repeatable, any number of times.**  Every one of `k+1` consecutive calls of a `Safe` wrapper with the same
arguments — each started from the memory and allocator state left by the previous one — performs the same kernel
calls, leaves the same contents in every local as the first call did, and the caller's buffers keep their
original contents throughout. -/
theorem every_call_same_result {α : Type} (sem : Sem α) (p : Program) (h : Safe p) (kinds : Nat → Kind)
    (m0 : Mem α) (k : Nat) :
    let r1 := nthCall sem p kinds m0 0
    let rk := nthCall sem p kinds m0 k
    rk.st.events = r1.st.events ∧ (∀ x, rk.mem (rk.st.env x).buf = r1.mem (r1.st.env x).buf) ∧
      ∀ i, rk.mem (.caller i) = m0 (.caller i) := by
  induction k with
  | zero =>
    refine ⟨rfl, fun _ => rfl, ?_⟩
    intro i
    exact caller_contents_unchanged sem [] p h kinds m0 0 i (by simp)
  | succ k ih =>
    intro r1 rk
    have hprev : ∀ i, (nthCall sem p kinds m0 k).mem (.caller i) = m0 (.caller i) := ih.2.2
    have hind := runs_independent sem p kinds m0 (nthCall sem p kinds m0 k).mem 0
      (nthCall sem p kinds m0 k).st.next hprev
    have hk1 : ∀ i, r1.mem (.caller i) = m0 (.caller i) := fun i =>
      caller_contents_unchanged sem [] p h kinds m0 0 i (by simp)
    refine ⟨hind.1, hind.2.1, ?_⟩
    intro i
    have := hind.2.2 i
    show (nthCall sem p kinds m0 (k + 1)).mem (.caller i) = m0 (.caller i)
    rw [show nthCall sem p kinds m0 (k + 1) = mrun sem p kinds (nthCall sem p kinds m0 k).mem
          (0 + (nthCall sem p kinds m0 k).st.next) from rfl, this]
    exact hk1 i

/-- the marking semantics the driver runs (`mark` request) agrees with the written set: under `Safe`, no caller
buffer is marked, for any kinds -/
theorem safe_marks_nothing (p : Program) (h : Safe p) (kinds : Nat → Kind) (n : Nat) :
    markedCallers p kinds n = [] := by
  unfold markedCallers
  simp only [List.filter_eq_nil_iff, List.mem_range]
  intro i _
  have := caller_contents_unchanged markSem [] p h kinds (fun _ => 0) 0 i (by simp)
  simp [this]

/-! ### the wrappers of hydrodiy (one obligation per kernel call site; decided: the check is syntactic) -/

theorem aggregate_safe : Safe aggregate := by decide
theorem flathomogen_safe : Safe flathomogen := by decide
theorem var2h_safe : Safe var2h := by decide
theorem islinear_safe : Safe islinear := by decide
theorem eckhardt_safe : Safe eckhardt := by decide
theorem crps_safe : Safe crps := by decide
theorem andersonDarling_safe : Safe andersonDarling := by decide
theorem dscore_safe : Safe dscore := by decide
theorem armodelSim_safe : Safe armodelSim := by decide
theorem armodelResidual_safe : Safe armodelResidual := by decide
theorem paretoFront_safe : Safe paretoFront := by decide
theorem coord2cell_safe : Safe coord2cell := by decide
theorem cell2coord_safe : Safe cell2coord := by decide
theorem cell2rowcol_safe : Safe cell2rowcol := by decide
theorem neighbours_safe : Safe neighbours := by decide
theorem gridSlice_safe : Safe gridSlice := by decide
theorem upstream_safe : Safe upstream := by decide
theorem downstream_safe : Safe downstream := by decide
theorem delineateArea_safe : Safe delineateArea := by decide
theorem delineateAreaNoInlets_safe : Safe delineateAreaNoInlets := by decide
theorem flowpathlengths_safe : Safe flowpathlengths := by decide
theorem intersect_safe : Safe intersect := by decide
theorem delineateRiver_safe : Safe delineateRiver := by decide
theorem accumulate_safe : Safe accumulate := by decide
theorem accumulateDefault_safe : Safe accumulateDefault := by decide
theorem voronoi_safe : Safe voronoi := by decide
theorem slope_safe : Safe slope := by decide
theorem pointsInsidePolygon_safe : Safe pointsInsidePolygon := by decide
theorem kdeFixed_safe : Safe kdeFixed := by decide

/-! wrappers that write a caller buffer by design: the check fails, the exact exception set is proved,
and the write is exhibited for EVERY kind of argument (the buffer goes to the kernel as it is) -/

/-- `Catchment.delineate_boundary`: the kernel qsorts `self._idxcells_area_filled` (caller 1, receiver
state — not an argument) and nothing else that exists before the call -/
theorem delineateBoundary_safe_except_receiver : SafeExcept [1] delineateBoundary := by decide
theorem delineateBoundaryNoMask_safe_except_receiver : SafeExcept [1] delineateBoundaryNoMask := by decide
theorem delineateBoundary_not_safe : ¬ Safe delineateBoundary := by decide
theorem delineateBoundary_writes_receiver (kinds : Nat → Kind) :
    Buf.caller 1 ∈ (run delineateBoundary kinds).written := by
  have h : delineateBoundary = delineateBoundary.take 5 ++ delineateBoundary.drop 5 :=
    (List.take_append_drop 5 _).symm
  rw [run, h]
  apply written_of_prefix
  simp [runFrom, delineateBoundary, step, init, upd]

/-- `gutils.points_inside_polygon(inside=...)`: the caller-supplied OUTPUT array (caller 2) is the only
caller buffer written; `points` and `polygon` are not -/
theorem pointsInsidePolygonOut_safe_except_output : SafeExcept [2] pointsInsidePolygonOut := by decide
theorem pointsInsidePolygonOut_not_safe : ¬ Safe pointsInsidePolygonOut := by decide
theorem pointsInsidePolygonOut_writes_output (kinds : Nat → Kind) :
    Buf.caller 2 ∈ (run pointsInsidePolygonOut kinds).written := by
  simp [run, runFrom, pointsInsidePolygonOut, step, init, upd]

/-! the check is not vacuous: two realistic edits are rejected, with the failing argument kind -/

/-- `np.asarray(x, dtype=np.float64)` instead of `.astype(np.float64)` before `ad_test`: rejected … -/
theorem andersonDarlingAsarray_not_safe : ¬ Safe andersonDarlingAsarray := by decide
/-- … and for a float64 ndarray (any layout) the kernel then sorts the caller's own array -/
theorem andersonDarlingAsarray_sorts_caller (kinds : Nat → Kind) (hv : (kinds 0).view = true)
    (hd : (kinds 0).dt = .f64) : Buf.caller 0 ∈ (run andersonDarlingAsarray kinds).written := by
  simp [run, runFrom, andersonDarlingAsarray, step, init, upd, Cond.sat, anyLayout, hv, hd]
/-- whereas any other dtype is converted, hence copied -/
theorem andersonDarlingAsarray_other_dtype (kinds : Nat → Kind) (hd : (kinds 0).dt ≠ .f64) :
    Buf.caller 0 ∉ (run andersonDarlingAsarray kinds).written := by
  rcases hk : kinds 0 with ⟨v, d, c⟩
  rw [hk] at hd
  cases v <;> cases d <;>
    simp_all [run, runFrom, andersonDarlingAsarray, step, init, upd, Cond.sat, anyLayout, freshKind]

/-- the grid functions convert the caller's grid in place (`flowdir.dtype = np.int64`): the buffer the kernel
receives IS the caller's grid data, so `accumulate_safe` rests on the kernel reading it only; a kernel that
stores into it is rejected, and the caller's flow-direction grid is written whatever its dtype -/
theorem accumulateWritesFlowdir_not_safe : ¬ Safe accumulateWritesFlowdir := by decide
theorem accumulateWritesFlowdir_writes_caller_grid (kinds : Nat → Kind) :
    Buf.caller 0 ∈ (run accumulateWritesFlowdir kinds).written := by
  simp [run, runFrom, accumulateWritesFlowdir, step, init, upd]

/-- `putils.kde` as pinned (jitter added to the `np.asarray` image of the argument): rejected, and the
caller's array is written whenever `np.asarray` is a view -/
theorem kdePinned_not_safe : ¬ Safe kdePinned := by decide
theorem kdePinned_writes_caller (kinds : Nat → Kind) (hv : (kinds 0).view = true) :
    Buf.caller 0 ∈ (run kdePinned kinds).written := by
  simp [run, runFrom, kdePinned, step, init, upd, Cond.sat, anyLayout, hv]

/-! non-vacuity of the generic statements on a concrete wrapper and concrete kinds -/

/-- contents instance: values are naturals, `ad_test` overwrites both arguments; the caller's buffer keeps
its contents (7) although the kernel writes its first argument -/
example :
    let sem : Sem Nat := ⟨fun _ v => v, fun _ => 0, fun v => v + 1, fun _ vs => vs.map (· + 100)⟩
    (mrun sem andersonDarling (fun _ => ⟨true, .f64, true⟩) (fun _ => 7)).mem (.caller 0) = 7 ∧
    (mrun sem andersonDarlingAsarray (fun _ => ⟨true, .f64, true⟩) (fun _ => 7)).mem (.caller 0) = 107 := by
  decide

/-- four consecutive calls: the caller's buffer keeps its contents under the real wrapper, and is stored to on
every call (7 → 11) under the `np.asarray` edit -/
example :
    (nthCall markSem andersonDarling (fun _ => ⟨true, .f64, true⟩) (fun _ => 7) 3).mem (.caller 0) = 7 ∧
    (nthCall markSem andersonDarlingAsarray (fun _ => ⟨true, .f64, true⟩) (fun _ => 7) 3).mem (.caller 0) = 11 := by
  decide
example : markedCallers andersonDarlingAsarray (fun _ => ⟨true, .f64, true⟩) 10 = [0] ∧
    markedCallers delineateBoundary (fun _ => ⟨true, .i64, true⟩) 10 = [1] := by decide

/-- the read-only pass-through is visible in the events: a C-contiguous float64 `xycoords` reaches
`c_coord2cell` itself, a float32 one is converted -/
example : (run coord2cell (fun _ => ⟨true, .f64, true⟩)).events = [⟨"coord2cell", [(some 0, false), (none, true)]⟩] := by
  decide
example : (run coord2cell (fun _ => ⟨true, .f32, true⟩)).events = [⟨"coord2cell", [(none, false), (none, true)]⟩] := by
  decide

end HydroVerif.C18
