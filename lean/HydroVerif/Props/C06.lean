import HydroVerif.Model.C06
namespace HydroVerif.C06
/-- placeholder while the harness is brought up -/
theorem codes_length : HydroVerif.Generated.FlowDir.codes.length = 9 := by decide
end HydroVerif.C06
