/-
C06 — property theorems (only). Model: `HydroVerif/Model/C06.lean` (+ the integer grid core of
`Model/C07.lean`); the direction-code table is `HydroVerif.Generated.FlowDir.codes`, regenerated from
`FLOWDIRCODE` in grid.py on every run: every theorem below is about that table and goes through
`tableOK` / `codes_esri` (`Lemmas/C06Table.lean`, closed by `decide` on the table as it is now).
Helper lemmas: `Lemmas/C06.lean`, `Lemmas/C06Bfs.lean`, `Lemmas/C06Ext.lean` (round 7: flow-path walk in every case, buffer
size, reachability set, interleaved histories), `Lemmas/C06Round.lean` (what survives rounding), `Lemmas/C06Real.lean`,
`Lemmas/C07Grid.lean`. The right-hand sides of the theorems (`Reaches`, `chainCell`, `chainSteps`, `chainCells`, `GoesOn`,
`reachArea`, `countBy`, the ESRI layout) are executable definitions of the model, run by the driver (`chain`, `reach`,
`count`, `esri` requests) and compared with the real code like every other model function.

All theorems hold for every grid size (`0 < ncols`; a valid cell forces `0 < nrows`), every content of the
flow-direction grid (any integer in any cell: the eight codes, 0, invalid codes), every outlet, every list of
inlets (repeated entries, the outlet itself allowed), every buffer size, every start cell, every history of
calls on one object. Every model function named below is executed by `Drivers/C06.lean` and compared with the
real code on every run.

CLAUSE -> THEOREMS -> WHAT REMAINS OUTSIDE
* the direction-code table shared by both relations is the ESRI one (grid.py FLOWDIRCODE, regenerated every run)
    -> flowdir_table_is_esri, downstream_cases_complete
    outside: nothing (decide on the generated table; the translator harness/gen_flowdir.py is trusted)
* on every grid, upstream and downstream are inverse relations: u is reported upstream of d exactly when d is reported as the downstream cell of u
    -> mem_upstream_iff, upstream_valid_nodup, upstreamRow_length, upstream_downstream_guard
    outside: nothing; hypothesis ncols > 0 (quantifier: r, c >= 1). Row order of idxup is not part of the property (compared as a multiset)
* sinks and off-grid exits (and invalid codes) are flagged by the documented negative codes -2 / -1
    -> downstream_sink, downstream_esri, downstream_invalid_code, downstream_range, downstream_cases_complete
    outside: nothing
* the delineated area is exactly the outlet plus every cell whose downstream chain reaches the outlet without passing through an inlet; empty when nothing drains to the outlet; each cell listed once
    -> delineate_ok_iff, delineate_perm_reachArea, reaches_unfold, delineate_cells_valid, wrapper_area_eq, wrapper_buffer_layout
    outside: listing order of idxcells_area (not fixed by the property; not compared)
* ...for every outlet x every set of inlets, and the call does return the area (total correctness, buffer size)
    -> delineate_ok_iff_no_cycle, delineate_default_total, delineate_ok_of_room, delineate_ok_iff_room, delineate_fits_buffer, delineate_outcomes
    outside: nothing; the buffer must hold exactly len(area)+1 entries (delineate_ok_iff_room; one more than the docstring says — not a clause of the property); the default call (inlets None, nval 10^6) is total on grids of fewer than 10^6 - 1 cells
* grids containing flow cycles end in an error or a bounded result, never a hang
    -> delineate_cycle_error, delineate_outcomes, walks_bounded, cycleThroughOutlet_iff, chainCyclic_iff, flowPathCapped_iff, delineate_length_le
    outside: termination of the compiled code itself is observed (worker subprocess with time limits). WHICH of the two outcomes (error / bounded result) and its values are left open by the property: where the model's own predicates say so — cycleThroughOutlet (proved = a cycle through the outlet, cycleThroughOutlet_iff), chainCyclic (the river chain has not ended after ncells+1 cells; proved = it never ends, chainCyclic_iff), flowPathCapped (the walk used all its iterations; proved = no iteration stops, flowPathCapped_iff) — the correspondence and the oracle only require an error or a result within the bound; everything else is compared exactly
* the hole-filled area contains the area
    -> filled_contains_area, filled_wellformed, filled_empty
    outside: scipy.ndimage.binary_fill_holes is a parameter of the model with the hypothesis 'keeps the mask' (external; filled_wellformed — each cell once, on the grid — needs no hypothesis on it); which extra cells it adds is only compared (scipy's answer fed back through the model's cell numbering)
* river traces follow the same downstream chain, advancing 1 per orthogonal and sqrt(2) per diagonal step
    -> river_trace, river_cells_are_chain, river_displacements, chain_step_euclidean, length_eq_orth_plus_sqrt2_diag, length_real, real_sqrt_hyps, river_guard, walks_bounded, river_dist_monotone, length_rounded, length_orthogonal_exact, float_like_models
    outside: x, y columns are C07's cell centres (compared bit for bit, proved in C07); the exact VALUE of the rounded running sum (Float instance executed and compared within max(4, #steps) ulp) — its order / sign / bounds and the exact lengths of chains without diagonal steps are theorems over any rounded arithmetic (FloatLike: monotone addition, x + 0 = x, sqrt 1 = 1, 1 <= sqrt 2 <= 2)
* flow-path lengths follow the same downstream chain with the same step lengths
    -> flowpath_length, flowpath_on_area, flowpath_exit, flowpath_cases, flowpath_capped, flowpath_last_step_dropped, flowpath_invalid_start, chain_step_euclidean, length_eq_orth_plus_sqrt2_diag, length_real, length_rounded, length_orthogonal_exact, pinned_step_misclassified, pinned_wrong_only_on_two_columns
    outside: nothing about the kernel's rows is left uncharacterised (flowpath_cases: exit / outlet with room / outlet at the last iteration, last step dropped / cut after nval steps); for the last two cases the property itself asks a bounded result only, so the correspondence and the oracle compare 'bounded' there; the exact value of the rounded sum (as for rivers)
* histories: every answer of one Catchment object is about its current grid and the arguments of the call (re-delineation with another outlet / inlets incl. equal-size areas, flowdir edited in place or re-assigned, a failed delineation in between)
    -> history_delineate, history_flowpaths, history_no_stale_area, history_queries_pure, history_query_answer, history_area_wellformed, history_accessors, wrapper_area_eq
    outside: the state machine (Model: CatchState / histStep / callRun, read-only calls upstream / downstream / delineate_river / idxcells_area / isin interleaved) is tied to the real object by the history stream of the correspondence; clone / pickle / edits of the grid handed to the constructor are compared with the model but never flagged (the property does not say which grid a clone holds — C13)
-/
import HydroVerif.Lemmas.C06
import HydroVerif.Lemmas.C06Real
import HydroVerif.Lemmas.C06Ext
import HydroVerif.Lemmas.C06Round

set_option linter.unusedSectionVars false

namespace HydroVerif.C06
open HydroVerif.C07 HydroVerif.Generated.FlowDir

variable {g : FlowGrid}

/-! ### 0. the direction-code table read from grid.py is the ESRI table -/

/-- **the generated table** (`FLOWDIRCODE.ravel()` as it is in grid.py now): nine codes, no code twice, the
sink code 0 in the centre, direction `m` clockwise from east coded `2^m` at the neighbour position of its
offset, and position `8 - k` holding the opposite direction — what `c_downstream` (lookup) and `c_upstream`
(mirrored lookup) rely on. Closed by `decide` on the table: a swapped, duplicated or missing entry in
grid.py fails here (and in every theorem below, which all go through these facts). -/
theorem flowdir_table_is_esri :
    codes.length = 9 ∧ codes.Nodup ∧ codes[4]? = some 0 ∧
    (∀ m, m < 8 → codes[esriPos m]? = some ((2 : Int) ^ m)) ∧
    (∀ m, m < 8 → codes[8 - esriPos m]? = some ((2 : Int) ^ ((m + 4) % 8))) ∧
    (∀ m, m < 8 → nbDx (esriPos m) = esriDx m ∧ nbDy (esriPos m) = esriDy m) :=
  ⟨codes_length, codes_nodup, codes_centre, codes_esri, codes_mirror,
    fun m hm => ⟨esri_nbDx m hm, esri_nbDy m hm⟩⟩

/-! ### 1. upstream and downstream are inverse relations; sinks and exits are flagged -/

/-- **inverse relations**: whenever `upstream d` answers (`d` a cell of the grid), any `u` is listed upstream of
`d` exactly when `d` is reported as the downstream cell of `u` -/
theorem mem_upstream_iff (hc : 0 < g.ncols) {u d : Int} {us : List Int}
    (hup : upstream codes g d = .ok us) :
    u ∈ us ↔ downstream codes g u = .ok d := by
  unfold upstream at hup
  by_cases hd : validCell g.nrows g.ncols d = true
  · rw [if_pos hd] at hup
    cases hup
    unfold downstream
    by_cases hu : validCell g.nrows g.ncols u = true
    · rw [if_pos hu, mem_upstreamCells_iff tableOK hc hd u]
      constructor
      · rintro ⟨_, h⟩; rw [h]
      · intro h; exact ⟨hu, by cases h; rfl⟩
    · -- a number that is not a cell is never listed, and has no downstream cell (the call is an error)
      rw [if_neg hu]
      constructor
      · intro h; exact absurd (upstreamCells_valid h) hu
      · intro h; cases h
  · rw [if_neg hd] at hup; cases hup

/-- every cell listed upstream is a valid cell, and is listed once -/
theorem upstream_valid_nodup {d : Int} {us : List Int} (hup : upstream codes g d = .ok us) :
    us.Nodup ∧ ∀ u ∈ us, validCell g.nrows g.ncols u = true := by
  unfold upstream at hup
  split at hup
  · cases hup
    exact ⟨upstreamCells_nodup d, fun u hu => upstreamCells_valid hu⟩
  · cases hup

/-- the row written to `idxup` has 9 entries: the cells found, then `-1` -/
theorem upstreamRow_length {d : Int} {us : List Int} (hup : upstream codes g d = .ok us) :
    (upstreamRow us).length = 9 ∧ ∀ x ∈ upstreamRow us, x ∈ us ∨ x = -1 := by
  have hle : us.length ≤ 9 := by
    unfold upstream at hup
    split at hup
    · cases hup
      unfold upstreamCells
      exact (List.length_filterMap_le _ _).trans (by simp)
    · cases hup
  constructor
  · unfold upstreamRow; rw [List.length_append, List.length_replicate]; omega
  · intro x hx
    unfold upstreamRow at hx
    rcases List.mem_append.1 hx with h | h
    · exact Or.inl h
    · exact Or.inr (List.eq_of_mem_replicate h)

/-- cells off the grid are rejected by both routines, valid ones never are -/
theorem upstream_downstream_guard (u : Int) :
    (validCell g.nrows g.ncols u = false →
      upstream codes g u = .error .badCell ∧ downstream codes g u = .error .badCell) ∧
    (validCell g.nrows g.ncols u = true →
      upstream codes g u = .ok (upstreamCells codes g u) ∧
      downstream codes g u = .ok (downstreamCell codes g u)) := by
  unfold upstream downstream
  constructor <;> intro h <;> simp [h]

/-- **sinks** (`fd = 0`) are flagged `-2` -/
theorem downstream_sink {u : Int} (hu : validCell g.nrows g.ncols u = true) (hf : g.fd u = 0) :
    downstream codes g u = .ok (-2) := by
  unfold downstream; rw [if_pos hu, downstreamCell_sink hf]

/-- **ESRI directions, off-grid exits**: a cell holding the code `2^m` of direction `m` (0 = east, counted
clockwise) drains to the cell one step in that direction, or is flagged `-1` when that step leaves the grid -/
theorem downstream_esri {u : Int} {m : Nat} (hm : m < 8)
    (hu : validCell g.nrows g.ncols u = true) (hf : g.fd u = 2 ^ m) :
    downstream codes g u = .ok
      (if 0 ≤ rowOf g.ncols u + esriDy m ∧ rowOf g.ncols u + esriDy m < g.nrows ∧
          0 ≤ colOf g.ncols u + esriDx m ∧ colOf g.ncols u + esriDx m < g.ncols
       then (rowOf g.ncols u + esriDy m) * g.ncols + (colOf g.ncols u + esriDx m) else -1) := by
  have hne : g.fd u ≠ 0 := by rw [hf]; positivity
  have hpos : esriPos m < 9 := esriPos_lt m hm
  have hcode : codes[esriPos m]? = some (g.fd u) := by rw [hf]; exact codes_esri m hm
  unfold downstream
  rw [if_pos hu, downstreamCell_of_code tableOK hpos hne hcode, neighbour_eq]
  have hdx := esri_nbDx m hm
  have hdy := esri_nbDy m hm
  have hcen := esri_not_centre m hm
  rw [hdx, hdy, if_neg hcen]
  unfold cellOf
  congr 1
  by_cases h : 0 ≤ rowOf g.ncols u + esriDy m ∧ rowOf g.ncols u + esriDy m < g.nrows ∧
      0 ≤ colOf g.ncols u + esriDx m ∧ colOf g.ncols u + esriDx m < g.ncols
  · rw [if_pos h, if_pos ⟨h.2.2.1, h.2.2.2, h.1, h.2.1⟩]
  · rw [if_neg h, if_neg (fun h' => h ⟨h'.2.2.1, h'.2.2.2, h'.1, h'.2.1⟩)]

/-- **invalid codes**: a cell whose code is not in the table is flagged `-1` -/
theorem downstream_invalid_code {u : Int} (hu : validCell g.nrows g.ncols u = true)
    (hf : g.fd u ∉ codes) : downstream codes g u = .ok (-1) := by
  have hne : g.fd u ≠ 0 := by
    intro h; apply hf; rw [h]; decide
  unfold downstream
  rw [if_pos hu, downstreamCell_of_no_code hne]
  intro j _ hcj
  exact hf (List.mem_of_getElem? hcj)

/-- **the three cases are all there is**: whatever integer a cell holds, it is the sink code, one of the
eight ESRI codes, or not in the table — so `downstream_sink`, `downstream_esri`, `downstream_invalid_code`
together give the downstream cell of every valid cell of every grid -/
theorem downstream_cases_complete (u : Int) :
    g.fd u = 0 ∨ (∃ m, m < 8 ∧ g.fd u = (2 : Int) ^ m) ∨ g.fd u ∉ codes := by
  by_cases h : g.fd u ∈ codes
  · rcases codes_are_esri_or_zero _ h with h0 | hm
    · exact Or.inl h0
    · exact Or.inr (Or.inl hm)
  · exact Or.inr (Or.inr h)

/-- the reply is always `-2`, `-1` or a valid cell; `-2` only for a sink -/
theorem downstream_range {u d : Int} (h : downstream codes g u = .ok d) :
    (d = -2 ∧ g.fd u = 0) ∨ (d = -1 ∧ g.fd u ≠ 0) ∨ (validCell g.nrows g.ncols d = true ∧ g.fd u ≠ 0) := by
  unfold downstream at h
  split at h
  · cases h
    rcases downstreamCell_cases (g := g) tableOK u with ⟨h0, h1⟩ | ⟨h0, _, h1⟩ | ⟨h0, j, _, _, h1⟩
    · exact Or.inl ⟨h1, h0⟩
    · exact Or.inr (Or.inl ⟨h1, h0⟩)
    · by_cases hd : neighbour g.nrows g.ncols u j = -1
      · exact Or.inr (Or.inl ⟨h1.trans hd, h0⟩)
      · exact Or.inr (Or.inr ⟨h1 ▸ neighbour_valid rfl hd, h0⟩)
  · cases h


/-! ### 2. the delineated area is upstream reachability; cycles end in an error

`Reaches codes g inlets k c o` (`Lemmas/C06.lean`): `c` reaches `o` in exactly `k` downstream steps, none
of the `k` cells it leaves being an inlet — unfolded by `reaches_zero_iff` / `reaches_succ_iff` below. -/

/-- what `Reaches` means, step by step -/
theorem reaches_unfold {inlets : List Int} {k : Nat} {c o : Int} :
    (Reaches codes g inlets 0 c o ↔ c = o) ∧
    (Reaches codes g inlets (k + 1) c o ↔
      validCell g.nrows g.ncols c = true ∧ c ∉ inlets ∧ 0 ≤ downstreamCell codes g c ∧
        Reaches codes g inlets k (downstreamCell codes g c) o) :=
  ⟨reaches_zero_iff, reaches_succ_iff⟩

/-- **area = reachability, each cell once**: when `c_delineate_area` returns, its cells are exactly the
outlet (provided something drains into it) plus every cell whose downstream chain reaches the outlet in
`k ≥ 1` steps without passing through an inlet; no cell is listed twice; and the area is empty when no
non-inlet cell drains into the outlet. -/
theorem delineate_ok_iff (hc : 0 < g.ncols) {o nval : Int} {inlets A : List Int}
    (h : delineateArea codes g o inlets nval = .ok A) :
    A.Nodup ∧
    (∀ c, c ∈ A ↔ (c = o ∧ ∃ u, Reaches codes g inlets 1 u o) ∨ ∃ k, 1 ≤ k ∧ Reaches codes g inlets k c o) ∧
    ((∀ u, ¬ Reaches codes g inlets 1 u o) → A = []) := by
  have inv := upStep_downStep_inv (g := g) tableOK hc inlets
  have hmem := Bfs.mem_layer_iff (upStep codes g inlets) (downStep codes g inlets) inv o
  rcases delineateArea_cases (codes := codes) (g := g) o inlets nval with
    ⟨_, e⟩ | ⟨_, _, e⟩ | ⟨_, _, _, e⟩ | ⟨_, _, _, ⟨A', n, e, hstop, hne, hperm⟩ | ⟨e', e, _⟩⟩
  · rw [e] at h; cases h
  · rw [e] at h; cases h
  · rw [e] at h; cases h
  · rw [e] at h
    cases h
    have hempty : ∀ m, n + 1 ≤ m → Bfs.layer (upStep codes g inlets) o m = [] :=
      fun m hm => Bfs.layer_empty_of_le _ o hstop hm
    have hfirst : (∃ u, Reaches codes g inlets 1 u o) ↔ 1 ≤ n := by
      constructor
      · rintro ⟨u, hu⟩
        by_contra hn
        have := (hmem 1 u).2 hu
        rw [hempty 1 (by omega)] at this
        simp at this
      · intro hn
        have hl := hne 1 (by omega) hn
        obtain ⟨u, hu⟩ := List.exists_mem_of_ne_nil _ hl
        exact ⟨u, (hmem 1 u).1 hu⟩
    refine ⟨?_, ?_, ?_⟩
    · rw [hperm.nodup_iff]
      by_cases hn : 1 ≤ n
      · rw [if_pos hn]
        exact Bfs.outlet_layers_nodup _ _ inv (fun d => upStep_nodup inlets d) o n hstop
      · have hn0 : n = 0 := by omega
        subst hn0
        simp [Bfs.layersFrom_zero]
    · intro c
      rw [hperm.mem_iff, List.mem_append, Bfs.mem_layersFrom, hfirst]
      constructor
      · rintro (hc1 | ⟨m, hm1, _, hcm⟩)
        · by_cases hn : 1 ≤ n
          · rw [if_pos hn] at hc1
            exact Or.inl ⟨by simpa using hc1, hn⟩
          · rw [if_neg hn] at hc1; simp at hc1
        · exact Or.inr ⟨m, hm1, (hmem m c).1 hcm⟩
      · rintro (⟨rfl, hn⟩ | ⟨k, hk, hr⟩)
        · left; rw [if_pos hn]; simp
        · right
          have hck := (hmem k c).2 hr
          refine ⟨k, hk, ?_, hck⟩
          by_contra hkn
          rw [hempty k (by omega)] at hck
          simp at hck
    · intro hnone
      have hn0 : n = 0 := by
        by_contra hn
        obtain ⟨u, hu⟩ := hfirst.2 (by omega)
        exact hnone u hu
      subst hn0
      exact List.Perm.eq_nil (by simpa [Bfs.layersFrom_zero] using hperm)
  · rw [e] at h; cases h

/-- every cell of the area is a cell of the grid -/
theorem delineate_cells_valid (hc : 0 < g.ncols) {o nval : Int} {inlets A : List Int}
    (h : delineateArea codes g o inlets nval = .ok A) : ∀ c ∈ A, validCell g.nrows g.ncols c = true := by
  intro c hcA
  have hvo : validCell g.nrows g.ncols o = true := by
    rcases delineateArea_cases (codes := codes) (g := g) o inlets nval with
      ⟨_, e⟩ | ⟨_, _, e⟩ | ⟨_, hv, _⟩ | ⟨_, hv, _⟩
    · rw [e] at h; cases h
    · rw [e] at h; cases h
    · exact hv
    · exact hv
  rcases ((delineate_ok_iff hc h).2.1 c).1 hcA with ⟨rfl, _⟩ | ⟨k, hk, hr⟩
  · exact hvo
  · obtain ⟨k', rfl⟩ : ∃ k', k = k' + 1 := ⟨k - 1, by omega⟩
    exact (reaches_succ_iff.1 hr).1

/-- **a flow cycle through the outlet ends in a buffer-exhaustion error** (never in a result, never in
non-termination: the model is total and this is the exit it takes), whatever the buffer size -/
theorem delineate_cycle_error (hc : 0 < g.ncols) {o nval : Int} {inlets : List Int} {p : Nat}
    (hnval : 1 ≤ nval) (ho : validCell g.nrows g.ncols o = true)
    (hin : ∀ m ∈ inlets, validCell g.nrows g.ncols m = true)
    (hp : 1 ≤ p) (hcyc : Reaches codes g inlets p o o) :
    ∃ e, delineateArea codes g o inlets nval = .error e ∧
      (e = .areaFull ∨ e = .bufferFull ∨ e = .outletFull) := by
  have inv := upStep_downStep_inv (g := g) tableOK hc inlets
  rcases delineateArea_cases (codes := codes) (g := g) o inlets nval with
    ⟨h1, _⟩ | ⟨_, h2, _⟩ | ⟨_, _, ⟨m, hm, hmv⟩, _⟩ | ⟨_, _, _, ⟨A', n, _, hstop, _, _⟩ | ⟨e', e, he⟩⟩
  · omega
  · rw [ho] at h2; cases h2
  · rw [hin m hm] at hmv; cases hmv
  · exact absurd hstop (Bfs.layer_ne_nil_of_cycle _ _ inv o (by omega) hcyc (n + 1))
  · exact ⟨e', e, he⟩

/-- **buffer-exhaustion errors are about room only**: if the area is returned for some buffer size, it is
returned (the same cells) for every buffer size with one slot more than the area has cells -/
theorem delineate_ok_of_room {o nval₀ nval : Int} {inlets A : List Int}
    (h : delineateArea codes g o inlets nval₀ = .ok A) (hroom : (A.length : Int) + 1 ≤ nval) :
    ∃ A', delineateArea codes g o inlets nval = .ok A' ∧ A'.Perm A := by
  rcases delineateArea_cases (codes := codes) (g := g) o inlets nval₀ with
    ⟨_, e⟩ | ⟨_, _, e⟩ | ⟨_, _, _, e⟩ | ⟨_, ho, hin, ⟨A₀, n, e, hstop, hne, hperm⟩ | ⟨e', e, _⟩⟩
  · rw [e] at h; cases h
  · rw [e] at h; cases h
  · rw [e] at h; cases h
  · rw [e] at h
    cases h
    have hlen := hperm.length_eq
    rw [List.length_append] at hlen
    have hroom' : (if 1 ≤ n then (1 : Int) else 0) +
        ((Bfs.layersFrom (upStep codes g inlets) o 0 n).length : Int) ≤ nval - 1 := by
      by_cases hn : 1 ≤ n
      · rw [if_pos hn] at hlen ⊢; simp only [List.length_singleton] at hlen; omega
      · rw [if_neg hn] at hlen ⊢; simp only [List.length_nil] at hlen; omega
    obtain ⟨A', hA'⟩ := delineateArea_ok_of_room (codes := codes) (g := g) (nval := nval) n ho hin hstop hroom'
    refine ⟨A', hA', ?_⟩
    rcases delineateArea_cases (codes := codes) (g := g) o inlets nval with
      ⟨_, e⟩ | ⟨_, _, e⟩ | ⟨_, _, _, e⟩ | ⟨_, _, _, ⟨A₁, n', e, hstop', hne', hperm'⟩ | ⟨e', e, _⟩⟩
    · rw [e] at hA'; cases hA'
    · rw [e] at hA'; cases hA'
    · rw [e] at hA'; cases hA'
    · rw [e] at hA'
      cases hA'
      have hnn : n' = n := by
        rcases Nat.lt_trichotomy n' n with hlt | heq | hgt
        · exact absurd hstop' (hne (n' + 1) (by omega) (by omega))
        · exact heq
        · exact absurd hstop (hne' (n + 1) (by omega) (by omega))
      subst hnn
      exact hperm'.trans hperm.symm
    · rw [e] at hA'; cases hA'
  · rw [e] at h; cases h

/-- **total correctness**: with a valid outlet and valid inlets, the area is returned for some buffer size
exactly when no flow cycle passes through the outlet (in the graph with the inlets removed); and then it
is returned for every buffer size with one slot more than it has cells (`delineate_ok_of_room`) -/
theorem delineate_ok_iff_no_cycle (hc : 0 < g.ncols) {o : Int} {inlets : List Int}
    (ho : validCell g.nrows g.ncols o = true)
    (hin : ∀ m ∈ inlets, validCell g.nrows g.ncols m = true) :
    (∃ nval A, delineateArea codes g o inlets nval = .ok A) ↔
      ¬ ∃ p, 1 ≤ p ∧ Reaches codes g inlets p o o := by
  constructor
  · rintro ⟨nval, A, h⟩ ⟨p, hp, hcyc⟩
    have h1 : 1 ≤ nval := by
      rcases delineateArea_cases (codes := codes) (g := g) o inlets nval with
        ⟨_, e⟩ | ⟨h1, _⟩ | ⟨h1, _⟩ | ⟨h1, _⟩
      · rw [e] at h; cases h
      all_goals exact h1
    obtain ⟨e, he, _⟩ := delineate_cycle_error hc h1 ho hin hp hcyc
    rw [he] at h; cases h
  · intro hno
    obtain ⟨n, hstop⟩ := exists_stop_of_no_cycle (g := g) tableOK hc hno
    obtain ⟨A, hA⟩ := delineateArea_ok_of_room (codes := codes) (g := g)
      (nval := (if 1 ≤ n then (1 : Int) else 0) +
        ((Bfs.layersFrom (upStep codes g inlets) o 0 n).length : Int) + 1) n ho hin hstop (by omega)
    exact ⟨_, A, hA⟩

/-- a delineated area has at most as many cells as the grid -/
theorem delineate_length_le (hc : 0 < g.ncols) {o nval : Int} {inlets A : List Int}
    (h : delineateArea codes g o inlets nval = .ok A) : A.length ≤ (g.nrows * g.ncols).toNat := by
  have hnd := (delineate_ok_iff hc h).1
  have hv := delineate_cells_valid hc h
  have hsub : ∀ x ∈ A, x ∈ (List.range (g.nrows * g.ncols).toNat).map (fun n : Nat => (n : Int)) := by
    intro x hx
    have := validCell_iff.1 (hv x hx)
    rw [List.mem_map]
    exact ⟨x.toNat, List.mem_range.2 (by omega), by omega⟩
  have := length_le_of_nodup_subset hnd hsub
  simpa using this

/-- **where the correspondence compares "error or bounded result" only**: the model's predicate
`cycleThroughOutlet` (the search run with room for every cell of the grid still exhausts its buffers) holds
exactly when a flow cycle passes through the outlet in the graph with the inlets removed -/
theorem cycleThroughOutlet_iff (hc : 0 < g.ncols) {o : Int} {inlets : List Int}
    (ho : validCell g.nrows g.ncols o = true)
    (hin : ∀ m ∈ inlets, validCell g.nrows g.ncols m = true) :
    cycleThroughOutlet codes g o inlets = true ↔ ∃ p, 1 ≤ p ∧ Reaches codes g inlets p o o := by
  have hN : 1 ≤ g.nrows * g.ncols + 2 := by have := validCell_iff.1 ho; omega
  constructor
  · intro hcyc
    by_contra hno
    obtain ⟨nval₀, A, hA⟩ := (delineate_ok_iff_no_cycle hc ho hin).2 hno
    have hlen := delineate_length_le hc hA
    have hpos := (validCell_iff.1 ho)
    obtain ⟨A', hA', _⟩ := delineate_ok_of_room (nval := g.nrows * g.ncols + 2) hA (by omega)
    unfold cycleThroughOutlet at hcyc
    rw [hA'] at hcyc
    simp at hcyc
  · rintro ⟨p, hp, hcyc⟩
    obtain ⟨e, he, hk⟩ := delineate_cycle_error hc hN ho hin hp hcyc
    unfold cycleThroughOutlet
    rw [he]
    rcases hk with rfl | rfl | rfl <;> rfl

/-- **guards and error kinds**: `nval < 1`, an outlet off the grid, an inlet off the grid are rejected in
that order; otherwise the call returns an area or one of the three buffer-exhaustion errors — the
model's own recursion bound is never what stops it -/
theorem delineate_outcomes (o : Int) (inlets : List Int) (nval : Int) :
    (nval < 1 → delineateArea codes g o inlets nval = .error .badNval) ∧
    (1 ≤ nval → validCell g.nrows g.ncols o = false →
      delineateArea codes g o inlets nval = .error .badOutlet) ∧
    (1 ≤ nval → validCell g.nrows g.ncols o = true → (∃ m ∈ inlets, validCell g.nrows g.ncols m = false) →
      delineateArea codes g o inlets nval = .error .badInlet) ∧
    delineateArea codes g o inlets nval ≠ .error .fuel ∧
    delineateArea codes g o inlets nval ≠ .error .badCell := by
  rcases delineateArea_cases (codes := codes) (g := g) o inlets nval with
    ⟨h1, e⟩ | ⟨h1, h2, e⟩ | ⟨h1, h2, ⟨m, hm, hmv⟩, e⟩ | ⟨h1, h2, h3, ⟨A', n, e, _⟩ | ⟨e', e, he⟩⟩
  · exact ⟨fun _ => e, fun h => (by omega), fun h => (by omega), (by rw [e]; simp), (by rw [e]; simp)⟩
  · exact ⟨fun h => (by omega), fun _ _ => e, fun _ h => (by rw [h2] at h; cases h), (by rw [e]; simp),
      (by rw [e]; simp)⟩
  · exact ⟨fun h => (by omega), fun _ h => (by rw [h2] at h; cases h), fun _ _ _ => e, (by rw [e]; simp),
      (by rw [e]; simp)⟩
  · refine ⟨fun h => (by omega), fun _ h => (by rw [h2] at h; cases h), ?_, (by rw [e]; simp), (by rw [e]; simp)⟩
    rintro _ _ ⟨m, hm, hmv⟩; rw [h3 m hm] at hmv; cases hmv
  · refine ⟨fun h => (by omega), fun _ h => (by rw [h2] at h; cases h), ?_, ?_, ?_⟩
    · rintro _ _ ⟨m, hm, hmv⟩; rw [h3 m hm] at hmv; cases hmv
    · rw [e]; rcases he with rfl | rfl | rfl <;> simp
    · rw [e]; rcases he with rfl | rfl | rfl <;> simp

/-- **the Python wrapper returns the kernel's area**: keeping the entries `>= 0` of the work array
(initialised with `-1`) gives back exactly the cells the kernel stored, and a kernel error is passed on -/
theorem wrapper_area_eq (hc : 0 < g.ncols) (o : Int) (inlets : List Int) (nval : Int) :
    wrapperArea codes g o inlets nval = delineateArea codes g o inlets nval := by
  unfold wrapperArea
  cases h : delineateArea codes g o inlets nval with
  | error e => rfl
  | ok A =>
    simp only []
    rw [keepCells_areaBuffer]
    intro c hcA
    exact (validCell_iff.1 (delineate_cells_valid hc h c hcA)).1

/-- **the call with its defaults is total on every grid of fewer than 10^6 - 1 cells**:
`delineate_area(outlet)` / `delineate_area(outlet, inlets)` with the default buffer returns the area exactly when
no flow cycle passes through the outlet — the buffer-exhaustion errors can then only mean a cycle -/
theorem delineate_default_total (hc : 0 < g.ncols) {o : Int} (inlets : Option (List Int))
    (ho : validCell g.nrows g.ncols o = true)
    (hin : ∀ m ∈ inlets.getD [], validCell g.nrows g.ncols m = true)
    (hsmall : g.nrows * g.ncols + 1 ≤ 1000000) :
    (∃ A, delineateAreaPy codes g o inlets none = .ok A) ↔
      ¬ ∃ p, 1 ≤ p ∧ Reaches codes g (inlets.getD []) p o o := by
  unfold delineateAreaPy
  rw [wrapper_area_eq hc, ← delineate_ok_iff_no_cycle hc ho hin]
  constructor
  · rintro ⟨A, h⟩; exact ⟨_, A, h⟩
  · rintro ⟨nval, A, h⟩
    have hlen := delineate_length_le hc h
    have hpos := validCell_iff.1 ho
    obtain ⟨A', hA', _⟩ := delineate_ok_of_room (nval := (none : Option Int).getD 1000000) h
      (by simp only [Option.getD_none]; omega)
    exact ⟨A', hA'⟩

/-- **the buffer a returned area needs**: `len(area) + 1 ≤ nval` — one slot of the work array always stays free -/
theorem delineate_fits_buffer {o nval : Int} {inlets A : List Int}
    (h : delineateArea codes g o inlets nval = .ok A) : (A.length : Int) + 1 ≤ nval :=
  delineateArea_fits h

/-- **… and that is exactly the room it needs**: once the area is returned for some buffer size, it is returned
for `nval` if and only if `len(area) + 1 ≤ nval` (the hypothesis of `delineate_ok_of_room` cannot be weakened:
with `nval ≤ len(area)` the call ends in a buffer-exhaustion error, which the harness probes with `nval = len`) -/
theorem delineate_ok_iff_room {o nval₀ nval : Int} {inlets A : List Int}
    (h : delineateArea codes g o inlets nval₀ = .ok A) :
    (∃ A', delineateArea codes g o inlets nval = .ok A') ↔ (A.length : Int) + 1 ≤ nval := by
  constructor
  · rintro ⟨A', h'⟩
    have hfit := delineate_fits_buffer h'
    obtain ⟨A'', h'', hperm⟩ := delineate_ok_of_room (nval := nval) h' (by omega)
    -- the area returned at nval has as many cells as A (both are returned with room at a common large size)
    obtain ⟨B, hB, hBA⟩ := delineate_ok_of_room (nval := max nval₀ nval + (A.length : Int) + (A'.length : Int) + 1)
      h (by omega)
    obtain ⟨B', hB', hBA'⟩ := delineate_ok_of_room
      (nval := max nval₀ nval + (A.length : Int) + (A'.length : Int) + 1) h' (by omega)
    rw [hB] at hB'
    cases hB'
    have : A.length = A'.length := hBA.length_eq.symm.trans hBA'.length_eq
    omega
  · intro hroom
    obtain ⟨A', hA', _⟩ := delineate_ok_of_room (nval := nval) h hroom
    exact ⟨A', hA'⟩

/-- **the work array as the Python wrapper sees it**: `nval` entries, the cells of the area first, then `-1` to
the end — at least one (`delineate_fits_buffer`), so the entries `>= 0` are a prefix ending before a `-1` -/
theorem wrapper_buffer_layout (hc : 0 < g.ncols) {o nval : Int} {inlets A : List Int}
    (h : delineateArea codes g o inlets nval = .ok A) :
    (areaBuffer nval A).length = nval.toNat ∧ (areaBuffer nval A).take A.length = A ∧
    (∀ i, A.length ≤ i → i < nval.toNat → (areaBuffer nval A)[i]? = some (-1)) ∧
    (areaBuffer nval A)[A.length]? = some (-1) ∧ ∀ c ∈ A, 0 ≤ c := by
  have hfit := delineate_fits_buffer h
  have hlen : (areaBuffer nval A).length = nval.toNat := by
    unfold areaBuffer; rw [List.length_append, List.length_replicate]; omega
  have hget : ∀ i, A.length ≤ i → i < nval.toNat → (areaBuffer nval A)[i]? = some (-1) := by
    intro i hi1 hi2
    unfold areaBuffer
    rw [List.getElem?_append_right hi1, List.getElem?_replicate]
    rw [if_pos (by omega)]
  refine ⟨hlen, ?_, hget, hget _ (le_refl _) (by omega), ?_⟩
  · unfold areaBuffer; simp
  · intro c hcA
    exact (validCell_iff.1 (delineate_cells_valid hc h c hcA)).1

/-- **the area is the brute-force reachability set**: whenever `c_delineate_area` returns, its cells are, up to
order, `reachArea` — every cell of the grid tested directly against the downstream chain (the property's own
wording, run by the driver next to the kernel's search and compared with `idxcells_area`) -/
theorem delineate_perm_reachArea (hc : 0 < g.ncols) {o nval : Int} {inlets A : List Int}
    (h : delineateArea codes g o inlets nval = .ok A) : A.Perm (reachArea codes g o inlets) := by
  obtain ⟨hnd, hmem, _⟩ := delineate_ok_iff hc h
  have hvalid := delineate_cells_valid hc h
  -- valid arguments (the call returned)
  obtain ⟨hnval, ho, hin⟩ : 1 ≤ nval ∧ validCell g.nrows g.ncols o = true ∧
      ∀ m ∈ inlets, validCell g.nrows g.ncols m = true := by
    rcases delineateArea_cases (codes := codes) (g := g) o inlets nval with
      ⟨_, e⟩ | ⟨_, _, e⟩ | ⟨_, _, _, e⟩ | ⟨h1, h2, h3, _⟩
    · rw [e] at h; cases h
    · rw [e] at h; cases h
    · rw [e] at h; cases h
    · exact ⟨h1, h2, h3⟩
  rw [List.perm_ext_iff_of_nodup hnd (reachArea_nodup o inlets)]
  intro c
  rw [hmem c, mem_reachArea]
  constructor
  · rintro (⟨rfl, u, hu⟩ | ⟨k, hk, hr⟩)
    · exact ⟨ho, Or.inl ⟨rfl, u, hu⟩⟩
    · have hcv : validCell g.nrows g.ncols c = true := by
        obtain ⟨k', rfl⟩ : ∃ k', k = k' + 1 := ⟨k - 1, by omega⟩
        exact (reaches_succ_iff.1 hr).1
      refine ⟨hcv, Or.inr ⟨k, hk, ?_, hr⟩⟩
      -- a longer walk would close a cycle through the outlet, and the call would not have returned
      by_contra hlong
      have hsplit : k = (k - ((g.nrows * g.ncols).toNat + 1)) + ((g.nrows * g.ncols).toNat + 1) := by omega
      have hr' := hr
      unfold Reaches at hr'
      rw [hsplit] at hr'
      obtain ⟨x, _, hx2⟩ := walk_split (downStep codes g inlets) _ _ c o hr'
      obtain ⟨p, hp, hcyc⟩ := cycle_of_long_walk (codes := codes) (g := g) (inlets := inlets) (c := x) hx2
      obtain ⟨e, he, _⟩ := delineate_cycle_error hc hnval ho hin hp hcyc
      rw [he] at h; cases h
  · rintro ⟨_, ⟨rfl, u, hu⟩ | ⟨k, hk, _, hr⟩⟩
    · exact Or.inl ⟨rfl, u, hu⟩
    · exact Or.inr ⟨k, hk, hr⟩

/-! ### 2b. histories on one `Catchment` object: every answer is about the current state only

`histRun codes s ops` (`Model/C06.lean`) runs a list of calls — `delineate_area`, `compute_flowpathlengths`,
in-place edits / re-assignment of `catchment.flowdir.data` — on one object; `gridAfter g ops` is the
constructor's grid with the edits applied. The correspondence runs such histories on the real object. -/

/-- **a delineation after any history** answers for the grid as it is now and for the arguments of this call:
nothing of earlier outlets, inlets, areas or tables enters (so `delineate_ok_iff` etc. apply to it with
`gridAfter s.grid ops` as the grid) -/
theorem history_delineate (hc : 0 < g.ncols) (ops : List HistOp) (outlet₀ : Option Int)
    (area₀ : Option (List Int)) (o : Int) (inlets : List Int) (nval : Int) :
    (histStep codes (histRun codes { grid := g, outlet := outlet₀, area := area₀ } ops).1
        (.delineate o inlets nval)).2 =
      .area (delineateArea codes (gridAfter g ops) o inlets nval) := by
  have hg := histRun_grid (codes := codes) ops { grid := g, outlet := outlet₀, area := area₀ }
  have hc' : 0 < (gridAfter g ops).ncols := by rw [(gridAfter_shape ops g).2]; exact hc
  have hw := wrapper_area_eq (g := gridAfter g ops) hc' o inlets nval
  simp only [histStep, hg]
  rw [hw]
  cases delineateArea codes (gridAfter g ops) o inlets nval <;> rfl

/-- **flow paths after any history**: computed right after a successful delineation they are the table of
that area, that outlet and the current grid (one row per cell of the area, in its order) — never a table
left over from an earlier delineation, whatever its size -/
theorem history_flowpaths (hc : 0 < g.ncols) (ops : List HistOp) (outlet₀ : Option Int)
    (area₀ : Option (List Int)) {o : Int} {inlets A : List Int} {nval : Int}
    (h : delineateArea codes (gridAfter g ops) o inlets nval = .ok A) :
    (histRun codes { grid := g, outlet := outlet₀, area := area₀ }
        (ops ++ [.delineate o inlets nval, .flowpaths])).2.getLast? =
      some (.table (.ok (A.map fun c => (c, flowPath codes (gridAfter g ops) o A.length c)))) := by
  have hc' : 0 < (gridAfter g ops).ncols := by rw [(gridAfter_shape ops g).2]; exact hc
  have hw := wrapper_area_eq (g := gridAfter g ops) hc' o inlets nval
  rw [h] at hw
  have key : ∀ (ops : List HistOp) (s : CatchState),
      wrapperArea codes (gridAfter s.grid ops) o inlets nval = .ok A →
      (histRun codes s (ops ++ [.delineate o inlets nval, .flowpaths])).2.getLast? =
        some (.table (.ok (A.map fun c => (c, flowPath codes (gridAfter s.grid ops) o A.length c)))) := by
    intro ops
    induction ops with
    | nil =>
      intro s hw
      simp only [List.nil_append, histRun, histStep, gridAfter] at hw ⊢
      rw [hw]
      simp
    | cons op ops ih =>
      intro s hw
      have hgrid : gridAfter s.grid (op :: ops) = gridAfter (histStep codes s op).1.grid ops := by
        cases op with
        | delineate o' inl' nval' => simp only [histStep, gridAfter]; split <;> rfl
        | flowpaths => simp only [histStep, gridAfter]; split <;> rfl
        | setCell c v => rfl
        | setGrid fd => rfl
      rw [hgrid] at hw ⊢
      have := ih (histStep codes s op).1 hw
      simp only [List.cons_append, histRun]
      rw [List.getLast?_cons_of_ne_nil] <;> [exact this; skip]
      intro hnil
      rw [hnil] at this
      simp at this
  exact key ops { grid := g, outlet := outlet₀, area := area₀ } hw

/-- after a delineation that failed (cycle, buffer too small, bad argument) the object holds no area:
`compute_flowpathlengths` raises instead of answering from an earlier one -/
theorem history_no_stale_area (s : CatchState) {o : Int} {inlets : List Int} {nval : Int} {e : Err}
    (h : wrapperArea codes s.grid o inlets nval = .error e) :
    (histStep codes (histStep codes s (.delineate o inlets nval)).1 .flowpaths).2 = .table (.error .noArea) := by
  simp only [histStep, h]

/-! ### 2c. interleaved histories: read-only calls (`upstream`, `downstream`, `delineate_river`, the accessors
`idxcells_area`, `isin`) between the others

`callRun codes s calls` (`Model/C06.lean`) runs any list of calls of either kind on one object; `opsOf calls` are
the state-changing ones among them. -/

section Queries
variable {α : Type} [Add α] [Mul α] [OfNat α 0] [OfNat α 1] [IntCast α] [Transc α]

/-- **read-only calls never change what the object holds**, whatever they return (an error for a cell off the
grid, `noArea` while nothing is stored): the state after any interleaved history is the state after its
state-changing calls alone; there is one reply per call -/
theorem history_queries_pure (s : CatchState) (calls : List HistCall) :
    (callRun (α := α) codes s calls).1 = (histRun codes s (opsOf calls)).1 ∧
    (callRun (α := α) codes s calls).2.length = calls.length :=
  ⟨callRun_state calls s, callRun_length calls s⟩

/-- **a read-only call after any history answers for the grid as it is now**: `upstream` / `downstream` /
`delineate_river` give what the kernels give on the constructor's grid with the edits made so far applied —
so the theorems of §1 and §4 apply to them with `gridAfter g (opsOf calls)` as the grid -/
theorem history_query_answer (calls : List HistCall) (outlet₀ : Option Int) (area₀ : Option (List Int))
    (cells : List Int) (start nval : Int) :
    let s₀ : CatchState := { grid := g, outlet := outlet₀, area := area₀ }
    let g' := gridAfter g (opsOf calls)
    (callRun (α := α) codes s₀ (calls ++ [.query (.downstream cells)])).2.getLast? =
        some (.query (.cells (mapCells (downstream codes g') cells))) ∧
    (callRun (α := α) codes s₀ (calls ++ [.query (.upstream cells)])).2.getLast? =
        some (.query (match mapCells (upstream codes g') cells with
          | .error e => .rows (.error e)
          | .ok l => .rows (.ok (l.map upstreamRow)))) ∧
    (callRun (α := α) codes s₀ (calls ++ [.query (.river start nval)])).2.getLast? =
        some (.query (.river (delineateRiver codes g' start nval))) := by
  intro s₀ g'
  have hst : (callRun (α := α) codes s₀ calls).1.grid = g' := by
    rw [callRun_state, histRun_grid]
  refine ⟨?_, ?_, ?_⟩ <;>
  · rw [callRun_append, List.getLast?_append]
    simp only [List.getLast?_singleton, Option.some_or, callStep, histQuery, hst]
    try rfl

/-- **what an object holds is always well formed**, after any list of calls — delineations that failed, edits,
tables, in any order: a stored area comes with its outlet, lists no cell twice and only cells of the grid. So
`compute_flowpathlengths` never hands the kernel a start cell off the grid, and never lacks the outlet. -/
theorem history_area_wellformed (hc : 0 < g.ncols) (ops : List HistOp) {A : List Int}
    (h : (histRun codes (CatchState.init g) ops).1.area = some A) :
    (∃ o, (histRun codes (CatchState.init g) ops).1.outlet = some o) ∧ A.Nodup ∧
      ∀ c ∈ A, validCell g.nrows g.ncols c = true := by
  have key : ∀ (ops : List HistOp) (s : CatchState), s.grid.nrows = g.nrows → s.grid.ncols = g.ncols →
      (∀ A, s.area = some A → (∃ o, s.outlet = some o) ∧ A.Nodup ∧ ∀ c ∈ A, validCell g.nrows g.ncols c = true) →
      ∀ A, (histRun codes s ops).1.area = some A →
        (∃ o, (histRun codes s ops).1.outlet = some o) ∧ A.Nodup ∧ ∀ c ∈ A, validCell g.nrows g.ncols c = true := by
    intro ops
    induction ops with
    | nil => intro s _ _ hs A hA; exact hs A hA
    | cons op ops ih =>
      intro s hr hcs hs A hA
      simp only [histRun] at hA ⊢
      obtain ⟨hr', hcs'⟩ := histStep_shape (codes := codes) s op
      refine ih (histStep codes s op).1 (hr'.trans hr) (hcs'.trans hcs) ?_ A hA
      intro B hB
      cases op with
      | delineate o inl nval =>
        rw [histStep_delineate_state] at hB ⊢
        have hc' : 0 < s.grid.ncols := by rw [hcs]; exact hc
        have hw := wrapper_area_eq (g := s.grid) hc' o inl nval
        cases hwa : wrapperArea codes s.grid o inl nval with
        | error e => rw [hwa] at hB; simp at hB
        | ok a =>
          rw [hwa] at hB
          simp only [Option.some.injEq] at hB
          subst hB
          rw [hwa] at hw
          refine ⟨⟨o, rfl⟩, (delineate_ok_iff hc' hw.symm).1, ?_⟩
          intro c hcm
          have := delineate_cells_valid hc' hw.symm c hcm
          rwa [hr, hcs] at this
      | flowpaths => rw [histStep_flowpaths_state] at hB ⊢; exact hs B hB
      | setCell c v => exact hs B hB
      | setGrid fd => exact hs B hB
  exact key ops (CatchState.init g) rfl rfl (fun A hA => by simp [CatchState.init] at hA) A h

/-- **the accessors after a delineation**: `idxcells_area` is the area just returned and `isin(c)` says whether
`c` is one of its cells — i.e. (`delineate_ok_iff`) whether `c` drains to the outlet without passing an inlet;
after a delineation that failed both raise -/
theorem history_accessors (hc : 0 < g.ncols) (ops : List HistOp) (outlet₀ : Option Int)
    (area₀ : Option (List Int)) (o : Int) (inlets : List Int) (nval c : Int) :
    let s := (histStep codes (histRun codes { grid := g, outlet := outlet₀, area := area₀ } ops).1
      (.delineate o inlets nval)).1
    (histQuery (α := α) codes s .area =
      .cells (match delineateArea codes (gridAfter g ops) o inlets nval with
        | .ok A => .ok A
        | .error _ => .error .noArea)) ∧
    (histQuery (α := α) codes s (.isin c) =
      .flag (match delineateArea codes (gridAfter g ops) o inlets nval with
        | .ok A => .ok (decide (c ∈ A))
        | .error _ => .error .noArea)) := by
  intro s
  have hg := histRun_grid (codes := codes) ops { grid := g, outlet := outlet₀, area := area₀ }
  have hc' : 0 < (gridAfter g ops).ncols := by rw [(gridAfter_shape ops g).2]; exact hc
  have hw := wrapper_area_eq (g := gridAfter g ops) hc' o inlets nval
  have hs : s.area = match delineateArea codes (gridAfter g ops) o inlets nval with
      | .ok A => some A
      | .error _ => none := by
    show (histStep codes _ (.delineate o inlets nval)).1.area = _
    simp only [histStep, hg]
    rw [hw]
    cases delineateArea codes (gridAfter g ops) o inlets nval <;> rfl
  constructor <;>
  · simp only [histQuery, hs]
    cases delineateArea codes (gridAfter g ops) o inlets nval <;> rfl

end Queries

/-! ### 3. the hole-filled area contains the area -/

/-- **filled ⊇ area** for any hole-filling routine that keeps the cells of the mask it is given (the only
property of `scipy.ndimage.binary_fill_holes` used), on every delineated area -/
theorem filled_contains_area (hc : 0 < g.ncols)
    (fill : Nat → Nat → (Nat → Nat → Bool) → (Nat → Nat → Bool))
    (hfill : ∀ nr nc (m : Nat → Nat → Bool) r c, m r c = true → fill nr nc m r c = true)
    {o nval : Int} {inlets A : List Int} (h : delineateArea codes g o inlets nval = .ok A) :
    ∀ a ∈ A, a ∈ areaFilled g fill A :=
  mem_areaFilled hc fill hfill A (delineate_cells_valid hc h)

/-- **the filled list is well formed whatever the fill routine returns** (no hypothesis on `fill` at all): no cell
twice, only cells of the grid — the rectangle handed to `binary_fill_holes` lies inside the grid and its cells are
numbered back in strictly increasing order -/
theorem filled_wellformed (hc : 0 < g.ncols)
    (fill : Nat → Nat → (Nat → Nat → Bool) → (Nat → Nat → Bool))
    {o nval : Int} {inlets A : List Int} (h : delineateArea codes g o inlets nval = .ok A) :
    (areaFilled g fill A).Nodup ∧ ∀ x ∈ areaFilled g fill A, validCell g.nrows g.ncols x = true :=
  areaFilled_wellformed hc fill A (delineate_ok_iff hc h).1 (delineate_cells_valid hc h)

/-- nothing drains to the outlet: the filled area is empty too -/
theorem filled_empty (fill : Nat → Nat → (Nat → Nat → Bool) → (Nat → Nat → Bool)) :
    areaFilled g fill [] = [] := rfl


/-! ### 4. river traces and flow-path lengths follow the downstream chain: 1 per orthogonal step, √2 per diagonal step

Lengths are stated over any commutative ring `α` with a function `sqrt` such that `sqrt 1 = 1` (and
`sqrt 0 = 0` for the first river row) — `ℝ` with `Real.sqrt`, and what IEEE `sqrt` does on 0 and 1;
`sqrt (1+1)` is `√2`. `chainCell i c` is the cell `i` steps down the chain from `c`, `chainSteps … i c` the
classification (diagonal or not) of its first `i` steps (`Lemmas/C06.lean`). -/

section Lengths
variable {α : Type} [CommRing α] [Transc α]

/-- **a step of the chain is Euclidean**: between two cells of the grid it changes row and column by at
most one, and its squared length is 2 exactly when it is classified diagonal, else 1 -/
theorem chain_step_euclidean {c : Int} (h0 : 0 ≤ downstreamCell codes g c) :
    (colOf g.ncols c - colOf g.ncols (downstreamCell codes g c)) ^ 2 +
      (rowOf g.ncols c - rowOf g.ncols (downstreamCell codes g c)) ^ 2 =
    if isDiag g.ncols c (downstreamCell codes g c) then 2 else 1 :=
  step_sqdist tableOK h0

/-- **length = #orthogonal steps + √2 · #diagonal steps**, whatever the order of the steps -/
theorem length_eq_orth_plus_sqrt2_diag (hs1 : Transc.sqrt (1 : α) = 1) (steps : List Bool) :
    (pathLength steps : α) =
      ((steps.count false : Nat) : α) + ((steps.count true : Nat) : α) * Transc.sqrt (1 + 1) :=
  pathLength_eq_counts hs1 steps

/-- **flow-path length**: for a start cell whose downstream chain first meets the outlet after `k+1` steps,
`k+1` smaller than the number of cells handed to the kernel, the reported end cell is the outlet, the steps
added up are exactly the `k+1` steps of the chain, and the length is `#orth + √2·#diag` of those steps -/
theorem flowpath_length (hs1 : Transc.sqrt (1 : α) = 1) {start outlet : Int} {k nval : Nat}
    (hw : Reaches codes g [] (k + 1) start outlet)
    (hfirst : ∀ j, 1 ≤ j → j ≤ k → ¬ Reaches codes g [] j start outlet)
    (hk : k + 1 < nval) :
    (flowPath codes g outlet nval start).1 = outlet ∧
    (flowPath codes g outlet nval start).2 = chainSteps codes g (isDiag g.ncols) (k + 1) start ∧
    chainCell codes g (k + 1) start = outlet ∧
    (pathLength (flowPath codes g outlet nval start).2 : α) =
      (((chainSteps codes g (isDiag g.ncols) (k + 1) start).count false : Nat) : α) +
      (((chainSteps codes g (isDiag g.ncols) (k + 1) start).count true : Nat) : α) * Transc.sqrt (1 + 1) := by
  have h := flowPathWith_reach (g := g) tableOK (isDiag g.ncols) hw hfirst hk
  unfold flowPath
  rw [h]
  exact ⟨rfl, rfl, (walk_chainCell tableOK k start outlet hw).1, pathLength_eq_counts hs1 _⟩

/-- **flow paths of a delineated area**: every cell `c` of the area other than the outlet first meets the
outlet after some `k+1` steps, `k+1` smaller than the number of cells of the area — so the kernel, run on
the area as `Catchment.compute_flowpathlengths` does, reports the outlet as its end cell and the
`#orth + √2·#diag` length of its chain -/
theorem flowpath_on_area (hs1 : Transc.sqrt (1 : α) = 1) (hc : 0 < g.ncols) {o nval : Int}
    {inlets A : List Int} (h : delineateArea codes g o inlets nval = .ok A) {c : Int}
    (hcA : c ∈ A) (hco : c ≠ o) :
    ∃ k, Reaches codes g [] (k + 1) c o ∧ (∀ j, 1 ≤ j → j ≤ k → ¬ Reaches codes g [] j c o) ∧
      flowPath codes g o A.length c = (o, chainSteps codes g (isDiag g.ncols) (k + 1) c) ∧
      (pathLength (flowPath codes g o A.length c).2 : α) =
        (((chainSteps codes g (isDiag g.ncols) (k + 1) c).count false : Nat) : α) +
        (((chainSteps codes g (isDiag g.ncols) (k + 1) c).count true : Nat) : α) * Transc.sqrt (1 + 1) := by
  obtain ⟨k, hw, hfirst, hk⟩ := first_hit_of_mem_area (g := g) (delineate_ok_iff hc h).2.1 hcA hco
  obtain ⟨e1, e2, _, e4⟩ := flowpath_length (α := α) hs1 hw hfirst hk
  exact ⟨k, hw, hfirst, Prod.ext e1 e2, e4⟩

/-- **flow path that never meets the outlet**: a chain that, after `j` steps none of which enters the outlet,
stands on a cell draining nowhere (sink, exit, invalid code) is reported with that exit code (`-2` / `-1`) as
end cell and length 0 — provided the kernel was handed more than `j` cells -/
theorem flowpath_exit {start outlet x : Int} {j nval : Nat}
    (hr : Reaches codes g [] j start x) (hv : validCell g.nrows g.ncols x = true)
    (hno : ∀ i, 1 ≤ i → i ≤ j → chainCell codes g i start ≠ outlet)
    (hneg : downstreamCell codes g x < 0) (hj : j + 1 ≤ nval) :
    flowPath codes g outlet nval start = (downstreamCell codes g x, []) ∧
    (pathLength (flowPath codes g outlet nval start).2 : α) = 0 := by
  have h := flowPathWith_exit (g := g) (isDiag g.ncols) hr hv hno hneg hj
  unfold flowPath
  rw [h]
  exact ⟨rfl, rfl⟩

/-- **a walk that nothing stops is cut after `nval` steps** (a flow cycle that avoids the outlet, a list of cells
shorter than the chain): when each of the first `nval` iterations goes on — the cell is on the grid, drains to a
cell, and that cell is not the outlet — the row reports the cell `nval` steps down the chain and the `nval` steps
made; this is the case the model flags with `flowPathCapped` -/
theorem flowpath_capped {start outlet : Int} {nval : Nat} (h1 : 1 ≤ nval)
    (hgo : ∀ i, i < nval → GoesOn codes g outlet start i) :
    flowPath codes g outlet nval start =
      (chainCell codes g nval start, chainSteps codes g (isDiag g.ncols) nval start) ∧
    flowPathCapped codes g outlet nval start = true := by
  obtain ⟨e1, e2⟩ := flowPathWith_capped (codes := codes) (g := g) (isDiag g.ncols) h1 hgo
  refine ⟨e1, ?_⟩
  unfold flowPathCapped
  rw [e2]; exact beq_self_eq_true _

/-- **`flowPathCapped` (where the correspondence compares "bounded" only) is exactly "no iteration stops"** -/
theorem flowPathCapped_iff {start outlet : Int} {nval : Nat} (h1 : 1 ≤ nval)
    (hv : validCell g.nrows g.ncols start = true) :
    flowPathCapped codes g outlet nval start = true ↔ ∀ i, i < nval → GoesOn codes g outlet start i :=
  flowPathCapped_iff_goesOn tableOK h1 hv

/-- **the hypothesis `k + 1 < nval` of `flowpath_length` is needed**: a chain that first meets the outlet after
exactly as many steps as cells were handed to the kernel is reported with the outlet as end cell but WITHOUT its
last step (one step short). By `flowpath_on_area` this never happens on a delineated area; the harness probes the
kernel at this point with cell lists of exactly that length. -/
theorem flowpath_last_step_dropped {start outlet : Int} {k : Nat}
    (hw : Reaches codes g [] (k + 1) start outlet)
    (hfirst : ∀ j, 1 ≤ j → j ≤ k → ¬ Reaches codes g [] j start outlet) :
    flowPath codes g outlet (k + 1) start = (outlet, chainSteps codes g (isDiag g.ncols) k start) ∧
    (flowPath codes g outlet (k + 1) start).2.length + 1 =
      (chainSteps codes g (isDiag g.ncols) (k + 1) start).length := by
  have hvo := (walk_chainCell tableOK k start outlet hw).2
  have h := flowPathWith_last_step_dropped (codes := codes) (g := g) (isDiag g.ncols) hw hfirst
    (validCell_iff.1 hvo).1
  unfold flowPath
  rw [h]
  refine ⟨rfl, ?_⟩
  rw [chainSteps_succ_last]; simp

/-- a start cell off the grid (`c_downstream` refuses it: `ierr_down > 0`) gives the row `(-1, 0)` -/
theorem flowpath_invalid_start (outlet start : Int) (nval : Nat)
    (hv : validCell g.nrows g.ncols start = false) :
    flowPath codes g outlet nval start = (-1, []) :=
  flowPathWith_invalid (isDiag g.ncols) outlet start nval (Or.inl hv)

/-- **every row of the flow-path table is one of four cases, each with its result** — for any start cell of the
grid, any outlet, any number `nval ≥ 1` of cells handed to the kernel: the chain drains nowhere first (exit code,
length 0); it first meets the outlet with room (`flowpath_length`); it first meets the outlet at the very last
iteration (last step dropped); or nothing stops the walk (cut after `nval` steps). Nothing about the kernel's
result is left uncharacterised. -/
theorem flowpath_cases (outlet start : Int) {nval : Nat} (h1 : 1 ≤ nval)
    (hv : validCell g.nrows g.ncols start = true) :
    (∃ j x, j + 1 ≤ nval ∧ Reaches codes g [] j start x ∧ downstreamCell codes g x < 0 ∧
        (∀ i, 1 ≤ i → i ≤ j → chainCell codes g i start ≠ outlet) ∧
        flowPath codes g outlet nval start = (downstreamCell codes g x, [])) ∨
    (∃ k, k + 1 < nval ∧ Reaches codes g [] (k + 1) start outlet ∧
        (∀ j, 1 ≤ j → j ≤ k → ¬ Reaches codes g [] j start outlet) ∧
        flowPath codes g outlet nval start = (outlet, chainSteps codes g (isDiag g.ncols) (k + 1) start)) ∨
    (∃ k, k + 1 = nval ∧ Reaches codes g [] (k + 1) start outlet ∧
        (∀ j, 1 ≤ j → j ≤ k → ¬ Reaches codes g [] j start outlet) ∧
        flowPath codes g outlet nval start = (outlet, chainSteps codes g (isDiag g.ncols) k start)) ∨
    ((∀ i, i < nval → GoesOn codes g outlet start i) ∧
        flowPath codes g outlet nval start =
          (chainCell codes g nval start, chainSteps codes g (isDiag g.ncols) nval start)) := by
  rcases flowPath_cases (codes := codes) (g := g) tableOK outlet start nval hv with
    ⟨j, x, hj, hr, hvx, hno, hneg⟩ | ⟨k, hk, hw, hfirst⟩ | hgo
  · left
    refine ⟨j, x, hj, hr, hneg, hno, ?_⟩
    have := flowPathWith_exit (g := g) (isDiag g.ncols) hr hvx hno hneg hj
    unfold flowPath; exact this
  · by_cases hlt : k + 1 < nval
    · right; left
      refine ⟨k, hlt, hw, hfirst, ?_⟩
      have := flowPathWith_reach (g := g) tableOK (isDiag g.ncols) hw hfirst hlt
      unfold flowPath; exact this
    · right; right; left
      have hk' : k + 1 = nval := by omega
      refine ⟨k, hk', hw, hfirst, ?_⟩
      rw [← hk']
      exact (flowpath_last_step_dropped hw hfirst).1
  · right; right; right
    exact ⟨hgo, (flowpath_capped h1 hgo).1⟩

/-- **river trace**: the cells are the downstream chain from the start cell and the distance in row `i` is
the length of the first `i` steps of that chain -/
theorem river_trace (hs0 : Transc.sqrt (0 : α) = 0) {start nval : Int} {rows : List (RiverRow α)}
    (h : delineateRiver codes g start nval = .ok rows) :
    rows.map (·.cell) = chainCells codes g nval.toNat start ∧
    rows.map (·.dist) = (List.range rows.length).map
      (fun i => pathLength (chainSteps codes g (isDiag g.ncols) i start)) := by
  unfold delineateRiver at h
  split at h
  · cases h
    refine ⟨river_cells _ _ _ _ _, ?_⟩
    have := river_dists (α := α) (g := g) tableOK nval.toNat start [] 0 0 0
      (by unfold hypot; simp [hs0, pathLength_nil])
    simpa using this
  · cases h

/-- the river cells: entry `i` is the cell `i` steps down the chain; there are at most `nval` of them; every
cell but the last drains to a cell of the grid; the trace stops before `nval` only at a sink / exit -/
theorem river_cells_are_chain (n : Nat) (c : Int) :
    (chainCells codes g n c).length ≤ n ∧
    (∀ i, i < (chainCells codes g n c).length →
      (chainCells codes g n c)[i]? = some (chainCell codes g i c) ∧
      (i + 1 < (chainCells codes g n c).length → 0 ≤ downstreamCell codes g (chainCell codes g i c))) ∧
    ((chainCells codes g n c).length < n →
      downstreamCell codes g (chainCell codes g ((chainCells codes g n c).length - 1) c) < 0) :=
  chainCells_spec n c

/-- the displacement columns of the river table: `(0, 0)` in the first row (for the call made by
`delineate_river`), then the column / row change of the step between consecutive river cells -/
theorem river_displacements {start nval : Int} {rows : List (RiverRow α)}
    (h : delineateRiver codes g start nval = .ok rows) (hn : rows ≠ []) :
    rows.map (fun r => (r.dx, r.dy)) =
      (0, 0) :: List.zipWith (fun a b => (colOf g.ncols a - colOf g.ncols b, rowOf g.ncols a - rowOf g.ncols b))
        (rows.map (·.cell)) (rows.map (·.cell)).tail := by
  unfold delineateRiver at h
  split at h
  · cases h
    have := river_disp (α := α) (codes := codes) (g := g) nval.toNat start 0 0 0
    by_cases h0 : nval.toNat = 0
    · rw [h0] at hn; exact absurd rfl hn
    · rw [if_neg h0] at this; exact this
  · cases h

/-- **bounded results, cycles or not**: a river has at most `nval` rows and a flow path adds up at most
`nval` steps, on every grid — with totality of the model this is the "never a hang" clause for the two
walks (`delineate_cycle_error` is the one for the area) -/
theorem walks_bounded (outlet : Int) (n : Nat) (start nval : Int) {rows : List (RiverRow α)}
    (h : delineateRiver codes g start nval = .ok rows) :
    rows.length ≤ nval.toNat ∧ (flowPath codes g outlet n start).2.length ≤ n := by
  constructor
  · unfold delineateRiver at h
    split at h
    · cases h; exact riverLoop_length_le _ _ _ _ _
    · cases h
  · exact flowPathWith_bound _ _ _ _

/-- **`chainCyclic` (where the correspondence compares "error or bounded result" only, for rivers) is exactly "the
chain from the start cell never ends"**: it never stands on a sink, an exit or an invalid code — on a finite grid,
it runs into a flow cycle (pigeonhole: two of its first `ncells + 1` cells coincide, and it repeats from there) -/
theorem chainCyclic_iff {start : Int} (hv : validCell g.nrows g.ncols start = true) :
    chainCyclic codes g start = true ↔ ∀ k, 0 ≤ chainCell codes g (k + 1) start :=
  chainCyclic_iff_never_ends tableOK hv

/-- a start cell off the grid is rejected -/
theorem river_guard (start nval : Int) (hv : validCell g.nrows g.ncols start = false) :
    (delineateRiver codes g start nval : Except Err (List (RiverRow α))) = .error .badCell := by
  unfold delineateRiver; simp [hv]

end Lengths

/-- **over the reals**: with `Real.sqrt`, the length of any step sequence is
`#orthogonal + √2 · #diagonal` -/
theorem length_real (steps : List Bool) :
    letI := realTransc
    (pathLength steps : ℝ) = (steps.count false : ℝ) + Real.sqrt 2 * (steps.count true : ℝ) := by
  let _ : Transc ℝ := realTransc
  have h := pathLength_eq_counts (α := ℝ) realTransc_sqrt_one steps
  rw [h, realTransc_sqrt_two, mul_comm]

/-- over the reals the hypotheses `sqrt 0 = 0`, `sqrt 1 = 1` of the theorems of this section hold -/
theorem real_sqrt_hyps : realTransc.sqrt (0 : ℝ) = 0 ∧ realTransc.sqrt (1 : ℝ) = 1 :=
  ⟨realTransc_sqrt_zero, realTransc_sqrt_one⟩

/-! ### 4b. what survives IEEE rounding: order, sign, bounds, and exact lengths of orthogonal chains

The theorems above are exact (commutative ring). `FloatLike F` (`Lemmas/C06Round.lean`) lists facts true of a
rounded arithmetic — monotone addition, `x + 0 = x`, `sqrt 1 = 1`, `1 ≤ sqrt 2 ≤ 2`, `sqrt` of a non-negative
number non-negative — and the statements below need nothing else; `countBy 1 n` is `0 + 1 + … + 1` in the same
arithmetic (the double `n` itself, `n < 2^53`). -/

section Rounded
variable {F : Type} [Add F] [Mul F] [OfNat F 0] [OfNat F 1] [IntCast F] [Transc F] [LinearOrder F]

/-- **lengths under rounding**: non-negative; between `n` and `2n` (counted in the same arithmetic) after `n`
steps; never smaller after one more step -/
theorem length_rounded (h : FloatLike F) (steps : List Bool) :
    (0 : F) ≤ pathLength steps ∧
    (countBy (1 : F) steps.length ≤ pathLength steps ∧ (pathLength steps : F) ≤ countBy (1 + 1) steps.length) ∧
    ∀ d : Bool, (pathLength steps : F) ≤ pathLength (steps ++ [d]) :=
  pathLength_rounded h steps

/-- **a chain without diagonal steps has exactly the counted length**, rounding or not: the kernel's sum is the
count itself — in IEEE double the integer number of steps, bit for bit -/
theorem length_orthogonal_exact (hs1 : Transc.sqrt (1 : F) = 1) (steps : List Bool)
    (horth : ∀ d ∈ steps, d = false) : (pathLength steps : F) = countBy 1 steps.length :=
  pathLength_orthogonal hs1 steps horth

/-- **the distance column of a river never decreases and is never negative**, under rounding -/
theorem river_dist_monotone (h : FloatLike F) {start nval : Int} {rows : List (RiverRow F)}
    (hr : delineateRiver codes g start nval = .ok rows) :
    (rows.map (·.dist)).Pairwise (· ≤ ·) ∧ ∀ r ∈ rows, (0 : F) ≤ r.dist := by
  unfold delineateRiver at hr
  split at hr
  · cases hr
    obtain ⟨h1, h2⟩ := riverLoop_dist_mono h codes g nval.toNat start 0 0 0
    exact ⟨h2, h1⟩
  · cases hr

end Rounded

/-- the rounded-arithmetic hypotheses are met by the reals (exact arithmetic) and by a toy arithmetic that really
rounds (`0 .. 8`, saturating: not a ring, `length_eq_orth_plus_sqrt2_diag` fails in it) -/
theorem float_like_models : (letI := realTransc; FloatLike ℝ) ∧ FloatLike Sat :=
  ⟨floatLike_real, floatLike_sat⟩

/-- **the defect of the pinned kernel, as a theorem**: on a 2-column grid the step from column 1 of a row to
column 0 of the next row (south-west) is diagonal, but the pinned classification `|Δidx| == 1 || == ncols`
calls it orthogonal (length 1 instead of √2) -/
theorem pinned_step_misclassified (r : Int) (hr : 0 ≤ r) :
    isDiag 2 (r * 2 + 1) ((r + 1) * 2 + 0) = true ∧ isDiagPinned 2 (r * 2 + 1) ((r + 1) * 2 + 0) = false := by
  have c1 : colOf 2 (r * 2 + 1) = 1 := colOf_cellOf (ncols := 2) (row := r) (col := 1) hr (by omega) (by omega)
  have c2 : colOf 2 ((r + 1) * 2 + 0) = 0 :=
    colOf_cellOf (ncols := 2) (row := r + 1) (col := 0) (by omega) (by omega) (by omega)
  have r1 : rowOf 2 (r * 2 + 1) = r := rowOf_cellOf (ncols := 2) (row := r) (col := 1) hr (by omega) (by omega)
  have r2 : rowOf 2 ((r + 1) * 2 + 0) = r + 1 :=
    rowOf_cellOf (ncols := 2) (row := r + 1) (col := 0) (by omega) (by omega) (by omega)
  constructor
  · unfold isDiag; rw [c1, c2, r1, r2]; simp
  · unfold isDiagPinned
    have : (r + 1) * 2 + 0 - (r * 2 + 1) = 1 := by omega
    rw [this]; simp

/-- … and only there: on every grid that does not have exactly 2 columns the pinned classification of the
steps of a chain agrees with the row/column test, so flow-path lengths were already right -/
theorem pinned_wrong_only_on_two_columns (hc : 0 < g.ncols) (h2 : g.ncols ≠ 2) {c : Int}
    (hv : validCell g.nrows g.ncols c = true) (h0 : 0 ≤ downstreamCell codes g c) :
    isDiagPinned g.ncols c (downstreamCell codes g c) = isDiag g.ncols c (downstreamCell codes g c) :=
  isDiagPinned_eq_isDiag tableOK hc h2 hv h0

/-! ### non-vacuity: the hypotheses above are met by concrete grids -/

/-- the 2x2 grid of the finding: cell 1 flows south-west to cell 2, everything else is a sink -/
def exGrid : FlowGrid := { nrows := 2, ncols := 2, fd := fun i => if i = 1 then 8 else 0 }
/-- a 1x2 grid whose two cells drain into each other -/
def exCycle : FlowGrid := { nrows := 1, ncols := 2, fd := fun i => if i = 0 then 1 else 16 }

example : upstream codes exGrid 2 = .ok [1] ∧ downstream codes exGrid 1 = .ok 2 ∧
    downstream codes exGrid 0 = .ok (-2) ∧ downstream codes exGrid 4 = .error .badCell := by decide
example : delineateArea codes exGrid 2 [] 10 = .ok [1, 2] := by decide
example : delineateArea codes exGrid 2 [1] 10 = .ok [] := by decide
example : Reaches codes exGrid [] 1 1 2 := by unfold Reaches; decide
example : flowPath codes exGrid 2 2 1 = (2, [true]) := by decide
example : flowPathWith codes exGrid 2 (isDiagPinned 2) 2 1 = (2, [false]) := by decide
example : Reaches codes exCycle [] 2 0 0 := by unfold Reaches; decide
example : delineateArea codes exCycle 0 [] 7 = .error .areaFull := by decide
example : cycleThroughOutlet codes exCycle 0 [] = true ∧ cycleThroughOutlet codes exGrid 2 [] = false ∧
    chainCyclic codes exCycle 1 = true ∧ chainCyclic codes exGrid 1 = false ∧
    flowPathCapped codes exCycle 5 2 0 = true ∧ flowPathCapped codes exGrid 2 2 1 = false := by decide
example : chainCells codes exGrid 5 1 = [1, 2] ∧ chainSteps codes exGrid (isDiag 2) 1 1 = [true] := by decide

/-! non-vacuity of the round-7 theorems -/
-- the area as a reachability set; the room a delineation needs (3 slots for 2 cells, error with 2)
example : delineateAreaPy codes exGrid 2 none (some 10) = .ok [1, 2] ∧
    delineateAreaPy codes exGrid 2 (some [1]) (some 10) = .ok [] := by decide
example : reachArea codes exGrid 2 [] = [1, 2] ∧ reachArea codes exGrid 2 [1] = [] ∧
    delineateArea codes exGrid 2 [] 3 = .ok [1, 2] ∧ delineateArea codes exGrid 2 [] 2 = .error .outletFull ∧
    areaBuffer 4 [1, 2] = [1, 2, -1, -1] := by decide
-- a walk nothing stops (the 2-cycle of exCycle, outlet elsewhere): cut after nval = 3 steps, flagged capped
example : (∀ i, i < 3 → GoesOn codes exCycle 7 0 i) ∧
    flowPath codes exCycle 7 3 0 = (1, [false, false, false]) ∧ flowPathCapped codes exCycle 7 3 0 = true ∧
    goesOnCount codes exCycle 7 0 3 = 3 ∧ goesOnCount codes exGrid 2 1 3 = 0 := by decide
-- the boundary case: cell 1 of exGrid meets the outlet 2 after k + 1 = 1 = nval steps: the step is dropped
example : Reaches codes exGrid [] 1 1 2 ∧ flowPath codes exGrid 2 1 1 = (2, []) ∧
    flowPath codes exGrid 2 2 1 = (2, [true]) ∧ flowPath codes exGrid 2 2 9 = (-1, []) := by
  refine ⟨by unfold Reaches; decide, by decide, by decide, by decide⟩
-- an interleaved history: queries between a delineation, an edit and a second delineation
example : ((callRun (α := Sat) codes (CatchState.init exGrid)
      [.query .area, .op (.delineate 2 [] 10), .query (.isin 1), .query (.downstream [1]), .op (.setCell 1 0),
       .query (.downstream [1]), .query (.isin 1), .op (.delineate 2 [] 10), .query (.isin 1), .query .area]).2.map fun
        | .query (.flag (.ok b)) => some (if b then 1 else 0)
        | .query (.cells (.ok l)) => l.head?
        | .query (.cells (.error _)) => some (-9)
        | _ => none) =
      [some (-9), none, some 1, some 2, none, some (-2), some 1, none, some 0, none] := by decide
-- counting in a rounded arithmetic; an orthogonal chain has the counted length there
example : (countBy (1 : Sat) 12) = Sat.mk 8 ∧ (pathLength [false, false, false] : Sat) = countBy 1 3 := by decide

/-- a history with two delineations of equal size on one object, an edit in between -/
example : ((histRun codes (CatchState.init exGrid)
      [.delineate 2 [] 10, .flowpaths, .setCell 0 2, .delineate 3 [] 10, .flowpaths]).2.map fun
        | .area (.ok a) => a
        | .table (.ok t) => t.map (·.1)
        | _ => []) = [[1, 2], [1, 2], [], [0, 3], [0, 3]] := by decide
example : wrapperArea codes exGrid 2 [] 10 = .ok [1, 2] ∧ wrapperArea codes exCycle 0 [] 7 = .error .areaFull := by
  decide
example : g.fd = (fun _ => 255) → g.fd 0 ∉ codes := by intro h; rw [h]; decide

end HydroVerif.C06
