/-
C02 — property theorems (only). Model: `Model/C01.lean` (`X.fwd`, `X.jac`, `X.jacobian`) + `Model/C02.lean`
(`X.jdom`, Softmax partial-derivative matrix) + `Model/C02Hist.lean` (the transform object as a state machine: Vector
slots and clipping, constructors and their guards, public operations, get_transform, dutils.cast); helper lemmas:
`Lemmas/C01Real.lean`, `Lemmas/C02*.lean` (`C02Hist`: invariants of the object model; `C02Round`: the rounded instance
`Rd M` of the model text and its order lemmas).

For every transform class, over ℝ, for every parameter vector inside the declared bounds and every branch:
* `X.hasDerivAt`    `HasDerivAt (fun t => X.fwd p t) (X.jac p x) x` at every point of the (open) domain of the
                    smooth branch that contains `x`;
* `X.jac_pos`       `0 < X.jac p x` there;
* `X.jacobian_spec` on the set where `_jacobian` returns a number (its `np.where` guard) that number is
                    `X.jac p x`, it is positive and it is the derivative of the forward formula;
* `X.strictMonoOn`  the forward formula is strictly increasing on the domain.
From any object a program can build (`mk` / `viaGet`) and after any list of public operations (`run`):
* `history_inv`, `step_rejected_unchanged`, `call_after_history`, `X.after_history`  the admissibility hypotheses above are
                    consequences of the constructors' and setters' guards; rejected operations change nothing.
In the arithmetic the code performs (every operation rounded — `Rd M`, assumptions in `FP`):
* `X.fwd_mono_fp`   `x1 ≤ x2 → X.fwd p x1 ≤ X.fwd p x2` exactly (no rounding allowance);
* `X.jac(obian)_nonneg_fp`  the number `jacobian` returns is never negative.

Clause → theorems → what remains outside (same table as harness/registry.d/C02.json "clauses"):

* for every transform (12 scalar classes) and admissible parameters, jacobian(x) equals the derivative of forward at
  x [to 1e-4 relative]
    theorems: Identity.hasDerivAt, Logit.hasDerivAt, Log.hasDerivAt, BoxCox2.hasDerivAt, BoxCox1lam.jacobian_spec,
              BoxCox1nu.jacobian_spec, BoxCox2sym.hasDerivAt_of_pos, BoxCox2sym.hasDerivAt_of_neg,
              BoxCox2sym.hasDerivAt_zero, BoxCox2sym.hasDerivAt, YeoJohnson.hasDerivAt, LogSinh.hasDerivAt,
              Reciprocal.hasDerivAt, Sinh.hasDerivAt, Manly.hasDerivAt, X.jacobian_spec (every class: the number
              `jacobian` returns on its guard is that derivative), LogSinh.forward_eq, Reciprocal.forward_eq
    outside:  exact over the reals, every branch and every admissible parameter vector; the 1e-4 allowance and IEEE
              rounding are carried by the correspondence (Float model, propagated bound) and the finite-difference
              oracle. Yeo-Johnson is stated at every x with nu + scale x != EPS (the property's quantifier excludes
              the switch point)

* for Softmax, jacobian is the determinant of the matrix of partial derivatives
    theorems: Softmax.partial_derivatives, Softmax.det_partial_derivatives, Softmax.jacobian_eq_det,
              Softmax.jacobian_spec, Softmax.pdDet_eq_det, Softmax.pdDet_eq_jacRow, Softmax.jacobianM_eq
    outside:  every row length n (matrix determinant lemma); the determinant the driver executes (Laplace expansion
              on nested lists) is proved equal to Matrix.det; floating point by correspondence (FD matrix of the
              real forward vs model entries, numpy det vs jacobian)

* jacobian is strictly positive on the domain
    theorems: Identity.jac_pos, Logit.jac_pos, Log.jac_pos, Log.bf_pos, Log.jac_neg_of_base_lt_one, BoxCox2.jac_pos,
              BoxCox2sym.jac_pos, YeoJohnson.jac_pos, LogSinh.jac_pos, Reciprocal.jac_pos, Sinh.jac_pos,
              Manly.jac_pos, Softmax.jacRow_pos, Softmax.partial_pos, X.jacobian_spec, Sinh.jacH_eq_jac,
              Sinh.jacobianH_spec, Identity.jac_nonneg_fp, Logit.jacobian_nonneg_fp, Log.jacobian_nonneg_fp,
              BoxCox2.jacobian_nonneg_fp, BoxCox2sym.jacobian_nonneg_fp, YeoJohnson.jac_nonneg_fp,
              LogSinh.jac_nonneg_fp, Reciprocal.jac_nonneg_fp, Sinh.jacH_nonneg_fp, Manly.jac_nonneg_fp,
              Softmax.sumFrom_nonneg_fp, Softmax.prodFrom_nonneg_fp, Softmax.jacobian_nonneg_fp,
              Log.base_one_not_pos
    outside:  Log needs log(base) > 0: for 0 < base < 1 the Jacobian is proved negative (known finding
              Log/positive/base_below_one). Sinh's u*u overflow in doubles (Jacobian 0 for |u| > 1.34e154) is
              repaired on fix-C02: Sinh.jacH_eq_jac, Sinh.jacobianH_spec. In floating point: X.jac(obian)_nonneg_fp
              prove 'never negative' exactly in the rounded arithmetic (assumptions of FP); STRICT positivity in
              doubles (no underflow to 0) stays with the oracle

* NaN outside the domain via np.where (anchor): the domain of jacobian is its guard
    theorems: Logit.jacobian_none, Log.jacobian_none, BoxCox2.jacobian_none, BoxCox1lam.jacobian_none,
              BoxCox1nu.jacobian_none, BoxCox2sym.jacobian_none, LogSinh.jacobian_none, Reciprocal.jacobian_none,
              Logit.jdom_dom, Log.dom_of_jdom, BoxCox2.dom_of_jdom
    outside:  nothing; unguarded classes (Identity, Yeo-Johnson, Sinh, Manly) have no NaN branch

* equivalently forward is strictly increasing: x1 < x2 implies forward(x1) <= forward(x2), equality only within
  rounding; all ordered pairs of domain points
    theorems: Identity.strictMono, Logit.strictMonoOn, Log.strictMonoOn, BoxCox2.strictMonoOn,
              BoxCox1lam.strictMonoOn, BoxCox1nu.strictMonoOn, BoxCox2sym.strictMono_of, BoxCox2sym.strictMono,
              BoxCox2sym.strictMono_nu_zero, YeoJohnson.strictMonoOn_pos, YeoJohnson.strictMonoOn_neg,
              YeoJohnson.forward_lt_add, YeoJohnson.fwd_lam_one, YeoJohnson.strictMono_lam_one,
              YeoJohnson.not_strictMono_lam_three, LogSinh.strictMonoOn, Reciprocal.strictMonoOn, Sinh.strictMono,
              Manly.strictMono, Identity.fwd_mono_fp, Logit.fwd_mono_fp, Log.fwd_mono_fp, BoxCox2.fwd_mono_fp,
              BoxCox1lam.fwd_mono_fp, BoxCox1nu.fwd_mono_fp, BoxCox2sym.fwd_mono_fp, YeoJohnson.fwdW_mono_fp,
              YeoJohnson.fwd_mono_fp, LogSinh.fwd_mono_fp, Reciprocal.fwd_mono_fp, Sinh.fwd_mono_fp,
              Manly.fwd_mono_fp
    outside:  strict over the reals on each domain, across the junction for BoxCox2sym; for Yeo-Johnson across w =
              EPS only up to 3 EPS^2 (proved necessary: not_strictMono_lam_three) - that allowance and float
              equality 'within rounding' are judged by the ordered-pair oracle with the evaluation-error slack. 'x1
              < x2 implies forward(x1) <= forward(x2)' is now also a theorem about the ROUNDED evaluation
              (X.fwd_mono_fp, no allowance), under the monotone-library assumption; what stays with the oracle is
              that assumption itself (numpy / libm) and Yeo-Johnson pairs across w = EPS

* all parameter vectors as in C01 - including objects reused across parameter re-assignments (any history), unset
  constants
    theorems: BoxCox1lam.state_jacobian_eq, BoxCox1nu.state_jacobian_eq, BoxCox2sym.state_jacobian_eq,
              BoxCox1lam.state_jacobianArr_eq, BoxCox1nu.state_jacobianArr_eq, BoxCox2sym.state_jacobianArr_eq,
              BoxCox1lam.jacobianArr_after_forwardArr, LogSinh.state_jacobianArr_eq, Manly.state_jacobianArr_eq,
              BoxCox1lam.state_jacobian_unset, BoxCox1nu.state_jacobian_unset, LogSinh.state_jacobian_unset,
              LogSinh.state_jacobian_set, Manly.state_jacobian_unset, Manly.state_jacobian_set, Manly.jac_lam_zero,
              history_inv, step_rejected_unchanged, mk_rejects, call_after_history, Sinh.after_history,
              YeoJohnson.after_history, Manly.after_history, LogSinh.after_history, BoxCox2sym.after_history,
              BoxCox1lam.after_history, viaGet_inv, Log.guard_wider_than_domain
    outside:  the theorems quantify over arbitrary operation lists on the modelled object (constructor guards,
              clipping, NaN / length / key tests, reset, re-synchronisation, get_transform routing): the clipping is
              no longer read back from the object but computed by the model and compared bit for bit after every
              operation (store stream). Outside: Vector's hit-bound flags, aliasing of the arrays returned by the
              getters, clone / to_dict (C12); copy.deepcopy / pickle of a Transform; in-place edits of
              t.params.values

* rejected input (Softmax: negative entry, row sum > 1 - EPS, more than two dimensions)
    theorems: Softmax.jacobian_rejects, Softmax.jacobianND_spec, publicOnArray_spec, cast_kinds
    outside:  dutils.cast is modelled for float64 / float32 / int64 arrays of any shape and python floats
              (Model/C02Hist.cast, compared with the real function); integer scalars (converted by truncation or
              rejected, depending on numpy's scalar-vs-0-d result type) are outside the quantifier and only recorded
-/
import HydroVerif.Lemmas.C02
import HydroVerif.Lemmas.C02Softmax
import HydroVerif.Lemmas.C02Hist
import HydroVerif.Lemmas.C02Round

namespace HydroVerif.C02
open HydroVerif.C01 Set Filter Topology

/-! ### Identity -/

theorem Identity.hasDerivAt (p : Identity.Params ℝ) (x : ℝ) :
    HasDerivAt (fun t => Identity.fwd p t) (Identity.jac p x) x := hasDerivAt_id x

theorem Identity.jac_pos (p : Identity.Params ℝ) (x : ℝ) : 0 < Identity.jac p x := one_pos

theorem Identity.jacobian_spec (p : Identity.Params ℝ) (x : ℝ) :
    ∃ j, Identity.jacobian p x = some j ∧ 0 < j ∧ HasDerivAt (fun t => Identity.fwd p t) j x :=
  ⟨_, rfl, Identity.jac_pos p x, Identity.hasDerivAt p x⟩

theorem Identity.strictMono (p : Identity.Params ℝ) : StrictMono (fun t => Identity.fwd p t) :=
  fun _ _ h => h

/-! ### Logit — `log(1/(1 - v) - 1)`, `v = (x - lower)/(upper - lower)`; Jacobian `1/(upper-lower)/v/(1-v)` -/

theorem Logit.hasDerivAt (p : Logit.Params ℝ) (x : ℝ) (hx : Logit.dom p x) :
    HasDerivAt (fun t => Logit.fwd p t) (Logit.jac p x) x := by
  obtain ⟨h1, h2⟩ := hx
  have hd : Logit.upper p - p.lower = Real.exp p.logdelta := by simp [Logit.upper]
  have hup : Logit.upper p = p.lower + Real.exp p.logdelta := rfl
  simp only [Logit.fwd, Logit.jac, hd, transc_log]
  have hdpos := Real.exp_pos p.logdelta
  rw [hup] at h2
  generalize Real.exp p.logdelta = d at *
  have hv0 : 0 < (x - p.lower) / d := div_pos (by linarith) hdpos
  have hv1 : (x - p.lower) / d < 1 := by rw [div_lt_one hdpos]; linarith
  have hv : HasDerivAt (fun t => (t - p.lower) / d) (1 / d) x := ((hasDerivAt_id x).sub_const _).div_const d
  have h3 : HasDerivAt (fun t => 1 - (t - p.lower) / d) (-(1 / d)) x := hv.const_sub 1
  have h4 : HasDerivAt (fun t => 1 / (1 - (t - p.lower) / d) - 1)
      ((0 * (1 - (x - p.lower) / d) - 1 * (-(1 / d))) / (1 - (x - p.lower) / d) ^ 2) x :=
    ((hasDerivAt_const x (1 : ℝ)).fun_div h3 (by linarith)).sub_const 1
  have key : ∀ v : ℝ, 0 < v → v < 1 → (1 / (1 - v) - 1 ≠ 0) ∧
      ((0 * (1 - v) - 1 * -(1 / d)) / (1 - v) ^ 2 / (1 / (1 - v) - 1) = 1 / d / v / (1 - v)) := by
    intro v hv0 hv1
    have h1v : 1 - v ≠ 0 := by linarith
    have hq : 1 / (1 - v) - 1 = v / (1 - v) := by field_simp; ring
    refine ⟨by rw [hq]; exact (div_pos hv0 (by linarith)).ne', ?_⟩
    rw [hq]
    field_simp
    ring
  exact (h4.log (key _ hv0 hv1).1).congr_deriv (key _ hv0 hv1).2

theorem Logit.jac_pos (p : Logit.Params ℝ) (x : ℝ) (hx : Logit.dom p x) : 0 < Logit.jac p x := by
  obtain ⟨h1, h2⟩ := hx
  have hd : Logit.upper p - p.lower = Real.exp p.logdelta := by simp [Logit.upper]
  have hup : Logit.upper p = p.lower + Real.exp p.logdelta := rfl
  simp only [Logit.jac, hd]
  have hdpos := Real.exp_pos p.logdelta
  rw [hup] at h2
  generalize Real.exp p.logdelta = d at *
  have hv0 : 0 < (x - p.lower) / d := div_pos (by linarith) hdpos
  have hv1 : (x - p.lower) / d < 1 := by rw [div_lt_one hdpos]; linarith
  have : 0 < 1 - (x - p.lower) / d := by linarith
  positivity

/-- the guard `lower + EPS < x < upper - EPS` lies inside the open interval -/
theorem Logit.jdom_dom (p : Logit.Params ℝ) (x : ℝ) (hx : Logit.jdom p x) : Logit.dom p x :=
  ⟨by have := hx.1; linarith [eps_pos], by have := hx.2; linarith [eps_pos]⟩

theorem Logit.jacobian_spec (p : Logit.Params ℝ) (x : ℝ) (hx : Logit.jdom p x) :
    ∃ j, Logit.jacobian p x = some j ∧ 0 < j ∧ HasDerivAt (fun t => Logit.fwd p t) j x := by
  refine ⟨Logit.jac p x, ?_, Logit.jac_pos p x (Logit.jdom_dom p x hx), Logit.hasDerivAt p x (Logit.jdom_dom p x hx)⟩
  simp only [Logit.jacobian, C01.guard, decide_eq_true hx.1, decide_eq_true hx.2, Bool.and_self, if_true]

theorem Logit.strictMonoOn (p : Logit.Params ℝ) : StrictMonoOn (fun t => Logit.fwd p t) {x | Logit.dom p x} :=
  strictMonoOn_of_hasDerivAt_pos (f' := Logit.jac p)
    (convex_of_between fun _ hx _ hy z h1 h2 =>
      show Logit.dom p z from ⟨lt_of_lt_of_le hx.1 h1, lt_of_le_of_lt h2 hy.2⟩)
    (fun x hx => Logit.hasDerivAt p x hx) (fun x hx => Logit.jac_pos p x hx)

/-! ### Log — `log(x + nu)/log(base)`; the Jacobian `1/(x + nu)/log(base)` is the derivative for every base,
and positive exactly when `log(base) > 0` (natural logarithm, or `base > 1`) -/

theorem Log.hasDerivAt (p : Log.Params ℝ) (x : ℝ) (hx : Log.dom p x) :
    HasDerivAt (fun t => Log.fwd p t) (Log.jac p x) x := by
  simp only [Log.fwd, Log.jac, transc_log]
  have h := (hasDerivAt_bclog ((hasDerivAt_id x).add_const p.nu) hx).div_const (Log.bf p)
  refine h.congr_deriv ?_
  simp

/-- `basefactor > 0` for the natural logarithm and for every base above 1 -/
theorem Log.bf_pos (p : Log.Params ℝ) (h : ∀ b, p.base = some b → 1 < b) : 0 < Log.bf p := by
  unfold Log.bf
  cases hb : p.base with
  | none => simp
  | some b => simp only [transc_log]; exact Real.log_pos (h b hb)

theorem Log.jac_pos (p : Log.Params ℝ) (x : ℝ) (hb : 0 < Log.bf p) (hx : Log.dom p x) : 0 < Log.jac p x := by
  unfold Log.dom at hx
  simp only [Log.jac]
  positivity

/-- the hypothesis on the base is forced: for `0 < base < 1` (accepted by the constructor) the Jacobian is negative
on the whole domain — the transform is decreasing (known finding `Log/positive/base_below_one`) -/
theorem Log.jac_neg_of_base_lt_one (p : Log.Params ℝ) (x b : ℝ) (hb : p.base = some b) (hb0 : 0 < b) (hb1 : b < 1)
    (hx : Log.dom p x) : Log.jac p x < 0 := by
  unfold Log.dom at hx
  have hbf : Log.bf p < 0 := by
    simp only [Log.bf, hb, transc_log]; exact Real.log_neg hb0 hb1
  simp only [Log.jac]
  exact div_neg_of_pos_of_neg (by positivity) hbf

theorem Log.jacobian_spec (p : Log.Params ℝ) (x : ℝ) (hb : 0 < Log.bf p) (hx : Log.dom p x) (hj : Log.jdom p x) :
    ∃ j, Log.jacobian p x = some j ∧ 0 < j ∧ HasDerivAt (fun t => Log.fwd p t) j x := by
  refine ⟨Log.jac p x, ?_, Log.jac_pos p x hb hx, Log.hasDerivAt p x hx⟩
  have hj' : p.mininu < x + p.nu := hj
  simp only [Log.jacobian, C01.guard, decide_eq_true hj', if_true]

/-- with the parameter inside its bound (`nu ≥ mininu`) and `mininu ≥ 0` (every default), the guard alone suffices -/
theorem Log.dom_of_jdom (p : Log.Params ℝ) (x : ℝ) (hm : 0 ≤ p.mininu) (hj : Log.jdom p x) : Log.dom p x :=
  lt_of_le_of_lt hm hj

theorem Log.strictMonoOn (p : Log.Params ℝ) (hb : 0 < Log.bf p) :
    StrictMonoOn (fun t => Log.fwd p t) {x | Log.dom p x} :=
  strictMonoOn_of_hasDerivAt_pos (f' := Log.jac p)
    (convex_of_between fun x hx _ _ z h1 _ => by
      have : 0 < x + p.nu := hx
      show 0 < z + p.nu
      linarith)
    (fun x hx => Log.hasDerivAt p x hx) (fun x hx => Log.jac_pos p x hb hx)

/-! ### BoxCox2 — power branch `((x+nu)^lam - 1)/lam` with Jacobian `(x+nu)^(lam-1)` (`abs(lam) > EPS`), logarithm
branch with Jacobian `1/(x+nu)` (otherwise, incl. `lam = 0`) -/

theorem BoxCox2.hasDerivAt (p : BoxCox2.Params ℝ) (x : ℝ) (hx : BoxCox2.dom p x) :
    HasDerivAt (fun t => BoxCox2.fwd p t) (BoxCox2.jac p x) x := by
  unfold BoxCox2.dom at hx
  have hg : HasDerivAt (fun t : ℝ => t + p.nu) 1 x := (hasDerivAt_id x).add_const p.nu
  unfold BoxCox2.fwd BoxCox2.jac
  cases h : lamBig p.lam with
  | true =>
    simp only [if_true, transc_pow]
    exact (hasDerivAt_bcpow hg hx (lamBig_true h)).congr_deriv (by ring)
  | false =>
    simp only [Bool.false_eq_true, if_false, transc_log]
    exact (hasDerivAt_bclog hg hx).congr_deriv (by ring)

theorem BoxCox2.jac_pos (p : BoxCox2.Params ℝ) (x : ℝ) (hx : BoxCox2.dom p x) : 0 < BoxCox2.jac p x := by
  unfold BoxCox2.dom at hx
  unfold BoxCox2.jac
  cases h : lamBig p.lam with
  | true => simp only [if_true, transc_pow]; exact Real.rpow_pos_of_pos hx _
  | false => simp only [Bool.false_eq_true, if_false]; positivity

/-- where `_jacobian` returns a number (`x + nu > mininu`) inside the domain of the formula (`x + nu > 0`) -/
theorem BoxCox2.jacobian_spec (p : BoxCox2.Params ℝ) (x : ℝ) (hx : BoxCox2.dom p x) (hj : BoxCox2.jdom p x) :
    ∃ j, BoxCox2.jacobian p x = some j ∧ 0 < j ∧ HasDerivAt (fun t => BoxCox2.fwd p t) j x := by
  refine ⟨BoxCox2.jac p x, ?_, BoxCox2.jac_pos p x hx, BoxCox2.hasDerivAt p x hx⟩
  have hj' : p.mininu < x + p.nu := hj
  simp only [BoxCox2.jacobian, C01.guard, decide_eq_true hj', if_true]

theorem BoxCox2.dom_of_jdom (p : BoxCox2.Params ℝ) (x : ℝ) (hm : 0 ≤ p.mininu) (hj : BoxCox2.jdom p x) :
    BoxCox2.dom p x := lt_of_le_of_lt hm hj

/-- outside the guard the Jacobian is NaN, never a wrong number -/
theorem BoxCox2.jacobian_none (p : BoxCox2.Params ℝ) (x : ℝ) (hj : ¬ BoxCox2.jdom p x) :
    BoxCox2.jacobian p x = none := by
  have hj' : ¬ p.mininu < x + p.nu := hj
  simp only [BoxCox2.jacobian, C01.guard, decide_eq_false hj', Bool.false_eq_true, if_false]

theorem BoxCox2.strictMonoOn (p : BoxCox2.Params ℝ) :
    StrictMonoOn (fun t => BoxCox2.fwd p t) {x | BoxCox2.dom p x} :=
  fun _ hx _ _ hxy => BoxCox2.fwd_lt p hx hxy

/-! ### BoxCox1lam / BoxCox1nu — `_jacobian` re-synchronises the inner BoxCox2 and delegates -/

theorem BoxCox1lam.jacobian_spec (p : BoxCox1lam.Params ℝ) (x : ℝ) (hx : 0 < x + p.nu) (hj : p.mininu < x + p.nu) :
    ∃ j, BoxCox1lam.jacobian p x = some j ∧ 0 < j ∧ HasDerivAt (fun t => BoxCox1lam.fwd p t) j x :=
  BoxCox2.jacobian_spec (BoxCox1lam.toBC p) x hx hj

theorem BoxCox1lam.strictMonoOn (p : BoxCox1lam.Params ℝ) :
    StrictMonoOn (fun t => BoxCox1lam.fwd p t) {x | 0 < x + p.nu} :=
  BoxCox2.strictMonoOn (BoxCox1lam.toBC p)

/-- whatever the inner object held before the call (any history), `jacobian` first copies the current `nu`, `lam`
into it: the result is BoxCox2's Jacobian at the current parameters -/
theorem BoxCox1lam.state_jacobian_eq (s : BoxCox1lam.State ℝ) (nu x : ℝ) (hnu : s.nu = some nu) :
    BoxCox1lam.State.jacobian s x =
      .ok (⟨s.lam, some nu, ⟨nu, s.lam, s.bc.mininu⟩⟩, BoxCox1lam.jacobian ⟨s.lam, nu, s.bc.mininu⟩ x) := by
  cases s with
  | mk lam nu' bc => cases hnu; rfl

theorem BoxCox1lam.state_jacobian_unset (s : BoxCox1lam.State ℝ) (x : ℝ) (hnu : s.nu = none) :
    BoxCox1lam.State.jacobian s x = .error .nuUnset := by
  cases s with
  | mk lam nu' bc => cases hnu; rfl

theorem BoxCox1nu.jacobian_spec (p : BoxCox1nu.Params ℝ) (x : ℝ) (hx : 0 < x + p.nu) (hj : p.mininu < x + p.nu) :
    ∃ j, BoxCox1nu.jacobian p x = some j ∧ 0 < j ∧ HasDerivAt (fun t => BoxCox1nu.fwd p t) j x :=
  BoxCox2.jacobian_spec (BoxCox1nu.toBC p) x hx hj

theorem BoxCox1nu.strictMonoOn (p : BoxCox1nu.Params ℝ) :
    StrictMonoOn (fun t => BoxCox1nu.fwd p t) {x | 0 < x + p.nu} :=
  BoxCox2.strictMonoOn (BoxCox1nu.toBC p)

theorem BoxCox1nu.state_jacobian_eq (s : BoxCox1nu.State ℝ) (lam x : ℝ) (hlam : s.lam = some lam) :
    BoxCox1nu.State.jacobian s x =
      .ok (⟨s.nu, some lam, ⟨s.nu, lam, s.bc.mininu⟩⟩, BoxCox1nu.jacobian ⟨s.nu, lam, s.bc.mininu⟩ x) := by
  cases s with
  | mk nu lam' bc => cases hlam; rfl

theorem BoxCox1nu.state_jacobian_unset (s : BoxCox1nu.State ℝ) (x : ℝ) (hlam : s.lam = none) :
    BoxCox1nu.State.jacobian s x = .error .lamUnset := by
  cases s with
  | mk nu lam' bc => cases hlam; rfl

/-! ### Reciprocal — `-1/(nu + x)`, Jacobian `1/(nu + x)²` -/

theorem Reciprocal.hasDerivAt (p : Reciprocal.Params ℝ) (x : ℝ) (hx : Reciprocal.dom p x) :
    HasDerivAt (fun t => Reciprocal.fwd p t) (Reciprocal.jac p x) x := by
  unfold Reciprocal.dom at hx
  have hs : p.nu + x ≠ 0 := by linarith
  simp only [Reciprocal.fwd, Reciprocal.jac]
  have h : HasDerivAt (fun t => -1 / (p.nu + t)) ((0 * (p.nu + x) - -1 * 1) / (p.nu + x) ^ 2) x :=
    (hasDerivAt_const x (-1 : ℝ)).fun_div ((hasDerivAt_id x).const_add p.nu) hs
  refine h.congr_deriv ?_
  field_simp
  ring

theorem Reciprocal.jac_pos (p : Reciprocal.Params ℝ) (x : ℝ) (hx : Reciprocal.dom p x) : 0 < Reciprocal.jac p x := by
  unfold Reciprocal.dom at hx
  have hs : 0 < p.nu + x := by linarith
  simp only [Reciprocal.jac]
  positivity

theorem Reciprocal.jacobian_spec (p : Reciprocal.Params ℝ) (x : ℝ) (hx : Reciprocal.jdom p x) :
    ∃ j, Reciprocal.jacobian p x = some j ∧ 0 < j ∧ HasDerivAt (fun t => Reciprocal.fwd p t) j x := by
  have hx' : -p.nu < x := hx
  refine ⟨Reciprocal.jac p x, ?_, Reciprocal.jac_pos p x hx', Reciprocal.hasDerivAt p x hx'⟩
  simp only [Reciprocal.jacobian, C01.guard, decide_eq_true hx', if_true]

theorem Reciprocal.strictMonoOn (p : Reciprocal.Params ℝ) :
    StrictMonoOn (fun t => Reciprocal.fwd p t) {x | Reciprocal.dom p x} :=
  strictMonoOn_of_hasDerivAt_pos (f' := Reciprocal.jac p)
    (convex_of_between fun x hx _ _ z h1 _ => by
      have : -p.nu < x := hx
      show -p.nu < z
      linarith)
    (fun x hx => Reciprocal.hasDerivAt p x hx) (fun x hx => Reciprocal.jac_pos p x hx)

/-! ### Sinh — `arcsinh((x - nu) scale)`, Jacobian `scale / sqrt(1 + u²)`; all of ℝ -/

theorem Sinh.hasDerivAt (p : Sinh.Params ℝ) (x : ℝ) :
    HasDerivAt (fun t => Sinh.fwd p t) (Sinh.jac p x) x := by
  simp only [Sinh.fwd, Sinh.jac, transc_asinh, transc_sqrt]
  have hu : HasDerivAt (fun t => (t - p.nu) * p.scale) (1 * p.scale) x :=
    ((hasDerivAt_id x).sub_const p.nu).mul_const p.scale
  have h := (Real.hasDerivAt_arsinh ((x - p.nu) * p.scale)).comp x hu
  refine h.congr_deriv ?_
  rw [show (x - p.nu) * p.scale * ((x - p.nu) * p.scale) = ((x - p.nu) * p.scale) ^ 2 by ring]
  ring

theorem Sinh.jac_pos (p : Sinh.Params ℝ) (x : ℝ) (hp : Sinh.admissible p) : 0 < Sinh.jac p x := by
  have hs := Sinh.scale_pos p hp
  simp only [Sinh.jac, transc_sqrt]
  have : 0 < 1 + (x - p.nu) * p.scale * ((x - p.nu) * p.scale) := by nlinarith [mul_self_nonneg ((x - p.nu) * p.scale)]
  exact div_pos hs (Real.sqrt_pos.mpr this)

theorem Sinh.jacobian_spec (p : Sinh.Params ℝ) (x : ℝ) (hp : Sinh.admissible p) :
    ∃ j, Sinh.jacobian p x = some j ∧ 0 < j ∧ HasDerivAt (fun t => Sinh.fwd p t) j x :=
  ⟨_, rfl, Sinh.jac_pos p x hp, Sinh.hasDerivAt p x⟩

theorem Sinh.strictMono (p : Sinh.Params ℝ) (hp : Sinh.admissible p) : StrictMono (fun t => Sinh.fwd p t) := by
  rw [← strictMonoOn_univ]
  exact strictMonoOn_of_hasDerivAt_pos (f' := Sinh.jac p) convex_univ
    (fun x _ => Sinh.hasDerivAt p x) (fun x _ => Sinh.jac_pos p x hp)

/-- the repaired code (`scale / np.hypot(1., u)`, model `Sinh.jacH`: no `u*u`, hence no overflow to a zero Jacobian in
doubles) is the same real function as `Sinh.jac`: every Sinh theorem above holds for it verbatim -/
theorem Sinh.jacH_eq_jac (p : Sinh.Params ℝ) (x : ℝ) : C02.Sinh.jacH p x = Sinh.jac p x := by
  simp only [C02.Sinh.jacH, C02.Sinh.hypot1, Sinh.jac, transc_sqrt, absv_eq]
  generalize (x - p.nu) * p.scale = u
  congr 1
  split_ifs with h
  · have hpos : 0 < |u| := by linarith
    have e : 1 + u * u = |u| * |u| * (1 + 1 / |u| * (1 / |u|)) := by
      have : |u| * |u| = u * u := abs_mul_abs_self u
      field_simp
      linarith
    rw [e, Real.sqrt_mul (mul_self_nonneg _), Real.sqrt_mul_self hpos.le]
  · rfl

theorem Sinh.jacobianH_spec (p : Sinh.Params ℝ) (x : ℝ) (hp : Sinh.admissible p) :
    ∃ j, C02.Sinh.jacobianH p x = some j ∧ 0 < j ∧ HasDerivAt (fun t => Sinh.fwd p t) j x :=
  ⟨_, rfl, by rw [Sinh.jacH_eq_jac]; exact Sinh.jac_pos p x hp, by rw [Sinh.jacH_eq_jac]; exact Sinh.hasDerivAt p x⟩

/-! ### Manly (repaired branch test) — `(exp(lam x/xmax) - 1)/lam` with Jacobian `exp(lam x/xmax)/xmax`
(`abs(lam) > EPS`), `x/xmax` with Jacobian `1/xmax` (otherwise, incl. `lam = 0`) -/

theorem Manly.hasDerivAt (p : Manly.Params ℝ) (x : ℝ) :
    HasDerivAt (fun t => Manly.fwd p t) (Manly.jac p x) x := by
  have hu : HasDerivAt (fun t : ℝ => t / p.xmax) (1 / p.xmax) x := (hasDerivAt_id x).div_const p.xmax
  unfold Manly.fwd Manly.jac
  cases h : lamBig p.lam with
  | true =>
    have hl := lamBig_true h
    simp only [if_true, transc_exp]
    have h1 : HasDerivAt (fun t => (Real.exp (p.lam * (t / p.xmax)) - 1) / p.lam)
        (Real.exp (p.lam * (x / p.xmax)) * (p.lam * (1 / p.xmax)) / p.lam) x :=
      (((hu.const_mul p.lam).exp).sub_const 1).div_const p.lam
    refine h1.congr_deriv ?_
    field_simp
  | false =>
    simp only [Bool.false_eq_true, if_false]
    exact hu

theorem Manly.jac_pos (p : Manly.Params ℝ) (x : ℝ) (hp : Manly.admissible p) : 0 < Manly.jac p x := by
  have hxm := Manly.xmax_pos p hp
  unfold Manly.jac
  cases h : lamBig p.lam with
  | true => simp only [if_true, transc_exp]; exact div_pos (Real.exp_pos _) hxm
  | false => simp only [Bool.false_eq_true, if_false]; positivity

theorem Manly.jacobian_spec (p : Manly.Params ℝ) (x : ℝ) (hp : Manly.admissible p) :
    ∃ j, Manly.jacobian p x = some j ∧ 0 < j ∧ HasDerivAt (fun t => Manly.fwd p t) j x :=
  ⟨_, rfl, Manly.jac_pos p x hp, Manly.hasDerivAt p x⟩

theorem Manly.strictMono (p : Manly.Params ℝ) (hp : Manly.admissible p) : StrictMono (fun t => Manly.fwd p t) := by
  rw [← strictMonoOn_univ]
  exact strictMonoOn_of_hasDerivAt_pos (f' := Manly.jac p) convex_univ
    (fun x _ => Manly.hasDerivAt p x) (fun x _ => Manly.jac_pos p x hp)

/-- `lam = 0` exactly takes the identity branch: Jacobian `1/xmax` (the pinned code raised AttributeError) -/
theorem Manly.jac_lam_zero (xmax x : ℝ) : Manly.jac ⟨0, xmax⟩ x = 1 / xmax := by
  have h : lamBig (0 : ℝ) = false := by
    unfold lamBig; rw [decide_eq_false_iff_not, absv_eq, abs_zero]; exact not_lt.mpr eps_pos.le
  simp [Manly.jac, h]

theorem Manly.state_jacobian_unset (s : Manly.State ℝ) (x : ℝ) (h : s.xmax = none) :
    Manly.State.jacobian s x = .error .xmaxUnset := by
  cases s with
  | mk l xm => cases h; rfl

theorem Manly.state_jacobian_set (s : Manly.State ℝ) (x xm : ℝ) (h : s.xmax = some xm) :
    Manly.State.jacobian s x = .ok (Manly.jacobian ⟨s.lam, xm⟩ x) := by
  cases s with
  | mk l xm' => cases h; rfl

/-! ### LogSinh — `(w + log((1 - exp(-2w))/2))/b`, `w = a + b x/xmax`; Jacobian `(1/xmax) / tanh(w)` -/

theorem LogSinh.hasDerivAt (p : LogSinh.Params ℝ) (x : ℝ) (hp : LogSinh.admissible p) (hx : LogSinh.dom p x) :
    HasDerivAt (fun t => LogSinh.fwd p t) (LogSinh.jac p x) x := by
  have hxm := (LogSinh.xmax_pos p hp).ne'
  have hb : LogSinh.b p ≠ 0 := (Real.exp_pos _).ne'
  have hw := LogSinh.w_pos p x hx
  simp only [LogSinh.fwd, LogSinh.jac, transc_log, transc_exp, transc_tanh]
  have hg : HasDerivAt (fun t => LogSinh.a p + LogSinh.b p * (t / p.xmax)) (LogSinh.b p * (1 / p.xmax)) x :=
    (((hasDerivAt_id x).div_const p.xmax).const_mul (LogSinh.b p)).const_add (LogSinh.a p)
  have h := (hasDerivAt_logsinh_core hg hw).div_const (LogSinh.b p)
  refine h.congr_deriv ?_
  field_simp

theorem LogSinh.jac_pos (p : LogSinh.Params ℝ) (x : ℝ) (hp : LogSinh.admissible p) (hx : LogSinh.dom p x) :
    0 < LogSinh.jac p x := by
  have hxm := LogSinh.xmax_pos p hp
  have hw := LogSinh.w_pos p x hx
  simp only [LogSinh.jac, transc_tanh]
  have := tanh_pos hw
  positivity

theorem LogSinh.jacobian_spec (p : LogSinh.Params ℝ) (x : ℝ) (hp : LogSinh.admissible p) (hx : LogSinh.dom p x) :
    ∃ j, LogSinh.jacobian p x = some j ∧ 0 < j ∧ HasDerivAt (fun t => LogSinh.fwd p t) j x := by
  refine ⟨LogSinh.jac p x, ?_, LogSinh.jac_pos p x hp hx, LogSinh.hasDerivAt p x hp hx⟩
  have hx' : LogSinh.inDom p x = true := hx
  simp only [LogSinh.jacobian, C01.guard, hx', if_true]

theorem LogSinh.strictMonoOn (p : LogSinh.Params ℝ) (hp : LogSinh.admissible p) :
    StrictMonoOn (fun t => LogSinh.fwd p t) {x | LogSinh.dom p x} := by
  have hxm := LogSinh.xmax_pos p hp
  refine strictMonoOn_of_hasDerivAt_pos (f' := LogSinh.jac p) (convex_of_between ?_)
    (fun x hx => LogSinh.hasDerivAt p x hp hx) (fun x hx => LogSinh.jac_pos p x hp hx)
  intro x hx _ _ z h1 _
  have hx' : LogSinh.inDom p x = true := hx
  show LogSinh.inDom p z = true
  unfold LogSinh.inDom at hx' ⊢
  rw [decide_eq_true_iff] at hx' ⊢
  have : x / p.xmax ≤ z / p.xmax := div_le_div_of_nonneg_right h1 hxm.le
  linarith

theorem LogSinh.state_jacobian_unset (s : LogSinh.State ℝ) (x : ℝ) (h : s.xmax = none) :
    LogSinh.State.jacobian s x = .error .xmaxUnset := by
  cases s with
  | mk a b xm => cases h; rfl

theorem LogSinh.state_jacobian_set (s : LogSinh.State ℝ) (x xm : ℝ) (h : s.xmax = some xm) :
    LogSinh.State.jacobian s x = .ok (LogSinh.jacobian ⟨s.loga, s.logb, xm⟩ x) := by
  cases s with
  | mk a b xm' => cases h; rfl

/-! ### outside its guard `_jacobian` is NaN, never a wrong number (all guarded classes), and the guarded `forward`
of LogSinh / Reciprocal is the raw formula exactly on the domain -/

theorem Logit.jacobian_none (p : Logit.Params ℝ) (x : ℝ) (hj : ¬ Logit.jdom p x) : Logit.jacobian p x = none := by
  unfold Logit.jdom at hj
  simp only [Logit.jacobian, C01.guard]
  rw [if_neg]
  simpa only [Bool.and_eq_true, decide_eq_true_iff] using hj

theorem Log.jacobian_none (p : Log.Params ℝ) (x : ℝ) (hj : ¬ Log.jdom p x) : Log.jacobian p x = none := by
  have hj' : ¬ p.mininu < x + p.nu := hj
  simp only [Log.jacobian, C01.guard, decide_eq_false hj', Bool.false_eq_true, if_false]

theorem Reciprocal.jacobian_none (p : Reciprocal.Params ℝ) (x : ℝ) (hj : ¬ Reciprocal.jdom p x) :
    Reciprocal.jacobian p x = none := by
  have hj' : ¬ -p.nu < x := hj
  simp only [Reciprocal.jacobian, C01.guard, decide_eq_false hj', Bool.false_eq_true, if_false]

theorem LogSinh.jacobian_none (p : LogSinh.Params ℝ) (x : ℝ) (hj : ¬ LogSinh.dom p x) :
    LogSinh.jacobian p x = none := by
  have hj' : LogSinh.inDom p x = false := by simpa [LogSinh.dom] using hj
  simp only [LogSinh.jacobian, C01.guard, hj', Bool.false_eq_true, if_false]

theorem BoxCox2sym.jacobian_none (p : BoxCox2sym.Params ℝ) (x : ℝ) (hj : ¬ p.mininu < |x| + p.nu) :
    BoxCox2sym.jacobian p x = none := by
  have hj' : ¬ (BoxCox2sym.toBC p).mininu < absv x + (BoxCox2sym.toBC p).nu := by
    simpa only [BoxCox2sym.toBC, absv_eq] using hj
  simp only [BoxCox2sym.jacobian, BoxCox2.jacobian, C01.guard, decide_eq_false hj', Bool.false_eq_true, if_false]

theorem BoxCox1lam.jacobian_none (p : BoxCox1lam.Params ℝ) (x : ℝ) (hj : ¬ p.mininu < x + p.nu) :
    BoxCox1lam.jacobian p x = none := BoxCox2.jacobian_none (BoxCox1lam.toBC p) x hj

theorem BoxCox1nu.jacobian_none (p : BoxCox1nu.Params ℝ) (x : ℝ) (hj : ¬ p.mininu < x + p.nu) :
    BoxCox1nu.jacobian p x = none := BoxCox2.jacobian_none (BoxCox1nu.toBC p) x hj

/-- the function whose derivative `LogSinh.hasDerivAt` takes is what `forward` returns on the domain (NaN outside) -/
theorem LogSinh.forward_eq (p : LogSinh.Params ℝ) (x : ℝ) :
    (LogSinh.dom p x → LogSinh.forward p x = some (LogSinh.fwd p x)) ∧
    (¬ LogSinh.dom p x → LogSinh.forward p x = none) := by
  constructor
  · intro h
    have h' : LogSinh.inDom p x = true := h
    simp only [LogSinh.forward, C01.guard, h', if_true]
  · intro h
    have h' : LogSinh.inDom p x = false := by simpa [LogSinh.dom] using h
    simp only [LogSinh.forward, C01.guard, h', Bool.false_eq_true, if_false]

theorem Reciprocal.forward_eq (p : Reciprocal.Params ℝ) (x : ℝ) :
    (Reciprocal.dom p x → Reciprocal.forward p x = some (Reciprocal.fwd p x)) ∧
    (¬ Reciprocal.dom p x → Reciprocal.forward p x = none) := by
  constructor
  · intro h
    have h' : -p.nu < x := h
    simp only [Reciprocal.forward, C01.guard, decide_eq_true h', if_true]
  · intro h
    have h' : ¬ -p.nu < x := h
    simp only [Reciprocal.forward, C01.guard, decide_eq_false h', Bool.false_eq_true, if_false]

/-! ### BoxCox2sym — odd extension `sign(x) (BC(|x|) - BC(0))`, Jacobian `BC'(|x|)`: the derivative on each
half-line, and — because both one-sided derivatives at 0 equal `BC'(0)` — also at `x = 0` when `nu > 0` -/

theorem BoxCox2sym.hasDerivAt_of_pos (p : BoxCox2sym.Params ℝ) (x : ℝ) (hx : 0 < x) (hd : 0 < x + p.nu) :
    HasDerivAt (fun t => BoxCox2sym.fwd p t) (BoxCox2sym.jac p x) x := by
  have hB : HasDerivAt (fun t => BoxCox2.fwd (BoxCox2sym.toBC p) t - BoxCox2sym.y0 p)
      (BoxCox2.jac (BoxCox2sym.toBC p) x) x := (BoxCox2.hasDerivAt (BoxCox2sym.toBC p) x hd).sub_const _
  have hev : (fun t => BoxCox2sym.fwd p t) =ᶠ[𝓝 x]
      fun t => BoxCox2.fwd (BoxCox2sym.toBC p) t - BoxCox2sym.y0 p := by
    filter_upwards [eventually_gt_nhds hx] with t ht
    exact BoxCox2sym.fwd_of_pos p ht
  have h := hB.congr_of_eventuallyEq hev
  simpa only [BoxCox2sym.jac, absv_eq, abs_of_pos hx] using h

theorem BoxCox2sym.hasDerivAt_of_neg (p : BoxCox2sym.Params ℝ) (x : ℝ) (hx : x < 0) (hd : 0 < -x + p.nu) :
    HasDerivAt (fun t => BoxCox2sym.fwd p t) (BoxCox2sym.jac p x) x := by
  have hB0 : HasDerivAt (fun t => BoxCox2.fwd (BoxCox2sym.toBC p) t) (BoxCox2.jac (BoxCox2sym.toBC p) (-x)) (-x) :=
    BoxCox2.hasDerivAt (BoxCox2sym.toBC p) (-x) hd
  have hB1 : HasDerivAt (fun t => BoxCox2.fwd (BoxCox2sym.toBC p) (-t))
      (BoxCox2.jac (BoxCox2sym.toBC p) (-x) * -1) x := hB0.comp x (hasDerivAt_neg' x)
  have hB : HasDerivAt (fun t => -(BoxCox2.fwd (BoxCox2sym.toBC p) (-t) - BoxCox2sym.y0 p))
      (-(BoxCox2.jac (BoxCox2sym.toBC p) (-x) * -1)) x := (hB1.sub_const _).neg
  have hev : (fun t => BoxCox2sym.fwd p t) =ᶠ[𝓝 x]
      fun t => -(BoxCox2.fwd (BoxCox2sym.toBC p) (-t) - BoxCox2sym.y0 p) := by
    filter_upwards [eventually_lt_nhds hx] with t ht
    exact BoxCox2sym.fwd_of_neg p ht
  have h := (hB.congr_of_eventuallyEq hev).congr_deriv (by ring : _ = BoxCox2.jac (BoxCox2sym.toBC p) (-x))
  simpa only [BoxCox2sym.jac, absv_eq, abs_of_neg hx] using h

/-- the junction: at `x = 0` the two one-sided derivatives coincide (`nu > 0`) -/
theorem BoxCox2sym.hasDerivAt_zero (p : BoxCox2sym.Params ℝ) (hnu : 0 < p.nu) :
    HasDerivAt (fun t => BoxCox2sym.fwd p t) (BoxCox2sym.jac p 0) 0 := by
  have hd : BoxCox2.dom (BoxCox2sym.toBC p) 0 := by
    simp only [BoxCox2.dom, BoxCox2sym.toBC, zero_add]; exact hnu
  have hB0 := BoxCox2.hasDerivAt (BoxCox2sym.toBC p) 0 hd
  have hj : BoxCox2sym.jac p 0 = BoxCox2.jac (BoxCox2sym.toBC p) 0 := by
    simp only [BoxCox2sym.jac, absv_eq, abs_zero]
  rw [hj]
  have hy0 : BoxCox2sym.y0 p = BoxCox2.fwd (BoxCox2sym.toBC p) 0 := rfl
  have hr : HasDerivWithinAt (fun t => BoxCox2sym.fwd p t) (BoxCox2.jac (BoxCox2sym.toBC p) 0) (Ici 0) 0 := by
    have h1 : HasDerivAt (fun t => BoxCox2.fwd (BoxCox2sym.toBC p) t - BoxCox2sym.y0 p)
        (BoxCox2.jac (BoxCox2sym.toBC p) 0) 0 := hB0.sub_const _
    refine h1.hasDerivWithinAt.congr (fun t ht => ?_) ?_
    · rcases eq_or_lt_of_le (show (0 : ℝ) ≤ t from ht) with h | h
      · subst h; rw [BoxCox2sym.fwd_zero, hy0, sub_self]
      · exact BoxCox2sym.fwd_of_pos p h
    · rw [BoxCox2sym.fwd_zero, hy0, sub_self]
  have hl : HasDerivWithinAt (fun t => BoxCox2sym.fwd p t) (BoxCox2.jac (BoxCox2sym.toBC p) 0) (Iic 0) 0 := by
    have h1 : HasDerivAt (fun t => BoxCox2.fwd (BoxCox2sym.toBC p) (-t))
        (BoxCox2.jac (BoxCox2sym.toBC p) 0 * -1) 0 :=
      HasDerivAt.comp_of_eq (h := fun t : ℝ => -t) 0 hB0 (hasDerivAt_neg' 0) (by simp)
    have h2 : HasDerivAt (fun t => -(BoxCox2.fwd (BoxCox2sym.toBC p) (-t) - BoxCox2sym.y0 p))
        (BoxCox2.jac (BoxCox2sym.toBC p) 0) 0 :=
      ((h1.sub_const _).neg).congr_deriv (by ring)
    refine h2.hasDerivWithinAt.congr (fun t ht => ?_) ?_
    · rcases eq_or_lt_of_le (show t ≤ (0 : ℝ) from ht) with h | h
      · subst h; rw [BoxCox2sym.fwd_zero, neg_zero, hy0, sub_self, neg_zero]
      · exact BoxCox2sym.fwd_of_neg p h
    · rw [BoxCox2sym.fwd_zero, neg_zero, hy0, sub_self, neg_zero]
  have hu := hl.union hr
  rwa [Iic_union_Ici, hasDerivWithinAt_univ] at hu

/-- every `x` when `nu > 0` -/
theorem BoxCox2sym.hasDerivAt (p : BoxCox2sym.Params ℝ) (x : ℝ) (hnu : 0 < p.nu) :
    HasDerivAt (fun t => BoxCox2sym.fwd p t) (BoxCox2sym.jac p x) x := by
  rcases lt_trichotomy x 0 with h | h | h
  · exact BoxCox2sym.hasDerivAt_of_neg p x h (by linarith)
  · subst h; exact BoxCox2sym.hasDerivAt_zero p hnu
  · exact BoxCox2sym.hasDerivAt_of_pos p x h (by linarith)

theorem BoxCox2sym.jac_pos (p : BoxCox2sym.Params ℝ) (x : ℝ) (hd : 0 < |x| + p.nu) : 0 < BoxCox2sym.jac p x := by
  simp only [BoxCox2sym.jac, absv_eq]
  exact BoxCox2.jac_pos (BoxCox2sym.toBC p) |x| hd

/-- where `_jacobian` returns a number: `|x| + nu > mininu` -/
theorem BoxCox2sym.jacobian_spec (p : BoxCox2sym.Params ℝ) (x : ℝ) (hnu : 0 < p.nu) (hj : p.mininu < |x| + p.nu) :
    ∃ j, BoxCox2sym.jacobian p x = some j ∧ 0 < j ∧ HasDerivAt (fun t => BoxCox2sym.fwd p t) j x := by
  have hd : 0 < |x| + p.nu := by positivity
  refine ⟨BoxCox2sym.jac p x, ?_, BoxCox2sym.jac_pos p x hd, BoxCox2sym.hasDerivAt p x hnu⟩
  have hj' : (BoxCox2sym.toBC p).mininu < absv x + (BoxCox2sym.toBC p).nu := by
    simpa only [BoxCox2sym.toBC, absv_eq] using hj
  simp only [BoxCox2sym.jacobian, BoxCox2.jacobian, C01.guard, decide_eq_true hj', if_true, BoxCox2sym.jac]

/-- `nu = 0` (constructor option `mininu = 0`), away from 0 -/
theorem BoxCox2sym.jacobian_spec_nu_zero (p : BoxCox2sym.Params ℝ) (x : ℝ) (hnu : p.nu = 0) (hx : x ≠ 0)
    (hj : p.mininu < |x| + p.nu) :
    ∃ j, BoxCox2sym.jacobian p x = some j ∧ 0 < j ∧ HasDerivAt (fun t => BoxCox2sym.fwd p t) j x := by
  have hd : 0 < |x| + p.nu := by rw [hnu, add_zero]; exact abs_pos.mpr hx
  refine ⟨BoxCox2sym.jac p x, ?_, BoxCox2sym.jac_pos p x hd, ?_⟩
  · have hj' : (BoxCox2sym.toBC p).mininu < absv x + (BoxCox2sym.toBC p).nu := by
      simpa only [BoxCox2sym.toBC, absv_eq] using hj
    simp only [BoxCox2sym.jacobian, BoxCox2.jacobian, C01.guard, decide_eq_true hj', if_true, BoxCox2sym.jac]
  · rcases lt_or_gt_of_ne hx with h | h
    · exact BoxCox2sym.hasDerivAt_of_neg p x h (by rw [hnu]; linarith)
    · exact BoxCox2sym.hasDerivAt_of_pos p x h (by rw [hnu]; linarith)

/-- strictly increasing on all of ℝ, across the junction at 0, whenever `BC(0) < BC(t)` for `t > 0` -/
theorem BoxCox2sym.strictMono_of (p : BoxCox2sym.Params ℝ) (hnu : 0 ≤ p.nu)
    (h0 : ∀ t, 0 < t → BoxCox2sym.y0 p < BoxCox2.fwd (BoxCox2sym.toBC p) t) :
    StrictMono (fun t => BoxCox2sym.fwd p t) := by
  have hlt : ∀ s t : ℝ, 0 < s → s < t → BoxCox2.fwd (BoxCox2sym.toBC p) s < BoxCox2.fwd (BoxCox2sym.toBC p) t :=
    fun s t hs hst => BoxCox2.fwd_lt (BoxCox2sym.toBC p) (by simp only [BoxCox2sym.toBC]; linarith) hst
  intro x y hxy
  show BoxCox2sym.fwd p x < BoxCox2sym.fwd p y
  rcases lt_trichotomy x 0 with hx | hx | hx
  · rw [BoxCox2sym.fwd_of_neg p hx]
    have hxn := h0 (-x) (neg_pos.mpr hx)
    rcases lt_trichotomy y 0 with hy | hy | hy
    · rw [BoxCox2sym.fwd_of_neg p hy]
      have := hlt (-y) (-x) (neg_pos.mpr hy) (by linarith)
      linarith
    · subst hy; rw [BoxCox2sym.fwd_zero]; linarith
    · rw [BoxCox2sym.fwd_of_pos p hy]
      have := h0 y hy
      linarith
  · subst hx
    rw [BoxCox2sym.fwd_zero, BoxCox2sym.fwd_of_pos p hxy]
    have := h0 y hxy
    linarith
  · have hy : 0 < y := by linarith
    rw [BoxCox2sym.fwd_of_pos p hx, BoxCox2sym.fwd_of_pos p hy]
    have := hlt x y hx hxy
    linarith

theorem BoxCox2sym.strictMono (p : BoxCox2sym.Params ℝ) (hnu : 0 < p.nu) :
    StrictMono (fun t => BoxCox2sym.fwd p t) :=
  BoxCox2sym.strictMono_of p hnu.le fun t ht =>
    BoxCox2.fwd_lt (BoxCox2sym.toBC p) (by simpa [BoxCox2sym.toBC] using hnu) ht

/-- `nu = 0` on the power branch with `lam > 0` (`BC(0) = -1/lam`) -/
theorem BoxCox2sym.strictMono_nu_zero (p : BoxCox2sym.Params ℝ) (hnu : p.nu = 0) (hl : lamBig p.lam = true)
    (hpos : 0 < p.lam) : StrictMono (fun t => BoxCox2sym.fwd p t) := by
  refine BoxCox2sym.strictMono_of p hnu.ge fun t ht => ?_
  have hne := lamBig_true hl
  simp only [BoxCox2sym.y0, BoxCox2.fwd, BoxCox2sym.toBC, hl, if_true, transc_pow, hnu, add_zero,
    Real.zero_rpow hne]
  rw [div_lt_div_iff_of_pos_right hpos]
  have := Real.rpow_pos_of_pos ht p.lam
  linarith

theorem BoxCox2sym.state_jacobian_eq (s : BoxCox2sym.State ℝ) (x : ℝ) :
    BoxCox2sym.State.jacobian s x =
      (⟨s.nu, s.lam, ⟨s.nu, s.lam, s.bc.mininu⟩⟩, BoxCox2sym.jacobian ⟨s.nu, s.lam, s.bc.mininu⟩ x) := rfl

/-! ### Yeo-Johnson — four formulas; `w = nu + scale x`, Jacobian `jacW(lam, w) * scale`.
The derivative holds at every `x` with `w ≠ EPS` (the interior of the two branches); at `w = EPS` the two formulas
meet with a mismatch below `3 EPS²` (zero for `lam = 1`), so monotonicity is exact on either side and holds up to
that amount across the junction. -/

theorem YeoJohnson.hasDerivAt (p : YeoJohnson.Params ℝ) (x : ℝ) (hw : p.nu + x * p.scale ≠ eps) :
    HasDerivAt (fun t => YeoJohnson.fwd p t) (YeoJohnson.jac p x) x := by
  have hg : HasDerivAt (fun t => p.nu + t * p.scale) (1 * p.scale) x :=
    ((hasDerivAt_id x).mul_const p.scale).const_add p.nu
  have hW : HasDerivAt (YeoJohnson.fwdW p.lam) (YeoJohnson.jacW p.lam (p.nu + x * p.scale)) (p.nu + x * p.scale) := by
    rcases lt_or_gt_of_ne hw with h | h
    · exact YeoJohnson.hasDerivAt_fwdW_neg p.lam _ h
    · exact YeoJohnson.hasDerivAt_fwdW_pos p.lam _ h
  have h := hW.comp x hg
  exact h.congr_deriv (by simp only [YeoJohnson.jac, one_mul])

theorem YeoJohnson.jac_pos (p : YeoJohnson.Params ℝ) (x : ℝ) (hp : YeoJohnson.admissible p) :
    0 < YeoJohnson.jac p x :=
  mul_pos (YeoJohnson.jacW_pos p.lam _) (YeoJohnson.scale_pos p hp)

theorem YeoJohnson.jacobian_spec (p : YeoJohnson.Params ℝ) (x : ℝ) (hp : YeoJohnson.admissible p)
    (hw : p.nu + x * p.scale ≠ eps) :
    ∃ j, YeoJohnson.jacobian p x = some j ∧ 0 < j ∧ HasDerivAt (fun t => YeoJohnson.fwd p t) j x :=
  ⟨_, rfl, YeoJohnson.jac_pos p x hp, YeoJohnson.hasDerivAt p x hw⟩

/-- strictly increasing on the half-line `w ≥ EPS` and on the half-line `w < EPS` -/
theorem YeoJohnson.strictMonoOn_pos (p : YeoJohnson.Params ℝ) (hp : YeoJohnson.admissible p) :
    StrictMonoOn (fun t => YeoJohnson.fwd p t) {x | eps ≤ p.nu + x * p.scale} := by
  have hs := YeoJohnson.scale_pos p hp
  intro x hx y hy hxy
  have hx' : eps ≤ p.nu + x * p.scale := hx
  have hy' : eps ≤ p.nu + y * p.scale := hy
  have hw : p.nu + x * p.scale < p.nu + y * p.scale := by nlinarith
  show YeoJohnson.fwd p x < YeoJohnson.fwd p y
  simp only [YeoJohnson.fwd, C01.YeoJohnson.fwdW_eq, if_pos hx', if_pos hy']
  exact YeoJohnson.posF_strictMonoOn p.lam (show _ ∈ Ioi (-1 : ℝ) by simp only [mem_Ioi]; linarith [eps_pos])
    (show _ ∈ Ioi (-1 : ℝ) by simp only [mem_Ioi]; linarith [eps_pos]) hw

theorem YeoJohnson.strictMonoOn_neg (p : YeoJohnson.Params ℝ) (hp : YeoJohnson.admissible p) :
    StrictMonoOn (fun t => YeoJohnson.fwd p t) {x | p.nu + x * p.scale < eps} := by
  have hs := YeoJohnson.scale_pos p hp
  intro x hx y hy hxy
  have hx' : p.nu + x * p.scale < eps := hx
  have hy' : p.nu + y * p.scale < eps := hy
  have hw : p.nu + x * p.scale < p.nu + y * p.scale := by nlinarith
  show YeoJohnson.fwd p x < YeoJohnson.fwd p y
  simp only [YeoJohnson.fwd, C01.YeoJohnson.fwdW_eq, if_neg (not_le.mpr hx'), if_neg (not_le.mpr hy')]
  exact YeoJohnson.negF_strictMonoOn p.lam (show _ ∈ Iio (1 : ℝ) by simp only [mem_Iio]; linarith [eps_lt_one])
    (show _ ∈ Iio (1 : ℝ) by simp only [mem_Iio]; linarith [eps_lt_one]) hw

/-- all ordered pairs, junction included: `x₁ < x₂` implies `forward(x₁) < forward(x₂) + 3 EPS²` (3e-20, below the
rounding error of the formula `((1+w)^lam - 1)/lam` near `w = EPS`) -/
theorem YeoJohnson.forward_lt_add (p : YeoJohnson.Params ℝ) (hp : YeoJohnson.admissible p) {x1 x2 : ℝ}
    (h : x1 < x2) : YeoJohnson.fwd p x1 < YeoJohnson.fwd p x2 + 3 * eps ^ 2 := by
  have hs := YeoJohnson.scale_pos p hp
  have hl1 : -1 ≤ p.lam := by have := hp.2.1; norm_num at this; exact this
  have hl3 : p.lam ≤ 3 := by have := hp.2.2; norm_num at this; exact this
  exact YeoJohnson.fwdW_lt_add hl1 hl3 (by nlinarith)

/-- at the default `lam = 1` the transform is affine, `forward(x) = nu + scale x`: exactly increasing everywhere -/
theorem YeoJohnson.fwd_lam_one (p : YeoJohnson.Params ℝ) (hl : p.lam = 1) (x : ℝ) :
    YeoJohnson.fwd p x = p.nu + x * p.scale := by
  have h0 : isclose0 (1 : ℝ) = false := by
    simp only [isclose0, decide_eq_false_iff_not, absv_eq]; norm_num
  have h2 : isclose2 (1 : ℝ) = false := by
    simp only [isclose2, decide_eq_false_iff_not, absv_eq]; norm_num [abs_of_neg]
  simp only [YeoJohnson.fwd, YeoJohnson.fwdW, hl, h0, h2, Bool.false_eq_true, if_false, transc_pow]
  split_ifs <;> norm_num

theorem YeoJohnson.strictMono_lam_one (p : YeoJohnson.Params ℝ) (hp : YeoJohnson.admissible p) (hl : p.lam = 1) :
    StrictMono (fun t => YeoJohnson.fwd p t) := by
  have hs := YeoJohnson.scale_pos p hp
  intro x y hxy
  show YeoJohnson.fwd p x < YeoJohnson.fwd p y
  rw [YeoJohnson.fwd_lam_one p hl, YeoJohnson.fwd_lam_one p hl]
  nlinarith

/-- the `3 EPS²` allowance above cannot be dropped: at `lam = 3` (`nu = 0`, `scale = 1`) the exact formulas give
`forward(EPS - 5e-31) > forward(EPS)` — the negative-branch formula ends ≈ 2e-31 above the value at which the
positive-branch formula starts. A drop of that size is ≈ 1e-5 of the spacing of doubles at `1e-10`: it is the
"equality only within rounding" of the property text, not an observable defect. -/
theorem YeoJohnson.not_strictMono_lam_three :
    ¬ StrictMono (fun t => YeoJohnson.fwd (⟨0, 1, 3⟩ : YeoJohnson.Params ℝ) t) := by
  intro h
  have hlt : (1e-10 - 5e-31 : ℝ) < 1e-10 := by norm_num
  have h3 := h hlt
  have h0 : isclose0 (3 : ℝ) = false := by
    simp only [isclose0, decide_eq_false_iff_not, absv_eq]; norm_num
  have h2 : isclose2 (3 : ℝ) = false := by
    simp only [isclose2, decide_eq_false_iff_not, absv_eq]; norm_num
  have c1 : ¬ (eps : ℝ) ≤ 0 + (1e-10 - 5e-31) * 1 := by unfold eps; norm_num
  have c2 : (eps : ℝ) ≤ 0 + 1e-10 * 1 := by unfold eps; norm_num
  simp only [YeoJohnson.fwd, YeoJohnson.fwdW, h0, h2, Bool.false_eq_true, if_false, transc_pow, if_neg c1, if_pos c2] at h3
  rw [show (2 - 3 : ℝ) = -1 by norm_num, Real.rpow_neg_one, show (3 : ℝ) = ((3 : ℕ) : ℝ) by norm_num,
    Real.rpow_natCast] at h3
  norm_num at h3

/-! ### Softmax — rows of any length `n`: the matrix of partial derivatives of `forward` is
`∂y_i/∂x_j = δ_ij/x_i + 1/(1 - s)`, and `jacobian` is its determinant (matrix determinant lemma, every `n`) -/

/-- coordinate `i` of the model's forward row is `fwdFn · i`, and its partial derivative with respect to entry `j`
(all other entries held fixed) is the `(i, j)` entry of `pdMat` -/
theorem Softmax.partial_derivatives {n : ℕ} (x : Fin n → ℝ) (hpos : ∀ k, 0 < x k) (hs : ∑ k, x k < 1) (i j : Fin n) :
    (∀ z : Fin n → ℝ, Softmax.fwdRow (List.ofFn z) = List.ofFn (Softmax.fwdFn z)) ∧
    Softmax.pdMat x i j = (if i = j then 1 / x i else 0) + 1 / (1 - ∑ k, x k) ∧
    HasDerivAt (fun t => Softmax.fwdFn (Function.update x j t) i) (Softmax.pdMat x i j) (x j) :=
  ⟨Softmax.fwdRow_ofFn, rfl, Softmax.hasDerivAt_fwdFn x hpos hs i j⟩

/-- general `n × n` determinant: `det(diag(1/x) + (1/(1-s)) 1 1ᵀ) = (1 + s/(1-s)) / ∏ x`, which is `jacRow` -/
theorem Softmax.det_partial_derivatives {n : ℕ} (x : Fin n → ℝ) (hx : ∀ i, x i ≠ 0) :
    (Softmax.pdMat x).det = Softmax.jacRow (List.ofFn x) := by
  rw [Softmax.det_pdMat x hx]
  simp only [Softmax.jacRow, sumL_eq, Softmax.prodL_eq, List.sum_ofFn, List.prod_ofFn]

/-- on the list model: a row in the domain is accepted and `jacobian` returns the determinant of the executable
matrix of partial derivatives (`pdEntry` of Model/C02), which is positive -/
theorem Softmax.jacobian_eq_det (xs : List ℝ) (hd : Softmax.dom xs) :
    Softmax.jacobian xs = .ok (Matrix.det (Matrix.of fun i j : Fin xs.length => C02.Softmax.pdEntry xs i j)) := by
  have h1 : Softmax.anyNeg xs = false := by
    unfold Softmax.anyNeg
    rw [List.any_eq_false]
    intro x hx
    have := hd.1 x hx
    simp [not_lt.mpr this.le]
  have h2 : Softmax.sumTooBig xs = false := by
    unfold Softmax.sumTooBig
    rw [decide_eq_false_iff_not, not_lt]; exact hd.2
  simp only [Softmax.jacobian, h1, h2, Bool.false_eq_true, if_false]
  congr 1
  have hM : (Matrix.of fun i j : Fin xs.length => C02.Softmax.pdEntry xs i j)
      = Softmax.pdMat (fun k : Fin xs.length => xs[k]) := by
    ext i j; exact Softmax.pdEntry_eq xs i j
  have hx : ∀ i : Fin xs.length, xs[i] ≠ 0 := fun i => (hd.1 _ (List.getElem_mem i.isLt)).ne'
  rw [hM, Softmax.det_pdMat _ hx, Softmax.sum_get, Softmax.prod_get]
  simp only [Softmax.jacRow, sumL_eq, Softmax.prodL_eq]

theorem Softmax.jacRow_pos (xs : List ℝ) (hd : Softmax.dom xs) : 0 < Softmax.jacRow xs := by
  obtain ⟨hpos, hs⟩ := hd
  rw [sumL_eq] at hs
  have hs1 : 0 < 1 - xs.sum := by linarith [eps_pos]
  have hs0 : 0 ≤ xs.sum := List.sum_nonneg fun x hx => (hpos x hx).le
  have hp : 0 < xs.prod := List.prod_pos fun x hx => hpos x hx
  simp only [Softmax.jacRow, sumL_eq, Softmax.prodL_eq]
  have : 0 ≤ xs.sum / (1 - xs.sum) := div_nonneg hs0 hs1.le
  exact div_pos (by linarith) hp

theorem Softmax.jacobian_spec (xs : List ℝ) (hd : Softmax.dom xs) :
    ∃ j, Softmax.jacobian xs = .ok j ∧ 0 < j ∧
      j = Matrix.det (Matrix.of fun i k : Fin xs.length => C02.Softmax.pdEntry xs i k) := by
  have h := Softmax.jacobian_eq_det xs hd
  refine ⟨Softmax.jacRow xs, ?_, Softmax.jacRow_pos xs hd, ?_⟩
  · have h1 : Softmax.anyNeg xs = false := by
      unfold Softmax.anyNeg
      rw [List.any_eq_false]
      intro x hx
      have := hd.1 x hx
      simp [not_lt.mpr this.le]
    have h2 : Softmax.sumTooBig xs = false := by
      unfold Softmax.sumTooBig
      rw [decide_eq_false_iff_not, not_lt]; exact hd.2
    simp only [Softmax.jacobian, h1, h2, Bool.false_eq_true, if_false]
  · have h1 : Softmax.anyNeg xs = false := by
      unfold Softmax.anyNeg
      rw [List.any_eq_false]
      intro x hx
      have := hd.1 x hx
      simp [not_lt.mpr this.le]
    have h2 : Softmax.sumTooBig xs = false := by
      unfold Softmax.sumTooBig
      rw [decide_eq_false_iff_not, not_lt]; exact hd.2
    simp only [Softmax.jacobian, h1, h2, Bool.false_eq_true, if_false] at h
    exact Except.ok.inj h

/-- every partial derivative is positive on the domain: each output coordinate increases with each input entry -/
theorem Softmax.partial_pos {n : ℕ} (x : Fin n → ℝ) (hpos : ∀ k, 0 < x k) (hs : ∑ k, x k < 1) (i j : Fin n) :
    0 < Softmax.pdMat x i j := Softmax.pdMat_pos x hpos hs i j

/-- 2-D arrays: every row in the domain ⇒ accepted, one determinant per row -/
theorem Softmax.jacobianM_eq (rows : List (List ℝ)) (hd : ∀ r ∈ rows, Softmax.dom r) :
    Softmax.jacobianM rows = .ok (rows.map Softmax.jacRow) := by
  have h1 : rows.any Softmax.anyNeg = false := by
    rw [List.any_eq_false]
    intro r hr
    have hdr := hd r hr
    unfold Softmax.anyNeg
    rw [Bool.not_eq_true, List.any_eq_false]
    intro x hx
    have := hdr.1 x hx
    simp [not_lt.mpr this.le]
  have h2 : rows.any Softmax.sumTooBig = false := by
    rw [List.any_eq_false]
    intro r hr
    unfold Softmax.sumTooBig
    rw [Bool.not_eq_true, decide_eq_false_iff_not, not_lt]; exact (hd r hr).2
  simp only [Softmax.jacobianM, h1, h2, Bool.false_eq_true, if_false]

/-- the determinant the driver executes (`pdDet`: Laplace expansion of the nested-list matrix `pdMatrix`) is
`Matrix.det` of the same entries, hence equals `jacRow`: the executable cross-check is the theorem's object -/
theorem Softmax.pdDet_eq_det (xs : List ℝ) :
    C02.Softmax.pdDet xs = Matrix.det (Matrix.of fun i j : Fin xs.length => C02.Softmax.pdEntry xs i j) := by
  unfold C02.Softmax.pdDet
  exact detL_toL (Matrix.of fun i j : Fin xs.length => C02.Softmax.pdEntry xs i j)

theorem Softmax.pdDet_eq_jacRow (xs : List ℝ) (hd : Softmax.dom xs) : C02.Softmax.pdDet xs = Softmax.jacRow xs := by
  obtain ⟨j, hj, _, hdet⟩ := Softmax.jacobian_spec xs hd
  have h := Softmax.jacobian_eq_det xs hd
  rw [Softmax.pdDet_eq_det]
  have h1 : Softmax.anyNeg xs = false := by
    unfold Softmax.anyNeg
    rw [List.any_eq_false]
    intro x hx
    have := hd.1 x hx
    simp [not_lt.mpr this.le]
  have h2 : Softmax.sumTooBig xs = false := by
    unfold Softmax.sumTooBig
    rw [decide_eq_false_iff_not, not_lt]; exact hd.2
  simp only [Softmax.jacobian, h1, h2, Bool.false_eq_true, if_false] at h
  exact (Except.ok.inj h).symm

/-- a negative entry anywhere, or a row sum above `1 - EPS`, is rejected by `jacobian` (ValueError, never a number) -/
theorem Softmax.jacobian_rejects (xs : List ℝ) (h : (∃ x ∈ xs, x < 0) ∨ 1 - eps < Softmax.sumL xs) :
    ∃ e, Softmax.jacobian xs = .error e := by
  unfold Softmax.jacobian
  by_cases h1 : Softmax.anyNeg xs = true
  · exact ⟨_, by rw [if_pos h1]⟩
  · rw [if_neg h1]
    rcases h with ⟨x, hx, hneg⟩ | h
    · exfalso; apply h1
      unfold Softmax.anyNeg
      rw [List.any_eq_true]
      exact ⟨x, hx, by simpa using hneg⟩
    · have h2 : Softmax.sumTooBig xs = true := by unfold Softmax.sumTooBig; simpa using h
      exact ⟨_, by rw [if_pos h2]⟩

/-! ### the public method on a whole 1-D array, from ANY object state (i.e. after any history of calls, parameter
re-assignments and earlier results): one re-synchronisation, then the Jacobian formula at the CURRENT parameters on
every element — nothing is remembered from earlier calls -/

theorem BoxCox1lam.state_jacobianArr_eq (s : BoxCox1lam.State ℝ) (nu : ℝ) (xs : List ℝ) (hnu : s.nu = some nu) :
    BoxCox1lam.State.jacobianArr s xs =
      .ok (⟨s.lam, some nu, ⟨nu, s.lam, s.bc.mininu⟩⟩, xs.map (BoxCox2.jacobian ⟨nu, s.lam, s.bc.mininu⟩)) := by
  cases s with
  | mk lam nu' bc => cases hnu; rfl

theorem BoxCox1nu.state_jacobianArr_eq (s : BoxCox1nu.State ℝ) (lam : ℝ) (xs : List ℝ) (hlam : s.lam = some lam) :
    BoxCox1nu.State.jacobianArr s xs =
      .ok (⟨s.nu, some lam, ⟨s.nu, lam, s.bc.mininu⟩⟩, xs.map (BoxCox2.jacobian ⟨s.nu, lam, s.bc.mininu⟩)) := by
  cases s with
  | mk nu lam' bc => cases hlam; rfl

theorem BoxCox2sym.state_jacobianArr_eq (s : BoxCox2sym.State ℝ) (xs : List ℝ) :
    BoxCox2sym.State.jacobianArr s xs =
      (⟨s.nu, s.lam, ⟨s.nu, s.lam, s.bc.mininu⟩⟩, xs.map (BoxCox2sym.jacobian ⟨s.nu, s.lam, s.bc.mininu⟩)) := rfl

/-- two calls in a row (a forward call, then a Jacobian call, as the likelihood code does) on the same object: the
second result does not depend on what the first call left in the inner BoxCox2 -/
theorem BoxCox1lam.jacobianArr_after_forwardArr (s : BoxCox1lam.State ℝ) (nu : ℝ) (xs zs : List ℝ) (hnu : s.nu = some nu) :
    ∃ s1 r1, BoxCox1lam.State.forwardArr s zs = .ok (s1, r1) ∧
      BoxCox1lam.State.jacobianArr s1 xs = BoxCox1lam.State.jacobianArr s xs := by
  cases s with
  | mk lam nu' bc => cases hnu; exact ⟨_, _, rfl, rfl⟩

theorem LogSinh.state_jacobianArr_eq (s : LogSinh.State ℝ) (xm : ℝ) (xs : List ℝ) (h : s.xmax = some xm) :
    LogSinh.State.jacobianArr s xs = .ok (xs.map (LogSinh.jacobian ⟨s.loga, s.logb, xm⟩)) := by
  cases s with
  | mk a b xm' => cases h; rfl

theorem Manly.state_jacobianArr_eq (s : Manly.State ℝ) (xm : ℝ) (xs : List ℝ) (h : s.xmax = some xm) :
    Manly.State.jacobianArr s xs = .ok (xs.map (Manly.jacobian ⟨s.lam, xm⟩)) := by
  cases s with
  | mk l xm' => cases h; rfl

/-- Softmax on an array of more than two dimensions is rejected before anything else; up to two dimensions it is the
row-wise Jacobian -/
theorem Softmax.jacobianND_spec (ndim : ℕ) (rows : List (List ℝ)) :
    (2 < ndim → Softmax.jacobianND ndim rows = .error .ndimGt2) ∧
    (ndim ≤ 2 → Softmax.jacobianND ndim rows = Softmax.jacobianM rows) := by
  constructor
  · intro h; simp only [Softmax.jacobianND, if_pos h]
  · intro h; simp only [Softmax.jacobianND, if_neg (not_lt.mpr h)]


/-! ### the transform OBJECT after any history of public operations (Model/C02Hist.lean): the hypotheses
`X.admissible p` of the theorems above are consequences of the code's own guards -/

/-- every constructor establishes "each stored value inside its slot", every public operation keeps it: the invariant
holds after ANY list of operations, rejected ones included; class and constructor options never change -/
theorem history_inv (cls : Cls) (c : Ctor ℝ) (o0 : Obj ℝ) (h0 : mk cls c = .ok o0) (ops : List (Op ℝ)) :
    (run o0 ops).Inv ∧ (run o0 ops).cls = cls ∧ (run o0 ops).ctor = c := by
  have hi := mk_inv cls c o0 h0
  obtain ⟨h1, h2, h3⟩ := run_inv' o0 hi ops
  have hb : o0 = build cls c := by
    unfold mk at h0
    cases hg : ctorGuard cls c with
    | error e => rw [hg] at h0; cases h0
    | ok u => rw [hg] at h0; cases h0; rfl
  subst hb
  exact ⟨h1, h2, h3⟩

/-- fault paths: an operation the code rejects (`ValueError`: NaN into a parameter, a vector of the wrong length, an
unknown key, a call with an unset constant) leaves the object exactly as it was -/
theorem step_rejected_unchanged (o : Obj ℝ) (op : Op ℝ) (e : SErr) (h : (step o op).2 = .rejected e) :
    (step o op).1 = o := by
  cases op <;> simp only [step] at h ⊢
  case setAttr nm v => cases hs : setAttr o nm v <;> simp_all
  case setItem nm v => cases hs : setItem o nm v <;> simp_all
  case setValues vs => cases hs : o.params.setAll vs <;> simp_all
  case reset => cases hs : o.params.reset <;> simp_all
  case call jac xs => cases hs : callOp o jac xs <;> simp_all

/-- the guards of the constructors: what they reject, and what they guarantee when they return -/
theorem mk_rejects (cls : Cls) (c : Ctor ℝ) (hcls : cls = .BoxCox2 ∨ cls = .BoxCox1lam ∨ cls = .BoxCox1nu ∨ cls = .BoxCox2sym) :
    (c.minilam < -3 → mk cls c = .error .minilamBelowM3) ∧
    (1 + eps < c.minilam → ∃ e, mk cls c = .error e) := by
  constructor
  · intro h
    have : bcGuard c = .error .minilamBelowM3 := by
      unfold bcGuard; rw [if_pos (by norm_num; exact h)]
    rcases hcls with rfl | rfl | rfl | rfl <;> simp [mk, ctorGuard, this]
  · intro h
    have : ∃ e, bcGuard c = .error e := by
      unfold bcGuard
      split_ifs with h1 h2 h3
      · exact ⟨_, rfl⟩
      · exact ⟨_, rfl⟩
      · exact ⟨_, rfl⟩
      · exact absurd (by linarith : 1 < c.minilam - eps) h3
    obtain ⟨e, he⟩ := this
    rcases hcls with rfl | rfl | rfl | rfl <;> exact ⟨e, by simp [mk, ctorGuard, he]⟩

/-- a call on a reachable object never meets a state the model does not cover, fails only for an unset constant,
returns one value per element, and never changes a parameter or a constant -/
theorem call_after_history (cls : Cls) (c : Ctor ℝ) (o0 : Obj ℝ) (h0 : mk cls c = .ok o0) (ops : List (Op ℝ))
    (jac : Bool) (xs : List ℝ) :
    (∃ e, callOp (run o0 ops) jac xs = .error (.call e)) ∨
    (∃ o' ys, callOp (run o0 ops) jac xs = .ok (o', ys) ∧ ys.length = xs.length ∧
      o'.params = (run o0 ops).params ∧ o'.consts = (run o0 ops).consts ∧ o'.Inv) := by
  obtain ⟨hi, hc, _⟩ := history_inv cls c o0 h0 ops
  generalize run o0 ops = o at hi hc
  have fin : ∀ o' ys, callOp o jac xs = .ok (o', ys) → ys.length = xs.length →
      (∃ e, callOp o jac xs = .error (.call e)) ∨ (∃ o' ys, callOp o jac xs = .ok (o', ys) ∧ ys.length = xs.length ∧
        o'.params = o.params ∧ o'.consts = o.consts ∧ o'.Inv) := by
    intro o' ys h hl
    refine Or.inr ⟨o', ys, h, hl, ?_, ?_, (callOp_inv o hi jac xs o' ys h).1⟩
    · rcases callOp_state o jac xs o' ys h with rfl | ⟨nu, lam, hs⟩
      · rfl
      · exact (syncInner_inv o hi nu lam o' hs).2.2.2.1
    · rcases callOp_state o jac xs o' ys h with rfl | ⟨nu, lam, hs⟩
      · rfl
      · exact (syncInner_inv o hi nu lam o' hs).2.2.2.2
  cases cls
  case Identity => exact fin _ _ (Identity.of_inv o hi hc jac xs) (by simp [applyArr])
  case Logit => obtain ⟨p, _, _, h⟩ := Logit.of_inv o hi hc jac xs; exact fin _ _ h (by simp [applyArr])
  case Log => obtain ⟨nu, _, _, _, h⟩ := Log.of_inv o hi hc jac xs; exact fin _ _ h (by simp [applyArr])
  case BoxCox2 => obtain ⟨nu, lam, _, _, _, _, h⟩ := BoxCox2.of_inv o hi hc jac xs; exact fin _ _ h (by simp [applyArr])
  case BoxCox1lam =>
    obtain ⟨lam, nu, _, _, _, _, _, h⟩ := BoxCox1lam.of_inv o hi hc jac xs
    cases nu with
    | none => exact Or.inl ⟨_, h⟩
    | some nu => exact fin _ _ h (by simp [applyArr])
  case BoxCox1nu =>
    obtain ⟨nu, lam, _, _, _, _, h⟩ := BoxCox1nu.of_inv o hi hc jac xs
    cases lam with
    | none => exact Or.inl ⟨_, h⟩
    | some lam => exact fin _ _ h (by simp [applyArr])
  case BoxCox2sym => obtain ⟨nu, lam, _, _, _, _, h⟩ := BoxCox2sym.of_inv o hi hc jac xs; exact fin _ _ h (by simp [applyArr])
  case YeoJohnson => obtain ⟨p, _, _, h⟩ := YeoJohnson.of_inv o hi hc jac xs; exact fin _ _ h (by simp [applyArr])
  case LogSinh =>
    obtain ⟨la, lb, xm, _, _, _, h⟩ := LogSinh.of_inv o hi hc jac xs
    cases xm with
    | none => exact Or.inl ⟨_, h⟩
    | some xm => exact fin _ _ h (by simp [applyArr])
  case Reciprocal => obtain ⟨nu, _, _, h⟩ := Reciprocal.of_inv o hi hc jac xs; exact fin _ _ h (by simp [applyArr])
  case Sinh => obtain ⟨p, _, _, h⟩ := Sinh.of_inv o hi hc jac xs; exact fin _ _ h (by simp [applyArr])
  case Manly =>
    obtain ⟨lam, xm, _, _, _, h⟩ := Manly.of_inv o hi hc jac xs
    cases xm with
    | none => exact Or.inl ⟨_, h⟩
    | some xm => exact fin _ _ h (by simp [applyArr])

/-- Sinh, any history: the object's `scale` is ≥ 1e-10 whatever was assigned, and `jacobian` returns at every point the
positive derivative of `forward` — `Sinh.admissible` is no longer a hypothesis -/
theorem Sinh.after_history (c : Ctor ℝ) (o0 : Obj ℝ) (h0 : mk .Sinh c = .ok o0) (ops : List (Op ℝ)) (x : ℝ) :
    ∃ (p : Sinh.Params ℝ) (j : ℝ), Sinh.admissible p ∧
      callOp (run o0 ops) true [x] = .ok (run o0 ops, [some j]) ∧ 0 < j ∧ HasDerivAt (fun t => Sinh.fwd p t) j x := by
  obtain ⟨hi, hc, _⟩ := history_inv .Sinh c o0 h0 ops
  obtain ⟨p, hp, _, h⟩ := Sinh.of_inv _ hi hc true [x]
  obtain ⟨j, hj, hpos, hd⟩ := Sinh.jacobianH_spec p x hp
  exact ⟨p, j, hp, by rw [h]; simp [applyArr, hj], hpos, hd⟩

theorem YeoJohnson.after_history (c : Ctor ℝ) (o0 : Obj ℝ) (h0 : mk .YeoJohnson c = .ok o0) (ops : List (Op ℝ)) (x : ℝ) :
    ∃ (p : YeoJohnson.Params ℝ) (j : ℝ), YeoJohnson.admissible p ∧
      callOp (run o0 ops) true [x] = .ok (run o0 ops, [some j]) ∧ 0 < j ∧
      (p.nu + x * p.scale ≠ eps → HasDerivAt (fun t => YeoJohnson.fwd p t) j x) := by
  obtain ⟨hi, hc, _⟩ := history_inv .YeoJohnson c o0 h0 ops
  obtain ⟨p, hp, _, h⟩ := YeoJohnson.of_inv _ hi hc true [x]
  exact ⟨p, YeoJohnson.jac p x, hp, by rw [h]; simp [applyArr, YeoJohnson.jacobian], YeoJohnson.jac_pos p x hp,
    fun hw => YeoJohnson.hasDerivAt p x hw⟩

/-- Manly, any history: either `xmax` was never set and the call is rejected, or `xmax ≥ EPS`, `lam ∈ [-5, 5]` and the
answer is the positive derivative -/
theorem Manly.after_history (c : Ctor ℝ) (o0 : Obj ℝ) (h0 : mk .Manly c = .ok o0) (ops : List (Op ℝ)) (x : ℝ) :
    callOp (run o0 ops) true [x] = .error (.call .xmaxUnset) ∨
    ∃ (p : Manly.Params ℝ) (j : ℝ), Manly.admissible p ∧
      callOp (run o0 ops) true [x] = .ok (run o0 ops, [some j]) ∧ 0 < j ∧ HasDerivAt (fun t => Manly.fwd p t) j x := by
  obtain ⟨hi, hc, _⟩ := history_inv .Manly c o0 h0 ops
  obtain ⟨lam, xm, hp, _, _, h⟩ := Manly.of_inv _ hi hc true [x]
  cases xm with
  | none => exact Or.inl h
  | some xm =>
    right
    have hp' := hp xm rfl
    obtain ⟨j, hj, hpos, hd⟩ := Manly.jacobian_spec ⟨lam, xm⟩ x hp'
    exact ⟨⟨lam, xm⟩, j, hp', by rw [h]; simp [applyArr, hj], hpos, hd⟩

theorem LogSinh.after_history (c : Ctor ℝ) (o0 : Obj ℝ) (h0 : mk .LogSinh c = .ok o0) (ops : List (Op ℝ)) (x : ℝ) :
    callOp (run o0 ops) true [x] = .error (.call .xmaxUnset) ∨
    ∃ p : LogSinh.Params ℝ, LogSinh.admissible p ∧
      callOp (run o0 ops) true [x] = .ok (run o0 ops, [LogSinh.jacobian p x]) ∧
      (LogSinh.dom p x → ∃ j, LogSinh.jacobian p x = some j ∧ 0 < j ∧ HasDerivAt (fun t => LogSinh.fwd p t) j x) ∧
      (¬ LogSinh.dom p x → LogSinh.jacobian p x = none) := by
  obtain ⟨hi, hc, _⟩ := history_inv .LogSinh c o0 h0 ops
  obtain ⟨la, lb, xm, hp, _, _, h⟩ := LogSinh.of_inv _ hi hc true [x]
  cases xm with
  | none => exact Or.inl h
  | some xm =>
    right
    have hp' := hp xm rfl
    exact ⟨⟨la, lb, xm⟩, hp', by rw [h]; simp [applyArr], fun hx => LogSinh.jacobian_spec _ x hp' hx,
      fun hx => LogSinh.jacobian_none _ x hx⟩

/-- BoxCox2sym built with a positive `mininu` (the default is EPS), any history: `nu ≥ mininu > 0`, so `BC(0)` exists,
the inner object holds exactly the outer values after the call, and on the guard the answer is the positive
derivative — `0 < nu` is no longer a hypothesis -/
theorem BoxCox2sym.after_history (c : Ctor ℝ) (hm : 0 < c.mininu) (o0 : Obj ℝ) (h0 : mk .BoxCox2sym c = .ok o0)
    (ops : List (Op ℝ)) (x : ℝ) :
    ∃ p : BoxCox2sym.Params ℝ, 0 < p.nu ∧ p.mininu = c.mininu ∧
      callOp (run o0 ops) true [x] = .ok ({ run o0 ops with bc := some ⟨bcSlots c, false, [some p.nu, some p.lam]⟩ },
        [BoxCox2sym.jacobian p x]) ∧
      (p.mininu < |x| + p.nu →
        ∃ j, BoxCox2sym.jacobian p x = some j ∧ 0 < j ∧ HasDerivAt (fun t => BoxCox2sym.fwd p t) j x) := by
  obtain ⟨hi, hc, hct⟩ := history_inv .BoxCox2sym c o0 h0 ops
  obtain ⟨nu, lam, h1, _, _, _, h⟩ := BoxCox2sym.of_inv _ hi hc true [x]
  rw [hct] at h h1
  have hnu : 0 < nu := lt_of_lt_of_le hm h1
  exact ⟨⟨nu, lam, c.mininu⟩, hnu, rfl, by rw [h]; simp [applyArr, hct], fun hj => BoxCox2sym.jacobian_spec _ x hnu hj⟩

/-- BoxCox1lam, any history: an unset `nu` rejects the call and leaves the stale inner object alone; otherwise the
inner object is overwritten with exactly the outer `(nu, lam)` — whatever it held — and the answer is BoxCox2's -/
theorem BoxCox1lam.after_history (c : Ctor ℝ) (o0 : Obj ℝ) (h0 : mk .BoxCox1lam c = .ok o0) (ops : List (Op ℝ))
    (x : ℝ) :
    callOp (run o0 ops) true [x] = .error (.call .nuUnset) ∨
    ∃ nu lam : ℝ, c.mininu ≤ nu ∧ c.minilam ≤ lam ∧ lam ≤ 3 ∧
      callOp (run o0 ops) true [x] = .ok ({ run o0 ops with bc := some ⟨bcSlots c, false, [some nu, some lam]⟩ },
        [BoxCox2.jacobian ⟨nu, lam, c.mininu⟩ x]) ∧
      (0 < x + nu → c.mininu < x + nu → ∃ j, BoxCox2.jacobian ⟨nu, lam, c.mininu⟩ x = some j ∧ 0 < j ∧
        HasDerivAt (fun t => BoxCox2.fwd ⟨nu, lam, c.mininu⟩ t) j x) := by
  obtain ⟨hi, hc, hct⟩ := history_inv .BoxCox1lam c o0 h0 ops
  obtain ⟨lam, nu, h2, h3, h1, _, _, h⟩ := BoxCox1lam.of_inv _ hi hc true [x]
  rw [hct] at h h1 h2
  cases nu with
  | none => exact Or.inl h
  | some nu =>
    right
    exact ⟨nu, lam, h1 nu rfl, h2, h3, by rw [h]; simp [applyArr, hct],
      fun hx hj => BoxCox2.jacobian_spec ⟨nu, lam, c.mininu⟩ x hx hj⟩

/-- `get_transform(name, **kwargs)` is the constructor followed by one assignment per keyword that names a parameter or
a constant: the object it returns satisfies the same invariant, hence everything above -/
theorem viaGet_inv (cls : Cls) (c : Ctor ℝ) (kw : List (String × Option ℝ)) (o : Obj ℝ)
    (h : viaGet cls c kw = .ok o) : o.Inv ∧ o.cls = cls ∧ o.ctor = c := by
  unfold viaGet at h
  cases hm : mk cls c with
  | error e => rw [hm] at h; cases h
  | ok o0 =>
    rw [hm] at h
    simp only [Bind.bind, Except.bind] at h
    have hi0 := history_inv cls c o0 hm []
    simp only [run] at hi0
    generalize kwOps cls kw = ops at h
    clear hm
    induction ops generalizing o0 with
    | nil => simp only [List.foldlM, pure, Except.pure, Except.ok.injEq] at h; subst h; exact hi0
    | cons op rest ih =>
      simp only [List.foldlM, Bind.bind, Except.bind] at h
      have hs := step_inv' o0 hi0.1 op
      cases hst : step o0 op with
      | mk o1 out =>
        rw [hst] at h hs
        cases out with
        | rejected e => simp at h
        | done => exact ih o1 ⟨hs.1, hs.2.1.trans hi0.2.1, hs.2.2.trans hi0.2.2⟩ (by simpa using h)
        | values ys => exact ih o1 ⟨hs.1, hs.2.1.trans hi0.2.1, hs.2.2.trans hi0.2.2⟩ (by simpa using h)

/-! ### `dutils.cast`: on the property's inputs (float64 arrays of any shape) the public method returns exactly the
elementwise values of `_jacobian`, with the shape of the argument -/

theorem publicOnArray_spec (f : ℝ → Option ℝ) (shape : List ℕ) (xs : List ℝ) :
    publicOnArray f shape xs = .ok (.arr .f64 shape (xs.map f)) := rfl

/-- a python float goes through `float(y)` (a numpy scalar / 0-d result); an integer or float32 ARRAY with a float64
result is a `TypeError`, never silently converted -/
theorem cast_kinds (shape : List ℕ) (xs ys : List ℝ) (v y : ℝ) :
    cast (.pyFloat v) .f64 [] [y] = .ok (.pyFloat y) ∧
    cast (.arr .i64 shape xs) .f64 shape ys = .error .typeError ∧
    cast (.arr .f32 shape xs) .f64 shape ys = .error .typeError := ⟨rfl, rfl, rfl⟩

/-! ### rounded arithmetic (Lemmas/C02Round.lean) -/
section Rounded
variable {M : FP}

/-! ### in the arithmetic the code performs (every operation rounded, library functions monotone): `forward` is
(weakly) increasing — the property's `x1 < x2 ⇒ forward(x1) ≤ forward(x2)` with NO rounding allowance -/

theorem Identity.fwd_mono_fp (p : Identity.Params (Rd M)) {x1 x2 : Rd M} (h : x1 ≤ x2) :
    Identity.fwd p x1 ≤ Identity.fwd p x2 := h

theorem Logit.fwd_mono_fp (p : Logit.Params (Rd M)) {x1 x2 : Rd M} (h : x1 ≤ x2)
    (hW : 0 < Logit.upper p - p.lower)
    (h2 : 0 < 1 - (x2 - p.lower) / (Logit.upper p - p.lower))
    (h1 : 0 < 1 / (1 - (x1 - p.lower) / (Logit.upper p - p.lower)) - 1) :
    Logit.fwd p x1 ≤ Logit.fwd p x2 := by
  unfold Logit.fwd
  have hv : (x1 - p.lower) / (Logit.upper p - p.lower) ≤ (x2 - p.lower) / (Logit.upper p - p.lower) :=
    Rd.div_le_div_right' (Rd.sub_le_sub' h le_rfl) hW.le
  have h3 : 1 - (x2 - p.lower) / (Logit.upper p - p.lower) ≤ 1 - (x1 - p.lower) / (Logit.upper p - p.lower) :=
    Rd.sub_le_sub' le_rfl hv
  exact Rd.log_le_log' h1 (Rd.sub_le_sub' (Rd.div_le_div_left_nonneg Rd.one_pos'.le h2 h3) le_rfl)

theorem Log.fwd_mono_fp (p : Log.Params (Rd M)) {x1 x2 : Rd M} (h : x1 ≤ x2) (hd : 0 < x1 + p.nu)
    (hb : 0 < Log.bf p) : Log.fwd p x1 ≤ Log.fwd p x2 :=
  Rd.div_le_div_right' (Rd.log_le_log' hd (Rd.add_le_add' h le_rfl)) hb.le

theorem BoxCox2.fwd_mono_fp (p : BoxCox2.Params (Rd M)) {x1 x2 : Rd M} (h : x1 ≤ x2) (hd : 0 < x1 + p.nu) :
    BoxCox2.fwd p x1 ≤ BoxCox2.fwd p x2 := by
  have hs : x1 + p.nu ≤ x2 + p.nu := Rd.add_le_add' h le_rfl
  unfold BoxCox2.fwd
  split_ifs with hl
  · rcases Rd.lamBig_ne hl with hneg | hpos
    · have hk : p.lam ≤ 0 := by rw [Rd.le_def, Rd.zero_val]; exact hneg.le
      exact Rd.div_le_div_right_of_nonpos (Rd.sub_le_sub' (Rd.pow_le_pow_base_of_nonpos hk hd hs) le_rfl) hk
    · have hk : 0 ≤ p.lam := by rw [Rd.le_def, Rd.zero_val]; exact hpos.le
      exact Rd.div_le_div_right' (Rd.sub_le_sub' (Rd.pow_le_pow_base hk hd hs) le_rfl) hk
  · exact Rd.log_le_log' hd hs

theorem BoxCox1lam.fwd_mono_fp (p : BoxCox1lam.Params (Rd M)) {x1 x2 : Rd M} (h : x1 ≤ x2) (hd : 0 < x1 + p.nu) :
    BoxCox1lam.fwd p x1 ≤ BoxCox1lam.fwd p x2 := BoxCox2.fwd_mono_fp (BoxCox1lam.toBC p) h hd

theorem BoxCox1nu.fwd_mono_fp (p : BoxCox1nu.Params (Rd M)) {x1 x2 : Rd M} (h : x1 ≤ x2) (hd : 0 < x1 + p.nu) :
    BoxCox1nu.fwd p x1 ≤ BoxCox1nu.fwd p x2 := BoxCox2.fwd_mono_fp (BoxCox1nu.toBC p) h hd

/-- across the junction too: for ALL ordered pairs of the real line (the exact-arithmetic theorem is
`BoxCox2sym.strictMono`); the only hypothesis is that `BC(0)` exists as computed, `0 + nu > 0` -/
theorem BoxCox2sym.fwd_mono_fp (p : BoxCox2sym.Params (Rd M)) {x1 x2 : Rd M} (h : x1 ≤ x2) (hnu : 0 < 0 + p.nu) :
    BoxCox2sym.fwd p x1 ≤ BoxCox2sym.fwd p x2 := by
  -- `g` = the inner Box-Cox on non-negative arguments, increasing there
  have hg : ∀ a b : Rd M, 0 ≤ a → a ≤ b → BoxCox2.fwd (BoxCox2sym.toBC p) a ≤ BoxCox2.fwd (BoxCox2sym.toBC p) b := by
    intro a b ha hab
    refine BoxCox2.fwd_mono_fp (BoxCox2sym.toBC p) hab ?_
    exact lt_of_lt_of_le hnu (Rd.add_le_add' ha le_rfl)
  have hG : ∀ a : Rd M, 0 ≤ a → 0 ≤ BoxCox2.fwd (BoxCox2sym.toBC p) a - BoxCox2sym.y0 p := by
    intro a ha
    exact Rd.sub_nonneg' (hg 0 a le_rfl ha)
  have habs : ∀ a : Rd M, (0 : Rd M) ≤ absv a := Rd.absv_nonneg
  unfold BoxCox2sym.fwd sign
  by_cases h1p : 0 < x1
  · have h2p : 0 < x2 := lt_of_lt_of_le h1p h
    have e1 : absv x1 = x1 := by unfold absv; rw [if_neg (not_lt.mpr h1p.le)]
    have e2 : absv x2 = x2 := by unfold absv; rw [if_neg (not_lt.mpr h2p.le)]
    rw [if_pos h1p, if_pos h2p, e1, e2]
    exact Rd.mul_le_mul_left' (Rd.sub_le_sub' (hg x1 x2 h1p.le h) le_rfl) Rd.one_pos'.le
  · rw [if_neg h1p]
    -- the image of x1 is ≤ 0
    have hleft : (if x1 < 0 then (-1 : Rd M) else 0) * (BoxCox2.fwd (BoxCox2sym.toBC p) (absv x1) - BoxCox2sym.y0 p) ≤ 0 := by
      have hGn := hG (absv x1) (habs x1)
      rw [Rd.le_def, Rd.zero_val] at hGn
      split_ifs
      · rw [Rd.le_def, Rd.mul_val, Rd.zero_val, Rd.neg_val, Rd.one_val]
        exact Rd.rnd_nonpos (by nlinarith)
      · rw [Rd.le_def, Rd.mul_val, Rd.zero_val]
        simp [M.rnd_zero]
    by_cases h2p : 0 < x2
    · rw [if_pos h2p]
      refine le_trans hleft ?_
      exact Rd.mul_nonneg' Rd.one_pos'.le (hG (absv x2) (habs x2))
    · rw [if_neg h2p]
      by_cases h2n : x2 < 0
      · have h1n : x1 < 0 := lt_of_le_of_lt h h2n
        have e1 : absv x1 = -x1 := by unfold absv; rw [if_pos h1n]
        have e2 : absv x2 = -x2 := by unfold absv; rw [if_pos h2n]
        rw [if_pos h1n, if_pos h2n, e1, e2]
        have hx : -x2 ≤ -x1 := Rd.neg_le_neg' h
        have h0 : (0 : Rd M) ≤ -x2 := by
          rw [Rd.le_def, Rd.zero_val, Rd.neg_val]
          rw [Rd.lt_def, Rd.zero_val] at h2n
          linarith
        exact Rd.mul_le_mul_left_of_nonpos (Rd.sub_le_sub' (hg (-x2) (-x1) h0 hx) le_rfl) Rd.neg_one_nonpos
      · rw [if_neg h2n]
        refine le_trans hleft ?_
        rw [Rd.le_def, Rd.mul_val, Rd.zero_val]
        simp [M.rnd_zero]

/-- on each side of the switch `w = EPS` (both points on the power/log formula of the same side); `scale ≥ 0` is the
declared bound `scale ≥ 1e-5` -/
theorem YeoJohnson.fwdW_mono_fp (lam : Rd M) {w1 w2 : Rd M} (h : w1 ≤ w2) (side : eps ≤ w1 ∨ ¬ eps ≤ w2) :
    YeoJohnson.fwdW lam w1 ≤ YeoJohnson.fwdW lam w2 := by
  unfold YeoJohnson.fwdW
  rcases side with hp | hn
  · have hp2 : eps ≤ w2 := le_trans hp h
    rw [if_pos hp, if_pos hp2]
    have hpos := Rd.add_one_pos hp
    have hs : w1 + 1 ≤ w2 + 1 := Rd.add_le_add' h le_rfl
    split_ifs
    · exact Rd.log_le_log' hpos hs
    · rcases le_total (0 : ℝ) lam.val with hk | hk
      · have hk' : (0 : Rd M) ≤ lam := by rw [Rd.le_def, Rd.zero_val]; exact hk
        exact Rd.div_le_div_right' (Rd.sub_le_sub' (Rd.pow_le_pow_base hk' hpos hs) le_rfl) hk'
      · have hk' : lam ≤ (0 : Rd M) := by rw [Rd.le_def, Rd.zero_val]; exact hk
        exact Rd.div_le_div_right_of_nonpos (Rd.sub_le_sub' (Rd.pow_le_pow_base_of_nonpos hk' hpos hs) le_rfl) hk'
  · have hn1 : ¬ eps ≤ w1 := fun hc => hn (le_trans hc h)
    rw [if_neg hn1, if_neg hn]
    have hpos := Rd.neg_add_one_pos hn
    have hs : -w2 + 1 ≤ -w1 + 1 := Rd.add_le_add' (Rd.neg_le_neg' h) le_rfl
    split_ifs
    · exact Rd.neg_le_neg' (Rd.log_le_log' hpos hs)
    · rcases le_total (0 : ℝ) (2 - lam).val with hk | hk
      · have hk' : (0 : Rd M) ≤ 2 - lam := by rw [Rd.le_def, Rd.zero_val]; exact hk
        exact Rd.div_le_div_right' (Rd.neg_le_neg' (Rd.sub_le_sub' (Rd.pow_le_pow_base hk' hpos hs) le_rfl)) hk'
      · have hk' : 2 - lam ≤ (0 : Rd M) := by rw [Rd.le_def, Rd.zero_val]; exact hk
        exact Rd.div_le_div_right_of_nonpos
          (Rd.neg_le_neg' (Rd.sub_le_sub' (Rd.pow_le_pow_base_of_nonpos hk' hpos hs) le_rfl)) hk'

theorem YeoJohnson.fwd_mono_fp (p : YeoJohnson.Params (Rd M)) (hs : 0 ≤ p.scale) {x1 x2 : Rd M} (h : x1 ≤ x2)
    (side : eps ≤ p.nu + x1 * p.scale ∨ ¬ eps ≤ p.nu + x2 * p.scale) :
    YeoJohnson.fwd p x1 ≤ YeoJohnson.fwd p x2 :=
  YeoJohnson.fwdW_mono_fp p.lam (Rd.add_le_add' le_rfl (Rd.mul_le_mul_right' h hs)) side

theorem LogSinh.fwd_mono_fp (p : LogSinh.Params (Rd M)) (hx : 0 ≤ p.xmax) {x1 x2 : Rd M} (h : x1 ≤ x2)
    (hd : 0 < (1 - Transc.exp (-2 * (LogSinh.a p + LogSinh.b p * (x1 / p.xmax)))) / 2) :
    LogSinh.fwd p x1 ≤ LogSinh.fwd p x2 := by
  unfold LogSinh.fwd
  have hb : (0 : Rd M) ≤ LogSinh.b p := Rd.exp_nonneg' _
  have hw : LogSinh.a p + LogSinh.b p * (x1 / p.xmax) ≤ LogSinh.a p + LogSinh.b p * (x2 / p.xmax) :=
    Rd.add_le_add' le_rfl (Rd.mul_le_mul_left' (Rd.div_le_div_right' h hx) hb)
  have he := Rd.exp_le_exp' (Rd.mul_le_mul_left_of_nonpos hw Rd.neg_two_nonpos)
  have hq := Rd.div_le_div_right' (Rd.sub_le_sub' (le_refl (1 : Rd M)) he) (Rd.two_pos (M := M)).le
  exact Rd.div_le_div_right' (Rd.add_le_add' hw (Rd.log_le_log' hd hq)) hb

theorem Reciprocal.fwd_mono_fp (p : Reciprocal.Params (Rd M)) {x1 x2 : Rd M} (h : x1 ≤ x2) (hd : 0 < p.nu + x1) :
    Reciprocal.fwd p x1 ≤ Reciprocal.fwd p x2 :=
  Rd.div_le_div_left_nonpos Rd.neg_one_nonpos hd (Rd.add_le_add' le_rfl h)

theorem Sinh.fwd_mono_fp (p : Sinh.Params (Rd M)) (hs : 0 ≤ p.scale) {x1 x2 : Rd M} (h : x1 ≤ x2) :
    Sinh.fwd p x1 ≤ Sinh.fwd p x2 :=
  Rd.asinh_le_asinh' (Rd.mul_le_mul_right' (Rd.sub_le_sub' h le_rfl) hs)

theorem Manly.fwd_mono_fp (p : Manly.Params (Rd M)) (hx : 0 ≤ p.xmax) {x1 x2 : Rd M} (h : x1 ≤ x2) :
    Manly.fwd p x1 ≤ Manly.fwd p x2 := by
  have hu : x1 / p.xmax ≤ x2 / p.xmax := Rd.div_le_div_right' h hx
  unfold Manly.fwd
  split_ifs with hl
  · rcases Rd.lamBig_ne hl with hneg | hpos
    · have hk : p.lam ≤ 0 := by rw [Rd.le_def, Rd.zero_val]; exact hneg.le
      exact Rd.div_le_div_right_of_nonpos
        (Rd.sub_le_sub' (Rd.exp_le_exp' (Rd.mul_le_mul_left_of_nonpos hu hk)) le_rfl) hk
    · have hk : 0 ≤ p.lam := by rw [Rd.le_def, Rd.zero_val]; exact hpos.le
      exact Rd.div_le_div_right' (Rd.sub_le_sub' (Rd.exp_le_exp' (Rd.mul_le_mul_left' hu hk)) le_rfl) hk
  · exact hu

/-! ### … and the number `jacobian` returns is never negative (the sign survives every rounding) -/

theorem Identity.jac_nonneg_fp (p : Identity.Params (Rd M)) (x : Rd M) : 0 ≤ Identity.jac p x := Rd.one_pos'.le

/-- from the `np.where` guard alone (`lower` a floating-point number) -/
theorem Logit.jacobian_nonneg_fp (p : Logit.Params (Rd M)) (hl : Rd.Repr p.lower) (x j : Rd M)
    (hj : Logit.jacobian p x = some j) : 0 ≤ j := by
  unfold Logit.jacobian C01.guard at hj
  split_ifs at hj with hg
  simp only [Bool.and_eq_true, decide_eq_true_eq] at hg
  obtain ⟨g1, g2⟩ := hg
  cases hj
  -- x - lower ≥ 0
  have he := Rd.eps_nonneg (M := M)
  rw [Rd.le_def, Rd.zero_val] at he
  have hlo : p.lower.val ≤ x.val := by
    rw [Rd.lt_def, Rd.add_val] at g1
    have : p.lower.val ≤ M.rnd (p.lower.val + (eps : Rd M).val) := by
      have := M.rnd_mono (show p.lower.val ≤ p.lower.val + (eps : Rd M).val by linarith)
      rwa [hl] at this
    linarith
  have hup : x.val ≤ (Logit.upper p).val := by
    rw [Rd.lt_def, Rd.sub_val] at g2
    have : M.rnd ((Logit.upper p).val - (eps : Rd M).val) ≤ (Logit.upper p).val := by
      have := M.rnd_mono (show (Logit.upper p).val - (eps : Rd M).val ≤ (Logit.upper p).val by linarith)
      rwa [show M.rnd (Logit.upper p).val = (Logit.upper p).val from Rd.repr_add _ _] at this
    linarith
  have hnum : (0 : Rd M) ≤ x - p.lower := Rd.sub_nonneg' hlo
  have hle : x - p.lower ≤ Logit.upper p - p.lower := Rd.sub_le_sub' hup le_rfl
  have hW : (0 : Rd M) ≤ Logit.upper p - p.lower := le_trans hnum hle
  have hv0 : (0 : Rd M) ≤ (x - p.lower) / (Logit.upper p - p.lower) := Rd.div_nonneg' hnum hW
  have hv1 : (x - p.lower) / (Logit.upper p - p.lower) ≤ 1 := by
    rw [Rd.le_def, Rd.div_val, Rd.one_val]
    refine Rd.rnd_le_one ?_
    rw [Rd.le_def, Rd.zero_val] at hW hnum
    rw [Rd.le_def] at hle
    exact div_le_one_of_le₀ hle hW
  unfold Logit.jac
  exact Rd.div_nonneg' (Rd.div_nonneg' (Rd.div_nonneg' Rd.one_pos'.le hW) hv0) (Rd.sub_nonneg' hv1)

theorem Log.jacobian_nonneg_fp (p : Log.Params (Rd M)) (hm : 0 ≤ p.mininu) (hb : 0 ≤ Log.bf p) (x j : Rd M)
    (hj : Log.jacobian p x = some j) : 0 ≤ j := by
  unfold Log.jacobian C01.guard at hj
  split_ifs at hj with hg
  simp only [decide_eq_true_eq] at hg
  cases hj
  unfold Log.jac
  exact Rd.div_nonneg' (Rd.div_nonneg' Rd.one_pos'.le (le_trans hm hg.le)) hb

theorem BoxCox2.jacobian_nonneg_fp (p : BoxCox2.Params (Rd M)) (hm : 0 ≤ p.mininu) (x j : Rd M)
    (hj : BoxCox2.jacobian p x = some j) : 0 ≤ j := by
  unfold BoxCox2.jacobian C01.guard at hj
  split_ifs at hj with hg
  simp only [decide_eq_true_eq] at hg
  cases hj
  have hpos : (0 : Rd M) < x + p.nu := lt_of_le_of_lt hm hg
  unfold BoxCox2.jac
  split_ifs
  · exact Rd.pow_nonneg' _ hpos
  · exact Rd.div_nonneg' Rd.one_pos'.le hpos.le

theorem BoxCox2sym.jacobian_nonneg_fp (p : BoxCox2sym.Params (Rd M)) (hm : 0 ≤ p.mininu) (x j : Rd M)
    (hj : BoxCox2sym.jacobian p x = some j) : 0 ≤ j :=
  BoxCox2.jacobian_nonneg_fp (BoxCox2sym.toBC p) hm (absv x) j hj

theorem YeoJohnson.jac_nonneg_fp (p : YeoJohnson.Params (Rd M)) (hs : 0 ≤ p.scale) (x : Rd M) :
    0 ≤ YeoJohnson.jac p x := by
  unfold YeoJohnson.jac
  refine Rd.mul_nonneg' ?_ hs
  unfold YeoJohnson.jacW
  split_ifs with hw h0 h2
  · exact Rd.div_nonneg' Rd.one_pos'.le (Rd.add_one_pos hw).le
  · exact Rd.pow_nonneg' _ (Rd.add_one_pos hw)
  · exact Rd.div_nonneg' Rd.one_pos'.le (Rd.neg_add_one_pos hw).le
  · exact Rd.pow_nonneg' _ (Rd.neg_add_one_pos hw)

theorem LogSinh.jac_nonneg_fp (p : LogSinh.Params (Rd M)) (hx : 0 ≤ p.xmax) (x : Rd M)
    (hw : 0 ≤ LogSinh.a p + LogSinh.b p * (x / p.xmax)) : 0 ≤ LogSinh.jac p x := by
  unfold LogSinh.jac
  exact Rd.mul_nonneg' (Rd.div_nonneg' Rd.one_pos'.le hx) (Rd.div_nonneg' Rd.one_pos'.le (Rd.tanh_nonneg' hw))

/-- unconditional: a reciprocal of a square -/
theorem Reciprocal.jac_nonneg_fp (p : Reciprocal.Params (Rd M)) (x : Rd M) : 0 ≤ Reciprocal.jac p x := by
  unfold Reciprocal.jac
  exact Rd.div_nonneg' Rd.one_pos'.le (Rd.mul_self_nonneg' _)

theorem Sinh.jacH_nonneg_fp (p : Sinh.Params (Rd M)) (hs : 0 ≤ p.scale) (x : Rd M) : 0 ≤ C02.Sinh.jacH p x := by
  unfold C02.Sinh.jacH C02.Sinh.hypot1
  refine Rd.div_nonneg' hs ?_
  simp only
  split_ifs
  · exact Rd.mul_nonneg' (Rd.absv_nonneg _) (Rd.sqrt_nonneg' _)
  · exact Rd.sqrt_nonneg' _

theorem Manly.jac_nonneg_fp (p : Manly.Params (Rd M)) (hx : 0 ≤ p.xmax) (x : Rd M) : 0 ≤ Manly.jac p x := by
  unfold Manly.jac
  split_ifs
  · exact Rd.div_nonneg' (Rd.exp_nonneg' _) hx
  · exact Rd.div_nonneg' Rd.one_pos'.le hx

theorem Softmax.sumFrom_nonneg_fp (xs : List (Rd M)) (acc : Rd M) (ha : 0 ≤ acc) (h : ∀ x ∈ xs, (0 : Rd M) ≤ x) :
    0 ≤ Softmax.sumFrom acc xs := by
  induction xs generalizing acc with
  | nil => exact ha
  | cons x t ih =>
    unfold Softmax.sumFrom
    exact ih _ (Rd.add_nonneg' ha (h x (by simp))) (fun y hy => h y (by simp [hy]))

theorem Softmax.prodFrom_nonneg_fp (xs : List (Rd M)) (acc : Rd M) (ha : 0 ≤ acc) (h : ∀ x ∈ xs, (0 : Rd M) ≤ x) :
    0 ≤ Softmax.prodFrom acc xs := by
  induction xs generalizing acc with
  | nil => exact ha
  | cons x t ih =>
    unfold Softmax.prodFrom
    exact ih _ (Rd.mul_nonneg' ha (h x (by simp))) (fun y hy => h y (by simp [hy]))

/-- every accepted row, of any length -/
theorem Softmax.jacobian_nonneg_fp (xs : List (Rd M)) (j : Rd M) (hj : Softmax.jacobian xs = .ok j) : 0 ≤ j := by
  unfold Softmax.jacobian at hj
  split_ifs at hj with hneg hbig
  cases hj
  have hall : ∀ x ∈ xs, (0 : Rd M) ≤ x := by
    intro x hx
    by_contra hc
    apply hneg
    unfold Softmax.anyNeg
    rw [List.any_eq_true]
    exact ⟨x, hx, by simpa using lt_of_not_ge hc⟩
  have hs0 : (0 : Rd M) ≤ Softmax.sumL xs := Softmax.sumFrom_nonneg_fp xs 0 le_rfl hall
  have hp0 : (0 : Rd M) ≤ Softmax.prodL xs := Softmax.prodFrom_nonneg_fp xs 1 Rd.one_pos'.le hall
  have hs1 : Softmax.sumL xs ≤ 1 := by
    unfold Softmax.sumTooBig at hbig
    simp only [decide_eq_true_eq, not_lt] at hbig
    refine le_trans hbig ?_
    have he := Rd.eps_nonneg (M := M)
    rw [Rd.le_def, Rd.zero_val] at he
    rw [Rd.le_def, Rd.sub_val, Rd.one_val]
    exact Rd.rnd_le_one (by linarith)
  unfold Softmax.jacRow
  exact Rd.div_nonneg' (Rd.add_nonneg' Rd.one_pos'.le (Rd.div_nonneg' hs0 (Rd.sub_nonneg' hs1))) hp0

end Rounded

/-! ### hypotheses that cannot be dropped (each excluded point is probed on the real code by the harness) -/

/-- the guard of `Log._jacobian` is wider than the domain when `mininu < 0` (a constructor option the code accepts):
`0 ≤ mininu` in `Log.dom_of_jdom` cannot be dropped -/
theorem Log.guard_wider_than_domain :
    ∃ (p : Log.Params ℝ) (x : ℝ), Log.admissible p ∧ Log.jdom p x ∧ ¬ Log.dom p x :=
  ⟨⟨-5, none, -10⟩, 0, by simp only [Log.admissible]; norm_num, by simp only [Log.jdom]; norm_num,
    by simp only [Log.dom]; norm_num⟩

/-- `base = 1` is accepted by the constructor (`math.log(1) = 0`): the formula divides by zero (`inf` in doubles; `0` in
the real-number reading of `/`): no positive Jacobian there, `0 < Log.bf p` cannot be dropped -/
theorem Log.base_one_not_pos (nu mininu x : ℝ) : Log.bf (⟨nu, some 1, mininu⟩ : Log.Params ℝ) = 0 ∧
    ¬ 0 < Log.jac (⟨nu, some 1, mininu⟩ : Log.Params ℝ) x := by
  have h : Log.bf (⟨nu, some 1, mininu⟩ : Log.Params ℝ) = 0 := by simp [Log.bf]
  exact ⟨h, by simp [Log.jac, h]⟩

/-! ### non-vacuity: every hypothesis above is met by concrete, non-trivial inputs -/

example : Logit.jdom (⟨0, 0⟩ : Logit.Params ℝ) (1 / 2) := by
  simp only [Logit.jdom, Logit.upper, transc_exp, Real.exp_zero, eps]; norm_num
example : Log.dom (⟨0.1, some 10, 1e-10⟩ : Log.Params ℝ) 1 ∧ Log.jdom (⟨0.1, some 10, 1e-10⟩ : Log.Params ℝ) 1 := by
  simp only [Log.dom, Log.jdom]; norm_num
example : 0 < Log.bf (⟨0.1, some 10, 1e-10⟩ : Log.Params ℝ) :=
  Log.bf_pos _ (fun b hb => by cases hb; norm_num)
/-- a base below one is accepted by the constructor: the excluded case is inhabited -/
example : (⟨0.1, some 0.5, 1e-10⟩ : Log.Params ℝ).base = some 0.5 ∧ (0 : ℝ) < 0.5 ∧ (0.5 : ℝ) < 1 := by norm_num
example : BoxCox2.dom (⟨0.1, 0, 1e-10⟩ : BoxCox2.Params ℝ) (-0.05) ∧
    BoxCox2.jdom (⟨0.1, 0, 1e-10⟩ : BoxCox2.Params ℝ) (-0.05) := by
  simp only [BoxCox2.dom, BoxCox2.jdom]; norm_num
/-- the guard excludes `x = 0` at the default parameters `nu = mininu` (the formula itself is defined there) -/
example : BoxCox2.dom (⟨1e-10, 1, 1e-10⟩ : BoxCox2.Params ℝ) 0 ∧ ¬ BoxCox2.jdom (⟨1e-10, 1, 1e-10⟩ : BoxCox2.Params ℝ) 0 := by
  simp only [BoxCox2.dom, BoxCox2.jdom]; norm_num
example : (0 : ℝ) < (⟨0.3, 0.5, 1e-10⟩ : BoxCox2sym.Params ℝ).nu ∧
    (⟨0.3, 0.5, 1e-10⟩ : BoxCox2sym.Params ℝ).mininu < |(-2 : ℝ)| + (⟨0.3, 0.5, 1e-10⟩ : BoxCox2sym.Params ℝ).nu := by
  norm_num
example : YeoJohnson.admissible (⟨-3, 1e-5, 2⟩ : YeoJohnson.Params ℝ) ∧
    (⟨-3, 1e-5, 2⟩ : YeoJohnson.Params ℝ).nu + 7 * (⟨-3, 1e-5, 2⟩ : YeoJohnson.Params ℝ).scale ≠ eps := by
  simp only [YeoJohnson.admissible, eps]; norm_num
example : LogSinh.admissible (⟨-1, 0, 1⟩ : LogSinh.Params ℝ) := by
  simp only [LogSinh.admissible, eps]; norm_num
example : LogSinh.dom (⟨0, 0, 1⟩ : LogSinh.Params ℝ) 1 := by
  simp only [LogSinh.dom, LogSinh.inDom, LogSinh.a, LogSinh.b, transc_exp, Real.exp_zero, eps, decide_eq_true_iff]
  norm_num
example : Reciprocal.jdom (⟨0.5, 1e-10⟩ : Reciprocal.Params ℝ) 3 := by simp only [Reciprocal.jdom]; norm_num
example : Sinh.admissible (⟨-2, 1e-10⟩ : Sinh.Params ℝ) := by simp only [Sinh.admissible]; norm_num
example : Manly.admissible (⟨0, 2⟩ : Manly.Params ℝ) ∧ Manly.admissible (⟨-5, 1e-10⟩ : Manly.Params ℝ) := by
  simp only [Manly.admissible, eps]; norm_num
example : Softmax.dom ([0.2, 0.3, 0.1] : List ℝ) := by
  refine ⟨?_, ?_⟩
  · intro x hx; simp only [List.mem_cons, List.not_mem_nil, or_false] at hx
    rcases hx with rfl | rfl | rfl <;> norm_num
  · simp only [Softmax.sumL, Softmax.sumFrom, eps]; norm_num
example : (∀ k : Fin 2, (0 : ℝ) < ![0.2, 0.3] k) ∧ ∑ k : Fin 2, (![0.2, 0.3] : Fin 2 → ℝ) k < 1 := by
  refine ⟨fun k => ?_, ?_⟩
  · fin_cases k <;> norm_num
  · norm_num [Fin.sum_univ_two]

example : ¬ Logit.jdom (⟨0, 0⟩ : Logit.Params ℝ) (1e-11) := by
  simp only [Logit.jdom, Logit.upper, transc_exp, Real.exp_zero, eps]; norm_num
example : ¬ LogSinh.dom (⟨0, 0, 1⟩ : LogSinh.Params ℝ) (-1) := by
  simp only [LogSinh.dom, LogSinh.inDom, LogSinh.a, LogSinh.b, transc_exp, Real.exp_zero, eps, decide_eq_true_iff]
  norm_num
example : (∃ x ∈ ([0.2, -0.1] : List ℝ), x < 0) := ⟨-0.1, by simp, by norm_num⟩


/-! ### non-vacuity of the object-history and rounded-arithmetic theorems -/
example : ∃ o, mk .Sinh (Ctor.default : Ctor ℝ) = .ok o := ⟨_, rfl⟩
example : ∃ o, mk .YeoJohnson (Ctor.default : Ctor ℝ) = .ok o := ⟨_, rfl⟩
example : ∃ o, mk .Manly (Ctor.default : Ctor ℝ) = .ok o := ⟨_, rfl⟩
example : ∃ o, mk .LogSinh (Ctor.default : Ctor ℝ) = .ok o := ⟨_, rfl⟩
example : ∃ o, mk .BoxCox2sym (⟨1e-10, 0, none⟩ : Ctor ℝ) = .ok o ∧ (0 : ℝ) < 1e-10 := by
  refine ⟨build .BoxCox2sym ⟨1e-10, 0, none⟩, ?_, by norm_num⟩
  have : bcGuard (⟨1e-10, 0, none⟩ : Ctor ℝ) = .ok () := by
    unfold bcGuard eps
    norm_num
  simp [mk, ctorGuard, this]
example : ∃ o, mk .BoxCox1lam (⟨1e-10, -3, none⟩ : Ctor ℝ) = .ok o := by
  refine ⟨build .BoxCox1lam ⟨1e-10, -3, none⟩, ?_⟩
  have : bcGuard (⟨1e-10, -3, none⟩ : Ctor ℝ) = .ok () := by
    unfold bcGuard eps
    norm_num
  simp [mk, ctorGuard, this]
/-- a clipped assignment: `scale = -5` is stored as 1e-10 -/
example : (step (build .Sinh (Ctor.default : Ctor ℝ)) (.setAttr "scale" (some (-5)))).1.params.vals
    = [some 0, some 1e-10] := by
  simp [step, setAttr, build, Vec.ofSlots, paramSlots, Vec.names, Vec.setName, Vec.setIdx, Vec.clipAll,
    clipO, clip, Except.map]
  norm_num
example : (step (build .Sinh (Ctor.default : Ctor ℝ)) (.setAttr "nu" none)).2 = .rejected .nanValue := by
  simp [step, setAttr, build, Vec.ofSlots, paramSlots, Vec.names, Vec.setName, Except.map]
example : mk .BoxCox2 (⟨1e-10, -4, none⟩ : Ctor ℝ) = .error .minilamBelowM3 :=
  (mk_rejects .BoxCox2 _ (Or.inl rfl)).1 (by norm_num)

/-- the rounded statements are not vacuous: the exact arithmetic is a model, and the hypotheses hold at ordinary points -/
example : (0 : Rd FP.exact) < (⟨1⟩ : Rd FP.exact) + (⟨0.1⟩ : Rd FP.exact) ∧
    (0 : Rd FP.exact) < Log.bf (⟨⟨0.1⟩, none, ⟨1e-10⟩⟩ : Log.Params (Rd FP.exact)) := by
  constructor
  · rw [Rd.lt_def, Rd.zero_val, Rd.add_val]; show (0 : ℝ) < id (1 + 0.1); norm_num
  · exact Rd.one_pos'
example : Rd.Repr (⟨3⟩ : Rd FP.exact) := rfl
example : (0 : Rd FP.exact) ≤ (⟨1e-5⟩ : Rd FP.exact) := by rw [Rd.le_def, Rd.zero_val]; norm_num
example : Softmax.jacobian ([⟨0.25⟩, ⟨0.5⟩] : List (Rd FP.exact)) = .ok (Softmax.jacRow [⟨0.25⟩, ⟨0.5⟩]) := by
  have h1 : Softmax.anyNeg ([⟨0.25⟩, ⟨0.5⟩] : List (Rd FP.exact)) = false := by
    simp [Softmax.anyNeg, Rd.lt_def]
    norm_num
  have h2 : Softmax.sumTooBig ([⟨0.25⟩, ⟨0.5⟩] : List (Rd FP.exact)) = false := by
    simp [Softmax.sumTooBig, Softmax.sumL, Softmax.sumFrom, Rd.lt_def, Rd.eps_val]
    show id (id (0.25 : ℝ) + 0.5) ≤ id ((1 : ℝ) - id 1e-10)
    simp only [id]
    norm_num
  simp [Softmax.jacobian, h1, h2]

end HydroVerif.C02
