/-
C02 — property theorems (only). Model: `Model/C01.lean` (`X.fwd`, `X.jac`, `X.jacobian`) + `Model/C02.lean`
(`X.jdom`, Softmax partial-derivative matrix); helper lemmas: `Lemmas/C01Real.lean`, `Lemmas/C02*.lean`.

For every transform class, over ℝ, for every parameter vector inside the declared bounds and every branch:
* `X.hasDerivAt`    `HasDerivAt (fun t => X.fwd p t) (X.jac p x) x` at every point of the (open) domain of the
                    smooth branch that contains `x`;
* `X.jac_pos`       `0 < X.jac p x` there;
* `X.jacobian_spec` on the set where `_jacobian` returns a number (its `np.where` guard) that number is
                    `X.jac p x`, it is positive and it is the derivative of the forward formula;
* `X.strictMonoOn`  the forward formula is strictly increasing on the domain.
-/
import HydroVerif.Lemmas.C02
import HydroVerif.Lemmas.C02Softmax

namespace HydroVerif.C02
open HydroVerif.C01 Set Filter Topology

/-! ### Identity -/

theorem Identity.hasDerivAt (p : Identity.Params ℝ) (x : ℝ) :
    HasDerivAt (fun t => Identity.fwd p t) (Identity.jac p x) x := hasDerivAt_id x

theorem Identity.jac_pos (p : Identity.Params ℝ) (x : ℝ) : 0 < Identity.jac p x := one_pos

theorem Identity.jacobian_spec (p : Identity.Params ℝ) (x : ℝ) :
    ∃ j, Identity.jacobian p x = some j ∧ 0 < j ∧ HasDerivAt (fun t => Identity.fwd p t) j x :=
  ⟨_, rfl, Identity.jac_pos p x, Identity.hasDerivAt p x⟩

theorem Identity.strictMono (p : Identity.Params ℝ) : StrictMono (fun t => Identity.fwd p t) :=
  fun _ _ h => h

/-! ### Logit — `log(1/(1 - v) - 1)`, `v = (x - lower)/(upper - lower)`; Jacobian `1/(upper-lower)/v/(1-v)` -/

theorem Logit.hasDerivAt (p : Logit.Params ℝ) (x : ℝ) (hx : Logit.dom p x) :
    HasDerivAt (fun t => Logit.fwd p t) (Logit.jac p x) x := by
  obtain ⟨h1, h2⟩ := hx
  have hd : Logit.upper p - p.lower = Real.exp p.logdelta := by simp [Logit.upper]
  have hup : Logit.upper p = p.lower + Real.exp p.logdelta := rfl
  simp only [Logit.fwd, Logit.jac, hd, transc_log]
  have hdpos := Real.exp_pos p.logdelta
  rw [hup] at h2
  generalize Real.exp p.logdelta = d at *
  have hv0 : 0 < (x - p.lower) / d := div_pos (by linarith) hdpos
  have hv1 : (x - p.lower) / d < 1 := by rw [div_lt_one hdpos]; linarith
  have hv : HasDerivAt (fun t => (t - p.lower) / d) (1 / d) x := ((hasDerivAt_id x).sub_const _).div_const d
  have h3 : HasDerivAt (fun t => 1 - (t - p.lower) / d) (-(1 / d)) x := hv.const_sub 1
  have h4 : HasDerivAt (fun t => 1 / (1 - (t - p.lower) / d) - 1)
      ((0 * (1 - (x - p.lower) / d) - 1 * (-(1 / d))) / (1 - (x - p.lower) / d) ^ 2) x :=
    ((hasDerivAt_const x (1 : ℝ)).fun_div h3 (by linarith)).sub_const 1
  have key : ∀ v : ℝ, 0 < v → v < 1 → (1 / (1 - v) - 1 ≠ 0) ∧
      ((0 * (1 - v) - 1 * -(1 / d)) / (1 - v) ^ 2 / (1 / (1 - v) - 1) = 1 / d / v / (1 - v)) := by
    intro v hv0 hv1
    have h1v : 1 - v ≠ 0 := by linarith
    have hq : 1 / (1 - v) - 1 = v / (1 - v) := by field_simp; ring
    refine ⟨by rw [hq]; exact (div_pos hv0 (by linarith)).ne', ?_⟩
    rw [hq]
    field_simp
    ring
  exact (h4.log (key _ hv0 hv1).1).congr_deriv (key _ hv0 hv1).2

theorem Logit.jac_pos (p : Logit.Params ℝ) (x : ℝ) (hx : Logit.dom p x) : 0 < Logit.jac p x := by
  obtain ⟨h1, h2⟩ := hx
  have hd : Logit.upper p - p.lower = Real.exp p.logdelta := by simp [Logit.upper]
  have hup : Logit.upper p = p.lower + Real.exp p.logdelta := rfl
  simp only [Logit.jac, hd]
  have hdpos := Real.exp_pos p.logdelta
  rw [hup] at h2
  generalize Real.exp p.logdelta = d at *
  have hv0 : 0 < (x - p.lower) / d := div_pos (by linarith) hdpos
  have hv1 : (x - p.lower) / d < 1 := by rw [div_lt_one hdpos]; linarith
  have : 0 < 1 - (x - p.lower) / d := by linarith
  positivity

/-- the guard `lower + EPS < x < upper - EPS` lies inside the open interval -/
theorem Logit.jdom_dom (p : Logit.Params ℝ) (x : ℝ) (hx : Logit.jdom p x) : Logit.dom p x :=
  ⟨by have := hx.1; linarith [eps_pos], by have := hx.2; linarith [eps_pos]⟩

theorem Logit.jacobian_spec (p : Logit.Params ℝ) (x : ℝ) (hx : Logit.jdom p x) :
    ∃ j, Logit.jacobian p x = some j ∧ 0 < j ∧ HasDerivAt (fun t => Logit.fwd p t) j x := by
  refine ⟨Logit.jac p x, ?_, Logit.jac_pos p x (Logit.jdom_dom p x hx), Logit.hasDerivAt p x (Logit.jdom_dom p x hx)⟩
  simp only [Logit.jacobian, C01.guard, decide_eq_true hx.1, decide_eq_true hx.2, Bool.and_self, if_true]

theorem Logit.strictMonoOn (p : Logit.Params ℝ) : StrictMonoOn (fun t => Logit.fwd p t) {x | Logit.dom p x} :=
  strictMonoOn_of_hasDerivAt_pos (f' := Logit.jac p)
    (convex_of_between fun _ hx _ hy z h1 h2 =>
      show Logit.dom p z from ⟨lt_of_lt_of_le hx.1 h1, lt_of_le_of_lt h2 hy.2⟩)
    (fun x hx => Logit.hasDerivAt p x hx) (fun x hx => Logit.jac_pos p x hx)

/-! ### Log — `log(x + nu)/log(base)`; the Jacobian `1/(x + nu)/log(base)` is the derivative for every base,
and positive exactly when `log(base) > 0` (natural logarithm, or `base > 1`) -/

theorem Log.hasDerivAt (p : Log.Params ℝ) (x : ℝ) (hx : Log.dom p x) :
    HasDerivAt (fun t => Log.fwd p t) (Log.jac p x) x := by
  simp only [Log.fwd, Log.jac, transc_log]
  have h := (hasDerivAt_bclog ((hasDerivAt_id x).add_const p.nu) hx).div_const (Log.bf p)
  refine h.congr_deriv ?_
  simp

/-- `basefactor > 0` for the natural logarithm and for every base above 1 -/
theorem Log.bf_pos (p : Log.Params ℝ) (h : ∀ b, p.base = some b → 1 < b) : 0 < Log.bf p := by
  unfold Log.bf
  cases hb : p.base with
  | none => simp
  | some b => simp only [transc_log]; exact Real.log_pos (h b hb)

theorem Log.jac_pos (p : Log.Params ℝ) (x : ℝ) (hb : 0 < Log.bf p) (hx : Log.dom p x) : 0 < Log.jac p x := by
  unfold Log.dom at hx
  simp only [Log.jac]
  positivity

/-- the hypothesis on the base is forced: for `0 < base < 1` (accepted by the constructor) the Jacobian is negative
on the whole domain — the transform is decreasing (known finding `Log/positive/base_below_one`) -/
theorem Log.jac_neg_of_base_lt_one (p : Log.Params ℝ) (x b : ℝ) (hb : p.base = some b) (hb0 : 0 < b) (hb1 : b < 1)
    (hx : Log.dom p x) : Log.jac p x < 0 := by
  unfold Log.dom at hx
  have hbf : Log.bf p < 0 := by
    simp only [Log.bf, hb, transc_log]; exact Real.log_neg hb0 hb1
  simp only [Log.jac]
  exact div_neg_of_pos_of_neg (by positivity) hbf

theorem Log.jacobian_spec (p : Log.Params ℝ) (x : ℝ) (hb : 0 < Log.bf p) (hx : Log.dom p x) (hj : Log.jdom p x) :
    ∃ j, Log.jacobian p x = some j ∧ 0 < j ∧ HasDerivAt (fun t => Log.fwd p t) j x := by
  refine ⟨Log.jac p x, ?_, Log.jac_pos p x hb hx, Log.hasDerivAt p x hx⟩
  have hj' : p.mininu < x + p.nu := hj
  simp only [Log.jacobian, C01.guard, decide_eq_true hj', if_true]

/-- with the parameter inside its bound (`nu ≥ mininu`) and `mininu ≥ 0` (every default), the guard alone suffices -/
theorem Log.dom_of_jdom (p : Log.Params ℝ) (x : ℝ) (hm : 0 ≤ p.mininu) (hj : Log.jdom p x) : Log.dom p x :=
  lt_of_le_of_lt hm hj

theorem Log.strictMonoOn (p : Log.Params ℝ) (hb : 0 < Log.bf p) :
    StrictMonoOn (fun t => Log.fwd p t) {x | Log.dom p x} :=
  strictMonoOn_of_hasDerivAt_pos (f' := Log.jac p)
    (convex_of_between fun x hx _ _ z h1 _ => by
      have : 0 < x + p.nu := hx
      show 0 < z + p.nu
      linarith)
    (fun x hx => Log.hasDerivAt p x hx) (fun x hx => Log.jac_pos p x hb hx)

/-! ### BoxCox2 — power branch `((x+nu)^lam - 1)/lam` with Jacobian `(x+nu)^(lam-1)` (`abs(lam) > EPS`), logarithm
branch with Jacobian `1/(x+nu)` (otherwise, incl. `lam = 0`) -/

theorem BoxCox2.hasDerivAt (p : BoxCox2.Params ℝ) (x : ℝ) (hx : BoxCox2.dom p x) :
    HasDerivAt (fun t => BoxCox2.fwd p t) (BoxCox2.jac p x) x := by
  unfold BoxCox2.dom at hx
  have hg : HasDerivAt (fun t : ℝ => t + p.nu) 1 x := (hasDerivAt_id x).add_const p.nu
  unfold BoxCox2.fwd BoxCox2.jac
  cases h : lamBig p.lam with
  | true =>
    simp only [if_true, transc_pow]
    exact (hasDerivAt_bcpow hg hx (lamBig_true h)).congr_deriv (by ring)
  | false =>
    simp only [Bool.false_eq_true, if_false, transc_log]
    exact (hasDerivAt_bclog hg hx).congr_deriv (by ring)

theorem BoxCox2.jac_pos (p : BoxCox2.Params ℝ) (x : ℝ) (hx : BoxCox2.dom p x) : 0 < BoxCox2.jac p x := by
  unfold BoxCox2.dom at hx
  unfold BoxCox2.jac
  cases h : lamBig p.lam with
  | true => simp only [if_true, transc_pow]; exact Real.rpow_pos_of_pos hx _
  | false => simp only [Bool.false_eq_true, if_false]; positivity

/-- where `_jacobian` returns a number (`x + nu > mininu`) inside the domain of the formula (`x + nu > 0`) -/
theorem BoxCox2.jacobian_spec (p : BoxCox2.Params ℝ) (x : ℝ) (hx : BoxCox2.dom p x) (hj : BoxCox2.jdom p x) :
    ∃ j, BoxCox2.jacobian p x = some j ∧ 0 < j ∧ HasDerivAt (fun t => BoxCox2.fwd p t) j x := by
  refine ⟨BoxCox2.jac p x, ?_, BoxCox2.jac_pos p x hx, BoxCox2.hasDerivAt p x hx⟩
  have hj' : p.mininu < x + p.nu := hj
  simp only [BoxCox2.jacobian, C01.guard, decide_eq_true hj', if_true]

theorem BoxCox2.dom_of_jdom (p : BoxCox2.Params ℝ) (x : ℝ) (hm : 0 ≤ p.mininu) (hj : BoxCox2.jdom p x) :
    BoxCox2.dom p x := lt_of_le_of_lt hm hj

/-- outside the guard the Jacobian is NaN, never a wrong number -/
theorem BoxCox2.jacobian_none (p : BoxCox2.Params ℝ) (x : ℝ) (hj : ¬ BoxCox2.jdom p x) :
    BoxCox2.jacobian p x = none := by
  have hj' : ¬ p.mininu < x + p.nu := hj
  simp only [BoxCox2.jacobian, C01.guard, decide_eq_false hj', Bool.false_eq_true, if_false]

theorem BoxCox2.strictMonoOn (p : BoxCox2.Params ℝ) :
    StrictMonoOn (fun t => BoxCox2.fwd p t) {x | BoxCox2.dom p x} :=
  fun _ hx _ _ hxy => BoxCox2.fwd_lt p hx hxy

/-! ### BoxCox1lam / BoxCox1nu — `_jacobian` re-synchronises the inner BoxCox2 and delegates -/

theorem BoxCox1lam.jacobian_spec (p : BoxCox1lam.Params ℝ) (x : ℝ) (hx : 0 < x + p.nu) (hj : p.mininu < x + p.nu) :
    ∃ j, BoxCox1lam.jacobian p x = some j ∧ 0 < j ∧ HasDerivAt (fun t => BoxCox1lam.fwd p t) j x :=
  BoxCox2.jacobian_spec (BoxCox1lam.toBC p) x hx hj

theorem BoxCox1lam.strictMonoOn (p : BoxCox1lam.Params ℝ) :
    StrictMonoOn (fun t => BoxCox1lam.fwd p t) {x | 0 < x + p.nu} :=
  BoxCox2.strictMonoOn (BoxCox1lam.toBC p)

/-- whatever the inner object held before the call (any history), `jacobian` first copies the current `nu`, `lam`
into it: the result is BoxCox2's Jacobian at the current parameters -/
theorem BoxCox1lam.state_jacobian_eq (s : BoxCox1lam.State ℝ) (nu x : ℝ) (hnu : s.nu = some nu) :
    BoxCox1lam.State.jacobian s x =
      .ok (⟨s.lam, some nu, ⟨nu, s.lam, s.bc.mininu⟩⟩, BoxCox1lam.jacobian ⟨s.lam, nu, s.bc.mininu⟩ x) := by
  cases s with
  | mk lam nu' bc => cases hnu; rfl

theorem BoxCox1lam.state_jacobian_unset (s : BoxCox1lam.State ℝ) (x : ℝ) (hnu : s.nu = none) :
    BoxCox1lam.State.jacobian s x = .error .nuUnset := by
  cases s with
  | mk lam nu' bc => cases hnu; rfl

theorem BoxCox1nu.jacobian_spec (p : BoxCox1nu.Params ℝ) (x : ℝ) (hx : 0 < x + p.nu) (hj : p.mininu < x + p.nu) :
    ∃ j, BoxCox1nu.jacobian p x = some j ∧ 0 < j ∧ HasDerivAt (fun t => BoxCox1nu.fwd p t) j x :=
  BoxCox2.jacobian_spec (BoxCox1nu.toBC p) x hx hj

theorem BoxCox1nu.strictMonoOn (p : BoxCox1nu.Params ℝ) :
    StrictMonoOn (fun t => BoxCox1nu.fwd p t) {x | 0 < x + p.nu} :=
  BoxCox2.strictMonoOn (BoxCox1nu.toBC p)

theorem BoxCox1nu.state_jacobian_eq (s : BoxCox1nu.State ℝ) (lam x : ℝ) (hlam : s.lam = some lam) :
    BoxCox1nu.State.jacobian s x =
      .ok (⟨s.nu, some lam, ⟨s.nu, lam, s.bc.mininu⟩⟩, BoxCox1nu.jacobian ⟨s.nu, lam, s.bc.mininu⟩ x) := by
  cases s with
  | mk nu lam' bc => cases hlam; rfl

theorem BoxCox1nu.state_jacobian_unset (s : BoxCox1nu.State ℝ) (x : ℝ) (hlam : s.lam = none) :
    BoxCox1nu.State.jacobian s x = .error .lamUnset := by
  cases s with
  | mk nu lam' bc => cases hlam; rfl

/-! ### Reciprocal — `-1/(nu + x)`, Jacobian `1/(nu + x)²` -/

theorem Reciprocal.hasDerivAt (p : Reciprocal.Params ℝ) (x : ℝ) (hx : Reciprocal.dom p x) :
    HasDerivAt (fun t => Reciprocal.fwd p t) (Reciprocal.jac p x) x := by
  unfold Reciprocal.dom at hx
  have hs : p.nu + x ≠ 0 := by linarith
  simp only [Reciprocal.fwd, Reciprocal.jac]
  have h : HasDerivAt (fun t => -1 / (p.nu + t)) ((0 * (p.nu + x) - -1 * 1) / (p.nu + x) ^ 2) x :=
    (hasDerivAt_const x (-1 : ℝ)).fun_div ((hasDerivAt_id x).const_add p.nu) hs
  refine h.congr_deriv ?_
  field_simp
  ring

theorem Reciprocal.jac_pos (p : Reciprocal.Params ℝ) (x : ℝ) (hx : Reciprocal.dom p x) : 0 < Reciprocal.jac p x := by
  unfold Reciprocal.dom at hx
  have hs : 0 < p.nu + x := by linarith
  simp only [Reciprocal.jac]
  positivity

theorem Reciprocal.jacobian_spec (p : Reciprocal.Params ℝ) (x : ℝ) (hx : Reciprocal.jdom p x) :
    ∃ j, Reciprocal.jacobian p x = some j ∧ 0 < j ∧ HasDerivAt (fun t => Reciprocal.fwd p t) j x := by
  have hx' : -p.nu < x := hx
  refine ⟨Reciprocal.jac p x, ?_, Reciprocal.jac_pos p x hx', Reciprocal.hasDerivAt p x hx'⟩
  simp only [Reciprocal.jacobian, C01.guard, decide_eq_true hx', if_true]

theorem Reciprocal.strictMonoOn (p : Reciprocal.Params ℝ) :
    StrictMonoOn (fun t => Reciprocal.fwd p t) {x | Reciprocal.dom p x} :=
  strictMonoOn_of_hasDerivAt_pos (f' := Reciprocal.jac p)
    (convex_of_between fun x hx _ _ z h1 _ => by
      have : -p.nu < x := hx
      show -p.nu < z
      linarith)
    (fun x hx => Reciprocal.hasDerivAt p x hx) (fun x hx => Reciprocal.jac_pos p x hx)

/-! ### Sinh — `arcsinh((x - nu) scale)`, Jacobian `scale / sqrt(1 + u²)`; all of ℝ -/

theorem Sinh.hasDerivAt (p : Sinh.Params ℝ) (x : ℝ) :
    HasDerivAt (fun t => Sinh.fwd p t) (Sinh.jac p x) x := by
  simp only [Sinh.fwd, Sinh.jac, transc_asinh, transc_sqrt]
  have hu : HasDerivAt (fun t => (t - p.nu) * p.scale) (1 * p.scale) x :=
    ((hasDerivAt_id x).sub_const p.nu).mul_const p.scale
  have h := (Real.hasDerivAt_arsinh ((x - p.nu) * p.scale)).comp x hu
  refine h.congr_deriv ?_
  rw [show (x - p.nu) * p.scale * ((x - p.nu) * p.scale) = ((x - p.nu) * p.scale) ^ 2 by ring]
  ring

theorem Sinh.scale_pos (p : Sinh.Params ℝ) (hp : Sinh.admissible p) : 0 < p.scale := by
  unfold Sinh.admissible at hp
  have : (0 : ℝ) < 1e-10 := by norm_num
  linarith

theorem Sinh.jac_pos (p : Sinh.Params ℝ) (x : ℝ) (hp : Sinh.admissible p) : 0 < Sinh.jac p x := by
  have hs := Sinh.scale_pos p hp
  simp only [Sinh.jac, transc_sqrt]
  have : 0 < 1 + (x - p.nu) * p.scale * ((x - p.nu) * p.scale) := by nlinarith [mul_self_nonneg ((x - p.nu) * p.scale)]
  exact div_pos hs (Real.sqrt_pos.mpr this)

theorem Sinh.jacobian_spec (p : Sinh.Params ℝ) (x : ℝ) (hp : Sinh.admissible p) :
    ∃ j, Sinh.jacobian p x = some j ∧ 0 < j ∧ HasDerivAt (fun t => Sinh.fwd p t) j x :=
  ⟨_, rfl, Sinh.jac_pos p x hp, Sinh.hasDerivAt p x⟩

theorem Sinh.strictMono (p : Sinh.Params ℝ) (hp : Sinh.admissible p) : StrictMono (fun t => Sinh.fwd p t) := by
  rw [← strictMonoOn_univ]
  exact strictMonoOn_of_hasDerivAt_pos (f' := Sinh.jac p) convex_univ
    (fun x _ => Sinh.hasDerivAt p x) (fun x _ => Sinh.jac_pos p x hp)

/-! ### Manly (repaired branch test) — `(exp(lam x/xmax) - 1)/lam` with Jacobian `exp(lam x/xmax)/xmax`
(`abs(lam) > EPS`), `x/xmax` with Jacobian `1/xmax` (otherwise, incl. `lam = 0`) -/

theorem Manly.hasDerivAt (p : Manly.Params ℝ) (x : ℝ) :
    HasDerivAt (fun t => Manly.fwd p t) (Manly.jac p x) x := by
  have hu : HasDerivAt (fun t : ℝ => t / p.xmax) (1 / p.xmax) x := (hasDerivAt_id x).div_const p.xmax
  unfold Manly.fwd Manly.jac
  cases h : lamBig p.lam with
  | true =>
    have hl := lamBig_true h
    simp only [if_true, transc_exp]
    have h1 : HasDerivAt (fun t => (Real.exp (p.lam * (t / p.xmax)) - 1) / p.lam)
        (Real.exp (p.lam * (x / p.xmax)) * (p.lam * (1 / p.xmax)) / p.lam) x :=
      (((hu.const_mul p.lam).exp).sub_const 1).div_const p.lam
    refine h1.congr_deriv ?_
    field_simp
  | false =>
    simp only [Bool.false_eq_true, if_false]
    exact hu

theorem Manly.xmax_pos (p : Manly.Params ℝ) (hp : Manly.admissible p) : 0 < p.xmax :=
  lt_of_lt_of_le eps_pos hp.2.2

theorem Manly.jac_pos (p : Manly.Params ℝ) (x : ℝ) (hp : Manly.admissible p) : 0 < Manly.jac p x := by
  have hxm := Manly.xmax_pos p hp
  unfold Manly.jac
  cases h : lamBig p.lam with
  | true => simp only [if_true, transc_exp]; exact div_pos (Real.exp_pos _) hxm
  | false => simp only [Bool.false_eq_true, if_false]; positivity

theorem Manly.jacobian_spec (p : Manly.Params ℝ) (x : ℝ) (hp : Manly.admissible p) :
    ∃ j, Manly.jacobian p x = some j ∧ 0 < j ∧ HasDerivAt (fun t => Manly.fwd p t) j x :=
  ⟨_, rfl, Manly.jac_pos p x hp, Manly.hasDerivAt p x⟩

theorem Manly.strictMono (p : Manly.Params ℝ) (hp : Manly.admissible p) : StrictMono (fun t => Manly.fwd p t) := by
  rw [← strictMonoOn_univ]
  exact strictMonoOn_of_hasDerivAt_pos (f' := Manly.jac p) convex_univ
    (fun x _ => Manly.hasDerivAt p x) (fun x _ => Manly.jac_pos p x hp)

/-- `lam = 0` exactly takes the identity branch: Jacobian `1/xmax` (the pinned code raised AttributeError) -/
theorem Manly.jac_lam_zero (xmax x : ℝ) : Manly.jac ⟨0, xmax⟩ x = 1 / xmax := by
  have h : lamBig (0 : ℝ) = false := by
    unfold lamBig; rw [decide_eq_false_iff_not, absv_eq, abs_zero]; exact not_lt.mpr eps_pos.le
  simp [Manly.jac, h]

theorem Manly.state_jacobian_unset (s : Manly.State ℝ) (x : ℝ) (h : s.xmax = none) :
    Manly.State.jacobian s x = .error .xmaxUnset := by
  cases s with
  | mk l xm => cases h; rfl

theorem Manly.state_jacobian_set (s : Manly.State ℝ) (x xm : ℝ) (h : s.xmax = some xm) :
    Manly.State.jacobian s x = .ok (Manly.jacobian ⟨s.lam, xm⟩ x) := by
  cases s with
  | mk l xm' => cases h; rfl

/-! ### LogSinh — `(w + log((1 - exp(-2w))/2))/b`, `w = a + b x/xmax`; Jacobian `(1/xmax) / tanh(w)` -/

theorem LogSinh.xmax_pos (p : LogSinh.Params ℝ) (hp : LogSinh.admissible p) : 0 < p.xmax :=
  lt_of_lt_of_le eps_pos hp.2.2.2.2

/-- inside the guard `x/xmax > -a/b + EPS` the argument of `sinh` is positive -/
theorem LogSinh.w_pos (p : LogSinh.Params ℝ) (x : ℝ) (hx : LogSinh.dom p x) :
    0 < LogSinh.a p + LogSinh.b p * (x / p.xmax) := by
  have hb : 0 < LogSinh.b p := Real.exp_pos _
  unfold LogSinh.dom LogSinh.inDom at hx
  rw [decide_eq_true_iff] at hx
  have h1 : -LogSinh.a p / LogSinh.b p < x / p.xmax := by linarith [eps_pos]
  rw [div_lt_iff₀ hb] at h1
  linarith

theorem LogSinh.hasDerivAt (p : LogSinh.Params ℝ) (x : ℝ) (hp : LogSinh.admissible p) (hx : LogSinh.dom p x) :
    HasDerivAt (fun t => LogSinh.fwd p t) (LogSinh.jac p x) x := by
  have hxm := (LogSinh.xmax_pos p hp).ne'
  have hb : LogSinh.b p ≠ 0 := (Real.exp_pos _).ne'
  have hw := LogSinh.w_pos p x hx
  simp only [LogSinh.fwd, LogSinh.jac, transc_log, transc_exp, transc_tanh]
  have hg : HasDerivAt (fun t => LogSinh.a p + LogSinh.b p * (t / p.xmax)) (LogSinh.b p * (1 / p.xmax)) x :=
    (((hasDerivAt_id x).div_const p.xmax).const_mul (LogSinh.b p)).const_add (LogSinh.a p)
  have h := (hasDerivAt_logsinh_core hg hw).div_const (LogSinh.b p)
  refine h.congr_deriv ?_
  field_simp

theorem LogSinh.jac_pos (p : LogSinh.Params ℝ) (x : ℝ) (hp : LogSinh.admissible p) (hx : LogSinh.dom p x) :
    0 < LogSinh.jac p x := by
  have hxm := LogSinh.xmax_pos p hp
  have hw := LogSinh.w_pos p x hx
  simp only [LogSinh.jac, transc_tanh]
  have := tanh_pos hw
  positivity

theorem LogSinh.jacobian_spec (p : LogSinh.Params ℝ) (x : ℝ) (hp : LogSinh.admissible p) (hx : LogSinh.dom p x) :
    ∃ j, LogSinh.jacobian p x = some j ∧ 0 < j ∧ HasDerivAt (fun t => LogSinh.fwd p t) j x := by
  refine ⟨LogSinh.jac p x, ?_, LogSinh.jac_pos p x hp hx, LogSinh.hasDerivAt p x hp hx⟩
  have hx' : LogSinh.inDom p x = true := hx
  simp only [LogSinh.jacobian, C01.guard, hx', if_true]

theorem LogSinh.strictMonoOn (p : LogSinh.Params ℝ) (hp : LogSinh.admissible p) :
    StrictMonoOn (fun t => LogSinh.fwd p t) {x | LogSinh.dom p x} := by
  have hxm := LogSinh.xmax_pos p hp
  refine strictMonoOn_of_hasDerivAt_pos (f' := LogSinh.jac p) (convex_of_between ?_)
    (fun x hx => LogSinh.hasDerivAt p x hp hx) (fun x hx => LogSinh.jac_pos p x hp hx)
  intro x hx _ _ z h1 _
  have hx' : LogSinh.inDom p x = true := hx
  show LogSinh.inDom p z = true
  unfold LogSinh.inDom at hx' ⊢
  rw [decide_eq_true_iff] at hx' ⊢
  have : x / p.xmax ≤ z / p.xmax := div_le_div_of_nonneg_right h1 hxm.le
  linarith

theorem LogSinh.state_jacobian_unset (s : LogSinh.State ℝ) (x : ℝ) (h : s.xmax = none) :
    LogSinh.State.jacobian s x = .error .xmaxUnset := by
  cases s with
  | mk a b xm => cases h; rfl

theorem LogSinh.state_jacobian_set (s : LogSinh.State ℝ) (x xm : ℝ) (h : s.xmax = some xm) :
    LogSinh.State.jacobian s x = .ok (LogSinh.jacobian ⟨s.loga, s.logb, xm⟩ x) := by
  cases s with
  | mk a b xm' => cases h; rfl

end HydroVerif.C02
