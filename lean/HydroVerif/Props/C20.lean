import HydroVerif.Model.C20
namespace HydroVerif.C20
theorem placeholder_c20 : paretoFront (1 : Rat) [] = [] := rfl
end HydroVerif.C20
