/-
C20 — property theorems. Model: `HydroVerif/Model/C20.lean`; helper lemmas: `Lemmas/C20*.lean`.
All statements are over an arbitrary ordered field `α` (so over ℚ and ℝ; with a floor function for the quantile part),
for every size. Every model function named below is executed by `Drivers/C20.lean` and compared with the real code.
Second part of the model (round 7): `HydroVerif/Model/C20X.lean`, lemmas `Lemmas/C20X.lean`.

Clause of the property → theorems → what stays outside the theorems
* lhs: exactly one point in each of the n equal strata of every parameter range (sizes 1.., 1..6 parameters, arbitrary finite ranges)
    theorems: lhsColumn_one_point_per_stratum, lhsColumn_in_range, lhs_jitter_range, lhsColumns_one_point_per_stratum, lhs_one_point_per_stratum, lhs_broadcast, lhsUnit_one_point_per_stratum
    outside: np.random.permutation returns a permutation and uniform(low,high)=low+(high-low)r with r in [0,1) (hypotheses; checked on every recorded draw); IEEE rounding at stratum edges (oracle tolerance; a sample can sit one rounding error across an edge, so no exact float statement exists); lhs_norm: norm.ppf and the Cholesky factor are external (applied by the harness to the model's probabilities)
* lhs glue: pmax of length 1 broadcast, wrong length / pmax<=pmin / nsamples=0 rejected
    theorems: lhs_broadcast, lhs_rejects_length, lhs_rejects_empty_range, lhs_rejects_zero_samples
    outside: int()/astype conversions of the arguments (exercised with integer bounds handed over as Python ints / int32 / int64 arrays); error kinds compared as ok/err only
* ppos: strictly increasing, in (0,1), symmetric about 0.5, for all sizes and constants in [0,0.5]; constants outside rejected
    theorems: ppos_accepts, ppos_rejects, ppos_strictly_increasing, ppos_in_unit_interval, ppos_symmetric, pposR_exact, pposR_in_unit_interval, pposR_nondecreasing
    outside: nothing: exact-field theorems (strict), plus for ANY monotone rounding fixing 0 and 1 after each operation the positions stay in [0,1] and never decrease (pposR_*); strictness under rounding is not claimed. Float instance compared bit-for-bit, exact-rational instance within 1e-14, exact rationals with 53-bit rounding (pposR rnd53) equal to numpy's doubles exactly
* normal scores are a strictly increasing function of the data ranks (NaN-free vectors, with and without ties)
    theorems: standardNormal_eq, rank_order_preserving, normal_scores_argument_in_unit_interval, normal_scores_increasing_in_rank, standardNormalSorted_increasing, standardNormal_rejects_nan, standardNormalSorted_rejects_nan, standardNormalX_std, rankDense_order_preserving, ranksFirst_order, normal_scores_increasing_in_any_rank, normal_scores_argument_cst_needed
    outside: norm.ppf is a parameter (hypothesis: strictly increasing on (0,1)); pandas rank is compared by result for all five methods (average/min/max/first/dense, all modelled; float data on the Float instance, integer data of any magnitude on the exact-rational instance); standard_normal does not validate cst - the theorems assume cst in [0,0.5] as documented for ppos, normal_scores_argument_cst_needed shows the hypothesis is needed (cst=1: ppf(0)) and the real code is compared with the model at cst outside [0,0.5]
* pareto_front flags a point dominated exactly when another point is strictly better in every non-missing coordinate
    theorems: paretoFront_length, paretoFront_flag_iff, paretoFrontNd_iff, paretoFrontX_rounding_irrelevant, paretoFrontX_rnd53, paretoFrontX_of_finite, paretoFrontX_flag_iff, paretoFrontX_same_infinity_skipped, paretoFront_orientation_sign, paretoFrontWrap_sign
    outside: Cython wrapper (astype float64, ascontiguousarray) exercised through C/Fortran/int inputs; np.int32(orientation) modelled for integer orientations only. IEEE arithmetic of the kernel: the trusted fact is that a double subtraction and the product with an integer orientation keep the sign of the exact result (hypotheses of paretoFrontX_rounding_irrelevant). ±inf coordinates are outside the property's quantifier: modelled (XVal), characterised (paretoFrontX_flag_iff: two equal infinities are skipped like a missing value) and compared with the real code, no oracle
* the non-dominated set of complete data is never empty
    theorems: paretoFront_exists_nondominated, paretoFront_no_columns_all_dominated
    outside: nothing (any orientation value, any number of points >= 1, columns >= 1; paretoFront_no_columns_all_dominated shows that `columns >= 1` is needed, probed on the real code with (n, 0) arrays)
* reversing the orientation equals negating the data
    theorems: paretoFront_orientation_neg
    outside: nothing; both sides are executed by the driver (ops pareto / paretoneg)
* box-plot summaries: count of finite values; percentiles at the levels implied by the coverages, in non-decreasing order between min and max (coverage box in [40,100), whiskers above it)
    theorems: computePercentiles_levels, quantile_linear_interpolation, quantile_within_min_max, quantile_monotone, quantile_zero_one, percentile_within_min_max, percentile_monotone, boxStats_summary, boxStats_few_values, boxStats_ignores_nonfinite, boxStats_total
    outside: numpy's partition-based selection of order statistics is replaced by a sort (same values); pairwise summation of the mean (theorem: mean*count = sum exactly; Float within n*1e-13); the NaN row under 4 values is the code's rule, stated as boxStats_few_values
* box-plot glue: coverage guards, levels outside [0,100]
    theorems: boxplotCheck_iff, percentile_rejects_level, boxStats_rejects_whiskers_above_100, boxStatsBy_rejects_coverage, boxStatsBy_rejects_one_category, boxStatsBy_accepts, boxStatsCols_column_alone, boxStatsCols_no_rows, boxStatsCols_accepts, boxStatsCols_rejects_coverage
    outside: DataFrame/Series conversion of the input (BoxplotError on non-numeric data) not modelled; one-decimal row labels are pandas/format glue: two levels printing to the same label is the known finding Boxplot.stats/by/percentile_label_collision
* group-wise values equal those of each group taken alone (2+ categories of unequal size)
    theorems: groupBy_groups_are_buckets, groupBy_keys_increasing, boxStatsBy_group_alone, boxStatsBy_accepts
    outside: pandas groupby/apply/pivot_table are external: the model scans the rows into buckets itself; category labels are integers in the model (string and float labels, handed over as array / list / named Series, are mapped to their rank by the harness)
* violin summaries are the sample statistics of the finite values of each column
    theorems: violinStats_summary, median_eq_quantile_half, violinStats_no_finite_value
    outside: pandas median/quantile compared by result (few ulp)
* density profiles normalised to [0,1]
    theorems: normalise_unit_range, violinGrid_profile, violinGrid_no_profile, violinSelect_keeps_all, normaliseR_exact, normaliseR_unit_range, violinNpts_range
    outside: gaussian_kde is external (evaluated by the harness on the values the model selects); a flat kernel profile (all values equal) has no normalisation - hypothesis of normalise_unit_range; the 1e-6 jitter of the abscissae is an input (recorded numpy draws). Rounding: normaliseR_unit_range holds for any monotone rounding fixing 0 and 1 that keeps a positive difference positive, and the exact-rational model with 53-bit rounding gives kde_y bit for bit
* summaries are those computed at construction whatever public methods are called afterwards, in any order, accepted or refused (Boxplot object)
    theorems: boxRun_stats_unchanged, boxStep_rejected_iff, boxStep_rejected_state, boxRun_drawn_persists
    outside: matplotlib: whether an exception escapes from draw (and whether elements were stored before) is an input of the model; Violin has no refusing method - its summaries are compared before/after draw, reset_items and item setters by the harness
-/
import HydroVerif.Lemmas.C20
import HydroVerif.Lemmas.C20Quantile
import HydroVerif.Lemmas.C20Group
import HydroVerif.Lemmas.C20X

set_option linter.unusedSectionVars false
set_option linter.unusedVariables false

namespace HydroVerif.C20

section field
variable {α : Type} [Field α] [LinearOrder α] [IsStrictOrderedRing α]

/-! ### ppos -/

/-- every constant of `[0, 0.5]` is accepted and `n` positions are returned -/
theorem ppos_accepts (n : Nat) (cst : α) (h0 : 0 ≤ cst) (h1 : cst ≤ 1 / 2) :
    ∃ l, ppos n cst = .ok l ∧ l.length = n := by
  exact ⟨_, ppos_eq n cst h0 h1, by simp⟩

/-- constants outside `[0, 0.5]` are rejected -/
theorem ppos_rejects (n : Nat) (cst : α) (h : cst < 0 ∨ 1 / 2 < cst) : ppos n cst = .error .cstRange := by
  unfold ppos
  rw [if_pos h]

/-- plotting positions are strictly increasing -/
theorem ppos_strictly_increasing (n : Nat) (cst : α) (h0 : 0 ≤ cst) (h1 : cst ≤ 1 / 2) (l : List α)
    (h : ppos n cst = .ok l) : l.Pairwise (· < ·) := by
  rw [ppos_eq n cst h0 h1] at h
  injection h with h
  subst h
  rw [List.pairwise_map]
  rcases Nat.eq_zero_or_pos n with rfl | hn
  · simp
  have hden := ppos_den_pos n hn cst h1
  refine List.Pairwise.imp ?_ List.pairwise_lt_range
  intro a b hab
  apply div_lt_div_of_pos_right _ hden
  have : ((a + 1 : Nat) : α) < ((b + 1 : Nat) : α) := by exact_mod_cast Nat.succ_lt_succ hab
  linarith

/-- plotting positions lie strictly between 0 and 1 -/
theorem ppos_in_unit_interval (n : Nat) (cst : α) (h0 : 0 ≤ cst) (h1 : cst ≤ 1 / 2) (l : List α)
    (h : ppos n cst = .ok l) : ∀ p ∈ l, 0 < p ∧ p < 1 := by
  rw [ppos_eq n cst h0 h1] at h
  injection h with h
  subst h
  intro p hp
  simp only [List.mem_map, List.mem_range] at hp
  obtain ⟨i, hi, rfl⟩ := hp
  have hn : ((i + 1 : Nat) : α) ≤ (n : α) := by exact_mod_cast hi
  have hi0 : (0 : α) ≤ (i : α) := Nat.cast_nonneg i
  have hden := ppos_den_pos n (by omega) cst h1
  push_cast at hn hden ⊢
  constructor
  · apply div_pos _ hden
    linarith
  · rw [div_lt_one hden]
    linarith

/-- plotting positions are symmetric about 0.5: `p_i + p_{n-1-i} = 1` (0-based) -/
theorem ppos_symmetric (n : Nat) (cst : α) (h0 : 0 ≤ cst) (h1 : cst ≤ 1 / 2) (l : List α)
    (h : ppos n cst = .ok l) (i : Nat) (hi : i < n) :
    ∃ a b, l[i]? = some a ∧ l[n - 1 - i]? = some b ∧ a + b = 1 := by
  rw [ppos_eq n cst h0 h1] at h
  injection h with h
  subst h
  have hj : n - 1 - i < n := by omega
  refine ⟨(((i + 1 : Nat) : α) - cst) / (((n + 1 : Nat) : α) - 2 * cst),
    (((n - 1 - i + 1 : Nat) : α) - cst) / (((n + 1 : Nat) : α) - 2 * cst), ?_, ?_, ?_⟩
  · rw [List.getElem?_map, List.getElem?_range hi]; rfl
  · rw [List.getElem?_map, List.getElem?_range hj]; rfl
  · have hden := ppos_den_pos n (by omega) cst h1
    have hsum : ((i + 1 : Nat) : α) + ((n - 1 - i + 1 : Nat) : α) = ((n + 1 : Nat) : α) := by
      have : i + 1 + (n - 1 - i + 1) = n + 1 := by omega
      exact_mod_cast this
    rw [← add_div, div_eq_one_iff_eq hden.ne']
    linarith

example : ppos 3 (3 / 10 : Rat) = .ok [7 / 34, 1 / 2, 27 / 34] := by decide +kernel

/-! ### pareto front
`StrictlyBetter o rj ri`: `0 < o * (rj[k] - ri[k])` at every coordinate `k` present in both rows;
`Dominated o d i`: some `j ≠ i` has `StrictlyBetter o d[j] d[i]` (definitions in `Lemmas/C20.lean`). -/

theorem paretoFront_length (o : α) (d : List (List (Option α))) : (paretoFront o d).length = d.length := by
  simp [paretoFront]

/-- a point is flagged 1 exactly when another point is strictly better in every non-missing
coordinate, and 0 otherwise -/
theorem paretoFront_flag_iff (o : α) (d : List (List (Option α))) (i : Nat) (hi : i < d.length) :
    ((paretoFront o d)[i]? = some 1 ↔ Dominated o d i) ∧
    ((paretoFront o d)[i]? = some 0 ↔ ¬ Dominated o d i) := by
  have hget : (paretoFront o d)[i]? = some (if isDominatedAt o d i then 1 else 0) := by
    unfold paretoFront
    rw [List.getElem?_map, List.getElem?_range hi]
    rfl
  rw [hget, ← isDominatedAt_iff]
  cases isDominatedAt o d i <;> simp

/-- complete data with at least one column: some point is not dominated, whatever the orientation -/
theorem paretoFront_exists_nondominated (o : α) (d : List (List (Option α))) (ncol : Nat)
    (hcol : 0 < ncol) (hne : d ≠ []) (hrows : ∀ r ∈ d, r.length = ncol)
    (hcomplete : ∀ r ∈ d, ∀ x ∈ r, x ≠ none) :
    ∃ i, i < d.length ∧ (paretoFront o d)[i]? = some 0 := by
  -- key of a point: orientation times its first coordinate
  let f : Nat → α := fun i => match d[i]? with
    | some (some a :: _) => o * a
    | _ => 0
  have hlen : 0 < d.length := List.length_pos_iff.mpr hne
  obtain ⟨i, hi, hmax⟩ := exists_max_index f d.length hlen
  refine ⟨i, hi, ((paretoFront_flag_iff o d i hi).2).mpr ?_⟩
  rintro ⟨j, ri, rj, hne', hri, hrj, hb⟩
  have hj : j < d.length := by
    by_contra hcon
    rw [List.getElem?_eq_none (by omega)] at hrj
    cases hrj
  have hrim : ri ∈ d := List.mem_of_getElem? hri
  have hrjm : rj ∈ d := List.mem_of_getElem? hrj
  -- both rows start with a present value
  have first : ∀ r ∈ d, ∃ a t, r = some a :: t := by
    intro r hr
    cases r with
    | nil => have := hrows _ hr; simp at this; omega
    | cons x t =>
      cases x with
      | none => exact absurd rfl (hcomplete _ hr none (by simp))
      | some a => exact ⟨a, t, rfl⟩
  obtain ⟨b, tb, rfl⟩ := first ri hrim
  obtain ⟨a, ta, rfl⟩ := first rj hrjm
  have hpos : 0 < o * (a - b) := hb 0 a b rfl rfl
  have hle : f j ≤ f i := hmax j hj
  have hfi : f i = o * b := by simp only [f, hri]
  have hfj : f j = o * a := by simp only [f, hrj]
  rw [hfi, hfj] at hle
  have : o * (a - b) = o * a - o * b := by ring
  linarith

/-- the wrapper accepts 2-dimensional data only -/
theorem paretoFrontNd_iff (ndim : Nat) (o : α) (d : List (List (Option α))) :
    (paretoFrontNd ndim o d = .ok (paretoFront o d) ↔ ndim = 2) ∧
    (paretoFrontNd ndim o d = .error .ndim ↔ ndim ≠ 2) := by
  unfold paretoFrontNd
  by_cases h : ndim = 2 <;> simp [h]

/-- reversing the orientation equals negating the data -/
theorem paretoFront_orientation_neg (o : α) (d : List (List (Option α))) :
    paretoFront (-o) d = paretoFront o (negRows d) := by
  have hget : ∀ k : Nat, (negRows d)[k]? = (d[k]?).map fun (r : List (Option α)) => r.map fun x => x.map fun v => -v := by
    intro k
    simp [negRows]
  unfold paretoFront
  have hl : (negRows d).length = d.length := by simp [negRows]
  rw [hl]
  apply List.map_congr_left
  intro i _
  have : isDominatedAt (-o) d i = isDominatedAt o (negRows d) i := by
    unfold isDominatedAt
    rw [hget i, hl]
    cases d[i]? with
    | none => rfl
    | some ri =>
      simp only [Option.map_some]
      congr 1
      funext j
      rw [hget j]
      cases d[j]? with
      | none => rfl
      | some rj => simp only [Option.map_some, domBy_neg]
  rw [this]

example : paretoFront (1 : Rat) [[some 1, some 2], [some 2, some 3], [none, some 1]] = [1, 0, 1] := by
  decide +kernel
example : ∃ i, i < ([[some 1, some 2], [some 1, some 2], [some 0, some 3]] : List (List (Option Rat))).length ∧
    (paretoFront (-1 : Rat) [[some 1, some 2], [some 1, some 2], [some 0, some 3]])[i]? = some 0 :=
  paretoFront_exists_nondominated (α := Rat) (-1) [[some 1, some 2], [some 1, some 2], [some 0, some 3]] 2
    (by decide) (by simp) (by simp) (by simp)
example : paretoFront (-(1 : Rat)) [[some 1, some 2], [some 2, some 3]]
    = paretoFront (1 : Rat) (negRows [[some 1, some 2], [some 2, some 3]]) :=
  paretoFront_orientation_neg (1 : Rat) _

/-! ### min–max normalisation of the density profile -/

/-- a profile that is not flat is mapped into `[0, 1]`, and both ends are attained -/
theorem normalise_unit_range (y : List α) (a b : α) (ha : a ∈ y) (hb : b ∈ y) (hab : a < b) :
    ∃ l, normalise y = some l ∧ l.length = y.length ∧ (∀ v ∈ l, 0 ≤ v ∧ v ≤ 1) ∧ (0 : α) ∈ l ∧ (1 : α) ∈ l := by
  have hne : y ≠ [] := List.ne_nil_of_mem ha
  obtain ⟨lo, hlo⟩ := minL_isSome hne
  obtain ⟨hi, hhi⟩ := maxL_isSome hne
  obtain ⟨hlom, hlole⟩ := minL_spec hlo
  obtain ⟨him, hile⟩ := maxL_spec hhi
  have hlt : lo < hi := lt_of_le_of_lt (hlole a ha) (lt_of_lt_of_le hab (hile b hb))
  have hd : 0 < hi - lo := sub_pos.mpr hlt
  refine ⟨y.map fun v => (v - lo) / (hi - lo), ?_, by simp, ?_, ?_, ?_⟩
  · simp [normalise, hlo, hhi]
  · intro v hv
    simp only [List.mem_map] at hv
    obtain ⟨w, hw, rfl⟩ := hv
    have h1 := hlole w hw
    have h2 := hile w hw
    constructor
    · exact div_nonneg (by linarith) hd.le
    · rw [div_le_one hd]; linarith
  · simp only [List.mem_map]
    exact ⟨lo, hlom, by simp⟩
  · simp only [List.mem_map]
    exact ⟨hi, him, div_self hd.ne'⟩

example : normalise [(2 : Rat), 5, 3] = some [0, 1, 1 / 3] := by decide +kernel

/-! ### standard_normal (`norm.ppf` is a parameter, assumed strictly increasing on (0, 1)) -/

/-- what the function returns on NaN-free data: 0-based ranks and `ppf` arguments, entry by entry -/
theorem standardNormal_eq (m : RankMethod) (cst : α) (x : List α) :
    standardNormal m cst (x.map some) =
      .ok (x.map (fun v => scoreArg x.length cst (rank m x v - 1)), x.map (fun v => rank m x v - 1)) := by
  have h1 : (x.map some).any Option.isNone = false := by
    simp [List.any_eq_false]
  have h2 : (x.map some).filterMap id = x := by
    simp [List.filterMap_map]
  unfold standardNormal
  simp only [h1, h2, Bool.false_eq_true, if_false, List.map_map]
  rfl

/-- a NaN anywhere is rejected -/
theorem standardNormal_rejects_nan (m : RankMethod) (cst : α) (x : List (Option α)) (h : none ∈ x) :
    standardNormal m cst x = .error .hasNan := by
  have : x.any Option.isNone = true := List.any_eq_true.mpr ⟨none, h, rfl⟩
  unfold standardNormal
  simp [this]

/-- ranks follow the order of the data: strictly larger value, strictly larger rank; equal values
(ties) share their rank since the rank is a function of the value -/
theorem rank_order_preserving (m : RankMethod) (xs : List α) (x y : α) (hx : x ∈ xs) (hy : y ∈ xs) :
    rank m xs x < rank m xs y ↔ x < y := by
  constructor
  · intro h
    by_contra hxy
    rcases lt_or_eq_of_le (not_lt.mp hxy) with h' | h'
    · exact absurd h (not_lt.mpr (rank_lt_of_lt m xs hy hx h').le)
    · subst h'; exact lt_irrefl _ h
  · exact rank_lt_of_lt m xs hx hy

/-- normal scores are a strictly increasing function of the ranks (plotting constant in [0, 0.5]),
hence ordered exactly as the data -/
theorem normal_scores_increasing_in_rank (ppf : α → α) (hppf : StrictMonoOn ppf (Set.Ioo 0 1))
    (m : RankMethod) (cst : α) (h0 : 0 ≤ cst) (h1 : cst ≤ 1 / 2) (xs : List α) (x y : α)
    (hx : x ∈ xs) (hy : y ∈ xs) :
    (ppf (scoreArg xs.length cst (rank m xs x - 1)) < ppf (scoreArg xs.length cst (rank m xs y - 1))
      ↔ rank m xs x < rank m xs y) ∧
    (ppf (scoreArg xs.length cst (rank m xs x - 1)) < ppf (scoreArg xs.length cst (rank m xs y - 1))
      ↔ x < y) := by
  have hn : 0 < xs.length := List.length_pos_of_mem hx
  have bx := rank_bounds m xs hx
  have bY := rank_bounds m xs hy
  have ux := scoreArg_mem_unit xs.length hn cst h0 h1 (r := rank m xs x - 1) (by linarith [bx.1]) (by linarith [bx.2])
  have uy := scoreArg_mem_unit xs.length hn cst h0 h1 (r := rank m xs y - 1) (by linarith [bY.1]) (by linarith [bY.2])
  have hmono : StrictMono (scoreArg xs.length cst) := fun r s h => scoreArg_lt xs.length hn cst h1 h
  have key : ppf (scoreArg xs.length cst (rank m xs x - 1)) < ppf (scoreArg xs.length cst (rank m xs y - 1))
      ↔ rank m xs x < rank m xs y := by
    rw [hppf.lt_iff_lt (Set.mem_Ioo.mpr ux) (Set.mem_Ioo.mpr uy), hmono.lt_iff_lt]
    constructor <;> intro h <;> linarith
  exact ⟨key, key.trans (rank_order_preserving m xs x y hx hy)⟩

/-- the plotting positions handed to `ppf` lie in (0, 1) for every rank method -/
theorem normal_scores_argument_in_unit_interval (m : RankMethod) (cst : α) (h0 : 0 ≤ cst) (h1 : cst ≤ 1 / 2)
    (xs : List α) (x : α) (hx : x ∈ xs) :
    0 < scoreArg xs.length cst (rank m xs x - 1) ∧ scoreArg xs.length cst (rank m xs x - 1) < 1 := by
  have hn : 0 < xs.length := List.length_pos_of_mem hx
  have bx := rank_bounds m xs hx
  exact scoreArg_mem_unit xs.length hn cst h0 h1 (by linarith [bx.1]) (by linarith [bx.2])

/-- `sorted=True`: ranks are `0..n-1` and the plotting positions handed to `ppf` are strictly increasing
inside (0, 1), so the scores are strictly increasing along the (sorted) data -/
theorem standardNormalSorted_increasing (cst : α) (h0 : 0 ≤ cst) (h1 : cst ≤ 1 / 2) (x : List α) :
    ∃ u ranks, standardNormalSorted cst (x.map some) = .ok (u, ranks) ∧
      ranks = (List.range x.length).map (fun i => ((i : Nat) : α)) ∧ u.length = x.length ∧
      u.Pairwise (· < ·) ∧ ∀ p ∈ u, 0 < p ∧ p < 1 := by
  have hnan : (x.map some).any Option.isNone = false := by simp [List.any_eq_false]
  refine ⟨((List.range x.length).map (fun i => ((i : Nat) : α))).map (scoreArg x.length cst),
    (List.range x.length).map (fun i => ((i : Nat) : α)), ?_, rfl, ?_, ?_, ?_⟩
  · unfold standardNormalSorted
    simp only [hnan, Bool.false_eq_true, if_false, List.length_map]
  · simp
  · rcases Nat.eq_zero_or_pos x.length with h | hn
    · simp [h]
    rw [List.pairwise_map, List.pairwise_map]
    refine List.Pairwise.imp ?_ List.pairwise_lt_range
    intro a b hab
    exact scoreArg_lt x.length hn cst h1 (by exact_mod_cast hab)
  · intro p hp
    simp only [List.mem_map, List.mem_range, exists_exists_and_eq_and] at hp
    obtain ⟨i, hi, rfl⟩ := hp
    have hn : 0 < x.length := by omega
    apply scoreArg_mem_unit x.length hn cst h0 h1 (Nat.cast_nonneg i)
    have : ((i + 1 : Nat) : α) ≤ (x.length : α) := by exact_mod_cast hi
    push_cast at this
    linarith

/-- NaN is rejected in the sorted branch as well -/
theorem standardNormalSorted_rejects_nan (cst : α) (x : List (Option α)) (h : none ∈ x) :
    standardNormalSorted cst x = .error .hasNan := by
  have : x.any Option.isNone = true := List.any_eq_true.mpr ⟨none, h, rfl⟩
  unfold standardNormalSorted
  simp [this]

example : standardNormalSorted (1 / 2 : Rat) [some 1, some 5] = .ok ([1 / 4, 3 / 4], [0, 1]) := by decide +kernel
example : rank .min [(3 : Rat), 1, 3] 3 = 2 ∧ rank .max [(3 : Rat), 1, 3] 3 = 3 ∧ rank .average [(3 : Rat), 1, 3] 3 = 5 / 2 := by
  decide +kernel
example : standardNormal .average (0 : Rat) [some 3, some 1, some 3] = .ok ([5 / 8, 1 / 4, 5 / 8], [3 / 2, 0, 3 / 2]) := by
  decide +kernel

/-! ### lhs
`perm` is whatever `np.random.permutation(n)` returned (any permutation of `0..n-1`), `r` the unit draws
(`uniform(-du/2, du/2)` is `low + (high - low) r`, `r ∈ [0, 1)`). -/

/-- the jitter `-du/2 + (du/2 - -du/2) r` stays inside half a stratum on either side -/
theorem lhs_jitter_range (du r : α) (hdu : 0 < du) (hr0 : 0 ≤ r) (hr1 : r < 1) :
    -du / 2 ≤ -du / 2 + (du / 2 - -du / 2) * r ∧ -du / 2 + (du / 2 - -du / 2) * r < du / 2 := by
  have h1 : 0 ≤ du * r := mul_nonneg hdu.le hr0
  have h2 : du * r < du := by simpa using mul_lt_mul_of_pos_left hr1 hdu
  have : (du / 2 - -du / 2) * r = du * r := by ring
  rw [this]
  constructor <;> linarith

/-- for ANY permutation and ANY unit draws, every one of the `n` equal strata
`[pmin + k du, pmin + (k+1) du)` of the parameter range receives exactly one sample -/
theorem lhsColumn_one_point_per_stratum (n : Nat) (pmin pmax : α) (h : pmin < pmax) (perm : List Nat) (r : List α)
    (hperm : perm.Perm (List.range n)) (hr : r.length = n) (hr01 : ∀ x ∈ r, 0 ≤ x ∧ x < 1) :
    ∃ s, lhsColumn n pmin pmax perm r = .ok s ∧ s.length = n ∧
      ∀ k, k < n → s.countP (fun x => decide (pmin + (k : α) * ((pmax - pmin) / (n : α)) ≤ x ∧
                                               x < pmin + ((k : α) + 1) * ((pmax - pmin) / (n : α)))) = 1 := by
  have hp : perm.length = n := by simpa using hperm.length_eq
  have hk : ∀ k ∈ perm, k < n := fun k hk => List.mem_range.mp (hperm.mem_iff.mp hk)
  refine ⟨_, lhsColumn_eq n pmin pmax perm r hp hr hk, by simp [hp, hr], ?_⟩
  intro k hkn
  have hn : (0 : α) < (n : α) := by exact_mod_cast (by omega : 0 < n)
  have hdu : 0 < (pmax - pmin) / (n : α) := div_pos (sub_pos.mpr h) hn
  rw [countP_zipWith_stratum pmin _ hdu k perm r hr01 (by rw [hp, hr]), hperm.count_eq]
  exact List.count_eq_one_of_mem List.nodup_range (List.mem_range.mpr hkn)

/-- every sample lies in `[pmin, pmax)` -/
theorem lhsColumn_in_range (n : Nat) (pmin pmax : α) (h : pmin < pmax) (perm : List Nat) (r : List α)
    (hperm : perm.Perm (List.range n)) (hr : r.length = n) (hr01 : ∀ x ∈ r, 0 ≤ x ∧ x < 1)
    (s : List α) (hs : lhsColumn n pmin pmax perm r = .ok s) : ∀ x ∈ s, pmin ≤ x ∧ x < pmax := by
  have hp : perm.length = n := by simpa using hperm.length_eq
  have hk : ∀ k ∈ perm, k < n := fun k hk => List.mem_range.mp (hperm.mem_iff.mp hk)
  rw [lhsColumn_eq n pmin pmax perm r hp hr hk] at hs
  injection hs with hs
  subst hs
  intro x hx
  obtain ⟨i, hi, rfl⟩ := List.mem_iff_getElem.mp hx
  simp only [List.length_zipWith] at hi
  simp only [List.getElem_zipWith]
  have hpi : perm[i] < n := hk _ (List.getElem_mem _)
  have hri := hr01 (r[i]) (List.getElem_mem _)
  have hn0 : 0 < n := by omega
  have hn : (0 : α) < (n : α) := by exact_mod_cast hn0
  set du := (pmax - pmin) / (n : α) with hdu_def
  have hdu : 0 < du := div_pos (sub_pos.mpr h) hn
  have hndu : (n : α) * du = pmax - pmin := by rw [hdu_def]; field_simp
  have h1 : 0 ≤ du * r[i] := mul_nonneg hdu.le hri.1
  have h2 : du * r[i] < du := by simpa using mul_lt_mul_of_pos_left hri.2 hdu
  have h3 : (0 : α) ≤ (perm[i] : α) * du := mul_nonneg (Nat.cast_nonneg _) hdu.le
  have h4 : ((perm[i] : Nat) : α) + 1 ≤ (n : α) := by exact_mod_cast hpi
  have h5 := mul_le_mul_of_nonneg_right h4 hdu.le
  constructor <;> nlinarith

example : lhsColumn 3 (0 : Rat) 1 [2, 0, 1] [0, 1 / 2, 3 / 4] = .ok [2 / 3, 1 / 6, 7 / 12] := by decide +kernel

/-- all parameters at once (`LhsInputsOK`, `OnePerStratum`: the per-column statements, list-wise) -/
theorem lhsColumns_one_point_per_stratum (n : Nat) (pmin pmax : List α) (perms : List (List Nat))
    (rs : List (List α)) (h : LhsInputsOK n pmin pmax perms rs) :
    ∃ cols, lhsColumns n pmin pmax perms rs = .ok cols ∧ OnePerStratum n pmin pmax cols := by
  induction pmin generalizing pmax perms rs with
  | nil =>
    cases pmax <;> cases perms <;> cases rs <;> simp_all [LhsInputsOK, lhsColumns, OnePerStratum]
  | cons a t ih =>
    cases pmax with
    | nil => simp [LhsInputsOK] at h
    | cons b tb =>
      cases perms with
      | nil => simp [LhsInputsOK] at h
      | cons p tp =>
        cases rs with
        | nil => simp [LhsInputsOK] at h
        | cons r tr =>
          simp only [LhsInputsOK] at h
          obtain ⟨hab, hperm, hr, hr01, hrest⟩ := h
          obtain ⟨c, hc, hlen, hcount⟩ := lhsColumn_one_point_per_stratum n a b hab p r hperm hr hr01
          obtain ⟨cs, hcs, hok⟩ := ih tb tp tr hrest
          refine ⟨c :: cs, ?_, ?_⟩
          · simp only [lhsColumns, hc, hcs]
            rfl
          · exact ⟨hlen, hcount, hok⟩

/-- `lhs(nsamples, pmin, pmax)` with `nsamples ≥ 1` and proper ranges: accepted, and every parameter
column places exactly one sample in each of its `nsamples` equal strata -/
theorem lhs_one_point_per_stratum (n : Nat) (hn : 0 < n) (pmin pmax : List α) (perms : List (List Nat))
    (rs : List (List α)) (h : LhsInputsOK n pmin pmax perms rs) :
    ∃ cols, lhs n pmin pmax perms rs = .ok cols ∧ OnePerStratum n pmin pmax cols := by
  obtain ⟨cols, hc, hok⟩ := lhsColumns_one_point_per_stratum n pmin pmax perms rs h
  refine ⟨cols, ?_, hok⟩
  have hlen := h.length_eq
  have hbc := broadcast_eq pmax pmin.length hlen
  unfold lhs
  simp only [hbc, hlen, ne_eq, not_true_eq_false, if_false, h.no_empty_range, Bool.false_eq_true]
  rw [if_neg (by omega)]
  exact hc

/-- a scalar / one-element `pmax` is repeated for every parameter -/
theorem lhs_broadcast (n : Nat) (pmin : List α) (p : α) (perms : List (List Nat)) (rs : List (List α)) :
    lhs n pmin [p] perms rs = lhs n pmin (List.replicate pmin.length p) perms rs := by
  unfold lhs
  simp only []
  rw [broadcast_singleton, broadcast_eq (List.replicate pmin.length p) pmin.length (by simp)]

/-- any parameter with `pmax ≤ pmin` makes the call fail (lengths agreeing) -/
theorem lhs_rejects_empty_range (n : Nat) (pmin pmax : List α) (hlen : pmax.length = pmin.length)
    (i : Nat) (a b : α) (ha : pmin[i]? = some a) (hb : pmax[i]? = some b) (hab : b ≤ a)
    (perms : List (List Nat)) (rs : List (List α)) :
    lhs n pmin pmax perms rs = .error .pmaxLePmin := by
  unfold lhs
  simp only [broadcast_eq pmax pmin.length hlen, hlen, ne_eq, not_true_eq_false, if_false]
  rw [if_pos ((empty_range_any pmin pmax).mpr ⟨i, a, b, ha, hb, hab⟩)]

/-- a `pmax` of another length (and not of length 1) is rejected -/
theorem lhs_rejects_length (n : Nat) (pmin pmax : List α) (h1 : pmax.length ≠ 1) (h : pmax.length ≠ pmin.length)
    (perms : List (List Nat)) (rs : List (List α)) :
    lhs n pmin pmax perms rs = .error .pmaxLength := by
  unfold lhs
  simp only [broadcast_of_length_ne_one pmax pmin.length h1, ne_eq, h, not_false_eq_true, if_true]

/-- `nsamples = 0` with at least one proper parameter range fails (division by zero in the code) -/
theorem lhs_rejects_zero_samples (pmin pmax : List α) (perms : List (List Nat)) (rs : List (List α))
    (h : LhsInputsOK 0 pmin pmax perms rs) (hne : pmin ≠ []) :
    lhs 0 pmin pmax perms rs = .error .zeroSamples := by
  have hlen := h.length_eq
  unfold lhs
  simp only [broadcast_eq pmax pmin.length hlen, hlen, ne_eq, not_true_eq_false, if_false, h.no_empty_range,
    Bool.false_eq_true]
  rw [if_pos ⟨trivial, by simpa using hne⟩]

example : lhs 2 [(0 : Rat), 1] [5] [[1, 0], [0, 1]] [[1 / 2, 0], [0, 1 / 4]]
    = .ok [[15 / 4, 0], [1, 7 / 2]] := by decide +kernel
example : lhs 2 [(0 : Rat), 1] [1, 1] [] [] = .error .pmaxLePmin := by decide +kernel

end field

section floor
variable {α : Type} [Field α] [LinearOrder α] [IsStrictOrderedRing α] [FloorRing α]

/-! ### quantiles and percentiles (numpy method "linear") on the sorted finite values
`FloorNat.floorNat` is `⌊·⌋₊` here (instance in `Lemmas/C20Quantile.lean`). -/

/-- every quantile lies between the smallest and the largest value -/
theorem quantile_within_min_max (s : List α) (hs : s.Pairwise (· ≤ ·)) (first last : α)
    (hf : s.head? = some first) (hl : s.getLast? = some last) (q : α) (hq0 : 0 ≤ q) (hq1 : q ≤ 1) :
    ∃ v, quantile s q = .ok v ∧ first ≤ v ∧ v ≤ last := by
  have hg := getD_mono s hs last (sorted_le_getLast s hs last hl)
  have hv : 0 ≤ ((s.length - 1 : Nat) : α) * q := mul_nonneg (Nat.cast_nonneg _) hq0
  refine ⟨_, quantile_eq s first last hf hl q hq0 hq1, ?_⟩
  have hb := interpG_bounds _ hg (s.length - 1) _ hv
  simp only [getD_zero_of_head s first last hf, getD_last_of_getLast s last hl] at hb
  exact hb

/-- quantiles are non-decreasing in the level -/
theorem quantile_monotone (s : List α) (hs : s.Pairwise (· ≤ ·)) (q q' : α) (hq0 : 0 ≤ q) (hqq : q ≤ q')
    (hq1 : q' ≤ 1) (v v' : α) (hv : quantile s q = .ok v) (hv' : quantile s q' = .ok v') : v ≤ v' := by
  cases hf : s.head? with
  | none =>
    have : s = [] := by simpa using hf
    subst this
    simp [quantile] at hv
    split at hv <;> cases hv
  | some first =>
    have hne : s ≠ [] := by rintro rfl; simp at hf
    obtain ⟨last, hl⟩ : ∃ last, s.getLast? = some last := ⟨_, List.getLast?_eq_some_getLast hne⟩
    have hg := getD_mono s hs last (sorted_le_getLast s hs last hl)
    rw [quantile_eq s first last hf hl q hq0 (le_trans hqq hq1)] at hv
    rw [quantile_eq s first last hf hl q' (le_trans hq0 hqq) hq1] at hv'
    injection hv with hv
    injection hv' with hv'
    rw [← hv, ← hv']
    apply interpG_mono _ hg
    · exact mul_nonneg (Nat.cast_nonneg _) hq0
    · exact mul_le_mul_of_nonneg_left hqq (Nat.cast_nonneg _)

/-- the value is the linear interpolation between the two order statistics around the virtual index
`(n - 1) q` (Hyndman–Fan definition 7) -/
theorem quantile_linear_interpolation (s : List α) (q : α) (hq0 : 0 ≤ q) (hq1 : q ≤ 1) (k : Nat)
    (hk : k + 1 < s.length) (h1 : (k : α) ≤ ((s.length - 1 : Nat) : α) * q)
    (h2 : ((s.length - 1 : Nat) : α) * q < (k : α) + 1) :
    quantile s q = .ok (s[k] + (s[k + 1] - s[k]) * (((s.length - 1 : Nat) : α) * q - (k : α))) := by
  have hne : s ≠ [] := List.ne_nil_of_length_pos (by omega)
  obtain ⟨first, hf⟩ : ∃ first, s.head? = some first := by
    cases s with
    | nil => exact absurd rfl hne
    | cons a t => exact ⟨a, rfl⟩
  obtain ⟨last, hl⟩ : ∃ last, s.getLast? = some last := ⟨_, List.getLast?_eq_some_getLast hne⟩
  have hv : 0 ≤ ((s.length - 1 : Nat) : α) * q := mul_nonneg (Nat.cast_nonneg _) hq0
  have hfl : ⌊((s.length - 1 : Nat) : α) * q⌋₊ = k := (Nat.floor_eq_iff hv).mpr ⟨h1, h2⟩
  rw [quantile_eq s first last hf hl q hq0 hq1]
  have hlt : ¬ ((s.length - 1 : Nat) : α) ≤ ((s.length - 1 : Nat) : α) * q := by
    have : (k : α) + 1 ≤ ((s.length - 1 : Nat) : α) := by exact_mod_cast (by omega : k + 1 ≤ s.length - 1)
    push Not
    linarith
  simp only [interpG, hlt, if_false, hfl]
  rw [getD_of_lt _ _ _ (by omega : k < s.length), getD_of_lt _ _ _ hk]

/-- level 0 is the minimum, level 1 the maximum -/
theorem quantile_zero_one (s : List α) (first last : α) (hf : s.head? = some first) (hl : s.getLast? = some last) :
    quantile s 0 = .ok first ∧ quantile s 1 = .ok last := by
  have hne : s ≠ [] := by rintro rfl; simp at hf
  have hlen : 0 < s.length := List.length_pos_iff.mpr hne
  constructor
  · rw [quantile_eq s first last hf hl 0 (le_refl _) zero_le_one]
    simp only [mul_zero, interpG, Nat.floor_zero, Nat.cast_zero, sub_zero]
    rw [getD_zero_of_head s first last hf]
    by_cases h : ((s.length - 1 : Nat) : α) ≤ 0
    · have h' : s.length - 1 = 0 := by
        have : ((s.length - 1 : Nat) : α) = 0 := le_antisymm h (Nat.cast_nonneg _)
        exact_mod_cast this
      rw [if_pos h, h', getD_zero_of_head s first last hf]
    · rw [if_neg h]
      simp
  · rw [quantile_eq s first last hf hl 1 zero_le_one (le_refl _)]
    simp only [mul_one, interpG, le_refl, if_true]
    rw [getD_last_of_getLast s last hl]

/-- percentiles (levels in percent) inherit both facts: within `[min, max]` and non-decreasing in the level -/
theorem percentile_within_min_max (s : List α) (hs : s.Pairwise (· ≤ ·)) (first last : α)
    (hf : s.head? = some first) (hl : s.getLast? = some last) (p : α) (hp0 : 0 ≤ p) (hp1 : p ≤ 100) :
    ∃ v, percentile s p = .ok v ∧ first ≤ v ∧ v ≤ last := by
  obtain ⟨h0, h1⟩ := percentile_level p hp0 hp1
  exact quantile_within_min_max s hs first last hf hl _ h0 h1

theorem percentile_monotone (s : List α) (hs : s.Pairwise (· ≤ ·)) (p p' : α) (hp0 : 0 ≤ p) (hpp : p ≤ p')
    (hp1 : p' ≤ 100) (v v' : α) (hv : percentile s p = .ok v) (hv' : percentile s p' = .ok v') : v ≤ v' := by
  obtain ⟨h0, _⟩ := percentile_level p hp0 (le_trans hpp hp1)
  obtain ⟨_, h1⟩ := percentile_level p' (le_trans hp0 hpp) hp1
  have h100 : (0 : α) < ((100 : Nat) : α) := by norm_num
  exact quantile_monotone s hs _ _ h0 (div_le_div_of_nonneg_right hpp h100.le) h1 v v' hv hv'

/-- levels outside `[0, 100]` are rejected, as numpy does -/
theorem percentile_rejects_level (s : List α) (p : α) (h : p < 0 ∨ 100 < p) :
    percentile s p = .error .percentileRange := by
  have h100 : (0 : α) < ((100 : Nat) : α) := by norm_num
  unfold percentile quantile
  rw [if_pos]
  rcases h with h | h
  · intro hc
    have := div_neg_of_neg_of_pos h h100
    linarith [hc.1]
  · intro hc
    have : 1 < p / ((100 : Nat) : α) := by
      rw [one_lt_div h100]
      simpa using h
    linarith [hc.2]

/-! ### box statistics -/

/-- the five levels implied by the coverages are ordered and symmetric about 50 -/
theorem computePercentiles_levels (b w : α) (hb : 0 ≤ b) (hbw : b ≤ w) (hw : w ≤ 100) :
    0 ≤ (computePercentiles w).1 ∧ (computePercentiles w).1 ≤ (computePercentiles b).1 ∧
    (computePercentiles b).1 ≤ 50 ∧ 50 ≤ (computePercentiles b).2 ∧
    (computePercentiles b).2 ≤ (computePercentiles w).2 ∧ (computePercentiles w).2 ≤ 100 ∧
    (computePercentiles b).1 + (computePercentiles b).2 = 100 ∧
    (computePercentiles w).1 + (computePercentiles w).2 = 100 ∧
    (computePercentiles b).2 - (computePercentiles b).1 = b ∧
    (computePercentiles w).2 - (computePercentiles w).1 = w := by
  simp only [computePercentiles, Nat.cast_ofNat]
  refine ⟨?_, ?_, ?_, ?_, ?_, ?_, ?_, ?_, ?_, ?_⟩ <;> linarith

/-- four finite values or more: the count is the number of finite values; the five percentiles are
those of the sorted finite values at the implied levels, in non-decreasing order between min and max;
min and max are attained and bound every finite value; mean times count is the sum -/
theorem boxStats_summary (data : List (Option α)) (b w : α) (hb : 0 ≤ b) (hbw : b ≤ w) (hw : w ≤ 100)
    (hcount : 3 < (data.filterMap id).length) :
    ∃ v, boxStats data b w = .ok ((data.filterMap id).length, some v) ∧
      v.min ≤ v.w1 ∧ v.w1 ≤ v.b1 ∧ v.b1 ≤ v.med ∧ v.med ≤ v.b2 ∧ v.b2 ≤ v.w2 ∧ v.w2 ≤ v.max ∧
      v.min ∈ data.filterMap id ∧ v.max ∈ data.filterMap id ∧
      (∀ x ∈ data.filterMap id, v.min ≤ x ∧ x ≤ v.max) ∧
      v.mean * ((data.filterMap id).length : α) = (data.filterMap id).sum ∧
      percentile (sortL (data.filterMap id)) (computePercentiles w).1 = .ok v.w1 ∧
      percentile (sortL (data.filterMap id)) (computePercentiles b).1 = .ok v.b1 ∧
      percentile (sortL (data.filterMap id)) 50 = .ok v.med ∧
      percentile (sortL (data.filterMap id)) (computePercentiles b).2 = .ok v.b2 ∧
      percentile (sortL (data.filterMap id)) (computePercentiles w).2 = .ok v.w2 := by
  set vals := data.filterMap id with hvals
  have hne : vals ≠ [] := List.ne_nil_of_length_pos (by omega)
  have hsne : sortL vals ≠ [] := List.ne_nil_of_length_pos (by rw [sortL_length]; omega)
  obtain ⟨mn, hmn⟩ := minL_isSome hne
  obtain ⟨mx, hmx⟩ := maxL_isSome hne
  obtain ⟨first, hf⟩ : ∃ first, (sortL vals).head? = some first := by
    cases h : sortL vals with
    | nil => exact absurd h hsne
    | cons a t => exact ⟨a, rfl⟩
  obtain ⟨last, hl⟩ : ∃ last, (sortL vals).getLast? = some last := ⟨_, List.getLast?_eq_some_getLast hsne⟩
  have hfirst := sortL_head_eq_minL vals mn first hmn hf
  have hlast := sortL_last_eq_maxL vals mx last hmx hl
  subst hfirst hlast
  have hs := sortL_sorted vals
  obtain ⟨l0, l1, l2, l3, l4, l5, _, _, _, _⟩ := computePercentiles_levels b w hb hbw hw
  have h50 : (((50 : Nat) : α)) = 50 := by norm_num
  obtain ⟨w1, e1, a1, _⟩ := percentile_within_min_max (sortL vals) hs first last hf hl (computePercentiles w).1 l0
    (by linarith)
  obtain ⟨b1, e2, _, _⟩ := percentile_within_min_max (sortL vals) hs first last hf hl (computePercentiles b).1
    (by linarith) (by linarith)
  obtain ⟨med, e3, _, _⟩ := percentile_within_min_max (sortL vals) hs first last hf hl 50 (by norm_num) (by norm_num)
  obtain ⟨b2, e4, _, _⟩ := percentile_within_min_max (sortL vals) hs first last hf hl (computePercentiles b).2
    (by linarith) (by linarith)
  obtain ⟨w2, e5, _, a5⟩ := percentile_within_min_max (sortL vals) hs first last hf hl (computePercentiles w).2
    (by linarith) l5
  have m12 := percentile_monotone (sortL vals) hs _ _ l0 l1 (by linarith) w1 b1 e1 e2
  have m23 := percentile_monotone (sortL vals) hs _ _ (by linarith) l2 (by norm_num) b1 med e2 e3
  have m34 := percentile_monotone (sortL vals) hs _ _ (by norm_num) l3 (by linarith) med b2 e3 e4
  have m45 := percentile_monotone (sortL vals) hs _ _ (by linarith) l4 l5 b2 w2 e4 e5
  obtain ⟨hmnm, hmnle⟩ := minL_spec hmn
  obtain ⟨hmxm, hmxle⟩ := maxL_spec hmx
  have hlenpos : ((vals.length : Nat) : α) ≠ 0 := by
    have : vals.length ≠ 0 := by omega
    exact_mod_cast this
  refine ⟨_, boxStats_eq data b w hcount w1 b1 med b2 w2 last first e1 e2 (by rw [h50]; exact e3) e4 e5 hmx hmn,
    a1, m12, m23, m34, m45, a5, hmnm, hmxm, fun x hx => ⟨hmnle x hx, hmxle x hx⟩, ?_, e1, e2, e3, e4, e5⟩
  simp only
  rw [sumL_eq_sum, div_mul_cancel₀ _ hlenpos]

/-- fewer than four finite values: only the count is reported (a NaN row) -/
theorem boxStats_few_values (data : List (Option α)) (b w : α) (hcount : (data.filterMap id).length ≤ 3) :
    boxStats data b w = .ok ((data.filterMap id).length, none) :=
  boxStats_few_eq data b w hcount

/-- for coverages `0 ≤ box ≤ whiskers ≤ 100` the call never fails, whatever the column holds -/
theorem boxStats_total (data : List (Option α)) (b w : α) (hb : 0 ≤ b) (hbw : b ≤ w) (hw : w ≤ 100) :
    ∃ r, boxStats data b w = .ok r := by
  by_cases hcount : 3 < (data.filterMap id).length
  · obtain ⟨v, hv, _⟩ := boxStats_summary data b w hb hbw hw hcount
    exact ⟨_, hv⟩
  · exact ⟨_, boxStats_few_values data b w (not_lt.mp hcount)⟩

/-- a whiskers coverage above 100 asks numpy for a negative percentile: rejected as soon as there are
four finite values (with fewer the percentiles are never computed and the NaN row is returned) -/
theorem boxStats_rejects_whiskers_above_100 (data : List (Option α)) (b w : α) (hw : 100 < w)
    (hcount : 3 < (data.filterMap id).length) : boxStats data b w = .error .percentileRange := by
  have hneg : (computePercentiles w).1 < 0 := by
    simp only [computePercentiles, Nat.cast_ofNat]
    linarith
  have h1 := percentile_rejects_level (sortL (data.filterMap id)) (computePercentiles w).1 (Or.inl hneg)
  unfold boxStats
  simp only [gt_iff_lt, hcount, if_true, h1]

/-- NaN / ±inf entries change nothing: the statistics are those of the finite values alone -/
theorem boxStats_ignores_nonfinite (data : List (Option α)) (b w : α) :
    boxStats data b w = boxStats ((data.filterMap id).map some) b w := by
  have : ((data.filterMap id).map some).filterMap id = data.filterMap id := by
    simp [List.filterMap_map]
  unfold boxStats
  simp only [this]

/-- the coverage guards of `Boxplot`: box coverage at least 40, whiskers coverage strictly above it -/
theorem boxplotCheck_iff (b w : α) : boxplotCheck b w = .ok () ↔ 40 ≤ b ∧ b < w := by
  unfold boxplotCheck
  simp only [Nat.cast_ofNat]
  by_cases h1 : b < 40
  · simp [h1]
  · by_cases h2 : w ≤ b
    · simp [h1, h2]
    · simp [h1, h2, not_lt.mp h1, not_le.mp h2]

/-! ### violin -/

/-- the "reduce impact of censored data" step selects every finite value: the density is estimated on
all of them (the remainder mask is computed after the two tie masks were reduced) -/
theorem violinSelect_keeps_all (eps : α) (vals : List α) (x0 x1 : α) : violinSelect eps vals x0 x1 = vals := by
  unfold violinSelect
  simp only
  rw [select_mask_all _ _ (by simp [reduceMask_length])]
  simp only [reduceMask_length, List.length_map]
  exact zip_replicate_true_filterMap vals

/-- the median of the sorted values is their quantile at level 1/2 -/
theorem median_eq_quantile_half (s : List α) (hne : s ≠ []) :
    ∃ m, median s = some m ∧ quantile s (1 / 2) = .ok m := by
  have hlen : 0 < s.length := List.length_pos_iff.mpr hne
  have hq0 : (0 : α) ≤ 1 / 2 := by norm_num
  have hq1 : (1 : α) / 2 ≤ 1 := by norm_num
  obtain ⟨first, hf⟩ : ∃ first, s.head? = some first := by
    cases s with
    | nil => exact absurd rfl hne
    | cons a t => exact ⟨a, rfl⟩
  obtain ⟨last, hl⟩ : ∃ last, s.getLast? = some last := ⟨_, List.getLast?_eq_some_getLast hne⟩
  unfold median
  simp only [show s.length ≠ 0 by omega, if_false]
  by_cases hodd : s.length % 2 = 1
  · simp only [hodd, if_true]
    have hk : s.length / 2 < s.length := by omega
    refine ⟨s[s.length / 2], List.getElem?_eq_getElem hk, ?_⟩
    by_cases h1 : s.length = 1
    · -- a single value: virtual index 0 is already the last index
      rw [quantile_eq s first last hf hl _ hq0 hq1]
      have : s.length - 1 = 0 := by omega
      simp only [this, Nat.cast_zero, zero_mul, interpG, le_refl, if_true]
      rw [getD_of_lt _ _ _ (by omega)]
      congr 2
      omega
    · have hv : ((s.length - 1 : Nat) : α) * (1 / 2) = ((s.length / 2 : Nat) : α) := by
        have : s.length - 1 = 2 * (s.length / 2) := by omega
        rw [this]
        push_cast
        ring
      rw [quantile_linear_interpolation s _ hq0 hq1 (s.length / 2) (by omega) (by rw [hv]) (by rw [hv]; linarith)]
      rw [hv]
      simp
  · have heven : s.length % 2 = 0 := by omega
    simp only [heven]
    have hk1 : s.length / 2 - 1 < s.length := by omega
    have hk2 : s.length / 2 < s.length := by omega
    refine ⟨(s[s.length / 2 - 1] + s[s.length / 2]) / 2, ?_, ?_⟩
    · simp [List.getElem?_eq_getElem hk1, List.getElem?_eq_getElem hk2]
    · have hm : 1 ≤ s.length / 2 := by omega
      have hv : ((s.length - 1 : Nat) : α) * (1 / 2) = ((s.length / 2 - 1 : Nat) : α) + 1 / 2 := by
        have h1 : ((s.length - 1 : Nat) : α) = 2 * ((s.length / 2 - 1 : Nat) : α) + 1 := by
          have : s.length - 1 = 2 * (s.length / 2 - 1) + 1 := by omega
          exact_mod_cast this
        rw [h1]
        ring
      have hidx : s.length / 2 - 1 + 1 = s.length / 2 := by omega
      rw [quantile_linear_interpolation s _ hq0 hq1 (s.length / 2 - 1) (by omega) (by rw [hv]; linarith)
        (by rw [hv]; linarith)]
      rw [hv]
      congr 1
      simp only [hidx]
      ring

/-- `Violin.stats` of a column with at least one finite value: the five numbers are the quantiles of the
sorted finite values at levels 0, 1/4, 1/2, 3/4, 1; they are ordered, the first is the minimum and the
last the maximum of the finite values -/
theorem violinStats_summary (data : List (Option α)) (hne : data.filterMap id ≠ []) (first last : α)
    (hf : (sortL (data.filterMap id)).head? = some first) (hl : (sortL (data.filterMap id)).getLast? = some last) :
    ∃ v, violinStats data = .ok (some v) ∧ v.q0 = first ∧ v.q100 = last ∧
      v.q0 ≤ v.q25 ∧ v.q25 ≤ v.med ∧ v.med ≤ v.q75 ∧ v.q75 ≤ v.q100 ∧
      quantile (sortL (data.filterMap id)) (1 / 4) = .ok v.q25 ∧
      quantile (sortL (data.filterMap id)) (1 / 2) = .ok v.med ∧
      quantile (sortL (data.filterMap id)) (3 / 4) = .ok v.q75 := by
  set s := sortL (data.filterMap id) with hs_def
  have hs := sortL_sorted (data.filterMap id)
  have hsne : s ≠ [] := by rintro h; rw [h] at hf; simp at hf
  obtain ⟨m, hm, hmq⟩ := median_eq_quantile_half s hsne
  have e0 : (computePercentiles (((100 : Nat) : α))).1 / ((100 : Nat) : α) = 0 := by
    simp [computePercentiles]
  have e1 : (computePercentiles (((100 : Nat) : α))).2 / ((100 : Nat) : α) = 1 := by
    simp [computePercentiles]
  have e25 : (computePercentiles (((50 : Nat) : α))).1 / ((100 : Nat) : α) = 1 / 4 := by
    simp only [computePercentiles, Nat.cast_ofNat]; norm_num
  have e75 : (computePercentiles (((50 : Nat) : α))).2 / ((100 : Nat) : α) = 3 / 4 := by
    simp only [computePercentiles, Nat.cast_ofNat]; norm_num
  obtain ⟨z0, z1⟩ := quantile_zero_one s first last hf hl
  obtain ⟨q25, h25, _, _⟩ := quantile_within_min_max s hs first last hf hl (1 / 4) (by norm_num) (by norm_num)
  obtain ⟨q75, h75, _, _⟩ := quantile_within_min_max s hs first last hf hl (3 / 4) (by norm_num) (by norm_num)
  refine ⟨{ q0 := first, q25 := q25, med := m, q75 := q75, q100 := last }, ?_, rfl, rfl, ?_, ?_, ?_, ?_, h25, hmq, h75⟩
  · unfold violinStats
    simp only [← hs_def, hm, pquantile, e0, e1, e25, e75, z0, z1, h25, h75]
    rfl
  · exact quantile_monotone s hs 0 (1 / 4) (le_refl _) (by norm_num) (by norm_num) _ _ z0 h25
  · exact quantile_monotone s hs (1 / 4) (1 / 2) (by norm_num) (by norm_num) (by norm_num) _ _ h25 hmq
  · exact quantile_monotone s hs (1 / 2) (3 / 4) (by norm_num) (by norm_num) (by norm_num) _ _ hmq h75
  · exact quantile_monotone s hs (3 / 4) 1 (by norm_num) (by norm_num) (le_refl _) _ _ h75 z1

/-- a column without finite value has no statistics (a NaN column) -/
theorem violinStats_no_finite_value (data : List (Option α)) (h : data.filterMap id = []) :
    violinStats data = .ok none := by
  unfold violinStats
  rw [h]
  simp [sortL, median]

/-- three finite values or more, not all equal: there is a profile; the density is estimated on ALL the
finite values, and the abscissae are `npoints_kde` numbers in non-decreasing order -/
theorem violinGrid_profile (eps : α) (data : List (Option α)) (npts : Nat) (err : List α)
    (herr : err.length = npts / 2) (h3 : 2 < (data.filterMap id).length)
    (a b : α) (ha : a ∈ data.filterMap id) (hb : b ∈ data.filterMap id) (hab : a < b) :
    ∃ x, violinGrid eps data npts err = .ok (some (data.filterMap id, x)) ∧ x.length = npts ∧
      x.Pairwise (· ≤ ·) := by
  have hne : data.filterMap id ≠ [] := List.ne_nil_of_mem ha
  obtain ⟨x0, h0⟩ := minL_isSome hne
  obtain ⟨x1, h1⟩ := maxL_isSome hne
  have hlt : x0 < x1 := lt_of_le_of_lt ((minL_spec h0).2 a ha) (lt_of_lt_of_le hab ((maxL_spec h1).2 b hb))
  have hsne : sortL (data.filterMap id) ≠ [] := List.ne_nil_of_length_pos (by rw [sortL_length]; omega)
  obtain ⟨qv, hqv, hqlen⟩ := quantilesAt_ok (sortL (data.filterMap id)) hsne (linspace 0 1 (npts / 2))
    (linspace_unit_mem (npts / 2))
  refine ⟨sortL (linspace x0 x1 (npts - npts / 2) ++ List.zipWith (fun a b => a + b) qv err), ?_, ?_, sortL_sorted _⟩
  · unfold violinGrid
    simp only [h0, h1]
    rw [if_neg (by push Not; exact ⟨by omega, hlt⟩), if_neg (by simp [herr])]
    simp only [hqv, violinSelect_keeps_all]
    rfl
  · rw [sortL_length, List.length_append, linspace_length, List.length_zipWith, hqlen, linspace_length, herr]
    omega

/-- fewer than three finite values, or a constant column: no density profile -/
theorem violinGrid_no_profile (eps : α) (data : List (Option α)) (npts : Nat) (err : List α)
    (h : (data.filterMap id).length ≤ 2 ∨ ∀ a ∈ data.filterMap id, ∀ b ∈ data.filterMap id, a = b) :
    violinGrid eps data npts err = .ok none := by
  unfold violinGrid
  cases hmin : minL (data.filterMap id) with
  | none => simp only [hmin]
  | some x0 =>
    cases hmax : maxL (data.filterMap id) with
    | none => simp only [hmin, hmax]
    | some x1 =>
      simp only [hmin, hmax]
      rw [if_pos]
      rcases h with h | h
      · left; exact h
      · right
        rw [h x0 (minL_spec hmin).1 x1 (maxL_spec hmax).1]
        exact lt_irrefl _

end floor

/-! ### grouping: `bucket cats data k` = the rows of category `k` in their original order (the group taken alone) -/

/-- the groups produced by the scan are exactly the non-empty categories, each holding its own rows -/
theorem groupBy_groups_are_buckets {β : Type} (cats : List Int) (data : List β) (k : Int) (vs : List β) :
    (k, vs) ∈ groupBy cats data ↔ vs = bucket cats data k ∧ vs ≠ [] :=
  mem_groupBy_iff cats data k vs

/-- groups come in increasing key order, each key once -/
theorem groupBy_keys_increasing {β : Type} (cats : List Int) (data : List β) :
    ((groupBy cats data).map fun kv => kv.1).Pairwise (· < ·) :=
  groupBy_keys_sorted cats data

section groupstats
variable {α : Type} [Field α] [LinearOrder α] [IsStrictOrderedRing α] [FloorRing α]

/-- group-wise statistics equal those of each group taken alone: every column of the grouped result
is `boxStats` of the rows of that category, and every category with at least one row has a column -/
theorem boxStatsBy_group_alone (cats : List Int) (data : List (Option α)) (b w : α)
    (gs : List (Int × Nat × Option (BoxVals α))) (h : boxStatsBy cats data b w = .ok gs) :
    (∀ k cnt st, (k, cnt, st) ∈ gs → boxStats (bucket cats data k) b w = .ok (cnt, st)) ∧
    (∀ k, bucket cats data k ≠ [] → ∃ cnt st, (k, cnt, st) ∈ gs) := by
  have key : ∀ (groups : List (Int × List (Option α))) (out : List (Int × Nat × Option (BoxVals α))),
      statsOfGroups b w groups = .ok out →
      (∀ k cnt st, (k, cnt, st) ∈ out → ∃ vs, (k, vs) ∈ groups ∧ boxStats vs b w = .ok (cnt, st)) ∧
      (∀ k vs, (k, vs) ∈ groups → ∃ cnt st, (k, cnt, st) ∈ out) := by
    intro groups
    induction groups with
    | nil =>
      intro out ho
      simp only [statsOfGroups, Except.ok.injEq] at ho
      subst ho
      simp
    | cons g t ih =>
      intro out ho
      simp only [statsOfGroups] at ho
      cases hb : boxStats g.2 b w with
      | error e => simp [hb] at ho
      | ok st =>
        cases ht : statsOfGroups b w t with
        | error e => simp [hb, ht] at ho
        | ok rest =>
          simp only [hb, ht, Except.ok.injEq] at ho
          subst ho
          obtain ⟨ih1, ih2⟩ := ih rest ht
          constructor
          · intro k cnt st' hm
            rcases List.mem_cons.mp hm with heq | hm
            · simp only [Prod.mk.injEq] at heq
              obtain ⟨rfl, rfl, rfl⟩ := heq
              exact ⟨g.2, by simp, hb⟩
            · obtain ⟨vs, hvs, hbs⟩ := ih1 k cnt st' hm
              exact ⟨vs, List.mem_cons_of_mem _ hvs, hbs⟩
          · intro k vs hm
            rcases List.mem_cons.mp hm with heq | hm
            · exact ⟨st.1, st.2, by rw [← heq]; simp⟩
            · obtain ⟨cnt, st', hm'⟩ := ih2 k vs hm
              exact ⟨cnt, st', List.mem_cons_of_mem _ hm'⟩
  unfold boxStatsBy at h
  simp only at h
  split at h
  · cases h
  · split at h
    · cases h
    · obtain ⟨k1, k2⟩ := key _ gs h
      constructor
      · intro k cnt st hm
        obtain ⟨vs, hvs, hbs⟩ := k1 k cnt st hm
        rw [((groupBy_groups_are_buckets cats data k vs).mp hvs).1] at hbs
        exact hbs
      · intro k hk
        exact k2 k _ ((groupBy_groups_are_buckets cats data k _).mpr ⟨rfl, hk⟩)

/-- with two categories or more (or none) and coverages `40 ≤ box < whiskers ≤ 100` the grouped call succeeds -/
theorem boxStatsBy_accepts (cats : List Int) (data : List (Option α)) (b w : α)
    (hcat : (groupBy cats data).length ≠ 1) (hb : 40 ≤ b) (hbw : b < w) (hw : w ≤ 100) :
    ∃ gs, boxStatsBy cats data b w = .ok gs ∧ gs.length = (groupBy cats data).length := by
  have key : ∀ (groups : List (Int × List (Option α))),
      ∃ out, statsOfGroups b w groups = .ok out ∧ out.length = groups.length := by
    intro groups
    induction groups with
    | nil => exact ⟨[], rfl, rfl⟩
    | cons g t ih =>
      obtain ⟨rest, hrest, hlen⟩ := ih
      obtain ⟨st, hst⟩ := boxStats_total g.2 b w (by linarith) hbw.le hw
      exact ⟨(g.1, st.1, st.2) :: rest, by simp only [statsOfGroups, hst, hrest], by simp [hlen]⟩
  have hchk : boxplotCheck b w = .ok () := (boxplotCheck_iff b w).mpr ⟨hb, hbw⟩
  obtain ⟨out, hout, hlen⟩ := key (groupBy cats data)
  refine ⟨out, ?_, hlen⟩
  unfold boxStatsBy
  simp only [hcat, if_false, hchk, hout]

/-- a grouping vector with a single category is rejected -/
theorem boxStatsBy_rejects_one_category (cats : List Int) (data : List (Option α)) (b w : α)
    (hcat : (groupBy cats data).length = 1) : boxStatsBy cats data b w = .error .oneCategory := by
  unfold boxStatsBy
  simp only [hcat, if_true]

/-- box coverage below 40, or whiskers coverage not above it, is rejected (two categories or more) -/
theorem boxStatsBy_rejects_coverage (cats : List Int) (data : List (Option α)) (b w : α)
    (hcat : (groupBy cats data).length ≠ 1) (h : b < 40 ∨ w ≤ b) :
    boxStatsBy cats data b w = .error .boxCoverage ∨ boxStatsBy cats data b w = .error .whiskersCoverage := by
  unfold boxStatsBy boxplotCheck
  simp only [hcat, if_false, Nat.cast_ofNat]
  by_cases h1 : b < 40
  · left; simp [h1]
  · right
    have h2 : w ≤ b := h.resolve_left h1
    simp [h1, h2]

example : (boxStatsBy [1, 2, 1, 2, 1, 1, 2] [some (1 : Rat), some 5, some 2, none, some 3, some 4, some 6] 50 90).toOption.map
      (fun gs => gs.map fun g => (g.1, g.2.1, g.2.2.map fun v => [v.w1, v.med, v.w2]))
    = some [(1, 4, some [23 / 20, 5 / 2, 77 / 20]), (2, 2, none)] := by decide +kernel

end groupstats

/-! ### the hypotheses are met by concrete inputs (evaluated by the kernel on ℚ) -/

example : (boxStats [some (1 : Rat), none, some 3, some 2, some 4, some 10] 50 90).toOption.map
      (fun r => (r.1, r.2.map fun v => [v.w1, v.b1, v.med, v.b2, v.w2, v.mean, v.max, v.min]))
    = some (5, some [6 / 5, 2, 3, 4, 44 / 5, 4, 10, 1]) := by decide +kernel
example : groupBy [2, 1, 2, 1, 1] ["a", "b", "c", "d", "e"] = [(1, ["b", "d", "e"]), (2, ["a", "c"])] := by decide
example : (violinStats [some (1 : Rat), none, some 3, some 2, some 4]).toOption.map
      (fun r => r.map fun v => [v.q0, v.q25, v.med, v.q75, v.q100])
    = some (some [1, 7 / 4, 5 / 2, 13 / 4, 4]) := by decide +kernel
example : percentile [(1 : Rat), 2, 4, 8] 50 = .ok 3 := by decide +kernel
example : (violinGrid (1 / 10000000000 : Rat) [some 1, some 2, none, some 4] 4 [0, 1 / 1000000]).toOption
    = some (some ([1, 2, 4], [1, 1, 4, 4000001 / 1000000])) := by decide +kernel
example : LhsInputsOK 2 [(0 : Rat)] [1] [[1, 0]] [[1 / 2, 0]] := by
  simp only [LhsInputsOK, List.range_succ, List.range_zero, List.nil_append, List.cons_append]
  refine ⟨by norm_num, List.Perm.swap 0 1 [], rfl, ?_, trivial⟩
  intro x hx
  simp only [List.mem_cons, List.not_mem_nil, or_false] at hx
  rcases hx with rfl | rfl <;> norm_num

/-! ## round 7: the routes around the kernels (`Model/C20X.lean`) -/

section field7
variable {α : Type} [Field α] [LinearOrder α] [IsStrictOrderedRing α]

/-! ### pareto front: roundings, ±inf, orientation values, zero columns -/

/-- IEEE arithmetic inside the kernel is harmless: for ANY rounding that keeps the sign of what it rounds
(true of a double subtraction - gradual underflow - and of the product with an integer orientation) the flags are
those of the exact kernel -/
theorem paretoFrontX_rounding_irrelevant (rnd : α → α) (hp : ∀ x, 0 < rnd x ↔ 0 < x) (hn : ∀ x, rnd x < 0 ↔ x < 0)
    (o : α) (d : List (List (XVal α))) : paretoFrontX rnd o d = paretoFrontX id o d := by
  unfold paretoFrontX
  simp only [isDominatedAtX_rnd rnd hp hn]

/-- the instance the driver executes on exact rationals - round-to-nearest-even to 53 significant bits after the
subtraction and after the product - provably keeps signs, hence gives the flags of the exact kernel -/
theorem paretoFrontX_rnd53 (o : Rat) (d : List (List (XVal Rat))) : paretoFrontX rnd53 o d = paretoFrontX id o d :=
  paretoFrontX_rounding_irrelevant rnd53 (fun x => (rnd53_sign x).1) (fun x => (rnd53_sign x).2) o d

/-- on NaN / finite data the kernel on doubles is the kernel of the exact model, so every pareto theorem above
speaks about it -/
theorem paretoFrontX_of_finite (o : α) (d : List (List (Option α))) :
    paretoFrontX id o (d.map fun r => r.map xOfOpt) = paretoFront o d := by
  unfold paretoFrontX paretoFront
  simp only [List.length_map, isDominatedAtX_of_opt]

/-- with ±inf coordinates: flag 1 exactly when another point is strictly better (on the extended line
`-inf < finite < +inf`) in every coordinate whose difference is a number; a coordinate where both points hold the SAME
infinity is skipped like a missing one (`inf - inf` is NaN) -/
theorem paretoFrontX_flag_iff (o : α) (d : List (List (XVal α))) (i : Nat) (hi : i < d.length) :
    ((paretoFrontX id o d)[i]? = some 1 ↔ XDominated o d i) ∧
    ((paretoFrontX id o d)[i]? = some 0 ↔ ¬ XDominated o d i) := by
  have hget : (paretoFrontX id o d)[i]? = some (if isDominatedAtX id o d i then 1 else 0) := by
    unfold paretoFrontX
    rw [List.getElem?_map, List.getElem?_range hi]
    rfl
  rw [hget, ← isDominatedAtX_iff]
  cases isDominatedAtX id o d i <;> simp

/-- why ±inf is kept out of the property's quantifier: two points sharing `+inf` in one coordinate are compared on the
others alone, so one of them is flagged although it is not strictly worse in the shared coordinate -/
theorem paretoFrontX_same_infinity_skipped (a b : α) (h : a < b) :
    paretoFrontX id (1 : α) [[.pinf, .fin a], [.pinf, .fin b]] = [1, 0] ∧ ¬ XLt (XVal.pinf : XVal α) .pinf := by
  refine ⟨?_, by simp [XLt]⟩
  simp [paretoFrontX, isDominatedAtX, domByX, xdiffPos, coordOK, List.range_succ, h, h.le]

/-- only the sign of the orientation is used: any positive value behaves as `+1`, any negative value as `-1` -/
theorem paretoFront_orientation_sign (o : α) (d : List (List (Option α))) :
    (0 < o → paretoFront o d = paretoFront 1 d) ∧ (o < 0 → paretoFront o d = paretoFront (-1) d) :=
  ⟨fun ho => paretoFront_congr_domBy o 1 d (domBy_pos o ho),
   fun ho => paretoFront_congr_domBy o (-1) d (domBy_neg_orientation o ho)⟩

/-- the wrapper: an integer orientation reaches the kernel; 2-dimensional data are flagged by the sign of it -/
theorem paretoFrontWrap_sign (o : Int) (d : List (List (Option α))) :
    (0 < o → paretoFrontWrap 2 o d = .ok (paretoFront (1 : α) d)) ∧
    (o < 0 → paretoFrontWrap 2 o d = .ok (paretoFront (-1 : α) d)) ∧
    (∀ ndim, ndim ≠ 2 → paretoFrontWrap ndim o d = .error .ndim) := by
  refine ⟨fun ho => ?_, fun ho => ?_, fun ndim hnd => ?_⟩
  · have : (0 : α) < ((o : Int) : α) := by exact_mod_cast ho
    simp only [paretoFrontWrap, paretoFrontNd, ne_eq, not_true_eq_false, if_false,
      (paretoFront_orientation_sign ((o : Int) : α) d).1 this]
  · have : ((o : Int) : α) < 0 := by exact_mod_cast ho
    simp only [paretoFrontWrap, paretoFrontNd, ne_eq, not_true_eq_false, if_false,
      (paretoFront_orientation_sign ((o : Int) : α) d).2 this]
  · simp [paretoFrontWrap, paretoFrontNd, hnd]

/-- the hypothesis `0 < ncol` of `paretoFront_exists_nondominated` is needed: two or more points without any
coordinate are all flagged (every comparison is vacuous) -/
theorem paretoFront_no_columns_all_dominated (o : α) (n : Nat) (hn : 2 ≤ n) :
    paretoFront o (List.replicate n ([] : List (Option α))) = List.replicate n 1 := by
  unfold paretoFront
  simp only [List.length_replicate]
  apply List.ext_getElem
  · simp
  · intro i h1 h2
    simp only [List.length_map, List.length_range] at h1
    simp only [List.getElem_map, List.getElem_range, List.getElem_replicate]
    have : isDominatedAt o (List.replicate n ([] : List (Option α))) i = true := by
      unfold isDominatedAt
      simp only [List.getElem?_replicate, h1, if_true, List.length_replicate, List.any_eq_true, List.mem_range,
        Bool.and_eq_true, bne_iff_ne, ne_eq]
      by_cases hi0 : i = 0
      · exact ⟨1, by omega, by omega, by simp [show 1 < n by omega, domBy]⟩
      · exact ⟨0, by omega, by omega, by simp [show 0 < n by omega, domBy]⟩
    rw [this]
    rfl

example : paretoFront (1 : Rat) [[], [], []] = [1, 1, 1] := paretoFront_no_columns_all_dominated (1 : Rat) 3 (by norm_num)
example : paretoFrontX id (1 : Rat) [[.pinf, .fin 1], [.pinf, .fin 2], [.ninf, .fin 5], [.nan, .fin 0]] = [1, 0, 0, 1] := by
  decide +kernel
example : paretoFrontX rnd53 (1 : Rat) [[.fin (1 / 3), .fin 2], [.fin (2 / 3), .fin 3]] = [1, 0] := by decide +kernel
/-- a rounding that is not the identity and keeps signs (the hypotheses of `paretoFrontX_rounding_irrelevant`) -/
example : (∀ x : Rat, 0 < 2 * x ↔ 0 < x) ∧ (∀ x : Rat, 2 * x < 0 ↔ x < 0) :=
  ⟨fun x => by constructor <;> intro h <;> linarith, fun x => by constructor <;> intro h <;> linarith⟩
example : paretoFront (3 : Rat) [[some 1], [some 2]] = paretoFront (1 : Rat) [[some 1], [some 2]] :=
  (paretoFront_orientation_sign (3 : Rat) _).1 (by norm_num)

/-! ### plotting positions under rounding -/

/-- without rounding `pposR` is `ppos` -/
theorem pposR_exact (n : Nat) (cst : α) : pposR id n cst = ppos n cst := rfl

/-- whatever the (monotone) rounding of the four operations, the computed positions stay inside `[0, 1]` -/
theorem pposR_in_unit_interval (rnd : α → α) (hm : Monotone rnd) (hr0 : rnd 0 = 0) (hr1 : rnd 1 = 1)
    (n : Nat) (cst : α) (h0 : 0 ≤ cst) (h1 : cst ≤ 1 / 2) (l : List α) (h : pposR rnd n cst = .ok l) :
    l.length = n ∧ ∀ p ∈ l, 0 ≤ p ∧ p ≤ 1 := by
  unfold pposR at h
  rw [if_neg (by push Not; exact ⟨h0, h1⟩)] at h
  injection h with h
  subst h
  refine ⟨by simp, ?_⟩
  intro p hp
  simp only [List.mem_map, List.mem_range] at hp
  obtain ⟨i, hi, rfl⟩ := hp
  have h2c : rnd (2 * cst) ≤ 1 := by
    rw [← hr1]; exact hm (by linarith)
  have hin : ((i + 1 : Nat) : α) ≤ (n : α) := by exact_mod_cast hi
  have hi0 : (0 : α) ≤ (i : α) := Nat.cast_nonneg i
  have hnum0 : 0 ≤ rnd (((i + 1 : Nat) : α) - cst) := by
    rw [← hr0]; apply hm; push_cast; linarith
  have hle : rnd (((i + 1 : Nat) : α) - cst) ≤ rnd (((n + 1 : Nat) : α) - rnd (2 * cst)) := by
    apply hm; push_cast at hin ⊢; linarith
  constructor
  · rw [← hr0]; exact hm (div_nonneg hnum0 (le_trans hnum0 hle))
  · rw [← hr1]; exact hm (div_le_one_of_le₀ hle (le_trans hnum0 hle))

/-- ... and they never decrease with the index -/
theorem pposR_nondecreasing (rnd : α → α) (hm : Monotone rnd) (hr0 : rnd 0 = 0) (hr1 : rnd 1 = 1)
    (n : Nat) (cst : α) (h0 : 0 ≤ cst) (h1 : cst ≤ 1 / 2) (l : List α) (h : pposR rnd n cst = .ok l) :
    l.Pairwise (· ≤ ·) := by
  unfold pposR at h
  rw [if_neg (by push Not; exact ⟨h0, h1⟩)] at h
  injection h with h
  subst h
  rw [List.pairwise_map]
  refine List.Pairwise.imp_of_mem ?_ List.pairwise_lt_range
  intro a b ha hb hab
  have hbn : b < n := List.mem_range.mp hb
  have h2c : rnd (2 * cst) ≤ 1 := by
    rw [← hr1]; exact hm (by linarith)
  have hden : 0 ≤ rnd (((n + 1 : Nat) : α) - rnd (2 * cst)) := by
    rw [← hr0]; apply hm
    have : (0 : α) ≤ (n : α) := Nat.cast_nonneg n
    push_cast; linarith
  apply hm
  apply div_le_div_of_nonneg_right _ hden
  apply hm
  have : ((a + 1 : Nat) : α) ≤ ((b + 1 : Nat) : α) := by exact_mod_cast Nat.succ_le_succ hab.le
  linarith

example : pposR rnd53 3 (3 / 10 : Rat) = .ok [7 / 34, 1 / 2, 27 / 34] → False := by decide +kernel
example : (pposR rnd53 2 (1 / 4 : Rat)).toOption = some [3 / 10, 7 / 10] → False := by decide +kernel
example : pposR rnd53 1 (1 / 2 : Rat) = .ok [1 / 2] := by decide +kernel
/-- a monotone rounding that is not the identity and fixes 0 and 1 (the hypotheses of the two theorems above) -/
example : Monotone (fun x : Rat => min x 1) ∧ min (0 : Rat) 1 = 0 ∧ min (1 : Rat) 1 = 1 :=
  ⟨fun a b h => min_le_min_right 1 h, by norm_num, by norm_num⟩

/-! ### density profile under rounding -/

/-- without rounding `normaliseR` is `normalise` -/
theorem normaliseR_exact (y : List α) : normaliseR id y = normalise y := rfl

/-- "normalised to [0, 1]" survives floating point exactly: for any monotone rounding that fixes 0 and 1 and does not
round a positive difference to 0 (true of IEEE subtraction), a profile that is not flat is mapped into `[0, 1]`
and both ends are attained -/
theorem normaliseR_unit_range (rnd : α → α) (hm : Monotone rnd) (hr0 : rnd 0 = 0) (hr1 : rnd 1 = 1)
    (hpos : ∀ x, 0 < x → 0 < rnd x) (y : List α) (a b : α) (ha : a ∈ y) (hb : b ∈ y) (hab : a < b) :
    ∃ l, normaliseR rnd y = some l ∧ l.length = y.length ∧ (∀ v ∈ l, 0 ≤ v ∧ v ≤ 1) ∧ (0 : α) ∈ l ∧ (1 : α) ∈ l := by
  have hne : y ≠ [] := List.ne_nil_of_mem ha
  obtain ⟨lo, hlo⟩ := minL_isSome hne
  obtain ⟨hi, hhi⟩ := maxL_isSome hne
  obtain ⟨hlom, hlole⟩ := minL_spec hlo
  obtain ⟨him, hile⟩ := maxL_spec hhi
  have hlt : lo < hi := lt_of_le_of_lt (hlole a ha) (lt_of_lt_of_le hab (hile b hb))
  have hd : 0 < rnd (hi - lo) := hpos _ (sub_pos.mpr hlt)
  refine ⟨y.map fun v => rnd (rnd (v - lo) / rnd (hi - lo)), ?_, by simp, ?_, ?_, ?_⟩
  · simp [normaliseR, hlo, hhi]
  · intro v hv
    simp only [List.mem_map] at hv
    obtain ⟨w, hw, rfl⟩ := hv
    have h1 : 0 ≤ rnd (w - lo) := by rw [← hr0]; exact hm (sub_nonneg.mpr (hlole w hw))
    have h2 : rnd (w - lo) ≤ rnd (hi - lo) := hm (by linarith [hile w hw])
    constructor
    · rw [← hr0]; exact hm (div_nonneg h1 hd.le)
    · rw [← hr1]; exact hm ((div_le_one hd).mpr h2)
  · simp only [List.mem_map]
    exact ⟨lo, hlom, by simp [hr0]⟩
  · simp only [List.mem_map]
    exact ⟨hi, him, by rw [div_self hd.ne', hr1]⟩

example : normaliseR rnd53 [(2 : Rat), 5, 3] = some [0, 1, 6004799503160661 / 18014398509481984] := by decide +kernel
example : ∃ l, normaliseR (fun x : Rat => min x 1) [2, 5, 3] = some l ∧ l.length = 3 ∧ (∀ v ∈ l, 0 ≤ v ∧ v ≤ 1) ∧
    (0 : Rat) ∈ l ∧ (1 : Rat) ∈ l :=
  normaliseR_unit_range (fun x : Rat => min x 1) (fun a b h => min_le_min_right 1 h) (by norm_num) (by norm_num)
    (fun x hx => lt_min hx one_pos) [2, 5, 3] 2 5 (by simp) (by simp) (by norm_num)

/-! ### standard_normal: the plotting constant -/

/-- `standard_normal` does not check `cst`; the hypothesis `cst ≤ 1/2` of the score theorems is needed: with
`cst = 1` the smallest value of ANY sample is handed `ppf(0)` (minus infinity), outside `(0, 1)` -/
theorem normal_scores_argument_cst_needed (n : Nat) : ¬ (0 < scoreArg n (1 : α) 0) := by
  simp [scoreArg]

/-- every `rank_method` of pandas: the three tie methods of `Model/C20.lean` are the `.std` case, so the theorems
about `standardNormal` speak about `standardNormalX` as well -/
theorem standardNormalX_std (m : RankMethod) (cst : α) (x : List (Option α)) :
    standardNormalX (.std m) cst x = standardNormal m cst x := by
  unfold standardNormalX standardNormal ranksOf
  simp only [List.map_map]
  rfl

/-- `rank_method="dense"`: ranks follow the order of the data, ties share their rank, ranks lie in `1..n` -/
theorem rankDense_order_preserving (xs : List α) (x y : α) (hx : x ∈ xs) (hy : y ∈ xs) :
    (rankDense xs x < rankDense xs y ↔ x < y) ∧ 1 ≤ rankDense xs x ∧ rankDense xs x ≤ (xs.length : α) := by
  refine ⟨⟨?_, rankDense_lt_of_lt xs hx⟩, rankDense_bounds xs hx⟩
  intro h
  by_contra hxy
  rcases lt_or_eq_of_le (not_lt.mp hxy) with h' | h'
  · exact absurd h (not_lt.mpr (rankDense_lt_of_lt xs hy h').le)
  · subst h'; exact lt_irrefl _ h

/-- `rank_method="first"`: a strictly larger value gets a strictly larger rank, equal values are ranked in the order
they appear (so all ranks are different), and every rank lies in `1..n` -/
theorem ranksFirst_order (xs : List α) (i j : Nat) (hi : i < xs.length) (hj : j < xs.length) :
    ∃ ri rj, (ranksFirst xs)[i]? = some ri ∧ (ranksFirst xs)[j]? = some rj ∧
      (xs[i] < xs[j] → ri < rj) ∧ (xs[i] = xs[j] → i < j → ri < rj) ∧ 1 ≤ ri ∧ ri ≤ (xs.length : α) := by
  refine ⟨_, _, ranksFirst_getElem xs i hi, ranksFirst_getElem xs j hj, ?_, ?_, ?_, ?_⟩
  · intro h
    exact_mod_cast firstRank_lt_of_lt xs i j hi hj h
  · intro h hij
    exact_mod_cast firstRank_lt_of_tie xs i j hij hj h
  · have : 1 ≤ cntLt xs xs[i] + cntEq (xs.take i) xs[i] + 1 := by omega
    exact_mod_cast this
  · exact_mod_cast firstRank_le_length xs i hi

/-- whatever produced them, ranks between 1 and n are mapped to plotting positions inside (0, 1) and the scores are a
strictly increasing function of them (this is the clause for `first` and `dense` too) -/
theorem normal_scores_increasing_in_any_rank (ppf : α → α) (hppf : StrictMonoOn ppf (Set.Ioo 0 1))
    (n : Nat) (cst : α) (h0 : 0 ≤ cst) (h1 : cst ≤ 1 / 2) (r s : α)
    (hr : 1 ≤ r ∧ r ≤ (n : α)) (hs : 1 ≤ s ∧ s ≤ (n : α)) :
    (ppf (scoreArg n cst (r - 1)) < ppf (scoreArg n cst (s - 1)) ↔ r < s) ∧
    0 < scoreArg n cst (r - 1) ∧ scoreArg n cst (r - 1) < 1 := by
  have hn : 0 < n := by
    have : (0 : α) < (n : α) := by linarith [hr.1, hr.2]
    exact_mod_cast this
  have ur := scoreArg_mem_unit n hn cst h0 h1 (r := r - 1) (by linarith [hr.1]) (by linarith [hr.2])
  have us := scoreArg_mem_unit n hn cst h0 h1 (r := s - 1) (by linarith [hs.1]) (by linarith [hs.2])
  have hmono : StrictMono (scoreArg n cst) := fun a b h => scoreArg_lt n hn cst h1 h
  refine ⟨?_, ur⟩
  rw [hppf.lt_iff_lt (Set.mem_Ioo.mpr ur) (Set.mem_Ioo.mpr us), hmono.lt_iff_lt]
  constructor <;> intro h <;> linarith

example : ranksFirst [(3 : Rat), 1, 3, 2, 1] = [4, 1, 5, 3, 2] ∧ [(3 : Rat), 1, 3, 2, 1].map (rankDense [3, 1, 3, 2, 1]) = [3, 1, 3, 2, 1] := by
  decide +kernel
example : standardNormalX .first (0 : Rat) [some 3, some 1, some 3] = .ok ([1 / 2, 1 / 4, 3 / 4], [1, 0, 2]) := by decide +kernel

/-! ### lhs_norm: the unit hypercube -/

/-- `lhs_norm` draws its probabilities with `lhs(nsamples, [0]*nvars, [1]*nvars)`: for any permutations and unit draws
every variable gets exactly one probability in each of the strata `[k/n, (k+1)/n)` -/
theorem lhsUnit_one_point_per_stratum (n : Nat) (hn : 0 < n) (nvars : Nat) (perms : List (List Nat)) (rs : List (List α))
    (hp : perms.length = nvars) (hr : rs.length = nvars) (hperm : ∀ p ∈ perms, p.Perm (List.range n))
    (hdraw : ∀ r ∈ rs, r.length = n ∧ ∀ x ∈ r, 0 ≤ x ∧ x < 1) :
    ∃ cols, lhsUnit n nvars perms rs = .ok cols ∧ cols.length = nvars ∧ ∀ c ∈ cols, c.length = n ∧
      ∀ k, k < n → c.countP (fun x => decide ((k : α) / (n : α) ≤ x ∧ x < ((k : α) + 1) / (n : α))) = 1 := by
  have hok := LhsInputsOK_replicate n nvars (0 : α) 1 zero_lt_one perms rs hp hr hperm hdraw
  obtain ⟨cols, hc, hstr⟩ := lhs_one_point_per_stratum n hn _ _ perms rs hok
  obtain ⟨hlen, hcols⟩ := OnePerStratum_replicate n nvars (0 : α) 1 cols hstr
  refine ⟨cols, hc, hlen, ?_⟩
  intro c hcm
  obtain ⟨hl, hk⟩ := hcols c hcm
  refine ⟨hl, ?_⟩
  intro k hkn
  have := hk k hkn
  simpa only [zero_add, sub_zero, mul_one_div] using this

example : lhsUnit 2 2 [[1, 0], [0, 1]] [[(1 / 2 : Rat), 0], [0, 1 / 4]] = .ok [[3 / 4, 0], [0, 5 / 8]] := by decide +kernel

end field7

section floor7
variable {α : Type} [Field α] [LinearOrder α] [IsStrictOrderedRing α] [FloorRing α]

/-! ### Boxplot(df).stats -/

/-- every column of `Boxplot(df).stats` is `boxplot_stats` of that data column alone, in the order of the columns -/
theorem boxStatsCols_column_alone (cols : List (List (Option α))) (b w : α)
    (out : List (Nat × Option (BoxVals α))) (h : boxStatsCols cols b w = .ok out)
    (hrows : ¬ cols.all List.isEmpty = true) :
    out.length = cols.length ∧ ∀ (i : Nat) c, cols[i]? = some c → ∃ st, out[i]? = some st ∧ boxStats c b w = .ok st := by
  unfold boxStatsCols at h
  split at h
  · cases h
  · rw [if_neg hrows] at h
    exact statsOfColumns_spec b w cols out h

/-- a frame without rows has no statistics -/
theorem boxStatsCols_no_rows (cols : List (List (Option α))) (b w : α) (hb : 40 ≤ b) (hbw : b < w)
    (h : cols.all List.isEmpty = true) : boxStatsCols cols b w = .ok [] := by
  unfold boxStatsCols
  rw [(boxplotCheck_iff b w).mpr ⟨hb, hbw⟩]
  simp only [h, if_true]

/-- coverages `40 ≤ box < whiskers ≤ 100`: the frame is accepted whatever its columns hold -/
theorem boxStatsCols_accepts (cols : List (List (Option α))) (b w : α) (hb : 40 ≤ b) (hbw : b < w) (hw : w ≤ 100) :
    ∃ out, boxStatsCols cols b w = .ok out := by
  unfold boxStatsCols
  rw [(boxplotCheck_iff b w).mpr ⟨hb, hbw⟩]
  by_cases h : cols.all List.isEmpty = true
  · exact ⟨[], by simp only [h, if_true]⟩
  · simp only [h]
    exact statsOfColumns_total b w cols fun c _ => boxStats_total c b w (by linarith) hbw.le hw

/-- box coverage below 40, or whiskers coverage not above it: rejected before anything is computed -/
theorem boxStatsCols_rejects_coverage (cols : List (List (Option α))) (b w : α) (h : b < 40 ∨ w ≤ b) :
    boxStatsCols cols b w = .error .boxCoverage ∨ boxStatsCols cols b w = .error .whiskersCoverage := by
  unfold boxStatsCols boxplotCheck
  simp only [Nat.cast_ofNat]
  by_cases h1 : b < 40
  · left; simp [h1]
  · right
    have h2 : w ≤ b := h.resolve_left h1
    simp [h1, h2]

example : (boxStatsCols [[some (1 : Rat), some 2, some 3, some 4, none], [none, none, some 1, none, none]] 50 90).toOption.map
      (fun l => l.map fun g => (g.1, g.2.map fun v => [v.w1, v.med, v.w2]))
    = some [(4, some [23 / 20, 5 / 2, 77 / 20]), (1, none)] := by decide +kernel

end floor7

/-! ### the life of a Boxplot object: any sequence of public calls, accepted or not -/

/-- the statistics are those computed at construction, whatever is called afterwards and whether or not it raised -/
theorem boxRun_stats_unchanged {σ : Type} (s : BoxObj σ) (ops : List BoxOp) :
    (boxRun s ops).1.stats = s.stats ∧ (boxRun s ops).1.strNames = s.strNames ∧ (boxRun s ops).2.length = ops.length := by
  induction ops generalizing s with
  | nil => simp [boxRun]
  | cons op ops ih =>
    obtain ⟨h1, h2, h3⟩ := ih (boxStep s op).1
    obtain ⟨e1, e2, _, _⟩ := boxStep_state s op
    simp [boxRun, h1, h2, h3, e1, e2]

/-- which calls raise: a `draw` out of which an exception escapes, `show_count` before any `draw` or with the count text
hidden, `set_ylim` before any `draw`, `set_color` before any `draw` or on stored labels that are not strings; nothing else -/
theorem boxStep_rejected_iff {σ : Type} (s : BoxObj σ) (op : BoxOp) :
    (boxStep s op).2 = false ↔
      (∃ st, op = .draw false st) ∨ (op = .showCount ∧ ¬ (s.drawn = true ∧ s.countText = true)) ∨
      (op = .setYlim ∧ s.drawn = false) ∨
      (op = .setColor ∧ ¬ (s.drawn = true ∧ (s.elems = false ∨ s.strNames = true))) := by
  cases op <;> simp [boxStep]

/-- a call that raises leaves the object as it was - except a failing `draw`, after which the object counts as drawn
(its statistics are untouched in every case, `boxRun_stats_unchanged`) -/
theorem boxStep_rejected_state {σ : Type} (s : BoxObj σ) (op : BoxOp) (h : (boxStep s op).2 = false) :
    (boxStep s op).1 = s ∨ ∃ st, op = .draw false st ∧ (boxStep s op).1 = { s with drawn := true, elems := st } := by
  cases op <;> simp_all [boxStep]

/-- once `draw` was called (successfully or not), the object stays drawn: `set_ylim` is accepted from then on -/
theorem boxRun_drawn_persists {σ : Type} (s : BoxObj σ) (ops : List BoxOp)
    (h : s.drawn = true ∨ ∃ ok st, BoxOp.draw ok st ∈ ops) :
    (boxRun s ops).1.drawn = true ∧ (boxStep (boxRun s ops).1 .setYlim).2 = true := by
  have key : ∀ (ops : List BoxOp) (s : BoxObj σ), (s.drawn = true ∨ ∃ ok st, BoxOp.draw ok st ∈ ops) →
      (boxRun s ops).1.drawn = true := by
    intro ops
    induction ops with
    | nil =>
      intro s h
      rcases h with h | ⟨ok, st, h⟩
      · simpa [boxRun] using h
      · cases h
    | cons op ops ih =>
      intro s h
      obtain ⟨_, _, e3, e4⟩ := boxStep_state s op
      simp only [boxRun]
      apply ih
      rcases h with h | ⟨ok, st, h⟩
      · exact Or.inl (e3 h)
      · rcases List.mem_cons.mp h with rfl | h
        · exact Or.inl (e4 ok st rfl)
        · exact Or.inr ⟨ok, st, h⟩
  have hd := key ops s h
  exact ⟨hd, by simp [boxStep, hd]⟩

example : (boxRun ({ stats := 7, drawn := false, elems := false, countText := true, strNames := false } : BoxObj Nat)
    [.showCount, .draw false false, .showCount, .setColor, .draw true true, .setColor, .hideCount, .showCount]).2
    = [false, false, true, true, true, false, true, false] := by
  decide

/-! ### Violin: number of abscissae -/

/-- the default `npoints_kde` is the number of rows clipped to `[100, 500]`; a given value is taken as it is -/
theorem violinNpts_range (nrows : Nat) (k : Nat) :
    100 ≤ violinNpts none nrows ∧ violinNpts none nrows ≤ 500 ∧
    (100 ≤ nrows → nrows ≤ 500 → violinNpts none nrows = nrows) ∧ violinNpts (some k) nrows = k := by
  refine ⟨?_, ?_, ?_, ?_⟩ <;> simp only [violinNpts] <;> omega

example : violinNpts none 30 = 100 ∧ violinNpts none 333 = 333 ∧ violinNpts none 9999 = 500 ∧ violinNpts (some 11) 30 = 11 := by decide

end HydroVerif.C20
