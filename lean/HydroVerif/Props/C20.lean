/-
C20 — property theorems. Model: `HydroVerif/Model/C20.lean`; helper lemmas: `Lemmas/C20*.lean`.
All statements are over an arbitrary ordered field `α` (so over ℚ and ℝ), for every size.
-/
import HydroVerif.Lemmas.C20

set_option linter.unusedSectionVars false
set_option linter.unusedVariables false

namespace HydroVerif.C20

section field
variable {α : Type} [Field α] [LinearOrder α] [IsStrictOrderedRing α]

/-! ### ppos -/

/-- every constant of `[0, 0.5]` is accepted and `n` positions are returned -/
theorem ppos_accepts (n : Nat) (cst : α) (h0 : 0 ≤ cst) (h1 : cst ≤ 1 / 2) :
    ∃ l, ppos n cst = .ok l ∧ l.length = n := by
  exact ⟨_, ppos_eq n cst h0 h1, by simp⟩

/-- constants outside `[0, 0.5]` are rejected -/
theorem ppos_rejects (n : Nat) (cst : α) (h : cst < 0 ∨ 1 / 2 < cst) : ppos n cst = .error .cstRange := by
  unfold ppos
  rw [if_pos h]

/-- plotting positions are strictly increasing -/
theorem ppos_strictly_increasing (n : Nat) (cst : α) (h0 : 0 ≤ cst) (h1 : cst ≤ 1 / 2) (l : List α)
    (h : ppos n cst = .ok l) : l.Pairwise (· < ·) := by
  rw [ppos_eq n cst h0 h1] at h
  injection h with h
  subst h
  rw [List.pairwise_map]
  rcases Nat.eq_zero_or_pos n with rfl | hn
  · simp
  have hden := ppos_den_pos n hn cst h1
  refine List.Pairwise.imp ?_ List.pairwise_lt_range
  intro a b hab
  apply div_lt_div_of_pos_right _ hden
  have : ((a + 1 : Nat) : α) < ((b + 1 : Nat) : α) := by exact_mod_cast Nat.succ_lt_succ hab
  linarith

/-- plotting positions lie strictly between 0 and 1 -/
theorem ppos_in_unit_interval (n : Nat) (cst : α) (h0 : 0 ≤ cst) (h1 : cst ≤ 1 / 2) (l : List α)
    (h : ppos n cst = .ok l) : ∀ p ∈ l, 0 < p ∧ p < 1 := by
  rw [ppos_eq n cst h0 h1] at h
  injection h with h
  subst h
  intro p hp
  simp only [List.mem_map, List.mem_range] at hp
  obtain ⟨i, hi, rfl⟩ := hp
  have hn : ((i + 1 : Nat) : α) ≤ (n : α) := by exact_mod_cast hi
  have hi0 : (0 : α) ≤ (i : α) := Nat.cast_nonneg i
  have hden := ppos_den_pos n (by omega) cst h1
  push_cast at hn hden ⊢
  constructor
  · apply div_pos _ hden
    linarith
  · rw [div_lt_one hden]
    linarith

/-- plotting positions are symmetric about 0.5: `p_i + p_{n-1-i} = 1` (0-based) -/
theorem ppos_symmetric (n : Nat) (cst : α) (h0 : 0 ≤ cst) (h1 : cst ≤ 1 / 2) (l : List α)
    (h : ppos n cst = .ok l) (i : Nat) (hi : i < n) :
    ∃ a b, l[i]? = some a ∧ l[n - 1 - i]? = some b ∧ a + b = 1 := by
  rw [ppos_eq n cst h0 h1] at h
  injection h with h
  subst h
  have hj : n - 1 - i < n := by omega
  refine ⟨(((i + 1 : Nat) : α) - cst) / (((n + 1 : Nat) : α) - 2 * cst),
    (((n - 1 - i + 1 : Nat) : α) - cst) / (((n + 1 : Nat) : α) - 2 * cst), ?_, ?_, ?_⟩
  · rw [List.getElem?_map, List.getElem?_range hi]; rfl
  · rw [List.getElem?_map, List.getElem?_range hj]; rfl
  · have hden := ppos_den_pos n (by omega) cst h1
    have hsum : ((i + 1 : Nat) : α) + ((n - 1 - i + 1 : Nat) : α) = ((n + 1 : Nat) : α) := by
      have : i + 1 + (n - 1 - i + 1) = n + 1 := by omega
      exact_mod_cast this
    rw [← add_div, div_eq_one_iff_eq hden.ne']
    linarith

example : ppos 3 (3 / 10 : Rat) = .ok [7 / 34, 1 / 2, 27 / 34] := by decide +kernel

end field

end HydroVerif.C20
