/-
C03 — property theorems (only). Model: `HydroVerif/Model/C03.lean`; lemmas: `HydroVerif/Lemmas/C03*.lean`.
Unless marked "any carrier", theorems are over an arbitrary linearly ordered field `α`, every number of
forecasts `n ≥ 1`, ensemble size `m ≥ 1`, all observation and member values (ties included); `sort` is any
function returning a sorted permutation (`SortOK`), which is all the kernel needs of `qsort`.
`kernel` = `c_crps` (use_weights = 0, is_sorted = 0); `wrapper` = `metrics.crps` on `[n]` / `[n,m]` data with NaN
as `none`; `wrapperNd` = the same with the shape handling of `__check_ensemble_data`; `kernelGen` / `stepOp` /
`runOps` = the extension-level entry point `c_hydrodiy_stat.crps` with both flags, the caller's weights and the
caller's output arrays (which `c_crps` adds to), as histories of operations on one pair of arrays;
`definitionCrps` = the definition itself, executable. All of them run in the driver and are compared with the
real code (`definitionCrps`: with the oracle's exact definition) on every case.

Clause → theorems → what stays outside
 1  CRPS = mean over forecasts of E|X-y| - ½E|X-X'| (all n, m; ties, outliers, constant ensembles)
      crps_eq_definition (kernel), entry_point_spec (entry point, NaN observations anywhere), wrapper_finite
      outside: IEEE rounding (Float instance executed: ≤ 4 ulp to the code; exact-rational oracle on the code)
 1b one member: mean absolute error                      crps_single_member
 2  crps = reliability + potential                       crps_decomposition, entry_point_spec        (rounding: as 1)
 3  resolution = uncertainty - potential                 crps_decomposition, entry_point_spec,
      resolution_eq_uncertainty_minus_potential_any_carrier (literal, so also in IEEE doubles)
 4  reliability, potential, uncertainty ≥ 0 (not NaN)    crps_decomposition, entry_point_spec,
      signs_under_any_monotone_rounding (any arithmetic that rounds every operation monotonically, so also IEEE
      doubles short of overflow; no hypothesis on qsort or shapes: uses the kernel's EDOM guard and the cut of
      o[0], o[ncol] at 1 introduced by the fix: commit)
      outside: overflow to inf (oracle on data up to the bound where even the un-normalised sums are finite; data up
      to 2^1021 generated for the model/code correspondence)
 5  uncertainty = CRPS of the observed climatology       uncertainty_eq_climatology_crps, entry_point_spec
 6  order of members                                     member_permutation_invariant, entry_member_permutation_invariant,
      member_order_irrelevant_any_carrier (bit-for-bit in IEEE doubles given qsort's output is the same)
 7  order of forecasts                                   forecast_permutation_invariant, entry_forecast_permutation_invariant
      outside: float summation order (oracle with rounding budget)
 8  common shift                                         shift_invariant, entry_shift_invariant      (rounding of x+c: oracle)
 9  positive scale                                       scale_equivariant, entry_scale_equivariant  (rounding of c·x: oracle)
10  forecasts with missing observation ignored           missing_observation_ignored (any carrier), entry_point_spec
      (through wrapper_eq_kernel_kept: the entry point IS the kernel on the kept forecasts)
 glue  [n] and [n,1] observation layouts agree (all n): obs_column_layout_same; [n]/[n',m] arrays:
      wrapperNd_vector_matrix; rejected input: wrapper_rejects_length_mismatch, wrapper_rejects_no_valid_forecast,
      obs_two_dimensional_rejected (all any carrier)
      outside: dtype conversion (`astype(float64)`), kept forecasts with some-but-not-all NaN members (model
      declines: nanMember; never generated); ensembles with more than two dimensions are never answered by the
      code (ValueError / IndexError): model ensNot2D, compared as "rejected" only
 n = 0  kernel_zero_forecasts: what the kernel returns at the point `Shape.n_pos` excludes (all parts 0); the entry
      point rejects it before (wrapper_rejects_no_valid_forecast), the extension-level stream calls it
 arrays  entry_point_spec_arrays: clauses 1-4 on `[n]` observations / a C-ordered `[n,m]` array, with `m` members per
      forecast derived from the array shape instead of assumed; CRPS stated with the executable `definitionCrps`
 extension level (the other public route to the same kernel; `metrics.crps` = both flags 0 on zeroed arrays)
      extension_call_zeroed_is_kernel, zeroed_call_forgets_history (any earlier history on the same output arrays
      is irrelevant once they are zeroed), unzeroed_outputs_offset (the zeroing is needed: d0 + CRPS, d1 + reliability),
      call_reads_two_cells, failing_op_leaves_outputs (List Op; AssertionError / EDOM leave both arrays untouched),
      explicit_uniform_weights_same, sorted_flag_same, sorted_flag_rejects_unsorted (all any carrier except the offset)
      outside: use_weights = 1 with fewer weights than forecasts and ncol = 0 read outside the C arrays (model
      declines: weightsLen / shape; never generated); general weights are compared (Float), not given a theorem
 assumption  mergeSort_sortOK: the driver's sort satisfies SortOK
-/
import HydroVerif.Model.C03
import HydroVerif.Lemmas.C03
import HydroVerif.Lemmas.C03Entry
import HydroVerif.Lemmas.C03Pyx
import HydroVerif.Lemmas.C03Round
import Mathlib.Algebra.Order.Field.Rat

set_option linter.unusedSectionVars false
namespace HydroVerif.C03
variable {α : Type} [Field α] [LinearOrder α] [IsStrictOrderedRing α]

/-- the driver's sort (stable merge sort) meets the hypothesis made on `qsort` -/
theorem mergeSort_sortOK : SortOK (fun l : List α => l.mergeSort fun a b => decide (a ≤ b)) := by
  intro l
  refine ⟨?_, List.mergeSort_perm l _⟩
  have := List.pairwise_mergeSort (le := fun a b : α => decide (a ≤ b))
    (fun a b c hab hbc => by simp only [decide_eq_true_eq] at *; exact le_trans hab hbc)
    (fun a b => by simp only [Bool.or_eq_true, decide_eq_true_eq]; exact le_total a b) l
  simpa using this

/-- **CRPS equals its definition**: the kernel never fails on well-shaped finite input and the returned CRPS
(the Hersbach α/β sum, outlier bins included) is the mean over forecasts of `E|X-y| - ½E|X-X'|` taken over the
empirical distribution of the *unsorted* members -/
theorem crps_eq_definition {sort : List α → List α} (hsort : SortOK sort) {m : ℕ} {obs : List α}
    {ens : List (List α)} (h : Shape m obs ens) :
    ∃ res, kernel sort m obs ens = .ok res ∧
      res.crps = ((obs.zip ens).map fun p => energy p.1 p.2).sum / (obs.length : α) := by
  refine ⟨_, kernel_eq hsort h, ?_⟩
  rw [finish_crps m h.m_pos, (finalAcc_inv hsort h).crps]
  ring

/-- one member: the CRPS is the mean absolute error -/
theorem crps_single_member {sort : List α → List α} (hsort : SortOK sort) {obs xs : List α}
    (hlen : xs.length = obs.length) (hn : 1 ≤ obs.length) :
    ∃ res, kernel sort 1 obs (xs.map fun x => [x]) = .ok res ∧
      res.crps = ((obs.zip xs).map fun p => |p.2 - p.1|).sum / (obs.length : α) := by
  have hsh : Shape 1 obs (xs.map fun x => [x]) :=
    ⟨by simpa using hlen, le_refl _, hn, by intro r hr; simp at hr; obtain ⟨x, _, rfl⟩ := hr; rfl⟩
  obtain ⟨res, h1, h2⟩ := crps_eq_definition hsort hsh
  refine ⟨res, h1, ?_⟩
  rw [h2, List.zip_map_right, List.map_map]
  congr 2
  apply List.map_congr_left
  intro p _
  simp [energy_single]

/-- **the decomposition is exact**: `crps = reliability + potential`, `resolution = uncertainty - potential`,
with reliability, potential and uncertainty non-negative (none of them NaN), for every input — both outlier
bins and empty inner bins (`g = 0`, whose table entries are NaN) included -/
theorem crps_decomposition {sort : List α → List α} (hsort : SortOK sort) {m : ℕ} {obs : List α}
    {ens : List (List α)} (h : Shape m obs ens) :
    ∃ res reli pot, kernel sort m obs ens = .ok res ∧ res.reli = some reli ∧ res.pot = some pot ∧
      res.resol = some (res.unc - pot) ∧ res.crps = reli + pot ∧ 0 ≤ reli ∧ 0 ≤ pot ∧ 0 ≤ res.unc := by
  have hinv := finalAcc_inv hsort h
  obtain ⟨reli, pot, h1, h2, h3, h4, h5, h6⟩ :=
    finish_good _ m h.m_pos _ _ hinv (zip_length_mul h)
  refine ⟨_, reli, pot, kernel_eq hsort h, h1, h2, h3, h4, h5, h6, ?_⟩
  have hu := hinv.unc
  have hd : 0 ≤ dsum ((obs.zip ens).map Prod.fst) := by
    unfold dsum
    apply List.sum_nonneg
    intro x hx
    obtain ⟨a, _, rfl⟩ := List.mem_map.mp hx
    apply List.sum_nonneg
    intro z hz
    obtain ⟨b, _, rfl⟩ := List.mem_map.mp hz
    exact abs_nonneg _
  show 0 ≤ (finalAcc sort m obs ens).unc
  have : 0 ≤ 1 / (obs.length : α) * (1 / (obs.length : α)) * dsum ((obs.zip ens).map Prod.fst) :=
    mul_nonneg (mul_self_nonneg _) hd
  linarith

/-- **uncertainty is the CRPS of the observed climatology**: the same kernel, run with the observation
vector as the ensemble of every forecast, returns as CRPS the uncertainty of the original call -/
theorem uncertainty_eq_climatology_crps {sort : List α → List α} (hsort : SortOK sort) {m : ℕ} {obs : List α}
    {ens : List (List α)} (h : Shape m obs ens) :
    ∃ res clim, kernel sort m obs ens = .ok res ∧
      kernel sort obs.length obs (List.replicate obs.length obs) = .ok clim ∧ res.unc = clim.crps := by
  have hc : Shape obs.length obs (List.replicate obs.length obs) :=
    ⟨by simp, h.n_pos, h.n_pos, by intro r hr; rw [(List.mem_replicate.mp hr).2]⟩
  obtain ⟨clim, hk, hcr⟩ := crps_eq_definition hsort hc
  refine ⟨_, clim, kernel_eq hsort h, hk, ?_⟩
  have hn : (0 : α) < obs.length := by exact_mod_cast h.n_pos
  have hu := (finalAcc_inv hsort h).unc
  rw [List.map_fst_zip (by rw [h.len])] at hu
  show (finalAcc sort m obs ens).unc = clim.crps
  rw [hcr, zip_replicate_map, List.map_map]
  have he : ((fun p : α × List α => energy p.1 p.2) ∘ fun y => (y, obs))
      = fun y => (obs.map fun x => |x - y|).sum * (1 / (obs.length : α))
          - dsum obs / (2 * (obs.length : α) ^ 2) := by
    funext y; simp only [Function.comp, energy, dsum]; ring
  rw [he, sum_map_affine]
  have hd : (obs.map fun y => (obs.map fun x => |x - y|).sum).sum = dsum obs := rfl
  rw [hd]
  field_simp
  field_simp at hu
  linear_combination hu

/-- **order of ensemble members**: permuting the members of any forecasts changes nothing in the result
(decomposition and table) -/
theorem member_permutation_invariant {sort : List α → List α} (hsort : SortOK sort) {m : ℕ} {obs : List α}
    {ens ens' : List (List α)} (h : Shape m obs ens) (hp : List.Forall₂ List.Perm ens' ens) :
    kernel sort m obs ens' = kernel sort m obs ens := by
  rw [kernel_eq hsort h, kernel_eq hsort (shape_of_forall₂_perm h hp), finalAcc_member_perm hsort m obs hp]

/-- **order of forecasts**: permuting the (observation, ensemble) pairs changes nothing in the result -/
theorem forecast_permutation_invariant {sort : List α → List α} (hsort : SortOK sort) {m : ℕ}
    {obs obs' : List α} {ens ens' : List (List α)} (h : Shape m obs ens) (h' : Shape m obs' ens')
    (hp : (obs'.zip ens').Perm (obs.zip ens)) :
    kernel sort m obs' ens' = kernel sort m obs ens := by
  rw [kernel_eq hsort h, kernel_eq hsort h', finalAcc_forecast_perm hsort h h' hp]

/-- **common shift**: adding a constant to every observation and member changes nothing in the result -/
theorem shift_invariant {sort : List α → List α} (hsort : SortOK sort) {m : ℕ} {obs : List α}
    {ens : List (List α)} (h : Shape m obs ens) (c : α) :
    kernel sort m (obs.map (· + c)) (ens.map fun r => r.map (· + c)) = kernel sort m obs ens := by
  rw [kernel_eq hsort h, kernel_eq hsort (shape_map (· + c) h), finalAcc_shift hsort h c]

/-- **positive scale factor**: multiplying every observation and member by `c > 0` multiplies CRPS,
reliability, resolution, uncertainty, potential and the columns `a, b, g, reliability, potential` of the
table by `c` and leaves the frequencies unchanged -/
theorem scale_equivariant {sort : List α → List α} (hsort : SortOK sort) {m : ℕ} {obs : List α}
    {ens : List (List α)} (h : Shape m obs ens) (c : α) (hc : 0 < c) :
    ∃ res, kernel sort m obs ens = .ok res ∧
      kernel sort m (obs.map (c * ·)) (ens.map fun r => r.map (c * ·)) = .ok (scaleResult c res) := by
  refine ⟨_, kernel_eq hsort h, ?_⟩
  rw [kernel_eq hsort (shape_map (c * ·) h), finalAcc_scale hsort h c hc, finish_scale c hc]

/-- on finite input the Python wrapper hands everything to the kernel unchanged -/
theorem wrapper_finite (sort : List α → List α) {m : ℕ} {ys : List α} {rows : List (List α)}
    (h : Shape m ys rows) :
    wrapper sort m (ys.map some) (rows.map fun r => r.map some) = kernel sort m ys rows := by
  have hpos : 0 < (ys.zip rows).length := by
    rw [List.length_zip, h.len, Nat.min_self]; exact h.n_pos
  unfold wrapper
  simp only [List.length_map, h.len, ne_eq, not_true_eq_false, if_false, wrapper_kept_of_finite h]
  have hne : ((ys.zip rows).map fun p => ((some p.1 : Option α), p.2.map some)).isEmpty = false := by
    rw [List.isEmpty_eq_false_iff]
    intro h0
    rw [List.map_eq_nil_iff] at h0
    rw [h0] at hpos; simp at hpos
  have hfin : (((ys.zip rows).map fun p => ((some p.1 : Option α), p.2.map some)).map finiteRow)
      = (ys.zip rows).map some := by
    rw [List.map_map]
    apply List.map_congr_left
    intro p _
    simp [finiteRow, optAll_map_some]
  simp only [hne, hfin, optAll_map_some, Bool.false_eq_true, if_false]
  rw [List.map_fst_zip (by rw [h.len]), List.map_snd_zip (by rw [h.len])]


/-! ### the entry point `metrics.crps` on data with missing observations -/

/-- **the whole property at the entry point**: for observations with NaN anywhere (at least one present) and
finite members, `metrics.crps` succeeds; its CRPS is the mean, over the forecasts whose observation is present,
of `E|X-y| - ½E|X-X'|`; the decomposition is exact with non-negative parts; the uncertainty is the CRPS the
kernel returns for the climatology of the present observations -/
theorem entry_point_spec {sort : List α → List α} (hsort : SortOK sort) {m : ℕ} {obs : List (Option α)}
    {rows : List (List α)} (h : EntryShape m obs rows) :
    ∃ res reli pot clim, wrapper sort m obs (rows.map fun r => r.map some) = .ok res ∧
      res.crps = ((keptPairs obs rows).map fun p => energy p.1 p.2).sum / ((keptPairs obs rows).length : α) ∧
      res.reli = some reli ∧ res.pot = some pot ∧ res.resol = some (res.unc - pot) ∧
      res.crps = reli + pot ∧ 0 ≤ reli ∧ 0 ≤ pot ∧ 0 ≤ res.unc ∧
      kernel sort (keptPairs obs rows).length ((keptPairs obs rows).map Prod.fst)
        (List.replicate (keptPairs obs rows).length ((keptPairs obs rows).map Prod.fst)) = .ok clim ∧
      res.unc = clim.crps := by
  have hs := shape_kept h
  obtain ⟨r1, hk1, hc⟩ := crps_eq_definition hsort hs
  obtain ⟨r2, reli, pot, hk2, h1, h2, h3, h4, h5, h6, h7⟩ := crps_decomposition hsort hs
  obtain ⟨r3, clim, hk3, hkc, hu⟩ := uncertainty_eq_climatology_crps hsort hs
  have e12 : r2 = r1 := by rw [hk1] at hk2; exact (Except.ok.inj hk2).symm
  have e13 : r3 = r1 := by rw [hk1] at hk3; exact (Except.ok.inj hk3).symm
  rw [e12] at h1 h2 h3 h4 h7
  rw [e13] at hu
  refine ⟨r1, reli, pot, clim, ?_, ?_, h1, h2, h3, h4, h5, h6, h7, ?_, hu⟩
  · rw [wrapper_eq_kernel_kept sort h]; exact hk1
  · rw [hc, zip_fst_snd, List.length_map]
  · simpa using hkc

theorem entryShape_of_forall₂_perm {m : ℕ} {obs : List (Option α)} {rows rows' : List (List α)}
    (h : EntryShape m obs rows) (hp : List.Forall₂ List.Perm rows' rows) : EntryShape m obs rows' := by
  refine ⟨by rw [hp.length_eq, h.len], h.m_pos, rows_of_forall₂_perm hp h.row_len, ?_⟩
  intro h0
  have := (keptPairs_forall₂_perm obs hp).1
  rw [h0] at this
  exact h.some_obs (List.map_eq_nil_iff.mp this.symm)

/-- entry point, **order of members** -/
theorem entry_member_permutation_invariant {sort : List α → List α} (hsort : SortOK sort) {m : ℕ}
    {obs : List (Option α)} {rows rows' : List (List α)} (h : EntryShape m obs rows)
    (hp : List.Forall₂ List.Perm rows' rows) :
    wrapper sort m obs (rows'.map fun r => r.map some) = wrapper sort m obs (rows.map fun r => r.map some) := by
  rw [wrapper_eq_kernel_kept sort h, wrapper_eq_kernel_kept sort (entryShape_of_forall₂_perm h hp)]
  obtain ⟨h1, h2⟩ := keptPairs_forall₂_perm obs hp
  rw [h1]
  exact member_permutation_invariant hsort (shape_kept h) h2

/-- entry point, **order of forecasts** -/
theorem entry_forecast_permutation_invariant {sort : List α → List α} (hsort : SortOK sort) {m : ℕ}
    {obs obs' : List (Option α)} {rows rows' : List (List α)} (h : EntryShape m obs rows)
    (h' : EntryShape m obs' rows') (hp : (obs'.zip rows').Perm (obs.zip rows)) :
    wrapper sort m obs' (rows'.map fun r => r.map some) = wrapper sort m obs (rows.map fun r => r.map some) := by
  rw [wrapper_eq_kernel_kept sort h, wrapper_eq_kernel_kept sort h']
  apply forecast_permutation_invariant hsort (shape_kept h) (shape_kept h')
  rw [zip_fst_snd, zip_fst_snd]
  exact keptPairs_perm hp

theorem entryShape_map (f : α → α) {m : ℕ} {obs : List (Option α)} {rows : List (List α)}
    (h : EntryShape m obs rows) : EntryShape m (obs.map (Option.map f)) (rows.map (List.map f)) := by
  refine ⟨by simp [h.len], h.m_pos, ?_, ?_⟩
  · intro r hr
    obtain ⟨r', hr', rfl⟩ := List.mem_map.mp hr
    simpa using h.row_len r' hr'
  · rw [keptPairs_map]
    intro h0
    exact h.some_obs (List.map_eq_nil_iff.mp h0)

/-- entry point, **common shift** -/
theorem entry_shift_invariant {sort : List α → List α} (hsort : SortOK sort) {m : ℕ}
    {obs : List (Option α)} {rows : List (List α)} (h : EntryShape m obs rows) (c : α) :
    wrapper sort m (obs.map (Option.map (· + c))) ((rows.map (List.map (· + c))).map fun r => r.map some)
      = wrapper sort m obs (rows.map fun r => r.map some) := by
  rw [wrapper_eq_kernel_kept sort h, wrapper_eq_kernel_kept sort (entryShape_map (· + c) h), keptPairs_map]
  have e1 : ((keptPairs obs rows).map fun p => (p.1 + c, p.2.map (· + c))).map Prod.fst
      = ((keptPairs obs rows).map Prod.fst).map (· + c) := by rw [List.map_map, List.map_map]; rfl
  have e2 : ((keptPairs obs rows).map fun p => (p.1 + c, p.2.map (· + c))).map Prod.snd
      = ((keptPairs obs rows).map Prod.snd).map fun r => r.map (· + c) := by rw [List.map_map, List.map_map]; rfl
  rw [e1, e2]
  exact shift_invariant hsort (shape_kept h) c

/-- entry point, **positive scale factor** -/
theorem entry_scale_equivariant {sort : List α → List α} (hsort : SortOK sort) {m : ℕ}
    {obs : List (Option α)} {rows : List (List α)} (h : EntryShape m obs rows) (c : α) (hc : 0 < c) :
    ∃ res, wrapper sort m obs (rows.map fun r => r.map some) = .ok res ∧
      wrapper sort m (obs.map (Option.map (c * ·))) ((rows.map (List.map (c * ·))).map fun r => r.map some)
        = .ok (scaleResult c res) := by
  obtain ⟨res, h1, h2⟩ := scale_equivariant hsort (shape_kept h) c hc
  refine ⟨res, by rw [wrapper_eq_kernel_kept sort h]; exact h1, ?_⟩
  rw [wrapper_eq_kernel_kept sort (entryShape_map (c * ·) h), keptPairs_map]
  have e1 : ((keptPairs obs rows).map fun p => (c * p.1, p.2.map (c * ·))).map Prod.fst
      = ((keptPairs obs rows).map Prod.fst).map (c * ·) := by rw [List.map_map, List.map_map]; rfl
  have e2 : ((keptPairs obs rows).map fun p => (c * p.1, p.2.map (c * ·))).map Prod.snd
      = ((keptPairs obs rows).map Prod.snd).map fun r => r.map (c * ·) := by rw [List.map_map, List.map_map]; rfl
  rw [e1, e2]
  exact h2

/-! ### facts that need no algebraic law: they hold over ANY carrier with the kernel's operations, so also for
the IEEE-double instance the driver executes -/
section AnyCarrier
variable {β : Type} [Add β] [Sub β] [Mul β] [Div β] [LT β] [DecidableLT β] [LE β] [DecidableLE β]
  [BEq β] [OfNat β 0] [OfNat β 1] [NatCast β]

/-- `resolution = uncertainty - potential` literally (one subtraction of the two returned numbers) -/
theorem resolution_eq_uncertainty_minus_potential_any_carrier (sort : List β → List β) (m : ℕ) (obs : List β)
    (ens : List (List β)) (res : Result β) (h : kernel sort m obs ens = .ok res) :
    res.resol = res.pot.map fun p => res.unc - p := by
  unfold kernel at h
  split at h
  · cases h
  · dsimp only at h
    split at h
    · cases h
    · cases h; rfl

/-- the result depends on the members only through the sorted rows: whenever `qsort` returns the same array
for two orderings of the members (true of any sorted permutation in an order without NaN), every output is
bit-for-bit the same -/
theorem member_order_irrelevant_any_carrier (sort : List β → List β) (m : ℕ) (obs : List β)
    (ens ens' : List (List β)) (h1 : ens'.map sort = ens.map sort)
    (h2 : ens'.map List.length = ens.map List.length) :
    kernel sort m obs ens' = kernel sort m obs ens := by
  have hl : ens'.length = ens.length := by simpa using congrArg List.length h2
  have ha : (ens'.any fun r => r.length != m) = (ens.any fun r => r.length != m) := by
    have : ∀ e : List (List β), (e.any fun r => r.length != m) = ((e.map List.length).any fun k => k != m) := by
      intro e; rw [List.any_map]; rfl
    rw [this, this, h2]
  unfold kernel
  dsimp only
  rw [hl, ha, loop_congr sort _ (obs.zip ens') (obs.zip ens) [] (init m)
    (by rw [zip_map_sort, zip_map_sort, h1])]

/-- **forecasts whose observation is missing are ignored**: inserting, anywhere, a forecast with a NaN
observation (whatever its members) does not change the result -/
theorem missing_observation_ignored (sort : List β → List β) (m : ℕ) (o1 o2 : List (Option β))
    (e1 e2 : List (List (Option β))) (r : List (Option β)) (h1 : e1.length = o1.length) :
    wrapper sort m (o1 ++ none :: o2) (e1 ++ r :: e2) = wrapper sort m (o1 ++ o2) (e1 ++ e2) := by
  unfold wrapper
  have hlen : ((e1 ++ r :: e2).length ≠ (o1 ++ none :: o2).length) ↔ ((e1 ++ e2).length ≠ (o1 ++ o2).length) := by
    simp only [List.length_append, List.length_cons]; omega
  have hk : ((o1 ++ none :: o2).zip (e1 ++ r :: e2)).filter keep = ((o1 ++ o2).zip (e1 ++ e2)).filter keep := by
    rw [List.zip_append h1.symm, List.zip_append h1.symm, List.filter_append, List.filter_append,
      List.zip_cons_cons, List.filter_cons]
    simp [keep]
  simp only [hlen, hk]

/-- rejected input: different numbers of observations and forecasts -/
theorem wrapper_rejects_length_mismatch (sort : List β → List β) (m : ℕ) (obs : List (Option β))
    (ens : List (List (Option β))) (h : ens.length ≠ obs.length) : wrapper sort m obs ens = .error .shape := by
  unfold wrapper; rw [if_pos h]

/-- rejected input: no forecast has both an observation and a member (all observations NaN, all rows NaN,
zero members, zero forecasts) -/
theorem wrapper_rejects_no_valid_forecast (sort : List β → List β) (m : ℕ) (obs : List (Option β))
    (ens : List (List (Option β))) (h : ens.length = obs.length) (hk : ∀ p ∈ obs.zip ens, keep p = false) :
    wrapper sort m obs ens = .error .noValidData := by
  unfold wrapper
  have : (obs.zip ens).filter keep = [] := List.filter_eq_nil_iff.mpr (fun p hp => by simp [hk p hp])
  simp [h, this]

/-- documented layouts: an `[n,1]` observation array is read as the `[n]` vector, for every `n` (also `n = 1`) -/
theorem obs_column_layout_same (sort : List β → List β) (n : ℕ) (obs : List (Option β)) (eshape : List ℕ)
    (ens : List (Option β)) : wrapperNd sort [n, 1] obs eshape ens = wrapperNd sort [n] obs eshape ens := by
  unfold wrapperNd obsForecasts
  by_cases h : n = 1
  · subst h; simp
  · have : (n != 1) = true := by simpa using h
    simp [this]

/-- `[n]` observations with an `[n', m]` ensemble array: the wrapper on the rows of the array -/
theorem wrapperNd_vector_matrix (sort : List β → List β) (n n' m : ℕ) (obs ens : List (Option β)) :
    wrapperNd sort [n] obs [n', m] ens = wrapper sort m obs (reshape m n' ens) := by
  simp [wrapperNd, obsForecasts, ensDims]

/-- rejected input: observations that are genuinely two-dimensional -/
theorem obs_two_dimensional_rejected (sort : List β → List β) (a b : ℕ) (ha : a ≠ 1) (hb : b ≠ 1)
    (obs : List (Option β)) (eshape : List ℕ) (ens : List (Option β)) :
    wrapperNd sort [a, b] obs eshape ens = .error .obsNot1D := by
  have h1 : (a != 1) = true := by simpa using ha
  have h2 : (b != 1) = true := by simpa using hb
  simp [wrapperNd, obsForecasts, h1, h2]


/-! #### the extension-level entry point `c_hydrodiy_stat.crps` (flags, weights, caller's output arrays) -/

/-- **`metrics.crps` is the extension-level call with both flags off on zeroed arrays**: whatever is passed as
weight vector (it is not read), with `crps_decompos[0] = crps_decompos[1] = 0` on entry, `c_crps` computes
exactly what `kernel` describes -/
theorem extension_call_zeroed_is_kernel (sort : List β → List β) (useW : Int) (hw : useW ≠ 1) (m : ℕ)
    (obs : List β) (ens : List (List β)) (weights : List β) (out : Result β) (h0 : out.crps = 0)
    (h1 : out.reli = some 0) :
    kernelGen sort useW 0 m obs ens weights out = kernel sort m obs ens := by
  unfold kernelGen kernel
  split
  · rfl
  · have hnw : ¬ (useW = 1 ∧ weights.length < obs.length) := fun h => hw h.1
    rw [if_neg hnw]
    simp only [if_true]
    rw [zip_replicate_zip _ obs ens obs.length (le_refl _)]
    have := loopW_uniform sort (1 / (obs.length : β)) (obs.zip ens) [] (init m)
    simp only [List.map_nil] at this
    rw [this]
    split
    · rfl
    · rw [finishInto_zeroed _ _ _ h0 h1]

/-- **explicit uniform weights change nothing**: `use_weights = 1` with the vector `1/n, …, 1/n` (longer
vectors: only the first `n` entries are read) gives, bit for bit, the answer of `use_weights = 0` -/
theorem explicit_uniform_weights_same (sort : List β → List β) (isSorted : Int) (m : ℕ) (obs : List β)
    (ens : List (List β)) (extra ws' : List β) (out : Result β) :
    kernelGen sort 1 isSorted m obs ens (List.replicate obs.length (1 / (obs.length : β)) ++ extra) out
      = kernelGen sort 0 isSorted m obs ens ws' out := by
  unfold kernelGen
  split
  · rfl
  · have h1 : ¬ ((1 : Int) = 1 ∧
        (List.replicate obs.length (1 / (obs.length : β)) ++ extra).length < obs.length) := by
      simp
    have h2 : ¬ ((0 : Int) = 1 ∧ ws'.length < obs.length) := by simp
    rw [if_neg h1, if_neg h2]
    simp

/-- **`is_sorted = 1` on members that are in order**: when `qsort` would return every row as it is, skipping
it gives the same answer (for a sorted permutation in a total order this is every row in non-decreasing order:
`sort_fixed_of_sorted`) -/
theorem sorted_flag_same (sort : List β → List β) (useW isSorted : Int) (m : ℕ) (obs : List β)
    (ens : List (List β)) (weights : List β) (out : Result β) (h : ∀ r ∈ ens, sort r = r) :
    kernelGen sort useW isSorted m obs ens weights out = kernelGen sort useW 0 m obs ens weights out := by
  by_cases hs : isSorted = 0
  · rw [hs]
  · unfold kernelGen
    simp only [if_neg hs, if_true]
    split
    · rfl
    · split
      · rfl
      · rw [loopW_congr_srt id sort _ _ _ (fun p hp => by
          have := h p.2 (List.of_mem_zip hp).2
          simp [this])]

/-- **`is_sorted = 1` on members that are NOT in order is refused** (`EDOM`, c_crps.c:112-122): the guard
inside the bin loop means a wrong flag can never produce a number -/
theorem sorted_flag_rejects_unsorted (sort : List β → List β) (useW isSorted : Int) (hs : isSorted ≠ 0) (m : ℕ)
    (hm : 1 ≤ m) (obs : List β) (ens : List (List β)) (weights : List β) (out : Result β)
    (hlen : ens.length = obs.length) (hrows : ∀ r ∈ ens, r.length = m)
    (hw : useW = 1 → obs.length ≤ weights.length) (hu : ∃ r ∈ ens, unsortedAt r = true) :
    kernelGen sort useW isSorted m obs ens weights out = .error .edom := by
  unfold kernelGen
  have h1 : ¬ (ens.length ≠ obs.length ∨ m = 0 ∨ (ens.any fun r => r.length != m) = true) := by
    intro hc
    rcases hc with hc | hc | hc
    · exact hc hlen
    · omega
    · rw [List.any_eq_true] at hc
      obtain ⟨r, hr, hr2⟩ := hc
      simp [hrows r hr] at hr2
  have h2 : ¬ (useW = 1 ∧ weights.length < obs.length) := by
    intro hc; have := hw hc.1; omega
  rw [if_neg h1, if_neg h2]
  simp only [if_neg hs]
  have hwl : (if useW = 1 then weights.take obs.length
      else List.replicate obs.length (1 / (obs.length : β))).length = obs.length := by
    split
    · rename_i h; have := hw h; simp; omega
    · simp
  rw [loopW_id_unsorted]
  · intro p hp h0
    have := hrows p.2 (List.of_mem_zip hp).2
    rw [h0] at this; simp at this; omega
  · obtain ⟨r, hr, hru⟩ := hu
    obtain ⟨a, ha⟩ := exists_zip_of_mem_right (obs.zip (if useW = 1 then weights.take obs.length
      else List.replicate obs.length (1 / (obs.length : β)))) ens
      (by rw [List.length_zip, hwl, Nat.min_self, hlen]) hr
    exact ⟨(a, r), ha, hru⟩

/-- **a failing operation leaves the output arrays as they were**, after any history: wrong shapes
(`AssertionError`) are caught before `c_crps` runs, and `EDOM` is returned from inside the forecast loop,
before the first write to `reliability_table` / `crps_decompos` -/
theorem failing_op_leaves_outputs (sort : List β → List β) (m : ℕ) (out : Result β) (h : List (Op β)) (op : Op β)
    (hf : (stepOp sort m (runOps sort m out h).1 op).2 ≠ none) :
    (runOps sort m out (h ++ [op])).1 = (runOps sort m out h).1 := by
  rw [runOps_append]
  simp only [runOps]
  generalize (runOps sort m out h).1 = st at hf ⊢
  cases op with
  | fill v => simp [stepOp] at hf
  | call useW isSorted obs cols sim weights =>
    simp only [stepOp] at hf ⊢
    by_cases hc : obs.length ≠ sim.length ∨ m ≠ cols
    · rw [if_pos hc]
    · rw [if_neg hc] at hf ⊢
      cases hk : kernelGen sort useW isSorted cols obs sim weights st with
      | error e => rfl
      | ok r => rw [hk] at hf; exact absurd rfl hf

/-- **zeroing the arrays before the call makes the history irrelevant** — what `metrics.crps` does by
allocating `np.zeros` outputs for every call: after ANY sequence of earlier operations on the same arrays
(successful, failed, with other data, other flags), `fill 0` followed by the plain call leaves exactly the
kernel's answer -/
theorem zeroed_call_forgets_history (sort : List β → List β) (m : ℕ) (out : Result β) (h : List (Op β))
    (obs : List β) (ens : List (List β)) (weights : List β) (res : Result β) (hlen : obs.length = ens.length)
    (hk : kernel sort m obs ens = .ok res) :
    runOps sort m out (h ++ [.fill 0, .call 0 0 obs m ens weights])
      = (res, (runOps sort m out h).2 ++ [none, none]) := by
  rw [runOps_append]
  have hz := extension_call_zeroed_is_kernel sort 0 (by decide) m obs ens weights (filled m (0 : β)) rfl rfl
  simp only [runOps, stepOp, hlen, ne_eq, not_true_eq_false, or_self, if_false, hz, hk]

/-- **what a successful call reads of the output arrays** is `crps_decompos[0]` and `crps_decompos[1]` only -/
theorem call_reads_two_cells (sort : List β → List β) (useW isSorted : Int) (m : ℕ) (obs : List β)
    (ens : List (List β)) (weights : List β) (out out' : Result β) (h0 : out.crps = out'.crps)
    (h1 : out.reli = out'.reli) :
    kernelGen sort useW isSorted m obs ens weights out = kernelGen sort useW isSorted m obs ens weights out' := by
  have : ∀ s, finishInto m s out = finishInto m s out' := fun s => finishInto_congr m s out out' h0 h1
  unfold kernelGen
  simp only [this]

end AnyCarrier

/-- **the zeroing is needed**: on arrays holding `d0`, `d1` in `crps_decompos[0..1]` a successful call returns
`d0 + CRPS` and `d1 + reliability` (so a second call on the same arrays doubles both), while resolution,
uncertainty, potential and the table are those of the plain call -/
theorem unzeroed_outputs_offset {sort : List α → List α} (hsort : SortOK sort) {m : ℕ} {obs : List α}
    {ens : List (List α)} (h : Shape m obs ens) (weights : List α) (out : Result α) (d1 : α)
    (hd : out.reli = some d1) :
    ∃ res r, kernel sort m obs ens = .ok res ∧ kernelGen sort 0 0 m obs ens weights out = .ok r ∧
      r.crps = out.crps + res.crps ∧ r.reli = res.reli.map (d1 + ·) ∧ r.resol = res.resol ∧ r.unc = res.unc ∧
      r.pot = res.pot ∧ r.table = res.table := by
  have hk := kernel_eq hsort h
  have hz := extension_call_zeroed_is_kernel sort 0 (by decide) m obs ens weights (filled m (0 : α)) rfl rfl
  rw [hk] at hz
  -- both calls finish on the same loop state
  unfold kernelGen at hz ⊢
  have h1 : ¬ (ens.length ≠ obs.length ∨ m = 0 ∨ (ens.any fun r => r.length != m) = true) := by
    intro hc
    rcases hc with hc | hc | hc
    · exact hc h.len
    · have := h.m_pos; omega
    · rw [List.any_eq_true] at hc
      obtain ⟨r, hr, hr2⟩ := hc
      simp [h.rows r hr] at hr2
  have h2 : ¬ ((0 : Int) = 1 ∧ weights.length < obs.length) := by simp
  rw [if_neg h1, if_neg h2] at hz ⊢
  dsimp only at hz ⊢
  cases hL : loopW (if (0 : Int) = 0 then sort else id) [] ((obs.zip (if (0 : Int) = 1 then weights.take obs.length
      else List.replicate obs.length (1 / (obs.length : α)))).zip ens) (init m) with
  | error e => rw [hL] at hz; cases hz
  | ok s =>
    rw [hL] at hz
    dsimp only at hz ⊢
    have hfin : finishInto m s (filled m (0 : α)) = finish m (finalAcc sort m obs ens) := Except.ok.inj hz
    refine ⟨_, _, hk, rfl, ?_⟩
    rw [← hfin]
    have key := foldl_accRow_offset out.crps d1 (table m (clampFreq s))
      ({ crps := 0, reli := some 0, pot := some 0 } : Tot α)
    simp only [add_zero, Option.map_some] at key
    unfold finishInto
    simp only [hd, filled, key]
    exact ⟨trivial, trivial, trivial, trivial, trivial, trivial⟩


/-- **the excluded point `n = 0`** (`Shape.n_pos`): with no forecast at all the kernel still returns — CRPS,
reliability, potential and uncertainty all 0 (the mean over an empty set of forecasts is not defined; the
entry point never gets here: `wrapper_rejects_no_valid_forecast`; the extension-level stream of the harness
calls it with zero forecasts) -/
theorem kernel_zero_forecasts (sort : List α → List α) {m : ℕ} (hm : 1 ≤ m) :
    ∃ res, kernel sort m [] [] = .ok res ∧ res.crps = 0 ∧ res.reli = some 0 ∧ res.pot = some 0 ∧
      res.resol = some 0 ∧ res.unc = 0 := by
  have h1 : ¬ (([] : List (List α)).length ≠ ([] : List α).length ∨ m = 0 ∨
      (([] : List (List α)).any fun r => r.length != m) = true) := by
    simp; omega
  unfold kernel
  rw [if_neg h1]
  simp only [List.zip_nil_left, loop]
  refine ⟨_, rfl, ?_⟩
  have hidle : (table m (clampFreq (init m : Acc α))).foldl accRow
      ({ crps := 0, reli := some 0, pot := some 0 } : Tot α) = { crps := 0, reli := some 0, pot := some 0 } := by
    apply foldl_accRow_idle
    intro r hr
    simp only [table, List.mem_cons, List.mem_append, List.mem_nil_iff, or_false] at hr
    rcases hr with rfl | hr | rfl
    · simp [row0, clampFreq, init, mkRow, crpsTerm]
    · exact mids_zero m (m - 1) 1 r (by simpa [clampFreq, init] using hr)
    · simp [rowN, clampFreq, init, mkRow, crpsTerm]
  unfold finish finishCore
  simp only [hidle]
  simp [clampFreq, init]


/-! ### the signs under rounded arithmetic -/
section Signs
variable {β : Type} [Add β] [Sub β] [Mul β] [Div β] [LT β] [DecidableLT β] [LE β] [DecidableLE β]
  [BEq β] [OfNat β 0] [OfNat β 1] [NatCast β] [SignArith β]

/-- **reliability, potential and uncertainty are non-negative numbers in ROUNDED arithmetic too**: over every
carrier whose operations satisfy `SignArith` — every ordered field, and every arithmetic that rounds each
operation with a monotone idempotent map fixing 0 and 1 (`Fl R`; IEEE-754 doubles as long as nothing
overflows) — whenever the kernel returns, the three parts are numbers `≥ 0`. No hypothesis on `qsort`, on the
shapes or on the data: that bin widths are non-negative comes from the kernel's own guard
(`ensemb[j+1] < ensemb[j] → EDOM`), and that the outlier frequencies are at most 1 from the cut
`if(o > 1.0) o = 1.0` (in exact arithmetic the cut never acts; in rounded arithmetic it is what keeps the
potential CRPS of an outlier bin from going negative). -/
theorem signs_under_any_monotone_rounding (sort : List β → List β) (m : ℕ) (obs : List β) (ens : List (List β))
    (res : Result β) (h : kernel sort m obs ens = .ok res) :
    (∃ x, res.reli = some x ∧ 0 ≤ x) ∧ (∃ z, res.pot = some z ∧ 0 ≤ z) ∧ 0 ≤ res.unc := by
  unfold kernel at h
  split at h
  · cases h
  · dsimp only at h
    have hw : (0 : β) ≤ 1 / (obs.length : β) :=
      SignArith.div_nonneg SignArith.zero_le_one (SignArith.natCast_nonneg _)
    split at h
    · cases h
    · rename_i s hs
      cases h
      exact finish_nn m s (NN_loop sort hw _ _ _ s hs (NN_init m))

/-- the same at the entry point `metrics.crps`, whatever the shapes, NaN pattern and values passed: if it returns,
reliability, potential and uncertainty are numbers `≥ 0` -/
theorem entry_signs_under_any_monotone_rounding (sort : List β → List β) (oshape : List ℕ) (obs : List (Option β))
    (eshape : List ℕ) (ens : List (Option β)) (res : Result β)
    (h : wrapperNd sort oshape obs eshape ens = .ok res) :
    (∃ x, res.reli = some x ∧ 0 ≤ x) ∧ (∃ z, res.pot = some z ∧ 0 ≤ z) ∧ 0 ≤ res.unc := by
  unfold wrapperNd at h
  split at h
  · cases h
  · split at h
    · cases h
    · unfold wrapper at h
      split at h
      · cases h
      · dsimp only at h
        split at h
        · cases h
        · split at h
          · cases h
          · exact signs_under_any_monotone_rounding sort _ _ _ res h

end Signs

/-! ### the entry point on arrays -/

/-- **the property at the entry point, stated on the arrays themselves**: `obs` a vector of `n` values (NaN
anywhere, one present), `ens` a C-ordered `[n, m]` array of finite members with `m ≥ 1`. Nothing else is
assumed: that every forecast has `m` members is a consequence of the array shape (`reshape_row_len`). -/
theorem entry_point_spec_arrays {sort : List α → List α} (hsort : SortOK sort) {n m : ℕ} (hm : 1 ≤ m)
    {obs : List (Option α)} {flat : List α} (hobs : obs.length = n) (hflat : flat.length = n * m)
    (hsome : ∃ y, some y ∈ obs) :
    ∃ res reli pot, wrapperNd sort [n] obs [n, m] (flat.map some) = .ok res ∧
      res.crps = definitionCrps obs (reshape m n flat) ∧
      res.reli = some reli ∧ res.pot = some pot ∧ res.resol = some (res.unc - pot) ∧
      res.crps = reli + pot ∧ 0 ≤ reli ∧ 0 ≤ pot ∧ 0 ≤ res.unc := by
  have hE : EntryShape m obs (reshape m n flat) :=
    ⟨by rw [reshape_length, hobs], hm, reshape_row_len m n flat hflat,
      keptPairs_ne_nil obs _ (by rw [reshape_length, hobs]) hsome⟩
  obtain ⟨res, reli, pot, _, h1, h2, h3, h4, h5, h6, h7, h8, h9, _, _⟩ := entry_point_spec hsort hE
  refine ⟨res, reli, pot, ?_, ?_, h3, h4, h5, h6, h7, h8, h9⟩
  · rw [wrapperNd_vector_matrix, reshape_map]; exact h1
  · rw [definitionCrps_eq]; exact h2


/-! ### the hypotheses are satisfiable (concrete, non-trivial inputs over `ℚ`) -/

/-- two forecasts, two members: a tie between a member and the observation, an observation above the ensemble -/
example : Shape (α := ℚ) 2 [3, 5] [[3, 1], [2, 2]] :=
  ⟨rfl, by decide, by decide, by intro r hr; simp at hr; rcases hr with rfl | rfl <;> rfl⟩

example : List.Forall₂ List.Perm [[(1 : ℚ), 3], [2, 2]] [[3, 1], [2, 2]] :=
  .cons (List.Perm.swap _ _ _) (.cons (List.Perm.refl _) .nil)

example : ([(5 : ℚ), 3].zip [[(2 : ℚ), 2], [3, 1]]).Perm ([(3 : ℚ), 5].zip [[(3 : ℚ), 1], [2, 2]]) :=
  List.Perm.swap _ _ _

/-- on that input the theorems give: the call succeeds and CRPS = (1/2 + 3)/2 = 7/4 -/
example : ∃ res, kernel (fun l : List ℚ => l.mergeSort fun a b => decide (a ≤ b)) 2 [3, 5] [[3, 1], [2, 2]]
    = .ok res ∧ res.crps = 7 / 4 := by
  obtain ⟨res, h1, h2⟩ := crps_eq_definition (α := ℚ) mergeSort_sortOK
    (m := 2) (obs := [3, 5]) (ens := [[3, 1], [2, 2]])
    ⟨rfl, by decide, by decide, by intro r hr; simp at hr; rcases hr with rfl | rfl <;> rfl⟩
  refine ⟨res, h1, ?_⟩
  rw [h2]
  norm_num [energy, abs_of_nonneg, abs_of_neg]

/-- entry-point data with a missing observation in the middle (its members, whatever they are, do not matter) -/
example : EntryShape (α := ℚ) 2 [some 3, none, some 5] [[3, 1], [7, 7], [2, 2]] :=
  ⟨rfl, by decide, by intro r hr; simp at hr; rcases hr with rfl | rfl | rfl <;> rfl, by simp [keptPairs]⟩

/-- on that input the entry point returns CRPS = 7/4 (the NaN forecast is ignored) -/
example : ∃ res, wrapper (fun l : List ℚ => l.mergeSort fun a b => decide (a ≤ b)) 2 [some 3, none, some 5]
    ([[3, 1], [7, 7], [2, 2]].map fun r => r.map some) = .ok res ∧ res.crps = 7 / 4 := by
  obtain ⟨res, _, _, _, h1, h2, _⟩ := entry_point_spec (α := ℚ) mergeSort_sortOK
    (m := 2) (obs := [some 3, none, some 5]) (rows := [[3, 1], [7, 7], [2, 2]])
    ⟨rfl, by decide, by intro r hr; simp at hr; rcases hr with rfl | rfl | rfl <;> rfl, by simp [keptPairs]⟩
  refine ⟨res, h1, ?_⟩
  have hk : keptPairs [some (3 : ℚ), none, some 5] [[3, 1], [7, 7], [2, 2]] = [(3, [3, 1]), (5, [2, 2])] := by
    simp [keptPairs]
  rw [h2, hk]
  norm_num [energy, abs_of_nonneg, abs_of_neg]

/-- the hypotheses of `member_order_irrelevant_any_carrier` hold for every permutation of the members
whenever `qsort` is a sorted permutation -/
example {sort : List α → List α} (hsort : SortOK sort) {ens ens' : List (List α)}
    (hp : List.Forall₂ List.Perm ens' ens) :
    ens'.map sort = ens.map sort ∧ ens'.map List.length = ens.map List.length := by
  refine ⟨map_sort_of_forall₂_perm hsort hp, ?_⟩
  induction hp with
  | nil => rfl
  | cons hab _ ih => simp [hab.length_eq, ih]

/-- rejected-input hypotheses: an all-NaN observation vector keeps nothing -/
example : ∀ p ∈ ([none, none] : List (Option ℚ)).zip [[some 1], [some 2]], keep p = false := by
  intro p hp; simp at hp; rcases hp with rfl | rfl <;> rfl

/-! #### new theorems: hypotheses met by concrete inputs -/

/-- one member per forecast (`crps_single_member`): three forecasts -/
example : ([(1 : ℚ), 4, 2]).length = ([(0 : ℚ), 5, 2]).length ∧ 1 ≤ ([(0 : ℚ), 5, 2]).length := by decide

/-- `sorted_flag_same`: rows in non-decreasing order are fixed by every sorted permutation -/
example {sort : List ℚ → List ℚ} (hsort : SortOK sort) : ∀ r ∈ [[(1 : ℚ), 3], [2, 2]], sort r = r := by
  intro r hr
  apply sort_fixed_of_sorted hsort
  simp at hr
  rcases hr with rfl | rfl <;> simp

/-- `sorted_flag_rejects_unsorted`: a row out of order, shapes as the Cython wrapper guarantees them -/
example : ∃ r ∈ [[(3 : ℚ), 1], [2, 2]], unsortedAt r = true := ⟨[3, 1], by simp, by simp [unsortedAt]⟩

/-- on that input `is_sorted = 1` returns `EDOM` whatever the arrays hold -/
example (sort : List ℚ → List ℚ) (out : Result ℚ) :
    kernelGen sort 0 1 2 [3, 5] [[3, 1], [2, 2]] [] out = .error .edom :=
  sorted_flag_rejects_unsorted sort 0 1 (by decide) 2 (by decide) [3, 5] [[3, 1], [2, 2]] [] out rfl
    (by intro r hr; simp at hr; rcases hr with rfl | rfl <;> rfl) (by decide)
    ⟨[3, 1], by simp, by simp [unsortedAt]⟩

/-- `failing_op_leaves_outputs`: that call is a failing operation whatever the arrays hold (so after any history) -/
example (sort : List ℚ → List ℚ) (st : Result ℚ) :
    (stepOp sort 2 st (.call 0 1 [3, 5] 2 [[3, 1], [2, 2]] [])).2 ≠ none := by
  simp only [stepOp]
  rw [sorted_flag_rejects_unsorted sort 0 1 (by decide) 2 (by decide) [3, 5] [[3, 1], [2, 2]] [] st rfl
    (by intro r hr; simp at hr; rcases hr with rfl | rfl <;> rfl) (by decide)
    ⟨[3, 1], by simp, by simp [unsortedAt]⟩]
  simp

/-- `entry_point_spec_arrays`: three forecasts of two members as a flat array, the middle observation missing -/
example : ([some (3 : ℚ), none, some 5]).length = 3 ∧ ([(3 : ℚ), 1, 7, 7, 2, 2]).length = 3 * 2 ∧
    ∃ y, some y ∈ [some (3 : ℚ), none, some 5] := ⟨rfl, rfl, 3, by simp⟩

/-- it really rounds: `1/3` becomes `1/2` -/
example : ceilQuarter.rnd (1 / 3) = 1 / 2 := by
  show ((⌈(1 / 3 : ℚ) * 4⌉ : ℤ) : ℚ) / 4 = 1 / 2
  have : ⌈(1 / 3 : ℚ) * 4⌉ = 2 := by
    rw [Int.ceil_eq_iff]; constructor <;> norm_num
  rw [this]; norm_num

/-- `signs_under_any_monotone_rounding` applies to the arithmetic that rounds every operation that way -/
example (sort : List (Fl ceilQuarter) → List (Fl ceilQuarter)) (m : ℕ) (obs : List (Fl ceilQuarter))
    (ens : List (List (Fl ceilQuarter))) (res : Result (Fl ceilQuarter)) (h : kernel sort m obs ens = .ok res) :
    0 ≤ res.unc := (signs_under_any_monotone_rounding sort m obs ens res h).2.2

/-- `signs_under_any_monotone_rounding` is not vacuous in rounded arithmetic: one forecast with one member, any
two representable numbers — the kernel returns -/
example (a b : Fl ceilQuarter) : ∃ res, kernel id 1 [a] [[b]] = .ok res := by
  simp [kernel, loop, unsortedAt]

/-- `extension_call_zeroed_is_kernel`, `zeroed_call_forgets_history`: zeroed arrays meet the two hypotheses, and the
kernel returns on well-shaped input -/
example : (filled 2 (0 : ℚ)).crps = 0 ∧ (filled 2 (0 : ℚ)).reli = some 0 := ⟨rfl, rfl⟩

example : ∃ res, kernel (fun l : List ℚ => l.mergeSort fun a b => decide (a ≤ b)) 2 [3, 5] [[3, 1], [2, 2]] = .ok res := by
  obtain ⟨res, h, _⟩ := crps_eq_definition (α := ℚ) mergeSort_sortOK (m := 2) (obs := [3, 5]) (ens := [[3, 1], [2, 2]])
    ⟨rfl, by decide, by decide, by intro r hr; simp at hr; rcases hr with rfl | rfl <;> rfl⟩
  exact ⟨res, h⟩

end HydroVerif.C03
