/-
C03 — property theorems (only). Model: `HydroVerif/Model/C03.lean`; lemmas: `HydroVerif/Lemmas/C03*.lean`.
All theorems are over an arbitrary linearly ordered field `α` and every number of forecasts `n ≥ 1`,
ensemble size `m ≥ 1`, observation and member values (ties included); `sort` is any function returning a
sorted permutation (`SortOK`), which is all the kernel needs of `qsort`.
-/
import HydroVerif.Model.C03
import HydroVerif.Lemmas.C03
import Mathlib.Algebra.Order.Field.Rat

set_option linter.unusedSectionVars false
namespace HydroVerif.C03
variable {α : Type} [Field α] [LinearOrder α] [IsStrictOrderedRing α]

/-- the driver's sort (stable merge sort) meets the hypothesis made on `qsort` -/
theorem mergeSort_sortOK : SortOK (fun l : List α => l.mergeSort fun a b => decide (a ≤ b)) := by
  intro l
  refine ⟨?_, List.mergeSort_perm l _⟩
  have := List.pairwise_mergeSort (le := fun a b : α => decide (a ≤ b))
    (fun a b c hab hbc => by simp only [decide_eq_true_eq] at *; exact le_trans hab hbc)
    (fun a b => by simp only [Bool.or_eq_true, decide_eq_true_eq]; exact le_total a b) l
  simpa using this

/-- **CRPS equals its definition**: the kernel never fails on well-shaped finite input and the returned CRPS
(the Hersbach α/β sum, outlier bins included) is the mean over forecasts of `E|X-y| - ½E|X-X'|` taken over the
empirical distribution of the *unsorted* members -/
theorem crps_eq_definition {sort : List α → List α} (hsort : SortOK sort) {m : ℕ} {obs : List α}
    {ens : List (List α)} (h : Shape m obs ens) :
    ∃ res, kernel sort m obs ens = .ok res ∧
      res.crps = ((obs.zip ens).map fun p => energy p.1 p.2).sum / (obs.length : α) := by
  refine ⟨_, kernel_eq hsort h, ?_⟩
  rw [finish_crps m h.m_pos, (finalAcc_inv hsort h).crps]
  ring

/-- one member: the CRPS is the mean absolute error -/
theorem crps_single_member {sort : List α → List α} (hsort : SortOK sort) {obs xs : List α}
    (hlen : xs.length = obs.length) (hn : 1 ≤ obs.length) :
    ∃ res, kernel sort 1 obs (xs.map fun x => [x]) = .ok res ∧
      res.crps = ((obs.zip xs).map fun p => |p.2 - p.1|).sum / (obs.length : α) := by
  have hsh : Shape 1 obs (xs.map fun x => [x]) :=
    ⟨by simpa using hlen, le_refl _, hn, by intro r hr; simp at hr; obtain ⟨x, _, rfl⟩ := hr; rfl⟩
  obtain ⟨res, h1, h2⟩ := crps_eq_definition hsort hsh
  refine ⟨res, h1, ?_⟩
  rw [h2, List.zip_map_right, List.map_map]
  congr 2
  apply List.map_congr_left
  intro p _
  simp [energy_single]

/-- **the decomposition is exact**: `crps = reliability + potential`, `resolution = uncertainty - potential`,
with reliability, potential and uncertainty non-negative (none of them NaN), for every input — both outlier
bins and empty inner bins (`g = 0`, whose table entries are NaN) included -/
theorem crps_decomposition {sort : List α → List α} (hsort : SortOK sort) {m : ℕ} {obs : List α}
    {ens : List (List α)} (h : Shape m obs ens) :
    ∃ res reli pot, kernel sort m obs ens = .ok res ∧ res.reli = some reli ∧ res.pot = some pot ∧
      res.resol = some (res.unc - pot) ∧ res.crps = reli + pot ∧ 0 ≤ reli ∧ 0 ≤ pot ∧ 0 ≤ res.unc := by
  have hinv := finalAcc_inv hsort h
  obtain ⟨reli, pot, h1, h2, h3, h4, h5, h6⟩ :=
    finish_good _ m h.m_pos _ _ hinv (zip_length_mul h)
  refine ⟨_, reli, pot, kernel_eq hsort h, h1, h2, h3, h4, h5, h6, ?_⟩
  have hu := hinv.unc
  have hd : 0 ≤ dsum ((obs.zip ens).map Prod.fst) := by
    unfold dsum
    apply List.sum_nonneg
    intro x hx
    obtain ⟨a, _, rfl⟩ := List.mem_map.mp hx
    apply List.sum_nonneg
    intro z hz
    obtain ⟨b, _, rfl⟩ := List.mem_map.mp hz
    exact abs_nonneg _
  show 0 ≤ (finalAcc sort m obs ens).unc
  have : 0 ≤ 1 / (obs.length : α) * (1 / (obs.length : α)) * dsum ((obs.zip ens).map Prod.fst) :=
    mul_nonneg (mul_self_nonneg _) hd
  linarith

/-- **uncertainty is the CRPS of the observed climatology**: the same kernel, run with the observation
vector as the ensemble of every forecast, returns as CRPS the uncertainty of the original call -/
theorem uncertainty_eq_climatology_crps {sort : List α → List α} (hsort : SortOK sort) {m : ℕ} {obs : List α}
    {ens : List (List α)} (h : Shape m obs ens) :
    ∃ res clim, kernel sort m obs ens = .ok res ∧
      kernel sort obs.length obs (List.replicate obs.length obs) = .ok clim ∧ res.unc = clim.crps := by
  have hc : Shape obs.length obs (List.replicate obs.length obs) :=
    ⟨by simp, h.n_pos, h.n_pos, by intro r hr; rw [(List.mem_replicate.mp hr).2]⟩
  obtain ⟨clim, hk, hcr⟩ := crps_eq_definition hsort hc
  refine ⟨_, clim, kernel_eq hsort h, hk, ?_⟩
  have hn : (0 : α) < obs.length := by exact_mod_cast h.n_pos
  have hu := (finalAcc_inv hsort h).unc
  rw [List.map_fst_zip (by rw [h.len])] at hu
  show (finalAcc sort m obs ens).unc = clim.crps
  rw [hcr, zip_replicate_map, List.map_map]
  have he : ((fun p : α × List α => energy p.1 p.2) ∘ fun y => (y, obs))
      = fun y => (obs.map fun x => |x - y|).sum * (1 / (obs.length : α))
          - dsum obs / (2 * (obs.length : α) ^ 2) := by
    funext y; simp only [Function.comp, energy, dsum]; ring
  rw [he, sum_map_affine]
  have hd : (obs.map fun y => (obs.map fun x => |x - y|).sum).sum = dsum obs := rfl
  rw [hd]
  field_simp
  field_simp at hu
  linear_combination hu

/-- **order of ensemble members**: permuting the members of any forecasts changes nothing in the result
(decomposition and table) -/
theorem member_permutation_invariant {sort : List α → List α} (hsort : SortOK sort) {m : ℕ} {obs : List α}
    {ens ens' : List (List α)} (h : Shape m obs ens) (hp : List.Forall₂ List.Perm ens' ens) :
    kernel sort m obs ens' = kernel sort m obs ens := by
  rw [kernel_eq hsort h, kernel_eq hsort (shape_of_forall₂_perm h hp), finalAcc_member_perm hsort m obs hp]

/-- **order of forecasts**: permuting the (observation, ensemble) pairs changes nothing in the result -/
theorem forecast_permutation_invariant {sort : List α → List α} (hsort : SortOK sort) {m : ℕ}
    {obs obs' : List α} {ens ens' : List (List α)} (h : Shape m obs ens) (h' : Shape m obs' ens')
    (hp : (obs'.zip ens').Perm (obs.zip ens)) :
    kernel sort m obs' ens' = kernel sort m obs ens := by
  rw [kernel_eq hsort h, kernel_eq hsort h', finalAcc_forecast_perm hsort h h' hp]

/-- **common shift**: adding a constant to every observation and member changes nothing in the result -/
theorem shift_invariant {sort : List α → List α} (hsort : SortOK sort) {m : ℕ} {obs : List α}
    {ens : List (List α)} (h : Shape m obs ens) (c : α) :
    kernel sort m (obs.map (· + c)) (ens.map fun r => r.map (· + c)) = kernel sort m obs ens := by
  rw [kernel_eq hsort h, kernel_eq hsort (shape_map (· + c) h), finalAcc_shift hsort h c]

/-- **positive scale factor**: multiplying every observation and member by `c > 0` multiplies CRPS,
reliability, resolution, uncertainty, potential and the columns `a, b, g, reliability, potential` of the
table by `c` and leaves the frequencies unchanged -/
theorem scale_equivariant {sort : List α → List α} (hsort : SortOK sort) {m : ℕ} {obs : List α}
    {ens : List (List α)} (h : Shape m obs ens) (c : α) (hc : 0 < c) :
    ∃ res, kernel sort m obs ens = .ok res ∧
      kernel sort m (obs.map (c * ·)) (ens.map fun r => r.map (c * ·)) = .ok (scaleResult c res) := by
  refine ⟨_, kernel_eq hsort h, ?_⟩
  rw [kernel_eq hsort (shape_map (c * ·) h), finalAcc_scale hsort h c hc, finish_scale c hc]

/-- on finite input the Python wrapper hands everything to the kernel unchanged -/
theorem wrapper_finite (sort : List α → List α) {m : ℕ} {ys : List α} {rows : List (List α)}
    (h : Shape m ys rows) :
    wrapper sort m (ys.map some) (rows.map fun r => r.map some) = kernel sort m ys rows := by
  have hpos : 0 < (ys.zip rows).length := by
    rw [List.length_zip, h.len, Nat.min_self]; exact h.n_pos
  unfold wrapper
  simp only [List.length_map, h.len, ne_eq, not_true_eq_false, if_false, wrapper_kept_of_finite h]
  have hne : ((ys.zip rows).map fun p => ((some p.1 : Option α), p.2.map some)).isEmpty = false := by
    rw [List.isEmpty_eq_false_iff]
    intro h0
    rw [List.map_eq_nil_iff] at h0
    rw [h0] at hpos; simp at hpos
  have hfin : (((ys.zip rows).map fun p => ((some p.1 : Option α), p.2.map some)).map finiteRow)
      = (ys.zip rows).map some := by
    rw [List.map_map]
    apply List.map_congr_left
    intro p _
    simp [finiteRow, optAll_map_some]
  simp only [hne, hfin, optAll_map_some, Bool.false_eq_true, if_false]
  rw [List.map_fst_zip (by rw [h.len]), List.map_snd_zip (by rw [h.len])]

/-- **forecasts whose observation is missing are ignored**: inserting, anywhere, a forecast with a NaN
observation (whatever its members) does not change the result -/
theorem missing_observation_ignored (sort : List α → List α) (m : ℕ) (o1 o2 : List (Option α))
    (e1 e2 : List (List (Option α))) (r : List (Option α)) (h1 : e1.length = o1.length) :
    wrapper sort m (o1 ++ none :: o2) (e1 ++ r :: e2) = wrapper sort m (o1 ++ o2) (e1 ++ e2) := by
  unfold wrapper
  have hlen : ((e1 ++ r :: e2).length ≠ (o1 ++ none :: o2).length) ↔ ((e1 ++ e2).length ≠ (o1 ++ o2).length) := by
    simp only [List.length_append, List.length_cons]; omega
  have hk : ((o1 ++ none :: o2).zip (e1 ++ r :: e2)).filter keep = ((o1 ++ o2).zip (e1 ++ e2)).filter keep := by
    rw [List.zip_append h1.symm, List.zip_append h1.symm, List.filter_append, List.filter_append,
      List.zip_cons_cons, List.filter_cons]
    simp [keep]
  simp only [hlen, hk]

/-! ### the hypotheses are satisfiable (concrete, non-trivial inputs over `ℚ`) -/

/-- two forecasts, two members: a tie between a member and the observation, an observation above the ensemble -/
example : Shape (α := ℚ) 2 [3, 5] [[3, 1], [2, 2]] :=
  ⟨rfl, by decide, by decide, by intro r hr; simp at hr; rcases hr with rfl | rfl <;> rfl⟩

example : List.Forall₂ List.Perm [[(1 : ℚ), 3], [2, 2]] [[3, 1], [2, 2]] :=
  .cons (List.Perm.swap _ _ _) (.cons (List.Perm.refl _) .nil)

example : ([(5 : ℚ), 3].zip [[(2 : ℚ), 2], [3, 1]]).Perm ([(3 : ℚ), 5].zip [[(3 : ℚ), 1], [2, 2]]) :=
  List.Perm.swap _ _ _

/-- on that input the theorems give: the call succeeds and CRPS = (1/2 + 3)/2 = 7/4 -/
example : ∃ res, kernel (fun l : List ℚ => l.mergeSort fun a b => decide (a ≤ b)) 2 [3, 5] [[3, 1], [2, 2]]
    = .ok res ∧ res.crps = 7 / 4 := by
  obtain ⟨res, h1, h2⟩ := crps_eq_definition (α := ℚ) mergeSort_sortOK
    (m := 2) (obs := [3, 5]) (ens := [[3, 1], [2, 2]])
    ⟨rfl, by decide, by decide, by intro r hr; simp at hr; rcases hr with rfl | rfl <;> rfl⟩
  refine ⟨res, h1, ?_⟩
  rw [h2]
  norm_num [energy, abs_of_nonneg, abs_of_neg]

end HydroVerif.C03
