/-
C03 — property theorems (only). Model: `HydroVerif/Model/C03.lean`; lemmas: `HydroVerif/Lemmas/C03*.lean`.
Unless marked "any carrier", theorems are over an arbitrary linearly ordered field `α`, every number of
forecasts `n ≥ 1`, ensemble size `m ≥ 1`, all observation and member values (ties included); `sort` is any
function returning a sorted permutation (`SortOK`), which is all the kernel needs of `qsort`.
`kernel` = `c_crps` (use_weights = 0, is_sorted = 0); `wrapper` = `metrics.crps` on `[n]` / `[n,m]` data with NaN
as `none`; `wrapperNd` = the same with the shape handling of `__check_ensemble_data`. All three run in the
driver and are compared with the real code on every case.

Clause → theorems → what stays outside
 1  CRPS = mean over forecasts of E|X-y| - ½E|X-X'| (all n, m; ties, outliers, constant ensembles)
      crps_eq_definition (kernel), entry_point_spec (entry point, NaN observations anywhere), wrapper_finite
      outside: IEEE rounding (Float instance executed: ≤ 4 ulp to the code; exact-rational oracle on the code)
 1b one member: mean absolute error                      crps_single_member
 2  crps = reliability + potential                       crps_decomposition, entry_point_spec        (rounding: as 1)
 3  resolution = uncertainty - potential                 crps_decomposition, entry_point_spec,
      resolution_eq_uncertainty_minus_potential_any_carrier (literal, so also in IEEE doubles)
 4  reliability, potential, uncertainty ≥ 0 (not NaN)    crps_decomposition, entry_point_spec
      outside: sign in IEEE doubles (held by the oracle only; needed the fix: commit capping o[0], o[ncol])
 5  uncertainty = CRPS of the observed climatology       uncertainty_eq_climatology_crps, entry_point_spec
 6  order of members                                     member_permutation_invariant, entry_member_permutation_invariant,
      member_order_irrelevant_any_carrier (bit-for-bit in IEEE doubles given qsort's output is the same)
 7  order of forecasts                                   forecast_permutation_invariant, entry_forecast_permutation_invariant
      outside: float summation order (oracle with rounding budget)
 8  common shift                                         shift_invariant, entry_shift_invariant      (rounding of x+c: oracle)
 9  positive scale                                       scale_equivariant, entry_scale_equivariant  (rounding of c·x: oracle)
10  forecasts with missing observation ignored           missing_observation_ignored (any carrier), entry_point_spec
      (through wrapper_eq_kernel_kept: the entry point IS the kernel on the kept forecasts)
 glue  [n] and [n,1] observation layouts agree (all n): obs_column_layout_same; [n]/[n',m] arrays:
      wrapperNd_vector_matrix; rejected input: wrapper_rejects_length_mismatch, wrapper_rejects_no_valid_forecast,
      obs_two_dimensional_rejected (all any carrier)
      outside: dtype conversion (`astype(float64)`), ensembles with more than two dimensions, kept forecasts
      with some-but-not-all NaN members (model declines: nanMember / ensNot2D; never generated)
 assumption  mergeSort_sortOK: the driver's sort satisfies SortOK
-/
import HydroVerif.Model.C03
import HydroVerif.Lemmas.C03
import HydroVerif.Lemmas.C03Entry
import Mathlib.Algebra.Order.Field.Rat

set_option linter.unusedSectionVars false
namespace HydroVerif.C03
variable {α : Type} [Field α] [LinearOrder α] [IsStrictOrderedRing α]

/-- the driver's sort (stable merge sort) meets the hypothesis made on `qsort` -/
theorem mergeSort_sortOK : SortOK (fun l : List α => l.mergeSort fun a b => decide (a ≤ b)) := by
  intro l
  refine ⟨?_, List.mergeSort_perm l _⟩
  have := List.pairwise_mergeSort (le := fun a b : α => decide (a ≤ b))
    (fun a b c hab hbc => by simp only [decide_eq_true_eq] at *; exact le_trans hab hbc)
    (fun a b => by simp only [Bool.or_eq_true, decide_eq_true_eq]; exact le_total a b) l
  simpa using this

/-- **CRPS equals its definition**: the kernel never fails on well-shaped finite input and the returned CRPS
(the Hersbach α/β sum, outlier bins included) is the mean over forecasts of `E|X-y| - ½E|X-X'|` taken over the
empirical distribution of the *unsorted* members -/
theorem crps_eq_definition {sort : List α → List α} (hsort : SortOK sort) {m : ℕ} {obs : List α}
    {ens : List (List α)} (h : Shape m obs ens) :
    ∃ res, kernel sort m obs ens = .ok res ∧
      res.crps = ((obs.zip ens).map fun p => energy p.1 p.2).sum / (obs.length : α) := by
  refine ⟨_, kernel_eq hsort h, ?_⟩
  rw [finish_crps m h.m_pos, (finalAcc_inv hsort h).crps]
  ring

/-- one member: the CRPS is the mean absolute error -/
theorem crps_single_member {sort : List α → List α} (hsort : SortOK sort) {obs xs : List α}
    (hlen : xs.length = obs.length) (hn : 1 ≤ obs.length) :
    ∃ res, kernel sort 1 obs (xs.map fun x => [x]) = .ok res ∧
      res.crps = ((obs.zip xs).map fun p => |p.2 - p.1|).sum / (obs.length : α) := by
  have hsh : Shape 1 obs (xs.map fun x => [x]) :=
    ⟨by simpa using hlen, le_refl _, hn, by intro r hr; simp at hr; obtain ⟨x, _, rfl⟩ := hr; rfl⟩
  obtain ⟨res, h1, h2⟩ := crps_eq_definition hsort hsh
  refine ⟨res, h1, ?_⟩
  rw [h2, List.zip_map_right, List.map_map]
  congr 2
  apply List.map_congr_left
  intro p _
  simp [energy_single]

/-- **the decomposition is exact**: `crps = reliability + potential`, `resolution = uncertainty - potential`,
with reliability, potential and uncertainty non-negative (none of them NaN), for every input — both outlier
bins and empty inner bins (`g = 0`, whose table entries are NaN) included -/
theorem crps_decomposition {sort : List α → List α} (hsort : SortOK sort) {m : ℕ} {obs : List α}
    {ens : List (List α)} (h : Shape m obs ens) :
    ∃ res reli pot, kernel sort m obs ens = .ok res ∧ res.reli = some reli ∧ res.pot = some pot ∧
      res.resol = some (res.unc - pot) ∧ res.crps = reli + pot ∧ 0 ≤ reli ∧ 0 ≤ pot ∧ 0 ≤ res.unc := by
  have hinv := finalAcc_inv hsort h
  obtain ⟨reli, pot, h1, h2, h3, h4, h5, h6⟩ :=
    finish_good _ m h.m_pos _ _ hinv (zip_length_mul h)
  refine ⟨_, reli, pot, kernel_eq hsort h, h1, h2, h3, h4, h5, h6, ?_⟩
  have hu := hinv.unc
  have hd : 0 ≤ dsum ((obs.zip ens).map Prod.fst) := by
    unfold dsum
    apply List.sum_nonneg
    intro x hx
    obtain ⟨a, _, rfl⟩ := List.mem_map.mp hx
    apply List.sum_nonneg
    intro z hz
    obtain ⟨b, _, rfl⟩ := List.mem_map.mp hz
    exact abs_nonneg _
  show 0 ≤ (finalAcc sort m obs ens).unc
  have : 0 ≤ 1 / (obs.length : α) * (1 / (obs.length : α)) * dsum ((obs.zip ens).map Prod.fst) :=
    mul_nonneg (mul_self_nonneg _) hd
  linarith

/-- **uncertainty is the CRPS of the observed climatology**: the same kernel, run with the observation
vector as the ensemble of every forecast, returns as CRPS the uncertainty of the original call -/
theorem uncertainty_eq_climatology_crps {sort : List α → List α} (hsort : SortOK sort) {m : ℕ} {obs : List α}
    {ens : List (List α)} (h : Shape m obs ens) :
    ∃ res clim, kernel sort m obs ens = .ok res ∧
      kernel sort obs.length obs (List.replicate obs.length obs) = .ok clim ∧ res.unc = clim.crps := by
  have hc : Shape obs.length obs (List.replicate obs.length obs) :=
    ⟨by simp, h.n_pos, h.n_pos, by intro r hr; rw [(List.mem_replicate.mp hr).2]⟩
  obtain ⟨clim, hk, hcr⟩ := crps_eq_definition hsort hc
  refine ⟨_, clim, kernel_eq hsort h, hk, ?_⟩
  have hn : (0 : α) < obs.length := by exact_mod_cast h.n_pos
  have hu := (finalAcc_inv hsort h).unc
  rw [List.map_fst_zip (by rw [h.len])] at hu
  show (finalAcc sort m obs ens).unc = clim.crps
  rw [hcr, zip_replicate_map, List.map_map]
  have he : ((fun p : α × List α => energy p.1 p.2) ∘ fun y => (y, obs))
      = fun y => (obs.map fun x => |x - y|).sum * (1 / (obs.length : α))
          - dsum obs / (2 * (obs.length : α) ^ 2) := by
    funext y; simp only [Function.comp, energy, dsum]; ring
  rw [he, sum_map_affine]
  have hd : (obs.map fun y => (obs.map fun x => |x - y|).sum).sum = dsum obs := rfl
  rw [hd]
  field_simp
  field_simp at hu
  linear_combination hu

/-- **order of ensemble members**: permuting the members of any forecasts changes nothing in the result
(decomposition and table) -/
theorem member_permutation_invariant {sort : List α → List α} (hsort : SortOK sort) {m : ℕ} {obs : List α}
    {ens ens' : List (List α)} (h : Shape m obs ens) (hp : List.Forall₂ List.Perm ens' ens) :
    kernel sort m obs ens' = kernel sort m obs ens := by
  rw [kernel_eq hsort h, kernel_eq hsort (shape_of_forall₂_perm h hp), finalAcc_member_perm hsort m obs hp]

/-- **order of forecasts**: permuting the (observation, ensemble) pairs changes nothing in the result -/
theorem forecast_permutation_invariant {sort : List α → List α} (hsort : SortOK sort) {m : ℕ}
    {obs obs' : List α} {ens ens' : List (List α)} (h : Shape m obs ens) (h' : Shape m obs' ens')
    (hp : (obs'.zip ens').Perm (obs.zip ens)) :
    kernel sort m obs' ens' = kernel sort m obs ens := by
  rw [kernel_eq hsort h, kernel_eq hsort h', finalAcc_forecast_perm hsort h h' hp]

/-- **common shift**: adding a constant to every observation and member changes nothing in the result -/
theorem shift_invariant {sort : List α → List α} (hsort : SortOK sort) {m : ℕ} {obs : List α}
    {ens : List (List α)} (h : Shape m obs ens) (c : α) :
    kernel sort m (obs.map (· + c)) (ens.map fun r => r.map (· + c)) = kernel sort m obs ens := by
  rw [kernel_eq hsort h, kernel_eq hsort (shape_map (· + c) h), finalAcc_shift hsort h c]

/-- **positive scale factor**: multiplying every observation and member by `c > 0` multiplies CRPS,
reliability, resolution, uncertainty, potential and the columns `a, b, g, reliability, potential` of the
table by `c` and leaves the frequencies unchanged -/
theorem scale_equivariant {sort : List α → List α} (hsort : SortOK sort) {m : ℕ} {obs : List α}
    {ens : List (List α)} (h : Shape m obs ens) (c : α) (hc : 0 < c) :
    ∃ res, kernel sort m obs ens = .ok res ∧
      kernel sort m (obs.map (c * ·)) (ens.map fun r => r.map (c * ·)) = .ok (scaleResult c res) := by
  refine ⟨_, kernel_eq hsort h, ?_⟩
  rw [kernel_eq hsort (shape_map (c * ·) h), finalAcc_scale hsort h c hc, finish_scale c hc]

/-- on finite input the Python wrapper hands everything to the kernel unchanged -/
theorem wrapper_finite (sort : List α → List α) {m : ℕ} {ys : List α} {rows : List (List α)}
    (h : Shape m ys rows) :
    wrapper sort m (ys.map some) (rows.map fun r => r.map some) = kernel sort m ys rows := by
  have hpos : 0 < (ys.zip rows).length := by
    rw [List.length_zip, h.len, Nat.min_self]; exact h.n_pos
  unfold wrapper
  simp only [List.length_map, h.len, ne_eq, not_true_eq_false, if_false, wrapper_kept_of_finite h]
  have hne : ((ys.zip rows).map fun p => ((some p.1 : Option α), p.2.map some)).isEmpty = false := by
    rw [List.isEmpty_eq_false_iff]
    intro h0
    rw [List.map_eq_nil_iff] at h0
    rw [h0] at hpos; simp at hpos
  have hfin : (((ys.zip rows).map fun p => ((some p.1 : Option α), p.2.map some)).map finiteRow)
      = (ys.zip rows).map some := by
    rw [List.map_map]
    apply List.map_congr_left
    intro p _
    simp [finiteRow, optAll_map_some]
  simp only [hne, hfin, optAll_map_some, Bool.false_eq_true, if_false]
  rw [List.map_fst_zip (by rw [h.len]), List.map_snd_zip (by rw [h.len])]


/-! ### the entry point `metrics.crps` on data with missing observations -/

/-- **the whole property at the entry point**: for observations with NaN anywhere (at least one present) and
finite members, `metrics.crps` succeeds; its CRPS is the mean, over the forecasts whose observation is present,
of `E|X-y| - ½E|X-X'|`; the decomposition is exact with non-negative parts; the uncertainty is the CRPS the
kernel returns for the climatology of the present observations -/
theorem entry_point_spec {sort : List α → List α} (hsort : SortOK sort) {m : ℕ} {obs : List (Option α)}
    {rows : List (List α)} (h : EntryShape m obs rows) :
    ∃ res reli pot clim, wrapper sort m obs (rows.map fun r => r.map some) = .ok res ∧
      res.crps = ((keptPairs obs rows).map fun p => energy p.1 p.2).sum / ((keptPairs obs rows).length : α) ∧
      res.reli = some reli ∧ res.pot = some pot ∧ res.resol = some (res.unc - pot) ∧
      res.crps = reli + pot ∧ 0 ≤ reli ∧ 0 ≤ pot ∧ 0 ≤ res.unc ∧
      kernel sort (keptPairs obs rows).length ((keptPairs obs rows).map Prod.fst)
        (List.replicate (keptPairs obs rows).length ((keptPairs obs rows).map Prod.fst)) = .ok clim ∧
      res.unc = clim.crps := by
  have hs := shape_kept h
  obtain ⟨r1, hk1, hc⟩ := crps_eq_definition hsort hs
  obtain ⟨r2, reli, pot, hk2, h1, h2, h3, h4, h5, h6, h7⟩ := crps_decomposition hsort hs
  obtain ⟨r3, clim, hk3, hkc, hu⟩ := uncertainty_eq_climatology_crps hsort hs
  have e12 : r2 = r1 := by rw [hk1] at hk2; exact (Except.ok.inj hk2).symm
  have e13 : r3 = r1 := by rw [hk1] at hk3; exact (Except.ok.inj hk3).symm
  rw [e12] at h1 h2 h3 h4 h7
  rw [e13] at hu
  refine ⟨r1, reli, pot, clim, ?_, ?_, h1, h2, h3, h4, h5, h6, h7, ?_, hu⟩
  · rw [wrapper_eq_kernel_kept sort h]; exact hk1
  · rw [hc, zip_fst_snd, List.length_map]
  · simpa using hkc

theorem entryShape_of_forall₂_perm {m : ℕ} {obs : List (Option α)} {rows rows' : List (List α)}
    (h : EntryShape m obs rows) (hp : List.Forall₂ List.Perm rows' rows) : EntryShape m obs rows' := by
  refine ⟨by rw [hp.length_eq, h.len], h.m_pos, rows_of_forall₂_perm hp h.row_len, ?_⟩
  intro h0
  have := (keptPairs_forall₂_perm obs hp).1
  rw [h0] at this
  exact h.some_obs (List.map_eq_nil_iff.mp this.symm)

/-- entry point, **order of members** -/
theorem entry_member_permutation_invariant {sort : List α → List α} (hsort : SortOK sort) {m : ℕ}
    {obs : List (Option α)} {rows rows' : List (List α)} (h : EntryShape m obs rows)
    (hp : List.Forall₂ List.Perm rows' rows) :
    wrapper sort m obs (rows'.map fun r => r.map some) = wrapper sort m obs (rows.map fun r => r.map some) := by
  rw [wrapper_eq_kernel_kept sort h, wrapper_eq_kernel_kept sort (entryShape_of_forall₂_perm h hp)]
  obtain ⟨h1, h2⟩ := keptPairs_forall₂_perm obs hp
  rw [h1]
  exact member_permutation_invariant hsort (shape_kept h) h2

/-- entry point, **order of forecasts** -/
theorem entry_forecast_permutation_invariant {sort : List α → List α} (hsort : SortOK sort) {m : ℕ}
    {obs obs' : List (Option α)} {rows rows' : List (List α)} (h : EntryShape m obs rows)
    (h' : EntryShape m obs' rows') (hp : (obs'.zip rows').Perm (obs.zip rows)) :
    wrapper sort m obs' (rows'.map fun r => r.map some) = wrapper sort m obs (rows.map fun r => r.map some) := by
  rw [wrapper_eq_kernel_kept sort h, wrapper_eq_kernel_kept sort h']
  apply forecast_permutation_invariant hsort (shape_kept h) (shape_kept h')
  rw [zip_fst_snd, zip_fst_snd]
  exact keptPairs_perm hp

theorem entryShape_map (f : α → α) {m : ℕ} {obs : List (Option α)} {rows : List (List α)}
    (h : EntryShape m obs rows) : EntryShape m (obs.map (Option.map f)) (rows.map (List.map f)) := by
  refine ⟨by simp [h.len], h.m_pos, ?_, ?_⟩
  · intro r hr
    obtain ⟨r', hr', rfl⟩ := List.mem_map.mp hr
    simpa using h.row_len r' hr'
  · rw [keptPairs_map]
    intro h0
    exact h.some_obs (List.map_eq_nil_iff.mp h0)

/-- entry point, **common shift** -/
theorem entry_shift_invariant {sort : List α → List α} (hsort : SortOK sort) {m : ℕ}
    {obs : List (Option α)} {rows : List (List α)} (h : EntryShape m obs rows) (c : α) :
    wrapper sort m (obs.map (Option.map (· + c))) ((rows.map (List.map (· + c))).map fun r => r.map some)
      = wrapper sort m obs (rows.map fun r => r.map some) := by
  rw [wrapper_eq_kernel_kept sort h, wrapper_eq_kernel_kept sort (entryShape_map (· + c) h), keptPairs_map]
  have e1 : ((keptPairs obs rows).map fun p => (p.1 + c, p.2.map (· + c))).map Prod.fst
      = ((keptPairs obs rows).map Prod.fst).map (· + c) := by rw [List.map_map, List.map_map]; rfl
  have e2 : ((keptPairs obs rows).map fun p => (p.1 + c, p.2.map (· + c))).map Prod.snd
      = ((keptPairs obs rows).map Prod.snd).map fun r => r.map (· + c) := by rw [List.map_map, List.map_map]; rfl
  rw [e1, e2]
  exact shift_invariant hsort (shape_kept h) c

/-- entry point, **positive scale factor** -/
theorem entry_scale_equivariant {sort : List α → List α} (hsort : SortOK sort) {m : ℕ}
    {obs : List (Option α)} {rows : List (List α)} (h : EntryShape m obs rows) (c : α) (hc : 0 < c) :
    ∃ res, wrapper sort m obs (rows.map fun r => r.map some) = .ok res ∧
      wrapper sort m (obs.map (Option.map (c * ·))) ((rows.map (List.map (c * ·))).map fun r => r.map some)
        = .ok (scaleResult c res) := by
  obtain ⟨res, h1, h2⟩ := scale_equivariant hsort (shape_kept h) c hc
  refine ⟨res, by rw [wrapper_eq_kernel_kept sort h]; exact h1, ?_⟩
  rw [wrapper_eq_kernel_kept sort (entryShape_map (c * ·) h), keptPairs_map]
  have e1 : ((keptPairs obs rows).map fun p => (c * p.1, p.2.map (c * ·))).map Prod.fst
      = ((keptPairs obs rows).map Prod.fst).map (c * ·) := by rw [List.map_map, List.map_map]; rfl
  have e2 : ((keptPairs obs rows).map fun p => (c * p.1, p.2.map (c * ·))).map Prod.snd
      = ((keptPairs obs rows).map Prod.snd).map fun r => r.map (c * ·) := by rw [List.map_map, List.map_map]; rfl
  rw [e1, e2]
  exact h2

/-! ### facts that need no algebraic law: they hold over ANY carrier with the kernel's operations, so also for
the IEEE-double instance the driver executes -/
section AnyCarrier
variable {β : Type} [Add β] [Sub β] [Mul β] [Div β] [LT β] [DecidableLT β] [LE β] [DecidableLE β]
  [BEq β] [OfNat β 0] [OfNat β 1] [NatCast β]

/-- `resolution = uncertainty - potential` literally (one subtraction of the two returned numbers) -/
theorem resolution_eq_uncertainty_minus_potential_any_carrier (sort : List β → List β) (m : ℕ) (obs : List β)
    (ens : List (List β)) (res : Result β) (h : kernel sort m obs ens = .ok res) :
    res.resol = res.pot.map fun p => res.unc - p := by
  unfold kernel at h
  split at h
  · cases h
  · dsimp only at h
    split at h
    · cases h
    · cases h; rfl

/-- the result depends on the members only through the sorted rows: whenever `qsort` returns the same array
for two orderings of the members (true of any sorted permutation in an order without NaN), every output is
bit-for-bit the same -/
theorem member_order_irrelevant_any_carrier (sort : List β → List β) (m : ℕ) (obs : List β)
    (ens ens' : List (List β)) (h1 : ens'.map sort = ens.map sort)
    (h2 : ens'.map List.length = ens.map List.length) :
    kernel sort m obs ens' = kernel sort m obs ens := by
  have hl : ens'.length = ens.length := by simpa using congrArg List.length h2
  have ha : (ens'.any fun r => r.length != m) = (ens.any fun r => r.length != m) := by
    have : ∀ e : List (List β), (e.any fun r => r.length != m) = ((e.map List.length).any fun k => k != m) := by
      intro e; rw [List.any_map]; rfl
    rw [this, this, h2]
  unfold kernel
  dsimp only
  rw [hl, ha, loop_congr sort _ (obs.zip ens') (obs.zip ens) [] (init m)
    (by rw [zip_map_sort, zip_map_sort, h1])]

/-- **forecasts whose observation is missing are ignored**: inserting, anywhere, a forecast with a NaN
observation (whatever its members) does not change the result -/
theorem missing_observation_ignored (sort : List β → List β) (m : ℕ) (o1 o2 : List (Option β))
    (e1 e2 : List (List (Option β))) (r : List (Option β)) (h1 : e1.length = o1.length) :
    wrapper sort m (o1 ++ none :: o2) (e1 ++ r :: e2) = wrapper sort m (o1 ++ o2) (e1 ++ e2) := by
  unfold wrapper
  have hlen : ((e1 ++ r :: e2).length ≠ (o1 ++ none :: o2).length) ↔ ((e1 ++ e2).length ≠ (o1 ++ o2).length) := by
    simp only [List.length_append, List.length_cons]; omega
  have hk : ((o1 ++ none :: o2).zip (e1 ++ r :: e2)).filter keep = ((o1 ++ o2).zip (e1 ++ e2)).filter keep := by
    rw [List.zip_append h1.symm, List.zip_append h1.symm, List.filter_append, List.filter_append,
      List.zip_cons_cons, List.filter_cons]
    simp [keep]
  simp only [hlen, hk]

/-- rejected input: different numbers of observations and forecasts -/
theorem wrapper_rejects_length_mismatch (sort : List β → List β) (m : ℕ) (obs : List (Option β))
    (ens : List (List (Option β))) (h : ens.length ≠ obs.length) : wrapper sort m obs ens = .error .shape := by
  unfold wrapper; rw [if_pos h]

/-- rejected input: no forecast has both an observation and a member (all observations NaN, all rows NaN,
zero members, zero forecasts) -/
theorem wrapper_rejects_no_valid_forecast (sort : List β → List β) (m : ℕ) (obs : List (Option β))
    (ens : List (List (Option β))) (h : ens.length = obs.length) (hk : ∀ p ∈ obs.zip ens, keep p = false) :
    wrapper sort m obs ens = .error .noValidData := by
  unfold wrapper
  have : (obs.zip ens).filter keep = [] := List.filter_eq_nil_iff.mpr (fun p hp => by simp [hk p hp])
  simp [h, this]

/-- documented layouts: an `[n,1]` observation array is read as the `[n]` vector, for every `n` (also `n = 1`) -/
theorem obs_column_layout_same (sort : List β → List β) (n : ℕ) (obs : List (Option β)) (eshape : List ℕ)
    (ens : List (Option β)) : wrapperNd sort [n, 1] obs eshape ens = wrapperNd sort [n] obs eshape ens := by
  unfold wrapperNd obsForecasts
  by_cases h : n = 1
  · subst h; simp
  · have : (n != 1) = true := by simpa using h
    simp [this]

/-- `[n]` observations with an `[n', m]` ensemble array: the wrapper on the rows of the array -/
theorem wrapperNd_vector_matrix (sort : List β → List β) (n n' m : ℕ) (obs ens : List (Option β)) :
    wrapperNd sort [n] obs [n', m] ens = wrapper sort m obs (reshape m n' ens) := by
  simp [wrapperNd, obsForecasts, ensDims]

/-- rejected input: observations that are genuinely two-dimensional -/
theorem obs_two_dimensional_rejected (sort : List β → List β) (a b : ℕ) (ha : a ≠ 1) (hb : b ≠ 1)
    (obs : List (Option β)) (eshape : List ℕ) (ens : List (Option β)) :
    wrapperNd sort [a, b] obs eshape ens = .error .obsNot1D := by
  have h1 : (a != 1) = true := by simpa using ha
  have h2 : (b != 1) = true := by simpa using hb
  simp [wrapperNd, obsForecasts, h1, h2]

end AnyCarrier

/-! ### the hypotheses are satisfiable (concrete, non-trivial inputs over `ℚ`) -/

/-- two forecasts, two members: a tie between a member and the observation, an observation above the ensemble -/
example : Shape (α := ℚ) 2 [3, 5] [[3, 1], [2, 2]] :=
  ⟨rfl, by decide, by decide, by intro r hr; simp at hr; rcases hr with rfl | rfl <;> rfl⟩

example : List.Forall₂ List.Perm [[(1 : ℚ), 3], [2, 2]] [[3, 1], [2, 2]] :=
  .cons (List.Perm.swap _ _ _) (.cons (List.Perm.refl _) .nil)

example : ([(5 : ℚ), 3].zip [[(2 : ℚ), 2], [3, 1]]).Perm ([(3 : ℚ), 5].zip [[(3 : ℚ), 1], [2, 2]]) :=
  List.Perm.swap _ _ _

/-- on that input the theorems give: the call succeeds and CRPS = (1/2 + 3)/2 = 7/4 -/
example : ∃ res, kernel (fun l : List ℚ => l.mergeSort fun a b => decide (a ≤ b)) 2 [3, 5] [[3, 1], [2, 2]]
    = .ok res ∧ res.crps = 7 / 4 := by
  obtain ⟨res, h1, h2⟩ := crps_eq_definition (α := ℚ) mergeSort_sortOK
    (m := 2) (obs := [3, 5]) (ens := [[3, 1], [2, 2]])
    ⟨rfl, by decide, by decide, by intro r hr; simp at hr; rcases hr with rfl | rfl <;> rfl⟩
  refine ⟨res, h1, ?_⟩
  rw [h2]
  norm_num [energy, abs_of_nonneg, abs_of_neg]

/-- entry-point data with a missing observation in the middle (its members, whatever they are, do not matter) -/
example : EntryShape (α := ℚ) 2 [some 3, none, some 5] [[3, 1], [7, 7], [2, 2]] :=
  ⟨rfl, by decide, by intro r hr; simp at hr; rcases hr with rfl | rfl | rfl <;> rfl, by simp [keptPairs]⟩

/-- on that input the entry point returns CRPS = 7/4 (the NaN forecast is ignored) -/
example : ∃ res, wrapper (fun l : List ℚ => l.mergeSort fun a b => decide (a ≤ b)) 2 [some 3, none, some 5]
    ([[3, 1], [7, 7], [2, 2]].map fun r => r.map some) = .ok res ∧ res.crps = 7 / 4 := by
  obtain ⟨res, _, _, _, h1, h2, _⟩ := entry_point_spec (α := ℚ) mergeSort_sortOK
    (m := 2) (obs := [some 3, none, some 5]) (rows := [[3, 1], [7, 7], [2, 2]])
    ⟨rfl, by decide, by intro r hr; simp at hr; rcases hr with rfl | rfl | rfl <;> rfl, by simp [keptPairs]⟩
  refine ⟨res, h1, ?_⟩
  have hk : keptPairs [some (3 : ℚ), none, some 5] [[3, 1], [7, 7], [2, 2]] = [(3, [3, 1]), (5, [2, 2])] := by
    simp [keptPairs]
  rw [h2, hk]
  norm_num [energy, abs_of_nonneg, abs_of_neg]

/-- the hypotheses of `member_order_irrelevant_any_carrier` hold for every permutation of the members
whenever `qsort` is a sorted permutation -/
example {sort : List α → List α} (hsort : SortOK sort) {ens ens' : List (List α)}
    (hp : List.Forall₂ List.Perm ens' ens) :
    ens'.map sort = ens.map sort ∧ ens'.map List.length = ens.map List.length := by
  refine ⟨map_sort_of_forall₂_perm hsort hp, ?_⟩
  induction hp with
  | nil => rfl
  | cons hab _ ih => simp [hab.length_eq, ih]

/-- rejected-input hypotheses: an all-NaN observation vector keeps nothing -/
example : ∀ p ∈ ([none, none] : List (Option ℚ)).zip [[some 1], [some 2]], keep p = false := by
  intro p hp; simp at hp; rcases hp with rfl | rfl <;> rfl

end HydroVerif.C03
