/-
C15 — property theorems (only). Model: `HydroVerif/Model/C15.lean`; helper lemmas and the predicates
`Far`, `Sep`, `OffEdges`, `shift`, `scale`: `HydroVerif/Lemmas/C15.lean`.

All statements are over an arbitrary linearly ordered field `α` (ℚ, ℝ, …), every polygon (any number of
vertices, any shape, any orientation, repeated vertices allowed) and every point subject to the stated hypotheses.
-/
import HydroVerif.Lemmas.C15

set_option linter.unusedSectionVars false

namespace HydroVerif.C15

variable {α : Type} [Field α] [LinearOrder α] [IsStrictOrderedRing α]

/-! ### the code computes the even-odd rule -/

/-- the vertex loop alone (no box test), for a point farther than the tolerance from every edge, is the
tolerance-free crossing parity of the open right ray: the pre-test `x <= fmax(p1x,p2x)` and the two `atol`
guards never change the answer -/
theorem crossing_eq_evenOdd_of_far {atol : α} {poly : List (α × α)} {pt : α × α} (h0 : 0 ≤ atol)
    (hfar : Far atol poly pt) : crossing atol poly pt = evenOdd poly pt := by
  rw [crossing_eq]; unfold evenOdd
  exact parity_map_congr fun e he => edgeToggle_eq_crossR_of_far h0 (hfar e he)

/-- the bounding-box rejection never changes the answer of the even-odd rule -/
theorem evenOdd_false_outside_box {v0 : α × α} {t : List (α × α)} {pt : α × α}
    (hout : outsideBox (extentX v0 t) (extentY v0 t) pt = true) : evenOdd (v0 :: t) pt = false :=
  evenOdd_outsideBox hout

/-- **main theorem**: for every polygon and every point farther than the tolerance from its boundary,
`points_inside_polygon` (box test, pre-test, guards, closed ray) answers 1 exactly when the point is interior
under the even-odd rule -/
theorem inside_eq_evenOdd_of_far {atol : α} {poly : List (α × α)} {pt : α × α} (h0 : 0 ≤ atol)
    (hfar : Far atol poly pt) : pointInside atol poly pt = evenOdd poly pt := by
  have hc := crossing_eq_evenOdd_of_far h0 hfar
  cases poly with
  | nil => rfl
  | cons v0 t =>
    simp only [pointInside, pointInsideFrom]
    split
    · rename_i hout; exact (evenOdd_outsideBox hout).symm
    · exact hc

/-- for a polygon whose consecutive vertices differ, coordinate by coordinate, by nothing or by more than the
tolerance, the code is the even-odd rule of the closed right ray at EVERY point (also on or near the boundary) -/
theorem inside_eq_evenOddLe_of_sep {atol : α} {poly : List (α × α)} (pt : α × α) (hsep : Sep atol poly) :
    pointInside atol poly pt = evenOddLe poly pt := by
  have hc : crossing atol poly pt = evenOddLe poly pt := by
    rw [crossing_eq]; unfold evenOddLe
    exact parity_map_congr fun e he => edgeToggle_eq_crossRle_of_sep (hsep e he)
  cases poly with
  | nil => rfl
  | cons v0 t =>
    simp only [pointInside, pointInsideFrom]
    split
    · rename_i hout; exact (evenOddLe_outsideBox hout).symm
    · exact hc

/-- closed and open right ray agree off the edges -/
theorem evenOddLe_eq_evenOdd {poly : List (α × α)} {pt : α × α} (hoff : OffEdges poly pt) :
    evenOddLe poly pt = evenOdd poly pt := by
  unfold evenOddLe evenOdd
  apply parity_map_congr
  intro e he
  unfold crossRle crossR
  cases hs : straddle pt.2 e.1 e.2
  · rfl
  · have hne := hoff e he hs
    simp only [Bool.true_and, decide_eq_decide]
    exact ⟨fun h => lt_of_le_of_ne h hne, le_of_lt⟩

/-! ### ray-direction independence (closed polygon ⇒ an even number of straddling edges) -/

/-- around the closed vertex cycle an even number of edges has exactly one end strictly below any horizontal line -/
theorem straddling_edges_even (poly : List (α × α)) (y : α) :
    parity ((edges poly).map fun e => straddle y e.1 e.2) = false :=
  parity_straddle_cycle y poly

/-- for a point on no edge, counting the crossings of the ray going right or of the ray going left gives the
same parity -/
theorem evenOdd_right_eq_left {poly : List (α × α)} {pt : α × α} (hoff : OffEdges poly pt) :
    evenOdd poly pt = evenOddLeft poly pt := by
  have h : parity ((edges poly).map fun e => xor (crossR pt.1 pt.2 e.1 e.2) (crossL pt.1 pt.2 e.1 e.2)) = false := by
    rw [← parity_straddle_cycle pt.2 poly]
    apply parity_map_congr
    intro e he
    unfold crossR crossL
    cases hs : straddle pt.2 e.1 e.2
    · rfl
    · have hne := hoff e he hs
      rcases lt_or_gt_of_ne hne with h | h
      · simp [h, not_lt.mpr h.le]
      · simp [h, not_lt.mpr h.le]
  rw [parity_map_xor] at h
  unfold evenOdd evenOddLeft
  revert h
  generalize parity (List.map (fun e => crossR pt.1 pt.2 e.1 e.2) (edges poly)) = a
  generalize parity (List.map (fun e => crossL pt.1 pt.2 e.1 e.2) (edges poly)) = b
  cases a <;> cases b <;> simp

/-- the code's answer is also the parity of the left ray -/
theorem inside_eq_evenOddLeft_of_far {atol : α} {poly : List (α × α)} {pt : α × α} (h0 : 0 ≤ atol)
    (hfar : Far atol poly pt) : pointInside atol poly pt = evenOddLeft poly pt := by
  rw [inside_eq_evenOdd_of_far h0 hfar, evenOdd_right_eq_left (far_offEdges h0 hfar)]

/-! ### invariance of the even-odd rule (no hypothesis) -/

theorem evenOdd_rotate (poly : List (α × α)) (k : Nat) (pt : α × α) :
    evenOdd (poly.rotate k) pt = evenOdd poly pt :=
  parity_perm ((edges_rotate_perm poly k).map _)

theorem evenOdd_reverse (poly : List (α × α)) (pt : α × α) : evenOdd poly.reverse pt = evenOdd poly pt := by
  unfold evenOdd
  rw [parity_perm ((edges_reverse_perm poly).map _), List.map_map]
  apply parity_map_congr
  intro e _
  exact crossR_swap pt.1 pt.2 e.1 e.2

/-- repeating the first vertex at the end (a "closed" vertex list) -/
theorem evenOdd_close (v0 : α × α) (t : List (α × α)) (pt : α × α) :
    evenOdd ((v0 :: t) ++ [v0]) pt = evenOdd (v0 :: t) pt := by
  unfold evenOdd
  rw [edges_close, List.map_append, parity_append]
  simp [parity, crossR, straddle]

theorem evenOdd_shift (d : α × α) (poly : List (α × α)) (pt : α × α) :
    evenOdd (poly.map (shift d)) (shift d pt) = evenOdd poly pt := by
  unfold evenOdd
  rw [edges_map, List.map_map]
  apply parity_map_congr
  intro e _
  exact crossR_shift d pt.1 pt.2 e.1 e.2

theorem evenOdd_scale {c : α} (hc : 0 < c) (poly : List (α × α)) (pt : α × α) :
    evenOdd (poly.map (scale c)) (scale c pt) = evenOdd poly pt := by
  unfold evenOdd
  rw [edges_map, List.map_map]
  apply parity_map_congr
  intro e _
  exact crossR_scale hc pt.1 pt.2 e.1 e.2

/-! ### invariance of the code's answer, for points farther than the tolerance from the boundary -/

theorem inside_rotate {atol : α} {poly : List (α × α)} {pt : α × α} (h0 : 0 ≤ atol) (hfar : Far atol poly pt)
    (k : Nat) : pointInside atol (poly.rotate k) pt = pointInside atol poly pt := by
  rw [inside_eq_evenOdd_of_far h0 (far_rotate k hfar), inside_eq_evenOdd_of_far h0 hfar, evenOdd_rotate]

theorem inside_reverse {atol : α} {poly : List (α × α)} {pt : α × α} (h0 : 0 ≤ atol) (hfar : Far atol poly pt) :
    pointInside atol poly.reverse pt = pointInside atol poly pt := by
  rw [inside_eq_evenOdd_of_far h0 (far_reverse hfar), inside_eq_evenOdd_of_far h0 hfar, evenOdd_reverse]

theorem inside_close {atol : α} {v0 : α × α} {t : List (α × α)} {pt : α × α} (h0 : 0 ≤ atol)
    (hfar : Far atol (v0 :: t) pt) :
    pointInside atol ((v0 :: t) ++ [v0]) pt = pointInside atol (v0 :: t) pt := by
  rw [inside_eq_evenOdd_of_far h0 (far_close hfar), inside_eq_evenOdd_of_far h0 hfar, evenOdd_close]

theorem inside_shift {atol : α} {poly : List (α × α)} {pt : α × α} (h0 : 0 ≤ atol) (hfar : Far atol poly pt)
    (d : α × α) : pointInside atol (poly.map (shift d)) (shift d pt) = pointInside atol poly pt := by
  rw [inside_eq_evenOdd_of_far h0 (far_shift d hfar), inside_eq_evenOdd_of_far h0 hfar, evenOdd_shift]

/-- the tolerance is absolute, so both the original and the scaled configuration must keep the point farther
than `atol` from the boundary -/
theorem inside_scale {atol c : α} {poly : List (α × α)} {pt : α × α} (h0 : 0 ≤ atol) (hc : 0 < c)
    (hfar : Far atol poly pt) (hfar' : Far atol (poly.map (scale c)) (scale c pt)) :
    pointInside atol (poly.map (scale c)) (scale c pt) = pointInside atol poly pt := by
  rw [inside_eq_evenOdd_of_far h0 hfar', inside_eq_evenOdd_of_far h0 hfar, evenOdd_scale hc]

end HydroVerif.C15
