/-
C15 — property theorems (only). Models: `HydroVerif/Model/C15.lean` (the code), `Model/C15Round.lean` (the same model
in rounded arithmetic, executable binary64 rounding `rnd53`), `Model/C15Hist.lean` (state machines for histories of
calls / queries); helper lemmas and the predicates `Far`, `Sep`, `OffEdges`, `shift`, `scale`, `lin`,
`StrictConvexCCW`, `LeftOfAll`, `RelRound`, `SepR`, `GapR`, `Rectilinear`, `SegFree`, `PathFree`:
`HydroVerif/Lemmas/C15*.lean`.

All statements are over an arbitrary linearly ordered field `α` (ℚ, ℝ, …), every polygon (any number of vertices,
any shape, any orientation, repeated vertices allowed) and every point subject to the stated hypotheses. Every model
function named below is executed by `Drivers/C15.lean` (Float, exact Rat and simulated-binary64 instances) and compared
with the real code on every run: `pointsInsidePolygonCallN` → `pointsInsidePolygonCall` → `pointsInsidePolygon` →
`cInside` / `crossing` / `edgeToggle` (requests `pipf`, `pipcall`, `pipcalln`, `pipq`), `evenOdd`, `evenOddLeft`,
`evenOddLe`, `evenOddDir` (`pipq`), `pointInsideRounded rnd53`, `xintersR`, `sepRb`, `gapRb`, `rectb`, `repb`,
`abscissaOkb` (`pipr`), `cellsInside`, `cellsInsideTable`, `cellCentre` (`cells`, `centres`), `pipRun` / `pipStep` /
`pipAbsRun` (`piphist`), `gridRun` / `gridStep` / `cellsInsideCall` (`gridhist`).

CLAUSE → THEOREMS → WHAT REMAINS OUTSIDE

1. "for any polygon - either orientation, any starting vertex, closed or open, convex or not - and any point farther
   from the boundary than the tolerance, points_inside_polygon reports 1 exactly when the point is interior under the
   even-odd rule, 0 otherwise"
   → exact arithmetic: `inside_eq_evenOdd_of_far` (all polygons, all atol ≥ 0, all points with sup-norm distance > atol to
     every edge), `crossing_eq_evenOdd_of_far` + `evenOdd_false_outside_box` (pre-test, guards, box never decide),
     `inside_eq_evenOddLe_of_sep`, `inside_eq_evenOdd_of_sep`, `inside_eq_evenOddLe_of_atol_nonpos`,
     `evenOddLe_eq_evenOdd` (the quantifier's "coordinates differ by much more than the tolerance": exact at EVERY point);
   → FLOATING POINT: `rounded_inside_eq_evenOdd` (the kernel run in ANY arithmetic whose + - * / results have relative
     error ≤ u ≤ 1/100 — guards on rounded differences, abscissa with six roundings — answers the EXACT even-odd rule for
     every polygon whose coordinate steps are 0 or exceed atol/(1-u) and every point off the straddling edges by more than
     u(|p1x| + 8|p2x-p1x|)), `rounded_inside_eq_exact` (= the exact kernel), `rounded_abscissa_error`,
     `rounded_outside_box` (box rejection is rounding-free), `rounded_rectilinear_exact` (rectilinear polygons: exact at
     EVERY point for any rounding that keeps 0 and the vertex abscissae), `rnd53_standard_model`,
     `sim53_inside_eq_evenOdd`, `sim53_rectilinear_exact` (the executed binary64 simulation), `rounded_margin_needed`;
   → the rule itself is well defined: `straddling_edges_even`, `evenOdd_right_eq_left`, `inside_eq_evenOddLeft_of_far`,
     `evenOdd_any_direction`, `inside_eq_evenOddDir_of_far` (the crossing parity is the same along EVERY ray direction);
     it is an interior: `evenOdd_constant_on_free_segment`, `evenOdd_constant_on_free_path` (constant along every path
     that misses the boundary), `evenOdd_false_of_escape`, `inside_zero_of_escape` (0 wherever such a path leaves the
     bounding box); convex case = half-plane test: `convex_evenOdd_iff`, `convex_inside_iff`, `convex_cw_inside_iff`;
     hypotheses shown necessary: `far_needs_atol_nonneg`, `right_left_needs_offEdges`.
   outside: that IEEE binary64 meets the standard model |fl(z) - z| ≤ 2⁻⁵³|z| (no overflow / underflow) — classical, not
     proved; `rnd53` is proved to meet it and the model at `Rd Rat rnd53` is compared with the real kernel at every
     generated point, the Float instance bit for bit. The Jordan curve theorem is not formalised (that crossing one edge
     flips the answer is not stated).
2. "the answer is unchanged by rotating or reversing the vertex list" (and by closing it)
   → `evenOdd_rotate`, `evenOdd_reverse`, `evenOdd_close` (no hypothesis), `inside_rotate`, `inside_reverse`,
     `inside_close` (code's answer, far points). outside: nothing.
3. "… and by translating or scaling polygon and points together"
   → `evenOdd_shift`, `evenOdd_scale`, `inside_shift`, `inside_scale`; beyond the clause: every invertible linear map
     `evenOdd_linear_invariant`, `inside_linear_invariant`.
   outside: `inside_scale` / `inside_linear_invariant` need the distance clause before AND after the map because the
     code's tolerance is absolute — shown necessary by `inside_scale_needs_far_after`.
4. "cells_inside_polygon returns exactly the grid cells whose centres are inside"
   → `cells_mem_iff` (each cell once, increasing, ⇔ centre accepted), `cells_mem_iff_evenOdd` (⇔ centre interior),
     `cells_table` (x, y columns are the centres of the listed cells), `cellCentre_rowcol` (centre formula),
     `cellsInsideCall_spec` (polygon width ≠ 2, empty polygon, table); over ARBITRARY histories of re-assignments, clones
     and queries: `gridRun_queries_change_nothing`, `gridHistory_query`, `grid_objects_independent`.
   outside: the `cell2coord` kernel (C07; its formula is restated and compared bit for bit), pandas; that the REAL Grid
     object has no hidden attribute is compared over generated histories (the model's state is the geometry only).
5. the wrapper's own behaviour (no clause of the property speaks of rejected input; kept because it decides answers)
   → `pointsInside_eq_map` (answers independent of each other and of the previous content of a caller's buffer),
     `pointsInside_error_iff`, `pointsInsideCall_spec` (dtype → length → shape → empty polygon, in the code's order),
     `nprint_decides_nothing`; over ARBITRARY histories of calls (answered and refused), array edits and buffer use:
     `pipRun_refines_memoryless`, `pipStep_refused_unchanged`, `pipStep_buffer_answers`, `pipHistory_evenOdd`.
   outside: numpy dtype conversion (`astype`), Cython buffer typing (ndim, contiguity), NaN / infinite coordinates; array
     identity (the library writing into its inputs) is not expressible at value level: checked by the harness.
-/
import HydroVerif.Lemmas.C15
import HydroVerif.Lemmas.C15Convex
import HydroVerif.Lemmas.C15Direction
import HydroVerif.Lemmas.C15Round
import HydroVerif.Lemmas.C15Hist
import HydroVerif.Lemmas.C15Path

set_option linter.unusedSectionVars false

namespace HydroVerif.C15

variable {α : Type} [Field α] [LinearOrder α] [IsStrictOrderedRing α]

/-! ### the code computes the even-odd rule -/

/-- the vertex loop alone (no box test), for a point farther than the tolerance from every edge, is the
tolerance-free crossing parity of the open right ray: the pre-test `x <= fmax(p1x,p2x)` and the two `atol`
guards never change the answer -/
theorem crossing_eq_evenOdd_of_far {atol : α} {poly : List (α × α)} {pt : α × α} (h0 : 0 ≤ atol)
    (hfar : Far atol poly pt) : crossing atol poly pt = evenOdd poly pt := by
  rw [crossing_eq]; unfold evenOdd
  exact parity_map_congr fun e he => edgeToggle_eq_crossR_of_far h0 (hfar e he)

/-- the bounding-box rejection never changes the answer of the even-odd rule -/
theorem evenOdd_false_outside_box {v0 : α × α} {t : List (α × α)} {pt : α × α}
    (hout : outsideBox (extentX v0 t) (extentY v0 t) pt = true) : evenOdd (v0 :: t) pt = false :=
  evenOdd_outsideBox hout

/-- **main theorem**: for every polygon and every point farther than the tolerance from its boundary,
`points_inside_polygon` (box test, pre-test, guards, closed ray) answers 1 exactly when the point is interior
under the even-odd rule -/
theorem inside_eq_evenOdd_of_far {atol : α} {poly : List (α × α)} {pt : α × α} (h0 : 0 ≤ atol)
    (hfar : Far atol poly pt) : pointInside atol poly pt = evenOdd poly pt := by
  have hc := crossing_eq_evenOdd_of_far h0 hfar
  cases poly with
  | nil => rfl
  | cons v0 t =>
    simp only [pointInside, pointInsideFrom]
    split
    · rename_i hout; exact (evenOdd_outsideBox hout).symm
    · exact hc

/-- for a polygon whose consecutive vertices differ, coordinate by coordinate, by nothing or by more than the
tolerance, the code is the even-odd rule of the closed right ray at EVERY point (also on or near the boundary) -/
theorem inside_eq_evenOddLe_of_sep {atol : α} {poly : List (α × α)} (pt : α × α) (hsep : Sep atol poly) :
    pointInside atol poly pt = evenOddLe poly pt := by
  have hc : crossing atol poly pt = evenOddLe poly pt := by
    rw [crossing_eq]; unfold evenOddLe
    exact parity_map_congr fun e he => edgeToggle_eq_crossRle_of_sep (hsep e he)
  cases poly with
  | nil => rfl
  | cons v0 t =>
    simp only [pointInside, pointInsideFrom]
    split
    · rename_i hout; exact (evenOddLe_outsideBox hout).symm
    · exact hc

/-- a tolerance `atol ≤ 0` switches both guards off: the code is the closed-ray even-odd rule for every polygon
and every point -/
theorem inside_eq_evenOddLe_of_atol_nonpos {atol : α} (h : atol ≤ 0) (poly : List (α × α)) (pt : α × α) :
    pointInside atol poly pt = evenOddLe poly pt := by
  apply inside_eq_evenOddLe_of_sep
  intro e _
  constructor
  · by_cases h1 : e.1.2 = e.2.2
    · exact Or.inl h1
    · exact Or.inr (lt_of_le_of_lt h (abs_pos.mpr (sub_ne_zero.mpr h1)))
  · exact Or.inr (h.trans (abs_nonneg _))

/-- closed and open right ray agree off the edges -/
theorem evenOddLe_eq_evenOdd {poly : List (α × α)} {pt : α × α} (hoff : OffEdges poly pt) :
    evenOddLe poly pt = evenOdd poly pt := by
  unfold evenOddLe evenOdd
  apply parity_map_congr
  intro e he
  unfold crossRle crossR
  cases hs : straddle pt.2 e.1 e.2
  · rfl
  · have hne := hoff e he hs
    simp only [Bool.true_and, decide_eq_decide]
    exact ⟨fun h => lt_of_le_of_ne h hne, le_of_lt⟩

/-- in the property's own quantifier: polygon steps nothing-or-more-than-the-tolerance, point on no edge -/
theorem inside_eq_evenOdd_of_sep {atol : α} {poly : List (α × α)} {pt : α × α} (hsep : Sep atol poly)
    (hoff : OffEdges poly pt) : pointInside atol poly pt = evenOdd poly pt := by
  rw [inside_eq_evenOddLe_of_sep pt hsep, evenOddLe_eq_evenOdd hoff]

/-! ### ray-direction independence (closed polygon ⇒ an even number of straddling edges) -/

/-- around the closed vertex cycle an even number of edges has exactly one end strictly below any horizontal line -/
theorem straddling_edges_even (poly : List (α × α)) (y : α) :
    parity ((edges poly).map fun e => straddle y e.1 e.2) = false :=
  parity_straddle_cycle y poly

/-- for a point on no edge, counting the crossings of the ray going right or of the ray going left gives the
same parity -/
theorem evenOdd_right_eq_left {poly : List (α × α)} {pt : α × α} (hoff : OffEdges poly pt) :
    evenOdd poly pt = evenOddLeft poly pt := by
  have h : parity ((edges poly).map fun e => xor (crossR pt.1 pt.2 e.1 e.2) (crossL pt.1 pt.2 e.1 e.2)) = false := by
    rw [← parity_straddle_cycle pt.2 poly]
    apply parity_map_congr
    intro e he
    unfold crossR crossL
    cases hs : straddle pt.2 e.1 e.2
    · rfl
    · have hne := hoff e he hs
      rcases lt_or_gt_of_ne hne with h | h
      · simp [h, not_lt.mpr h.le]
      · simp [h, not_lt.mpr h.le]
  rw [parity_map_xor] at h
  unfold evenOdd evenOddLeft
  revert h
  generalize parity (List.map (fun e => crossR pt.1 pt.2 e.1 e.2) (edges poly)) = a
  generalize parity (List.map (fun e => crossL pt.1 pt.2 e.1 e.2) (edges poly)) = b
  cases a <;> cases b <;> simp

/-- the code's answer is also the parity of the left ray -/
theorem inside_eq_evenOddLeft_of_far {atol : α} {poly : List (α × α)} {pt : α × α} (h0 : 0 ≤ atol)
    (hfar : Far atol poly pt) : pointInside atol poly pt = evenOddLeft poly pt := by
  rw [inside_eq_evenOdd_of_far h0 hfar, evenOdd_right_eq_left (far_offEdges h0 hfar)]

/-! ### independence of the ray direction, invariance under invertible linear maps -/

/-- the even-odd rule may be evaluated along ANY ray: for every direction `d ≠ 0`, every polygon and every point
off its boundary the crossing parity of the ray `P + s d` (half-open vertex rule in the rotated frame) equals that
of the horizontal ray -/
theorem evenOdd_any_direction {d : α × α} (hd : d ≠ (0, 0)) {poly : List (α × α)} {P : α × α}
    (hoff : Far 0 poly P) : evenOddDir d poly P = evenOdd poly P :=
  evenOddDir_eq_evenOdd hd hoff

/-- the code's answer is the crossing parity along any ray, for points farther than the tolerance from the
boundary -/
theorem inside_eq_evenOddDir_of_far {atol : α} {d : α × α} (h0 : 0 ≤ atol) (hd : d ≠ (0, 0))
    {poly : List (α × α)} {P : α × α} (hfar : Far atol poly P) :
    pointInside atol poly P = evenOddDir d poly P := by
  rw [inside_eq_evenOdd_of_far h0 hfar, evenOddDir_eq_evenOdd hd (far_mono h0 hfar)]

/-- the even-odd answer of a point off the boundary is unchanged by every invertible linear map of the plane
(rotations, reflections, shears, anisotropic scalings) applied to polygon and point together -/
theorem evenOdd_linear_invariant {a b c d : α} (hdet : a * d - b * c ≠ 0) {poly : List (α × α)} {pt : α × α}
    (hoff : Far 0 poly pt) : evenOdd (poly.map (lin a b c d)) (lin a b c d pt) = evenOdd poly pt :=
  (inv_lin hdet poly pt hoff).1

/-- … and so is the code's answer when the point is farther than the tolerance from the boundary before and
after the map -/
theorem inside_linear_invariant {atol a b c d : α} (h0 : 0 ≤ atol) (hdet : a * d - b * c ≠ 0)
    {poly : List (α × α)} {pt : α × α} (hfar : Far atol poly pt)
    (hfar' : Far atol (poly.map (lin a b c d)) (lin a b c d pt)) :
    pointInside atol (poly.map (lin a b c d)) (lin a b c d pt) = pointInside atol poly pt := by
  rw [inside_eq_evenOdd_of_far h0 hfar', inside_eq_evenOdd_of_far h0 hfar,
    evenOdd_linear_invariant hdet (far_mono h0 hfar)]

/-! ### invariance of the even-odd rule (no hypothesis) -/

theorem evenOdd_rotate (poly : List (α × α)) (k : Nat) (pt : α × α) :
    evenOdd (poly.rotate k) pt = evenOdd poly pt :=
  parity_perm ((edges_rotate_perm poly k).map _)

theorem evenOdd_reverse (poly : List (α × α)) (pt : α × α) : evenOdd poly.reverse pt = evenOdd poly pt := by
  unfold evenOdd
  rw [parity_perm ((edges_reverse_perm poly).map _), List.map_map]
  apply parity_map_congr
  intro e _
  exact crossR_swap pt.1 pt.2 e.1 e.2

/-- repeating the first vertex at the end (a "closed" vertex list) -/
theorem evenOdd_close (v0 : α × α) (t : List (α × α)) (pt : α × α) :
    evenOdd ((v0 :: t) ++ [v0]) pt = evenOdd (v0 :: t) pt := by
  unfold evenOdd
  rw [edges_close, List.map_append, parity_append]
  simp [parity, crossR, straddle]

theorem evenOdd_shift (d : α × α) (poly : List (α × α)) (pt : α × α) :
    evenOdd (poly.map (shift d)) (shift d pt) = evenOdd poly pt := by
  unfold evenOdd
  rw [edges_map, List.map_map]
  apply parity_map_congr
  intro e _
  exact crossR_shift d pt.1 pt.2 e.1 e.2

theorem evenOdd_scale {c : α} (hc : 0 < c) (poly : List (α × α)) (pt : α × α) :
    evenOdd (poly.map (scale c)) (scale c pt) = evenOdd poly pt := by
  unfold evenOdd
  rw [edges_map, List.map_map]
  apply parity_map_congr
  intro e _
  exact crossR_scale hc pt.1 pt.2 e.1 e.2

/-! ### invariance of the code's answer, for points farther than the tolerance from the boundary -/

theorem inside_rotate {atol : α} {poly : List (α × α)} {pt : α × α} (h0 : 0 ≤ atol) (hfar : Far atol poly pt)
    (k : Nat) : pointInside atol (poly.rotate k) pt = pointInside atol poly pt := by
  rw [inside_eq_evenOdd_of_far h0 (far_rotate k hfar), inside_eq_evenOdd_of_far h0 hfar, evenOdd_rotate]

theorem inside_reverse {atol : α} {poly : List (α × α)} {pt : α × α} (h0 : 0 ≤ atol) (hfar : Far atol poly pt) :
    pointInside atol poly.reverse pt = pointInside atol poly pt := by
  rw [inside_eq_evenOdd_of_far h0 (far_reverse hfar), inside_eq_evenOdd_of_far h0 hfar, evenOdd_reverse]

theorem inside_close {atol : α} {v0 : α × α} {t : List (α × α)} {pt : α × α} (h0 : 0 ≤ atol)
    (hfar : Far atol (v0 :: t) pt) :
    pointInside atol ((v0 :: t) ++ [v0]) pt = pointInside atol (v0 :: t) pt := by
  rw [inside_eq_evenOdd_of_far h0 (far_close hfar), inside_eq_evenOdd_of_far h0 hfar, evenOdd_close]

theorem inside_shift {atol : α} {poly : List (α × α)} {pt : α × α} (h0 : 0 ≤ atol) (hfar : Far atol poly pt)
    (d : α × α) : pointInside atol (poly.map (shift d)) (shift d pt) = pointInside atol poly pt := by
  rw [inside_eq_evenOdd_of_far h0 (far_shift d hfar), inside_eq_evenOdd_of_far h0 hfar, evenOdd_shift]

/-- the tolerance is absolute, so both the original and the scaled configuration must keep the point farther
than `atol` from the boundary -/
theorem inside_scale {atol c : α} {poly : List (α × α)} {pt : α × α} (h0 : 0 ≤ atol) (hc : 0 < c)
    (hfar : Far atol poly pt) (hfar' : Far atol (poly.map (scale c)) (scale c pt)) :
    pointInside atol (poly.map (scale c)) (scale c pt) = pointInside atol poly pt := by
  rw [inside_eq_evenOdd_of_far h0 hfar', inside_eq_evenOdd_of_far h0 hfar, evenOdd_scale hc]

/-! ### strictly convex polygons: the answer is the half-plane test -/

/-- for a strictly convex counter-clockwise polygon with at least 3 distinct vertices and a point not on its
boundary, the even-odd rule accepts the point exactly when it is strictly on the inner (left) side of every edge -/
theorem convex_evenOdd_iff {poly : List (α × α)} {pt : α × α} (hn : 3 ≤ poly.length) (hnd : poly.Nodup)
    (hcv : StrictConvexCCW poly) (hfar : Far 0 poly pt) : evenOdd poly pt = true ↔ LeftOfAll poly pt :=
  ⟨leftOfAll_of_evenOdd hnd hcv hfar, evenOdd_of_leftOfAll hn hnd hcv⟩

/-- the same for the code's answer, for a point farther than the tolerance from the boundary -/
theorem convex_inside_iff {atol : α} {poly : List (α × α)} {pt : α × α} (h0 : 0 ≤ atol) (hn : 3 ≤ poly.length)
    (hnd : poly.Nodup) (hcv : StrictConvexCCW poly) (hfar : Far atol poly pt) :
    pointInside atol poly pt = true ↔ LeftOfAll poly pt := by
  rw [inside_eq_evenOdd_of_far h0 hfar]
  exact convex_evenOdd_iff hn hnd hcv (far_mono h0 hfar)

/-- clockwise orientation: strictly on the right side of every edge -/
theorem convex_cw_inside_iff {atol : α} {poly : List (α × α)} {pt : α × α} (h0 : 0 ≤ atol) (hn : 3 ≤ poly.length)
    (hnd : poly.Nodup) (hcv : StrictConvexCCW poly.reverse) (hfar : Far atol poly pt) :
    pointInside atol poly pt = true ↔ ∀ e ∈ edges poly, cross e.1 e.2 pt < 0 := by
  rw [← inside_reverse h0 hfar,
    convex_inside_iff h0 (by rw [List.length_reverse]; exact hn) (List.nodup_reverse.mpr hnd) hcv (far_reverse hfar)]
  exact leftOfAll_reverse

/-! ### the vector interface and `cells_inside_polygon` -/

/-- `points_inside_polygon` answers each point independently with the per-point model; a caller-supplied answer
vector (of the right length) is zeroed first, so its previous content never shows -/
theorem pointsInside_eq_map (atol : α) (pts : List (α × α)) (v0 : α × α) (t : List (α × α)) :
    pointsInsidePolygon atol pts (v0 :: t) none = .ok (pts.map (pointInside atol (v0 :: t))) ∧
    pointsInsidePolygon atol pts (v0 :: t) (some pts.length) = .ok (pts.map (pointInside atol (v0 :: t))) :=
  ⟨pointsInsidePolygon_cons atol pts v0 t none (by intro n h; cases h),
   pointsInsidePolygon_cons atol pts v0 t (some pts.length) (by intro n h; cases h; rfl)⟩

/-- the only rejected calls: an empty polygon, an answer vector of the wrong length -/
theorem pointsInside_error_iff (atol : α) (pts poly : List (α × α)) (insideLen : Option Nat) :
    (∃ e, pointsInsidePolygon atol pts poly insideLen = .error e) ↔
      (poly = [] ∨ ∃ n, insideLen = some n ∧ n ≠ pts.length) := by
  cases insideLen with
  | none =>
    cases poly with
    | nil => simp [pointsInsidePolygon]
    | cons v0 t => simp [pointsInsidePolygon]
  | some n =>
    by_cases hn : n = pts.length
    · cases poly with
      | nil => simp [pointsInsidePolygon, hn]
      | cons v0 t => simp [pointsInsidePolygon, hn]
    · simp [pointsInsidePolygon, hn]

/-- the whole call as the caller makes it, guard by guard in the code's order: a wrong dtype of the answer vector
is reported first, then its length, then the two-column shape of points / polygon, then an empty polygon; a call
passing all four is answered point by point by the per-point model -/
theorem pointsInsideCall_spec (atol : α) (ptsWidth : Nat) (pts : List (α × α)) (polyWidth : Nat)
    (poly : List (α × α)) (inside : Option (Bool × Nat)) :
    ((∃ n, inside = some (false, n)) →
      pointsInsidePolygonCall atol ptsWidth pts polyWidth poly inside = .error .insideDtype) ∧
    ((∃ n, inside = some (true, n) ∧ n ≠ pts.length) →
      pointsInsidePolygonCall atol ptsWidth pts polyWidth poly inside = .error .insideLength) ∧
    ((inside = none ∨ inside = some (true, pts.length)) →
      ((ptsWidth ≠ 2 ∨ polyWidth ≠ 2) →
        pointsInsidePolygonCall atol ptsWidth pts polyWidth poly inside = .error .shapeAssert) ∧
      (ptsWidth = 2 → polyWidth = 2 → poly = [] →
        pointsInsidePolygonCall atol ptsWidth pts polyWidth poly inside = .error .emptyPolygon) ∧
      (ptsWidth = 2 → polyWidth = 2 → ∀ v0 t, poly = v0 :: t →
        pointsInsidePolygonCall atol ptsWidth pts polyWidth poly inside =
          .ok (pts.map (pointInside atol (v0 :: t))))) :=
  pointsInsidePolygonCall_spec atol ptsWidth pts polyWidth poly inside

/-- the table returned by `cells_inside_polygon` holds, for each listed cell and in the same order, the
coordinates of that cell's centre and its number -/
theorem cells_table (nrows ncols : Nat) (xll yll csz atol : α) (v0 : α × α) (t : List (α × α)) :
    ∃ l, cellsInside nrows ncols xll yll csz atol (v0 :: t) = .ok l ∧
      cellsInsideTable nrows ncols xll yll csz atol (v0 :: t) = .ok (l.map fun c =>
        ((cellCentre nrows ncols xll yll csz c).1, (cellCentre nrows ncols xll yll csz c).2, c)) :=
  ⟨_, cellsInside_cons nrows ncols xll yll csz atol v0 t, cellsInsideTable_cons nrows ncols xll yll csz atol v0 t⟩

/-- `cells_inside_polygon` lists exactly the cells of the grid whose centre the point test accepts,
each once, in increasing cell number -/
theorem cells_mem_iff (nrows ncols : Nat) (xll yll csz atol : α) (v0 : α × α) (t : List (α × α)) :
    ∃ l, cellsInside nrows ncols xll yll csz atol (v0 :: t) = .ok l ∧ l.Pairwise (· < ·) ∧
      ∀ i, i ∈ l ↔ (i < nrows * ncols ∧ pointInside atol (v0 :: t) (cellCentre nrows ncols xll yll csz i) = true) := by
  refine ⟨_, cellsInside_cons nrows ncols xll yll csz atol v0 t, ?_, ?_⟩
  · exact List.Pairwise.filter _ List.pairwise_lt_range
  · intro i; simp [List.mem_filter]

/-- … and, when every cell centre is farther than the tolerance from the boundary, exactly the cells whose
centre is interior under the even-odd rule -/
theorem cells_mem_iff_evenOdd (nrows ncols : Nat) (xll yll csz atol : α) (v0 : α × α) (t : List (α × α))
    (h0 : 0 ≤ atol)
    (hfar : ∀ i, i < nrows * ncols → Far atol (v0 :: t) (cellCentre nrows ncols xll yll csz i)) :
    ∃ l, cellsInside nrows ncols xll yll csz atol (v0 :: t) = .ok l ∧
      ∀ i, i ∈ l ↔ (i < nrows * ncols ∧ evenOdd (v0 :: t) (cellCentre nrows ncols xll yll csz i) = true) := by
  obtain ⟨l, hl, -, hmem⟩ := cells_mem_iff nrows ncols xll yll csz atol v0 t
  refine ⟨l, hl, fun i => ?_⟩
  rw [hmem]
  constructor
  · rintro ⟨hi, h⟩; exact ⟨hi, by rw [← inside_eq_evenOdd_of_far h0 (hfar i hi)]; exact h⟩
  · rintro ⟨hi, h⟩; exact ⟨hi, by rw [inside_eq_evenOdd_of_far h0 (hfar i hi)]; exact h⟩

/-- cell `r * ncols + c` (row `r` from the top, column `c` from the left) has its centre at
`(xll + csz (c + ½), yll + csz (nrows - 1 - r + ½))` -/
theorem cellCentre_rowcol (nrows ncols : Nat) (xll yll csz : α) (r c : Nat) (hc : c < ncols) :
    cellCentre nrows ncols xll yll csz (r * ncols + c) =
      (xll + csz * ((c : α) + 1 / 2), yll + csz * (((nrows - 1 - r : Nat) : α) + 1 / 2)) := by
  have h1 : (r * ncols + c) % ncols = c := by
    rw [Nat.add_comm, Nat.add_mul_mod_self_right, Nat.mod_eq_of_lt hc]
  have h2 : (r * ncols + c - c) / ncols = r := by
    rw [Nat.add_sub_cancel, Nat.mul_div_cancel _ (Nat.lt_of_le_of_lt (Nat.zero_le c) hc)]
  simp only [cellCentre, h1, h2, Nat.cast_one, Nat.cast_ofNat]

/-! ### the kernel in rounded (floating-point) arithmetic -/

/-- **the clause "reports 1 exactly when the point is interior" in floating-point arithmetic.** Run the kernel in
ANY arithmetic whose every `+ - * /` result is rounded with relative error at most `u ≤ 1/100` (the standard model
of floating-point arithmetic; `u = 2⁻⁵³` for binary64 barring overflow / underflow; comparisons, `fmin`, `fmax`,
`fabs` exact). If every coordinate step of the polygon is zero or exceeds `atol / (1 - u)` and the point is off every
edge, at its own height, by more than `u (|p1x| + 8 |p2x - p1x|)`, the rounded kernel (box test, pre-test, both guards
on rounded differences, abscissa with six roundings) answers the EXACT even-odd rule -/
theorem rounded_inside_eq_evenOdd {u atol : α} {rnd : α → α} {poly : List (α × α)} {pt : α × α}
    (hr : RelRound u rnd) (hu : 0 ≤ u) (hu1 : u ≤ 1 / 100) (hsep : SepR u atol poly) (hgap : GapR u poly pt) :
    pointInsideRounded rnd atol poly pt = evenOdd poly pt :=
  pointInsideRounded_eq hr hu hu1 hsep hgap

/-- the abscissa the kernel computes with six roundings is within `u (|p1x| + 8 |p2x - p1x|)` of the exact crossing
abscissa of a straddling edge -/
theorem rounded_abscissa_error {u : α} {rnd : α → α} (hr : RelRound u rnd) (hu : 0 ≤ u) (hu1 : u ≤ 1 / 100) {y : α}
    {p1 p2 : α × α} (hs : straddle y p1 p2 = true) :
    |xintersR rnd y p1 p2 - xint y p1 p2| ≤ u * (|p1.1| + 8 * |p2.1 - p1.1|) :=
  xintersR_error hr hu hu1 hs

/-- under the same hypotheses the rounded kernel and the exact kernel (the `Float` and the `Rat` instance of the
model) give the same answer -/
theorem rounded_inside_eq_exact {u atol : α} {rnd : α → α} {poly : List (α × α)} {pt : α × α}
    (hr : RelRound u rnd) (hu : 0 ≤ u) (hu1 : u ≤ 1 / 100) (hsep : SepR u atol poly) (hgap : GapR u poly pt) :
    pointInsideRounded rnd atol poly pt = pointInside atol poly pt := by
  rw [rounded_inside_eq_evenOdd hr hu hu1 hsep hgap]
  symm
  apply inside_eq_evenOdd_of_sep
  · intro e he
    obtain ⟨h1, h2⟩ := hsep e he
    have hle : ∀ z : α, (1 - u) * |z| ≤ |z| := fun z => by nlinarith [abs_nonneg z]
    exact ⟨h1.imp id fun h => lt_of_lt_of_le h (hle _), h2.imp id fun h => le_trans h (hle _)⟩
  · intro e he hs heq
    have := hgap e he hs
    rw [heq, sub_self, abs_zero] at this
    exact absurd this (not_lt.mpr (errX_nonneg hu _ _))

/-- the bounding-box rejection involves no arithmetic: whatever the rounding, a point outside the box is answered 0 -/
theorem rounded_outside_box (rnd : α → α) (atol : α) {v0 : α × α} {t : List (α × α)} {pt : α × α}
    (hout : outsideBox (extentX v0 t) (extentY v0 t) pt = true) :
    pointInsideRounded rnd atol (v0 :: t) pt = false := by
  unfold pointInsideRounded pointInside pointInsideFrom
  simp only [List.map_cons]
  rw [rd_outsideBox, if_pos hout]

/-- `rnd53` (round to nearest, ties to even, 53 significant bits, unbounded exponent — executed by the driver) meets
the standard model with `u = 2⁻⁵³` -/
theorem rnd53_standard_model : RelRound u53 rnd53 := rnd53_relRound

/-- the simulated binary64 kernel answers the exact even-odd rule wherever the two decided checks pass (the driver
evaluates both checks and the simulated kernel on the generated points; the harness compares with the real kernel) -/
theorem sim53_inside_eq_evenOdd {atol : ℚ} {poly : List (ℚ × ℚ)} {pt : ℚ × ℚ} (hsep : sepRb u53 atol poly = true)
    (hgap : gapRb u53 poly pt = true) : pointInsideRounded rnd53 atol poly pt = evenOdd poly pt :=
  rounded_inside_eq_evenOdd rnd53_standard_model (by unfold u53; norm_num) (by unfold u53; norm_num)
    ((sepRb_iff _ _ _).mp hsep) ((gapRb_iff _ _ _).mp hgap)

/-- **rectilinear polygons (every edge vertical or horizontal): exact in floating-point arithmetic at EVERY point.**
For any rounding that keeps `0` and the vertex abscissae (representable numbers) — no bound on its error elsewhere —
any tolerance and any point, also on the boundary, the rounded kernel is the closed-ray even-odd rule: on such edges
`(y - p1y) * 0 / d = 0` and `p1x + 0 = p1x`, so no rounding error survives -/
theorem rounded_rectilinear_exact {rnd : α → α} (hz : rnd 0 = 0) {poly : List (α × α)}
    (hrep : ∀ v ∈ poly, rnd v.1 = v.1) (hrect : Rectilinear poly) (atol : α) (pt : α × α) :
    pointInsideRounded rnd atol poly pt = evenOddLe poly pt :=
  pointInsideRounded_rectilinear hz hrep hrect atol pt

/-- … and so is the simulated binary64 kernel on every rectilinear polygon with binary64 vertices, at every point -/
theorem sim53_rectilinear_exact {poly : List (ℚ × ℚ)} (hrect : rectb poly = true) (hrep : repb poly = true)
    (atol : ℚ) (pt : ℚ × ℚ) : pointInsideRounded rnd53 atol poly pt = evenOddLe poly pt :=
  rounded_rectilinear_exact (rnd_zero rnd53_standard_model) ((repb_iff _).mp hrep) ((rectb_iff _).mp hrect) atol pt

/-- `nprint` decides no answer: outside the int32 range the call is refused before anything else is looked at,
inside it the outcome is that of the call without it -/
theorem nprint_decides_nothing (nprint : Int) (atol : α) (ptsWidth : Nat) (pts : List (α × α)) (polyWidth : Nat)
    (poly : List (α × α)) (inside : Option (Bool × Nat)) :
    ((nprint < -2147483648 ∨ 2147483647 < nprint) →
      pointsInsidePolygonCallN nprint atol ptsWidth pts polyWidth poly inside = .error .nprintRange) ∧
    ((-2147483648 ≤ nprint ∧ nprint ≤ 2147483647) →
      pointsInsidePolygonCallN nprint atol ptsWidth pts polyWidth poly inside =
        pointsInsidePolygonCall atol ptsWidth pts polyWidth poly inside) := by
  unfold pointsInsidePolygonCallN
  constructor
  · intro h
    rw [if_pos (by simpa using h)]
  · intro h
    rw [if_neg (by simp; omega)]

/-! ### the topological content of "interior under the even-odd rule" -/

/-- **the even-odd answer is the same at both ends of every segment that has no point in common with the boundary**
(any direction, any length, any polygon): the two answers are the crossing parities of one ray, and no edge crosses the
ray between the two points -/
theorem evenOdd_constant_on_free_segment {poly : List (α × α)} {P Q : α × α} (h : SegFree poly P Q) :
    evenOdd poly P = evenOdd poly Q :=
  evenOdd_segFree h

/-- … hence constant along every polygonal path that misses the boundary: the points answered 1 and the points
answered 0 are unions of connected components of the complement of the boundary -/
theorem evenOdd_constant_on_free_path {poly : List (α × α)} (P : α × α) (path : List (α × α))
    (h : PathFree poly (P :: path)) :
    evenOdd poly P = evenOdd poly ((P :: path).getLast (List.cons_ne_nil _ _)) :=
  evenOdd_pathFree P path h

/-- a point that can be joined to a point outside the bounding box by a path missing the boundary is exterior: the
points answered 1 are enclosed by the boundary -/
theorem evenOdd_false_of_escape {v0 : α × α} {t : List (α × α)} (P : α × α) (path : List (α × α))
    (h : PathFree (v0 :: t) (P :: path))
    (hout : outsideBox (extentX v0 t) (extentY v0 t) ((P :: path).getLast (List.cons_ne_nil _ _)) = true) :
    evenOdd (v0 :: t) P = false := by
  rw [evenOdd_constant_on_free_path P path h]
  exact evenOdd_outsideBox hout

/-- … and the code answers 0 there, when the point is farther than the tolerance from the boundary -/
theorem inside_zero_of_escape {atol : α} {v0 : α × α} {t : List (α × α)} (h0 : 0 ≤ atol) (P : α × α)
    (path : List (α × α)) (hfar : Far atol (v0 :: t) P) (h : PathFree (v0 :: t) (P :: path))
    (hout : outsideBox (extentX v0 t) (extentY v0 t) ((P :: path).getLast (List.cons_ne_nil _ _)) = true) :
    pointInside atol (v0 :: t) P = false := by
  rw [inside_eq_evenOdd_of_far h0 hfar]
  exact evenOdd_false_of_escape P path h hout

/-! ### hypotheses that the property text does not state are needed -/

/-- `0 ≤ atol` cannot be dropped from `inside_eq_evenOdd_of_far`: with a negative tolerance every point is "farther
than the tolerance" from the boundary, also a point ON an edge, where the closed ray of the code and the open ray of
the rule differ -/
theorem far_needs_atol_nonneg : ∃ (atol : ℚ) (poly : List (ℚ × ℚ)) (pt : ℚ × ℚ),
    atol < 0 ∧ Far atol poly pt ∧ pointInside atol poly pt ≠ evenOdd poly pt := by
  refine ⟨-1, [(0, 0), (4, 0), (0, 4)], (2, 2), by norm_num, ?_, by decide +kernel⟩
  intro e _ s _ _
  exact Or.inl (lt_of_lt_of_le (by norm_num) (abs_nonneg _))

/-- the second distance hypothesis of `inside_scale` cannot be dropped: the tolerance is absolute, so a configuration
far from the boundary can be scaled down into the tolerance, where the vertical-edge guard takes over -/
theorem inside_scale_needs_far_after : ∃ (atol c : ℚ) (poly : List (ℚ × ℚ)) (pt : ℚ × ℚ),
    0 ≤ atol ∧ 0 < c ∧ Far atol poly pt ∧
      pointInside atol (poly.map (scale c)) (scale c pt) ≠ pointInside atol poly pt := by
  refine ⟨1 / 100, 1 / 1000, [(0, 0), (2, 4), (-2, 4)], (3 / 2, 1), by norm_num, by norm_num, ?_, by decide +kernel⟩
  intro e he
  simp only [edges, edgesFrom, List.cons_append, List.nil_append, List.mem_cons, List.not_mem_nil, or_false] at he
  intro s hs0 hs1
  rcases he with rfl | rfl | rfl
  · by_cases h : s ≤ 1 / 2
    · left; rw [lt_abs]; left; norm_num; linarith
    · right; rw [lt_abs]; right; norm_num; linarith
  · right; norm_num
  · left; rw [lt_abs]; left; norm_num; linarith

/-- a margin around the edges cannot be dropped from `rounded_inside_eq_evenOdd`: with relative error 1/100 a point
inside by 0.0005 (well-separated polygon) is answered outside -/
theorem rounded_margin_needed : ∃ (u atol : ℚ) (rnd : ℚ → ℚ) (poly : List (ℚ × ℚ)) (pt : ℚ × ℚ),
    RelRound u rnd ∧ 0 ≤ u ∧ u ≤ 1 / 100 ∧ SepR u atol poly ∧
      pointInsideRounded rnd atol poly pt ≠ evenOdd poly pt := by
  refine ⟨1 / 100, 1 / 100, fun x => x * (1 - 1 / 100), [(0, 0), (4, 0), (0, 4)], (29995 / 10000, 1), ?_,
    by norm_num, by norm_num, (sepRb_iff _ _ _).mp (by decide +kernel), by decide +kernel⟩
  intro x
  rw [show x * (1 - 1 / 100) - x = -(1 / 100) * x by ring, abs_mul, abs_neg,
    abs_of_pos (by norm_num : (0 : ℚ) < 1 / 100)]

/-- `OffEdges` cannot be dropped from `evenOdd_right_eq_left`: on an edge the right ray and the left ray differ -/
theorem right_left_needs_offEdges : ∃ (poly : List (ℚ × ℚ)) (pt : ℚ × ℚ), evenOdd poly pt ≠ evenOddLeft poly pt :=
  ⟨[(0, 0), (4, 0), (0, 4)], (2, 2), by decide +kernel⟩

/-! ### histories: calls on one set of argument arrays, queries on Grid objects that live on -/

/-- **refinement over arbitrary histories.** Whatever the caller does between calls — re-fill or replace either
array, change the tolerance, allocate / drop / scribble on its answer buffer, make calls that are answered or refused —
the outcomes of all calls are those of the memoryless specification, in which a call is a function of the arrays'
current content (and the buffer's length) and changes nothing; buffer content and past answers never show -/
theorem pipRun_refines_memoryless (w : PipWorld α) (ops : List (PipOp α)) :
    (pipRun w ops).1 = (pipAbsRun w.abs ops).1 ∧ (pipRun w ops).2.abs = (pipAbsRun w.abs ops).2 :=
  pipRun_abs ops w

/-- fault paths: a call refused by the Python guards (answer vector of another dtype or length), or any refused call
that was not handed the caller's buffer, leaves the caller's world — arrays, tolerance, buffer content — unchanged -/
theorem pipStep_refused_unchanged (w : PipWorld α) (arg : InsideArg) (e : Err)
    (h : (pipStep w (.call arg)).2 = some (.error e))
    (hk : e = .insideDtype ∨ e = .insideLength ∨ arg ≠ .buffer) : (pipStep w (.call arg)).1 = w :=
  pipStep_refused w arg e h hk

/-- an answered call on the caller's buffer leaves exactly the answers in it; nothing else changes -/
theorem pipStep_buffer_answers (w : PipWorld α) (b : List Int) (l : List Bool) (hb : w.buf = some b)
    (h : (pipStep w (.call .buffer)).2 = some (.ok l)) :
    (pipStep w (.call .buffer)).1 = { w with buf := some (answersToInt l) } :=
  pipStep_buffer_ok w b l hb h

/-- **the main theorem after any history.** Let `w'` be the caller's world after an arbitrary history `ops`. A
further call (no answer vector, or the caller's buffer when it has the length of the points array) on a non-empty
polygon with every point farther than the tolerance from the boundary answers the even-odd rule for the arrays as
they are NOW -/
theorem pipHistory_evenOdd (w : PipWorld α) (ops : List (PipOp α)) (arg : InsideArg)
    (harg : arg = .none ∨ (arg = .buffer ∧ ∀ b, (pipRun w ops).2.buf = some b → b.length = (pipRun w ops).2.pts.length))
    (v0 : α × α) (t : List (α × α)) (hp : (pipRun w ops).2.poly = v0 :: t) (h0 : 0 ≤ (pipRun w ops).2.atol)
    (hfar : ∀ pt ∈ (pipRun w ops).2.pts, Far (pipRun w ops).2.atol (v0 :: t) pt) :
    (pipRun w (ops ++ [.call arg])).1 =
      (pipRun w ops).1 ++ [.ok ((pipRun w ops).2.pts.map (evenOdd (v0 :: t)))] := by
  rw [pipRun_append]
  simp only [pipRun, pipStep, List.append_cancel_left_eq, List.cons.injEq, and_true]
  set w' := (pipRun w ops).2 with hw'
  have hin : insideOf w' arg = none ∨ insideOf w' arg = some (true, w'.pts.length) := by
    rcases harg with rfl | ⟨rfl, hb⟩
    · exact Or.inl rfl
    · cases hbuf : w'.buf with
      | none => left; simp [insideOf, hbuf]
      | some b => right; simp [insideOf, hbuf, hb b hbuf]
  have hspec := (pointsInsideCall_spec w'.atol 2 w'.pts 2 w'.poly (insideOf w' arg)).2.2 hin
  rw [hspec.2.2 rfl rfl v0 t hp]
  congr 1
  apply List.map_congr_left
  intro pt hpt
  exact inside_eq_evenOdd_of_far h0 (hfar pt hpt)

/-- `Grid.cells_inside_polygon` as the caller makes it: a polygon array without exactly two columns is refused, then
an empty polygon; otherwise the table of the cells whose centre the point test accepts -/
theorem cellsInsideCall_spec (nrows ncols : Nat) (xll yll csz atol : α) (w : Nat) (poly : List (α × α)) :
    (w ≠ 2 → cellsInsideCall nrows ncols xll yll csz atol w poly = .error .shapeAssert) ∧
    (w = 2 → poly = [] → cellsInsideCall nrows ncols xll yll csz atol w poly = .error .emptyPolygon) ∧
    (w = 2 → ∀ v0 t, poly = v0 :: t → ∃ l, cellsInside nrows ncols xll yll csz atol poly = .ok l ∧
      cellsInsideCall nrows ncols xll yll csz atol w poly = .ok (l.map fun c =>
        ((cellCentre nrows ncols xll yll csz c).1, (cellCentre nrows ncols xll yll csz c).2, c))) := by
  refine ⟨fun h => by simp [cellsInsideCall, h], ?_, ?_⟩
  · rintro rfl rfl; simp [cellsInsideCall, cellsInsideTable, pointsInsidePolygon]
  · rintro rfl v0 t rfl
    obtain ⟨l, h1, h2⟩ := cells_table nrows ncols xll yll csz atol v0 t
    exact ⟨l, h1, by simpa [cellsInsideCall] using h2⟩

/-- over ANY history of re-assignments, clones and queries (answered or refused) the objects are what the same
history with every query erased leaves: a query changes no object, its own or another -/
theorem gridRun_queries_change_nothing (atol : α) (objs : List (Geom α)) (ops : List (GridOp α)) :
    (gridRun atol objs ops).2 = (gridRun atol objs (ops.filter fun op => !op.isQuery)).2 :=
  gridRun_state_erase atol ops objs

/-- a query after any history is answered from the geometry the object has at that moment -/
theorem gridHistory_query (atol : α) (objs : List (Geom α)) (ops : List (GridOp α)) (i w : Nat)
    (poly : List (α × α)) (g : Geom α) (hg : (gridRun atol objs ops).2[i]? = some g) :
    gridRun atol objs (ops ++ [.query i w poly]) =
      ((gridRun atol objs ops).1 ++ [cellsInsideCall g.nrows g.ncols g.xll g.yll g.csz atol w poly],
        (gridRun atol objs ops).2) := by
  rw [gridRun_append]
  simp [gridRun, gridStep, hg]

/-- objects do not alias: re-assigning an attribute of object `j` leaves every other object as it was, and a clone
starts as a copy of its original while all earlier objects keep their place -/
theorem grid_objects_independent (atol : α) (objs : List (Geom α)) (i j : Nat) (hij : i ≠ j) (v : α) :
    (gridStep atol objs (.setXll j v)).1[i]? = objs[i]? ∧ (gridStep atol objs (.setYll j v)).1[i]? = objs[i]? ∧
    (gridStep atol objs (.setCsz j v)).1[i]? = objs[i]? ∧
    (i < objs.length → (gridStep atol objs (.clone j)).1[i]? = objs[i]?) ∧
    (j < objs.length → (gridStep atol objs (.clone j)).1[objs.length]? = objs[j]?) := by
  refine ⟨modifyAt_getElem?_ne _ _ _ _ hij, modifyAt_getElem?_ne _ _ _ _ hij, modifyAt_getElem?_ne _ _ _ _ hij, ?_, ?_⟩
  · intro hi
    simp only [gridStep]
    cases h : objs[j]? with
    | none => rfl
    | some g => simp [List.getElem?_append_left hi]
  · intro hj
    simp only [gridStep]
    have : objs[j]? = some objs[j] := List.getElem?_eq_getElem hj
    simp [this]

/-! ### non-vacuity: the hypotheses are met by concrete, non-trivial inputs (over ℚ) -/

/-- the triangle (0,0) (4,0) (0,4); the point (1,1) is farther than 1/100 from its boundary -/
example : Far (1 / 100 : ℚ) [(0, 0), (4, 0), (0, 4)] (1, 1) := by
  intro e he
  simp only [edges, edgesFrom, List.cons_append, List.nil_append, List.mem_cons, List.not_mem_nil, or_false] at he
  intro s hs0 hs1
  rcases he with rfl | rfl | rfl
  · right; norm_num
  · by_cases h : s ≤ 1 / 2
    · left; rw [lt_abs]; right; norm_num; linarith
    · right; rw [lt_abs]; right; norm_num; linarith
  · left; norm_num

example : pointInside (1 / 100 : ℚ) [(0, 0), (4, 0), (0, 4)] (1, 1) = true := by decide +kernel
example : evenOdd [(0, 0), (4, 0), (0, 4)] ((1, 1) : ℚ × ℚ) = true := by decide +kernel
example : evenOdd [(0, 0), (4, 0), (0, 4)] ((3, 3) : ℚ × ℚ) = false := by decide +kernel
/-- a point level with a vertex, polygon passing through that level (half-open rule at work) -/
example : evenOdd [(0, 0), (4, 2), (0, 4)] ((1, 2) : ℚ × ℚ) = true ∧
    evenOddLeft [(0, 0), (4, 2), (0, 4)] ((1, 2) : ℚ × ℚ) = true := by decide +kernel
example : Sep (1 / 100 : ℚ) [(0, 0), (4, 0), (0, 4)] := by
  intro e he
  simp only [edges, edgesFrom, List.cons_append, List.nil_append, List.mem_cons, List.not_mem_nil, or_false] at he
  rcases he with rfl | rfl | rfl <;> (unfold SepEdge; norm_num)
example : OffEdges [(0, 0), (4, 0), (0, 4)] ((1, 1) : ℚ × ℚ) := by
  intro e he
  simp only [edges, edgesFrom, List.cons_append, List.nil_append, List.mem_cons, List.not_mem_nil, or_false] at he
  rcases he with rfl | rfl | rfl <;> (intro _; unfold xint; norm_num)

/-- a ray through the vertex (4,0) … -/
example : evenOddDir ((3, -1) : ℚ × ℚ) [(0, 0), (4, 0), (0, 4)] (1, 1) = true ∧
    evenOddDir ((-1, -1) : ℚ × ℚ) [(0, 0), (4, 0), (0, 4)] (1, 1) = true ∧
    evenOddDir ((0, 1) : ℚ × ℚ) [(0, 0), (4, 0), (0, 4)] (5, 1) = false := by decide +kernel
example : ((3, -1) : ℚ × ℚ) ≠ (0, 0) := by decide
example : (2 : ℚ) * 1 - 3 * (-1) ≠ 0 := by norm_num
example : pointsInsidePolygonCall (1 / 100 : ℚ) 2 [(1, 1), (3, 3)] 2 [(0, 0), (4, 0), (0, 4)] (some (true, 2)) =
    .ok [true, false] := by decide +kernel
example : pointsInsidePolygonCall (1 / 100 : ℚ) 3 [(1, 1)] 2 [] (some (false, 7)) = .error .insideDtype := by
  decide +kernel
example : StrictConvexCCW ([(0, 0), (4, 0), (0, 4)] : List (ℚ × ℚ)) := by
  unfold StrictConvexCCW; decide +kernel
example : LeftOfAll [(0, 0), (4, 0), (0, 4)] ((1, 1) : ℚ × ℚ) := by
  unfold LeftOfAll; decide +kernel

/-- a rounding whose relative error is exactly 1/1000 everywhere -/
example : RelRound (1 / 1000 : ℚ) (fun x => x * (1 + 1 / 1000)) := by
  intro x
  rw [show x * (1 + 1 / 1000) - x = 1 / 1000 * x by ring, abs_mul, abs_of_pos (by norm_num : (0 : ℚ) < 1 / 1000)]
example : SepR (1 / 1000 : ℚ) (1 / 100) [(0, 0), (4, 0), (0, 4)] := (sepRb_iff _ _ _).mp (by decide +kernel)
example : GapR (1 / 1000 : ℚ) [(0, 0), (4, 0), (0, 4)] (1, 1) := (gapRb_iff _ _ _).mp (by decide +kernel)
example : pointInsideRounded (fun x : ℚ => x * (1 + 1 / 1000)) (1 / 100) [(0, 0), (4, 0), (0, 4)] (1, 1) = true ∧
    pointInsideRounded (fun x : ℚ => x * (1 + 1 / 1000)) (1 / 100) [(0, 0), (4, 0), (0, 4)] (3, 3) = false := by
  decide +kernel
/-- a rounding error that matters: with relative error 1/4 the point (2.9, 1), inside by 0.1, is answered outside -/
example : pointInsideRounded (fun x : ℚ => x * (1 - 1 / 4)) (1 / 100) [(0, 0), (4, 0), (0, 4)] (29 / 10, 1) = false ∧
    evenOdd [(0, 0), (4, 0), (0, 4)] ((29 / 10, 1) : ℚ × ℚ) = true := by decide +kernel
example : sepRb u53 (1 / 100000000) [(0, 0), (4, 0), (0, 4)] = true ∧ gapRb u53 [(0, 0), (4, 0), (0, 4)] (1, 1) = true := by
  decide +kernel
example : rnd53 (1 / 3) = 6004799503160661 / 18014398509481984 := by decide +kernel
example : pointInsideRounded rnd53 (1 / 100000000) [(0, 0), (4, 0), (1 / 3, 4)] (1, 1) = true := by decide +kernel
example : (0 : ℚ) ≤ u53 ∧ u53 ≤ 1 / 100 := by unfold u53; norm_num
/-- a history: answered call on the caller's buffer, a call refused for its length, the polygon re-filled, the
buffer scribbled on, a call refused for its dtype, an answered call -/
example : (pipRun (⟨[(1, 1), (3, 3)], [(0, 0), (4, 0), (0, 4)], 1 / 100, some [5, 5]⟩ : PipWorld ℚ)
    [.call .buffer, .call (.foreign true 3), .setPolygon [(2, 2), (4, 2), (4, 4), (2, 4)], .scribble 7,
      .call (.foreign false 2), .call .buffer]) =
    ([.ok [true, false], .error .insideLength, .error .insideDtype, .ok [false, true]],
      ⟨[(1, 1), (3, 3)], [(2, 2), (4, 2), (4, 4), (2, 4)], 1 / 100, some [0, 1]⟩) := by decide +kernel
/-- a Grid history: query, clone, re-assign the clone's corner, a refused query (3 columns), query clone and original -/
example : (gridRun (1 / 100 : ℚ) [⟨2, 2, 0, 0, 1⟩]
    [.query 0 2 [(0, 0), (1, 0), (1, 2), (0, 2)], .clone 0, .setXll 1 (-1), .query 1 3 [(0, 0), (1, 0), (1, 2)],
      .query 1 2 [(0, 0), (1, 0), (1, 2), (0, 2)], .query 0 2 [(0, 0), (1, 0), (1, 2), (0, 2)]]) =
    ([.ok [(1 / 2, 3 / 2, 0), (1 / 2, 1 / 2, 2)], .error .shapeAssert, .ok [(1 / 2, 3 / 2, 1), (1 / 2, 1 / 2, 3)],
      .ok [(1 / 2, 3 / 2, 0), (1 / 2, 1 / 2, 2)]], [⟨2, 2, 0, 0, 1⟩, ⟨2, 2, -1, 0, 1⟩]) := by decide +kernel
example : Rectilinear ([(0, 0), (3, 0), (3, 2), (1, 2), (1, 1), (0, 1)] : List (ℚ × ℚ)) := by
  intro e he
  simp only [edges, edgesFrom, List.cons_append, List.nil_append, List.mem_cons, List.not_mem_nil, or_false] at he
  rcases he with rfl | rfl | rfl | rfl | rfl | rfl <;> simp
/-- a rounding that keeps the integers and is wildly wrong elsewhere: the L-shaped rectilinear polygon is still
answered exactly, also ON its boundary (closed ray) -/
example : pointInsideRounded (fun x : ℚ => if x.den = 1 then x else 1000 * x) (1 / 100)
    [(0, 0), (3, 0), (3, 2), (1, 2), (1, 1), (0, 1)] (1 / 2, 3 / 2) = false ∧
    pointInsideRounded (fun x : ℚ => if x.den = 1 then x else 1000 * x) (1 / 100)
    [(0, 0), (3, 0), (3, 2), (1, 2), (1, 1), (0, 1)] (5 / 2, 3 / 2) = true ∧
    pointInsideRounded (fun x : ℚ => if x.den = 1 then x else 1000 * x) (1 / 100)
    [(0, 0), (3, 0), (3, 2), (1, 2), (1, 1), (0, 1)] (3, 3 / 2) = true := by decide +kernel
example : rectb [(0, 0), (3, 0), (3, 2), (1, 2), (1, 1), (0, 1)] = true ∧
    repb [(0, 0), (3, 0), (3, 2), (1, 2), (1, 1), (0, 1)] = true ∧ repb [(1 / 3, 0)] = false := by decide +kernel
example : pointsInsidePolygonCallN 2147483648 (1 / 100 : ℚ) 3 [(1, 1)] 2 [] (some (false, 7)) = .error .nprintRange ∧
    pointsInsidePolygonCallN (-7) (1 / 100 : ℚ) 2 [(1, 1)] 2 [(0, 0), (4, 0), (0, 4)] none = .ok [true] := by
  decide +kernel

/-- the segment from (1,1) to (3/2,1) misses the triangle's boundary; the path (3,3) → (5,5) leaves the box -/
example : SegFree [(0, 0), (4, 0), (0, 4)] ((1, 1) : ℚ × ℚ) (3 / 2, 1) := by
  intro e he s t hs0 hs1 ht0 ht1 heq
  simp only [edges, edgesFrom, List.cons_append, List.nil_append, List.mem_cons, List.not_mem_nil, or_false] at he
  have h1 := congrArg Prod.fst heq
  have h2 := congrArg Prod.snd heq
  rcases he with rfl | rfl | rfl <;> simp only [segPt] at h1 h2 <;> nlinarith
example : PathFree [(0, 0), (4, 0), (0, 4)] [((3, 3) : ℚ × ℚ), (5, 5)] := by
  refine ⟨?_, trivial⟩
  intro e he s t hs0 hs1 ht0 ht1 heq
  simp only [edges, edgesFrom, List.cons_append, List.nil_append, List.mem_cons, List.not_mem_nil, or_false] at he
  have h1 := congrArg Prod.fst heq
  have h2 := congrArg Prod.snd heq
  rcases he with rfl | rfl | rfl <;> simp only [segPt] at h1 h2 <;> nlinarith
example : outsideBox (extentX ((0, 0) : ℚ × ℚ) [(4, 0), (0, 4)]) (extentY (0, 0) [(4, 0), (0, 4)]) (5, 5) = true := by
  decide +kernel

end HydroVerif.C15
