/-
C15 — property theorems (only). Model: `HydroVerif/Model/C15.lean`; helper lemmas and the predicates
`Far`, `Sep`, `OffEdges`, `shift`, `scale`, `lin`, `StrictConvexCCW`, `LeftOfAll`: `HydroVerif/Lemmas/C15*.lean`.

All statements are over an arbitrary linearly ordered field `α` (ℚ, ℝ, …), every polygon (any number of vertices,
any shape, any orientation, repeated vertices allowed) and every point subject to the stated hypotheses. Every model
function named below is executed by `Drivers/C15.lean` (Float and exact Rat instances) and compared with the real
code on every run: `pointsInsidePolygonCall` → `pointsInsidePolygon` → `cInside` / `crossing` / `edgeToggle`
(requests `pipf`, `pipcall`, `pipq`), `evenOdd`, `evenOddLeft`, `evenOddLe`, `evenOddDir` (`pipq`), `cellsInside`,
`cellsInsideTable`, `cellCentre` (`cells`, `centres`).

CLAUSE → THEOREMS → WHAT REMAINS OUTSIDE

1. "for any polygon - either orientation, any starting vertex, closed or open, convex or not - and any point farther
   from the boundary than the tolerance, points_inside_polygon reports 1 exactly when the point is interior under the
   even-odd rule, 0 otherwise"
   → `inside_eq_evenOdd_of_far` (all polygons, all atol ≥ 0, all points with sup-norm distance > atol to every edge),
     `crossing_eq_evenOdd_of_far` + `evenOdd_false_outside_box` (pre-test, guards, box never decide),
     `inside_eq_evenOddLe_of_sep`, `inside_eq_evenOdd_of_sep`, `inside_eq_evenOddLe_of_atol_nonpos`,
     `evenOddLe_eq_evenOdd` (the quantifier's "coordinates differ by much more than the tolerance": exact at EVERY point);
     the rule itself is well defined: `straddling_edges_even`, `evenOdd_right_eq_left`, `inside_eq_evenOddLeft_of_far`,
     `evenOdd_any_direction`, `inside_eq_evenOddDir_of_far` (the crossing parity is the same along EVERY ray direction);
     convex case = half-plane test: `convex_evenOdd_iff`, `convex_inside_iff`, `convex_cw_inside_iff`.
   outside: IEEE rounding (Float instance executed, bit-equal to the kernel; exact = float checked on every far point);
     a topological definition of "interior" (Jordan curve) is not formalised — "interior under the even-odd rule" is
     the crossing parity of a ray, proved independent of the ray.
2. "the answer is unchanged by rotating or reversing the vertex list" (and by closing it)
   → `evenOdd_rotate`, `evenOdd_reverse`, `evenOdd_close` (no hypothesis), `inside_rotate`, `inside_reverse`,
     `inside_close` (code's answer, far points). outside: nothing.
3. "… and by translating or scaling polygon and points together"
   → `evenOdd_shift`, `evenOdd_scale`, `inside_shift`, `inside_scale`; beyond the clause: every invertible linear map
     `evenOdd_linear_invariant`, `inside_linear_invariant`.
   outside: `inside_scale` / `inside_linear_invariant` need the distance clause before AND after the map because the
     code's tolerance is absolute (a fact of the code, not a gap of the proof).
4. "cells_inside_polygon returns exactly the grid cells whose centres are inside"
   → `cells_mem_iff` (each cell once, increasing, ⇔ centre accepted), `cells_mem_iff_evenOdd` (⇔ centre interior),
     `cells_table` (x, y columns are the centres of the listed cells), `cellCentre_rowcol` (centre formula).
   outside: the `cell2coord` kernel (C07; its formula is restated and compared bit for bit), pandas; that a Grid
     object carries no hidden state between queries is checked by the history streams (model = pure function of the
     current geometry), not by a theorem.
5. the wrapper's own behaviour (no clause of the property speaks of rejected input; kept because it decides answers)
   → `pointsInside_eq_map` (answers independent of each other and of the previous content of a caller's buffer),
     `pointsInside_error_iff`, `pointsInsideCall_spec` (dtype → length → shape → empty polygon, in the code's order).
   outside: numpy dtype conversion (`astype`), Cython buffer typing (ndim, contiguity), NaN / infinite coordinates.
-/
import HydroVerif.Lemmas.C15
import HydroVerif.Lemmas.C15Convex
import HydroVerif.Lemmas.C15Direction

set_option linter.unusedSectionVars false

namespace HydroVerif.C15

variable {α : Type} [Field α] [LinearOrder α] [IsStrictOrderedRing α]

/-! ### the code computes the even-odd rule -/

/-- the vertex loop alone (no box test), for a point farther than the tolerance from every edge, is the
tolerance-free crossing parity of the open right ray: the pre-test `x <= fmax(p1x,p2x)` and the two `atol`
guards never change the answer -/
theorem crossing_eq_evenOdd_of_far {atol : α} {poly : List (α × α)} {pt : α × α} (h0 : 0 ≤ atol)
    (hfar : Far atol poly pt) : crossing atol poly pt = evenOdd poly pt := by
  rw [crossing_eq]; unfold evenOdd
  exact parity_map_congr fun e he => edgeToggle_eq_crossR_of_far h0 (hfar e he)

/-- the bounding-box rejection never changes the answer of the even-odd rule -/
theorem evenOdd_false_outside_box {v0 : α × α} {t : List (α × α)} {pt : α × α}
    (hout : outsideBox (extentX v0 t) (extentY v0 t) pt = true) : evenOdd (v0 :: t) pt = false :=
  evenOdd_outsideBox hout

/-- **main theorem**: for every polygon and every point farther than the tolerance from its boundary,
`points_inside_polygon` (box test, pre-test, guards, closed ray) answers 1 exactly when the point is interior
under the even-odd rule -/
theorem inside_eq_evenOdd_of_far {atol : α} {poly : List (α × α)} {pt : α × α} (h0 : 0 ≤ atol)
    (hfar : Far atol poly pt) : pointInside atol poly pt = evenOdd poly pt := by
  have hc := crossing_eq_evenOdd_of_far h0 hfar
  cases poly with
  | nil => rfl
  | cons v0 t =>
    simp only [pointInside, pointInsideFrom]
    split
    · rename_i hout; exact (evenOdd_outsideBox hout).symm
    · exact hc

/-- for a polygon whose consecutive vertices differ, coordinate by coordinate, by nothing or by more than the
tolerance, the code is the even-odd rule of the closed right ray at EVERY point (also on or near the boundary) -/
theorem inside_eq_evenOddLe_of_sep {atol : α} {poly : List (α × α)} (pt : α × α) (hsep : Sep atol poly) :
    pointInside atol poly pt = evenOddLe poly pt := by
  have hc : crossing atol poly pt = evenOddLe poly pt := by
    rw [crossing_eq]; unfold evenOddLe
    exact parity_map_congr fun e he => edgeToggle_eq_crossRle_of_sep (hsep e he)
  cases poly with
  | nil => rfl
  | cons v0 t =>
    simp only [pointInside, pointInsideFrom]
    split
    · rename_i hout; exact (evenOddLe_outsideBox hout).symm
    · exact hc

/-- a tolerance `atol ≤ 0` switches both guards off: the code is the closed-ray even-odd rule for every polygon
and every point -/
theorem inside_eq_evenOddLe_of_atol_nonpos {atol : α} (h : atol ≤ 0) (poly : List (α × α)) (pt : α × α) :
    pointInside atol poly pt = evenOddLe poly pt := by
  apply inside_eq_evenOddLe_of_sep
  intro e _
  constructor
  · by_cases h1 : e.1.2 = e.2.2
    · exact Or.inl h1
    · exact Or.inr (lt_of_le_of_lt h (abs_pos.mpr (sub_ne_zero.mpr h1)))
  · exact Or.inr (h.trans (abs_nonneg _))

/-- closed and open right ray agree off the edges -/
theorem evenOddLe_eq_evenOdd {poly : List (α × α)} {pt : α × α} (hoff : OffEdges poly pt) :
    evenOddLe poly pt = evenOdd poly pt := by
  unfold evenOddLe evenOdd
  apply parity_map_congr
  intro e he
  unfold crossRle crossR
  cases hs : straddle pt.2 e.1 e.2
  · rfl
  · have hne := hoff e he hs
    simp only [Bool.true_and, decide_eq_decide]
    exact ⟨fun h => lt_of_le_of_ne h hne, le_of_lt⟩

/-- in the property's own quantifier: polygon steps nothing-or-more-than-the-tolerance, point on no edge -/
theorem inside_eq_evenOdd_of_sep {atol : α} {poly : List (α × α)} {pt : α × α} (hsep : Sep atol poly)
    (hoff : OffEdges poly pt) : pointInside atol poly pt = evenOdd poly pt := by
  rw [inside_eq_evenOddLe_of_sep pt hsep, evenOddLe_eq_evenOdd hoff]

/-! ### ray-direction independence (closed polygon ⇒ an even number of straddling edges) -/

/-- around the closed vertex cycle an even number of edges has exactly one end strictly below any horizontal line -/
theorem straddling_edges_even (poly : List (α × α)) (y : α) :
    parity ((edges poly).map fun e => straddle y e.1 e.2) = false :=
  parity_straddle_cycle y poly

/-- for a point on no edge, counting the crossings of the ray going right or of the ray going left gives the
same parity -/
theorem evenOdd_right_eq_left {poly : List (α × α)} {pt : α × α} (hoff : OffEdges poly pt) :
    evenOdd poly pt = evenOddLeft poly pt := by
  have h : parity ((edges poly).map fun e => xor (crossR pt.1 pt.2 e.1 e.2) (crossL pt.1 pt.2 e.1 e.2)) = false := by
    rw [← parity_straddle_cycle pt.2 poly]
    apply parity_map_congr
    intro e he
    unfold crossR crossL
    cases hs : straddle pt.2 e.1 e.2
    · rfl
    · have hne := hoff e he hs
      rcases lt_or_gt_of_ne hne with h | h
      · simp [h, not_lt.mpr h.le]
      · simp [h, not_lt.mpr h.le]
  rw [parity_map_xor] at h
  unfold evenOdd evenOddLeft
  revert h
  generalize parity (List.map (fun e => crossR pt.1 pt.2 e.1 e.2) (edges poly)) = a
  generalize parity (List.map (fun e => crossL pt.1 pt.2 e.1 e.2) (edges poly)) = b
  cases a <;> cases b <;> simp

/-- the code's answer is also the parity of the left ray -/
theorem inside_eq_evenOddLeft_of_far {atol : α} {poly : List (α × α)} {pt : α × α} (h0 : 0 ≤ atol)
    (hfar : Far atol poly pt) : pointInside atol poly pt = evenOddLeft poly pt := by
  rw [inside_eq_evenOdd_of_far h0 hfar, evenOdd_right_eq_left (far_offEdges h0 hfar)]

/-! ### independence of the ray direction, invariance under invertible linear maps -/

/-- the even-odd rule may be evaluated along ANY ray: for every direction `d ≠ 0`, every polygon and every point
off its boundary the crossing parity of the ray `P + s d` (half-open vertex rule in the rotated frame) equals that
of the horizontal ray -/
theorem evenOdd_any_direction {d : α × α} (hd : d ≠ (0, 0)) {poly : List (α × α)} {P : α × α}
    (hoff : Far 0 poly P) : evenOddDir d poly P = evenOdd poly P :=
  evenOddDir_eq_evenOdd hd hoff

/-- the code's answer is the crossing parity along any ray, for points farther than the tolerance from the
boundary -/
theorem inside_eq_evenOddDir_of_far {atol : α} {d : α × α} (h0 : 0 ≤ atol) (hd : d ≠ (0, 0))
    {poly : List (α × α)} {P : α × α} (hfar : Far atol poly P) :
    pointInside atol poly P = evenOddDir d poly P := by
  rw [inside_eq_evenOdd_of_far h0 hfar, evenOddDir_eq_evenOdd hd (far_mono h0 hfar)]

/-- the even-odd answer of a point off the boundary is unchanged by every invertible linear map of the plane
(rotations, reflections, shears, anisotropic scalings) applied to polygon and point together -/
theorem evenOdd_linear_invariant {a b c d : α} (hdet : a * d - b * c ≠ 0) {poly : List (α × α)} {pt : α × α}
    (hoff : Far 0 poly pt) : evenOdd (poly.map (lin a b c d)) (lin a b c d pt) = evenOdd poly pt :=
  (inv_lin hdet poly pt hoff).1

/-- … and so is the code's answer when the point is farther than the tolerance from the boundary before and
after the map -/
theorem inside_linear_invariant {atol a b c d : α} (h0 : 0 ≤ atol) (hdet : a * d - b * c ≠ 0)
    {poly : List (α × α)} {pt : α × α} (hfar : Far atol poly pt)
    (hfar' : Far atol (poly.map (lin a b c d)) (lin a b c d pt)) :
    pointInside atol (poly.map (lin a b c d)) (lin a b c d pt) = pointInside atol poly pt := by
  rw [inside_eq_evenOdd_of_far h0 hfar', inside_eq_evenOdd_of_far h0 hfar,
    evenOdd_linear_invariant hdet (far_mono h0 hfar)]

/-! ### invariance of the even-odd rule (no hypothesis) -/

theorem evenOdd_rotate (poly : List (α × α)) (k : Nat) (pt : α × α) :
    evenOdd (poly.rotate k) pt = evenOdd poly pt :=
  parity_perm ((edges_rotate_perm poly k).map _)

theorem evenOdd_reverse (poly : List (α × α)) (pt : α × α) : evenOdd poly.reverse pt = evenOdd poly pt := by
  unfold evenOdd
  rw [parity_perm ((edges_reverse_perm poly).map _), List.map_map]
  apply parity_map_congr
  intro e _
  exact crossR_swap pt.1 pt.2 e.1 e.2

/-- repeating the first vertex at the end (a "closed" vertex list) -/
theorem evenOdd_close (v0 : α × α) (t : List (α × α)) (pt : α × α) :
    evenOdd ((v0 :: t) ++ [v0]) pt = evenOdd (v0 :: t) pt := by
  unfold evenOdd
  rw [edges_close, List.map_append, parity_append]
  simp [parity, crossR, straddle]

theorem evenOdd_shift (d : α × α) (poly : List (α × α)) (pt : α × α) :
    evenOdd (poly.map (shift d)) (shift d pt) = evenOdd poly pt := by
  unfold evenOdd
  rw [edges_map, List.map_map]
  apply parity_map_congr
  intro e _
  exact crossR_shift d pt.1 pt.2 e.1 e.2

theorem evenOdd_scale {c : α} (hc : 0 < c) (poly : List (α × α)) (pt : α × α) :
    evenOdd (poly.map (scale c)) (scale c pt) = evenOdd poly pt := by
  unfold evenOdd
  rw [edges_map, List.map_map]
  apply parity_map_congr
  intro e _
  exact crossR_scale hc pt.1 pt.2 e.1 e.2

/-! ### invariance of the code's answer, for points farther than the tolerance from the boundary -/

theorem inside_rotate {atol : α} {poly : List (α × α)} {pt : α × α} (h0 : 0 ≤ atol) (hfar : Far atol poly pt)
    (k : Nat) : pointInside atol (poly.rotate k) pt = pointInside atol poly pt := by
  rw [inside_eq_evenOdd_of_far h0 (far_rotate k hfar), inside_eq_evenOdd_of_far h0 hfar, evenOdd_rotate]

theorem inside_reverse {atol : α} {poly : List (α × α)} {pt : α × α} (h0 : 0 ≤ atol) (hfar : Far atol poly pt) :
    pointInside atol poly.reverse pt = pointInside atol poly pt := by
  rw [inside_eq_evenOdd_of_far h0 (far_reverse hfar), inside_eq_evenOdd_of_far h0 hfar, evenOdd_reverse]

theorem inside_close {atol : α} {v0 : α × α} {t : List (α × α)} {pt : α × α} (h0 : 0 ≤ atol)
    (hfar : Far atol (v0 :: t) pt) :
    pointInside atol ((v0 :: t) ++ [v0]) pt = pointInside atol (v0 :: t) pt := by
  rw [inside_eq_evenOdd_of_far h0 (far_close hfar), inside_eq_evenOdd_of_far h0 hfar, evenOdd_close]

theorem inside_shift {atol : α} {poly : List (α × α)} {pt : α × α} (h0 : 0 ≤ atol) (hfar : Far atol poly pt)
    (d : α × α) : pointInside atol (poly.map (shift d)) (shift d pt) = pointInside atol poly pt := by
  rw [inside_eq_evenOdd_of_far h0 (far_shift d hfar), inside_eq_evenOdd_of_far h0 hfar, evenOdd_shift]

/-- the tolerance is absolute, so both the original and the scaled configuration must keep the point farther
than `atol` from the boundary -/
theorem inside_scale {atol c : α} {poly : List (α × α)} {pt : α × α} (h0 : 0 ≤ atol) (hc : 0 < c)
    (hfar : Far atol poly pt) (hfar' : Far atol (poly.map (scale c)) (scale c pt)) :
    pointInside atol (poly.map (scale c)) (scale c pt) = pointInside atol poly pt := by
  rw [inside_eq_evenOdd_of_far h0 hfar', inside_eq_evenOdd_of_far h0 hfar, evenOdd_scale hc]

/-! ### strictly convex polygons: the answer is the half-plane test -/

/-- for a strictly convex counter-clockwise polygon with at least 3 distinct vertices and a point not on its
boundary, the even-odd rule accepts the point exactly when it is strictly on the inner (left) side of every edge -/
theorem convex_evenOdd_iff {poly : List (α × α)} {pt : α × α} (hn : 3 ≤ poly.length) (hnd : poly.Nodup)
    (hcv : StrictConvexCCW poly) (hfar : Far 0 poly pt) : evenOdd poly pt = true ↔ LeftOfAll poly pt :=
  ⟨leftOfAll_of_evenOdd hnd hcv hfar, evenOdd_of_leftOfAll hn hnd hcv⟩

/-- the same for the code's answer, for a point farther than the tolerance from the boundary -/
theorem convex_inside_iff {atol : α} {poly : List (α × α)} {pt : α × α} (h0 : 0 ≤ atol) (hn : 3 ≤ poly.length)
    (hnd : poly.Nodup) (hcv : StrictConvexCCW poly) (hfar : Far atol poly pt) :
    pointInside atol poly pt = true ↔ LeftOfAll poly pt := by
  rw [inside_eq_evenOdd_of_far h0 hfar]
  exact convex_evenOdd_iff hn hnd hcv (far_mono h0 hfar)

/-- clockwise orientation: strictly on the right side of every edge -/
theorem convex_cw_inside_iff {atol : α} {poly : List (α × α)} {pt : α × α} (h0 : 0 ≤ atol) (hn : 3 ≤ poly.length)
    (hnd : poly.Nodup) (hcv : StrictConvexCCW poly.reverse) (hfar : Far atol poly pt) :
    pointInside atol poly pt = true ↔ ∀ e ∈ edges poly, cross e.1 e.2 pt < 0 := by
  rw [← inside_reverse h0 hfar,
    convex_inside_iff h0 (by rw [List.length_reverse]; exact hn) (List.nodup_reverse.mpr hnd) hcv (far_reverse hfar)]
  exact leftOfAll_reverse

/-! ### the vector interface and `cells_inside_polygon` -/

/-- `points_inside_polygon` answers each point independently with the per-point model; a caller-supplied answer
vector (of the right length) is zeroed first, so its previous content never shows -/
theorem pointsInside_eq_map (atol : α) (pts : List (α × α)) (v0 : α × α) (t : List (α × α)) :
    pointsInsidePolygon atol pts (v0 :: t) none = .ok (pts.map (pointInside atol (v0 :: t))) ∧
    pointsInsidePolygon atol pts (v0 :: t) (some pts.length) = .ok (pts.map (pointInside atol (v0 :: t))) :=
  ⟨pointsInsidePolygon_cons atol pts v0 t none (by intro n h; cases h),
   pointsInsidePolygon_cons atol pts v0 t (some pts.length) (by intro n h; cases h; rfl)⟩

/-- the only rejected calls: an empty polygon, an answer vector of the wrong length -/
theorem pointsInside_error_iff (atol : α) (pts poly : List (α × α)) (insideLen : Option Nat) :
    (∃ e, pointsInsidePolygon atol pts poly insideLen = .error e) ↔
      (poly = [] ∨ ∃ n, insideLen = some n ∧ n ≠ pts.length) := by
  cases insideLen with
  | none =>
    cases poly with
    | nil => simp [pointsInsidePolygon]
    | cons v0 t => simp [pointsInsidePolygon]
  | some n =>
    by_cases hn : n = pts.length
    · cases poly with
      | nil => simp [pointsInsidePolygon, hn]
      | cons v0 t => simp [pointsInsidePolygon, hn]
    · simp [pointsInsidePolygon, hn]

/-- the whole call as the caller makes it, guard by guard in the code's order: a wrong dtype of the answer vector
is reported first, then its length, then the two-column shape of points / polygon, then an empty polygon; a call
passing all four is answered point by point by the per-point model -/
theorem pointsInsideCall_spec (atol : α) (ptsWidth : Nat) (pts : List (α × α)) (polyWidth : Nat)
    (poly : List (α × α)) (inside : Option (Bool × Nat)) :
    ((∃ n, inside = some (false, n)) →
      pointsInsidePolygonCall atol ptsWidth pts polyWidth poly inside = .error .insideDtype) ∧
    ((∃ n, inside = some (true, n) ∧ n ≠ pts.length) →
      pointsInsidePolygonCall atol ptsWidth pts polyWidth poly inside = .error .insideLength) ∧
    ((inside = none ∨ inside = some (true, pts.length)) →
      ((ptsWidth ≠ 2 ∨ polyWidth ≠ 2) →
        pointsInsidePolygonCall atol ptsWidth pts polyWidth poly inside = .error .shapeAssert) ∧
      (ptsWidth = 2 → polyWidth = 2 → poly = [] →
        pointsInsidePolygonCall atol ptsWidth pts polyWidth poly inside = .error .emptyPolygon) ∧
      (ptsWidth = 2 → polyWidth = 2 → ∀ v0 t, poly = v0 :: t →
        pointsInsidePolygonCall atol ptsWidth pts polyWidth poly inside =
          .ok (pts.map (pointInside atol (v0 :: t))))) :=
  pointsInsidePolygonCall_spec atol ptsWidth pts polyWidth poly inside

/-- the table returned by `cells_inside_polygon` holds, for each listed cell and in the same order, the
coordinates of that cell's centre and its number -/
theorem cells_table (nrows ncols : Nat) (xll yll csz atol : α) (v0 : α × α) (t : List (α × α)) :
    ∃ l, cellsInside nrows ncols xll yll csz atol (v0 :: t) = .ok l ∧
      cellsInsideTable nrows ncols xll yll csz atol (v0 :: t) = .ok (l.map fun c =>
        ((cellCentre nrows ncols xll yll csz c).1, (cellCentre nrows ncols xll yll csz c).2, c)) :=
  ⟨_, cellsInside_cons nrows ncols xll yll csz atol v0 t, cellsInsideTable_cons nrows ncols xll yll csz atol v0 t⟩

/-- `cells_inside_polygon` lists exactly the cells of the grid whose centre the point test accepts,
each once, in increasing cell number -/
theorem cells_mem_iff (nrows ncols : Nat) (xll yll csz atol : α) (v0 : α × α) (t : List (α × α)) :
    ∃ l, cellsInside nrows ncols xll yll csz atol (v0 :: t) = .ok l ∧ l.Pairwise (· < ·) ∧
      ∀ i, i ∈ l ↔ (i < nrows * ncols ∧ pointInside atol (v0 :: t) (cellCentre nrows ncols xll yll csz i) = true) := by
  refine ⟨_, cellsInside_cons nrows ncols xll yll csz atol v0 t, ?_, ?_⟩
  · exact List.Pairwise.filter _ List.pairwise_lt_range
  · intro i; simp [List.mem_filter]

/-- … and, when every cell centre is farther than the tolerance from the boundary, exactly the cells whose
centre is interior under the even-odd rule -/
theorem cells_mem_iff_evenOdd (nrows ncols : Nat) (xll yll csz atol : α) (v0 : α × α) (t : List (α × α))
    (h0 : 0 ≤ atol)
    (hfar : ∀ i, i < nrows * ncols → Far atol (v0 :: t) (cellCentre nrows ncols xll yll csz i)) :
    ∃ l, cellsInside nrows ncols xll yll csz atol (v0 :: t) = .ok l ∧
      ∀ i, i ∈ l ↔ (i < nrows * ncols ∧ evenOdd (v0 :: t) (cellCentre nrows ncols xll yll csz i) = true) := by
  obtain ⟨l, hl, -, hmem⟩ := cells_mem_iff nrows ncols xll yll csz atol v0 t
  refine ⟨l, hl, fun i => ?_⟩
  rw [hmem]
  constructor
  · rintro ⟨hi, h⟩; exact ⟨hi, by rw [← inside_eq_evenOdd_of_far h0 (hfar i hi)]; exact h⟩
  · rintro ⟨hi, h⟩; exact ⟨hi, by rw [inside_eq_evenOdd_of_far h0 (hfar i hi)]; exact h⟩

/-- cell `r * ncols + c` (row `r` from the top, column `c` from the left) has its centre at
`(xll + csz (c + ½), yll + csz (nrows - 1 - r + ½))` -/
theorem cellCentre_rowcol (nrows ncols : Nat) (xll yll csz : α) (r c : Nat) (hc : c < ncols) :
    cellCentre nrows ncols xll yll csz (r * ncols + c) =
      (xll + csz * ((c : α) + 1 / 2), yll + csz * (((nrows - 1 - r : Nat) : α) + 1 / 2)) := by
  have h1 : (r * ncols + c) % ncols = c := by
    rw [Nat.add_comm, Nat.add_mul_mod_self_right, Nat.mod_eq_of_lt hc]
  have h2 : (r * ncols + c - c) / ncols = r := by
    rw [Nat.add_sub_cancel, Nat.mul_div_cancel _ (Nat.lt_of_le_of_lt (Nat.zero_le c) hc)]
  simp only [cellCentre, h1, h2, Nat.cast_one, Nat.cast_ofNat]

/-! ### non-vacuity: the hypotheses are met by concrete, non-trivial inputs (over ℚ) -/

/-- the triangle (0,0) (4,0) (0,4); the point (1,1) is farther than 1/100 from its boundary -/
example : Far (1 / 100 : ℚ) [(0, 0), (4, 0), (0, 4)] (1, 1) := by
  intro e he
  simp only [edges, edgesFrom, List.cons_append, List.nil_append, List.mem_cons, List.not_mem_nil, or_false] at he
  intro s hs0 hs1
  rcases he with rfl | rfl | rfl
  · right; norm_num
  · by_cases h : s ≤ 1 / 2
    · left; rw [lt_abs]; right; norm_num; linarith
    · right; rw [lt_abs]; right; norm_num; linarith
  · left; norm_num

example : pointInside (1 / 100 : ℚ) [(0, 0), (4, 0), (0, 4)] (1, 1) = true := by decide +kernel
example : evenOdd [(0, 0), (4, 0), (0, 4)] ((1, 1) : ℚ × ℚ) = true := by decide +kernel
example : evenOdd [(0, 0), (4, 0), (0, 4)] ((3, 3) : ℚ × ℚ) = false := by decide +kernel
/-- a point level with a vertex, polygon passing through that level (half-open rule at work) -/
example : evenOdd [(0, 0), (4, 2), (0, 4)] ((1, 2) : ℚ × ℚ) = true ∧
    evenOddLeft [(0, 0), (4, 2), (0, 4)] ((1, 2) : ℚ × ℚ) = true := by decide +kernel
example : Sep (1 / 100 : ℚ) [(0, 0), (4, 0), (0, 4)] := by
  intro e he
  simp only [edges, edgesFrom, List.cons_append, List.nil_append, List.mem_cons, List.not_mem_nil, or_false] at he
  rcases he with rfl | rfl | rfl <;> (unfold SepEdge; norm_num)
example : OffEdges [(0, 0), (4, 0), (0, 4)] ((1, 1) : ℚ × ℚ) := by
  intro e he
  simp only [edges, edgesFrom, List.cons_append, List.nil_append, List.mem_cons, List.not_mem_nil, or_false] at he
  rcases he with rfl | rfl | rfl <;> (intro _; unfold xint; norm_num)

/-- a ray through the vertex (4,0) … -/
example : evenOddDir ((3, -1) : ℚ × ℚ) [(0, 0), (4, 0), (0, 4)] (1, 1) = true ∧
    evenOddDir ((-1, -1) : ℚ × ℚ) [(0, 0), (4, 0), (0, 4)] (1, 1) = true ∧
    evenOddDir ((0, 1) : ℚ × ℚ) [(0, 0), (4, 0), (0, 4)] (5, 1) = false := by decide +kernel
example : ((3, -1) : ℚ × ℚ) ≠ (0, 0) := by decide
example : (2 : ℚ) * 1 - 3 * (-1) ≠ 0 := by norm_num
example : pointsInsidePolygonCall (1 / 100 : ℚ) 2 [(1, 1), (3, 3)] 2 [(0, 0), (4, 0), (0, 4)] (some (true, 2)) =
    .ok [true, false] := by decide +kernel
example : pointsInsidePolygonCall (1 / 100 : ℚ) 3 [(1, 1)] 2 [] (some (false, 7)) = .error .insideDtype := by
  decide +kernel
example : StrictConvexCCW ([(0, 0), (4, 0), (0, 4)] : List (ℚ × ℚ)) := by
  unfold StrictConvexCCW; decide +kernel
example : LeftOfAll [(0, 0), (4, 0), (0, 4)] ((1, 1) : ℚ × ℚ) := by
  unfold LeftOfAll; decide +kernel

end HydroVerif.C15
