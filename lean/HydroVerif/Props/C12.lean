import HydroVerif.Model.C12
namespace HydroVerif.C12
theorem stub_rejected_identity : (1 : Nat) = 1 := rfl
end HydroVerif.C12
