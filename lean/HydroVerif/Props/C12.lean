/-
C12 — property theorems (only). Model: `HydroVerif/Model/C12.lean` (Vector, Transform state) and
`HydroVerif/Model/C12T.lean` (the 13 transform classes, `get_transform`, histories over several instances); invariants
(`VecOk`, `WorldOk`, `MOk`, `EpsOk`) and helper lemmas: `HydroVerif/Lemmas/C12.lean`, `HydroVerif/Lemmas/C12T.lean`.

The state machine: a `World` = an array store + the list of live vectors; `step` applies one operation to the
`k`-th vector; `run` folds a whole history. `step` has a case for EVERY public entry point of `Vector`:
  mutators   `setAttr` (`v.a = x`), `setKey` (`v["a"] = x`), `setAll` (`v.values = xs`), `reset`, `setBad`
             (a value `float()` rejects, on any of the three paths)
  copies     `clone`, `dictRT` (`from_dict(to_dict())`), `pyCopy` (`copy.deepcopy` / `pickle`: external protocol,
             rejected on the pinned class, a deep copy when it works)
  accessors  `getKey` (`v["a"]`), `getAttr` (`v.a`), `read` (`to_dict`, `to_series`, `str`, all property getters)
  constructor `init` (all argument combinations given / omitted)
and for transforms: `tinit` (from given vector specs) / `cinit` (from the CLASS and its constructor keywords: the model's
own table `classSpecs` of names, defaults, bounds, flags, inner BoxCox2 and guards) / `getTransform`; `tstep` (forward,
backward, jacobian, sample, logprior, print, item / attribute reads, item / attribute / whole-vector assignments, reset);
`mstepC` / `mrun` (constructions by class and operations on any of several live instances).
Values are `XR α` (NaN, ±∞, finite `α`); the theorems hold for every linearly ordered `α` (the driver runs
`α = Float`). The `EPS` margin enters only through `EpsOk eps` (`a - eps ≤ a ≤ a + eps`): true in every ordered additive
group for `0 ≤ eps` AND under any monotone rounding of `+` / `-` (`epsOk_of_rounding`), hence of float arithmetic.

CLAUSE → THEOREMS (what stays outside)
 1 values always within bounds, any history ............ init_ok, init_view, step_ok, run_ok, worldOk_view_ok,
                                                          values_within_bounds_always; every transform class: cinit_ok
                                                          (hypothesis "bounds NaN-free" = the quantifier's "finite or
                                                          infinite bounds": NEEDED — nanFree_bounds_needed; DISCHARGED for
                                                          the classes from their own NaN guard — cinit_ok)
 2 NaN stored only when explicitly allowed .............. same invariant (`valuesOk`), failing_assignments_rejected (—)
 3 a rejected assignment leaves the state untouched ..... rejected_identity (no hypothesis; the SAME world is
                                                          returned), tstep_rejected_identity, mstepC_ok (a rejected
                                                          construction); which assignments are rejected:
                                                          failing_assignments_rejected, accessors_identity
                                                          (exception class / message text: not modelled)
 4 names, bounds, defaults never change ................. step_frozen, run_frozen, tstep_frozen, trun_frozen,
                                                          getTransform_ok
                                                          (names are an immutable list in the model: no entry point
                                                          writes `_names`; in-place edits by the CALLER through the
                                                          aliased getters are outside the operation set)
 5 hit flag == latest assignment was clipped ............ setAttr_hit_exact, setAll_hit_exact, reset_exact,
                                                          step_setAttr_exact, step_setAll_exact, step_reset_exact,
                                                          whole_assignment_exact_always, attr_assignment_exact_always,
                                                          reset_exact_always; under rounded arithmetic:
                                                          epsOk_of_nonneg, epsOk_of_rounding, setAll_hit_exact_rounded
                                                          (flag is maintained only when check_hitbounds: theorems state
                                                          hit = check_hitbounds ∧ clipped; inside the (0, EPS] margin
                                                          the two code paths differ: excluded by the property's own
                                                          conditioning = hypothesis `inRegion`, NEEDED: inRegion_needed)
 6 clones / dict round-trips = full state, independent .. clone_spec, dictRT_spec, toDict_faithful, copies_exact_always,
                                                          copies_exact_rounded, pyCopy_spec, storage_disjoint_always,
                                                          step_frame, spawn_keeps_all            (—)
 7 read-only transform uses keep params/constants/bounds  readonly_preserves, readonly_preserves_always, tstep_ok,
                                                          trun_ok, trun_frozen, tinit_ok, add_ok, tstep_frozen;
                                                          BY CLASS, no hypothesis: cinit_ok, class_table_coherent,
                                                          class_readonly_always, getTransform_ok,
                                                          getTransform_readonly_always; several live instances
                                                          (independent objects, fresh instance at its defaults):
                                                          tstep_frame, mstep_ok, mstep_independent, mstep_readonly,
                                                          madd_spec, maddC_spec, mstepC_ok, mrun_ok,
                                                          instances_independent_always, emptyM_ok; noname_inert (the
                                                          shared default `Vector([])` of `Transform.__init__` cannot be
                                                          told from one empty vector per instance)
                                                          (numerical results of forward/backward/jacobian are C01/C02;
                                                          the class table is tied to the code by the correspondence:
                                                          the harness names only the class and the keywords)
 quantifier: 0..4 names (any length here), finite/infinite bounds (hypothesis: NaN-free bounds), all flags, all
 histories (induction over `List Op`), every transform class (`TClass`, all constructor arguments), all interleavings
 (`List TOp`), all multi-instance histories (`List MOp`).
-/
import HydroVerif.Lemmas.C12
import HydroVerif.Lemmas.C12T
import Mathlib.Algebra.Order.Group.Int

set_option linter.unusedSectionVars false
set_option linter.unusedVariables false
set_option linter.unusedSimpArgs false

namespace HydroVerif.C12

section order
variable {α : Type} [LinearOrder α] [Add α] [Sub α] [OfNat α 0]

/-! ### construction establishes the invariant -/

/-- `Vector(names, defaults, mins, maxs, flags)` with NaN-free bounds (the property's "finite or infinite
bounds"), whenever the constructor accepts: the world made of that one vector is well formed — values inside
the bounds (NaN only if allowed), real intervals, unique names, consistent flags, four distinct arrays. -/
theorem init_ok (eps : α) (names : List String) (defaults mins maxs : Option (List (XR α))) (cb ch an : Bool)
    (w : World α) (e : init eps names defaults mins maxs cb ch an = .ok w)
    (hmins : ∀ m, mins = some m → m.any XR.isNaN = false)
    (hmaxs : ∀ m, maxs = some m → m.any XR.isNaN = false) : WorldOk w := by
  unfold init at e
  split at e
  · simp at e
  · rename_i s v emk
    simp only [Except.ok.injEq] at e; subst e
    obtain ⟨_, ok, _⟩ := mk_ok emk hmins hmaxs
    refine ⟨?_, ?_⟩
    · intro k u hu
      cases k with
      | zero => simp at hu; subst hu; exact ok
      | succ k => simp at hu
    · intro i j vi vj hi hj hij
      cases i <;> cases j <;> simp_all

/-- a fresh vector holds its defaults, its hit flag is off, and it carries the flags it was given -/
theorem init_view (eps : α) (names : List String) (defaults mins maxs : Option (List (XR α))) (cb ch an : Bool)
    (w : World α) (e : init eps names defaults mins maxs cb ch an = .ok w) :
    ∃ vw, w.view 0 = some vw ∧ vw.values = vw.defaults ∧ vw.hit = false ∧ vw.names = names
      ∧ vw.checkBounds = cb ∧ vw.checkHit = ch ∧ vw.acceptNan = an := by
  unfold init at e
  split at e
  · simp at e
  · rename_i s v emk
    simp only [Except.ok.injEq] at e; subst e
    unfold mk at emk
    split at emk
    · simp at emk
    · rename_i lo hi d _
      simp only [Except.ok.injEq] at emk
      have e2 := congrArg Prod.snd emk
      have e1 := congrArg Prod.fst emk
      simp only at e1 e2
      subst e1; subst e2
      refine ⟨_, rfl, ?_, rfl, rfl, rfl, rfl, rfl⟩
      simp [view, mkFrom, Store.alloc]

/-! ### every operation preserves the invariant; hence every history does -/

/-- INVARIANT STEP: whatever the operation (accepted or rejected, on whichever vector), a well-formed world
stays well formed -/
theorem step_ok (eps : α) (w : World α) (op : Op α) (hw : WorldOk w) : WorldOk (step eps w op).1 := by
  cases op with
  | setAttr k nm x => exact update_ok hw fun v s' v' hk e => setAttr_effect (hw.each k v hk) nm x e
  | setKey k nm x => exact update_ok hw fun v s' v' hk e => setKey_effect (hw.each k v hk) nm x e
  | setAll k xs => exact update_ok hw fun v s' v' hk e => setAll_effect eps (hw.each k v hk) xs e
  | reset k => exact update_ok hw fun v s' v' hk e => reset_effect eps (hw.each k v hk) e
  | clone k => exact (spawn_ok hw fun v s' c hk e => clone_effect eps (hw.each k v hk) e).1
  | dictRT k => exact (spawn_ok hw fun v s' c hk e => dictRT_effect eps (hw.each k v hk) e).1
  | getKey k nm => simpa [step] using hw
  | getAttr k nm => simpa [step] using hw
  | read k => simpa [step] using hw
  | setBad k => simpa [step] using hw
  | pyCopy k works =>
    cases works
    · simpa [step] using hw
    · simp only [step, if_true]
      exact (spawn_ok hw fun v s' c hk e => clone_effect eps (hw.each k v hk) e).1

/-- INVARIANT, ALL HISTORIES: after any sequence of operations of any length -/
theorem run_ok (eps : α) (ops : List (Op α)) : ∀ (w : World α), WorldOk w → WorldOk (run eps w ops) := by
  induction ops with
  | nil => intro w hw; exact hw
  | cons op ops ih => intro w hw; exact ih _ (step_ok eps w op hw)

/-- DISJOINT STORAGE, ALL HISTORIES: in every reachable state no array is shared between two live vectors
(original, clones, round-trips), and within one vector values / mins / maxs / defaults are four different arrays -/
theorem storage_disjoint_always (eps : α) (ops : List (Op α)) (w : World α) (hw : WorldOk w) :
    (∀ (i j : Nat) (vi vj : Vec), (run eps w ops).vecs[i]? = some vi → (run eps w ops).vecs[j]? = some vj → i ≠ j →
        ∀ r ∈ vi.refs, r ∉ vj.refs)
    ∧ (∀ (k : Nat) (v : Vec), (run eps w ops).vecs[k]? = some v → v.refs.Nodup) :=
  ⟨(run_ok eps ops w hw).sep, fun k v h => ((run_ok eps ops w hw).each k v h).nodup⟩

/-- what the invariant says about the observable state of each vector: values and defaults inside
`[mins, maxs]` or NaN-with-permission, bounds real intervals (`View.ok` is the executable form the driver
also reports) -/
theorem worldOk_view_ok (w : World α) (hw : WorldOk w) (k : Nat) (vw : View α) (h : w.view k = some vw) :
    vw.ok = true := by
  unfold World.view at h
  cases hk : w.vecs[k]? with
  | none => simp [hk] at h
  | some v =>
    simp only [hk, Option.map_some, Option.some.injEq] at h
    subst h
    have ok := hw.each k v hk
    simp [View.ok, view, ok.values_ok, ok.defaults_ok, ok.bounds]

/-- the property's first two clauses for every history from a constructed vector: values always lie within
the bounds and NaN is stored only when `accept_nan` — for every live vector (original, clones, round-trips) -/
theorem values_within_bounds_always (eps : α) (names : List String) (defaults mins maxs : Option (List (XR α)))
    (cb ch an : Bool) (w : World α) (e : init eps names defaults mins maxs cb ch an = .ok w)
    (hmins : ∀ m, mins = some m → m.any XR.isNaN = false)
    (hmaxs : ∀ m, maxs = some m → m.any XR.isNaN = false)
    (ops : List (Op α)) (k : Nat) (vw : View α) (h : (run eps w ops).view k = some vw) :
    valuesOk vw.acceptNan vw.values vw.mins vw.maxs = true := by
  have := worldOk_view_ok _ (run_ok eps ops w (init_ok eps names defaults mins maxs cb ch an w e hmins hmaxs)) k vw h
  simp only [View.ok, Bool.and_eq_true] at this
  exact this.1.1

/-! ### a rejected operation leaves the state untouched -/

/-- no hypothesis at all: the returned world is the very same store and objects -/
theorem rejected_identity (eps : α) (w : World α) (op : Op α) (e : Err)
    (h : (step eps w op).2 = .rejected e) : (step eps w op).1 = w := by
  cases op with
  | setAttr k nm x => exact update_rejected w k _ e h
  | setKey k nm x => exact update_rejected w k _ e h
  | setAll k xs => exact update_rejected w k _ e h
  | reset k => exact update_rejected w k _ e h
  | clone k => exact spawn_rejected w k _ e h
  | dictRT k => exact spawn_rejected w k _ e h
  | getKey k nm => simp [step]
  | getAttr k nm => simp [step]
  | read k => simp [step]
  | setBad k => simp [step]
  | pyCopy k works =>
    cases works
    · simp [step]
    · simp only [step, if_true] at h ⊢; exact spawn_rejected w k _ e h

/-- the failing assignments of the property are rejected: NaN without permission (by attribute / by key),
wrong length, unknown key -/
theorem failing_assignments_rejected (eps : α) (w : World α) (k : Nat) (v : Vec) (hk : w.vecs[k]? = some v) :
    (∀ nm i, indexOf nm v.names = some i → v.acceptNan = false →
        (step eps w (.setAttr k nm .nan)).2 = .rejected .nanValue
        ∧ (step eps w (.setKey k nm .nan)).2 = .rejected .nanValue)
    ∧ (∀ nm x, indexOf nm v.names = none → (step eps w (.setKey k nm x)).2 = .rejected .unknownKey)
    ∧ (∀ xs, xs.length ≠ v.n → (step eps w (.setAll k xs)).2 = .rejected .badLength)
    ∧ (∀ xs, xs.length = v.n → xs.any XR.isNaN = true → v.acceptNan = false →
        (step eps w (.setAll k xs)).2 = .rejected .nanValue) := by
  refine ⟨?_, ?_, ?_, ?_⟩
  · intro nm i hi ha
    simp [step, World.update, hk, setAttr, setKey, hi, ha, XR.isNaN]
  · intro nm x hi
    simp [step, World.update, hk, setKey, hi]
  · intro xs hl
    simp [step, World.update, hk, setAll, reject?, hl]
  · intro xs hl hn ha
    simp [step, World.update, hk, setAll, reject?, hl, hn, ha]

/-- ACCESSORS AND NON-NUMERIC VALUES: every pure accessor (`v[name]`, `v.name`, `to_dict`, `to_series`, `str`,
property getters), an assignment of something `float()` rejects, and a failing copy protocol return the very same
world; a read by key / attribute is accepted exactly for the vector's names and returns the stored element -/
theorem accessors_identity (eps : α) (w : World α) (k : Nat) (nm : String) :
    (step eps w (.getKey k nm)).1 = w ∧ (step eps w (.getAttr k nm)).1 = w ∧ (step eps w (.read k)).1 = w
      ∧ (step eps w (.setBad k)).1 = w ∧ (step eps w (.pyCopy k false)).1 = w
      ∧ (∀ v, w.vecs[k]? = some v →
          ((step eps w (.getKey k nm)).2 = .ok ↔ (indexOf nm v.names).isSome)
          ∧ ((step eps w (.getAttr k nm)).2 = .ok ↔ (indexOf nm v.names).isSome)
          ∧ (step eps w (.read k)).2 = .ok
          ∧ (step eps w (.setBad k)).2 = .rejected .notNumber
          ∧ (∀ i, indexOf nm v.names = some i → readItem w k nm = (w.store.cells v.values)[i]?)) := by
  refine ⟨by simp [step], by simp [step], by simp [step], by simp [step], by simp [step], ?_⟩
  intro v hk
  refine ⟨?_, ?_, by simp [step, World.peek, hk], by simp [step, World.peek, hk], ?_⟩
  · cases h : indexOf nm v.names <;> simp [step, World.peek, hk, h]
  · cases h : indexOf nm v.names <;> simp [step, World.peek, hk, h]
  · intro i hi; simp [readItem, hk, hi]

/-! ### names, bounds, defaults (and option flags) never change -/

/-- FRAME: an operation addressed to vector `op.target` does not change anything any OTHER live vector
shows (values, bounds, defaults, names, flags, hit) — clones and originals are independent -/
theorem step_frame (eps : α) (w : World α) (op : Op α) (hw : WorldOk w) (j : Nat) (hj : j < w.vecs.length)
    (hne : j ≠ op.target) : (step eps w op).1.view j = w.view j := by
  cases op with
  | setAttr k nm x => exact update_view_other hw (fun v s' v' hk e => setAttr_effect (hw.each k v hk) nm x e) j hne
  | setKey k nm x => exact update_view_other hw (fun v s' v' hk e => setKey_effect (hw.each k v hk) nm x e) j hne
  | setAll k xs => exact update_view_other hw (fun v s' v' hk e => setAll_effect eps (hw.each k v hk) xs e) j hne
  | reset k => exact update_view_other hw (fun v s' v' hk e => reset_effect eps (hw.each k v hk) e) j hne
  | clone k => exact (spawn_ok hw fun v s' c hk e => clone_effect eps (hw.each k v hk) e).2 j hj
  | dictRT k => exact (spawn_ok hw fun v s' c hk e => dictRT_effect eps (hw.each k v hk) e).2 j hj
  | getKey k nm => simp [step]
  | getAttr k nm => simp [step]
  | read k => simp [step]
  | setBad k => simp [step]
  | pyCopy k works =>
    cases works
    · simp [step]
    · simp only [step, if_true]
      exact (spawn_ok hw fun v s' c hk e => clone_effect eps (hw.each k v hk) e).2 j hj

/-- clone / dictionary round-trip do not change the source either -/
theorem spawn_keeps_all (eps : α) (w : World α) (k : Nat) (hw : WorldOk w) (j : Nat) (hj : j < w.vecs.length) :
    (step eps w (.clone k)).1.view j = w.view j ∧ (step eps w (.dictRT k)).1.view j = w.view j :=
  ⟨(spawn_ok hw fun v s' c hk e => clone_effect eps (hw.each k v hk) e).2 j hj,
   (spawn_ok hw fun v s' c hk e => dictRT_effect eps (hw.each k v hk) e).2 j hj⟩

/-- FROZEN STEP: names, mins, maxs, defaults, check_bounds, check_hitbounds, accept_nan of every live vector
are the same after any operation -/
theorem step_frozen (eps : α) (w : World α) (op : Op α) (hw : WorldOk w) (j : Nat) (hj : j < w.vecs.length) :
    (step eps w op).1.frozen j = w.frozen j := by
  by_cases hne : j = op.target
  · cases op with
    | setAttr k nm x =>
      simp only [Op.target] at hne; subst hne
      exact update_frozen_self hw fun v s' v' hk e => setAttr_effect (hw.each j v hk) nm x e
    | setKey k nm x =>
      simp only [Op.target] at hne; subst hne
      exact update_frozen_self hw fun v s' v' hk e => setKey_effect (hw.each j v hk) nm x e
    | setAll k xs =>
      simp only [Op.target] at hne; subst hne
      exact update_frozen_self hw fun v s' v' hk e => setAll_effect eps (hw.each j v hk) xs e
    | reset k =>
      simp only [Op.target] at hne; subst hne
      exact update_frozen_self hw fun v s' v' hk e => reset_effect eps (hw.each j v hk) e
    | clone k => simp only [World.frozen]; rw [(spawn_keeps_all eps w k hw j hj).1]
    | dictRT k => simp only [World.frozen]; rw [(spawn_keeps_all eps w k hw j hj).2]
    | getKey k nm => simp [step]
    | getAttr k nm => simp [step]
    | read k => simp [step]
    | setBad k => simp [step]
    | pyCopy k works =>
      cases works
      · simp [step]
      · simp only [World.frozen, step, if_true]
        rw [(spawn_ok hw fun v s' c hk e => clone_effect eps (hw.each k v hk) e).2 j hj]
  · simp only [World.frozen]; rw [step_frame eps w op hw j hj hne]

/-- FROZEN, ALL HISTORIES: for every vector alive at some point, names / bounds / defaults / flags are the same
after any further sequence of operations -/
theorem run_frozen (eps : α) (ops : List (Op α)) : ∀ (w : World α), WorldOk w → ∀ j, j < w.vecs.length →
    (run eps w ops).frozen j = w.frozen j := by
  induction ops with
  | nil => intro w _ j _; rfl
  | cons op ops ih =>
    intro w hw j hj
    show (run eps (step eps w op).1 ops).frozen j = w.frozen j
    rw [ih _ (step_ok eps w op hw) j (Nat.lt_of_lt_of_le hj (step_length_le eps w op)), step_frozen eps w op hw j hj]

end order

/-! ### the hit flag tells exactly whether the latest assignment was clipped -/
section hit
variable {α : Type} [LinearOrder α] [Add α] [Sub α] [OfNat α 0]

/-- set by attribute / by key on element `i` (known name, accepted): element `i` becomes the assigned value
moved to the nearest bound, nothing else moves, and the flag is set iff hit checking is on and the stored
value differs from the assigned one. No margin is involved on this path, hence no conditioning. -/
theorem setAttr_hit_exact {s s' : Store α} {v v' : Vec} (h : VecOk s v) (nm : String) (i : Nat) (x : XR α)
    (hi : indexOf nm v.names = some i) (e : setAttr s v nm x = ((s', v'), .ok)) :
    ∃ lo hi, (s.cells v.mins)[i]? = some lo ∧ (s.cells v.maxs)[i]? = some hi
      ∧ s'.cells v'.values = (s.cells v.values).set i (XR.clipNp x lo hi)
      ∧ (v'.hit = true ↔ v.checkHit = true ∧ XR.clipNp x lo hi ≠ x) := by
  unfold setAttr at e
  simp only [hi] at e
  split at e
  · simp at e
  · split at e
    · rename_i lo hi' hlo hhi
      simp only [Prod.mk.injEq, and_true] at e; obtain ⟨rfl, rfl⟩ := e
      have hb := all2_get boundElem _ _ i lo hi' h.bounds hlo hhi
      simp only [boundElem, Bool.and_eq_true, Bool.not_eq_true'] at hb
      refine ⟨lo, hi', hlo, hhi, ?_, ?_⟩
      · simp [XR.clipPy_eq_clipNp x lo hi' hb.1.1 hb.1.2]
      · cases hx : x.isNaN
        · rw [XR.clipNp_ne_iff x lo hi' hx hb.1.1 hb.1.2 hb.2]
          cases hc : v.checkHit
          · simp [h.hit_off hc]
          · simp
        · have := XR.isNaN_eq_nan hx; subst this
          rw [XR.clipNp_nan]
          cases hc : v.checkHit
          · simp [h.hit_off hc]
          · cases lo <;> cases hi' <;> simp [XR.outside, XR.lt]
    · simp at e

/-- whole-vector assignment (accepted) with every assigned value inside/on the bounds, NaN, or more than EPS
outside: the new values are the assigned values clipped element-wise into a FRESH array, and the flag is set
iff hit checking is on and some stored value differs from the assigned one -/
theorem setAll_hit_exact {eps : α} (heps : EpsOk eps) {s s' : Store α} {v v' : Vec} (h : VecOk s v)
    (xs : List (XR α)) (e : setAll eps s v xs = ((s', v'), .ok))
    (hr : all3 (XR.inRegion eps) xs (s.cells v.mins) (s.cells v.maxs) = true) :
    s'.cells v'.values = clipAll xs (s.cells v.mins) (s.cells v.maxs)
      ∧ s.next ≤ v'.values
      ∧ (v'.hit = true ↔ v.checkHit = true ∧ s'.cells v'.values ≠ xs) := by
  unfold setAll at e
  split at e
  · simp at e
  · rename_i hrej
    obtain ⟨hl, _⟩ := reject?_none hrej
    simp only [Prod.mk.injEq, and_true] at e; obtain ⟨rfl, rfl⟩ := e
    have hh := hitAll_iff heps xs _ _ h.bounds hr (by rw [hl, h.len_mins]) (by rw [hl, h.len_maxs])
    refine ⟨by simp, by simp, ?_⟩
    simp only [alloc_ref, alloc_cells_new, Bool.and_eq_true, hh]

/-- reset = assignment of the defaults: never clipped, so the flag is off afterwards and values = defaults -/
theorem reset_exact {eps : α} (heps : EpsOk eps) {s : Store α} {v : Vec} (h : VecOk s v) :
    ∃ s' v', reset eps s v = ((s', v'), .ok) ∧ s'.cells v'.values = s.cells v.defaults ∧ v'.hit = false
      ∧ s.next ≤ v'.values := by
  have hn := valuesOk_nan_an v.acceptNan _ _ _ h.defaults_ok (by rw [h.len_defaults, h.len_mins])
    (by rw [h.len_defaults, h.len_maxs])
  have hrej := reject?_of_ok v.acceptNan v.n _ h.len_defaults hn
  have hc := clipAll_eq_self v.acceptNan _ _ _ h.bounds h.defaults_ok (by rw [h.len_defaults, h.len_mins])
    (by rw [h.len_defaults, h.len_maxs])
  have hh := hitAll_false_of_ok heps v.acceptNan _ _ _ h.defaults_ok
  refine ⟨(s.alloc (clipAll (s.cells v.defaults) (s.cells v.mins) (s.cells v.maxs))).1,
    { v with values := s.next,
             hit := v.checkHit && hitAll eps (s.cells v.defaults) (s.cells v.mins) (s.cells v.maxs) },
    ?_, ?_, ?_, ?_⟩
  · simp only [reset, setAll, hrej, alloc_ref]
  · simp [hc]
  · simp [hh]
  · simp

/-- the same facts read on the state machine: `step` with a whole-vector assignment that is accepted -/
theorem step_setAll_exact {eps : α} (heps : EpsOk eps) (w : World α) (hw : WorldOk w) (k : Nat) (xs : List (XR α))
    (vw : View α) (hv : w.view k = some vw) (hacc : (step eps w (.setAll k xs)).2 = .ok)
    (hr : all3 (XR.inRegion eps) xs vw.mins vw.maxs = true) :
    ∃ vw', (step eps w (.setAll k xs)).1.view k = some vw'
      ∧ vw'.values = clipAll xs vw.mins vw.maxs
      ∧ (vw'.hit = true ↔ vw.checkHit = true ∧ vw'.values ≠ xs) := by
  unfold World.view at hv
  cases hk : w.vecs[k]? with
  | none => simp [hk] at hv
  | some v =>
    simp only [hk, Option.map_some, Option.some.injEq] at hv
    subst hv
    have hklt : k < w.vecs.length := by
      rcases List.getElem?_eq_some_iff.mp hk with ⟨h, _⟩; exact h
    simp only [step, World.update, hk] at hacc ⊢
    rcases hf : setAll eps w.store v xs with ⟨⟨s', v'⟩, o⟩
    cases o with
    | rejected e' => simp [hf] at hacc
    | ok =>
      obtain ⟨h1, _, h3⟩ := setAll_hit_exact heps (hw.each k v hk) xs hf hr
      refine ⟨C12.view s' v', ?_, h1, h3⟩
      simp [World.view, hklt]

/-- `step` with an assignment by attribute or by key to a known name, accepted -/
theorem step_setAttr_exact (eps : α) (w : World α) (hw : WorldOk w) (k : Nat) (nm : String) (i : Nat) (x : XR α)
    (vw : View α) (hv : w.view k = some vw) (hi : indexOf nm vw.names = some i) (byKey : Bool)
    (hacc : (step eps w (if byKey then .setKey k nm x else .setAttr k nm x)).2 = .ok) :
    ∃ vw' lo hi, (step eps w (if byKey then .setKey k nm x else .setAttr k nm x)).1.view k = some vw'
      ∧ vw.mins[i]? = some lo ∧ vw.maxs[i]? = some hi
      ∧ vw'.values = vw.values.set i (XR.clipNp x lo hi)
      ∧ (vw'.hit = true ↔ vw.checkHit = true ∧ XR.clipNp x lo hi ≠ x) := by
  unfold World.view at hv
  cases hk : w.vecs[k]? with
  | none => simp [hk] at hv
  | some v =>
    simp only [hk, Option.map_some, Option.some.injEq] at hv
    subst hv
    have hklt : k < w.vecs.length := by
      rcases List.getElem?_eq_some_iff.mp hk with ⟨h, _⟩; exact h
    have hi' : indexOf nm v.names = some i := hi
    have hsame : setKey w.store v nm x = setAttr w.store v nm x := by simp [setKey, hi']
    have hred : step eps w (if byKey then .setKey k nm x else .setAttr k nm x)
        = w.update k fun s u => if byKey then setKey s u nm x else setAttr s u nm x := by
      cases byKey <;> simp [step]
    rw [hred] at hacc ⊢
    simp only [World.update, hk] at hacc ⊢
    have hf' : (if byKey then setKey w.store v nm x else setAttr w.store v nm x) = setAttr w.store v nm x := by
      cases byKey <;> simp [hsame]
    rw [hf'] at hacc ⊢
    rcases hf : setAttr w.store v nm x with ⟨⟨s', v'⟩, o⟩
    cases o with
    | rejected e' => simp [hf] at hacc
    | ok =>
      obtain ⟨lo, hi2, h1, h2, h3, h4⟩ := setAttr_hit_exact (hw.each k v hk) nm i x hi' hf
      refine ⟨C12.view s' v', lo, hi2, ?_, h1, h2, h3, h4⟩
      simp [World.view, hklt]

/-- `step` with a reset: always accepted on a well-formed world; values become the defaults, the flag is off -/
theorem step_reset_exact {eps : α} (heps : EpsOk eps) (w : World α) (hw : WorldOk w) (k : Nat) (vw : View α)
    (hv : w.view k = some vw) :
    (step eps w (.reset k)).2 = .ok
      ∧ ∃ vw', (step eps w (.reset k)).1.view k = some vw' ∧ vw'.values = vw.defaults ∧ vw'.hit = false := by
  unfold World.view at hv
  cases hk : w.vecs[k]? with
  | none => simp [hk] at hv
  | some v =>
    simp only [hk, Option.map_some, Option.some.injEq] at hv
    subst hv
    have hklt : k < w.vecs.length := by
      rcases List.getElem?_eq_some_iff.mp hk with ⟨h, _⟩; exact h
    obtain ⟨s', v', e, h1, h2, _⟩ := reset_exact heps (hw.each k v hk)
    have h0 : step eps w (.reset k) = (⟨s', w.vecs.set k v'⟩, .ok) := by
      simp only [step, World.update, hk, e]
    rw [h0]
    refine ⟨rfl, C12.view s' v', ?_, h1, h2⟩
    simp [World.view, hklt]

/-- HIT FLAG, ALL HISTORIES: from any constructed vector, after ANY history, an accepted whole-vector assignment
(values inside / on the bounds, NaN, or more than EPS outside) stores the element-wise clipped values and sets the
flag iff hit checking is on and something was clipped -/
theorem whole_assignment_exact_always {eps : α} (heps : EpsOk eps) (names : List String)
    (defaults mins maxs : Option (List (XR α))) (cb ch an : Bool) (w0 : World α)
    (e : init eps names defaults mins maxs cb ch an = .ok w0)
    (hmins : ∀ m, mins = some m → m.any XR.isNaN = false) (hmaxs : ∀ m, maxs = some m → m.any XR.isNaN = false)
    (ops : List (Op α)) (k : Nat) (xs : List (XR α)) (vw : View α)
    (hv : (run eps w0 ops).view k = some vw) (hacc : (step eps (run eps w0 ops) (.setAll k xs)).2 = .ok)
    (hr : all3 (XR.inRegion eps) xs vw.mins vw.maxs = true) :
    ∃ vw', (step eps (run eps w0 ops) (.setAll k xs)).1.view k = some vw'
      ∧ vw'.values = clipAll xs vw.mins vw.maxs
      ∧ (vw'.hit = true ↔ vw.checkHit = true ∧ vw'.values ≠ xs) :=
  step_setAll_exact heps _ (run_ok eps ops w0 (init_ok eps names defaults mins maxs cb ch an w0 e hmins hmaxs))
    k xs vw hv hacc hr

/-- HIT FLAG BY ATTRIBUTE / BY KEY, ALL HISTORIES: from any constructed vector, after ANY history, an accepted
assignment by attribute or by key to a known name stores the value moved to the nearest bound, moves nothing else, and
sets the flag iff hit checking is on and the value was clipped — no conditioning on this path -/
theorem attr_assignment_exact_always (eps : α) (names : List String)
    (defaults mins maxs : Option (List (XR α))) (cb ch an : Bool) (w0 : World α)
    (e : init eps names defaults mins maxs cb ch an = .ok w0)
    (hmins : ∀ m, mins = some m → m.any XR.isNaN = false) (hmaxs : ∀ m, maxs = some m → m.any XR.isNaN = false)
    (ops : List (Op α)) (k : Nat) (nm : String) (i : Nat) (x : XR α) (vw : View α)
    (hv : (run eps w0 ops).view k = some vw) (hi : indexOf nm vw.names = some i) (byKey : Bool)
    (hacc : (step eps (run eps w0 ops) (if byKey then .setKey k nm x else .setAttr k nm x)).2 = .ok) :
    ∃ vw' lo hi, (step eps (run eps w0 ops) (if byKey then .setKey k nm x else .setAttr k nm x)).1.view k = some vw'
      ∧ vw.mins[i]? = some lo ∧ vw.maxs[i]? = some hi
      ∧ vw'.values = vw.values.set i (XR.clipNp x lo hi)
      ∧ (vw'.hit = true ↔ vw.checkHit = true ∧ XR.clipNp x lo hi ≠ x) :=
  step_setAttr_exact eps _ (run_ok eps ops w0 (init_ok eps names defaults mins maxs cb ch an w0 e hmins hmaxs))
    k nm i x vw hv hi byKey hacc

/-- RESET, ALL HISTORIES: after ANY history a reset of any live vector is accepted, restores the defaults and clears
the flag -/
theorem reset_exact_always {eps : α} (heps : EpsOk eps) (names : List String)
    (defaults mins maxs : Option (List (XR α))) (cb ch an : Bool) (w0 : World α)
    (e : init eps names defaults mins maxs cb ch an = .ok w0)
    (hmins : ∀ m, mins = some m → m.any XR.isNaN = false) (hmaxs : ∀ m, maxs = some m → m.any XR.isNaN = false)
    (ops : List (Op α)) (k : Nat) (vw : View α) (hv : (run eps w0 ops).view k = some vw) :
    (step eps (run eps w0 ops) (.reset k)).2 = .ok
      ∧ ∃ vw', (step eps (run eps w0 ops) (.reset k)).1.view k = some vw' ∧ vw'.values = vw.defaults ∧ vw'.hit = false :=
  step_reset_exact heps _ (run_ok eps ops w0 (init_ok eps names defaults mins maxs cb ch an w0 e hmins hmaxs)) k vw hv

end hit

/-! ### clone and dictionary round-trip reproduce the full observable state as independent copies -/
section copies
variable {α : Type} [LinearOrder α] [Add α] [Sub α] [OfNat α 0]

/-- `clone()` of any live vector in any reachable world: never rejected; the new vector shows exactly what
the source shows (names, values, bounds, defaults, hit flag, all three option flags); every array of the new
vector is freshly allocated (so disjoint from every array that existed); every existing vector, the source
included, shows what it showed before; the world stays well formed (hence later operations on either side
never reach the other: `step_frame`). -/
theorem clone_spec {eps : α} (heps : EpsOk eps) (w : World α) (hw : WorldOk w) (k : Nat) (v : Vec)
    (hk : w.vecs[k]? = some v) :
    ∃ w' c, step eps w (.clone k) = (w', .ok) ∧ w'.vecs = w.vecs ++ [c]
      ∧ w'.view w.vecs.length = w.view k
      ∧ (∀ r ∈ c.refs, w.store.next ≤ r)
      ∧ (∀ j, j < w.vecs.length → w'.view j = w.view j)
      ∧ WorldOk w' := by
  have ok := hw.each k v hk
  obtain ⟨s', c, e, vw⟩ := rebuild_self heps w.store v.hit ok.arraysOk ok.values_ok ok.len_values
  have ec : clone eps w.store v = .ok (s', c) := e
  obtain ⟨sp, _⟩ := clone_effect eps ok ec
  have hstep : step eps w (.clone k) = (⟨s', w.vecs ++ [c]⟩, .ok) := by
    simp only [step, World.spawn, hk, ec]
  have hall := spawn_ok hw (k := k) (f := fun s v => clone eps s v)
    (fun v s' c hk e => clone_effect eps (hw.each k v hk) e)
  have hstep' : (w.spawn k fun s v => clone eps s v) = (⟨s', w.vecs ++ [c]⟩, .ok) := hstep
  rw [hstep'] at hall
  refine ⟨_, c, hstep, rfl, ?_, sp.fresh, hall.2, hall.1⟩
  show ((w.vecs ++ [c])[w.vecs.length]?).map (C12.view s') = (w.vecs[k]?).map (C12.view w.store)
  rw [List.getElem?_concat_length, hk, Option.map_some, Option.map_some, vw]; rfl

/-- the same for `Vector.from_dict(vect.to_dict())` -/
theorem dictRT_spec {eps : α} (heps : EpsOk eps) (w : World α) (hw : WorldOk w) (k : Nat) (v : Vec)
    (hk : w.vecs[k]? = some v) :
    ∃ w' c, step eps w (.dictRT k) = (w', .ok) ∧ w'.vecs = w.vecs ++ [c]
      ∧ w'.view w.vecs.length = w.view k
      ∧ (∀ r ∈ c.refs, w.store.next ≤ r)
      ∧ (∀ j, j < w.vecs.length → w'.view j = w.view j)
      ∧ WorldOk w' := by
  have ok := hw.each k v hk
  obtain ⟨s', c, e, vw⟩ := rebuild_self heps w.store v.hit ok.arraysOk ok.values_ok ok.len_values
  obtain ⟨il, i1, i2, i3, i4, i5⟩ := items_spec v.n v.names (w.store.cells v.values) (w.store.cells v.mins)
    (w.store.cells v.maxs) (w.store.cells v.defaults) rfl ok.len_values ok.len_mins ok.len_maxs ok.len_defaults
  have ht : List.take v.n (items v.names (w.store.cells v.values) (w.store.cells v.mins) (w.store.cells v.maxs)
      (w.store.cells v.defaults)) = items v.names (w.store.cells v.values) (w.store.cells v.mins)
      (w.store.cells v.maxs) (w.store.cells v.defaults) := List.take_of_length_le (by omega)
  have ec : fromDict eps w.store (toDict w.store v) = .ok (s', c) := by
    unfold fromDict
    simp only [toDict, il, Nat.lt_irrefl, if_false]
    rw [ht, i1, i2, i3, i4, i5]; exact e
  obtain ⟨sp, _⟩ := dictRT_effect eps ok ec
  have hstep : step eps w (.dictRT k) = (⟨s', w.vecs ++ [c]⟩, .ok) := by
    simp only [step, World.spawn, hk, ec]
  have hall := spawn_ok hw (k := k) (f := fun s v => fromDict eps s (toDict s v))
    (fun v s' c hk e => dictRT_effect eps (hw.each k v hk) e)
  have hstep' : (w.spawn k fun s v => fromDict eps s (toDict s v)) = (⟨s', w.vecs ++ [c]⟩, .ok) := hstep
  rw [hstep'] at hall
  refine ⟨_, c, hstep, rfl, ?_, sp.fresh, hall.2, hall.1⟩
  show ((w.vecs ++ [c])[w.vecs.length]?).map (C12.view s') = (w.vecs[k]?).map (C12.view w.store)
  rw [List.getElem?_concat_length, hk, Option.map_some, Option.map_some, vw]; rfl

/-- the exported dictionary holds exactly the observable state (so a round-trip loses nothing) -/
theorem toDict_faithful (s : Store α) (v : Vec) (h : VecOk s v) :
    let d := toDict s v
    d.nval = v.n ∧ d.hit = v.hit ∧ d.checkBounds = v.checkBounds ∧ d.checkHit = v.checkHit
      ∧ d.acceptNan = v.acceptNan ∧ d.data.length = v.n
      ∧ d.data.map (·.name) = v.names ∧ d.data.map (·.value) = s.cells v.values
      ∧ d.data.map (·.min) = s.cells v.mins ∧ d.data.map (·.max) = s.cells v.maxs
      ∧ d.data.map (·.default) = s.cells v.defaults := by
  obtain ⟨il, i1, i2, i3, i4, i5⟩ := items_spec v.n v.names (s.cells v.values) (s.cells v.mins) (s.cells v.maxs)
    (s.cells v.defaults) rfl h.len_values h.len_mins h.len_maxs h.len_defaults
  exact ⟨rfl, rfl, rfl, rfl, rfl, il, i1, i2, i3, i4, i5⟩

/-- `copy.deepcopy` / `pickle` round-trip, when CPython's copy protocol succeeds, is `clone` (so `clone_spec` applies) -/
theorem pyCopy_spec (eps : α) (w : World α) (k : Nat) : step eps w (.pyCopy k true) = step eps w (.clone k) := by
  simp [step]

/-- COPIES, ALL HISTORIES: from any constructed vector, after ANY history (any mix of mutators, accessors, failing
operations, copies), cloning or round-tripping ANY live vector is accepted and yields a vector that shows exactly
the source's state in freshly allocated arrays, every other vector unchanged -/
theorem copies_exact_always {eps : α} (heps : EpsOk eps) (names : List String)
    (defaults mins maxs : Option (List (XR α))) (cb ch an : Bool) (w0 : World α)
    (e : init eps names defaults mins maxs cb ch an = .ok w0)
    (hmins : ∀ m, mins = some m → m.any XR.isNaN = false) (hmaxs : ∀ m, maxs = some m → m.any XR.isNaN = false)
    (ops : List (Op α)) (k : Nat) (v : Vec) (hk : (run eps w0 ops).vecs[k]? = some v) (viaDict : Bool) :
    let w := run eps w0 ops
    ∃ w' c, step eps w (if viaDict then .dictRT k else .clone k) = (w', .ok) ∧ w'.vecs = w.vecs ++ [c]
      ∧ w'.view w.vecs.length = w.view k ∧ (∀ r ∈ c.refs, w.store.next ≤ r)
      ∧ (∀ j, j < w.vecs.length → w'.view j = w.view j) ∧ WorldOk w' := by
  intro w
  have hw : WorldOk w := run_ok eps ops w0 (init_ok eps names defaults mins maxs cb ch an w0 e hmins hmaxs)
  cases viaDict
  · exact clone_spec heps w hw k v hk
  · exact dictRT_spec heps w hw k v hk

end copies

/-! ### transforms: read-only uses leave parameter values, constants and bounds unchanged -/
section transforms
variable {α : Type} [LinearOrder α] [Add α] [Sub α] [OfNat α 0]

/-- READ-ONLY USES: forward, backward, jacobian, params_sample, params_logprior, printing leave everything the
parameter vector and the constant vector show — values, bounds, defaults, names, flags, hit — exactly as it
was (the only write, for the classes that own an inner BoxCox2, goes to that inner object's fresh array) -/
theorem readonly_preserves (eps : α) (w : World α) (t : Trans) (op : TOp α) (hw : WorldOk w) (ht : t.wf)
    (hro : op.readOnly = true) :
    (tstep eps w t op).1.view t.params = w.view t.params
      ∧ (tstep eps w t op).1.view t.constants = w.view t.constants := by
  have hs : (sync eps w t).view t.params = w.view t.params ∧ (sync eps w t).view t.constants = w.view t.constants :=
    ⟨sync_view eps w t hw _ (Ne.symm ht.1), sync_view eps w t hw _ (Ne.symm ht.2)⟩
  cases op with
  | forward => exact hs
  | backward => exact hs
  | jacobian => exact hs
  | sample => exact ⟨rfl, rfl⟩
  | logprior => exact ⟨rfl, rfl⟩
  | print => exact ⟨rfl, rfl⟩
  | getItem nm => simp
  | getAttr nm => simp
  | setItem nm x => simp [TOp.readOnly] at hro
  | setAttr nm x => simp [TOp.readOnly] at hro
  | reset => simp [TOp.readOnly] at hro
  | setParams xs => simp [TOp.readOnly] at hro
  | setConstants xs => simp [TOp.readOnly] at hro

/-- any interleaving of read-only calls and assignments keeps the world of the transform well formed: its
parameter values stay inside their bounds, NaN only where allowed (the constants of BoxCox1lam/1nu, LogSinh,
Manly) -/
theorem tstep_ok (eps : α) (w : World α) (t : Trans) (op : TOp α) (hw : WorldOk w) :
    WorldOk (tstep eps w t op).1 := by
  cases op with
  | forward => exact sync_ok eps w t hw
  | backward => exact sync_ok eps w t hw
  | jacobian => exact sync_ok eps w t hw
  | sample => exact hw
  | logprior => exact hw
  | print => exact hw
  | getItem nm => simpa using hw
  | getAttr nm => simpa using hw
  | setItem nm x =>
    simp only [tstep]
    split
    · split
      · exact update_ok hw fun v s' v' hk e => setKey_effect (hw.each _ v hk) nm x e
      · split
        · exact update_ok hw fun v s' v' hk e => setKey_effect (hw.each _ v hk) nm x e
        · exact update_ok hw fun v s' v' hk e => setKey_effect (hw.each _ v hk) nm x e
    · exact hw
  | setAttr nm x =>
    simp only [tstep]
    split
    · split
      · exact update_ok hw fun v s' v' hk e => setAttr_effect (hw.each _ v hk) nm x e
      · split
        · exact update_ok hw fun v s' v' hk e => setAttr_effect (hw.each _ v hk) nm x e
        · exact hw
    · exact hw
  | reset => exact update_ok hw fun v s' v' hk e => reset_effect eps (hw.each _ v hk) e
  | setParams xs => exact update_ok hw fun v s' v' hk e => setAll_effect eps (hw.each _ v hk) xs e
  | setConstants xs => exact update_ok hw fun v s' v' hk e => setAll_effect eps (hw.each _ v hk) xs e

theorem trun_ok (eps : α) (t : Trans) (ops : List (TOp α)) : ∀ (w : World α), WorldOk w →
    WorldOk (ops.foldl (fun w op => (tstep eps w t op).1) w) := by
  induction ops with
  | nil => intro w hw; exact hw
  | cons op ops ih => intro w hw; exact ih _ (tstep_ok eps w t op hw)

/-- bounds, defaults, names and flags of the parameter and constant vectors (and of the inner BoxCox2) are the
same after ANY transform operation, assignments included -/
theorem tstep_frozen (eps : α) (w : World α) (t : Trans) (op : TOp α) (hw : WorldOk w) (j : Nat) :
    (tstep eps w t op).1.frozen j = w.frozen j := by
  have upd : ∀ (k : Nat) (f : Store α → Vec → (Store α × Vec) × Out),
      (∀ v s' v', w.vecs[k]? = some v → f w.store v = ((s', v'), .ok) → Assign w.store v s' v' ∧ VecOk s' v') →
      (w.update k f).1.frozen j = w.frozen j := by
    intro k f hf
    by_cases hjk : j = k
    · subst hjk; exact update_frozen_self hw hf
    · simp only [World.frozen]; rw [update_view_other hw hf j hjk]
  have hs : (sync eps w t).frozen j = w.frozen j := by
    unfold sync
    split
    · rfl
    · rename_i xs _
      exact upd _ _ fun v s' v' hk e => setAll_effect eps (hw.each t.bc v hk) xs e
  cases op with
  | forward => exact hs
  | backward => exact hs
  | jacobian => exact hs
  | sample => rfl
  | logprior => rfl
  | print => rfl
  | getItem nm => simp
  | getAttr nm => simp
  | setItem nm x =>
    simp only [tstep]
    split
    · split
      · exact upd _ _ fun v s' v' hk e => setKey_effect (hw.each _ v hk) nm x e
      · split
        · exact upd _ _ fun v s' v' hk e => setKey_effect (hw.each _ v hk) nm x e
        · exact upd _ _ fun v s' v' hk e => setKey_effect (hw.each _ v hk) nm x e
    · rfl
  | setAttr nm x =>
    simp only [tstep]
    split
    · split
      · exact upd _ _ fun v s' v' hk e => setAttr_effect (hw.each _ v hk) nm x e
      · split
        · exact upd _ _ fun v s' v' hk e => setAttr_effect (hw.each _ v hk) nm x e
        · rfl
    · rfl
  | reset => exact upd _ _ fun v s' v' hk e => reset_effect eps (hw.each _ v hk) e
  | setParams xs => exact upd _ _ fun v s' v' hk e => setAll_effect eps (hw.each _ v hk) xs e
  | setConstants xs => exact upd _ _ fun v s' v' hk e => setAll_effect eps (hw.each _ v hk) xs e

/-- a rejected assignment on a transform leaves the whole state untouched -/
theorem tstep_rejected_identity (eps : α) (w : World α) (t : Trans) (op : TOp α) (e : Err)
    (h : (tstep eps w t op).2 = .rejected e) : (tstep eps w t op).1 = w := by
  cases op with
  | forward => simp [tstep] at h
  | backward => simp [tstep] at h
  | jacobian => simp [tstep] at h
  | sample => rfl
  | logprior => rfl
  | print => rfl
  | getItem nm => simp
  | getAttr nm => simp
  | setItem nm x =>
    simp only [tstep] at h ⊢
    cases hp : w.vecs[t.params]? with
    | none => simp
    | some p =>
      cases hc : w.vecs[t.constants]? with
      | none => simp
      | some c =>
        simp only [hp, hc] at h ⊢
        by_cases h0 : c.n = 0
        · simp only [h0, if_true] at h ⊢; exact update_rejected w _ _ e h
        · simp only [h0, if_false] at h ⊢
          cases h1 : p.names.contains nm <;> simp only [h1, Bool.false_eq_true, if_false, if_true] at h ⊢ <;>
            exact update_rejected w _ _ e h
  | setAttr nm x =>
    simp only [tstep] at h ⊢
    cases hp : w.vecs[t.params]? with
    | none => simp
    | some p =>
      cases hc : w.vecs[t.constants]? with
      | none => simp
      | some c =>
        simp only [hp, hc] at h ⊢
        cases h0 : p.names.contains nm <;> simp only [h0, Bool.false_eq_true, if_false, if_true] at h ⊢
        · cases h1 : c.names.contains nm <;> simp only [h1, Bool.false_eq_true, if_false, if_true] at h ⊢
          · exact update_rejected w _ _ e h
        · exact update_rejected w _ _ e h
  | reset => exact update_rejected w _ _ e h
  | setParams xs => exact update_rejected w _ _ e h
  | setConstants xs => exact update_rejected w _ _ e h

theorem add_ok (eps : α) (w w' : World α) (sp : Spec α) (hw : WorldOk w) (e : World.add eps w sp = .ok w')
    (hmins : ∀ m, sp.mins = some m → m.any XR.isNaN = false)
    (hmaxs : ∀ m, sp.maxs = some m → m.any XR.isNaN = false) : WorldOk w' := by
  unfold World.add at e
  split at e
  · simp at e
  · rename_i s v emk
    simp only [Except.ok.injEq] at e; subst e
    obtain ⟨sp', ok, _⟩ := mk_ok emk hmins hmaxs
    exact (append_ok hw sp' ok).1

/-- a freshly constructed transform (parameter vector, constant vector, inner BoxCox2 parameters when the class
has one; bounds NaN-free as in every class of transform.py) is a well-formed world -/
theorem tinit_ok (eps : α) (p c : Spec α) (b : Option (Spec α)) (w : World α) (e : tinit eps p c b = .ok w)
    (hp : (∀ m, p.mins = some m → m.any XR.isNaN = false) ∧ (∀ m, p.maxs = some m → m.any XR.isNaN = false))
    (hc : (∀ m, c.mins = some m → m.any XR.isNaN = false) ∧ (∀ m, c.maxs = some m → m.any XR.isNaN = false))
    (hb : ∀ sb, b = some sb →
      (∀ m, sb.mins = some m → m.any XR.isNaN = false) ∧ (∀ m, sb.maxs = some m → m.any XR.isNaN = false)) :
    WorldOk w := by
  unfold tinit at e
  split at e
  · simp at e
  · rename_i w1 e1
    have ok1 := add_ok eps _ w1 p emptyWorld_ok e1 hp.1 hp.2
    split at e
    · simp at e
    · rename_i w2 e2
      have ok2 := add_ok eps _ w2 c ok1 e2 hc.1 hc.2
      split at e
      · simp only [Except.ok.injEq] at e; subst e; exact ok2
      · rename_i sb
        exact add_ok eps _ w sb ok2 e (hb sb rfl).1 (hb sb rfl).2

/-- READ-ONLY USES, ALL INTERLEAVINGS: from a freshly constructed transform, after ANY history of read-only calls
and (accepted or rejected) assignments, one more read-only call leaves params and constants exactly as they were -/
theorem readonly_preserves_always (eps : α) (p c : Spec α) (b : Option (Spec α)) (w : World α)
    (e : tinit eps p c b = .ok w)
    (hp : (∀ m, p.mins = some m → m.any XR.isNaN = false) ∧ (∀ m, p.maxs = some m → m.any XR.isNaN = false))
    (hc : (∀ m, c.mins = some m → m.any XR.isNaN = false) ∧ (∀ m, c.maxs = some m → m.any XR.isNaN = false))
    (hb : ∀ sb, b = some sb →
      (∀ m, sb.mins = some m → m.any XR.isNaN = false) ∧ (∀ m, sb.maxs = some m → m.any XR.isNaN = false))
    (kind : TKind) (history : List (TOp α)) (op : TOp α) (hro : op.readOnly = true) :
    let t : Trans := ⟨kind, 0, 1, 2⟩
    let w' := history.foldl (fun w op => (tstep eps w t op).1) w
    (tstep eps w' t op).1.view 0 = w'.view 0 ∧ (tstep eps w' t op).1.view 1 = w'.view 1 := by
  intro t w'
  have hw' : WorldOk w' := trun_ok eps t history w (tinit_ok eps p c b w e hp hc hb)
  exact readonly_preserves eps w' t op hw' ⟨(by show (2 : Nat) ≠ 0; decide), (by show (2 : Nat) ≠ 1; decide)⟩ hro

end transforms

/-! ### several live transforms: instances are independent objects -/
section instances
variable {α : Type} [LinearOrder α] [Add α] [Sub α] [OfNat α 0]

/-- FRAME FOR TRANSFORMS: any operation on a transform (read-only call or assignment) leaves every vector that is
not one of ITS OWN (params, constants, inner BoxCox2) exactly as it was -/
theorem tstep_frame (eps : α) (w : World α) (t : Trans) (op : TOp α) (hw : WorldOk w) (j : Nat) (hj : j ∉ t.idx) :
    (tstep eps w t op).1.view j = w.view j := by
  have hp : j ≠ t.params := fun h => hj (h ▸ t.params_mem_idx)
  have hc : j ≠ t.constants := fun h => hj (h ▸ t.constants_mem_idx)
  have hs : (sync eps w t).view j = w.view j := by
    by_cases hk : t.kind = .plain
    · rw [sync_plain eps w t hk]
    · exact sync_view eps w t hw j (fun h => hj (h ▸ t.bc_mem_idx hk))
  cases op with
  | forward => exact hs
  | backward => exact hs
  | jacobian => exact hs
  | sample => rfl
  | logprior => rfl
  | print => rfl
  | getItem nm => simp
  | getAttr nm => simp
  | setItem nm x =>
    simp only [tstep]
    split
    · split
      · exact update_view_other hw (fun v s' v' hk e => setKey_effect (hw.each _ v hk) nm x e) j hp
      · split
        · exact update_view_other hw (fun v s' v' hk e => setKey_effect (hw.each _ v hk) nm x e) j hp
        · exact update_view_other hw (fun v s' v' hk e => setKey_effect (hw.each _ v hk) nm x e) j hc
    · rfl
  | setAttr nm x =>
    simp only [tstep]
    split
    · split
      · exact update_view_other hw (fun v s' v' hk e => setAttr_effect (hw.each _ v hk) nm x e) j hp
      · split
        · exact update_view_other hw (fun v s' v' hk e => setAttr_effect (hw.each _ v hk) nm x e) j hc
        · rfl
    · rfl
  | reset => exact update_view_other hw (fun v s' v' hk e => reset_effect eps (hw.each _ v hk) e) j hp
  | setParams xs => exact update_view_other hw (fun v s' v' hk e => setAll_effect eps (hw.each _ v hk) xs e) j hp
  | setConstants xs => exact update_view_other hw (fun v s' v' hk e => setAll_effect eps (hw.each _ v hk) xs e) j hc

/-- the instance invariant is kept by every operation on every instance -/
theorem mstep_ok (eps : α) (m : MWorld α) (i : Nat) (op : TOp α) (hm : MOk m) : MOk (mstep eps m i op).1 := by
  unfold mstep
  split
  · exact hm
  · rename_i t ht
    exact { world := tstep_ok eps m.world t op hm.world
            wf := hm.wf
            lt := fun i' t' h j hj => by
              show j < (tstep eps m.world t op).1.vecs.length
              rw [tstep_length]; exact hm.lt i' t' h j hj
            sep := hm.sep }

/-- INDEPENDENT INSTANCES: an assignment or a read-only call on one transform instance changes nothing that any
OTHER live instance shows — same class or not: its params, constants, inner vector, values, bounds, defaults, flags -/
theorem mstep_independent (eps : α) (m : MWorld α) (i i' : Nat) (op : TOp α) (hm : MOk m) (t' : Trans)
    (hi' : m.insts[i']? = some t') (hne : i ≠ i') (j : Nat) (hj : j ∈ t'.idx) :
    (mstep eps m i op).1.world.view j = m.world.view j := by
  unfold mstep
  split
  · rfl
  · rename_i t ht
    exact tstep_frame eps m.world t op hm.world j (hm.sep i i' t t' ht hi' hne j hj)

/-- … and on the instance itself a read-only call changes nothing its params and constants show -/
theorem mstep_readonly (eps : α) (m : MWorld α) (i : Nat) (op : TOp α) (hm : MOk m) (t : Trans)
    (hi : m.insts[i]? = some t) (hro : op.readOnly = true) :
    (mstep eps m i op).1.world.view t.params = m.world.view t.params
      ∧ (mstep eps m i op).1.world.view t.constants = m.world.view t.constants := by
  unfold mstep
  simp only [hi]
  by_cases hk : t.kind = .plain
  · cases op with
    | getItem nm => simp
    | getAttr nm => simp
    | _ => first | (simp [TOp.readOnly] at hro; done) | simp [tstep, sync_plain eps m.world t hk]
  · exact readonly_preserves eps m.world t op hm.world (hm.wf i t hi hk) hro

/-- FRESH INSTANCE: constructing one more transform (any class) in a process that already holds instances — whatever
was assigned on them before — keeps the invariant, leaves every existing vector as it was, and the new instance's
params / constants / inner vector show their constructor defaults with the hit flag off -/
theorem madd_spec (eps : α) (m m' : MWorld α) (kind : TKind) (p c : Spec α) (b : Option (Spec α)) (hm : MOk m)
    (e : madd eps m kind p c b = .ok m')
    (hp : (∀ x, p.mins = some x → x.any XR.isNaN = false) ∧ (∀ x, p.maxs = some x → x.any XR.isNaN = false))
    (hc : (∀ x, c.mins = some x → x.any XR.isNaN = false) ∧ (∀ x, c.maxs = some x → x.any XR.isNaN = false))
    (hb : ∀ sb, b = some sb →
      (∀ x, sb.mins = some x → x.any XR.isNaN = false) ∧ (∀ x, sb.maxs = some x → x.any XR.isNaN = false)) :
    MOk m' ∧ (∀ j, j < m.world.vecs.length → m'.world.view j = m.world.view j)
      ∧ (∀ j, m.world.vecs.length ≤ j → j < m'.world.vecs.length →
          ∃ vw, m'.world.view j = some vw ∧ vw.values = vw.defaults ∧ vw.hit = false)
      ∧ m'.insts.length = m.insts.length + 1 := by
  unfold madd at e
  simp only at e
  split at e
  · simp at e
  · rename_i w1 e1
    obtain ⟨ok1, l1, k1, vw1, f1, g1, h1⟩ := add_spec eps _ w1 p hm.world e1 hp.1 hp.2
    split at e
    · simp at e
    · rename_i w2 e2
      obtain ⟨ok2, l2, k2, vw2, f2, g2, h2⟩ := add_spec eps _ w2 c ok1 e2 hc.1 hc.2
      -- facts shared by both branches
      have old2 : ∀ j, j < m.world.vecs.length → w2.view j = m.world.view j := by
        intro j hj; rw [k2 j (by omega), k1 j hj]
      have fresh2 : ∀ j, m.world.vecs.length ≤ j → j < w2.vecs.length →
          ∃ vw, w2.view j = some vw ∧ vw.values = vw.defaults ∧ vw.hit = false := by
        intro j h1' h2'
        have : j = m.world.vecs.length ∨ j = w1.vecs.length := by omega
        rcases this with rfl | rfl
        · exact ⟨vw1, by rw [k2 _ (by omega)]; exact f1, g1, h1⟩
        · exact ⟨vw2, f2, g2, h2⟩
      have mkOk : ∀ (w3 : World α) (t : Trans), WorldOk w3 → m.world.vecs.length + 2 ≤ w3.vecs.length →
          t.params = m.world.vecs.length → t.constants = m.world.vecs.length + 1 →
          t.bc = m.world.vecs.length + 2 → (t.kind ≠ .plain → m.world.vecs.length + 3 ≤ w3.vecs.length) →
          MOk ⟨w3, m.insts ++ [t]⟩ := by
        intro w3 t hw3 hlen hpp hcc hbb hk3
        have tidx : ∀ j ∈ t.idx, m.world.vecs.length ≤ j ∧ j < w3.vecs.length := by
          intro j hj
          unfold Trans.idx at hj
          cases hk : t.kind <;> simp only [hk, List.mem_cons, List.mem_singleton, List.not_mem_nil, or_false] at hj
          · rcases hj with h | h <;> omega
          all_goals (have := hk3 (by rw [hk]; simp); rcases hj with h | h | h <;> omega)
        have getI : ∀ (i : Nat) (u : Trans), (m.insts ++ [t])[i]? = some u →
            (i < m.insts.length ∧ m.insts[i]? = some u) ∨ (i = m.insts.length ∧ u = t) := by
          intro i u hu
          simp only [List.getElem?_append] at hu
          split at hu
          · rename_i h; exact Or.inl ⟨h, hu⟩
          · rename_i h
            have : i - m.insts.length = 0 ∨ 0 < i - m.insts.length := by omega
            rcases this with h0 | h0
            · simp only [h0, List.getElem?_cons_zero, Option.some.injEq] at hu; exact Or.inr ⟨by omega, hu.symm⟩
            · have : ([t] : List Trans)[i - m.insts.length]? = none := by
                apply List.getElem?_eq_none; simp; omega
              simp [this] at hu
        refine ⟨hw3, ?_, ?_, ?_⟩
        · intro i u hu hk
          rcases getI i u hu with ⟨_, h⟩ | ⟨_, rfl⟩
          · exact hm.wf i u h hk
          · constructor <;> omega
        · intro i u hu j hj
          rcases getI i u hu with ⟨_, h⟩ | ⟨_, rfl⟩
          · have := hm.lt i u h j hj
            show j < w3.vecs.length; omega
          · exact (tidx j hj).2
        · intro i i' u u' hu hu' hne j hj
          rcases getI i u hu with ⟨h1', h⟩ | ⟨h1', rfl⟩ <;> rcases getI i' u' hu' with ⟨h2', h'⟩ | ⟨h2', rfl⟩
          · exact hm.sep i i' u u' h h' hne j hj
          · intro hc'
            have := hm.lt i u h j hc'
            have := (tidx j hj).1; omega
          · intro hc'
            have := hm.lt i' u' h' j hj
            have := (tidx j hc').1; omega
          · omega
      split at e
      · rename_i hk
        simp only [Except.ok.injEq] at e; subst e
        exact ⟨mkOk w2 _ ok2 (by omega) rfl rfl rfl (by intro h; exact absurd rfl h), old2, fresh2, by simp⟩
      · rename_i hk
        split at e
        · simp at e
        · rename_i sb
          split at e
          · simp at e
          · rename_i w3 e3
            obtain ⟨ok3, l3, k3, vw3, f3, g3, h3⟩ := add_spec eps _ w3 sb ok2 e3 (hb sb rfl).1 (hb sb rfl).2
            simp only [Except.ok.injEq] at e; subst e
            refine ⟨mkOk w3 _ ok3 (by omega) rfl rfl rfl (by intro _; omega), ?_, ?_, by simp⟩
            · intro j hj; show w3.view j = _; rw [k3 j (by omega), old2 j hj]
            · intro j h1' h2'
              have h2'' : j < w3.vecs.length := h2'
              by_cases hlast : j = w2.vecs.length
              · subst hlast; exact ⟨vw3, f3, g3, h3⟩
              · obtain ⟨vw, a, b', c'⟩ := fresh2 j h1' (by omega)
                exact ⟨vw, by show w3.view j = _; rw [k3 j (by omega)]; exact a, b', c'⟩

theorem emptyM_ok : MOk (MWorld.empty : MWorld α) :=
  ⟨emptyWorld_ok, fun i t h => by simp [MWorld.empty] at h, fun i t h => by simp [MWorld.empty] at h,
   fun i i' t t' h => by simp [MWorld.empty] at h⟩

end instances

/-! ### the transform classes: constructors, class table, `get_transform`, histories over several instances -/
section classes
variable {α : Type} [LinearOrder α] [Add α] [Sub α] [OfNat α 0]

/-- BOUNDS NEVER CHANGE, ALL INTERLEAVINGS: after ANY history of transform operations (read-only calls, accepted and
rejected assignments, resets) every vector of the transform has the names, bounds, defaults and flags it had -/
theorem trun_frozen (eps : α) (t : Trans) (ops : List (TOp α)) : ∀ (w : World α), WorldOk w → ∀ j,
    (ops.foldl (fun w op => (tstep eps w t op).1) w).frozen j = w.frozen j := by
  induction ops with
  | nil => intro w _ j; rfl
  | cons op ops ih =>
    intro w hw j
    show (ops.foldl (fun w op => (tstep eps w t op).1) (tstep eps w t op).1).frozen j = w.frozen j
    rw [ih _ (tstep_ok eps w t op hw) j, tstep_frozen eps w t op hw j]

/-- CLASS CONSTRUCTORS, NO HYPOTHESIS ON THE BOUNDS: for every class of transform.py and every `mininu` / `minilam`
(finite, infinite or NaN) the constructor either raises or yields a well-formed transform: two vectors (three for the
classes that own an inner BoxCox2), each showing its defaults with the hit flag off. The "finite or infinite bounds"
hypothesis of `tinit_ok` is discharged from the classes' own guards (`classSpecs_nanFree`). -/
theorem cinit_ok (eps : α) (K : TConsts α) (cls : TClass) (a : CArgs α) (w : World α)
    (e : cinit eps K cls a = .ok w) :
    WorldOk w ∧ w.vecs.length = (if cls.kind = .plain then 2 else 3)
      ∧ ∀ j, j < w.vecs.length → ∃ vw, w.view j = some vw ∧ vw.values = vw.defaults ∧ vw.hit = false := by
  unfold cinit at e
  split at e
  · simp at e
  · rename_i p c b es
    obtain ⟨ap, ac, ab⟩ := tinit_accepts e
    obtain ⟨np, nc, nb⟩ := classSpecs_nanFree es ap ab
    have hkb := classSpecs_bc es
    unfold tinit at e
    split at e
    · simp at e
    · rename_i w1 e1
      obtain ⟨ok1, l1, k1, vw1, f1, g1, h1⟩ := add_spec eps _ w1 p emptyWorld_ok e1 np.1 np.2
      split at e
      · simp at e
      · rename_i w2 e2
        obtain ⟨ok2, l2, k2, vw2, f2, g2, h2⟩ := add_spec eps _ w2 c ok1 e2 nc.1 nc.2
        have l1' : w1.vecs.length = 1 := by simpa using l1
        have fresh2 : ∀ j, j < w2.vecs.length → ∃ vw, w2.view j = some vw ∧ vw.values = vw.defaults ∧ vw.hit = false := by
          intro j hj
          have : j = 0 ∨ j = w1.vecs.length := by omega
          rcases this with rfl | rfl
          · exact ⟨vw1, by rw [k2 _ (by omega)]; exact f1, g1, h1⟩
          · exact ⟨vw2, f2, g2, h2⟩
        split at e
        · simp only [Except.ok.injEq] at e; subst e
          have hk : cls.kind = .plain := by
            by_contra hne; have := hkb.mpr hne; simp at this
          exact ⟨ok2, by rw [l2, l1', if_pos hk], fresh2⟩
        · rename_i sb
          have hk : cls.kind ≠ .plain := hkb.mp rfl
          obtain ⟨ok3, l3, k3, vw3, f3, g3, h3⟩ := add_spec eps _ w sb ok2 e (nb sb rfl).1 (nb sb rfl).2
          refine ⟨ok3, by rw [l3, l2, l1', if_neg hk], ?_⟩
          intro j hj
          by_cases hlast : j = w2.vecs.length
          · subst hlast; exact ⟨vw3, f3, g3, h3⟩
          · obtain ⟨vw, a1, a2, a3⟩ := fresh2 j (by omega)
            exact ⟨vw, by rw [k3 j (by omega)]; exact a1, a2, a3⟩

/-- the class table is coherent: exactly the classes whose forward / backward / jacobian write to an inner BoxCox2 are
constructed with one, and the descriptor of such a transform keeps its three vectors apart -/
theorem class_table_coherent (K : TConsts α) (cls : TClass) (a : CArgs α) (p c : Spec α) (b : Option (Spec α))
    (e : classSpecs K cls a = .ok (p, c, b)) :
    (b.isSome = true ↔ cls.kind ≠ .plain) ∧ cls.trans.wf ∧ TClass.ofName? cls.name = some cls := by
  refine ⟨classSpecs_bc e, ⟨by show (2 : Nat) ≠ 0; decide, by show (2 : Nat) ≠ 1; decide⟩, ?_⟩
  cases cls <;> decide

/-- READ-ONLY USES, EVERY CLASS, ALL INTERLEAVINGS, NO HYPOTHESIS: for every class and constructor arguments the
constructor accepts, after ANY history of read-only calls (forward, backward, jacobian, sampling, scoring, printing,
item / attribute reads) and accepted or rejected assignments, one more read-only call leaves everything the parameter
vector and the constant vector show exactly as it was, and the names / bounds / defaults / flags of all the transform's
vectors are still those the constructor gave them -/
theorem class_readonly_always (eps : α) (K : TConsts α) (cls : TClass) (a : CArgs α) (w : World α)
    (e : cinit eps K cls a = .ok w) (history : List (TOp α)) (op : TOp α) (hro : op.readOnly = true) :
    let t := cls.trans
    let w' := history.foldl (fun w op => (tstep eps w t op).1) w
    WorldOk w' ∧ (tstep eps w' t op).1.view 0 = w'.view 0 ∧ (tstep eps w' t op).1.view 1 = w'.view 1
      ∧ ∀ j, (tstep eps w' t op).1.frozen j = w.frozen j := by
  intro t w'
  have hw : WorldOk w := (cinit_ok eps K cls a w e).1
  have hw' : WorldOk w' := trun_ok eps t history w hw
  obtain ⟨r0, r1⟩ := readonly_preserves eps w' t op hw'
    ⟨(by show (2 : Nat) ≠ 0; decide), (by show (2 : Nat) ≠ 1; decide)⟩ hro
  refine ⟨hw', r0, r1, ?_⟩
  intro j
  rw [tstep_frozen eps w' t op hw' j]
  exact trun_frozen eps t history w hw j

/-- `get_transform(name, **kwargs)`: when it returns, the object is a well-formed transform of the named class whose
vectors have exactly the names / bounds / defaults / flags of `Class(**constructor arguments)` — the remaining keywords
only assigned values (clipped like any assignment by key); an unknown name, a constructor guard or a rejected
assignment yields no object -/
theorem getTransform_ok (eps : α) (K : TConsts α) (name : String) (kw : List (String × XR α)) (cls : TClass)
    (w : World α) (e : getTransform eps K name kw = .ok (cls, w)) :
    TClass.ofName? name = some cls ∧ WorldOk w
      ∧ ∃ w0, cinit eps K cls (gtArgs K cls kw) = .ok w0 ∧ w.vecs.length = w0.vecs.length
          ∧ ∀ j, w.frozen j = w0.frozen j := by
  unfold getTransform at e
  split at e
  · simp at e
  · rename_i cls' hn
    split at e
    · simp at e
    · rename_i w0 e0
      split at e
      · simp at e
      · rename_i w1 e1
        simp only [Except.ok.injEq, Prod.mk.injEq] at e
        obtain ⟨rfl, rfl⟩ := e
        obtain ⟨o, l, f⟩ := gtAssignAll_ok _ (cinit_ok eps K cls' _ w0 e0).1 e1
        exact ⟨hn, o, w0, e0, l, f⟩

/-- … and the same after `get_transform`: whatever keywords built the object, after ANY history a read-only call leaves
params and constants as they were and the bounds are those of `Class(**constructor arguments)` -/
theorem getTransform_readonly_always (eps : α) (K : TConsts α) (name : String) (kw : List (String × XR α))
    (cls : TClass) (w : World α) (e : getTransform eps K name kw = .ok (cls, w)) (history : List (TOp α))
    (op : TOp α) (hro : op.readOnly = true) :
    let t := cls.trans
    let w' := history.foldl (fun w op => (tstep eps w t op).1) w
    WorldOk w' ∧ (tstep eps w' t op).1.view 0 = w'.view 0 ∧ (tstep eps w' t op).1.view 1 = w'.view 1
      ∧ ∃ w0, cinit eps K cls (gtArgs K cls kw) = .ok w0 ∧ ∀ j, (tstep eps w' t op).1.frozen j = w0.frozen j := by
  intro t w'
  obtain ⟨_, hw, w0, e0, _, f0⟩ := getTransform_ok eps K name kw cls w e
  have hw' : WorldOk w' := trun_ok eps t history w hw
  obtain ⟨r0, r1⟩ := readonly_preserves eps w' t op hw'
    ⟨(by show (2 : Nat) ≠ 0; decide), (by show (2 : Nat) ≠ 1; decide)⟩ hro
  refine ⟨hw', r0, r1, w0, e0, ?_⟩
  intro j
  rw [tstep_frozen eps w' t op hw' j]
  show (history.foldl (fun w op => (tstep eps w t op).1) w).frozen j = _
  rw [trun_frozen eps t history w hw j, f0 j]

/-- FRESH INSTANCE BY CLASS, NO HYPOTHESIS: `Class(**args)` in a process that already holds instances keeps the instance
invariant, leaves every existing vector as it was and starts from the constructor defaults with the hit flag off -/
theorem maddC_spec (eps : α) (K : TConsts α) (m m' : MWorld α) (cls : TClass) (a : CArgs α) (hm : MOk m)
    (e : maddC eps K m cls a = .ok m') :
    MOk m' ∧ (∀ j, j < m.world.vecs.length → m'.world.view j = m.world.view j)
      ∧ (∀ j, m.world.vecs.length ≤ j → j < m'.world.vecs.length →
          ∃ vw, m'.world.view j = some vw ∧ vw.values = vw.defaults ∧ vw.hit = false)
      ∧ m'.insts.length = m.insts.length + 1
      ∧ (∀ (i : Nat) (t : Trans), m.insts[i]? = some t → m'.insts[i]? = some t) := by
  unfold maddC at e
  split at e
  · simp at e
  · rename_i p c b es
    obtain ⟨ap, ac, ab⟩ := madd_accepts e (classSpecs_bc es)
    obtain ⟨np, nc, nb⟩ := classSpecs_nanFree es ap ab
    obtain ⟨h1, h2, h3, h4⟩ := madd_spec eps m m' cls.kind p c b hm e np nc nb
    refine ⟨h1, h2, h3, h4, ?_⟩
    · intro i t hi
      have hins : ∃ t', m'.insts = m.insts ++ [t'] := by
        unfold madd at e
        simp only at e
        split at e
        · simp at e
        · split at e
          · simp at e
          · split at e
            · simp only [Except.ok.injEq] at e; subst e; exact ⟨_, rfl⟩
            · split at e
              · simp at e
              · split at e
                · simp at e
                · simp only [Except.ok.injEq] at e; subst e; exact ⟨_, rfl⟩
      obtain ⟨t', ht'⟩ := hins
      rw [ht', List.getElem?_append_left (List.getElem?_eq_some_iff.mp hi).1]; exact hi

/-- every event of a multi-instance history — a construction by class (accepted or rejected) or an operation on one
instance — keeps the instance invariant; a rejected construction returns the very same process -/
theorem mstepC_ok (eps : α) (K : TConsts α) (m : MWorld α) (op : MOp α) (hm : MOk m) :
    MOk (mstepC eps K m op).1 ∧ (∀ e, (mstepC eps K m op).2 = .rejected e → ∀ cls a, op = .new cls a →
      (mstepC eps K m op).1 = m) := by
  cases op with
  | new cls a =>
    simp only [mstepC]
    cases h : maddC eps K m cls a with
    | error err => exact ⟨hm, fun _ _ _ _ _ => rfl⟩
    | ok m' => exact ⟨(maddC_spec eps K m m' cls a hm h).1, fun e he => by simp at he⟩
  | «at» i o => exact ⟨mstep_ok eps m i o hm, fun e _ cls a h => by cases h⟩

/-- INSTANCE INVARIANT, ALL HISTORIES -/
theorem mrun_ok (eps : α) (K : TConsts α) (ops : List (MOp α)) : ∀ (m : MWorld α), MOk m → MOk (mrun eps K m ops) := by
  induction ops with
  | nil => intro m hm; exact hm
  | cons op ops ih => intro m hm; exact ih _ (mstepC_ok eps K m op hm).1

/-- INDEPENDENT INSTANCES, ALL HISTORIES: whatever happens in the process — any number of constructions of any class
(accepted or rejected), any operations on OTHER instances, in any order — an instance that is not addressed shows,
on every one of its vectors, exactly what it showed -/
theorem instances_independent_always (eps : α) (K : TConsts α) (ops : List (MOp α)) :
    ∀ (m : MWorld α), MOk m → ∀ (i' : Nat) (t' : Trans), m.insts[i']? = some t' →
      (∀ i o, MOp.at i o ∈ ops → i ≠ i') →
      (mrun eps K m ops).insts[i']? = some t'
        ∧ ∀ j ∈ t'.idx, (mrun eps K m ops).world.view j = m.world.view j := by
  induction ops with
  | nil => intro m _ i' t' h _; exact ⟨h, fun _ _ => rfl⟩
  | cons op ops ih =>
    intro m hm i' t' hi' hno
    have hm1 := (mstepC_ok eps K m op hm).1
    have hno' : ∀ i o, MOp.at i o ∈ ops → i ≠ i' := fun i o h => hno i o (List.mem_cons_of_mem _ h)
    have key : (mstepC eps K m op).1.insts[i']? = some t'
        ∧ ∀ j ∈ t'.idx, (mstepC eps K m op).1.world.view j = m.world.view j := by
      cases op with
      | new cls a =>
        simp only [mstepC]
        cases h : maddC eps K m cls a with
        | error err => exact ⟨hi', fun _ _ => rfl⟩
        | ok m' =>
          obtain ⟨_, h2, _, _, h5⟩ := maddC_spec eps K m m' cls a hm h
          exact ⟨h5 i' t' hi', fun j hj => h2 j (hm.lt i' t' hi' j hj)⟩
      | «at» i o =>
        have hne : i ≠ i' := hno i o (List.mem_cons_self ..)
        refine ⟨?_, fun j hj => mstep_independent eps m i i' o hm t' hi' hne j hj⟩
        simp only [mstepC, mstep]
        split <;> exact hi'
    obtain ⟨k1, k2⟩ := key
    obtain ⟨r1, r2⟩ := ih _ hm1 i' t' k1 hno'
    exact ⟨r1, fun j hj => by
      show (mrun eps K (mstepC eps K m op).1 ops).world.view j = _
      rw [r2 j hj, k2 j hj]⟩

end classes

/-! ### an empty vector is inert (why the shared default `Vector([])` of `Transform.__init__` is not observable) -/
section noname
variable {α : Type} [LinearOrder α] [Add α] [Sub α] [OfNat α 0]

/-- A VECTOR WITHOUT NAMES SHOWS THE SAME THING WHATEVER IS DONE: every operation of the state machine, addressed to it
or to any other vector, accepted or rejected, leaves the view of a no-name vector (hit flag off, as after construction)
exactly as it was. `Transform.__init__(self, name, params=Vector([]), constants=Vector([]))` evaluates its default
arguments once, so all transforms without parameters / constants share ONE empty vector object; the model gives each
instance its own — by this theorem no history can tell the difference. -/
theorem noname_inert (eps : α) (w : World α) (hw : WorldOk w) (k : Nat) (v : Vec) (hk : w.vecs[k]? = some v)
    (hn : v.names = []) (hh : v.hit = false) (op : Op α) :
    (step eps w op).1.view k = w.view k ∧ ∃ v', (step eps w op).1.vecs[k]? = some v' ∧ v'.names = [] ∧ v'.hit = false := by
  have hklt : k < w.vecs.length := (List.getElem?_eq_some_iff.mp hk).1
  have ok := hw.each k v hk
  have hn0 : v.n = 0 := by simp [Vec.n, hn]
  have e1 : w.store.cells v.values = [] := List.eq_nil_of_length_eq_zero (by rw [ok.len_values, hn0])
  have e2 : w.store.cells v.mins = [] := List.eq_nil_of_length_eq_zero (by rw [ok.len_mins, hn0])
  have e3 : w.store.cells v.maxs = [] := List.eq_nil_of_length_eq_zero (by rw [ok.len_maxs, hn0])
  have e4 : w.store.cells v.defaults = [] := List.eq_nil_of_length_eq_zero (by rw [ok.len_defaults, hn0])
  have any3_nil : ∀ (p : XR α → XR α → XR α → Bool) (xs hi : List (XR α)), any3 p xs [] hi = false := by
    intro p xs hi; cases xs <;> simp [any3]
  -- an accepted assignment that keeps the names and ends with the hit flag off shows the same view
  have viewEq : ∀ (s' : Store α) (v' : Vec), Assign w.store v s' v' → VecOk s' v' → v'.hit = false →
      C12.view s' v' = C12.view w.store v := by
    intro s' v' a ok' hh'
    have hn0' : v'.n = 0 := by simp [Vec.n, a.names, hn]
    have f1 : s'.cells v'.values = [] := List.eq_nil_of_length_eq_zero (by rw [ok'.len_values, hn0'])
    have f2 : s'.cells v'.mins = [] := List.eq_nil_of_length_eq_zero (by rw [ok'.len_mins, hn0'])
    have f3 : s'.cells v'.maxs = [] := List.eq_nil_of_length_eq_zero (by rw [ok'.len_maxs, hn0'])
    have f4 : s'.cells v'.defaults = [] := List.eq_nil_of_length_eq_zero (by rw [ok'.len_defaults, hn0'])
    simp only [C12.view, View.mk.injEq]
    exact ⟨a.names, by rw [f1, e1], by rw [f2, e2], by rw [f3, e3], by rw [f4, e4], by rw [hh', hh],
      a.checkBounds, a.checkHit, a.acceptNan⟩
  -- the generic case of a mutator
  have upd : ∀ (f : Store α → Vec → (Store α × Vec) × Out),
      (∀ s' v', f w.store v = ((s', v'), .ok) → Assign w.store v s' v' ∧ VecOk s' v' ∧ v'.hit = false) →
      (w.update k f).1.view k = w.view k
        ∧ ∃ v', (w.update k f).1.vecs[k]? = some v' ∧ v'.names = [] ∧ v'.hit = false := by
    intro f hf
    simp only [World.update, hk]
    rcases hfe : f w.store v with ⟨⟨s', v'⟩, o⟩
    cases o with
    | rejected e' => exact ⟨rfl, v, hk, hn, hh⟩
    | ok =>
      obtain ⟨a, ok', hh'⟩ := hf s' v' hfe
      refine ⟨?_, v', by simp [hklt], by rw [a.names, hn], hh'⟩
      simp only [World.view, List.getElem?_set_self hklt, hk, Option.map_some, viewEq s' v' a ok' hh']
  have setAllCase : ∀ xs : List (XR α), ∀ s' v', setAll eps w.store v xs = ((s', v'), .ok) →
      Assign w.store v s' v' ∧ VecOk s' v' ∧ v'.hit = false := by
    intro xs s' v' e
    obtain ⟨a, ok'⟩ := setAll_effect eps ok xs e
    refine ⟨a, ok', ?_⟩
    unfold setAll at e
    split at e
    · simp at e
    · simp only [Prod.mk.injEq, and_true] at e
      obtain ⟨_, rfl⟩ := e
      simp [hitAll, e2, any3_nil]
  by_cases hne : k = op.target
  · cases op with
    | setAttr j nm x =>
      simp only [Op.target] at hne; subst hne
      exact upd _ fun s' v' e => by
        have : setAttr w.store v nm x = ((w.store, v), .ok) := by simp [setAttr, hn, indexOf]
        rw [this] at e
        simp only [Prod.mk.injEq, and_true] at e; obtain ⟨rfl, rfl⟩ := e
        exact ⟨Assign.refl _ _, ok, hh⟩
    | setKey j nm x =>
      simp only [Op.target] at hne; subst hne
      exact upd _ fun s' v' e => by simp [setKey, hn, indexOf] at e
    | setAll j xs =>
      simp only [Op.target] at hne; subst hne
      exact upd _ (setAllCase xs)
    | reset j =>
      simp only [Op.target] at hne; subst hne
      exact upd _ (setAllCase _)
    | clone j =>
      simp only [Op.target] at hne; subst hne
      refine ⟨(spawn_keeps_all eps w k hw k hklt).1, ?_⟩
      have hl := step_length_le eps w (.clone k)
      have hv := (spawn_keeps_all eps w k hw k hklt).1
      simp only [World.view, hk, Option.map_some] at hv
      cases hv' : (step eps w (.clone k)).1.vecs[k]? with
      | none => simp [hv'] at hv
      | some v' =>
        simp only [hv', Option.map_some, Option.some.injEq] at hv
        have := congrArg View.names hv
        have h2 := congrArg View.hit hv
        simp only [C12.view] at this h2
        exact ⟨v', rfl, by rw [this, hn], by rw [h2, hh]⟩
    | dictRT j =>
      simp only [Op.target] at hne; subst hne
      refine ⟨(spawn_keeps_all eps w k hw k hklt).2, ?_⟩
      have hv := (spawn_keeps_all eps w k hw k hklt).2
      simp only [World.view, hk, Option.map_some] at hv
      cases hv' : (step eps w (.dictRT k)).1.vecs[k]? with
      | none => simp [hv'] at hv
      | some v' =>
        simp only [hv', Option.map_some, Option.some.injEq] at hv
        have := congrArg View.names hv
        have h2 := congrArg View.hit hv
        simp only [C12.view] at this h2
        exact ⟨v', rfl, by rw [this, hn], by rw [h2, hh]⟩
    | getKey j nm => simp only [step, peek_fst]; exact ⟨trivial, v, hk, hn, hh⟩
    | getAttr j nm => simp only [step, peek_fst]; exact ⟨trivial, v, hk, hn, hh⟩
    | read j => simp only [step, peek_fst]; exact ⟨trivial, v, hk, hn, hh⟩
    | setBad j => simp only [step, peek_fst]; exact ⟨trivial, v, hk, hn, hh⟩
    | pyCopy j works =>
      simp only [Op.target] at hne; subst hne
      cases works
      · simp only [step, Bool.false_eq_true, if_false, peek_fst]; exact ⟨trivial, v, hk, hn, hh⟩
      · rw [pyCopy_spec]
        refine ⟨(spawn_keeps_all eps w k hw k hklt).1, ?_⟩
        have hv := (spawn_keeps_all eps w k hw k hklt).1
        simp only [World.view, hk, Option.map_some] at hv
        cases hv' : (step eps w (.clone k)).1.vecs[k]? with
        | none => simp [hv'] at hv
        | some v' =>
          simp only [hv', Option.map_some, Option.some.injEq] at hv
          have := congrArg View.names hv
          have h2 := congrArg View.hit hv
          simp only [C12.view] at this h2
          exact ⟨v', rfl, by rw [this, hn], by rw [h2, hh]⟩
  · have hv := step_frame eps w op hw k hklt hne
    refine ⟨hv, ?_⟩
    simp only [World.view, hk, Option.map_some] at hv
    cases hv' : (step eps w op).1.vecs[k]? with
    | none => simp [hv'] at hv
    | some v' =>
      simp only [hv', Option.map_some, Option.some.injEq] at hv
      have := congrArg View.names hv
      have h2 := congrArg View.hit hv
      simp only [C12.view] at this h2
      exact ⟨v', rfl, by rw [this, hn], by rw [h2, hh]⟩

end noname

/-! ### the margin arithmetic: exact or rounded, the theorems only need `EpsOk` -/
section rounding

/-- in an ordered additive group every non-negative margin satisfies `EpsOk` (the setting of the earlier statements) -/
theorem epsOk_of_nonneg {α : Type} [LinearOrder α] [AddCommGroup α] [IsOrderedAddMonoid α] {eps : α} (h : 0 ≤ eps) :
    EpsOk eps := EpsOk.of_nonneg h

/-- ROUNDED ARITHMETIC: let `+` and `-` be the exact operations of an ordered group followed by ANY rounding that is
monotone and leaves representable values alone (IEEE-754 round-to-nearest, toward zero, up, down …), on the type of
representable values. A non-negative margin still satisfies `EpsOk`: `mins - EPS ≤ mins` and `maxs ≤ maxs + EPS` survive
rounding (possibly as equalities: `1e8 + 1e-10 == 1e8`). Hence every theorem of this file stated with `EpsOk` holds for
float-like arithmetic, not only for exact arithmetic. -/
theorem epsOk_of_rounding {β : Type} [LinearOrder β] [AddCommGroup β] [IsOrderedAddMonoid β] (R : Rounding β)
    (eps : R.Fl) (h : (0 : β) ≤ eps.1) : EpsOk eps := EpsOk.of_rounding R eps h

/-- the hit-flag clause for whole-vector assignment under rounded arithmetic (instance of `setAll_hit_exact`) -/
theorem setAll_hit_exact_rounded {β : Type} [LinearOrder β] [AddCommGroup β] [IsOrderedAddMonoid β] (R : Rounding β)
    (eps : R.Fl) (h : (0 : β) ≤ eps.1) {s s' : Store R.Fl} {v v' : Vec} (hv : VecOk s v) (xs : List (XR R.Fl))
    (e : setAll eps s v xs = ((s', v'), .ok))
    (hr : all3 (XR.inRegion eps) xs (s.cells v.mins) (s.cells v.maxs) = true) :
    s'.cells v'.values = clipAll xs (s.cells v.mins) (s.cells v.maxs)
      ∧ (v'.hit = true ↔ v.checkHit = true ∧ s'.cells v'.values ≠ xs) := by
  obtain ⟨h1, _, h3⟩ := setAll_hit_exact (epsOk_of_rounding R eps h) hv xs e hr
  exact ⟨h1, h3⟩

/-- clones / dictionary round-trips under rounded arithmetic (instance of `clone_spec` / `dictRT_spec`): the
constructor's own hit test `mins - EPS`, `maxs + EPS` never rejects the data of a live vector -/
theorem copies_exact_rounded {β : Type} [LinearOrder β] [AddCommGroup β] [IsOrderedAddMonoid β] (R : Rounding β)
    (eps : R.Fl) (h : (0 : β) ≤ eps.1) (w : World R.Fl) (hw : WorldOk w) (k : Nat) (v : Vec)
    (hk : w.vecs[k]? = some v) (viaDict : Bool) :
    ∃ w' c, step eps w (if viaDict then .dictRT k else .clone k) = (w', .ok) ∧ w'.vecs = w.vecs ++ [c]
      ∧ w'.view w.vecs.length = w.view k ∧ (∀ j, j < w.vecs.length → w'.view j = w.view j) ∧ WorldOk w' := by
  cases viaDict
  · obtain ⟨w', c, a1, a2, a3, _, a5, a6⟩ := clone_spec (epsOk_of_rounding R eps h) w hw k v hk
    exact ⟨w', c, a1, a2, a3, a5, a6⟩
  · obtain ⟨w', c, a1, a2, a3, _, a5, a6⟩ := dictRT_spec (epsOk_of_rounding R eps h) w hw k v hk
    exact ⟨w', c, a1, a2, a3, a5, a6⟩

end rounding

/-! ### the two hypotheses the theorems carry are needed (counterexamples on the model; the harness probes the real
code at the same excluded points: streams `margin` and `nanbounds`) -/
section needed

/-- one name, bounds [0, 10], hit checking on -/
def cexW : World Int :=
  match init (1 : Int) ["a"] (some [.fin 5]) (some [.fin 0]) (some [.fin 10]) true true false with
  | .ok w => w
  | .error _ => ⟨Store.empty, []⟩

/-- one name, `mins=[nan]`, `accept_nan=True` -/
def cexN : World Int :=
  match init (1 : Int) ["a"] none (some [.nan]) none true false true with
  | .ok w => w
  | .error _ => ⟨Store.empty, []⟩

/-- THE CONDITIONING OF THE HIT CLAUSE IS NEEDED: inside the margin (here `-1` against the bound `0` with margin `1`)
a whole-vector assignment is accepted and CLIPPED (`0` is stored) while the flag stays off — `step_setAll_exact`
without `inRegion` is false. (The attribute path has no margin: `setAttr_hit_exact` carries no such hypothesis.) -/
theorem inRegion_needed :
    WorldOk cexW ∧ ∃ vw vw', cexW.view 0 = some vw ∧ (step 1 cexW (.setAll 0 [.fin (-1)])).2 = .ok
      ∧ (step 1 cexW (.setAll 0 [.fin (-1)])).1.view 0 = some vw'
      ∧ all3 (XR.inRegion 1) [.fin (-1)] vw.mins vw.maxs = false
      ∧ ¬ (vw'.hit = true ↔ vw.checkHit = true ∧ vw'.values ≠ [.fin (-1)]) := by
  refine ⟨init_ok (1 : Int) ["a"] (some [.fin 5]) (some [.fin 0]) (some [.fin 10]) true true false cexW (by rfl)
    (by intro m h; cases h; decide) (by intro m h; cases h; decide), ?_⟩
  refine ⟨⟨["a"], [.fin 5], [.fin 0], [.fin 10], [.fin 5], false, true, true, false⟩,
    ⟨["a"], [.fin 0], [.fin 0], [.fin 10], [.fin 5], false, true, true, false⟩, by decide, by decide, by decide,
    by decide, by decide⟩

/-- THE "FINITE OR INFINITE BOUNDS" HYPOTHESIS IS NEEDED: with `accept_nan=True` the constructor accepts a NaN bound
(`__checkvalues__` lets it through), and the resulting vector is NOT well formed: its bounds are not an interval and
its default is `clip(0, nan, inf) = nan` -/
theorem nanFree_bounds_needed :
    init (1 : Int) ["a"] none (some [.nan]) none true false true = .ok cexN ∧ ¬ WorldOk cexN
      ∧ (cexN.view 0).map (fun v => (v.mins, v.defaults, v.ok)) = some ([.nan], [.nan], false) := by
  refine ⟨by rfl, ?_, by decide⟩
  intro hw
  have hb := (hw.each 0 ⟨["a"], 3, 0, 1, 2, false, true, false, true⟩ (by decide)).bounds
  revert hb
  decide

end needed

/-! ### the hypotheses are satisfiable: concrete, non-trivial instances over `Int` -/
section examples

/-- a 2-name vector with half-infinite bounds, hit checking on, NaN allowed; the history assigns out of bounds by
key, clones, assigns a NaN by attribute on the clone, round-trips it and resets the original -/
def exInit : Except Err (World Int) :=
  init (1 : Int) ["a", "b"] (some [.fin 5, .nan]) (some [.fin 0, .ninf]) (some [.fin 10, .pinf]) true true true

def exOps : List (Op Int) :=
  [.setKey 0 "a" (.fin 50), .clone 0, .setAttr 1 "b" .nan, .getKey 1 "zz", .dictRT 1, .reset 0, .read 0,
   .setAll 0 [.fin 3], .setBad 2, .pyCopy 0 false, .getAttr 2 "a", .setAll 1 [.fin (-4), .pinf]]

example : (match exInit with
    | .ok w => ((run 1 w exOps).vecs.length, (run 1 w exOps).view 0 |>.map (·.values),
                (run 1 w exOps).view 1 |>.map (fun v => (v.values, v.hit)), (run 1 w exOps).view 2 |>.map (·.hit))
    | .error _ => (0, none, none, none))
    = (3, some [.fin 5, .nan], some ([.fin 0, .pinf], true), some false) := by decide

/-- `init_ok`'s hypotheses hold for it (NaN-free bounds) -/
example : (∀ m, (some [XR.fin (0 : Int), .ninf]) = some m → m.any XR.isNaN = false) := by
  intro m h; cases h; decide

/-- the region hypothesis of `setAll_hit_exact` is met by an assignment that IS clipped -/
example : all3 (XR.inRegion (1 : Int)) [.fin 50, .nan] [.fin 0, .ninf] [.fin 10, .pinf] = true := by decide

/-- a well-formed transform descriptor (params 0, constants 1, inner BoxCox2 2) -/
example : (⟨.bc1lam, 0, 1, 2⟩ : Trans).wf := by constructor <;> decide

/-- `tinit_ok` / `readonly_preserves_always`: a BoxCox1lam-like transform world is constructible, and a
forward call after an assignment re-syncs the inner vector while params / constants stay put -/
def exT : Except Err (World Int) :=
  tinit (1 : Int) ⟨["lam"], some [.fin 1], some [.fin 0], some [.fin 3], true, false, false⟩
    ⟨["nu"], some [.nan], some [.fin 0], some [.pinf], true, false, true⟩
    (some ⟨["nu", "lam"], some [.fin 0, .fin 1], some [.fin 0, .fin 0], some [.pinf, .fin 3], true, false, false⟩)

example : (match exT with
    | .ok w =>
      let t : Trans := ⟨.bc1lam, 0, 1, 2⟩
      let w1 := (tstep 1 w t (.setItem "nu" (.fin 7))).1
      let w2 := (tstep 1 w1 t (.setAttr "lam" (.fin 9))).1
      let w3 := (tstep 1 w2 t .forward).1
      (w3.vecs.length, w3.view 0 |>.map (·.values), w3.view 1 |>.map (·.values), w3.view 2 |>.map (·.values))
    | .error _ => (0, none, none, none))
    = (3, some [.fin 3], some [.fin 7], some [.fin 7, .fin 3]) := by decide

/-- `MOk` / `madd_spec` / `mstep_independent`: two LogSinh/Manly-like instances and a fresh one after an assignment -/
def exM : Except Err (MWorld Int) :=
  let p : Spec Int := ⟨["lam"], some [.fin 1], some [.fin (-5)], some [.fin 5], true, false, false⟩
  let c : Spec Int := ⟨["xmax"], some [.nan], some [.fin 0], some [.pinf], true, false, true⟩
  match madd 1 MWorld.empty .plain p c none with
  | .error e => .error e
  | .ok m1 => match madd 1 m1 .plain p c none with
    | .error e => .error e
    | .ok m2 => madd 1 (mstep 1 m2 0 (.setItem "xmax" (.fin 7))).1 .plain p c none

example : (match exM with
    | .ok m => (m.insts.length, m.world.view 1 |>.map (·.values), m.world.view 3 |>.map (·.values),
                m.world.view 5 |>.map (·.values))
    | .error _ => (0, none, none, none)) = (3, some [.fin 7], some [.nan], some [.nan]) := by decide

/-- a float-like rounding on `Int`: exact below 8 in magnitude, multiples of 4 beyond — `12 - 1` rounds to `8` and
`12 + 1` is absorbed (`= 12`), as `1e8 + 1e-10 == 1e8` in double precision; `EpsOk 1` holds all the same -/
def exR : Rounding Int where
  rnd := fun x => if 8 ≤ x ∨ x ≤ -8 then 4 * (x / 4) else x
  mono := by intro x y h; split_ifs <;> omega
  idem := by intro x; split_ifs <;> omega
  zero := by decide

example : EpsOk (exR.toFl 1 (by decide)) := epsOk_of_rounding exR _ (by decide)
example : (exR.toFl 12 (by decide) + exR.toFl 1 (by decide)).1 = 12
    ∧ (exR.toFl 12 (by decide) - exR.toFl 1 (by decide)).1 = 8 := by decide

/-- transform.py's literals, scaled by 10 so that they are integers (EPS and 1e-5 become 1) -/
def exK : TConsts Int := ⟨1, 1, 1, 0, 10, 30, 50, 100, -10, -30, -50, -100, -200⟩

/-- `cinit_ok` / `class_readonly_always`: BoxCox1lam(mininu=2) is accepted; after `nu = 7`, `lam = 90` (clipped to 3.0)
and a forward call, the inner vector is re-synced and params / constants are untouched -/
def exC : World Int :=
  match cinit (1 : Int) exK .boxcox1lam ⟨.fin 2, .fin 0⟩ with
  | .ok w => [TOp.setItem "nu" (.fin 7), .setAttr "lam" (.fin 90), .getItem "zz", .forward].foldl
      (fun w op => (tstep 1 w TClass.boxcox1lam.trans op).1) w
  | .error _ => ⟨Store.empty, []⟩

example : (exC.vecs.length, exC.view 0 |>.map (·.values), exC.view 1 |>.map (·.values), exC.view 2 |>.map (·.values))
    = (3, some [.fin 30], some [.fin 7], some [.fin 7, .fin 30]) := by decide
example : (treadItem exC TClass.boxcox1lam.trans "nu", (tstep 1 exC TClass.boxcox1lam.trans (.getItem "zz")).2,
      (tstep 1 exC TClass.boxcox1lam.trans (.getAttr "lam")).2)
    = (some (.fin 7), .rejected .unknownKey, .ok) := by decide

/-- the constructor guards: `minilam < -3` and a NaN `mininu` are rejected, by every class that has the argument -/
example : (cinit (1 : Int) exK .boxcox2 ⟨.fin 2, .fin (-40)⟩).toOption.isNone
    ∧ (cinit (1 : Int) exK .boxcox1nu ⟨.nan, .fin 0⟩).toOption.isNone
    ∧ (cinit (1 : Int) exK .log ⟨.nan, .fin 0⟩).toOption.isNone
    ∧ (cinit (1 : Int) exK .log ⟨.pinf, .nan⟩).toOption.isSome := by decide

/-- `getTransform_ok`: constructor arguments are split off, parameter and constant values assigned (clipped), foreign
keywords skipped; an unknown name or a NaN for a parameter yields no object -/
example : ((getTransform (1 : Int) exK "BoxCox1nu"
        ([("mininu", .fin 2), ("nu", .fin 0), ("lam", .fin 20), ("zz", .nan)] : List (String × XR Int))).toOption.map
      fun r => (r.1, r.2.view 0 |>.map (·.values), r.2.view 1 |>.map (·.values)))
    = some (.boxcox1nu, some [.fin 2], some [.fin 20])
    ∧ (getTransform (1 : Int) exK "Nope" []).toOption.isNone
    ∧ (getTransform (1 : Int) exK "Log" ([("nu", .nan)] : List (String × XR Int))).toOption.isNone
    ∧ (getTransform (1 : Int) exK "Logit" ([("mininu", .nan)] : List (String × XR Int))).toOption.isSome := by decide

/-- `mrun_ok` / `instances_independent_always`: two Manly instances and a LogSinh, a rejected BoxCox2 in between, writes
on instance 0 only: instances 1 and 2 still show their constructor state -/
def exMR : MWorld Int := mrun (1 : Int) exK MWorld.empty
  [.new .manly (CArgs.default exK), .new .manly (CArgs.default exK), .at 0 (.setItem "xmax" (.fin 7)),
   .new .boxcox2 ⟨.fin 1, .fin (-50)⟩, .new .logsinh (CArgs.default exK), .at 0 (.setParams [.fin 99]), .at 0 .forward]

example : (exMR.insts.length, exMR.world.view 0 |>.map (·.values), exMR.world.view 1 |>.map (·.values))
    = (3, some [.fin 50], some [.fin 7]) := by decide
example : (exMR.world.view 3 |>.map (·.values), exMR.world.view 5 |>.map (·.values)) = (some [.nan], some [.nan]) := by
  decide

/-- `noname_inert`: the empty vector of an Identity transform after assignments addressed to it -/
example : (match cinit (1 : Int) exK .identity (CArgs.default exK) with
    | .ok w => decide ((run 1 w [.setAll 1 [], .setAttr 1 "zz" (XR.fin 3), .reset 1, .setAll 1 [XR.fin 1]]).view 1 = w.view 1)
    | .error _ => false) = true := by decide

end examples

end HydroVerif.C12
