/-
C12 — property theorems (only). Model: `HydroVerif/Model/C12.lean`; invariants (`VecOk`, `WorldOk`) and
helper lemmas: `HydroVerif/Lemmas/C12.lean`.

The state machine: a `World` = an array store + the list of live vectors; `step` applies one operation to the
`k`-th vector; `run` folds a whole history. `step` has a case for EVERY public entry point of `Vector`:
  mutators   `setAttr` (`v.a = x`), `setKey` (`v["a"] = x`), `setAll` (`v.values = xs`), `reset`, `setBad`
             (a value `float()` rejects, on any of the three paths)
  copies     `clone`, `dictRT` (`from_dict(to_dict())`), `pyCopy` (`copy.deepcopy` / `pickle`: external protocol,
             rejected on the pinned class, a deep copy when it works)
  accessors  `getKey` (`v["a"]`), `getAttr` (`v.a`), `read` (`to_dict`, `to_series`, `str`, all property getters)
  constructor `init` (all argument combinations given / omitted), and for transforms `tinit` / `tstep`.
Values are `XR α` (NaN, ±∞, finite `α`); the theorems hold for every linearly ordered `α` (the driver runs
`α = Float`), the ones about the `EPS` margin for every linearly ordered additive group and every `0 ≤ eps`.

CLAUSE → THEOREMS (what stays outside)
 1 values always within bounds, any history ............ init_ok, step_ok, run_ok, worldOk_view_ok,
                                                          values_within_bounds_always        (—)
 2 NaN stored only when explicitly allowed .............. same invariant (`valuesOk`), failing_assignments_rejected (—)
 3 a rejected assignment leaves the state untouched ..... rejected_identity (no hypothesis; the SAME world is
                                                          returned), tstep_rejected_identity; which assignments are
                                                          rejected: failing_assignments_rejected, accessors_identity
                                                          (exception class / message text: not modelled)
 4 names, bounds, defaults never change ................. step_frozen, run_frozen, tstep_frozen
                                                          (names are an immutable list in the model: no entry point
                                                          writes `_names`; in-place edits by the CALLER through the
                                                          aliased getters are outside the operation set)
 5 hit flag == latest assignment was clipped ............ setAttr_hit_exact, setAll_hit_exact, reset_exact,
                                                          step_setAttr_exact, step_setAll_exact, step_reset_exact,
                                                          whole_assignment_exact_always
                                                          (flag is maintained only when check_hitbounds: theorems state
                                                          hit = check_hitbounds ∧ clipped; inside the (0, EPS] margin
                                                          the two code paths differ: excluded by the property's own
                                                          conditioning = hypothesis `inRegion`)
 6 clones / dict round-trips = full state, independent .. clone_spec, dictRT_spec, toDict_faithful, copies_exact_always,
                                                          pyCopy_spec, storage_disjoint_always, step_frame,
                                                          spawn_keeps_all                      (—)
 7 read-only transform uses keep params/constants/bounds  readonly_preserves, readonly_preserves_always, tstep_ok,
                                                          trun_ok, tinit_ok, add_ok, tstep_frozen; several live
                                                          instances (independent objects, fresh instance at its
                                                          defaults): tstep_frame, mstep_ok, mstep_independent,
                                                          mstep_readonly, madd_spec
                                                          (which class performs which inner write is a 4-way table
                                                          `TKind` checked by the correspondence; numerical results of
                                                          forward/backward/jacobian are C01/C02)
 quantifier: 0..4 names (any length here), finite/infinite bounds (hypothesis: NaN-free bounds), all flags, all
 histories (induction over `List Op`), every transform class (via `TKind`), all interleavings (`List TOp`).
-/
import HydroVerif.Lemmas.C12
import Mathlib.Algebra.Order.Group.Int

set_option linter.unusedSectionVars false
set_option linter.unusedVariables false
set_option linter.unusedSimpArgs false

namespace HydroVerif.C12

section order
variable {α : Type} [LinearOrder α] [Add α] [Sub α] [OfNat α 0]

/-! ### construction establishes the invariant -/

/-- `Vector(names, defaults, mins, maxs, flags)` with NaN-free bounds (the property's "finite or infinite
bounds"), whenever the constructor accepts: the world made of that one vector is well formed — values inside
the bounds (NaN only if allowed), real intervals, unique names, consistent flags, four distinct arrays. -/
theorem init_ok (eps : α) (names : List String) (defaults mins maxs : Option (List (XR α))) (cb ch an : Bool)
    (w : World α) (e : init eps names defaults mins maxs cb ch an = .ok w)
    (hmins : ∀ m, mins = some m → m.any XR.isNaN = false)
    (hmaxs : ∀ m, maxs = some m → m.any XR.isNaN = false) : WorldOk w := by
  unfold init at e
  split at e
  · simp at e
  · rename_i s v emk
    simp only [Except.ok.injEq] at e; subst e
    obtain ⟨_, ok, _⟩ := mk_ok emk hmins hmaxs
    refine ⟨?_, ?_⟩
    · intro k u hu
      cases k with
      | zero => simp at hu; subst hu; exact ok
      | succ k => simp at hu
    · intro i j vi vj hi hj hij
      cases i <;> cases j <;> simp_all

/-- a fresh vector holds its defaults, its hit flag is off, and it carries the flags it was given -/
theorem init_view (eps : α) (names : List String) (defaults mins maxs : Option (List (XR α))) (cb ch an : Bool)
    (w : World α) (e : init eps names defaults mins maxs cb ch an = .ok w) :
    ∃ vw, w.view 0 = some vw ∧ vw.values = vw.defaults ∧ vw.hit = false ∧ vw.names = names
      ∧ vw.checkBounds = cb ∧ vw.checkHit = ch ∧ vw.acceptNan = an := by
  unfold init at e
  split at e
  · simp at e
  · rename_i s v emk
    simp only [Except.ok.injEq] at e; subst e
    unfold mk at emk
    split at emk
    · simp at emk
    · rename_i lo hi d _
      simp only [Except.ok.injEq] at emk
      have e2 := congrArg Prod.snd emk
      have e1 := congrArg Prod.fst emk
      simp only at e1 e2
      subst e1; subst e2
      refine ⟨_, rfl, ?_, rfl, rfl, rfl, rfl, rfl⟩
      simp [view, mkFrom, Store.alloc]

/-! ### every operation preserves the invariant; hence every history does -/

/-- INVARIANT STEP: whatever the operation (accepted or rejected, on whichever vector), a well-formed world
stays well formed -/
theorem step_ok (eps : α) (w : World α) (op : Op α) (hw : WorldOk w) : WorldOk (step eps w op).1 := by
  cases op with
  | setAttr k nm x => exact update_ok hw fun v s' v' hk e => setAttr_effect (hw.each k v hk) nm x e
  | setKey k nm x => exact update_ok hw fun v s' v' hk e => setKey_effect (hw.each k v hk) nm x e
  | setAll k xs => exact update_ok hw fun v s' v' hk e => setAll_effect eps (hw.each k v hk) xs e
  | reset k => exact update_ok hw fun v s' v' hk e => reset_effect eps (hw.each k v hk) e
  | clone k => exact (spawn_ok hw fun v s' c hk e => clone_effect eps (hw.each k v hk) e).1
  | dictRT k => exact (spawn_ok hw fun v s' c hk e => dictRT_effect eps (hw.each k v hk) e).1
  | getKey k nm => simpa [step] using hw
  | getAttr k nm => simpa [step] using hw
  | read k => simpa [step] using hw
  | setBad k => simpa [step] using hw
  | pyCopy k works =>
    cases works
    · simpa [step] using hw
    · simp only [step, if_true]
      exact (spawn_ok hw fun v s' c hk e => clone_effect eps (hw.each k v hk) e).1

/-- INVARIANT, ALL HISTORIES: after any sequence of operations of any length -/
theorem run_ok (eps : α) (ops : List (Op α)) : ∀ (w : World α), WorldOk w → WorldOk (run eps w ops) := by
  induction ops with
  | nil => intro w hw; exact hw
  | cons op ops ih => intro w hw; exact ih _ (step_ok eps w op hw)

/-- DISJOINT STORAGE, ALL HISTORIES: in every reachable state no array is shared between two live vectors
(original, clones, round-trips), and within one vector values / mins / maxs / defaults are four different arrays -/
theorem storage_disjoint_always (eps : α) (ops : List (Op α)) (w : World α) (hw : WorldOk w) :
    (∀ (i j : Nat) (vi vj : Vec), (run eps w ops).vecs[i]? = some vi → (run eps w ops).vecs[j]? = some vj → i ≠ j →
        ∀ r ∈ vi.refs, r ∉ vj.refs)
    ∧ (∀ (k : Nat) (v : Vec), (run eps w ops).vecs[k]? = some v → v.refs.Nodup) :=
  ⟨(run_ok eps ops w hw).sep, fun k v h => ((run_ok eps ops w hw).each k v h).nodup⟩

/-- what the invariant says about the observable state of each vector: values and defaults inside
`[mins, maxs]` or NaN-with-permission, bounds real intervals (`View.ok` is the executable form the driver
also reports) -/
theorem worldOk_view_ok (w : World α) (hw : WorldOk w) (k : Nat) (vw : View α) (h : w.view k = some vw) :
    vw.ok = true := by
  unfold World.view at h
  cases hk : w.vecs[k]? with
  | none => simp [hk] at h
  | some v =>
    simp only [hk, Option.map_some, Option.some.injEq] at h
    subst h
    have ok := hw.each k v hk
    simp [View.ok, view, ok.values_ok, ok.defaults_ok, ok.bounds]

/-- the property's first two clauses for every history from a constructed vector: values always lie within
the bounds and NaN is stored only when `accept_nan` — for every live vector (original, clones, round-trips) -/
theorem values_within_bounds_always (eps : α) (names : List String) (defaults mins maxs : Option (List (XR α)))
    (cb ch an : Bool) (w : World α) (e : init eps names defaults mins maxs cb ch an = .ok w)
    (hmins : ∀ m, mins = some m → m.any XR.isNaN = false)
    (hmaxs : ∀ m, maxs = some m → m.any XR.isNaN = false)
    (ops : List (Op α)) (k : Nat) (vw : View α) (h : (run eps w ops).view k = some vw) :
    valuesOk vw.acceptNan vw.values vw.mins vw.maxs = true := by
  have := worldOk_view_ok _ (run_ok eps ops w (init_ok eps names defaults mins maxs cb ch an w e hmins hmaxs)) k vw h
  simp only [View.ok, Bool.and_eq_true] at this
  exact this.1.1

/-! ### a rejected operation leaves the state untouched -/

/-- no hypothesis at all: the returned world is the very same store and objects -/
theorem rejected_identity (eps : α) (w : World α) (op : Op α) (e : Err)
    (h : (step eps w op).2 = .rejected e) : (step eps w op).1 = w := by
  cases op with
  | setAttr k nm x => exact update_rejected w k _ e h
  | setKey k nm x => exact update_rejected w k _ e h
  | setAll k xs => exact update_rejected w k _ e h
  | reset k => exact update_rejected w k _ e h
  | clone k => exact spawn_rejected w k _ e h
  | dictRT k => exact spawn_rejected w k _ e h
  | getKey k nm => simp [step]
  | getAttr k nm => simp [step]
  | read k => simp [step]
  | setBad k => simp [step]
  | pyCopy k works =>
    cases works
    · simp [step]
    · simp only [step, if_true] at h ⊢; exact spawn_rejected w k _ e h

/-- the failing assignments of the property are rejected: NaN without permission (by attribute / by key),
wrong length, unknown key -/
theorem failing_assignments_rejected (eps : α) (w : World α) (k : Nat) (v : Vec) (hk : w.vecs[k]? = some v) :
    (∀ nm i, indexOf nm v.names = some i → v.acceptNan = false →
        (step eps w (.setAttr k nm .nan)).2 = .rejected .nanValue
        ∧ (step eps w (.setKey k nm .nan)).2 = .rejected .nanValue)
    ∧ (∀ nm x, indexOf nm v.names = none → (step eps w (.setKey k nm x)).2 = .rejected .unknownKey)
    ∧ (∀ xs, xs.length ≠ v.n → (step eps w (.setAll k xs)).2 = .rejected .badLength)
    ∧ (∀ xs, xs.length = v.n → xs.any XR.isNaN = true → v.acceptNan = false →
        (step eps w (.setAll k xs)).2 = .rejected .nanValue) := by
  refine ⟨?_, ?_, ?_, ?_⟩
  · intro nm i hi ha
    simp [step, World.update, hk, setAttr, setKey, hi, ha, XR.isNaN]
  · intro nm x hi
    simp [step, World.update, hk, setKey, hi]
  · intro xs hl
    simp [step, World.update, hk, setAll, reject?, hl]
  · intro xs hl hn ha
    simp [step, World.update, hk, setAll, reject?, hl, hn, ha]

/-- ACCESSORS AND NON-NUMERIC VALUES: every pure accessor (`v[name]`, `v.name`, `to_dict`, `to_series`, `str`,
property getters), an assignment of something `float()` rejects, and a failing copy protocol return the very same
world; a read by key / attribute is accepted exactly for the vector's names and returns the stored element -/
theorem accessors_identity (eps : α) (w : World α) (k : Nat) (nm : String) :
    (step eps w (.getKey k nm)).1 = w ∧ (step eps w (.getAttr k nm)).1 = w ∧ (step eps w (.read k)).1 = w
      ∧ (step eps w (.setBad k)).1 = w ∧ (step eps w (.pyCopy k false)).1 = w
      ∧ (∀ v, w.vecs[k]? = some v →
          ((step eps w (.getKey k nm)).2 = .ok ↔ (indexOf nm v.names).isSome)
          ∧ ((step eps w (.getAttr k nm)).2 = .ok ↔ (indexOf nm v.names).isSome)
          ∧ (step eps w (.read k)).2 = .ok
          ∧ (step eps w (.setBad k)).2 = .rejected .notNumber
          ∧ (∀ i, indexOf nm v.names = some i → readItem w k nm = (w.store.cells v.values)[i]?)) := by
  refine ⟨by simp [step], by simp [step], by simp [step], by simp [step], by simp [step], ?_⟩
  intro v hk
  refine ⟨?_, ?_, by simp [step, World.peek, hk], by simp [step, World.peek, hk], ?_⟩
  · cases h : indexOf nm v.names <;> simp [step, World.peek, hk, h]
  · cases h : indexOf nm v.names <;> simp [step, World.peek, hk, h]
  · intro i hi; simp [readItem, hk, hi]

/-! ### names, bounds, defaults (and option flags) never change -/

/-- FRAME: an operation addressed to vector `op.target` does not change anything any OTHER live vector
shows (values, bounds, defaults, names, flags, hit) — clones and originals are independent -/
theorem step_frame (eps : α) (w : World α) (op : Op α) (hw : WorldOk w) (j : Nat) (hj : j < w.vecs.length)
    (hne : j ≠ op.target) : (step eps w op).1.view j = w.view j := by
  cases op with
  | setAttr k nm x => exact update_view_other hw (fun v s' v' hk e => setAttr_effect (hw.each k v hk) nm x e) j hne
  | setKey k nm x => exact update_view_other hw (fun v s' v' hk e => setKey_effect (hw.each k v hk) nm x e) j hne
  | setAll k xs => exact update_view_other hw (fun v s' v' hk e => setAll_effect eps (hw.each k v hk) xs e) j hne
  | reset k => exact update_view_other hw (fun v s' v' hk e => reset_effect eps (hw.each k v hk) e) j hne
  | clone k => exact (spawn_ok hw fun v s' c hk e => clone_effect eps (hw.each k v hk) e).2 j hj
  | dictRT k => exact (spawn_ok hw fun v s' c hk e => dictRT_effect eps (hw.each k v hk) e).2 j hj
  | getKey k nm => simp [step]
  | getAttr k nm => simp [step]
  | read k => simp [step]
  | setBad k => simp [step]
  | pyCopy k works =>
    cases works
    · simp [step]
    · simp only [step, if_true]
      exact (spawn_ok hw fun v s' c hk e => clone_effect eps (hw.each k v hk) e).2 j hj

/-- clone / dictionary round-trip do not change the source either -/
theorem spawn_keeps_all (eps : α) (w : World α) (k : Nat) (hw : WorldOk w) (j : Nat) (hj : j < w.vecs.length) :
    (step eps w (.clone k)).1.view j = w.view j ∧ (step eps w (.dictRT k)).1.view j = w.view j :=
  ⟨(spawn_ok hw fun v s' c hk e => clone_effect eps (hw.each k v hk) e).2 j hj,
   (spawn_ok hw fun v s' c hk e => dictRT_effect eps (hw.each k v hk) e).2 j hj⟩

/-- FROZEN STEP: names, mins, maxs, defaults, check_bounds, check_hitbounds, accept_nan of every live vector
are the same after any operation -/
theorem step_frozen (eps : α) (w : World α) (op : Op α) (hw : WorldOk w) (j : Nat) (hj : j < w.vecs.length) :
    (step eps w op).1.frozen j = w.frozen j := by
  by_cases hne : j = op.target
  · cases op with
    | setAttr k nm x =>
      simp only [Op.target] at hne; subst hne
      exact update_frozen_self hw fun v s' v' hk e => setAttr_effect (hw.each j v hk) nm x e
    | setKey k nm x =>
      simp only [Op.target] at hne; subst hne
      exact update_frozen_self hw fun v s' v' hk e => setKey_effect (hw.each j v hk) nm x e
    | setAll k xs =>
      simp only [Op.target] at hne; subst hne
      exact update_frozen_self hw fun v s' v' hk e => setAll_effect eps (hw.each j v hk) xs e
    | reset k =>
      simp only [Op.target] at hne; subst hne
      exact update_frozen_self hw fun v s' v' hk e => reset_effect eps (hw.each j v hk) e
    | clone k => simp only [World.frozen]; rw [(spawn_keeps_all eps w k hw j hj).1]
    | dictRT k => simp only [World.frozen]; rw [(spawn_keeps_all eps w k hw j hj).2]
    | getKey k nm => simp [step]
    | getAttr k nm => simp [step]
    | read k => simp [step]
    | setBad k => simp [step]
    | pyCopy k works =>
      cases works
      · simp [step]
      · simp only [World.frozen, step, if_true]
        rw [(spawn_ok hw fun v s' c hk e => clone_effect eps (hw.each k v hk) e).2 j hj]
  · simp only [World.frozen]; rw [step_frame eps w op hw j hj hne]

/-- FROZEN, ALL HISTORIES: for every vector alive at some point, names / bounds / defaults / flags are the same
after any further sequence of operations -/
theorem run_frozen (eps : α) (ops : List (Op α)) : ∀ (w : World α), WorldOk w → ∀ j, j < w.vecs.length →
    (run eps w ops).frozen j = w.frozen j := by
  induction ops with
  | nil => intro w _ j _; rfl
  | cons op ops ih =>
    intro w hw j hj
    show (run eps (step eps w op).1 ops).frozen j = w.frozen j
    rw [ih _ (step_ok eps w op hw) j (Nat.lt_of_lt_of_le hj (step_length_le eps w op)), step_frozen eps w op hw j hj]

end order

/-! ### the hit flag tells exactly whether the latest assignment was clipped -/
section hit
variable {α : Type} [LinearOrder α] [AddCommGroup α] [IsOrderedAddMonoid α]

/-- set by attribute / by key on element `i` (known name, accepted): element `i` becomes the assigned value
moved to the nearest bound, nothing else moves, and the flag is set iff hit checking is on and the stored
value differs from the assigned one. No margin is involved on this path, hence no conditioning. -/
theorem setAttr_hit_exact {s s' : Store α} {v v' : Vec} (h : VecOk s v) (nm : String) (i : Nat) (x : XR α)
    (hi : indexOf nm v.names = some i) (e : setAttr s v nm x = ((s', v'), .ok)) :
    ∃ lo hi, (s.cells v.mins)[i]? = some lo ∧ (s.cells v.maxs)[i]? = some hi
      ∧ s'.cells v'.values = (s.cells v.values).set i (XR.clipNp x lo hi)
      ∧ (v'.hit = true ↔ v.checkHit = true ∧ XR.clipNp x lo hi ≠ x) := by
  unfold setAttr at e
  simp only [hi] at e
  split at e
  · simp at e
  · split at e
    · rename_i lo hi' hlo hhi
      simp only [Prod.mk.injEq, and_true] at e; obtain ⟨rfl, rfl⟩ := e
      have hb := all2_get boundElem _ _ i lo hi' h.bounds hlo hhi
      simp only [boundElem, Bool.and_eq_true, Bool.not_eq_true'] at hb
      refine ⟨lo, hi', hlo, hhi, ?_, ?_⟩
      · simp [XR.clipPy_eq_clipNp x lo hi' hb.1.1 hb.1.2]
      · cases hx : x.isNaN
        · rw [XR.clipNp_ne_iff x lo hi' hx hb.1.1 hb.1.2 hb.2]
          cases hc : v.checkHit
          · simp [h.hit_off hc]
          · simp
        · have := XR.isNaN_eq_nan hx; subst this
          rw [XR.clipNp_nan]
          cases hc : v.checkHit
          · simp [h.hit_off hc]
          · cases lo <;> cases hi' <;> simp [XR.outside, XR.lt]
    · simp at e

/-- whole-vector assignment (accepted) with every assigned value inside/on the bounds, NaN, or more than EPS
outside: the new values are the assigned values clipped element-wise into a FRESH array, and the flag is set
iff hit checking is on and some stored value differs from the assigned one -/
theorem setAll_hit_exact {eps : α} (heps : 0 ≤ eps) {s s' : Store α} {v v' : Vec} (h : VecOk s v)
    (xs : List (XR α)) (e : setAll eps s v xs = ((s', v'), .ok))
    (hr : all3 (XR.inRegion eps) xs (s.cells v.mins) (s.cells v.maxs) = true) :
    s'.cells v'.values = clipAll xs (s.cells v.mins) (s.cells v.maxs)
      ∧ s.next ≤ v'.values
      ∧ (v'.hit = true ↔ v.checkHit = true ∧ s'.cells v'.values ≠ xs) := by
  unfold setAll at e
  split at e
  · simp at e
  · rename_i hrej
    obtain ⟨hl, _⟩ := reject?_none hrej
    simp only [Prod.mk.injEq, and_true] at e; obtain ⟨rfl, rfl⟩ := e
    have hh := hitAll_iff heps xs _ _ h.bounds hr (by rw [hl, h.len_mins]) (by rw [hl, h.len_maxs])
    refine ⟨by simp, by simp, ?_⟩
    simp only [alloc_ref, alloc_cells_new, Bool.and_eq_true, hh]

/-- reset = assignment of the defaults: never clipped, so the flag is off afterwards and values = defaults -/
theorem reset_exact {eps : α} (heps : 0 ≤ eps) {s : Store α} {v : Vec} (h : VecOk s v) :
    ∃ s' v', reset eps s v = ((s', v'), .ok) ∧ s'.cells v'.values = s.cells v.defaults ∧ v'.hit = false
      ∧ s.next ≤ v'.values := by
  have hn := valuesOk_nan_an v.acceptNan _ _ _ h.defaults_ok (by rw [h.len_defaults, h.len_mins])
    (by rw [h.len_defaults, h.len_maxs])
  have hrej := reject?_of_ok v.acceptNan v.n _ h.len_defaults hn
  have hc := clipAll_eq_self v.acceptNan _ _ _ h.bounds h.defaults_ok (by rw [h.len_defaults, h.len_mins])
    (by rw [h.len_defaults, h.len_maxs])
  have hh := hitAll_false_of_ok heps v.acceptNan _ _ _ h.defaults_ok
  refine ⟨(s.alloc (clipAll (s.cells v.defaults) (s.cells v.mins) (s.cells v.maxs))).1,
    { v with values := s.next,
             hit := v.checkHit && hitAll eps (s.cells v.defaults) (s.cells v.mins) (s.cells v.maxs) },
    ?_, ?_, ?_, ?_⟩
  · simp only [reset, setAll, hrej, alloc_ref]
  · simp [hc]
  · simp [hh]
  · simp

/-- the same facts read on the state machine: `step` with a whole-vector assignment that is accepted -/
theorem step_setAll_exact {eps : α} (heps : 0 ≤ eps) (w : World α) (hw : WorldOk w) (k : Nat) (xs : List (XR α))
    (vw : View α) (hv : w.view k = some vw) (hacc : (step eps w (.setAll k xs)).2 = .ok)
    (hr : all3 (XR.inRegion eps) xs vw.mins vw.maxs = true) :
    ∃ vw', (step eps w (.setAll k xs)).1.view k = some vw'
      ∧ vw'.values = clipAll xs vw.mins vw.maxs
      ∧ (vw'.hit = true ↔ vw.checkHit = true ∧ vw'.values ≠ xs) := by
  unfold World.view at hv
  cases hk : w.vecs[k]? with
  | none => simp [hk] at hv
  | some v =>
    simp only [hk, Option.map_some, Option.some.injEq] at hv
    subst hv
    have hklt : k < w.vecs.length := by
      rcases List.getElem?_eq_some_iff.mp hk with ⟨h, _⟩; exact h
    simp only [step, World.update, hk] at hacc ⊢
    rcases hf : setAll eps w.store v xs with ⟨⟨s', v'⟩, o⟩
    cases o with
    | rejected e' => simp [hf] at hacc
    | ok =>
      obtain ⟨h1, _, h3⟩ := setAll_hit_exact heps (hw.each k v hk) xs hf hr
      refine ⟨C12.view s' v', ?_, h1, h3⟩
      simp [World.view, hklt]

/-- `step` with an assignment by attribute or by key to a known name, accepted -/
theorem step_setAttr_exact (eps : α) (w : World α) (hw : WorldOk w) (k : Nat) (nm : String) (i : Nat) (x : XR α)
    (vw : View α) (hv : w.view k = some vw) (hi : indexOf nm vw.names = some i) (byKey : Bool)
    (hacc : (step eps w (if byKey then .setKey k nm x else .setAttr k nm x)).2 = .ok) :
    ∃ vw' lo hi, (step eps w (if byKey then .setKey k nm x else .setAttr k nm x)).1.view k = some vw'
      ∧ vw.mins[i]? = some lo ∧ vw.maxs[i]? = some hi
      ∧ vw'.values = vw.values.set i (XR.clipNp x lo hi)
      ∧ (vw'.hit = true ↔ vw.checkHit = true ∧ XR.clipNp x lo hi ≠ x) := by
  unfold World.view at hv
  cases hk : w.vecs[k]? with
  | none => simp [hk] at hv
  | some v =>
    simp only [hk, Option.map_some, Option.some.injEq] at hv
    subst hv
    have hklt : k < w.vecs.length := by
      rcases List.getElem?_eq_some_iff.mp hk with ⟨h, _⟩; exact h
    have hi' : indexOf nm v.names = some i := hi
    have hsame : setKey w.store v nm x = setAttr w.store v nm x := by simp [setKey, hi']
    have hred : step eps w (if byKey then .setKey k nm x else .setAttr k nm x)
        = w.update k fun s u => if byKey then setKey s u nm x else setAttr s u nm x := by
      cases byKey <;> simp [step]
    rw [hred] at hacc ⊢
    simp only [World.update, hk] at hacc ⊢
    have hf' : (if byKey then setKey w.store v nm x else setAttr w.store v nm x) = setAttr w.store v nm x := by
      cases byKey <;> simp [hsame]
    rw [hf'] at hacc ⊢
    rcases hf : setAttr w.store v nm x with ⟨⟨s', v'⟩, o⟩
    cases o with
    | rejected e' => simp [hf] at hacc
    | ok =>
      obtain ⟨lo, hi2, h1, h2, h3, h4⟩ := setAttr_hit_exact (hw.each k v hk) nm i x hi' hf
      refine ⟨C12.view s' v', lo, hi2, ?_, h1, h2, h3, h4⟩
      simp [World.view, hklt]

/-- `step` with a reset: always accepted on a well-formed world; values become the defaults, the flag is off -/
theorem step_reset_exact {eps : α} (heps : 0 ≤ eps) (w : World α) (hw : WorldOk w) (k : Nat) (vw : View α)
    (hv : w.view k = some vw) :
    (step eps w (.reset k)).2 = .ok
      ∧ ∃ vw', (step eps w (.reset k)).1.view k = some vw' ∧ vw'.values = vw.defaults ∧ vw'.hit = false := by
  unfold World.view at hv
  cases hk : w.vecs[k]? with
  | none => simp [hk] at hv
  | some v =>
    simp only [hk, Option.map_some, Option.some.injEq] at hv
    subst hv
    have hklt : k < w.vecs.length := by
      rcases List.getElem?_eq_some_iff.mp hk with ⟨h, _⟩; exact h
    obtain ⟨s', v', e, h1, h2, _⟩ := reset_exact heps (hw.each k v hk)
    have h0 : step eps w (.reset k) = (⟨s', w.vecs.set k v'⟩, .ok) := by
      simp only [step, World.update, hk, e]
    rw [h0]
    refine ⟨rfl, C12.view s' v', ?_, h1, h2⟩
    simp [World.view, hklt]

/-- HIT FLAG, ALL HISTORIES: from any constructed vector, after ANY history, an accepted whole-vector assignment
(values inside / on the bounds, NaN, or more than EPS outside) stores the element-wise clipped values and sets the
flag iff hit checking is on and something was clipped -/
theorem whole_assignment_exact_always {eps : α} (heps : 0 ≤ eps) (names : List String)
    (defaults mins maxs : Option (List (XR α))) (cb ch an : Bool) (w0 : World α)
    (e : init eps names defaults mins maxs cb ch an = .ok w0)
    (hmins : ∀ m, mins = some m → m.any XR.isNaN = false) (hmaxs : ∀ m, maxs = some m → m.any XR.isNaN = false)
    (ops : List (Op α)) (k : Nat) (xs : List (XR α)) (vw : View α)
    (hv : (run eps w0 ops).view k = some vw) (hacc : (step eps (run eps w0 ops) (.setAll k xs)).2 = .ok)
    (hr : all3 (XR.inRegion eps) xs vw.mins vw.maxs = true) :
    ∃ vw', (step eps (run eps w0 ops) (.setAll k xs)).1.view k = some vw'
      ∧ vw'.values = clipAll xs vw.mins vw.maxs
      ∧ (vw'.hit = true ↔ vw.checkHit = true ∧ vw'.values ≠ xs) :=
  step_setAll_exact heps _ (run_ok eps ops w0 (init_ok eps names defaults mins maxs cb ch an w0 e hmins hmaxs))
    k xs vw hv hacc hr

end hit

/-! ### clone and dictionary round-trip reproduce the full observable state as independent copies -/
section copies
variable {α : Type} [LinearOrder α] [AddCommGroup α] [IsOrderedAddMonoid α]

/-- `clone()` of any live vector in any reachable world: never rejected; the new vector shows exactly what
the source shows (names, values, bounds, defaults, hit flag, all three option flags); every array of the new
vector is freshly allocated (so disjoint from every array that existed); every existing vector, the source
included, shows what it showed before; the world stays well formed (hence later operations on either side
never reach the other: `step_frame`). -/
theorem clone_spec {eps : α} (heps : 0 ≤ eps) (w : World α) (hw : WorldOk w) (k : Nat) (v : Vec)
    (hk : w.vecs[k]? = some v) :
    ∃ w' c, step eps w (.clone k) = (w', .ok) ∧ w'.vecs = w.vecs ++ [c]
      ∧ w'.view w.vecs.length = w.view k
      ∧ (∀ r ∈ c.refs, w.store.next ≤ r)
      ∧ (∀ j, j < w.vecs.length → w'.view j = w.view j)
      ∧ WorldOk w' := by
  have ok := hw.each k v hk
  obtain ⟨s', c, e, vw⟩ := rebuild_self heps w.store v.hit ok.arraysOk ok.values_ok ok.len_values
  have ec : clone eps w.store v = .ok (s', c) := e
  obtain ⟨sp, _⟩ := clone_effect eps ok ec
  have hstep : step eps w (.clone k) = (⟨s', w.vecs ++ [c]⟩, .ok) := by
    simp only [step, World.spawn, hk, ec]
  have hall := spawn_ok hw (k := k) (f := fun s v => clone eps s v)
    (fun v s' c hk e => clone_effect eps (hw.each k v hk) e)
  have hstep' : (w.spawn k fun s v => clone eps s v) = (⟨s', w.vecs ++ [c]⟩, .ok) := hstep
  rw [hstep'] at hall
  refine ⟨_, c, hstep, rfl, ?_, sp.fresh, hall.2, hall.1⟩
  show ((w.vecs ++ [c])[w.vecs.length]?).map (C12.view s') = (w.vecs[k]?).map (C12.view w.store)
  rw [List.getElem?_concat_length, hk, Option.map_some, Option.map_some, vw]; rfl

/-- the same for `Vector.from_dict(vect.to_dict())` -/
theorem dictRT_spec {eps : α} (heps : 0 ≤ eps) (w : World α) (hw : WorldOk w) (k : Nat) (v : Vec)
    (hk : w.vecs[k]? = some v) :
    ∃ w' c, step eps w (.dictRT k) = (w', .ok) ∧ w'.vecs = w.vecs ++ [c]
      ∧ w'.view w.vecs.length = w.view k
      ∧ (∀ r ∈ c.refs, w.store.next ≤ r)
      ∧ (∀ j, j < w.vecs.length → w'.view j = w.view j)
      ∧ WorldOk w' := by
  have ok := hw.each k v hk
  obtain ⟨s', c, e, vw⟩ := rebuild_self heps w.store v.hit ok.arraysOk ok.values_ok ok.len_values
  obtain ⟨il, i1, i2, i3, i4, i5⟩ := items_spec v.n v.names (w.store.cells v.values) (w.store.cells v.mins)
    (w.store.cells v.maxs) (w.store.cells v.defaults) rfl ok.len_values ok.len_mins ok.len_maxs ok.len_defaults
  have ht : List.take v.n (items v.names (w.store.cells v.values) (w.store.cells v.mins) (w.store.cells v.maxs)
      (w.store.cells v.defaults)) = items v.names (w.store.cells v.values) (w.store.cells v.mins)
      (w.store.cells v.maxs) (w.store.cells v.defaults) := List.take_of_length_le (by omega)
  have ec : fromDict eps w.store (toDict w.store v) = .ok (s', c) := by
    unfold fromDict
    simp only [toDict, il, Nat.lt_irrefl, if_false]
    rw [ht, i1, i2, i3, i4, i5]; exact e
  obtain ⟨sp, _⟩ := dictRT_effect eps ok ec
  have hstep : step eps w (.dictRT k) = (⟨s', w.vecs ++ [c]⟩, .ok) := by
    simp only [step, World.spawn, hk, ec]
  have hall := spawn_ok hw (k := k) (f := fun s v => fromDict eps s (toDict s v))
    (fun v s' c hk e => dictRT_effect eps (hw.each k v hk) e)
  have hstep' : (w.spawn k fun s v => fromDict eps s (toDict s v)) = (⟨s', w.vecs ++ [c]⟩, .ok) := hstep
  rw [hstep'] at hall
  refine ⟨_, c, hstep, rfl, ?_, sp.fresh, hall.2, hall.1⟩
  show ((w.vecs ++ [c])[w.vecs.length]?).map (C12.view s') = (w.vecs[k]?).map (C12.view w.store)
  rw [List.getElem?_concat_length, hk, Option.map_some, Option.map_some, vw]; rfl

/-- the exported dictionary holds exactly the observable state (so a round-trip loses nothing) -/
theorem toDict_faithful (s : Store α) (v : Vec) (h : VecOk s v) :
    let d := toDict s v
    d.nval = v.n ∧ d.hit = v.hit ∧ d.checkBounds = v.checkBounds ∧ d.checkHit = v.checkHit
      ∧ d.acceptNan = v.acceptNan ∧ d.data.length = v.n
      ∧ d.data.map (·.name) = v.names ∧ d.data.map (·.value) = s.cells v.values
      ∧ d.data.map (·.min) = s.cells v.mins ∧ d.data.map (·.max) = s.cells v.maxs
      ∧ d.data.map (·.default) = s.cells v.defaults := by
  obtain ⟨il, i1, i2, i3, i4, i5⟩ := items_spec v.n v.names (s.cells v.values) (s.cells v.mins) (s.cells v.maxs)
    (s.cells v.defaults) rfl h.len_values h.len_mins h.len_maxs h.len_defaults
  exact ⟨rfl, rfl, rfl, rfl, rfl, il, i1, i2, i3, i4, i5⟩

/-- `copy.deepcopy` / `pickle` round-trip, when CPython's copy protocol succeeds, is `clone` (so `clone_spec` applies) -/
theorem pyCopy_spec (eps : α) (w : World α) (k : Nat) : step eps w (.pyCopy k true) = step eps w (.clone k) := by
  simp [step]

/-- COPIES, ALL HISTORIES: from any constructed vector, after ANY history (any mix of mutators, accessors, failing
operations, copies), cloning or round-tripping ANY live vector is accepted and yields a vector that shows exactly
the source's state in freshly allocated arrays, every other vector unchanged -/
theorem copies_exact_always {eps : α} (heps : 0 ≤ eps) (names : List String)
    (defaults mins maxs : Option (List (XR α))) (cb ch an : Bool) (w0 : World α)
    (e : init eps names defaults mins maxs cb ch an = .ok w0)
    (hmins : ∀ m, mins = some m → m.any XR.isNaN = false) (hmaxs : ∀ m, maxs = some m → m.any XR.isNaN = false)
    (ops : List (Op α)) (k : Nat) (v : Vec) (hk : (run eps w0 ops).vecs[k]? = some v) (viaDict : Bool) :
    let w := run eps w0 ops
    ∃ w' c, step eps w (if viaDict then .dictRT k else .clone k) = (w', .ok) ∧ w'.vecs = w.vecs ++ [c]
      ∧ w'.view w.vecs.length = w.view k ∧ (∀ r ∈ c.refs, w.store.next ≤ r)
      ∧ (∀ j, j < w.vecs.length → w'.view j = w.view j) ∧ WorldOk w' := by
  intro w
  have hw : WorldOk w := run_ok eps ops w0 (init_ok eps names defaults mins maxs cb ch an w0 e hmins hmaxs)
  cases viaDict
  · exact clone_spec heps w hw k v hk
  · exact dictRT_spec heps w hw k v hk

end copies

/-! ### transforms: read-only uses leave parameter values, constants and bounds unchanged -/
section transforms
variable {α : Type} [LinearOrder α] [Add α] [Sub α] [OfNat α 0]

/-- READ-ONLY USES: forward, backward, jacobian, params_sample, params_logprior, printing leave everything the
parameter vector and the constant vector show — values, bounds, defaults, names, flags, hit — exactly as it
was (the only write, for the classes that own an inner BoxCox2, goes to that inner object's fresh array) -/
theorem readonly_preserves (eps : α) (w : World α) (t : Trans) (op : TOp α) (hw : WorldOk w) (ht : t.wf)
    (hro : op.readOnly = true) :
    (tstep eps w t op).1.view t.params = w.view t.params
      ∧ (tstep eps w t op).1.view t.constants = w.view t.constants := by
  have hs : (sync eps w t).view t.params = w.view t.params ∧ (sync eps w t).view t.constants = w.view t.constants :=
    ⟨sync_view eps w t hw _ (Ne.symm ht.1), sync_view eps w t hw _ (Ne.symm ht.2)⟩
  cases op with
  | forward => exact hs
  | backward => exact hs
  | jacobian => exact hs
  | sample => exact ⟨rfl, rfl⟩
  | logprior => exact ⟨rfl, rfl⟩
  | print => exact ⟨rfl, rfl⟩
  | setItem nm x => simp [TOp.readOnly] at hro
  | setAttr nm x => simp [TOp.readOnly] at hro
  | reset => simp [TOp.readOnly] at hro
  | setParams xs => simp [TOp.readOnly] at hro
  | setConstants xs => simp [TOp.readOnly] at hro

/-- any interleaving of read-only calls and assignments keeps the world of the transform well formed: its
parameter values stay inside their bounds, NaN only where allowed (the constants of BoxCox1lam/1nu, LogSinh,
Manly) -/
theorem tstep_ok (eps : α) (w : World α) (t : Trans) (op : TOp α) (hw : WorldOk w) :
    WorldOk (tstep eps w t op).1 := by
  cases op with
  | forward => exact sync_ok eps w t hw
  | backward => exact sync_ok eps w t hw
  | jacobian => exact sync_ok eps w t hw
  | sample => exact hw
  | logprior => exact hw
  | print => exact hw
  | setItem nm x =>
    simp only [tstep]
    split
    · split
      · exact update_ok hw fun v s' v' hk e => setKey_effect (hw.each _ v hk) nm x e
      · split
        · exact update_ok hw fun v s' v' hk e => setKey_effect (hw.each _ v hk) nm x e
        · exact update_ok hw fun v s' v' hk e => setKey_effect (hw.each _ v hk) nm x e
    · exact hw
  | setAttr nm x =>
    simp only [tstep]
    split
    · split
      · exact update_ok hw fun v s' v' hk e => setAttr_effect (hw.each _ v hk) nm x e
      · split
        · exact update_ok hw fun v s' v' hk e => setAttr_effect (hw.each _ v hk) nm x e
        · exact hw
    · exact hw
  | reset => exact update_ok hw fun v s' v' hk e => reset_effect eps (hw.each _ v hk) e
  | setParams xs => exact update_ok hw fun v s' v' hk e => setAll_effect eps (hw.each _ v hk) xs e
  | setConstants xs => exact update_ok hw fun v s' v' hk e => setAll_effect eps (hw.each _ v hk) xs e

theorem trun_ok (eps : α) (t : Trans) (ops : List (TOp α)) : ∀ (w : World α), WorldOk w →
    WorldOk (ops.foldl (fun w op => (tstep eps w t op).1) w) := by
  induction ops with
  | nil => intro w hw; exact hw
  | cons op ops ih => intro w hw; exact ih _ (tstep_ok eps w t op hw)

/-- bounds, defaults, names and flags of the parameter and constant vectors (and of the inner BoxCox2) are the
same after ANY transform operation, assignments included -/
theorem tstep_frozen (eps : α) (w : World α) (t : Trans) (op : TOp α) (hw : WorldOk w) (j : Nat) :
    (tstep eps w t op).1.frozen j = w.frozen j := by
  have upd : ∀ (k : Nat) (f : Store α → Vec → (Store α × Vec) × Out),
      (∀ v s' v', w.vecs[k]? = some v → f w.store v = ((s', v'), .ok) → Assign w.store v s' v' ∧ VecOk s' v') →
      (w.update k f).1.frozen j = w.frozen j := by
    intro k f hf
    by_cases hjk : j = k
    · subst hjk; exact update_frozen_self hw hf
    · simp only [World.frozen]; rw [update_view_other hw hf j hjk]
  have hs : (sync eps w t).frozen j = w.frozen j := by
    unfold sync
    split
    · rfl
    · rename_i xs _
      exact upd _ _ fun v s' v' hk e => setAll_effect eps (hw.each t.bc v hk) xs e
  cases op with
  | forward => exact hs
  | backward => exact hs
  | jacobian => exact hs
  | sample => rfl
  | logprior => rfl
  | print => rfl
  | setItem nm x =>
    simp only [tstep]
    split
    · split
      · exact upd _ _ fun v s' v' hk e => setKey_effect (hw.each _ v hk) nm x e
      · split
        · exact upd _ _ fun v s' v' hk e => setKey_effect (hw.each _ v hk) nm x e
        · exact upd _ _ fun v s' v' hk e => setKey_effect (hw.each _ v hk) nm x e
    · rfl
  | setAttr nm x =>
    simp only [tstep]
    split
    · split
      · exact upd _ _ fun v s' v' hk e => setAttr_effect (hw.each _ v hk) nm x e
      · split
        · exact upd _ _ fun v s' v' hk e => setAttr_effect (hw.each _ v hk) nm x e
        · rfl
    · rfl
  | reset => exact upd _ _ fun v s' v' hk e => reset_effect eps (hw.each _ v hk) e
  | setParams xs => exact upd _ _ fun v s' v' hk e => setAll_effect eps (hw.each _ v hk) xs e
  | setConstants xs => exact upd _ _ fun v s' v' hk e => setAll_effect eps (hw.each _ v hk) xs e

/-- a rejected assignment on a transform leaves the whole state untouched -/
theorem tstep_rejected_identity (eps : α) (w : World α) (t : Trans) (op : TOp α) (e : Err)
    (h : (tstep eps w t op).2 = .rejected e) : (tstep eps w t op).1 = w := by
  cases op with
  | forward => simp [tstep] at h
  | backward => simp [tstep] at h
  | jacobian => simp [tstep] at h
  | sample => rfl
  | logprior => rfl
  | print => rfl
  | setItem nm x =>
    simp only [tstep] at h ⊢
    cases hp : w.vecs[t.params]? with
    | none => simp
    | some p =>
      cases hc : w.vecs[t.constants]? with
      | none => simp
      | some c =>
        simp only [hp, hc] at h ⊢
        by_cases h0 : c.n = 0
        · simp only [h0, if_true] at h ⊢; exact update_rejected w _ _ e h
        · simp only [h0, if_false] at h ⊢
          cases h1 : p.names.contains nm <;> simp only [h1, Bool.false_eq_true, if_false, if_true] at h ⊢ <;>
            exact update_rejected w _ _ e h
  | setAttr nm x =>
    simp only [tstep] at h ⊢
    cases hp : w.vecs[t.params]? with
    | none => simp
    | some p =>
      cases hc : w.vecs[t.constants]? with
      | none => simp
      | some c =>
        simp only [hp, hc] at h ⊢
        cases h0 : p.names.contains nm <;> simp only [h0, Bool.false_eq_true, if_false, if_true] at h ⊢
        · cases h1 : c.names.contains nm <;> simp only [h1, Bool.false_eq_true, if_false, if_true] at h ⊢
          · exact update_rejected w _ _ e h
        · exact update_rejected w _ _ e h
  | reset => exact update_rejected w _ _ e h
  | setParams xs => exact update_rejected w _ _ e h
  | setConstants xs => exact update_rejected w _ _ e h

theorem add_ok (eps : α) (w w' : World α) (sp : Spec α) (hw : WorldOk w) (e : World.add eps w sp = .ok w')
    (hmins : ∀ m, sp.mins = some m → m.any XR.isNaN = false)
    (hmaxs : ∀ m, sp.maxs = some m → m.any XR.isNaN = false) : WorldOk w' := by
  unfold World.add at e
  split at e
  · simp at e
  · rename_i s v emk
    simp only [Except.ok.injEq] at e; subst e
    obtain ⟨sp', ok, _⟩ := mk_ok emk hmins hmaxs
    exact (append_ok hw sp' ok).1

/-- a freshly constructed transform (parameter vector, constant vector, inner BoxCox2 parameters when the class
has one; bounds NaN-free as in every class of transform.py) is a well-formed world -/
theorem tinit_ok (eps : α) (p c : Spec α) (b : Option (Spec α)) (w : World α) (e : tinit eps p c b = .ok w)
    (hp : (∀ m, p.mins = some m → m.any XR.isNaN = false) ∧ (∀ m, p.maxs = some m → m.any XR.isNaN = false))
    (hc : (∀ m, c.mins = some m → m.any XR.isNaN = false) ∧ (∀ m, c.maxs = some m → m.any XR.isNaN = false))
    (hb : ∀ sb, b = some sb →
      (∀ m, sb.mins = some m → m.any XR.isNaN = false) ∧ (∀ m, sb.maxs = some m → m.any XR.isNaN = false)) :
    WorldOk w := by
  unfold tinit at e
  split at e
  · simp at e
  · rename_i w1 e1
    have ok1 := add_ok eps _ w1 p emptyWorld_ok e1 hp.1 hp.2
    split at e
    · simp at e
    · rename_i w2 e2
      have ok2 := add_ok eps _ w2 c ok1 e2 hc.1 hc.2
      split at e
      · simp only [Except.ok.injEq] at e; subst e; exact ok2
      · rename_i sb
        exact add_ok eps _ w sb ok2 e (hb sb rfl).1 (hb sb rfl).2

/-- READ-ONLY USES, ALL INTERLEAVINGS: from a freshly constructed transform, after ANY history of read-only calls
and (accepted or rejected) assignments, one more read-only call leaves params and constants exactly as they were -/
theorem readonly_preserves_always (eps : α) (p c : Spec α) (b : Option (Spec α)) (w : World α)
    (e : tinit eps p c b = .ok w)
    (hp : (∀ m, p.mins = some m → m.any XR.isNaN = false) ∧ (∀ m, p.maxs = some m → m.any XR.isNaN = false))
    (hc : (∀ m, c.mins = some m → m.any XR.isNaN = false) ∧ (∀ m, c.maxs = some m → m.any XR.isNaN = false))
    (hb : ∀ sb, b = some sb →
      (∀ m, sb.mins = some m → m.any XR.isNaN = false) ∧ (∀ m, sb.maxs = some m → m.any XR.isNaN = false))
    (kind : TKind) (history : List (TOp α)) (op : TOp α) (hro : op.readOnly = true) :
    let t : Trans := ⟨kind, 0, 1, 2⟩
    let w' := history.foldl (fun w op => (tstep eps w t op).1) w
    (tstep eps w' t op).1.view 0 = w'.view 0 ∧ (tstep eps w' t op).1.view 1 = w'.view 1 := by
  intro t w'
  have hw' : WorldOk w' := trun_ok eps t history w (tinit_ok eps p c b w e hp hc hb)
  exact readonly_preserves eps w' t op hw' ⟨(by show (2 : Nat) ≠ 0; decide), (by show (2 : Nat) ≠ 1; decide)⟩ hro

end transforms

/-! ### several live transforms: instances are independent objects -/
section instances
variable {α : Type} [LinearOrder α] [Add α] [Sub α] [OfNat α 0]

/-- FRAME FOR TRANSFORMS: any operation on a transform (read-only call or assignment) leaves every vector that is
not one of ITS OWN (params, constants, inner BoxCox2) exactly as it was -/
theorem tstep_frame (eps : α) (w : World α) (t : Trans) (op : TOp α) (hw : WorldOk w) (j : Nat) (hj : j ∉ t.idx) :
    (tstep eps w t op).1.view j = w.view j := by
  have hp : j ≠ t.params := fun h => hj (h ▸ t.params_mem_idx)
  have hc : j ≠ t.constants := fun h => hj (h ▸ t.constants_mem_idx)
  have hs : (sync eps w t).view j = w.view j := by
    by_cases hk : t.kind = .plain
    · rw [sync_plain eps w t hk]
    · exact sync_view eps w t hw j (fun h => hj (h ▸ t.bc_mem_idx hk))
  cases op with
  | forward => exact hs
  | backward => exact hs
  | jacobian => exact hs
  | sample => rfl
  | logprior => rfl
  | print => rfl
  | setItem nm x =>
    simp only [tstep]
    split
    · split
      · exact update_view_other hw (fun v s' v' hk e => setKey_effect (hw.each _ v hk) nm x e) j hp
      · split
        · exact update_view_other hw (fun v s' v' hk e => setKey_effect (hw.each _ v hk) nm x e) j hp
        · exact update_view_other hw (fun v s' v' hk e => setKey_effect (hw.each _ v hk) nm x e) j hc
    · rfl
  | setAttr nm x =>
    simp only [tstep]
    split
    · split
      · exact update_view_other hw (fun v s' v' hk e => setAttr_effect (hw.each _ v hk) nm x e) j hp
      · split
        · exact update_view_other hw (fun v s' v' hk e => setAttr_effect (hw.each _ v hk) nm x e) j hc
        · rfl
    · rfl
  | reset => exact update_view_other hw (fun v s' v' hk e => reset_effect eps (hw.each _ v hk) e) j hp
  | setParams xs => exact update_view_other hw (fun v s' v' hk e => setAll_effect eps (hw.each _ v hk) xs e) j hp
  | setConstants xs => exact update_view_other hw (fun v s' v' hk e => setAll_effect eps (hw.each _ v hk) xs e) j hc

/-- the instance invariant is kept by every operation on every instance -/
theorem mstep_ok (eps : α) (m : MWorld α) (i : Nat) (op : TOp α) (hm : MOk m) : MOk (mstep eps m i op).1 := by
  unfold mstep
  split
  · exact hm
  · rename_i t ht
    exact { world := tstep_ok eps m.world t op hm.world
            wf := hm.wf
            lt := fun i' t' h j hj => by
              show j < (tstep eps m.world t op).1.vecs.length
              rw [tstep_length]; exact hm.lt i' t' h j hj
            sep := hm.sep }

/-- INDEPENDENT INSTANCES: an assignment or a read-only call on one transform instance changes nothing that any
OTHER live instance shows — same class or not: its params, constants, inner vector, values, bounds, defaults, flags -/
theorem mstep_independent (eps : α) (m : MWorld α) (i i' : Nat) (op : TOp α) (hm : MOk m) (t' : Trans)
    (hi' : m.insts[i']? = some t') (hne : i ≠ i') (j : Nat) (hj : j ∈ t'.idx) :
    (mstep eps m i op).1.world.view j = m.world.view j := by
  unfold mstep
  split
  · rfl
  · rename_i t ht
    exact tstep_frame eps m.world t op hm.world j (hm.sep i i' t t' ht hi' hne j hj)

/-- … and on the instance itself a read-only call changes nothing its params and constants show -/
theorem mstep_readonly (eps : α) (m : MWorld α) (i : Nat) (op : TOp α) (hm : MOk m) (t : Trans)
    (hi : m.insts[i]? = some t) (hro : op.readOnly = true) :
    (mstep eps m i op).1.world.view t.params = m.world.view t.params
      ∧ (mstep eps m i op).1.world.view t.constants = m.world.view t.constants := by
  unfold mstep
  simp only [hi]
  by_cases hk : t.kind = .plain
  · cases op <;> simp [TOp.readOnly] at hro <;> simp [tstep, sync_plain eps m.world t hk]
  · exact readonly_preserves eps m.world t op hm.world (hm.wf i t hi hk) hro

/-- FRESH INSTANCE: constructing one more transform (any class) in a process that already holds instances — whatever
was assigned on them before — keeps the invariant, leaves every existing vector as it was, and the new instance's
params / constants / inner vector show their constructor defaults with the hit flag off -/
theorem madd_spec (eps : α) (m m' : MWorld α) (kind : TKind) (p c : Spec α) (b : Option (Spec α)) (hm : MOk m)
    (e : madd eps m kind p c b = .ok m')
    (hp : (∀ x, p.mins = some x → x.any XR.isNaN = false) ∧ (∀ x, p.maxs = some x → x.any XR.isNaN = false))
    (hc : (∀ x, c.mins = some x → x.any XR.isNaN = false) ∧ (∀ x, c.maxs = some x → x.any XR.isNaN = false))
    (hb : ∀ sb, b = some sb →
      (∀ x, sb.mins = some x → x.any XR.isNaN = false) ∧ (∀ x, sb.maxs = some x → x.any XR.isNaN = false)) :
    MOk m' ∧ (∀ j, j < m.world.vecs.length → m'.world.view j = m.world.view j)
      ∧ (∀ j, m.world.vecs.length ≤ j → j < m'.world.vecs.length →
          ∃ vw, m'.world.view j = some vw ∧ vw.values = vw.defaults ∧ vw.hit = false)
      ∧ m'.insts.length = m.insts.length + 1 := by
  unfold madd at e
  simp only at e
  split at e
  · simp at e
  · rename_i w1 e1
    obtain ⟨ok1, l1, k1, vw1, f1, g1, h1⟩ := add_spec eps _ w1 p hm.world e1 hp.1 hp.2
    split at e
    · simp at e
    · rename_i w2 e2
      obtain ⟨ok2, l2, k2, vw2, f2, g2, h2⟩ := add_spec eps _ w2 c ok1 e2 hc.1 hc.2
      -- facts shared by both branches
      have old2 : ∀ j, j < m.world.vecs.length → w2.view j = m.world.view j := by
        intro j hj; rw [k2 j (by omega), k1 j hj]
      have fresh2 : ∀ j, m.world.vecs.length ≤ j → j < w2.vecs.length →
          ∃ vw, w2.view j = some vw ∧ vw.values = vw.defaults ∧ vw.hit = false := by
        intro j h1' h2'
        have : j = m.world.vecs.length ∨ j = w1.vecs.length := by omega
        rcases this with rfl | rfl
        · exact ⟨vw1, by rw [k2 _ (by omega)]; exact f1, g1, h1⟩
        · exact ⟨vw2, f2, g2, h2⟩
      have mkOk : ∀ (w3 : World α) (t : Trans), WorldOk w3 → m.world.vecs.length + 2 ≤ w3.vecs.length →
          t.params = m.world.vecs.length → t.constants = m.world.vecs.length + 1 →
          t.bc = m.world.vecs.length + 2 → (t.kind ≠ .plain → m.world.vecs.length + 3 ≤ w3.vecs.length) →
          MOk ⟨w3, m.insts ++ [t]⟩ := by
        intro w3 t hw3 hlen hpp hcc hbb hk3
        have tidx : ∀ j ∈ t.idx, m.world.vecs.length ≤ j ∧ j < w3.vecs.length := by
          intro j hj
          unfold Trans.idx at hj
          cases hk : t.kind <;> simp only [hk, List.mem_cons, List.mem_singleton, List.not_mem_nil, or_false] at hj
          · rcases hj with h | h <;> omega
          all_goals (have := hk3 (by rw [hk]; simp); rcases hj with h | h | h <;> omega)
        have getI : ∀ (i : Nat) (u : Trans), (m.insts ++ [t])[i]? = some u →
            (i < m.insts.length ∧ m.insts[i]? = some u) ∨ (i = m.insts.length ∧ u = t) := by
          intro i u hu
          simp only [List.getElem?_append] at hu
          split at hu
          · rename_i h; exact Or.inl ⟨h, hu⟩
          · rename_i h
            have : i - m.insts.length = 0 ∨ 0 < i - m.insts.length := by omega
            rcases this with h0 | h0
            · simp only [h0, List.getElem?_cons_zero, Option.some.injEq] at hu; exact Or.inr ⟨by omega, hu.symm⟩
            · have : ([t] : List Trans)[i - m.insts.length]? = none := by
                apply List.getElem?_eq_none; simp; omega
              simp [this] at hu
        refine ⟨hw3, ?_, ?_, ?_⟩
        · intro i u hu hk
          rcases getI i u hu with ⟨_, h⟩ | ⟨_, rfl⟩
          · exact hm.wf i u h hk
          · constructor <;> omega
        · intro i u hu j hj
          rcases getI i u hu with ⟨_, h⟩ | ⟨_, rfl⟩
          · have := hm.lt i u h j hj
            show j < w3.vecs.length; omega
          · exact (tidx j hj).2
        · intro i i' u u' hu hu' hne j hj
          rcases getI i u hu with ⟨h1', h⟩ | ⟨h1', rfl⟩ <;> rcases getI i' u' hu' with ⟨h2', h'⟩ | ⟨h2', rfl⟩
          · exact hm.sep i i' u u' h h' hne j hj
          · intro hc'
            have := hm.lt i u h j hc'
            have := (tidx j hj).1; omega
          · intro hc'
            have := hm.lt i' u' h' j hj
            have := (tidx j hc').1; omega
          · omega
      split at e
      · rename_i hk
        simp only [Except.ok.injEq] at e; subst e
        exact ⟨mkOk w2 _ ok2 (by omega) rfl rfl rfl (by intro h; exact absurd rfl h), old2, fresh2, by simp⟩
      · rename_i hk
        split at e
        · simp at e
        · rename_i sb
          split at e
          · simp at e
          · rename_i w3 e3
            obtain ⟨ok3, l3, k3, vw3, f3, g3, h3⟩ := add_spec eps _ w3 sb ok2 e3 (hb sb rfl).1 (hb sb rfl).2
            simp only [Except.ok.injEq] at e; subst e
            refine ⟨mkOk w3 _ ok3 (by omega) rfl rfl rfl (by intro _; omega), ?_, ?_, by simp⟩
            · intro j hj; show w3.view j = _; rw [k3 j (by omega), old2 j hj]
            · intro j h1' h2'
              have h2'' : j < w3.vecs.length := h2'
              by_cases hlast : j = w2.vecs.length
              · subst hlast; exact ⟨vw3, f3, g3, h3⟩
              · obtain ⟨vw, a, b', c'⟩ := fresh2 j h1' (by omega)
                exact ⟨vw, by show w3.view j = _; rw [k3 j (by omega)]; exact a, b', c'⟩

theorem emptyM_ok : MOk (MWorld.empty : MWorld α) :=
  ⟨emptyWorld_ok, fun i t h => by simp [MWorld.empty] at h, fun i t h => by simp [MWorld.empty] at h,
   fun i i' t t' h => by simp [MWorld.empty] at h⟩

end instances

/-! ### the hypotheses are satisfiable: concrete, non-trivial instances over `Int` -/
section examples

/-- a 2-name vector with half-infinite bounds, hit checking on, NaN allowed; the history assigns out of bounds by
key, clones, assigns a NaN by attribute on the clone, round-trips it and resets the original -/
def exInit : Except Err (World Int) :=
  init (1 : Int) ["a", "b"] (some [.fin 5, .nan]) (some [.fin 0, .ninf]) (some [.fin 10, .pinf]) true true true

def exOps : List (Op Int) :=
  [.setKey 0 "a" (.fin 50), .clone 0, .setAttr 1 "b" .nan, .getKey 1 "zz", .dictRT 1, .reset 0, .read 0,
   .setAll 0 [.fin 3], .setBad 2, .pyCopy 0 false, .getAttr 2 "a", .setAll 1 [.fin (-4), .pinf]]

example : (match exInit with
    | .ok w => ((run 1 w exOps).vecs.length, (run 1 w exOps).view 0 |>.map (·.values),
                (run 1 w exOps).view 1 |>.map (fun v => (v.values, v.hit)), (run 1 w exOps).view 2 |>.map (·.hit))
    | .error _ => (0, none, none, none))
    = (3, some [.fin 5, .nan], some ([.fin 0, .pinf], true), some false) := by decide

/-- `init_ok`'s hypotheses hold for it (NaN-free bounds) -/
example : (∀ m, (some [XR.fin (0 : Int), .ninf]) = some m → m.any XR.isNaN = false) := by
  intro m h; cases h; decide

/-- the region hypothesis of `setAll_hit_exact` is met by an assignment that IS clipped -/
example : all3 (XR.inRegion (1 : Int)) [.fin 50, .nan] [.fin 0, .ninf] [.fin 10, .pinf] = true := by decide

/-- a well-formed transform descriptor (params 0, constants 1, inner BoxCox2 2) -/
example : (⟨.bc1lam, 0, 1, 2⟩ : Trans).wf := by constructor <;> decide

/-- `tinit_ok` / `readonly_preserves_always`: a BoxCox1lam-like transform world is constructible, and a
forward call after an assignment re-syncs the inner vector while params / constants stay put -/
def exT : Except Err (World Int) :=
  tinit (1 : Int) ⟨["lam"], some [.fin 1], some [.fin 0], some [.fin 3], true, false, false⟩
    ⟨["nu"], some [.nan], some [.fin 0], some [.pinf], true, false, true⟩
    (some ⟨["nu", "lam"], some [.fin 0, .fin 1], some [.fin 0, .fin 0], some [.pinf, .fin 3], true, false, false⟩)

example : (match exT with
    | .ok w =>
      let t : Trans := ⟨.bc1lam, 0, 1, 2⟩
      let w1 := (tstep 1 w t (.setItem "nu" (.fin 7))).1
      let w2 := (tstep 1 w1 t (.setAttr "lam" (.fin 9))).1
      let w3 := (tstep 1 w2 t .forward).1
      (w3.vecs.length, w3.view 0 |>.map (·.values), w3.view 1 |>.map (·.values), w3.view 2 |>.map (·.values))
    | .error _ => (0, none, none, none))
    = (3, some [.fin 3], some [.fin 7], some [.fin 7, .fin 3]) := by decide

/-- `MOk` / `madd_spec` / `mstep_independent`: two LogSinh/Manly-like instances and a fresh one after an assignment -/
def exM : Except Err (MWorld Int) :=
  let p : Spec Int := ⟨["lam"], some [.fin 1], some [.fin (-5)], some [.fin 5], true, false, false⟩
  let c : Spec Int := ⟨["xmax"], some [.nan], some [.fin 0], some [.pinf], true, false, true⟩
  match madd 1 MWorld.empty .plain p c none with
  | .error e => .error e
  | .ok m1 => match madd 1 m1 .plain p c none with
    | .error e => .error e
    | .ok m2 => madd 1 (mstep 1 m2 0 (.setItem "xmax" (.fin 7))).1 .plain p c none

example : (match exM with
    | .ok m => (m.insts.length, m.world.view 1 |>.map (·.values), m.world.view 3 |>.map (·.values),
                m.world.view 5 |>.map (·.values))
    | .error _ => (0, none, none, none)) = (3, some [.fin 7], some [.nan], some [.nan]) := by decide

end examples

end HydroVerif.C12
