/-
C12 — property theorems (only). Model: `HydroVerif/Model/C12.lean`; invariants (`VecOk`, `WorldOk`) and
helper lemmas: `HydroVerif/Lemmas/C12.lean`.

The state machine: a `World` = an array store + the list of live vectors; `step` applies one operation
(set by attribute, set by key, whole-vector assignment, reset, clone, dictionary round-trip — failing ones
included) to the `k`-th vector; `run` folds a whole history. Values are `XR α` (NaN, ±∞, finite `α`); the
theorems hold for every linearly ordered `α` (the driver runs `α = Float`), the ones about the `EPS` margin
for every linearly ordered additive group and every `0 ≤ eps`.
-/
import HydroVerif.Lemmas.C12

set_option linter.unusedSectionVars false
set_option linter.unusedVariables false
set_option linter.unusedSimpArgs false

namespace HydroVerif.C12

section order
variable {α : Type} [LinearOrder α] [Add α] [Sub α] [OfNat α 0]

/-! ### construction establishes the invariant -/

/-- `Vector(names, defaults, mins, maxs, flags)` with NaN-free bounds (the property's "finite or infinite
bounds"), whenever the constructor accepts: the world made of that one vector is well formed — values inside
the bounds (NaN only if allowed), real intervals, unique names, consistent flags, four distinct arrays. -/
theorem init_ok (eps : α) (names : List String) (defaults mins maxs : Option (List (XR α))) (cb ch an : Bool)
    (w : World α) (e : init eps names defaults mins maxs cb ch an = .ok w)
    (hmins : ∀ m, mins = some m → m.any XR.isNaN = false)
    (hmaxs : ∀ m, maxs = some m → m.any XR.isNaN = false) : WorldOk w := by
  unfold init at e
  split at e
  · simp at e
  · rename_i s v emk
    simp only [Except.ok.injEq] at e; subst e
    obtain ⟨_, ok, _⟩ := mk_ok emk hmins hmaxs
    refine ⟨?_, ?_⟩
    · intro k u hu
      cases k with
      | zero => simp at hu; subst hu; exact ok
      | succ k => simp at hu
    · intro i j vi vj hi hj hij
      cases i <;> cases j <;> simp_all

/-- a fresh vector holds its defaults, its hit flag is off, and it carries the flags it was given -/
theorem init_view (eps : α) (names : List String) (defaults mins maxs : Option (List (XR α))) (cb ch an : Bool)
    (w : World α) (e : init eps names defaults mins maxs cb ch an = .ok w) :
    ∃ vw, w.view 0 = some vw ∧ vw.values = vw.defaults ∧ vw.hit = false ∧ vw.names = names
      ∧ vw.checkBounds = cb ∧ vw.checkHit = ch ∧ vw.acceptNan = an := by
  unfold init at e
  split at e
  · simp at e
  · rename_i s v emk
    simp only [Except.ok.injEq] at e; subst e
    unfold mk at emk
    split at emk
    · simp at emk
    · rename_i lo hi d _
      simp only [Except.ok.injEq] at emk
      have e2 := congrArg Prod.snd emk
      have e1 := congrArg Prod.fst emk
      simp only at e1 e2
      subst e1; subst e2
      refine ⟨_, rfl, ?_, rfl, rfl, rfl, rfl, rfl⟩
      simp [view, mkFrom, Store.alloc]

/-! ### every operation preserves the invariant; hence every history does -/

theorem clone_effect (eps : α) {s s' : Store α} {v c : Vec} (h : VecOk s v)
    (e : clone eps s v = .ok (s', c)) : Spawn s s' c ∧ VecOk s' c := by
  obtain ⟨n1, n2⟩ := boundsOk_noNaN _ _ h.bounds (by rw [h.len_mins, h.len_maxs])
  exact rebuild_ok e n1 n2 h.hit_off

theorem dictRT_effect (eps : α) {s s' : Store α} {v c : Vec} (h : VecOk s v)
    (e : fromDict eps s (toDict s v) = .ok (s', c)) : Spawn s s' c ∧ VecOk s' c := by
  obtain ⟨n1, n2⟩ := boundsOk_noNaN _ _ h.bounds (by rw [h.len_mins, h.len_maxs])
  obtain ⟨il, i1, i2, i3, i4, i5⟩ := items_spec v.n v.names (s.cells v.values) (s.cells v.mins) (s.cells v.maxs)
    (s.cells v.defaults) rfl h.len_values h.len_mins h.len_maxs h.len_defaults
  unfold fromDict at e
  simp only [toDict, il, Nat.lt_irrefl, if_false] at e
  have ht : List.take v.n (items v.names (s.cells v.values) (s.cells v.mins) (s.cells v.maxs) (s.cells v.defaults))
      = items v.names (s.cells v.values) (s.cells v.mins) (s.cells v.maxs) (s.cells v.defaults) :=
    List.take_of_length_le (by omega)
  rw [ht, i1, i2, i3, i4, i5] at e
  exact rebuild_ok e n1 n2 h.hit_off

/-- INVARIANT STEP: whatever the operation (accepted or rejected, on whichever vector), a well-formed world
stays well formed -/
theorem step_ok (eps : α) (w : World α) (op : Op α) (hw : WorldOk w) : WorldOk (step eps w op).1 := by
  cases op with
  | setAttr k nm x => exact update_ok hw fun v s' v' hk e => setAttr_effect (hw.each k v hk) nm x e
  | setKey k nm x => exact update_ok hw fun v s' v' hk e => setKey_effect (hw.each k v hk) nm x e
  | setAll k xs => exact update_ok hw fun v s' v' hk e => setAll_effect eps (hw.each k v hk) xs e
  | reset k => exact update_ok hw fun v s' v' hk e => reset_effect eps (hw.each k v hk) e
  | clone k => exact (spawn_ok hw fun v s' c hk e => clone_effect eps (hw.each k v hk) e).1
  | dictRT k => exact (spawn_ok hw fun v s' c hk e => dictRT_effect eps (hw.each k v hk) e).1

/-- INVARIANT, ALL HISTORIES: after any sequence of operations of any length -/
theorem run_ok (eps : α) (ops : List (Op α)) : ∀ (w : World α), WorldOk w → WorldOk (run eps w ops) := by
  induction ops with
  | nil => intro w hw; exact hw
  | cons op ops ih => intro w hw; exact ih _ (step_ok eps w op hw)

/-- what the invariant says about the observable state of each vector: values and defaults inside
`[mins, maxs]` or NaN-with-permission, bounds real intervals (`View.ok` is the executable form the driver
also reports) -/
theorem worldOk_view_ok (w : World α) (hw : WorldOk w) (k : Nat) (vw : View α) (h : w.view k = some vw) :
    vw.ok = true := by
  unfold World.view at h
  cases hk : w.vecs[k]? with
  | none => simp [hk] at h
  | some v =>
    simp only [hk, Option.map_some, Option.some.injEq] at h
    subst h
    have ok := hw.each k v hk
    simp [View.ok, view, ok.values_ok, ok.defaults_ok, ok.bounds]

/-- the property's first two clauses for every history from a constructed vector: values always lie within
the bounds and NaN is stored only when `accept_nan` — for every live vector (original, clones, round-trips) -/
theorem values_within_bounds_always (eps : α) (names : List String) (defaults mins maxs : Option (List (XR α)))
    (cb ch an : Bool) (w : World α) (e : init eps names defaults mins maxs cb ch an = .ok w)
    (hmins : ∀ m, mins = some m → m.any XR.isNaN = false)
    (hmaxs : ∀ m, maxs = some m → m.any XR.isNaN = false)
    (ops : List (Op α)) (k : Nat) (vw : View α) (h : (run eps w ops).view k = some vw) :
    valuesOk vw.acceptNan vw.values vw.mins vw.maxs = true := by
  have := worldOk_view_ok _ (run_ok eps ops w (init_ok eps names defaults mins maxs cb ch an w e hmins hmaxs)) k vw h
  simp only [View.ok, Bool.and_eq_true] at this
  exact this.1.1

/-! ### a rejected operation leaves the state untouched -/

/-- no hypothesis at all: the returned world is the very same store and objects -/
theorem rejected_identity (eps : α) (w : World α) (op : Op α) (e : Err)
    (h : (step eps w op).2 = .rejected e) : (step eps w op).1 = w := by
  cases op with
  | setAttr k nm x => exact update_rejected w k _ e h
  | setKey k nm x => exact update_rejected w k _ e h
  | setAll k xs => exact update_rejected w k _ e h
  | reset k => exact update_rejected w k _ e h
  | clone k => exact spawn_rejected w k _ e h
  | dictRT k => exact spawn_rejected w k _ e h

/-- the failing assignments of the property are rejected: NaN without permission (by attribute / by key),
wrong length, unknown key -/
theorem failing_assignments_rejected (eps : α) (w : World α) (k : Nat) (v : Vec) (hk : w.vecs[k]? = some v) :
    (∀ nm i, indexOf nm v.names = some i → v.acceptNan = false →
        (step eps w (.setAttr k nm .nan)).2 = .rejected .nanValue
        ∧ (step eps w (.setKey k nm .nan)).2 = .rejected .nanValue)
    ∧ (∀ nm x, indexOf nm v.names = none → (step eps w (.setKey k nm x)).2 = .rejected .unknownKey)
    ∧ (∀ xs, xs.length ≠ v.n → (step eps w (.setAll k xs)).2 = .rejected .badLength)
    ∧ (∀ xs, xs.length = v.n → xs.any XR.isNaN = true → v.acceptNan = false →
        (step eps w (.setAll k xs)).2 = .rejected .nanValue) := by
  refine ⟨?_, ?_, ?_, ?_⟩
  · intro nm i hi ha
    simp [step, World.update, hk, setAttr, setKey, hi, ha, XR.isNaN]
  · intro nm x hi
    simp [step, World.update, hk, setKey, hi]
  · intro xs hl
    simp [step, World.update, hk, setAll, reject?, hl]
  · intro xs hl hn ha
    simp [step, World.update, hk, setAll, reject?, hl, hn, ha]

/-! ### names, bounds, defaults (and option flags) never change -/

theorem step_length_le (eps : α) (w : World α) (op : Op α) : w.vecs.length ≤ (step eps w op).1.vecs.length := by
  cases op with
  | setAttr k nm x => simp [step, update_length]
  | setKey k nm x => simp [step, update_length]
  | setAll k xs => simp [step, update_length]
  | reset k => simp [step, update_length]
  | clone k =>
    simp only [step, World.spawn]; split
    · exact Nat.le_refl _
    · split <;> simp
  | dictRT k =>
    simp only [step, World.spawn]; split
    · exact Nat.le_refl _
    · split <;> simp

/-- FRAME: an operation addressed to vector `op.target` does not change anything any OTHER live vector
shows (values, bounds, defaults, names, flags, hit) — clones and originals are independent -/
theorem step_frame (eps : α) (w : World α) (op : Op α) (hw : WorldOk w) (j : Nat) (hj : j < w.vecs.length)
    (hne : j ≠ op.target) : (step eps w op).1.view j = w.view j := by
  cases op with
  | setAttr k nm x => exact update_view_other hw (fun v s' v' hk e => setAttr_effect (hw.each k v hk) nm x e) j hne
  | setKey k nm x => exact update_view_other hw (fun v s' v' hk e => setKey_effect (hw.each k v hk) nm x e) j hne
  | setAll k xs => exact update_view_other hw (fun v s' v' hk e => setAll_effect eps (hw.each k v hk) xs e) j hne
  | reset k => exact update_view_other hw (fun v s' v' hk e => reset_effect eps (hw.each k v hk) e) j hne
  | clone k => exact (spawn_ok hw fun v s' c hk e => clone_effect eps (hw.each k v hk) e).2 j hj
  | dictRT k => exact (spawn_ok hw fun v s' c hk e => dictRT_effect eps (hw.each k v hk) e).2 j hj

/-- clone / dictionary round-trip do not change the source either -/
theorem spawn_keeps_all (eps : α) (w : World α) (k : Nat) (hw : WorldOk w) (j : Nat) (hj : j < w.vecs.length) :
    (step eps w (.clone k)).1.view j = w.view j ∧ (step eps w (.dictRT k)).1.view j = w.view j :=
  ⟨(spawn_ok hw fun v s' c hk e => clone_effect eps (hw.each k v hk) e).2 j hj,
   (spawn_ok hw fun v s' c hk e => dictRT_effect eps (hw.each k v hk) e).2 j hj⟩

/-- FROZEN STEP: names, mins, maxs, defaults, check_bounds, check_hitbounds, accept_nan of every live vector
are the same after any operation -/
theorem step_frozen (eps : α) (w : World α) (op : Op α) (hw : WorldOk w) (j : Nat) (hj : j < w.vecs.length) :
    (step eps w op).1.frozen j = w.frozen j := by
  by_cases hne : j = op.target
  · cases op with
    | setAttr k nm x =>
      simp only [Op.target] at hne; subst hne
      exact update_frozen_self hw fun v s' v' hk e => setAttr_effect (hw.each j v hk) nm x e
    | setKey k nm x =>
      simp only [Op.target] at hne; subst hne
      exact update_frozen_self hw fun v s' v' hk e => setKey_effect (hw.each j v hk) nm x e
    | setAll k xs =>
      simp only [Op.target] at hne; subst hne
      exact update_frozen_self hw fun v s' v' hk e => setAll_effect eps (hw.each j v hk) xs e
    | reset k =>
      simp only [Op.target] at hne; subst hne
      exact update_frozen_self hw fun v s' v' hk e => reset_effect eps (hw.each j v hk) e
    | clone k => simp only [World.frozen]; rw [(spawn_keeps_all eps w k hw j hj).1]
    | dictRT k => simp only [World.frozen]; rw [(spawn_keeps_all eps w k hw j hj).2]
  · simp only [World.frozen]; rw [step_frame eps w op hw j hj hne]

/-- FROZEN, ALL HISTORIES: for every vector alive at some point, names / bounds / defaults / flags are the same
after any further sequence of operations -/
theorem run_frozen (eps : α) (ops : List (Op α)) : ∀ (w : World α), WorldOk w → ∀ j, j < w.vecs.length →
    (run eps w ops).frozen j = w.frozen j := by
  induction ops with
  | nil => intro w _ j _; rfl
  | cons op ops ih =>
    intro w hw j hj
    show (run eps (step eps w op).1 ops).frozen j = w.frozen j
    rw [ih _ (step_ok eps w op hw) j (Nat.lt_of_lt_of_le hj (step_length_le eps w op)), step_frozen eps w op hw j hj]

end order

/-! ### the hit flag tells exactly whether the latest assignment was clipped -/
section hit
variable {α : Type} [LinearOrder α] [AddCommGroup α] [IsOrderedAddMonoid α]

/-- the property's conditioning of assigned values: NaN, inside/on the bounds, or outside by more than EPS -/
def inRegion (eps : α) (x lo hi : XR α) : Bool := x.isNaN || XR.within x lo hi || XR.outsideEps eps x lo hi

/-- set by attribute / by key on element `i` (known name, accepted): element `i` becomes the assigned value
moved to the nearest bound, nothing else moves, and the flag is set iff hit checking is on and the stored
value differs from the assigned one. No margin is involved on this path, hence no conditioning. -/
theorem setAttr_hit_exact {s s' : Store α} {v v' : Vec} (h : VecOk s v) (nm : String) (i : Nat) (x : XR α)
    (hi : indexOf nm v.names = some i) (e : setAttr s v nm x = ((s', v'), .ok)) :
    ∃ lo hi, (s.cells v.mins)[i]? = some lo ∧ (s.cells v.maxs)[i]? = some hi
      ∧ s'.cells v'.values = (s.cells v.values).set i (XR.clipNp x lo hi)
      ∧ (v'.hit = true ↔ v.checkHit = true ∧ XR.clipNp x lo hi ≠ x) := by
  unfold setAttr at e
  simp only [hi] at e
  split at e
  · simp at e
  · split at e
    · rename_i lo hi' hlo hhi
      simp only [Prod.mk.injEq, and_true] at e; obtain ⟨rfl, rfl⟩ := e
      have hb := all2_get boundElem _ _ i lo hi' h.bounds hlo hhi
      simp only [boundElem, Bool.and_eq_true, Bool.not_eq_true'] at hb
      refine ⟨lo, hi', hlo, hhi, ?_, ?_⟩
      · simp [XR.clipPy_eq_clipNp x lo hi' hb.1.1 hb.1.2]
      · cases hx : x.isNaN
        · rw [XR.clipNp_ne_iff x lo hi' hx hb.1.1 hb.1.2 hb.2]
          cases hc : v.checkHit
          · simp [h.hit_off hc]
          · simp
        · have := XR.isNaN_eq_nan hx; subst this
          rw [XR.clipNp_nan]
          cases hc : v.checkHit
          · simp [h.hit_off hc]
          · cases lo <;> cases hi' <;> simp [XR.outside, XR.lt]
    · simp at e

theorem elem_hit_iff {eps : α} (heps : 0 ≤ eps) (x l h : XR α) (hb : boundElem l h = true)
    (hr : inRegion eps x l h = true) : XR.outsideEps eps x l h = true ↔ XR.clipNp x l h ≠ x := by
  simp only [boundElem, Bool.and_eq_true, Bool.not_eq_true'] at hb
  cases hx : x.isNaN
  · rw [XR.clipNp_ne_iff x l h hx hb.1.1 hb.1.2 hb.2]
    constructor
    · exact XR.outside_of_outsideEps heps x l h
    · intro ho
      simp only [inRegion, hx, Bool.false_or, Bool.or_eq_true] at hr
      rcases hr with hw | he
      · simp only [XR.within, XR.outside, Bool.and_eq_true, Bool.not_eq_true', Bool.or_eq_true] at hw ho
        rcases ho with ho | ho <;> simp_all
      · exact he
  · have := XR.isNaN_eq_nan hx; subst this
    rw [XR.clipNp_nan]
    cases l <;> cases h <;> simp [XR.outsideEps, XR.lt, XR.subEps, XR.addEps]

theorem hitAll_iff {eps : α} (heps : 0 ≤ eps) : ∀ (xs lo hi : List (XR α)), boundsOk lo hi = true →
    all3 (inRegion eps) xs lo hi = true → xs.length = lo.length → xs.length = hi.length →
    (hitAll eps xs lo hi = true ↔ clipAll xs lo hi ≠ xs) := by
  intro xs
  induction xs with
  | nil => intro lo hi _ _ h1 h2; cases lo <;> cases hi <;> simp_all [hitAll, any3, clipAll, map3]
  | cons x xs ih =>
    intro lo hi hb hr h1 h2
    cases lo with
    | nil => simp at h1
    | cons l lo =>
      cases hi with
      | nil => simp at h2
      | cons h hi =>
        simp only [boundsOk, all2, Bool.and_eq_true] at hb
        simp only [all3, Bool.and_eq_true] at hr
        have e1 := elem_hit_iff heps x l h hb.1 hr.1
        have e2 := ih lo hi hb.2 hr.2 (by simpa using h1) (by simpa using h2)
        simp only [hitAll] at e2
        simp only [hitAll, any3, clipAll, map3, Bool.or_eq_true, ne_eq, List.cons.injEq, not_and_or]
        simp only [clipAll] at e2
        rw [e1, e2]

/-- whole-vector assignment (accepted) with every assigned value inside/on the bounds, NaN, or more than EPS
outside: the new values are the assigned values clipped element-wise into a FRESH array, and the flag is set
iff hit checking is on and some stored value differs from the assigned one -/
theorem setAll_hit_exact {eps : α} (heps : 0 ≤ eps) {s s' : Store α} {v v' : Vec} (h : VecOk s v)
    (xs : List (XR α)) (e : setAll eps s v xs = ((s', v'), .ok))
    (hr : all3 (inRegion eps) xs (s.cells v.mins) (s.cells v.maxs) = true) :
    s'.cells v'.values = clipAll xs (s.cells v.mins) (s.cells v.maxs)
      ∧ s.next ≤ v'.values
      ∧ (v'.hit = true ↔ v.checkHit = true ∧ s'.cells v'.values ≠ xs) := by
  unfold setAll at e
  split at e
  · simp at e
  · rename_i hrej
    obtain ⟨hl, _⟩ := reject?_none hrej
    simp only [Prod.mk.injEq, and_true] at e; obtain ⟨rfl, rfl⟩ := e
    have hh := hitAll_iff heps xs _ _ h.bounds hr (by rw [hl, h.len_mins]) (by rw [hl, h.len_maxs])
    refine ⟨by simp, by simp, ?_⟩
    simp only [alloc_ref, alloc_cells_new, Bool.and_eq_true, hh]

/-- reset = assignment of the defaults: never clipped, so the flag is off afterwards and values = defaults -/
theorem reset_exact {eps : α} (heps : 0 ≤ eps) {s : Store α} {v : Vec} (h : VecOk s v) :
    ∃ s' v', reset eps s v = ((s', v'), .ok) ∧ s'.cells v'.values = s.cells v.defaults ∧ v'.hit = false
      ∧ s.next ≤ v'.values := by
  have hn := valuesOk_nan_an v.acceptNan _ _ _ h.defaults_ok (by rw [h.len_defaults, h.len_mins])
    (by rw [h.len_defaults, h.len_maxs])
  have hrej := reject?_of_ok v.acceptNan v.n _ h.len_defaults hn
  have hc := clipAll_eq_self v.acceptNan _ _ _ h.bounds h.defaults_ok (by rw [h.len_defaults, h.len_mins])
    (by rw [h.len_defaults, h.len_maxs])
  have hh := hitAll_false_of_ok heps v.acceptNan _ _ _ h.defaults_ok
  refine ⟨(s.alloc (clipAll (s.cells v.defaults) (s.cells v.mins) (s.cells v.maxs))).1,
    { v with values := s.next,
             hit := v.checkHit && hitAll eps (s.cells v.defaults) (s.cells v.mins) (s.cells v.maxs) },
    ?_, ?_, ?_, ?_⟩
  · simp only [reset, setAll, hrej, alloc_ref]
  · simp [hc]
  · simp [hh]
  · simp

end hit

/-! ### clone and dictionary round-trip reproduce the full observable state as independent copies -/
section copies
variable {α : Type} [LinearOrder α] [AddCommGroup α] [IsOrderedAddMonoid α]

theorem VecOk.arraysOk {s : Store α} {v : Vec} (h : VecOk s v) :
    ArraysOk v.names v.checkBounds v.checkHit v.acceptNan (s.cells v.mins) (s.cells v.maxs) (s.cells v.defaults) :=
  ⟨h.len_mins, h.len_maxs, h.len_defaults, h.bounds, h.defaults_ok, h.names, h.flags⟩

/-- `clone()` of any live vector in any reachable world: never rejected; the new vector shows exactly what
the source shows (names, values, bounds, defaults, hit flag, all three option flags); every array of the new
vector is freshly allocated (so disjoint from every array that existed); every existing vector, the source
included, shows what it showed before; the world stays well formed (hence later operations on either side
never reach the other: `step_frame`). -/
theorem clone_spec {eps : α} (heps : 0 ≤ eps) (w : World α) (hw : WorldOk w) (k : Nat) (v : Vec)
    (hk : w.vecs[k]? = some v) :
    ∃ w' c, step eps w (.clone k) = (w', .ok) ∧ w'.vecs = w.vecs ++ [c]
      ∧ w'.view w.vecs.length = w.view k
      ∧ (∀ r ∈ c.refs, w.store.next ≤ r)
      ∧ (∀ j, j < w.vecs.length → w'.view j = w.view j)
      ∧ WorldOk w' := by
  have ok := hw.each k v hk
  obtain ⟨s', c, e, vw⟩ := rebuild_self heps w.store v.hit ok.arraysOk ok.values_ok ok.len_values
  have ec : clone eps w.store v = .ok (s', c) := e
  obtain ⟨sp, _⟩ := clone_effect eps ok ec
  have hstep : step eps w (.clone k) = (⟨s', w.vecs ++ [c]⟩, .ok) := by
    simp only [step, World.spawn, hk, ec]
  have hall := spawn_ok hw (k := k) (f := fun s v => clone eps s v)
    (fun v s' c hk e => clone_effect eps (hw.each k v hk) e)
  have hstep' : (w.spawn k fun s v => clone eps s v) = (⟨s', w.vecs ++ [c]⟩, .ok) := hstep
  rw [hstep'] at hall
  refine ⟨_, c, hstep, rfl, ?_, sp.fresh, hall.2, hall.1⟩
  show ((w.vecs ++ [c])[w.vecs.length]?).map (C12.view s') = (w.vecs[k]?).map (C12.view w.store)
  rw [List.getElem?_concat_length, hk, Option.map_some, Option.map_some, vw]; rfl

/-- the same for `Vector.from_dict(vect.to_dict())` -/
theorem dictRT_spec {eps : α} (heps : 0 ≤ eps) (w : World α) (hw : WorldOk w) (k : Nat) (v : Vec)
    (hk : w.vecs[k]? = some v) :
    ∃ w' c, step eps w (.dictRT k) = (w', .ok) ∧ w'.vecs = w.vecs ++ [c]
      ∧ w'.view w.vecs.length = w.view k
      ∧ (∀ r ∈ c.refs, w.store.next ≤ r)
      ∧ (∀ j, j < w.vecs.length → w'.view j = w.view j)
      ∧ WorldOk w' := by
  have ok := hw.each k v hk
  obtain ⟨s', c, e, vw⟩ := rebuild_self heps w.store v.hit ok.arraysOk ok.values_ok ok.len_values
  obtain ⟨il, i1, i2, i3, i4, i5⟩ := items_spec v.n v.names (w.store.cells v.values) (w.store.cells v.mins)
    (w.store.cells v.maxs) (w.store.cells v.defaults) rfl ok.len_values ok.len_mins ok.len_maxs ok.len_defaults
  have ht : List.take v.n (items v.names (w.store.cells v.values) (w.store.cells v.mins) (w.store.cells v.maxs)
      (w.store.cells v.defaults)) = items v.names (w.store.cells v.values) (w.store.cells v.mins)
      (w.store.cells v.maxs) (w.store.cells v.defaults) := List.take_of_length_le (by omega)
  have ec : fromDict eps w.store (toDict w.store v) = .ok (s', c) := by
    unfold fromDict
    simp only [toDict, il, Nat.lt_irrefl, if_false]
    rw [ht, i1, i2, i3, i4, i5]; exact e
  obtain ⟨sp, _⟩ := dictRT_effect eps ok ec
  have hstep : step eps w (.dictRT k) = (⟨s', w.vecs ++ [c]⟩, .ok) := by
    simp only [step, World.spawn, hk, ec]
  have hall := spawn_ok hw (k := k) (f := fun s v => fromDict eps s (toDict s v))
    (fun v s' c hk e => dictRT_effect eps (hw.each k v hk) e)
  have hstep' : (w.spawn k fun s v => fromDict eps s (toDict s v)) = (⟨s', w.vecs ++ [c]⟩, .ok) := hstep
  rw [hstep'] at hall
  refine ⟨_, c, hstep, rfl, ?_, sp.fresh, hall.2, hall.1⟩
  show ((w.vecs ++ [c])[w.vecs.length]?).map (C12.view s') = (w.vecs[k]?).map (C12.view w.store)
  rw [List.getElem?_concat_length, hk, Option.map_some, Option.map_some, vw]; rfl

/-- the exported dictionary holds exactly the observable state (so a round-trip loses nothing) -/
theorem toDict_faithful (s : Store α) (v : Vec) (h : VecOk s v) :
    let d := toDict s v
    d.nval = v.n ∧ d.hit = v.hit ∧ d.checkBounds = v.checkBounds ∧ d.checkHit = v.checkHit
      ∧ d.acceptNan = v.acceptNan ∧ d.data.length = v.n
      ∧ d.data.map (·.name) = v.names ∧ d.data.map (·.value) = s.cells v.values
      ∧ d.data.map (·.min) = s.cells v.mins ∧ d.data.map (·.max) = s.cells v.maxs
      ∧ d.data.map (·.default) = s.cells v.defaults := by
  obtain ⟨il, i1, i2, i3, i4, i5⟩ := items_spec v.n v.names (s.cells v.values) (s.cells v.mins) (s.cells v.maxs)
    (s.cells v.defaults) rfl h.len_values h.len_mins h.len_maxs h.len_defaults
  exact ⟨rfl, rfl, rfl, rfl, rfl, il, i1, i2, i3, i4, i5⟩

end copies

/-! ### transforms: read-only uses leave parameter values, constants and bounds unchanged -/
section transforms
variable {α : Type} [LinearOrder α] [Add α] [Sub α] [OfNat α 0]

/-- a transform whose three vectors are three different objects of the world -/
def Trans.wf (t : Trans) : Prop := t.bc ≠ t.params ∧ t.bc ≠ t.constants

theorem sync_ok (eps : α) (w : World α) (t : Trans) (hw : WorldOk w) : WorldOk (sync eps w t) := by
  unfold sync
  split
  · exact hw
  · rename_i xs _
    exact update_ok hw fun v s' v' hk e => setAll_effect eps (hw.each t.bc v hk) xs e

theorem sync_view (eps : α) (w : World α) (t : Trans) (hw : WorldOk w) (j : Nat) (hj : j ≠ t.bc) :
    (sync eps w t).view j = w.view j := by
  unfold sync
  split
  · rfl
  · rename_i xs _
    exact update_view_other hw (fun v s' v' hk e => setAll_effect eps (hw.each t.bc v hk) xs e) j hj

/-- READ-ONLY USES: forward, backward, jacobian, params_sample, params_logprior, printing leave everything the
parameter vector and the constant vector show — values, bounds, defaults, names, flags, hit — exactly as it
was (the only write, for the classes that own an inner BoxCox2, goes to that inner object's fresh array) -/
theorem readonly_preserves (eps : α) (w : World α) (t : Trans) (op : TOp α) (hw : WorldOk w) (ht : t.wf)
    (hro : op.readOnly = true) :
    (tstep eps w t op).1.view t.params = w.view t.params
      ∧ (tstep eps w t op).1.view t.constants = w.view t.constants := by
  cases op <;> simp only [TOp.readOnly] at hro <;> try (exact absurd hro (by simp))
  all_goals first
    | exact ⟨rfl, rfl⟩
    | exact ⟨sync_view eps w t hw _ (Ne.symm ht.1), sync_view eps w t hw _ (Ne.symm ht.2)⟩

/-- any interleaving of read-only calls and assignments keeps the world of the transform well formed: its
parameter values stay inside their bounds, NaN only where allowed (the constants of BoxCox1lam/1nu, LogSinh,
Manly) -/
theorem tstep_ok (eps : α) (w : World α) (t : Trans) (op : TOp α) (hw : WorldOk w) :
    WorldOk (tstep eps w t op).1 := by
  cases op with
  | forward => exact sync_ok eps w t hw
  | backward => exact sync_ok eps w t hw
  | jacobian => exact sync_ok eps w t hw
  | sample => exact hw
  | logprior => exact hw
  | print => exact hw
  | setItem nm x =>
    simp only [tstep]
    split
    · split
      · exact update_ok hw fun v s' v' hk e => setKey_effect (hw.each _ v hk) nm x e
      · split
        · exact update_ok hw fun v s' v' hk e => setKey_effect (hw.each _ v hk) nm x e
        · exact update_ok hw fun v s' v' hk e => setKey_effect (hw.each _ v hk) nm x e
    · exact hw
  | setAttr nm x =>
    simp only [tstep]
    split
    · split
      · exact update_ok hw fun v s' v' hk e => setAttr_effect (hw.each _ v hk) nm x e
      · split
        · exact update_ok hw fun v s' v' hk e => setAttr_effect (hw.each _ v hk) nm x e
        · exact hw
    · exact hw
  | reset => exact update_ok hw fun v s' v' hk e => reset_effect eps (hw.each _ v hk) e
  | setParams xs => exact update_ok hw fun v s' v' hk e => setAll_effect eps (hw.each _ v hk) xs e
  | setConstants xs => exact update_ok hw fun v s' v' hk e => setAll_effect eps (hw.each _ v hk) xs e

theorem trun_ok (eps : α) (t : Trans) (ops : List (TOp α)) : ∀ (w : World α), WorldOk w →
    WorldOk (ops.foldl (fun w op => (tstep eps w t op).1) w) := by
  induction ops with
  | nil => intro w hw; exact hw
  | cons op ops ih => intro w hw; exact ih _ (tstep_ok eps w t op hw)

/-- bounds, defaults, names and flags of the parameter and constant vectors (and of the inner BoxCox2) are the
same after ANY transform operation, assignments included -/
theorem tstep_frozen (eps : α) (w : World α) (t : Trans) (op : TOp α) (hw : WorldOk w) (j : Nat) :
    (tstep eps w t op).1.frozen j = w.frozen j := by
  have upd : ∀ (k : Nat) (f : Store α → Vec → (Store α × Vec) × Out),
      (∀ v s' v', w.vecs[k]? = some v → f w.store v = ((s', v'), .ok) → Assign w.store v s' v' ∧ VecOk s' v') →
      (w.update k f).1.frozen j = w.frozen j := by
    intro k f hf
    by_cases hjk : j = k
    · subst hjk; exact update_frozen_self hw hf
    · simp only [World.frozen]; rw [update_view_other hw hf j hjk]
  have hs : (sync eps w t).frozen j = w.frozen j := by
    unfold sync
    split
    · rfl
    · rename_i xs _
      exact upd _ _ fun v s' v' hk e => setAll_effect eps (hw.each t.bc v hk) xs e
  cases op with
  | forward => exact hs
  | backward => exact hs
  | jacobian => exact hs
  | sample => rfl
  | logprior => rfl
  | print => rfl
  | setItem nm x =>
    simp only [tstep]
    split
    · split
      · exact upd _ _ fun v s' v' hk e => setKey_effect (hw.each _ v hk) nm x e
      · split
        · exact upd _ _ fun v s' v' hk e => setKey_effect (hw.each _ v hk) nm x e
        · exact upd _ _ fun v s' v' hk e => setKey_effect (hw.each _ v hk) nm x e
    · rfl
  | setAttr nm x =>
    simp only [tstep]
    split
    · split
      · exact upd _ _ fun v s' v' hk e => setAttr_effect (hw.each _ v hk) nm x e
      · split
        · exact upd _ _ fun v s' v' hk e => setAttr_effect (hw.each _ v hk) nm x e
        · rfl
    · rfl
  | reset => exact upd _ _ fun v s' v' hk e => reset_effect eps (hw.each _ v hk) e
  | setParams xs => exact upd _ _ fun v s' v' hk e => setAll_effect eps (hw.each _ v hk) xs e
  | setConstants xs => exact upd _ _ fun v s' v' hk e => setAll_effect eps (hw.each _ v hk) xs e

end transforms

/-! ### the hypotheses are satisfiable: concrete, non-trivial instances over `Int` -/
section examples

/-- a 2-name vector with half-infinite bounds, hit checking on, NaN allowed; the history assigns out of bounds by
key, clones, assigns a NaN by attribute on the clone, round-trips it and resets the original -/
def exInit : Except Err (World Int) :=
  init (1 : Int) ["a", "b"] (some [.fin 5, .nan]) (some [.fin 0, .ninf]) (some [.fin 10, .pinf]) true true true

def exOps : List (Op Int) :=
  [.setKey 0 "a" (.fin 50), .clone 0, .setAttr 1 "b" .nan, .dictRT 1, .reset 0, .setAll 0 [.fin 3],
   .setAll 1 [.fin (-4), .pinf]]

example : (match exInit with
    | .ok w => ((run 1 w exOps).vecs.length, (run 1 w exOps).view 0 |>.map (·.values),
                (run 1 w exOps).view 1 |>.map (fun v => (v.values, v.hit)), (run 1 w exOps).view 2 |>.map (·.hit))
    | .error _ => (0, none, none, none))
    = (3, some [.fin 5, .nan], some ([.fin 0, .pinf], true), some true) := by decide

/-- `init_ok`'s hypotheses hold for it (NaN-free bounds) -/
example : (∀ m, (some [XR.fin (0 : Int), .ninf]) = some m → m.any XR.isNaN = false) := by
  intro m h; cases h; decide

/-- the region hypothesis of `setAll_hit_exact` is met by an assignment that IS clipped -/
example : all3 (inRegion (1 : Int)) [.fin 50, .nan] [.fin 0, .ninf] [.fin 10, .pinf] = true := by decide

/-- a well-formed transform descriptor (params 0, constants 1, inner BoxCox2 2) -/
example : (⟨.bc1lam, 0, 1, 2⟩ : Trans).wf := by constructor <;> decide

end examples

end HydroVerif.C12
