/-
C13 — property theorems. Model: `HydroVerif/Model/C13.lean`.

Clause → theorems → what remains outside (every model function named below runs in `Drivers/C13.lean` and is compared
with the real code by `harness/c13.py`; the op is given in brackets)

| clause of the property                                        | theorems (all shapes, all words, all histories)               | outside the theorems |
|---------------------------------------------------------------|----------------------------------------------------------------|----------------------|
| saved to BIL + header and loaded back: identical shape,       | `header_roundtrip`, `header_dtype_table`, `load_file`,         | float text: `IOok`, `NodataPrintable` are hypotheses about  |
| georeferencing, dtype, no-data value [save, load, files]      | `load_saveData`, `fromStream_file`, `save_load`,               | CPython/numpy (`external_text_statement`), checked directly |
|                                                               | `save_fromHeader_files` (file names: `save(dir/stem.bil)`,     | on all float16 and random float32/64 words; `tofile`,       |
|                                                               | `from_header` on either file), `save_fromZip_files`,           | `fromfile`, zipfile, the file system (end-to-end oracle)    |
|                                                               | `save_name_guard_too_weak`                                     |                                                             |
| … bit-identical cell values, every supported type             | `decode_encode`, `fromfile_encode`, `clipWord_id` (integer AND | the order of two floats is read off the bit patterns (no    |
| (full range, NaN/inf) [save, load, setdata, run]              | float bounds), `clipWord_word`, `clipData_default`,            | rounding); which zero `np.maximum(-0.0, 0.0)` returns is    |
|                                                               | `setData_id`, `load_file`, `save_load`,                        | platform dependent (never generated)                        |
|                                                               | `clipWord_inf_needs_infinite_bounds` (why the default bounds   |                                                             |
|                                                               | must be infinite)                                              |                                                             |
| … rasters of either byte order [savebo, load]                 | `fromStream_file` (bo = I, M), `decode_little_encode_big_iff`  | a grid object itself is always native: `M` only on files    |
| exported to a dictionary and rebuilt: shape, georef, dtype,   | `dtypeOfStr_dtypeStr`, `nodataWord_text`, `dict_roundtrip`,    | numpy scalar construction from text (same `NumIO`)          |
| no-data value [todict, fromdict, fromdictp]                   | `fromDictP_full`, `fromDictP_defaults`                         |                                                             |
| cloned: identical, bit-identical cells [clone, cloneas]       | `clone_eq`, `cloneAs_same`                                     | `copy.deepcopy` itself (clone is the identity on the record)|
| clones are independent of the original [store, storeas,       | `clone_independent`, `cloneAs_independent`,                    | metadata attributes of two Python objects (scalars/strings):|
| store3]                                                       | `handles_independent` (any number of clones, any history,      | oracle only                                                 |
|                                                               | rejected assignments included: `store_setData_rejected`)       |                                                             |
| catchment rebuilt from its dictionary: same outlet, inlets    | `catchToDict_ok_iff`, `catchment_dict_roundtrip`,              | delineation itself (C06); the flow-direction DATA are not   |
| (present or None), areas [catch, crun]                        | `catchment_history`, `delineate_step`                          | in the dictionary (by design of the code)                   |
| clipped grid holds exactly the parent's values at coinciding  | `clip_parent_values`, `clip_wellformed`, `clip_of_clip`        | exact coincidence of the cell CENTRES and which cell a      |
| cell centres, boxes with both corners in the extent [clip]    | (exact arithmetic); `clip_block_any_arithmetic` (ANY           | corner within an ulp of an edge falls in: exact arithmetic   |
|                                                               | arithmetic, IEEE included: the clip IS a block of the parent,  | only (correspondence at Float + centre oracle)               |
|                                                               | bit-identical), `clip_succeeds_monotone` (monotone rounding),  |                                                             |
|                                                               | `floor_offset_monotone`                                        |                                                             |
| histories: save → edit → save → load; load → edit → to_dict;  | `edits_preserve_gridOK`, `save_load_after_edits`,              | re-assignment of `dtype`, `nrows`, `ncols` (not in the      |
| attribute re-assignment between exports; ANY sequence of      | `dict_after_edits`; state machine over `List Op`:              | quantifier)                                                  |
| public mutators, accepted or REJECTED [edits, run, getitem]   | `stateOK_of_default`, `mutators_keep_invariant`,               |                                                             |
|                                                               | `rejected_call_leaves_state`, `data_assignment_cases`,         |                                                             |
|                                                               | `save_load_after_history`, `dict_after_history`, `opWF_int`,   |                                                             |
|                                                               | `item_write_then_read`; closure under the constructors:        |                                                             |
|                                                               | `loaded_grid_is_grid`, `clipped_grid_is_grid`,                 |                                                             |
|                                                               | `history_from_files`, `history_from_clip`                      |                                                             |
| (diagnostic) the pinned code's float64 detour                 | `roundF64_small` + example                                     |                                                             |

Hypotheses the property text does not state, and where they come from: `IOok` / `NodataPrintable` / `OpWF` for float values
(external: numpy's printer, reader and scalar constructors; discharged for the integer types: `external_text_partial`,
`opWF_int`); `AboveLo` / `BelowHi` of `clipWord_id` (needed: `clipWord_inf_needs_infinite_bounds`; discharged for the default
bounds: `clipData_default`); `stem ≠ []` and the dot of `.bil` in `save_fromHeader_files` (needed: `save_name_guard_too_weak`);
`x0 ≤ x1`, `y0 ≤ y1`, `0 < csz` of the clip theorems (corners in the wrong order give an error or an empty grid: probed by the
harness, `clip/swapped_corners`); `StateOK` (established by every constructor: `stateOK_of_default` with `header_roundtrip`,
`dict_roundtrip`, `clip_block_any_arithmetic`, and kept by every mutator).
-/
import HydroVerif.Lemmas.C13Header
import HydroVerif.Lemmas.C13Clip
import HydroVerif.Lemmas.C13Examples
import HydroVerif.Lemmas.C13Machine
import HydroVerif.Lemmas.C13Files
import HydroVerif.Lemmas.C13ClipAny
import HydroVerif.Lemmas.C13Closure

namespace HydroVerif.C13

/-! ## 1. type tables -/

/-- the dtype string written by `to_dict` is read back by `from_dict` as the same type, for the 11 supported types -/
theorem dtypeOfStr_dtypeStr : ∀ t ∈ allDTypes, dtypeOfStr (dtypeStr t) = some (.little, t) := by
  decide

/-- `allDTypes` is exactly the set of supported types -/
theorem supported_iff_mem (t : DType) : t.supported = true ↔ t ∈ allDTypes := by
  obtain ⟨k, b⟩ := t
  cases k <;> simp [DType.supported, allDTypes] <;> omega

/-- **header type table**: for each of the 11 supported types, the dtype name is recognised by `save`
(`signedint / unsignedint / float`), the PIXELTYPE value written is read back as that pixel type, and the string
`from_stream` hands to `np.dtype` — byte-order character, regex-reduced pixel type, `NBITS // 8` — resolves to the
same type with the byte order of the header letter, for `I` and for `M` -/
theorem header_dtype_table : ∀ t ∈ allDTypes,
    pixelTypeOfName (stripTrailingDigits (dtypeName t)) = some (pixOf t.kind) ∧
    lower (strip (joinSp (splitRunsAux true (upper (pixOf t.kind) ++ ['\n'])))) = pixOf t.kind ∧
    dtypeOfStr ('<' :: (pixelSub (pixOf t.kind) ++ intStr (Int.fdiv ((t.bytes * 8 : Nat) : Int) 8))) = some (.little, t) ∧
    dtypeOfStr ('>' :: (pixelSub (pixOf t.kind) ++ intStr (Int.fdiv ((t.bytes * 8 : Nat) : Int) 8))) = some (.big, t) :=
  pixel_table

/-! ## 2. bytes -/

/-- a word written in a byte order and read in the same byte order is unchanged -/
theorem decode_encode (bo : ByteOrder) (n w : Nat) (h : w < 256 ^ n) : decode bo (encode bo n w) = w := by
  cases bo <;> simp [decode, encode, decodeLE_encodeLE n w h]

/-- reading big-endian bytes as little-endian returns the word only when its byte string is a palindrome:
the byte order of the header must be honoured -/
theorem decode_little_encode_big_iff (n w : Nat) (h : w < 256 ^ n) :
    decode .little (encode .big n w) = w ↔ (encodeLE n w).reverse = encodeLE n w := by
  simp only [decode, encode]
  constructor
  · intro hd
    apply decodeLE_injective (by simp)
    rw [hd, decodeLE_encodeLE n w h]
  · intro hp
    rw [hp, decodeLE_encodeLE n w h]

/-- `np.fromfile` with byte order `bo` recovers the words of a file that stores them in byte order `bo` -/
theorem fromfile_encode (bo : ByteOrder) (t : DType) (ht : 0 < t.bytes) (ws : List Nat)
    (hw : ∀ w ∈ ws, w < wordBound t) :
    fromfile bo t (ws.flatMap (encode bo t.bytes)) = ws := by
  unfold fromfile
  rw [List.flatMap_def, chunks_flatten t.bytes ht]
  · rw [List.map_map]
    calc ws.map (decode bo ∘ encode bo t.bytes) = ws.map id := by
          apply List.map_congr_left
          intro w hwm
          exact decode_encode bo t.bytes w (hw w hwm)
      _ = ws := List.map_id _
  · intro b hb
    obtain ⟨w, _, rfl⟩ := List.mem_map.mp hb
    cases bo <;> simp [encode, encodeLE_length]

/-! ## 3. the data path is the identity -/

/-- `_clipdata` followed by `astype` leaves every value inside `[mindata, maxdata]` bit-identical, for the integer
AND the float types: an infinite bound (`none`, or a float bound set to `±inf` / NaN) constrains nothing, a NaN value
passes, and the order is the integer order resp. the order of float values read off the bit patterns
(`AboveLo`, `BelowHi`) -/
theorem clipWord_id (t : DType) (lo hi : Option Int) (w : Nat) (hw : w < wordBound t)
    (hlo : ∀ l, lo = some l → AboveLo t l w) (hhi : ∀ h, hi = some h → BelowHi t h w) :
    clipWord t lo hi w = w :=
  clipWord_id' t lo hi w hw hlo hhi

/-- whatever the bounds, `_clipdata` returns a word of the grid's dtype (for the float types a bound is a bit pattern
of the dtype: `BoundsOK`, kept by the `mindata / maxdata` setters, see `mutators_keep_invariant`) -/
theorem clipWord_word (t : DType) (lo hi : Option Int) (w : Nat) (hw : w < wordBound t) (hb : BoundsOK t lo hi) :
    clipWord t lo hi w < wordBound t :=
  clipWord_lt t lo hi w hw hb

/-- **the default bounds must be infinite** (the hypotheses `AboveLo / BelowHi` of `clipWord_id` cannot be dropped):
with the finite limits of the type as bounds (`np.finfo(t).min / max`) `_clipdata` turns `+inf` into the largest and
`-inf` into the lowest finite value — for float16, float32 and float64 — while every NaN and every finite value pass -/
theorem clipWord_inf_needs_infinite_bounds :
    clipWord ⟨.float, 2⟩ (some 0xfbff) (some 0x7bff) 0x7c00 = 0x7bff ∧
    clipWord ⟨.float, 2⟩ (some 0xfbff) (some 0x7bff) 0xfc00 = 0xfbff ∧
    clipWord ⟨.float, 4⟩ (some 0xff7fffff) (some 0x7f7fffff) 0x7f800000 = 0x7f7fffff ∧
    clipWord ⟨.float, 4⟩ (some 0xff7fffff) (some 0x7f7fffff) 0xff800000 = 0xff7fffff ∧
    clipWord ⟨.float, 8⟩ (some 0xffefffffffffffff) (some 0x7fefffffffffffff) 0x7ff0000000000000 = 0x7fefffffffffffff ∧
    clipWord ⟨.float, 8⟩ (some 0xffefffffffffffff) (some 0x7fefffffffffffff) 0xfff0000000000000 = 0xffefffffffffffff ∧
    clipWord ⟨.float, 4⟩ (some 0xff7fffff) (some 0x7f7fffff) 0x7fc00123 = 0x7fc00123 ∧
    clipWord ⟨.float, 4⟩ none none 0x7f800000 = 0x7f800000 := by
  decide

/-- with the default bounds the whole array goes through unchanged, whatever the values (NaN, inf, 2^63-1 …) -/
theorem clipData_default (t : DType) (rows : List (List Nat)) : clipData t none none rows = rows :=
  clipData_default' t rows

/-- the data setter keeps an array of the right shape bit-identical (default bounds) -/
theorem setData_id {ν : Type} (g : Grid ν) (rows : List (List Nat)) (hb : g.lo = none ∧ g.hi = none)
    (hr : (rows.length : Int) = g.nrows) (hc : ∀ r ∈ rows, (r.length : Int) = g.ncols) :
    setData g rows = .ok { g with data := rows } :=
  setData_id' g rows hb hr hc

/-- the detour through float64 that the data setter and `load` took at the pinned commit is the identity on integers
below 2^53 in magnitude only … -/
theorem roundF64_small (n : Int) (h : n.natAbs < 2 ^ 53) : roundF64 n = n := by
  unfold roundF64
  have hl : Nat.log2 n.natAbs + 1 - 53 = 0 := by
    by_cases h0 : n.natAbs = 0
    · rw [h0]; simp [Nat.log2]
    · have := (Nat.log2_lt h0).mpr h
      omega
  simp only [hl, pow_zero, Nat.div_one, Nat.mod_one, Nat.mul_zero, Nat.mul_one]
  have : ¬ (0 > 1 ∨ (0 = 1 ∧ n.natAbs % 2 = 1)) := by omega
  rw [if_neg this]
  split <;> omega

/-- … and loses the low bits above (the defect repaired by the `fix:` commit): 2^62+1 ↦ 2^62 -/
example : roundF64 (2 ^ 62 + 1) = 2 ^ 62 ∧ roundF64 (2 ^ 53 + 1) = 2 ^ 53 ∧ roundF64 (2 ^ 53 + 3) = 2 ^ 53 + 4 ∧
    roundF64 (-(2 ^ 62 + 1)) = -(2 ^ 62) := by
  decide

/-- **load**: a file that stores `rows` row by row in byte order `bo` is loaded, with that byte order, to exactly
`rows` — for every dtype with a positive item size, every shape and every word (full range, NaN, inf) -/
theorem load_file {ν : Type} (g : Grid ν) (bo : ByteOrder) (rows : List (List Nat))
    (ht : 0 < g.dtype.bytes) (hb : g.lo = none ∧ g.hi = none)
    (h0 : 0 ≤ g.ncols)
    (hr : (rows.length : Int) = g.nrows) (hc : ∀ r ∈ rows, (r.length : Int) = g.ncols)
    (hw : ∀ r ∈ rows, ∀ w ∈ r, w < wordBound g.dtype) :
    load g bo (rows.flatten.flatMap (encode bo g.dtype.bytes)) = .ok { g with data := rows } := by
  unfold load
  have hc' : ∀ r ∈ rows, r.length = g.ncols.toNat := by
    intro r hrm
    have := hc r hrm
    omega
  rw [fromfile_encode bo g.dtype ht rows.flatten (by
    intro w hwm
    obtain ⟨r, hrm, hwr⟩ := List.mem_flatten.mp hwm
    exact hw r hrm w hwr)]
  have hlen : (rows.flatten.length : Int) = g.nrows * g.ncols := by
    rw [length_flatten_uniform g.ncols.toNat rows hc', ← hr]
    push_cast
    rw [Int.toNat_of_nonneg h0]
  simp only [hlen, ne_eq, not_true_eq_false, if_false]
  have hn : g.nrows.toNat = rows.length := by omega
  rw [hn, reshape_flatten g.ncols.toNat rows hc', hb.1, hb.2, clipData_default]

/-- **save then load**: the bytes written by `tofile` are loaded back (byte order `I`) to the same words -/
theorem load_saveData {ν : Type} (g : Grid ν) (ht : 0 < g.dtype.bytes) (hb : g.lo = none ∧ g.hi = none)
    (h0 : 0 ≤ g.ncols) (hr : (g.data.length : Int) = g.nrows) (hc : ∀ r ∈ g.data, (r.length : Int) = g.ncols)
    (hw : ∀ r ∈ g.data, ∀ w ∈ r, w < wordBound g.dtype) :
    load g .little (saveData g.dtype g.data) = .ok g := by
  have := load_file g .little g.data ht hb h0 hr hc hw
  have he : encode ByteOrder.little g.dtype.bytes = encodeLE g.dtype.bytes := by
    funext w; rfl
  rw [he] at this
  exact this

/-! ## 4. the header is parsed back to what was written -/

/-- **header round trip** (`parse (write g) = meta g`): for every supported dtype, either byte-order letter, every
shape, any georeferencing numbers, any no-data value, ANY name and comment (line breaks included: `save` writes
them as blanks) and any parent attributes, the text written by `Grid.save` is split into the same lines, every line is accepted, and `from_stream` builds
a grid with the same shape, corner, cell size, dtype, byte order and no-data word (fresh zero data, default
bounds). External facts used: `float(str(x)) = x` and "`str(x)` has no white space" (`IOok`), and for float
no-data values `NodataPrintable`. -/
theorem header_roundtrip {ν : Type} (io : NumIO ν) (hio : IOok io) (bo : ByteOrder) (g : Grid ν) (hg : HeaderOK io g)
    (d : Str) :
    ∃ h, writeHeaderBO io bo g = .ok h ∧ ∃ c hi,
      parseLines io (Config.init io d) (readlines h) = .ok c ∧ finishConfig io c = .ok hi ∧
      hi.byteorder = bo ∧ hi.grid.nrows = g.nrows ∧ hi.grid.ncols = g.ncols ∧
      hi.grid.xll = g.xll ∧ hi.grid.yll = g.yll ∧ hi.grid.csz = g.csz ∧ hi.grid.dtype = g.dtype ∧
      hi.grid.nodata = g.nodata ∧ hi.grid.lo = none ∧ hi.grid.hi = none ∧
      hi.grid.data = zeros g.nrows.toNat g.ncols.toNat := by
  obtain ⟨hpix, hpixline, hdtL, hdtB⟩ := pixel_table g.dtype hg.supported
  unfold writeHeaderBO
  rw [hpix]
  refine ⟨_, rfl, ?_⟩
  simp only [List.append_assoc]
  have nlF : ∀ x, NoNL (io.showF x) := fun x => (hio.showF_token x).noNL
  have nlI : ∀ i, NoNL (intStr i) := fun i => (intStr_noSpace i).noNL
  have nlN : ∀ n, NoNL (natStr n) := fun n => (natStr_noSpace n).noNL
  have hcomment : NoNL (if oneLine g.comment = [] then "No comment".toList else oneLine g.comment) := by
    split
    · decide
    · exact oneLine_noNL _
  have hparent : ∀ a ∈ parentAttrs, ∀ v, lookup g.parent a = some v → NoNL (v.str io) := by
    intro a ha v hl
    cases v with
    | int n => exact nlI n
    | num x => exact nlF x
    | text t => exact hg.parent_text a ha t hl
  -- line by line
  have e1 := parseLine_int io (Config.init io d) 14 "NROWS".toList g.nrows (by decide) (by decide) (by decide)
  rw [readlines_fmtLine 14 _ _ _ (by decide) (nlI _), parseLines_step io _ _ _ _ e1]
  have e2 := parseLine_int io ((Config.init io d).setInt (lower "NROWS".toList) g.nrows) 14 "NCOLS".toList g.ncols
    (by decide) (by decide) (by decide)
  rw [readlines_fmtLine 14 _ _ _ (by decide) (nlI _), parseLines_step io _ _ _ _ e2]
  generalize hc2 : ((Config.init io d).setInt (lower "NROWS".toList) g.nrows).setInt (lower "NCOLS".toList) g.ncols = c2
  have e3 := parseLine_num io hio c2 14 "XLLCORNER".toList g.xll (by decide) (by decide) (by decide) (by decide)
  rw [readlines_fmtLine 14 _ _ _ (by decide) (nlF _), parseLines_step io _ _ _ _ e3]
  have e4 := parseLine_num io hio (c2.setNum (lower "XLLCORNER".toList) g.xll) 14 "YLLCORNER".toList g.yll
    (by decide) (by decide) (by decide) (by decide)
  rw [readlines_fmtLine 14 _ _ _ (by decide) (nlF _), parseLines_step io _ _ _ _ e4]
  generalize hc4 : (c2.setNum (lower "XLLCORNER".toList) g.xll).setNum (lower "YLLCORNER".toList) g.yll = c4
  have e5 := parseLine_num io hio c4 14 "CELLSIZE".toList g.csz (by decide) (by decide) (by decide) (by decide)
  rw [readlines_fmtLine 14 _ _ _ (by decide) (nlF _), parseLines_step io _ _ _ _ e5]
  have e6 := parseLine_int io (c4.setNum (lower "CELLSIZE".toList) g.csz) 14 "NBITS".toList ((g.dtype.bytes * 8 : Nat) : Int)
    (by decide) (by decide) (by decide)
  rw [intStr_natCast] at e6
  rw [readlines_fmtLine 14 _ _ _ (by decide) (nlN _), parseLines_step io _ _ _ _ e6]
  generalize hc6 : ((c4.setNum (lower "CELLSIZE".toList) g.csz).setInt (lower "NBITS".toList) ((g.dtype.bytes * 8 : Nat) : Int)) = c6
  have e7 := parseLine_text io c6 14 "PIXELTYPE".toList (upper (pixOf g.dtype.kind)) (by decide) (by decide)
  rw [hpixline] at e7
  have hpixnl : NoNL (upper (pixOf g.dtype.kind)) := by cases g.dtype.kind <;> decide
  rw [readlines_fmtLine 14 _ _ _ (by decide) hpixnl, parseLines_step io _ _ _ _ e7]
  have e8 := parseLine_text io (c6.setText (lower "PIXELTYPE".toList) (pixOf g.dtype.kind)) 14 "BYTEORDER".toList
    (boLetter bo) (by decide) (by decide)
  rw [byteorder_line] at e8
  rw [readlines_fmtLine 14 _ _ _ (by decide) (by cases bo <;> decide), parseLines_step io _ _ _ _ e8]
  generalize hc8 : ((c6.setText (lower "PIXELTYPE".toList) (pixOf g.dtype.kind)).setText (lower "BYTEORDER".toList)
    (boKey bo)) = c8
  obtain ⟨nv, e9, hnv, hnvnl⟩ := nodata_line io c8 g.dtype g.nodata hg.nodata_lt hg.nodata_printable
  rw [readlines_fmtLine 14 _ _ _ (by decide) hnvnl, parseLines_step io _ _ _ _ e9]
  have e10 := parseLine_text io (c8.setNodata "nodata_value".toList nv) 14 "NAME".toList (oneLine g.name) (by decide) (by decide)
  rw [readlines_fmtLine 14 _ _ _ (by decide) (oneLine_noNL _), parseLines_step io _ _ _ _ e10]
  generalize hc10 : ((c8.setNodata "nodata_value".toList nv).setText (lower "NAME".toList)
    (lower (strip (joinSp (splitRunsAux true (oneLine g.name ++ ['\n'])))))) = c10
  have e11 := parseLine_text io c10 14 "COMMENT".toList
    (if oneLine g.comment = [] then "No comment".toList else oneLine g.comment) (by decide) (by decide)
  rw [readlines_fmtLine 14 _ _ _ (by decide) hcomment, parseLines_step io _ _ _ _ e11]
  generalize hc11 : (c10.setText (lower "COMMENT".toList) (lower (strip (joinSp (splitRunsAux true
    ((if oneLine g.comment = [] then "No comment".toList else oneLine g.comment) ++ ['\n'])))))) = c11
  obtain ⟨p, hp⟩ := parseLines_parentBlock io g.parent parentAttrs hparent parentAttrs_ok c11
  suffices h : ∃ hi, finishConfig io { c11 with parent := p } = .ok hi ∧
      hi.byteorder = bo ∧ hi.grid.nrows = g.nrows ∧ hi.grid.ncols = g.ncols ∧
      hi.grid.xll = g.xll ∧ hi.grid.yll = g.yll ∧ hi.grid.csz = g.csz ∧ hi.grid.dtype = g.dtype ∧
      hi.grid.nodata = g.nodata ∧ hi.grid.lo = none ∧ hi.grid.hi = none ∧
      hi.grid.data = zeros g.nrows.toNat g.ncols.toNat by
    obtain ⟨hi, h1, h2⟩ := h
    exact ⟨_, hi, hp, h1, h2⟩
  subst hc11 hc10 hc8 hc6 hc4 hc2
  clear e1 e2 e3 e4 e5 e6 e7 e8 e9 e10 e11 hp
  have k1 : lower "NROWS".toList = "nrows".toList := by decide
  have k2 : lower "NCOLS".toList = "ncols".toList := by decide
  have k3 : lower "XLLCORNER".toList = "xllcorner".toList := by decide
  have k4 : lower "YLLCORNER".toList = "yllcorner".toList := by decide
  have k5 : lower "CELLSIZE".toList = "cellsize".toList := by decide
  have k6 : lower "NBITS".toList = "nbits".toList := by decide
  have k7 : lower "PIXELTYPE".toList = "pixeltype".toList := by decide
  have k8 : lower "BYTEORDER".toList = "byteorder".toList := by decide
  have k10 : lower "NAME".toList = "name".toList := by decide
  have k11 : lower "COMMENT".toList = "comment".toList := by decide
  rw [k1, k2, k3, k4, k5, k6, k7, k8, k10, k11]
  rw [setInt_nrows, setInt_ncols, setNum_xll, setNum_yll, setNum_csz, setInt_nbits, setText_pixeltype,
    setText_byteorder, setNodata_value, setText_name, setText_comment]
  have hshape : ¬ (g.nrows < 0 ∨ g.ncols < 0) := by
    have := hg.nrows_nonneg; have := hg.ncols_nonneg; omega
  cases bo with
  | little =>
    have hb1 : ¬ ("i".toList ≠ "m".toList ∧ "i".toList ≠ "i".toList) := by decide
    have hb2 : ¬ ("i".toList = "m".toList) := by decide
    simp only [boKey]
    unfold finishConfig
    dsimp only
    rw [if_neg hb1]
    simp only [if_neg hb2, hdtL, Config.init, mkGrid, hnv, if_neg hshape]
    exact ⟨_, rfl, rfl, rfl, rfl, rfl, rfl, rfl, rfl, rfl, rfl, rfl, rfl⟩
  | big =>
    have hb1 : ¬ ("m".toList ≠ "m".toList ∧ "m".toList ≠ "i".toList) := by decide
    simp only [boKey]
    unfold finishConfig
    dsimp only
    rw [if_neg hb1]
    simp only [↓reduceIte, hdtB, Config.init, mkGrid, hnv, if_neg hshape]
    exact ⟨_, rfl, rfl, rfl, rfl, rfl, rfl, rfl, rfl, rfl, rfl, rfl, rfl⟩

/-- **raster of either byte order**: the header written for `g` with byte-order letter `bo`, together with a data
file holding `g`'s words row by row in byte order `bo`, is loaded by `from_stream` to a grid with identical shape,
georeferencing, dtype, no-data value and bit-identical cell values -/
theorem fromStream_file {ν : Type} (io : NumIO ν) (hio : IOok io) (bo : ByteOrder) (g : Grid ν) (hg : GridOK io g)
    (d : Str) :
    ∃ h, writeHeaderBO io bo g = .ok h ∧ ∃ g',
      fromStream io d h (some (g.data.flatten.flatMap (encode bo g.dtype.bytes))) = .ok g' ∧
      g'.nrows = g.nrows ∧ g'.ncols = g.ncols ∧ g'.xll = g.xll ∧ g'.yll = g.yll ∧ g'.csz = g.csz ∧
      g'.dtype = g.dtype ∧ g'.nodata = g.nodata ∧ g'.data = g.data := by
  obtain ⟨h, hw, c, hi, hparse, hfin, hbo, hnr, hnc, hx, hy, hcs, hdt, hnd, hlo, hhi, _⟩ :=
    header_roundtrip io hio bo g hg.header d
  refine ⟨h, hw, ?_⟩
  have hload := load_file hi.grid bo g.data (by rw [hdt]; exact bytes_pos_of_mem hg.header.supported) ⟨hlo, hhi⟩
    (by rw [hnc]; exact hg.header.ncols_nonneg) (by rw [hnr]; exact hg.rows) (by rw [hnc]; exact hg.cols)
    (by rw [hdt]; exact hg.words)
  rw [hdt] at hload
  unfold fromStream
  simp only [hparse, hfin, hbo, hload]
  exact ⟨_, rfl, hnr, hnc, hx, hy, hcs, rfl, hnd, rfl⟩

/-- **save then load**: what `Grid.save` writes (header text, `tofile` bytes) is loaded back by
`from_header / from_stream / from_zip` to identical shape, georeferencing, dtype, no-data value and
bit-identical cell values -/
theorem save_load {ν : Type} (io : NumIO ν) (hio : IOok io) (g : Grid ν) (hg : GridOK io g) (d : Str) :
    ∃ h bytes, save io g = .ok (h, bytes) ∧ ∃ g', fromStream io d h (some bytes) = .ok g' ∧
      g'.nrows = g.nrows ∧ g'.ncols = g.ncols ∧ g'.xll = g.xll ∧ g'.yll = g.yll ∧ g'.csz = g.csz ∧
      g'.dtype = g.dtype ∧ g'.nodata = g.nodata ∧ g'.data = g.data := by
  obtain ⟨h, hw, g', hl, rest⟩ := fromStream_file io hio .little g hg d
  refine ⟨h, saveData g.dtype g.data, ?_, g', ?_, rest⟩
  · unfold save writeHeader; rw [hw]
  · have he : encode ByteOrder.little g.dtype.bytes = encodeLE g.dtype.bytes := by funext w; rfl
    rw [he] at hl
    exact hl

/-- **what is assumed of CPython / numpy** (not provable here: the shortest-repr printer and `float()` are external):
float printing has no white space and reads back exactly, and every float no-data word that is not a NaN with a
non-canonical payload is printed as a non-integer literal that reads back to the same word. The theorems above take
exactly these facts as hypotheses (`IOok`, `NodataPrintable`); the harness checks them directly on all 65536 float16
words and on random float32 / float64 words. -/
def external_text_statement {ν : Type} (io : NumIO ν) (isNaNWord : DType → Nat → Bool) : Prop :=
  IOok io ∧ ∀ t ∈ allDTypes, ∀ w, w < wordBound t → isNaNWord t w = false → NodataPrintable io t w

/-- the proved part: for the integer types nothing is assumed — their no-data text is produced and parsed concretely -/
theorem external_text_partial {ν : Type} (io : NumIO ν) (t : DType) (w : Nat) (hk : t.kind ≠ .float) :
    NodataPrintable io t w :=
  fun h => absurd h hk

/-! ## 5. dictionaries -/

/-- the no-data text of `to_dict` is turned back into the same scalar by the constructor -/
theorem nodataWord_text {ν : Type} (io : NumIO ν) (t : DType) (w : Nat) (hw : w < wordBound t)
    (hp : NodataPrintable io t w) : nodataWord io t (.text (nodataStr io t w)) = .ok w := by
  unfold nodataStr nodataWord
  cases hk : t.kind with
  | float =>
    obtain ⟨h1, _, y, h3, h4⟩ := hp hk
    simp only [strip_noSpace _ h1, h3, h4]
  | int =>
    simp only [strip_noSpace _ (intStr_noSpace _), parseInt?_intStr, intInRange_toInt t w hw, if_true,
      ofInt_toInt t w hw]
  | uint =>
    simp only [strip_noSpace _ (intStr_noSpace _), parseInt?_intStr, intInRange_toInt t w hw, if_true,
      ofInt_toInt t w hw]

/-- **grid dictionary round trip**: `Grid.from_dict(g.to_dict())` has the same name, shape, georeferencing, dtype,
no-data value and comment (its data are zeros: the dictionary carries metadata only) -/
theorem dict_roundtrip {ν : Type} (io : NumIO ν) (g : Grid ν) (hs : g.dtype ∈ allDTypes)
    (hw : g.nodata < wordBound g.dtype) (hp : NodataPrintable io g.dtype g.nodata)
    (hr : 0 ≤ g.nrows) (hc : 0 ≤ g.ncols) :
    ∃ g', fromDict io (toDict io g) = .ok g' ∧ g'.name = g.name ∧ g'.comment = g.comment ∧
      g'.nrows = g.nrows ∧ g'.ncols = g.ncols ∧ g'.xll = g.xll ∧ g'.yll = g.yll ∧ g'.csz = g.csz ∧
      g'.dtype = g.dtype ∧ g'.nodata = g.nodata ∧ g'.data = zeros g.nrows.toNat g.ncols.toNat := by
  unfold fromDict toDict
  have hshape : ¬ (g.nrows < 0 ∨ g.ncols < 0) := by omega
  simp only [dtypeOfStr_dtypeStr g.dtype hs, mkGrid, nodataWord_text io g.dtype g.nodata hw hp, if_neg hshape]
  exact ⟨_, rfl, rfl, rfl, rfl, rfl, rfl, rfl, rfl, rfl, rfl, rfl⟩

/-- `Catchment.to_dict` succeeds exactly on delineated catchments -/
theorem catchToDict_ok_iff {ν : Type} (io : NumIO ν) (c : Catchment ν) :
    (∃ d, catchToDict io c = .ok d) ↔ (c.area.isSome ∧ c.filled.isSome) := by
  unfold catchToDict
  cases c.area <;> cases c.filled <;> simp

/-- **catchment dictionary round trip**: outlet, inlets (present or absent), area cells and filled area cells
come back unchanged and in the same order, together with the name and the metadata of the flow-direction grid -/
theorem catchment_dict_roundtrip {ν : Type} (io : NumIO ν) (c : Catchment ν) (a f : List Int)
    (ha : c.area = some a) (hf : c.filled = some f) (hs : c.flowdir.dtype = int64)
    (hw : c.flowdir.nodata < wordBound int64) (hr : 0 ≤ c.flowdir.nrows) (hc : 0 ≤ c.flowdir.ncols) :
    ∃ d c', catchToDict io c = .ok d ∧ catchFromDict io d = .ok c' ∧
      c'.name = c.name ∧ c'.outlet = c.outlet ∧ c'.inlets = c.inlets ∧ c'.area = c.area ∧ c'.filled = c.filled ∧
      c'.flowdir.nrows = c.flowdir.nrows ∧ c'.flowdir.ncols = c.flowdir.ncols ∧ c'.flowdir.xll = c.flowdir.xll ∧
      c'.flowdir.yll = c.flowdir.yll ∧ c'.flowdir.csz = c.flowdir.csz ∧ c'.flowdir.dtype = c.flowdir.dtype ∧
      c'.flowdir.nodata = c.flowdir.nodata := by
  have hmem : c.flowdir.dtype ∈ allDTypes := by rw [hs]; decide
  have hp : NodataPrintable io c.flowdir.dtype c.flowdir.nodata := by
    intro hk; rw [hs] at hk; exact absurd hk (by decide)
  obtain ⟨g', hg', _, _, h3, h4, h5, h6, h7, h8, h9, _⟩ :=
    dict_roundtrip io c.flowdir hmem (by rw [hs]; exact hw) hp hr hc
  unfold catchToDict
  simp only [ha, hf]
  let d : CatchDict ν :=
    { name := c.name, outlet := c.outlet, inlets := c.inlets, area := a, filled := f, flowdir := toDict io c.flowdir }
  let c' : Catchment ν :=
    { name := c.name, flowdir := { g' with dtype := int64 }, outlet := c.outlet, inlets := c.inlets, area := some a,
      filled := some f }
  have hfrom : catchFromDict io d = .ok c' := by
    simp only [catchFromDict, d, hg', c']
  exact ⟨d, c', rfl, hfrom, rfl, rfl, rfl, rfl, rfl, h3, h4, h5, h6, h7, hs.symm, h9⟩

/-! ## 6. clones -/

/-- a clone is the same grid: shape, georeferencing, dtype, no-data value, bounds, parent attributes and every
cell word -/
theorem clone_eq {ν : Type} (g : Grid ν) : clone g = g := rfl

/-- **clone independence** (`copy.deepcopy`): the clone sees the same cell words as the original at the moment of
cloning; afterwards any sequence of item writes, fills and data rebindings applied through the clone leaves the
original's cells unchanged, and any such sequence applied through the original leaves the clone's cells unchanged -/
theorem clone_independent (s : Store) (a : Handle) (ha : a.arr < s.length) (ops : List SOp) :
    (s.clone a).1.read (s.clone a).2 = s.read a ∧
    (applyAll (s.clone a).1 (s.clone a).2 ops).1.read a = s.read a ∧
    (applyAll (s.clone a).1 a ops).1.read (s.clone a).2 = s.read a := by
  have hb : (s.clone a).2.arr < (s.clone a).1.length := by simp [Store.clone]
  have ha' : a.arr < (s.clone a).1.length := by simp [Store.clone]; omega
  have hne : a.arr ≠ (s.clone a).2.arr := by simp [Store.clone]; omega
  have hread : (s.clone a).1.read (s.clone a).2 = s.read a := by simp [Store.clone, read_append_new]
  refine ⟨hread, ?_, ?_⟩
  · rw [applyAll_other ops _ a _ ha' hb hne]
    simp [Store.clone, read_append _ _ _ ha]
  · rw [applyAll_other ops _ _ a hb ha' (Ne.symm hne), hread]

/-- **independence of `clone(dtype)`**, for every conversion `f` — in particular the identity, i.e. `dtype` equal to
the grid's own dtype (what `Catchment.__init__` does with an int64 flow-direction grid): the clone holds the
converted words in a NEW array; afterwards writes through the clone never reach the original and writes through the
original never reach the clone -/
theorem cloneAs_independent (s : Store) (a : Handle) (ha : a.arr < s.length) (f : Nat → Nat) (ops : List SOp) :
    (s.cloneMap a f).1.read (s.cloneMap a f).2 = (s.read a).map (fun r => r.map f) ∧
    (s.cloneMap a f).2.arr ≠ a.arr ∧
    (applyAll (s.cloneMap a f).1 (s.cloneMap a f).2 ops).1.read a = s.read a ∧
    (applyAll (s.cloneMap a f).1 a ops).1.read (s.cloneMap a f).2 = (s.read a).map (fun r => r.map f) := by
  have hb : (s.cloneMap a f).2.arr < (s.cloneMap a f).1.length := by simp [Store.cloneMap]
  have ha' : a.arr < (s.cloneMap a f).1.length := by simp [Store.cloneMap]; omega
  have hne : a.arr ≠ (s.cloneMap a f).2.arr := by simp [Store.cloneMap]; omega
  have hread : (s.cloneMap a f).1.read (s.cloneMap a f).2 = (s.read a).map (fun r => r.map f) := by
    simp [Store.cloneMap, read_append_new]
  refine ⟨hread, Ne.symm hne, ?_, ?_⟩
  · rw [applyAll_other ops _ a _ ha' hb hne]
    simp [Store.cloneMap, read_append _ _ _ ha]
  · rw [applyAll_other ops _ _ a hb ha' (Ne.symm hne), hread]

/-- `clone(dtype)` with the grid's own dtype is the grid itself (same words): `astype` has nothing to convert -/
theorem cloneAs_same {ν : Type} (io : NumIO ν) (g : Grid ν) : cloneAs io g g.dtype = g := by
  unfold cloneAs
  have hw : ∀ w, astypeWord io g.dtype g.dtype w = w := by intro w; simp [astypeWord]
  have hr : ∀ r : List Nat, r.map (astypeWord io g.dtype g.dtype) = r := fun r =>
    (List.map_congr_left (fun w _ => hw w)).trans (List.map_id _)
  have hd : g.data.map (fun r => r.map (astypeWord io g.dtype g.dtype)) = g.data :=
    (List.map_congr_left (fun r _ => hr r)).trans (List.map_id _)
  rw [hd]

/-! ## 6b. histories: any sequence of edits between two exports -/

/-- admissible edits (item writes, fills, data re-assignments of the grid's shape and dtype, re-assignment of name,
comment, corner, cell size, no-data value) keep the grid inside the property's domain, for histories of any length -/
theorem edits_preserve_gridOK {ν : Type} (io : NumIO ν) (es : List (Edit ν)) : ∀ (g : Grid ν), GridOK io g →
    (∀ e ∈ es, EditOK io g e) → ∃ g', applyEdits g es = .ok g' ∧ GridOK io g' ∧ SameFrame g g' := by
  induction es with
  | nil => intro g hg _; exact ⟨g, rfl, hg, rfl, rfl, rfl, rfl, rfl, rfl⟩
  | cons e es ih =>
    intro g hg hes
    obtain ⟨g1, h1, hg1, hf1⟩ := applyEdit_ok io g hg e (hes e (by simp))
    obtain ⟨g2, h2, hg2, hf2⟩ := ih g1 hg1 (fun e' he' => editOK_frame io g g1 hf1 e' (hes e' (by simp [he'])))
    refine ⟨g2, ?_, hg2, ?_⟩
    · simp only [applyEdits, h1, h2]
    · obtain ⟨a1, a2, a3, a4, a5, a6⟩ := hf1
      obtain ⟨b1, b2, b3, b4, b5, b6⟩ := hf2
      exact ⟨b1.trans a1, b2.trans a2, b3.trans a3, b4.trans a4, b5.trans a5, b6.trans a6⟩


/-- **save → edit → save again → load**: after ANY admissible history of edits the files written by `save` load back to
the CURRENT state (shape, georeferencing, dtype, current no-data value, current cell words) -/
theorem save_load_after_edits {ν : Type} (io : NumIO ν) (hio : IOok io) (g : Grid ν) (hg : GridOK io g)
    (es : List (Edit ν)) (hes : ∀ e ∈ es, EditOK io g e) (d : Str) :
    ∃ g1 h bytes, applyEdits g es = .ok g1 ∧ save io g1 = .ok (h, bytes) ∧ ∃ g2, fromStream io d h (some bytes) = .ok g2 ∧
      g2.nrows = g1.nrows ∧ g2.ncols = g1.ncols ∧ g2.xll = g1.xll ∧ g2.yll = g1.yll ∧ g2.csz = g1.csz ∧
      g2.dtype = g1.dtype ∧ g2.nodata = g1.nodata ∧ g2.data = g1.data := by
  obtain ⟨g1, h1, hg1, _⟩ := edits_preserve_gridOK io es g hg hes
  obtain ⟨h, bytes, hs, rest⟩ := save_load io hio g1 hg1 d
  exact ⟨g1, h, bytes, h1, hs, rest⟩

/-- **load / edit → to_dict → from_dict**: after any admissible history the dictionary rebuilds the CURRENT metadata -/
theorem dict_after_edits {ν : Type} (io : NumIO ν) (g : Grid ν) (hg : GridOK io g)
    (es : List (Edit ν)) (hes : ∀ e ∈ es, EditOK io g e) :
    ∃ g1 g2, applyEdits g es = .ok g1 ∧ fromDict io (toDict io g1) = .ok g2 ∧ g2.name = g1.name ∧ g2.comment = g1.comment ∧
      g2.nrows = g1.nrows ∧ g2.ncols = g1.ncols ∧ g2.xll = g1.xll ∧ g2.yll = g1.yll ∧ g2.csz = g1.csz ∧
      g2.dtype = g1.dtype ∧ g2.nodata = g1.nodata := by
  obtain ⟨g1, h1, hg1, _⟩ := edits_preserve_gridOK io es g hg hes
  obtain ⟨g2, h2, a1, a2, a3, a4, a5, a6, a7, a8, a9, _⟩ :=
    dict_roundtrip io g1 hg1.header.supported hg1.header.nodata_lt hg1.header.nodata_printable
      hg1.header.nrows_nonneg hg1.header.ncols_nonneg
  exact ⟨g1, g2, h1, h2, a1, a2, a3, a4, a5, a6, a7, a8, a9⟩

/-- **clone of a clone, any number of grids**: two grid objects that hold different arrays never see each other's
writes, whatever the history (every clone / `clone(dtype)` allocates a new array: `cloneAs_independent`) -/
theorem handles_independent (ops : List SOp) (s : Store) (a b : Handle) (ha : a.arr < s.length) (hb : b.arr < s.length)
    (hne : a.arr ≠ b.arr) : (applyAll s b ops).1.read a = s.read a :=
  applyAll_other ops s a b ha hb hne

/-! ## 6c. the grid object as a state machine: every public mutator, accepted or rejected -/

/-- a grid fresh from the constructor, a header or a dictionary (default bounds) is in the invariant -/
theorem stateOK_of_default {ν : Type} (io : NumIO ν) (g : Grid ν) (hg : GridOK io g) (hb : g.lo = none ∧ g.hi = none) :
    StateOK io g :=
  ⟨hg, by
    rw [hb.1, hb.2]
    intro _
    exact ⟨fun _ h => by simp at h, fun _ h => by simp at h⟩⟩

/-- **every public mutator keeps the grid inside the property's domain**, for ANY history of calls — item writes with
any python index, fills and no-data / mindata / maxdata assignments with any value offered, data assignments with an array
of ANY shape, `load` on ANY bytes in either byte order — accepted or rejected (`run` carries on after a rejected call as
a caller that caught the exception does). Shape, dtype and parent attributes never change. -/
theorem mutators_keep_invariant {ν : Type} (io : NumIO ν) (g : Grid ν) (hg : StateOK io g) (ops : List (Op ν))
    (hops : ∀ op ∈ ops, OpWF io g.dtype op) :
    StateOK io (run io g ops).1 ∧ SameShape g (run io g ops).1 ∧ (run io g ops).2.length = ops.length :=
  ⟨(run_ok io ops g hg hops).1, (run_ok io ops g hg hops).2, run_flags_length io ops g⟩

/-- **a rejected call leaves the object as it was** (fault paths): whenever `step` reports an error the state is the
state before the call — the only exception being the `mindata / maxdata` setters of the code, which have already stored
the new bound (nothing else) when they raise for `mindata > maxdata` -/
theorem rejected_call_leaves_state {ν : Type} (io : NumIO ν) (g : Grid ν) (op : Op ν) (e : Err)
    (h : (step io g op).2 = some e) :
    (step io g op).1 = g ∨
    (e = .badBounds ∧ ∃ b, (step io g op).1 = { g with lo := some b } ∨ (step io g op).1 = { g with hi := some b }) :=
  step_rejected io g op e h

/-- the data setter: an array whose shape is not the grid's is rejected and NOTHING is stored; an array of the grid's
shape is stored clipped (`_clipdata`), everything else untouched -/
theorem data_assignment_cases {ν : Type} (io : NumIO ν) (g : Grid ν) (hg : StateOK io g) (rows : List (List Nat))
    (hw : ∀ r ∈ rows, ∀ w ∈ r, w < wordBound g.dtype) :
    (((rows.length : Int) ≠ g.nrows ∨ ∃ r ∈ rows, (r.length : Int) ≠ g.ncols) ∧
      step io g (.edit (.data rows)) = (g, some .wrongCount)) ∨
    (((rows.length : Int) = g.nrows ∧ ∀ r ∈ rows, (r.length : Int) = g.ncols) ∧
      step io g (.edit (.data rows)) = ({ g with data := clipData g.dtype g.lo g.hi rows }, none)) := by
  rcases setData_cases io g hg rows hw with ⟨h, hs⟩ | ⟨g', h, _, _, _, _, _, _, hr, hc⟩
  · left; exact ⟨hs, by simp only [step, applyEdit, h]⟩
  · right
    refine ⟨⟨hr, hc⟩, ?_⟩
    have h' := h
    unfold setData at h'
    split at h'
    · cases h'
    · cases h'
      simp only [step, applyEdit, h]

/-- **save → ANY history (rejected calls included) → save again → load**: the files written load back to the CURRENT
state: shape, georeferencing, dtype, current no-data value, current cell words -/
theorem save_load_after_history {ν : Type} (io : NumIO ν) (hio : IOok io) (g : Grid ν) (hg : StateOK io g)
    (ops : List (Op ν)) (hops : ∀ op ∈ ops, OpWF io g.dtype op) (d : Str) :
    ∃ h bytes, save io (run io g ops).1 = .ok (h, bytes) ∧ ∃ g2, fromStream io d h (some bytes) = .ok g2 ∧
      g2.nrows = (run io g ops).1.nrows ∧ g2.ncols = (run io g ops).1.ncols ∧ g2.xll = (run io g ops).1.xll ∧
      g2.yll = (run io g ops).1.yll ∧ g2.csz = (run io g ops).1.csz ∧ g2.dtype = (run io g ops).1.dtype ∧
      g2.nodata = (run io g ops).1.nodata ∧ g2.data = (run io g ops).1.data ∧
      g2.nrows = g.nrows ∧ g2.ncols = g.ncols ∧ g2.dtype = g.dtype := by
  obtain ⟨h1, h2, _⟩ := mutators_keep_invariant io g hg ops hops
  obtain ⟨h, bytes, hs, g2, hl, a1, a2, a3, a4, a5, a6, a7, a8⟩ := save_load io hio _ h1.grid d
  exact ⟨h, bytes, hs, g2, hl, a1, a2, a3, a4, a5, a6, a7, a8, a1.trans h2.2.1, a2.trans h2.2.2.1, a6.trans h2.1⟩

/-- **ANY history → to_dict → from_dict** rebuilds the CURRENT metadata -/
theorem dict_after_history {ν : Type} (io : NumIO ν) (g : Grid ν) (hg : StateOK io g)
    (ops : List (Op ν)) (hops : ∀ op ∈ ops, OpWF io g.dtype op) :
    ∃ g2, fromDict io (toDict io (run io g ops).1) = .ok g2 ∧ g2.name = (run io g ops).1.name ∧
      g2.comment = (run io g ops).1.comment ∧ g2.nrows = g.nrows ∧ g2.ncols = g.ncols ∧
      g2.xll = (run io g ops).1.xll ∧ g2.yll = (run io g ops).1.yll ∧ g2.csz = (run io g ops).1.csz ∧
      g2.dtype = g.dtype ∧ g2.nodata = (run io g ops).1.nodata := by
  obtain ⟨h1, h2, _⟩ := mutators_keep_invariant io g hg ops hops
  obtain ⟨g2, e, a1, a2, a3, a4, a5, a6, a7, a8, a9, _⟩ :=
    dict_roundtrip io _ h1.grid.header.supported h1.grid.header.nodata_lt h1.grid.header.nodata_printable
      h1.grid.header.nrows_nonneg h1.grid.header.ncols_nonneg
  exact ⟨g2, e, a1, a2, a3.trans h2.2.1, a4.trans h2.2.2.1, a5, a6, a7, a8.trans h2.1, a9⟩

/-- `grid[idx] = w` then `grid[idx]`, `grid[k]`: an accepted item write (any python index, negative ones counted from the
end) is read back at that index, every other cell reads as before, and a rejected one (`IndexError`) is rejected by
the reader too -/
theorem item_write_then_read {ν : Type} (io : NumIO ν) (g : Grid ν) (idx : Int) (w : Nat) :
    ((step io g (.itemAt idx w)).2 = none → getItem (step io g (.itemAt idx w)).1 idx = .ok w ∧
      ∀ k i j, flatIndex g.data.flatten.length idx = some i → flatIndex g.data.flatten.length k = some j → j ≠ i →
        getItem (step io g (.itemAt idx w)).1 k = getItem g k) ∧
    ((step io g (.itemAt idx w)).2 ≠ none → getItem g idx = .error .badIndex) := by
  simp only [step]
  cases hfi : flatIndex g.data.flatten.length idx with
  | none =>
    refine ⟨fun h => by simp at h, fun _ => ?_⟩
    simp only [getItem, hfi]
  | some i =>
    have hi := flatIndex_lt hfi
    refine ⟨fun _ => ⟨?_, ?_⟩, fun h => by simp at h⟩
    · simp only [getItem, setFlat_flatten, List.length_set, hfi, List.getElem?_set_self hi]
    · intro k i' j hi' hj hne
      cases hi'
      simp only [getItem, setFlat_flatten, List.length_set, hj, List.getElem?_set_ne (Ne.symm hne)]

/-- for the integer types, a python int or a text offered to `dtype(value)` needs no external fact: when it is accepted
the word is a word of the dtype that prints and reads back (the `OpWF` hypothesis of the history theorems is discharged) -/
theorem opWF_int {ν : Type} (io : NumIO ν) (t : DType) (hk : t.kind ≠ .float) (v : NVal ν)
    (hv : (∃ n, v = .int n) ∨ (∃ s, v = .text s)) :
    OpWF io t (.nodataVal v) ∧ OpWF io t (.fillVal v) ∧ OpWF io t (.mindata v) ∧ OpWF io t (.maxdata v) :=
  ⟨fun w h => nodataWord_int_ok io t hk v hv w h, fun w h => (nodataWord_int_ok io t hk v hv w h).1,
   fun w h => (nodataWord_int_ok io t hk v hv w h).1, fun w h => (nodataWord_int_ok io t hk v hv w h).1⟩

/-- clone independence with rejected calls: a data assignment of the wrong shape through one handle rebinds nothing
(store and handle unchanged); `clone_independent`, `cloneAs_independent`, `handles_independent` hold for histories
that contain such calls -/
theorem store_setData_rejected (s : Store) (h : Handle) (rows : List (List Nat))
    (hs : rows.map List.length ≠ (s.read h).map List.length) : (SOp.setData rows).apply s h = (s, h) := by
  simp only [SOp.apply, if_neg hs]

/-- `from_dict` on the dictionary `to_dict` returns (every optional key present) is `fromDict`; each missing optional
key falls back on the default of `Grid.__init__`, a missing `name` / `ncols` is a `KeyError` -/
theorem fromDictP_full {ν : Type} (io : NumIO ν) (d : GridDict ν) : fromDictP io d.full = fromDict io d := by
  unfold fromDictP fromDict GridDict.full
  simp only [Option.getD_some]
  cases dtypeOfStr d.dtype with
  | none => rfl
  | some p => rfl

theorem fromDictP_defaults {ν : Type} (io : NumIO ν) (name : Str) (ncols : Int) :
    fromDictP io { name := some name, ncols := some ncols, nrows := none, csz := none, xll := none, yll := none,
                   dtype := none, nodata := none, comment := none } =
      mkGrid io name ncols ncols (io.ofInt 1) (io.ofInt 0) (io.ofInt 0) ⟨.float, 8⟩ (.int 0) [] ∧
    (∀ d : GridDictP ν, d.name = none ∨ d.ncols = none → fromDictP io d = .error .missingKey) := by
  refine ⟨rfl, ?_⟩
  intro d hd
  unfold fromDictP
  rcases hd with h | h
  · rw [h]
  · rw [h]; cases d.name <;> rfl

/-! ### catchments: any history of delineations, failed ones included -/

/-- after ANY sequence of `delineate_area` calls (a failed call resets the areas and keeps the new outlet and inlets; a call
without inlets resets the inlets): the flow-direction grid is untouched, `to_dict` succeeds exactly when the
LAST call succeeded (or nothing failed since an initial delineation), and the catchment rebuilt from the dictionary has
the CURRENT outlet, inlets, area and filled area -/
theorem catchment_history {ν : Type} (io : NumIO ν) (ops : List COp) : ∀ (c : Catchment ν),
    c.area.isSome = c.filled.isSome → c.flowdir.dtype = int64 → c.flowdir.nodata < wordBound int64 →
    0 ≤ c.flowdir.nrows → 0 ≤ c.flowdir.ncols →
    (crun c ops).flowdir = c.flowdir ∧ (crun c ops).area.isSome = (crun c ops).filled.isSome ∧
    ((crun c ops).area = none → catchToDict io (crun c ops) = .error .notDelineated) ∧
    (∀ a, (crun c ops).area = some a → ∃ d c', catchToDict io (crun c ops) = .ok d ∧ catchFromDict io d = .ok c' ∧
      c'.name = (crun c ops).name ∧ c'.outlet = (crun c ops).outlet ∧ c'.inlets = (crun c ops).inlets ∧
      c'.area = (crun c ops).area ∧ c'.filled = (crun c ops).filled ∧ c'.flowdir.nrows = c.flowdir.nrows ∧
      c'.flowdir.ncols = c.flowdir.ncols ∧ c'.flowdir.dtype = c.flowdir.dtype ∧ c'.flowdir.nodata = c.flowdir.nodata) := by
  induction ops with
  | nil =>
    intro c hinv hs hw hr hc
    refine ⟨rfl, hinv, ?_, ?_⟩
    · intro ha
      have ha' : c.area = none := ha
      simp only [crun, catchToDict, ha']
    · intro a ha
      have ha : c.area = some a := ha
      have hf : ∃ f, c.filled = some f := by
        cases hfl : c.filled with
        | none => rw [ha, hfl] at hinv; cases hinv
        | some f => exact ⟨f, rfl⟩
      obtain ⟨f, hf⟩ := hf
      obtain ⟨d, c', h1, h2, b1, b2, b3, b4, b5, b6, b7, _, _, _, b11, b12⟩ :=
        catchment_dict_roundtrip io c a f ha hf hs hw hr hc
      exact ⟨d, c', h1, h2, b1, b2, b3, b4, b5, b6, b7, b11, b12⟩
  | cons op ops ih =>
    intro c hinv hs hw hr hc
    cases op with
    | delineate o inl res =>
      have hfd : (cstep c (.delineate o inl res)).1.flowdir = c.flowdir := by
        cases res with
        | none => rfl
        | some p => rfl
      have hinv' : (cstep c (.delineate o inl res)).1.area.isSome = (cstep c (.delineate o inl res)).1.filled.isSome := by
        cases res with
        | none => rfl
        | some p => rfl
      have := ih (cstep c (.delineate o inl res)).1 hinv' (by rw [hfd]; exact hs) (by rw [hfd]; exact hw)
        (by rw [hfd]; exact hr) (by rw [hfd]; exact hc)
      simp only [crun]
      rw [hfd] at this
      exact this

/-- what one `delineate_area` call does to the observables of the dictionary -/
theorem delineate_step {ν : Type} (c : Catchment ν) (o : Int) (inl : Option (List Int)) :
    (∀ a f, (cstep c (.delineate o inl (some (a, f)))).1.outlet = some o ∧
      (cstep c (.delineate o inl (some (a, f)))).1.area = some a ∧ (cstep c (.delineate o inl (some (a, f)))).1.filled = some f ∧
      (cstep c (.delineate o inl (some (a, f)))).1.inlets = inl) ∧
    ((cstep c (.delineate o inl none)).1.area = none ∧ (cstep c (.delineate o inl none)).1.filled = none ∧
      (cstep c (.delineate o inl none)).1.outlet = some o ∧ (cstep c (.delineate o inl none)).2 = some .delineationFailed) :=
  ⟨fun _ _ => ⟨rfl, rfl, rfl, rfl⟩, rfl, rfl, rfl, rfl⟩

/-! ## 6d. file names: `save(dir/stem.bil)` then `from_header` on either file -/

/-- **save to files, load with `from_header`**: for ANY non-empty stem (dots and blanks allowed) `save(dir/stem.bil)`
is accepted, writes `dir/stem.hdr` and `dir/stem.bil` into the file system (whatever it held), and
`from_header(dir/stem.bil)` as well as `from_header(dir/stem.hdr)` find both files and load identical shape,
georeferencing, dtype, no-data value and bit-identical cells -/
theorem save_fromHeader_files {ν : Type} (io : NumIO ν) (hio : IOok io) (fs : FS) (dir stem : Str) (hs : stem ≠ [])
    (g : Grid ν) (hg : GridOK io g) :
    ∃ fs', saveFS io fs dir (stem ++ ".bil".toList) g = .ok fs' ∧
      ∀ name, (name = stem ++ ".bil".toList ∨ name = stem ++ ".hdr".toList) →
        ∃ g', fromHeaderFS io fs' dir name = .ok g' ∧
          g'.nrows = g.nrows ∧ g'.ncols = g.ncols ∧ g'.xll = g.xll ∧ g'.yll = g.yll ∧ g'.csz = g.csz ∧
          g'.dtype = g.dtype ∧ g'.nodata = g.nodata ∧ g'.data = g.data := by
  obtain ⟨h, bytes, hsave, g', hl, rest⟩ := save_load io hio g hg (splitextRoot (stem ++ ".hdr".toList))
  refine ⟨_, by simp only [saveFS, endsWith_bil, hsave, Bool.not_true, Bool.false_eq_true, if_false]; rfl, ?_⟩
  intro name hname
  have hstem : stemOf name = stem := by
    rcases hname with rfl | rfl
    · exact stemOf_bil stem hs
    · exact stemOf_hdr stem hs
  have hne : stem ++ ".hdr".toList ≠ stem ++ ".bil".toList := by
    intro he; have := List.append_cancel_left he; revert this; decide
  refine ⟨g', ?_, rest⟩
  unfold fromHeaderFS
  simp only [hstem, take_bil]
  rw [lookup_dictSet_other _ _ _ _ (pathJoin_ne dir _ _ hne), lookup_dictSet_self, lookup_dictSet_self]
  exact hl

/-- **save to files, zip them, load with `from_zip`**: the member names come from `os.path.splitext`, which does not
split a name made of dots only — for every stem holding a character that is not a dot, `from_zip(archive, dir/stem.bil)`
and `from_zip(archive, dir/stem.hdr)` on the archive of the saved files load the identical grid; for the stem `.`
(`..bil`) the header member is not found (`KeyError`) although `from_header` finds the file -/
theorem save_fromZip_files {ν : Type} (io : NumIO ν) (hio : IOok io) (fs : FS) (dir stem : Str)
    (hs : stem.all (fun c => c == '.') = false) (g : Grid ν) (hg : GridOK io g) :
    ∃ fs', saveFS io fs dir (stem ++ ".bil".toList) g = .ok fs' ∧
      ∀ name, (name = stem ++ ".bil".toList ∨ name = stem ++ ".hdr".toList) →
        ∃ g', fromZipFS io fs' dir name = .ok g' ∧
          g'.nrows = g.nrows ∧ g'.ncols = g.ncols ∧ g'.xll = g.xll ∧ g'.yll = g.yll ∧ g'.csz = g.csz ∧
          g'.dtype = g.dtype ∧ g'.nodata = g.nodata ∧ g'.data = g.data := by
  obtain ⟨h, bytes, hsave, g', hl, rest⟩ := save_load io hio g hg "no_name".toList
  refine ⟨_, by simp only [saveFS, endsWith_bil, hsave, Bool.not_true, Bool.false_eq_true, if_false]; rfl, ?_⟩
  intro name hname
  have hroot : splitextRoot name = stem := by
    rcases hname with rfl | rfl
    · exact splitextRoot_bil stem hs
    · exact splitextRoot_hdr stem hs
  have hne : stem ++ ".hdr".toList ≠ stem ++ ".bil".toList := by
    intro he; have := List.append_cancel_left he; revert this; decide
  refine ⟨g', ?_, rest⟩
  unfold fromZipFS
  simp only [hroot, take_bil]
  rw [lookup_dictSet_other _ _ _ _ (pathJoin_ne dir _ _ hne), lookup_dictSet_self, lookup_dictSet_self]
  exact hl

/-- … and the stem `.` is the counterexample: saved, found by `from_header`'s naming, not by `from_zip`'s -/
example : stemOf "..bil".toList = ".".toList ∧ splitextRoot "..bil".toList = "..bil".toList ∧
    ("..".toList).all (fun c => c == '.') = true ∧ ("a.".toList).all (fun c => c == '.') = false := by decide

/-- **the `endswith("bil")` guard of `save` is weaker than what `from_header` can find** (the hypothesis "`stem.bil`
with a non-empty stem" of `save_fromHeader_files` cannot be dropped): whenever the header name `save` derives
(last three characters replaced) is not the one `from_header` derives (`Path.stem + ".hdr"`), `save` succeeds and
`from_header` on the saved name reports a missing file — e.g. `xbil`, `.bil`, `a.Tbil`, `bil` -/
theorem save_name_guard_too_weak {ν : Type} (io : NumIO ν) (g : Grid ν) (h : Str) (bytes : List UInt8)
    (hsave : save io g = .ok (h, bytes)) (dir name : Str) (he : endsWith name "bil".toList = true)
    (hn : stemOf name ++ ".hdr".toList ≠ name.take (name.length - 3) ++ "hdr".toList)
    (hn2 : stemOf name ++ ".hdr".toList ≠ name) :
    ∃ fs', saveFS io [] dir name g = .ok fs' ∧ fromHeaderFS io fs' dir name = .error .missingFile := by
  refine ⟨_, by simp only [saveFS, he, hsave, Bool.not_true, Bool.false_eq_true, if_false]; rfl, ?_⟩
  unfold fromHeaderFS
  dsimp only
  rw [lookup_dictSet_other _ _ _ _ (pathJoin_ne dir _ _ hn2), lookup_dictSet_other _ _ _ _ (pathJoin_ne dir _ _ hn)]
  rfl

/-- the names of the docstring meet the hypotheses of `save_name_guard_too_weak`; `g.bil`, `a.b.bil`, `a..bil` do not -/
example : ∀ name ∈ ["xbil".toList, ".bil".toList, "a.Tbil".toList, "bil".toList],
    endsWith name "bil".toList = true ∧ stemOf name ++ ".hdr".toList ≠ name.take (name.length - 3) ++ "hdr".toList ∧
    stemOf name ++ ".hdr".toList ≠ name := by decide
example : ∀ name ∈ ["g.bil".toList, "a.b.bil".toList, "a..bil".toList, "My Grid.bil".toList],
    endsWith name "bil".toList = true ∧ stemOf name ++ ".hdr".toList = name.take (name.length - 3) ++ "hdr".toList := by decide
example : endsWith "g.txt".toList "bil".toList = false ∧ endsWith "g.BIL".toList "bil".toList = false ∧
    splitextRoot "a.b.hdr".toList = "a.b".toList ∧ splitextRoot ".hdr".toList = ".hdr".toList ∧
    stemOf "a.".toList = "a.".toList ∧ stemOf ".bil".toList = ".bil".toList := by decide

/-! ## 7. clip -/

section ClipThm
open HydroVerif.C07
variable {α : Type} [Field α] [LinearOrder α] [IsStrictOrderedRing α] [FloorRing α]

/-- **clip holds the parent's values at coinciding cell centres** (exact arithmetic: any ordered field with a
floor). For a positive cell size and a box whose lower-left and upper-right corners both lie in the extent, `clip`
succeeds; the clipped grid keeps dtype, no-data value and cell size; it is the block of the parent that starts at
row `top` / column `left` (the row of the upper-right corner's cell, the column of the lower-left corner's cell),
it is not empty and lies inside the parent; and for every cell `(i, j)` of the clipped grid its centre IS the
centre of the parent cell `(top+i, left+j)`, and it holds that parent cell's word. -/
theorem clip_parent_values (io : NumIO α) (g : Grid α) (hcsz : 0 < g.csz) (hnc : 0 < g.ncols)
    (hr : (g.data.length : Int) = g.nrows) (hc : ∀ r ∈ g.data, (r.length : Int) = g.ncols)
    {x0 y0 x1 y1 : α} (h0 : InExtent (geom g) x0 y0) (h1 : InExtent (geom g) x1 y1) (hx : x0 ≤ x1) (hy : y0 ≤ y1) :
    ∃ ng top left, clip io g x0 y0 x1 y1 = .ok ng ∧
      ng.dtype = g.dtype ∧ ng.nodata = g.nodata ∧ ng.csz = g.csz ∧
      top = rowOf g.ncols (coord2cell (geom g) x1 y1) ∧ left = colOf g.ncols (coord2cell (geom g) x0 y0) ∧
      0 < ng.nrows ∧ 0 < ng.ncols ∧ 0 ≤ top ∧ top + ng.nrows ≤ g.nrows ∧ 0 ≤ left ∧ left + ng.ncols ≤ g.ncols ∧
      ∀ i j : Nat, (i : Int) < ng.nrows → (j : Int) < ng.ncols →
        (∃ xy, cell2coord (geom ng) (cellOf ng.ncols i j) = some xy ∧
               cell2coord (geom g) (cellOf g.ncols (top + i) (left + j)) = some xy) ∧
        (∃ v, (ng.data[i]?.bind (·[j]?)) = some v ∧ (g.data[top.toNat + i]?.bind (·[left.toNat + j]?)) = some v) := by
  obtain ⟨ng, hclip, hnr, hncols, hcs, hdt, hnd, hxll, hyll, hdata⟩ := clip_eq io g hcsz hnc hr hc h0 h1 hx hy
  obtain ⟨v0, _⟩ := coord2cell_of_inExtent (g := geom g) hcsz h0
  obtain ⟨v1, _⟩ := coord2cell_of_inExtent (g := geom g) hcsz h1
  obtain ⟨hcol, hrow⟩ := corner_cells_ordered (gm := geom g) hcsz h0 h1 hx hy
  have hgn : (geom g).ncols = g.ncols := rfl
  have hgr : (geom g).nrows = g.nrows := rfl
  rw [hgn] at hcol hrow
  rw [hgn, hgr] at v0 v1
  obtain ⟨a0, a1, a2, a3, _⟩ := valid_rowcol hnc v0
  obtain ⟨b0, b1, b2, b3, _⟩ := valid_rowcol hnc v1
  refine ⟨ng, _, _, hclip, hdt, hnd, hcs, rfl, rfl, by omega, by omega, b0, by omega, a2, by omega, ?_⟩
  intro i j hi hj
  constructor
  · have hcc := clip_centre g ng (coord2cell (geom g) x0 y0) (rowOf g.ncols (coord2cell (geom g) x1 y1)) i j
      hxll hyll hcs hi hj b0 (by omega) a1 a2 (by omega)
    have hv : validCell ng.nrows ng.ncols (cellOf ng.ncols i j) = true :=
      validCell_cellOf (Int.natCast_nonneg i) hi (Int.natCast_nonneg j) hj
    refine ⟨getcoord (geom ng) (cellOf ng.ncols i j), ?_, ?_⟩
    · unfold cell2coord; rw [show (geom ng).nrows = ng.nrows from rfl, show (geom ng).ncols = ng.ncols from rfl, if_pos hv]
    · rw [← hcc]; unfold cell2coord
      rw [show (geom ng).nrows = ng.nrows from rfl, show (geom ng).ncols = ng.ncols from rfl, if_pos hv]
  · rw [hdata]
    exact clip_block_get g.data g.nrows g.ncols _ _ _ _ i j hr hc b0 a1 a2 b3 (by omega) (by omega)


/-- the clipped grid is again a well-formed grid with a positive cell size: `clip` can be applied to it -/
theorem clip_wellformed (io : NumIO α) (g : Grid α) (hcsz : 0 < g.csz) (hnc : 0 < g.ncols)
    (hr : (g.data.length : Int) = g.nrows) (hc : ∀ r ∈ g.data, (r.length : Int) = g.ncols)
    {x0 y0 x1 y1 : α} (h0 : InExtent (geom g) x0 y0) (h1 : InExtent (geom g) x1 y1) (hx : x0 ≤ x1) (hy : y0 ≤ y1) :
    ∃ ng, clip io g x0 y0 x1 y1 = .ok ng ∧ 0 < ng.csz ∧ 0 < ng.ncols ∧ 0 < ng.nrows ∧
      (ng.data.length : Int) = ng.nrows ∧ ∀ r ∈ ng.data, (r.length : Int) = ng.ncols := by
  obtain ⟨ng, hclip, hnr, hncols, hcs, _, _, _, _, hdata⟩ := clip_eq io g hcsz hnc hr hc h0 h1 hx hy
  obtain ⟨v0, _⟩ := coord2cell_of_inExtent (g := geom g) hcsz h0
  obtain ⟨v1, _⟩ := coord2cell_of_inExtent (g := geom g) hcsz h1
  obtain ⟨hcol, hrow⟩ := corner_cells_ordered (gm := geom g) hcsz h0 h1 hx hy
  have hgn : (geom g).ncols = g.ncols := rfl
  have hgr : (geom g).nrows = g.nrows := rfl
  rw [hgn] at hcol hrow
  rw [hgn, hgr] at v0 v1
  obtain ⟨a0, a1, a2, a3, _⟩ := valid_rowcol hnc v0
  obtain ⟨b0, b1, b2, b3, _⟩ := valid_rowcol hnc v1
  refine ⟨ng, hclip, by rw [hcs]; exact hcsz, by omega, by omega, ?_, ?_⟩
  · rw [hdata, List.length_map, slice_length _ _ _ b0 (by omega) (by omega), hnr]; omega
  · intro r hrm
    rw [hdata] at hrm
    obtain ⟨r0, hr0, rfl⟩ := List.mem_map.mp hrm
    have hr0' : r0 ∈ g.data := by
      unfold slice at hr0
      exact List.mem_of_mem_drop (List.mem_of_mem_take hr0)
    have := hc r0 hr0'
    rw [slice_length _ _ _ a2 (by omega) (by omega), hncols]; omega


/-- **clip of a clip**: clipping the clipped grid again (second box inside the first clip's extent) still yields the
block of the ORIGINAL grid at offset (sum of the row offsets, sum of the column offsets): every cell centre is the
original grid's cell centre and holds the original grid's word -/
theorem clip_of_clip (io : NumIO α) (g : Grid α) (hcsz : 0 < g.csz) (hnc : 0 < g.ncols)
    (hr : (g.data.length : Int) = g.nrows) (hc : ∀ r ∈ g.data, (r.length : Int) = g.ncols)
    {x0 y0 x1 y1 : α} (h0 : InExtent (geom g) x0 y0) (h1 : InExtent (geom g) x1 y1) (hx : x0 ≤ x1) (hy : y0 ≤ y1)
    (mid : Grid α) (hmid : clip io g x0 y0 x1 y1 = .ok mid)
    {u0 v0 u1 v1 : α} (k0 : InExtent (geom mid) u0 v0) (k1 : InExtent (geom mid) u1 v1) (hu : u0 ≤ u1) (hv : v0 ≤ v1) :
    ∃ ng top left, clip io mid u0 v0 u1 v1 = .ok ng ∧ ng.dtype = g.dtype ∧ ng.nodata = g.nodata ∧ ng.csz = g.csz ∧
      0 < ng.nrows ∧ 0 < ng.ncols ∧ 0 ≤ top ∧ top + ng.nrows ≤ g.nrows ∧ 0 ≤ left ∧ left + ng.ncols ≤ g.ncols ∧
      ∀ i j : Nat, (i : Int) < ng.nrows → (j : Int) < ng.ncols →
        (∃ xy, cell2coord (geom ng) (cellOf ng.ncols i j) = some xy ∧
               cell2coord (geom g) (cellOf g.ncols (top + i) (left + j)) = some xy) ∧
        (∃ v, (ng.data[i]?.bind (·[j]?)) = some v ∧ (g.data[top.toNat + i]?.bind (·[left.toNat + j]?)) = some v) := by
  obtain ⟨m', t1, l1, hm', md, mn, mc, _, _, mr0, mc0, t10, t11, l10, l11, hval1⟩ :=
    clip_parent_values io g hcsz hnc hr hc h0 h1 hx hy
  obtain ⟨m'', hm'', wcs, wnc, _, wr, wc⟩ := clip_wellformed io g hcsz hnc hr hc h0 h1 hx hy
  have e1 : m' = mid := by rw [hmid] at hm'; exact (Except.ok.inj hm').symm
  have e2 : m'' = mid := by rw [hmid] at hm''; exact (Except.ok.inj hm'').symm
  subst e1
  subst e2
  obtain ⟨ng, t2, l2, hng, nd, nn, ncz, _, _, nr0, nc0, t20, t21, l20, l21, hval2⟩ :=
    clip_parent_values io m'' wcs wnc wr wc k0 k1 hu hv
  refine ⟨ng, t1 + t2, l1 + l2, hng, nd.trans md, nn.trans mn, ncz.trans mc, nr0, nc0, by omega, by omega, by omega, by omega, ?_⟩
  intro i j hi hj
  obtain ⟨⟨xy, c1, c2⟩, ⟨v, d1, d2⟩⟩ := hval2 i j hi hj
  have hi' : ((t2.toNat + i : Nat) : Int) < m''.nrows := by push_cast; omega
  have hj' : ((l2.toNat + j : Nat) : Int) < m''.ncols := by push_cast; omega
  obtain ⟨⟨xy', c3, c4⟩, ⟨v', d3, d4⟩⟩ := hval1 (t2.toNat + i) (l2.toNat + j) hi' hj'
  have ci : ((t2.toNat + i : Nat) : Int) = t2 + i := by push_cast; omega
  have cj : ((l2.toNat + j : Nat) : Int) = l2 + j := by push_cast; omega
  rw [ci, cj] at c3 c4
  constructor
  · refine ⟨xy, c1, ?_⟩
    rw [c3] at c2
    have : xy' = xy := Option.some.inj c2
    rw [← this, show t1 + t2 + (i : Int) = t1 + (t2 + i) by ring, show l1 + l2 + (j : Int) = l1 + (l2 + j) by ring]
    exact c4
  · refine ⟨v, d1, ?_⟩
    rw [d3] at d2
    have : v' = v := Option.some.inj d2
    rw [← this, show (t1 + t2).toNat + i = t1.toNat + (t2.toNat + i) by omega,
      show (l1 + l2).toNat + j = l1.toNat + (l2.toNat + j) by omega]
    exact d4


end ClipThm

/-! ## 7b. clip in ANY arithmetic (true of IEEE doubles with rounding, not only of exact numbers) -/

section ClipAny
open HydroVerif.C07
variable {α : Type} [Add α] [Sub α] [Mul α] [Div α] [OfNat α 1] [C07.Trunc α]

/-- **whatever the arithmetic does to the corners** (no field axiom is used: `+ - * /`, the casts and `floor` are
arbitrary functions — IEEE doubles with rounding, NaN and overflow included): whenever `clip` returns a grid, both
corner cells were valid, the grid keeps dtype, no-data value and cell size, has the default bounds, is the block of the
parent array that starts at row `top` (row of the upper-right corner's cell) and column `left` (column of the
lower-left corner's cell), lies inside the parent, and every one of its cells holds the parent's word at
`(top+i, left+j)` — bit-identical. What exact arithmetic adds (`clip_parent_values`) is only WHICH cells the corners
fall in and that the cell centres coincide exactly. -/
theorem clip_block_any_arithmetic (io : NumIO α) (g : Grid α) (hnc : 0 < g.ncols)
    (hr : (g.data.length : Int) = g.nrows) (hc : ∀ r ∈ g.data, (r.length : Int) = g.ncols)
    (x0 y0 x1 y1 : α) (ng : Grid α) (h : clip io g x0 y0 x1 y1 = .ok ng) :
    ∃ c0 c1 top left, c0 = coord2cell (geom g) x0 y0 ∧ c1 = coord2cell (geom g) x1 y1 ∧
      top = rowOf g.ncols c1 ∧ left = colOf g.ncols c0 ∧
      validCell g.nrows g.ncols c0 = true ∧ validCell g.nrows g.ncols c1 = true ∧
      ng.dtype = g.dtype ∧ ng.nodata = g.nodata ∧ ng.csz = g.csz ∧ ng.lo = none ∧ ng.hi = none ∧
      ng.nrows = rowOf g.ncols c0 - top + 1 ∧ ng.ncols = colOf g.ncols c1 - left + 1 ∧
      0 ≤ ng.nrows ∧ 0 ≤ ng.ncols ∧ 0 ≤ top ∧ top + ng.nrows ≤ g.nrows ∧ 0 ≤ left ∧ left + ng.ncols ≤ g.ncols ∧
      (ng.data.length : Int) = ng.nrows ∧ (∀ r ∈ ng.data, (r.length : Int) = ng.ncols) ∧
      ∀ i j : Nat, (i : Int) < ng.nrows → (j : Int) < ng.ncols →
        ∃ v, (ng.data[i]?.bind (·[j]?)) = some v ∧ (g.data[top.toNat + i]?.bind (·[left.toNat + j]?)) = some v := by
  obtain ⟨c0, c1, top, left, a1, a2, a3, a4, a5, a6, a7, a8, a9, a10, a11, a12, a13, a14, a15, a16, a17, a18, a19, a20, a21,
    a22, _⟩ := clip_ok_block io g hnc hr hc x0 y0 x1 y1 ng h
  exact ⟨c0, c1, top, left, a1, a2, a3, a4, a5, a6, a7, a8, a9, a10, a11, a12, a13, a14, a15, a16, a17, a18, a19, a20, a21, a22⟩

/-- **monotone rounding is enough for a non-empty window**: in any arithmetic in which `x ↦ (long long) floor((x - o) / csz)`
is monotone (true of IEEE doubles for a positive cell size: subtraction of a constant, division by a positive constant,
`floor` and the cast are monotone; true of every ordered field, `floor_offset_monotone`), a box whose corners are in order
and fall in valid cells is clipped successfully to a grid with at least one row and one column -/
theorem clip_succeeds_monotone [LE α] (io : NumIO α) (g : Grid α) (hnc : 0 < g.ncols)
    (hr : (g.data.length : Int) = g.nrows) (hc : ∀ r ∈ g.data, (r.length : Int) = g.ncols)
    (hmono : ∀ a b o : α, a ≤ b → Trunc.floorToInt ((a - o) / g.csz) ≤ Trunc.floorToInt ((b - o) / g.csz))
    (x0 y0 x1 y1 : α) (hx : x0 ≤ x1) (hy : y0 ≤ y1)
    (v0 : validCell g.nrows g.ncols (coord2cell (geom g) x0 y0) = true)
    (v1 : validCell g.nrows g.ncols (coord2cell (geom g) x1 y1) = true) :
    ∃ ng, clip io g x0 y0 x1 y1 = .ok ng ∧ 0 < ng.nrows ∧ 0 < ng.ncols := by
  obtain ⟨c0, r0⟩ := coord2cell_valid_rowcol (geom g) x0 y0 v0
  obtain ⟨c1, r1⟩ := coord2cell_valid_rowcol (geom g) x1 y1 v1
  have hcx := hmono x0 x1 g.xll hx
  have hcy := hmono y0 y1 g.yll hy
  refine clip_ok_of_cells io g hnc hr hc x0 y0 x1 y1 v0 v1 ?_ ?_
  · show colOf (geom g).ncols _ ≤ colOf (geom g).ncols _
    rw [c0, c1]; exact hcx
  · show rowOf (geom g).ncols _ ≤ rowOf (geom g).ncols _
    rw [r0, r1]
    show (geom g).nrows - 1 - Trunc.floorToInt ((y1 - g.yll) / g.csz) ≤ (geom g).nrows - 1 - Trunc.floorToInt ((y0 - g.yll) / g.csz)
    omega

end ClipAny

open HydroVerif.C07 in
/-- the monotonicity hypothesis of `clip_succeeds_monotone` holds in every ordered field with a floor, for a positive
cell size (so that theorem is not vacuous, and covers the exact case) -/
theorem floor_offset_monotone {α : Type} [Field α] [LinearOrder α] [IsStrictOrderedRing α] [FloorRing α]
    (csz : α) (hcsz : 0 < csz) (a b o : α) (h : a ≤ b) :
    (C07.Trunc.floorToInt ((a - o) / csz) : Int) ≤ C07.Trunc.floorToInt ((b - o) / csz) := by
  show ⌊(a - o) / csz⌋ ≤ ⌊(b - o) / csz⌋
  exact Int.floor_le_floor (div_le_div_of_nonneg_right (sub_le_sub_right h o) hcsz.le)

/-! ## 7c. closure: what the constructors return is again in the domain of the theorems -/

/-- **whatever `from_stream` accepts is a grid of the property's domain** — ANY header text (written by `save` or foreign:
ULXMAP / XDIM variants, either byte order, extra or repeated keys), ANY data bytes: supported dtype, non-negative shape,
`nrows × ncols` words of the dtype, numeric parent attributes, default bounds. Only the no-data scalar numpy builds from the
header token is external (a word of the dtype that prints and reads back; automatic for the text `save` writes, see
`header_roundtrip`). Hence every history theorem applies to a LOADED grid. -/
theorem loaded_grid_is_grid {ν : Type} (io : NumIO ν) (d h : Str) (bytes : List UInt8) (g : Grid ν)
    (hload : fromStream io d h (some bytes) = .ok g)
    (hnd : g.nodata < wordBound g.dtype) (hp : NodataPrintable io g.dtype g.nodata) :
    StateOK io g ∧ g.lo = none ∧ g.hi = none :=
  fromStream_state io d h bytes g hload hnd hp

/-- **whatever `clip` returns is a grid of the property's domain**, in ANY arithmetic (IEEE included), whatever the
parent's name: a clipped grid can be saved, exported, cloned, edited and clipped again under the same theorems -/
theorem clipped_grid_is_grid {α : Type} [Add α] [Sub α] [Mul α] [Div α] [OfNat α 1] [C07.Trunc α]
    (io : NumIO α) (g : Grid α) (hg : GridOK io g) (hnc : 0 < g.ncols) (x0 y0 x1 y1 : α) (ng : Grid α)
    (h : clip io g x0 y0 x1 y1 = .ok ng) : StateOK io ng ∧ ng.lo = none ∧ ng.hi = none :=
  clip_state io g hg hnc x0 y0 x1 y1 ng h

/-- **load (any accepted raster) → ANY history → save → load**: the second load reproduces the state after the history -/
theorem history_from_files {ν : Type} (io : NumIO ν) (hio : IOok io) (d h : Str) (bytes : List UInt8) (g : Grid ν)
    (hload : fromStream io d h (some bytes) = .ok g)
    (hnd : g.nodata < wordBound g.dtype) (hp : NodataPrintable io g.dtype g.nodata)
    (ops : List (Op ν)) (hops : ∀ op ∈ ops, OpWF io g.dtype op) (d2 : Str) :
    ∃ h2 b2, save io (run io g ops).1 = .ok (h2, b2) ∧ ∃ g2, fromStream io d2 h2 (some b2) = .ok g2 ∧
      g2.nrows = g.nrows ∧ g2.ncols = g.ncols ∧ g2.dtype = g.dtype ∧ g2.xll = (run io g ops).1.xll ∧
      g2.yll = (run io g ops).1.yll ∧ g2.csz = (run io g ops).1.csz ∧ g2.nodata = (run io g ops).1.nodata ∧
      g2.data = (run io g ops).1.data := by
  obtain ⟨hs, _, _⟩ := loaded_grid_is_grid io d h bytes g hload hnd hp
  obtain ⟨h2, b2, e1, g2, e2, _, _, a3, a4, a5, _, a7, a8, a9, a10, a11⟩ := save_load_after_history io hio g hs ops hops d2
  exact ⟨h2, b2, e1, g2, e2, a9, a10, a11, a3, a4, a5, a7, a8⟩

/-- **clip (any arithmetic) → ANY history on the clipped grid → save → load** -/
theorem history_from_clip {α : Type} [Add α] [Sub α] [Mul α] [Div α] [OfNat α 1] [C07.Trunc α]
    (io : NumIO α) (hio : IOok io) (g : Grid α) (hg : GridOK io g) (hnc : 0 < g.ncols) (x0 y0 x1 y1 : α) (ng : Grid α)
    (h : clip io g x0 y0 x1 y1 = .ok ng) (ops : List (Op α)) (hops : ∀ op ∈ ops, OpWF io ng.dtype op) (d : Str) :
    ∃ h2 b2, save io (run io ng ops).1 = .ok (h2, b2) ∧ ∃ g2, fromStream io d h2 (some b2) = .ok g2 ∧
      g2.nrows = ng.nrows ∧ g2.ncols = ng.ncols ∧ g2.dtype = g.dtype ∧ g2.nodata = (run io ng ops).1.nodata ∧
      g2.data = (run io ng ops).1.data := by
  obtain ⟨hs, _, _⟩ := clipped_grid_is_grid io g hg hnc x0 y0 x1 y1 ng h
  obtain ⟨_, _, _, _, _, _, _, _, _, _, hdt, _⟩ := clip_block_any_arithmetic io g hnc hg.rows hg.cols x0 y0 x1 y1 ng h
  obtain ⟨h2, b2, e1, g2, e2, _, _, _, _, _, _, a7, a8, a9, a10, a11⟩ := save_load_after_history io hio ng hs ops hops d
  exact ⟨h2, b2, e1, g2, e2, a9, a10, a11.trans hdt, a7, a8⟩

/-! ## 8. the hypotheses are satisfiable; sample evaluations -/

section Examples
open HydroVerif.C07

example : IOok ioToy := ioToy_ok
example : GridOK ioToy g0 := g0_ok
/-- an admissible history on `g0`: an item write above 2^53, a fill, a re-assignment of the data, of the comment (two
lines), of the corner and of the no-data value -/
example : ∀ e ∈ ([.item 4 9007199254740993, .fill 7, .data [[1, 2, 3], [4, 5, 18446744073709551615]],
    .comment "a\nb".toList, .georef 1 2 3, .nodata 5] : List (Edit Int)), EditOK ioToy g0 e := by
  intro e he
  simp only [List.mem_cons, List.not_mem_nil, or_false] at he
  rcases he with rfl | rfl | rfl | rfl | rfl | rfl
  · show (9007199254740993 : Nat) < wordBound g0.dtype; decide
  · show (7 : Nat) < wordBound g0.dtype; decide
  · exact ⟨rfl, rfl, by decide, by decide, by decide⟩
  · trivial
  · trivial
  · exact ⟨by decide, fun h => absurd h (by decide)⟩

example : GridOK ioToy g1 :=
  ⟨⟨by decide, by decide, by decide, by decide, fun a _ v h => by simp [lookup, g1, g0] at h,
    fun _ => ⟨by decide, by decide, 2143289344, by decide, by decide⟩⟩, by decide, by decide, by decide⟩


set_option maxRecDepth 8000 in
/-- the header `Grid.save` writes for `g0` -/
example : (save ioToy g0).toOption.map (fun p => (p.1, p.2.length)) =
    some ("NROWS          2\nNCOLS          3\nXLLCORNER      -5\nYLLCORNER      7\nCELLSIZE       2\nNBITS          64\nPIXELTYPE      SIGNEDINT\nBYTEORDER      I\nNODATA_VALUE   -1\nNAME           My Grid\nCOMMENT        two lines\n".toList, 48) := by
  decide

/-- … and what `from_stream` makes of it and of the data bytes (an instance of `save_load`): same shape, corner,
cell size, dtype, no-data word and cell words (2^62+1, -2^63 included) -/
example : ∃ h b g, save ioToy g0 = .ok (h, b) ∧ fromStream ioToy "stem".toList h (some b) = .ok g ∧
    g.nrows = 2 ∧ g.ncols = 3 ∧ g.xll = -5 ∧ g.yll = 7 ∧ g.csz = 2 ∧ g.dtype = ⟨.int, 8⟩ ∧
    g.nodata = 18446744073709551615 ∧ g.data = g0.data := by
  obtain ⟨h, b, hs, g, hl, h1, h2, h3, h4, h5, h6, h7, h8⟩ := save_load ioToy ioToy_ok g0 g0_ok "stem".toList
  exact ⟨h, b, g, hs, hl, h1, h2, h3, h4, h5, h6, h7, h8⟩

/-- byte order matters: the big-endian bytes of 1 read as little-endian are 256 -/
example : decode .little (encode .big 2 1) = 256 ∧ decode .big (encode .big 2 1) = 1 := by decide

/-- the pixel-type regex of `from_stream` -/
example : pixelSub "signedint".toList = "i".toList ∧ pixelSub "unsignedint".toList = "u".toList ∧
    pixelSub "float".toList = "f".toList ∧ pixelSub "int".toList = "i".toList ∧ pixelSub "uint".toList = "ui".toList := by
  decide

/-- malformed headers are rejected with the error the code raises -/
example : (fromStream ioToy [] "NROWS 2\nBYTEORDER X\nNCOLS 2\n".toList none).toOption.isNone = true ∧
    (match parseHeader ioToy [] "NROWS\n".toList with | .error .malformedLine => true | _ => false) = true := by
  decide

/-- the hypotheses of `clip_parent_values` are met by a 2×3 grid and the box [(1/2,1/2), (5/2,3/2)] -/
example : 0 < gq.csz ∧ 0 < gq.ncols ∧ (gq.data.length : Int) = gq.nrows ∧ (∀ r ∈ gq.data, (r.length : Int) = gq.ncols) ∧
    InExtent (geom gq) (1/2) (1/2) ∧ InExtent (geom gq) (5/2) (3/2) ∧ ((1 : ℚ)/2 ≤ 5/2) ∧ ((1 : ℚ)/2 ≤ 3/2) := by
  refine ⟨by norm_num [gq], by decide, by decide, by decide, ?_, ?_, by norm_num, by norm_num⟩ <;>
    norm_num [InExtent, geom, gq]

/-! ### the state machine: a history with accepted and rejected calls on `g0` (2 × 3, int64) -/

example : StateOK ioToy g0 := stateOK_of_default ioToy g0 g0_ok ⟨rfl, rfl⟩

set_option maxRecDepth 8000 in
/-- which of these calls are rejected, and the state at the end: bounds 3 and 1 (the rejected `maxdata` stored its
bound), data clipped by the last accepted assignment to `[1, 1]`… the invariant holds all along (`mutators_keep_invariant`) -/
example : (run ioToy g0 opsEx).2 = [some .wrongCount, none, some .badIndex, none, some .badNodata, none, some .badBounds,
      some .wrongCount, some .wrongCount, none, none, some .badNodata] ∧
    (run ioToy g0 opsEx).1.nodata = 7 ∧ (run ioToy g0 opsEx).1.lo = some 3 ∧ (run ioToy g0 opsEx).1.hi = some 1 ∧
    (run ioToy g0 opsEx).1.data = [[1, 1, 1], [1, 1, 1]] := by
  decide

example : StateOK ioToy (run ioToy g0 opsEx).1 ∧ SameShape g0 (run ioToy g0 opsEx).1 :=
  ⟨(mutators_keep_invariant ioToy g0 (stateOK_of_default ioToy g0 g0_ok ⟨rfl, rfl⟩) opsEx opsEx_wf).1,
   (mutators_keep_invariant ioToy g0 (stateOK_of_default ioToy g0 g0_ok ⟨rfl, rfl⟩) opsEx opsEx_wf).2.1⟩

/-- … and the files written at the end of that history load back to the state at the end -/
example : ∃ h b g2, save ioToy (run ioToy g0 opsEx).1 = .ok (h, b) ∧ fromStream ioToy [] h (some b) = .ok g2 ∧
    g2.data = (run ioToy g0 opsEx).1.data ∧ g2.nodata = (run ioToy g0 opsEx).1.nodata := by
  obtain ⟨h, b, hs, g2, hl, _, _, _, _, _, _, a7, a8, _⟩ :=
    save_load_after_history ioToy ioToy_ok g0 (stateOK_of_default ioToy g0 g0_ok ⟨rfl, rfl⟩) opsEx opsEx_wf []
  exact ⟨h, b, g2, hs, hl, a8, a7⟩

/-- the two kinds of rejected state: unchanged, and "the new bound was stored" -/
example : (step ioToy g0 (.edit (.data [[1, 2]]))).2 = some .wrongCount ∧
    (step ioToy g0 (.edit (.data [[1, 2]]))).1.data = g0.data ∧
    (step ioToy { g0 with lo := some 3 } (.maxdata (.int 1))).2 = some .badBounds ∧
    (step ioToy { g0 with lo := some 3 } (.maxdata (.int 1))).1.hi = some 1 := by
  decide

/-- float bounds: 1.0 lies inside [-1.0, 2.0]; a NaN passes any bounds; a bound set to +inf is no bound -/
example : AboveLo ⟨.float, 4⟩ 0xbf800000 0x3f800000 ∧ BelowHi ⟨.float, 4⟩ 0x40000000 0x3f800000 ∧
    AboveLo ⟨.float, 4⟩ 0x40000000 0x7fc00123 ∧ BelowHi ⟨.float, 2⟩ 0x7c00 0x7bff ∧
    BoundsOK ⟨.float, 4⟩ (some 0xbf800000) (some 0x40000000) ∧
    clipWord ⟨.float, 4⟩ (some 0xbf800000) (some 0x40000000) 0x40400000 = 0x40000000 ∧
    clipWord ⟨.float, 4⟩ (some 0xbf800000) (some 0x40000000) 0xc0400000 = 0xbf800000 := by
  refine ⟨by simp only [AboveLo]; decide, by simp only [BelowHi]; decide, by simp only [AboveLo]; decide,
    by simp only [BelowHi]; decide, ?_, by decide, by decide⟩
  intro _
  exact ⟨fun l h => by cases h; decide, fun l h => by cases h; decide⟩

/-- clone independence with a rejected call: the wrong-shaped assignment rebinds nothing -/
example : (SOp.setData [[1, 2, 3]]).apply [[[1, 2], [3, 4]]] ⟨0⟩ = ([[[1, 2], [3, 4]]], ⟨0⟩) ∧
    ((SOp.setData [[5, 6], [7, 8]]).apply [[[1, 2], [3, 4]]] ⟨0⟩).2 = ⟨1⟩ := by decide

/-- catchment history: delineation with inlets, a failed call, a delineation without inlets — outlet, inlets (none) and
areas are those of the last call -/
example : (crun c0Ex copsEx).outlet = some 4 ∧ (crun c0Ex copsEx).inlets = none ∧ (crun c0Ex copsEx).area = some [4] ∧
    (crun c0Ex (copsEx.take 2)).area = none := by decide

example : ∃ d c', catchToDict ioToy (crun c0Ex copsEx) = .ok d ∧ catchFromDict ioToy d = .ok c' ∧
    c'.outlet = some 4 ∧ c'.inlets = none ∧ c'.area = some [4] ∧ c'.filled = some [4, 0] := by
  obtain ⟨_, _, _, h⟩ := catchment_history ioToy copsEx c0Ex rfl rfl (by decide) (by decide) (by decide)
  obtain ⟨d, c', h1, h2, _, b2, b3, b4, b5, _⟩ := h [4] (by decide)
  exact ⟨d, c', h1, h2, b2.trans (by decide), b3.trans (by decide), b4.trans (by decide), b5.trans (by decide)⟩

/-- file names: `a.b.bil` round-trips through either file; `xbil` is accepted by `save` and cannot be found again -/
example : ∃ fs', saveFS ioToy [] "d".toList "a.b.bil".toList g0 = .ok fs' ∧
    ∃ g', fromHeaderFS ioToy fs' "d".toList "a.b.hdr".toList = .ok g' ∧ g'.data = g0.data := by
  obtain ⟨fs', h1, h2⟩ := save_fromHeader_files ioToy ioToy_ok [] "d".toList "a.b".toList (by decide) g0 g0_ok
  obtain ⟨g', h3, _, _, _, _, _, _, _, h4⟩ := h2 "a.b.hdr".toList (Or.inr rfl)
  exact ⟨fs', h1, g', h3, h4⟩

example : ∃ fs', saveFS ioToy [] "d".toList "xbil".toList g0 = .ok fs' ∧
    fromHeaderFS ioToy fs' "d".toList "xbil".toList = .error .missingFile := by
  obtain ⟨h, b, hs, _⟩ := save_load ioToy ioToy_ok g0 g0_ok []
  exact save_name_guard_too_weak ioToy g0 h b hs "d".toList "xbil".toList (by decide) (by decide) (by decide)

/-- `from_dict` with only the two mandatory keys; with every key -/
example : (fromDictP ioToy dMin).toOption.map (fun g => (g.nrows, g.ncols, g.dtype, g.data)) =
      some (2, 2, ⟨.float, 8⟩, [[0, 0], [0, 0]]) ∧
    fromDictP ioToy (toDict ioToy g0).full = fromDict ioToy (toDict ioToy g0) :=
  ⟨by decide, fromDictP_full ioToy _⟩

/-- closure: the grid loaded from the files of `g0` is in the invariant, and so is every state reached from it -/
example : ∃ h b g, save ioToy g0 = .ok (h, b) ∧ fromStream ioToy [] h (some b) = .ok g ∧ StateOK ioToy g ∧
    StateOK ioToy (run ioToy g opsEx).1 := by
  obtain ⟨h, b, hs, g, hl, _, _, _, _, _, hdt, hnd, _⟩ := save_load ioToy ioToy_ok g0 g0_ok []
  have hst := (loaded_grid_is_grid ioToy [] h b g hl (by rw [hdt, hnd]; decide)
    (by rw [hdt]; exact fun hk => absurd hk (by decide))).1
  exact ⟨h, b, g, hs, hl, hst, (mutators_keep_invariant ioToy g hst opsEx (by rw [hdt]; exact opsEx_wf)).1⟩

end Examples

/-! ### clip: the hypotheses of the any-arithmetic theorems are met wherever those of the exact theorem are -/

section ClipAnyExamples
open HydroVerif.C07
variable {α : Type} [Field α] [LinearOrder α] [IsStrictOrderedRing α] [FloorRing α]

example (io : NumIO α) (g : Grid α) (hcsz : 0 < g.csz) (hnc : 0 < g.ncols)
    (hr : (g.data.length : Int) = g.nrows) (hc : ∀ r ∈ g.data, (r.length : Int) = g.ncols)
    {x0 y0 x1 y1 : α} (h0 : InExtent (geom g) x0 y0) (h1 : InExtent (geom g) x1 y1) (hx : x0 ≤ x1) (hy : y0 ≤ y1) :
    ∃ ng, clip io g x0 y0 x1 y1 = .ok ng ∧ 0 < ng.nrows ∧ 0 < ng.ncols ∧ ng.lo = none := by
  obtain ⟨v0, _⟩ := coord2cell_of_inExtent (g := geom g) hcsz h0
  obtain ⟨v1, _⟩ := coord2cell_of_inExtent (g := geom g) hcsz h1
  obtain ⟨ng, h, p1, p2⟩ := clip_succeeds_monotone io g hnc hr hc (fun a b o hab => floor_offset_monotone g.csz hcsz a b o hab)
    x0 y0 x1 y1 hx hy v0 v1
  obtain ⟨_, _, _, _, _, _, _, _, _, _, _, _, _, hlo, _⟩ := clip_block_any_arithmetic io g hnc hr hc x0 y0 x1 y1 ng h
  exact ⟨ng, h, p1, p2, hlo⟩

end ClipAnyExamples

end HydroVerif.C13
