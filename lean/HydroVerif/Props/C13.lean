/-
C13 — property theorems. Model: `HydroVerif/Model/C13.lean`.

Clause → theorems → what remains outside (every model function named below runs in `Drivers/C13.lean` and is compared
with the real code by `harness/c13.py`; the op is given in brackets)

| clause of the property                                        | theorems (all shapes, all words, all histories)               | outside the theorems |
|---------------------------------------------------------------|----------------------------------------------------------------|----------------------|
| saved to BIL + header and loaded back: identical shape,       | `header_roundtrip`, `header_dtype_table`, `load_file`,         | float text: `IOok`, `NodataPrintable` are hypotheses about  |
| georeferencing, dtype, no-data value [save, load]             | `load_saveData`, `fromStream_file`, `save_load`                | CPython/numpy (`external_text_statement`), checked directly |
| … bit-identical cell values, every supported type             | `decode_encode`, `fromfile_encode`, `clipWord_id`,             | on all float16 and random float32/64 words; `tofile`,       |
| (full range, NaN/inf) [save, load, setdata]                   | `clipData_default`, `setData_id`, `load_file`, `save_load`     | `fromfile`, zipfile, the file system (end-to-end oracle)    |
| … rasters of either byte order [savebo, load]                 | `fromStream_file` (bo = I, M), `decode_little_encode_big_iff`  | a grid object itself is always native: `M` only on files    |
| exported to a dictionary and rebuilt: shape, georef, dtype,   | `dtypeOfStr_dtypeStr`, `nodataWord_text`, `dict_roundtrip`     | numpy scalar construction from text (same `NumIO`)          |
| no-data value [todict, fromdict]                              |                                                                |                                                             |
| cloned: identical, bit-identical cells [clone, cloneas]       | `clone_eq`, `cloneAs_same`                                     | `copy.deepcopy` itself (clone is the identity on the record)|
| clones are independent of the original [store, storeas,       | `clone_independent`, `cloneAs_independent`,                    | metadata attributes of two Python objects (scalars/strings):|
| store3]                                                       | `handles_independent` (any number of clones, any history)      | oracle only                                                 |
| catchment rebuilt from its dictionary: same outlet, inlets    | `catchToDict_ok_iff`, `catchment_dict_roundtrip`               | delineation itself (C06); the flow-direction DATA are not   |
| (present or None), areas [catch]                              |                                                                | in the dictionary (by design of the code)                   |
| clipped grid holds exactly the parent's values at coinciding  | `clip_parent_values`, `clip_wellformed`, `clip_of_clip`        | exact arithmetic (ordered field with floor); IEEE rounding   |
| cell centres, boxes with both corners in the extent [clip]    |                                                                | of corners within an ulp of a cell edge: correspondence at   |
|                                                               |                                                                | Float + centre oracle                                        |
| histories: save → edit → save → load; load → edit → to_dict;  | `edits_preserve_gridOK`, `save_load_after_edits`,              | re-assignment of `dtype`, `nrows`, `ncols`, `mindata`,       |
| attribute re-assignment between exports [edits]               | `dict_after_edits`                                             | `maxdata` (not in the quantifier)                            |
| (diagnostic) the pinned code's float64 detour                 | `roundF64_small` + example                                     |                                                             |
-/
import HydroVerif.Lemmas.C13Header
import HydroVerif.Lemmas.C13Clip
import HydroVerif.Lemmas.C13Examples

namespace HydroVerif.C13

/-! ## 1. type tables -/

/-- the dtype string written by `to_dict` is read back by `from_dict` as the same type, for the 11 supported types -/
theorem dtypeOfStr_dtypeStr : ∀ t ∈ allDTypes, dtypeOfStr (dtypeStr t) = some (.little, t) := by
  decide

/-- `allDTypes` is exactly the set of supported types -/
theorem supported_iff_mem (t : DType) : t.supported = true ↔ t ∈ allDTypes := by
  obtain ⟨k, b⟩ := t
  cases k <;> simp [DType.supported, allDTypes] <;> omega

/-- **header type table**: for each of the 11 supported types, the dtype name is recognised by `save`
(`signedint / unsignedint / float`), the PIXELTYPE value written is read back as that pixel type, and the string
`from_stream` hands to `np.dtype` — byte-order character, regex-reduced pixel type, `NBITS // 8` — resolves to the
same type with the byte order of the header letter, for `I` and for `M` -/
theorem header_dtype_table : ∀ t ∈ allDTypes,
    pixelTypeOfName (stripTrailingDigits (dtypeName t)) = some (pixOf t.kind) ∧
    lower (strip (joinSp (splitRunsAux true (upper (pixOf t.kind) ++ ['\n'])))) = pixOf t.kind ∧
    dtypeOfStr ('<' :: (pixelSub (pixOf t.kind) ++ intStr (Int.fdiv ((t.bytes * 8 : Nat) : Int) 8))) = some (.little, t) ∧
    dtypeOfStr ('>' :: (pixelSub (pixOf t.kind) ++ intStr (Int.fdiv ((t.bytes * 8 : Nat) : Int) 8))) = some (.big, t) :=
  pixel_table

/-! ## 2. bytes -/

/-- a word written in a byte order and read in the same byte order is unchanged -/
theorem decode_encode (bo : ByteOrder) (n w : Nat) (h : w < 256 ^ n) : decode bo (encode bo n w) = w := by
  cases bo <;> simp [decode, encode, decodeLE_encodeLE n w h]

/-- reading big-endian bytes as little-endian returns the word only when its byte string is a palindrome:
the byte order of the header must be honoured -/
theorem decode_little_encode_big_iff (n w : Nat) (h : w < 256 ^ n) :
    decode .little (encode .big n w) = w ↔ (encodeLE n w).reverse = encodeLE n w := by
  simp only [decode, encode]
  constructor
  · intro hd
    apply decodeLE_injective (by simp)
    rw [hd, decodeLE_encodeLE n w h]
  · intro hp
    rw [hp, decodeLE_encodeLE n w h]

/-- `np.fromfile` with byte order `bo` recovers the words of a file that stores them in byte order `bo` -/
theorem fromfile_encode (bo : ByteOrder) (t : DType) (ht : 0 < t.bytes) (ws : List Nat)
    (hw : ∀ w ∈ ws, w < wordBound t) :
    fromfile bo t (ws.flatMap (encode bo t.bytes)) = ws := by
  unfold fromfile
  rw [List.flatMap_def, chunks_flatten t.bytes ht]
  · rw [List.map_map]
    calc ws.map (decode bo ∘ encode bo t.bytes) = ws.map id := by
          apply List.map_congr_left
          intro w hwm
          exact decode_encode bo t.bytes w (hw w hwm)
      _ = ws := List.map_id _
  · intro b hb
    obtain ⟨w, _, rfl⟩ := List.mem_map.mp hb
    cases bo <;> simp [encode, encodeLE_length]

/-! ## 3. the data path is the identity -/

/-- `_clipdata` followed by `astype` leaves every value inside `[mindata, maxdata]` bit-identical; an
infinite bound (`none`) constrains nothing -/
theorem clipWord_id (t : DType) (lo hi : Option Int) (w : Nat) (hw : w < wordBound t)
    (hlo : ∀ l, lo = some l → l ≤ toInt t w) (hhi : ∀ h, hi = some h → toInt t w ≤ h) :
    clipWord t lo hi w = w := by
  unfold clipWord
  cases hk : t.kind <;> simp only
  all_goals
    cases lo with
    | none =>
      cases hi with
      | none => simp
      | some h =>
        have := hhi h rfl
        simp only [Option.isNone_none, Option.isNone_some, Bool.and_false, Bool.false_eq_true, if_false]
        rw [if_neg (by omega)]
        exact ofInt_toInt t w hw
    | some l =>
      have h1 := hlo l rfl
      simp only [Option.isNone_some, Bool.false_and, Bool.false_eq_true, if_false]
      rw [if_neg (by omega)]
      cases hi with
      | none => exact ofInt_toInt t w hw
      | some h =>
        have := hhi h rfl
        simp only
        rw [if_neg (by omega)]
        exact ofInt_toInt t w hw

/-- with the default bounds the whole array goes through unchanged, whatever the values (NaN, inf, 2^63-1 …) -/
theorem clipData_default (t : DType) (rows : List (List Nat)) : clipData t none none rows = rows :=
  clipData_default' t rows

/-- the data setter keeps an array of the right shape bit-identical (default bounds) -/
theorem setData_id {ν : Type} (g : Grid ν) (rows : List (List Nat)) (hb : g.lo = none ∧ g.hi = none)
    (hr : (rows.length : Int) = g.nrows) (hc : ∀ r ∈ rows, (r.length : Int) = g.ncols) :
    setData g rows = .ok { g with data := rows } :=
  setData_id' g rows hb hr hc

/-- the detour through float64 that the data setter and `load` took at the pinned commit is the identity on integers
below 2^53 in magnitude only … -/
theorem roundF64_small (n : Int) (h : n.natAbs < 2 ^ 53) : roundF64 n = n := by
  unfold roundF64
  have hl : Nat.log2 n.natAbs + 1 - 53 = 0 := by
    by_cases h0 : n.natAbs = 0
    · rw [h0]; simp [Nat.log2]
    · have := (Nat.log2_lt h0).mpr h
      omega
  simp only [hl, pow_zero, Nat.div_one, Nat.mod_one, Nat.mul_zero, Nat.mul_one]
  have : ¬ (0 > 1 ∨ (0 = 1 ∧ n.natAbs % 2 = 1)) := by omega
  rw [if_neg this]
  split <;> omega

/-- … and loses the low bits above (the defect repaired by the `fix:` commit): 2^62+1 ↦ 2^62 -/
example : roundF64 (2 ^ 62 + 1) = 2 ^ 62 ∧ roundF64 (2 ^ 53 + 1) = 2 ^ 53 ∧ roundF64 (2 ^ 53 + 3) = 2 ^ 53 + 4 ∧
    roundF64 (-(2 ^ 62 + 1)) = -(2 ^ 62) := by
  decide

/-- **load**: a file that stores `rows` row by row in byte order `bo` is loaded, with that byte order, to exactly
`rows` — for every dtype with a positive item size, every shape and every word (full range, NaN, inf) -/
theorem load_file {ν : Type} (g : Grid ν) (bo : ByteOrder) (rows : List (List Nat))
    (ht : 0 < g.dtype.bytes) (hb : g.lo = none ∧ g.hi = none)
    (h0 : 0 ≤ g.ncols)
    (hr : (rows.length : Int) = g.nrows) (hc : ∀ r ∈ rows, (r.length : Int) = g.ncols)
    (hw : ∀ r ∈ rows, ∀ w ∈ r, w < wordBound g.dtype) :
    load g bo (rows.flatten.flatMap (encode bo g.dtype.bytes)) = .ok { g with data := rows } := by
  unfold load
  have hc' : ∀ r ∈ rows, r.length = g.ncols.toNat := by
    intro r hrm
    have := hc r hrm
    omega
  rw [fromfile_encode bo g.dtype ht rows.flatten (by
    intro w hwm
    obtain ⟨r, hrm, hwr⟩ := List.mem_flatten.mp hwm
    exact hw r hrm w hwr)]
  have hlen : (rows.flatten.length : Int) = g.nrows * g.ncols := by
    rw [length_flatten_uniform g.ncols.toNat rows hc', ← hr]
    push_cast
    rw [Int.toNat_of_nonneg h0]
  simp only [hlen, ne_eq, not_true_eq_false, if_false]
  have hn : g.nrows.toNat = rows.length := by omega
  rw [hn, reshape_flatten g.ncols.toNat rows hc', hb.1, hb.2, clipData_default]

/-- **save then load**: the bytes written by `tofile` are loaded back (byte order `I`) to the same words -/
theorem load_saveData {ν : Type} (g : Grid ν) (ht : 0 < g.dtype.bytes) (hb : g.lo = none ∧ g.hi = none)
    (h0 : 0 ≤ g.ncols) (hr : (g.data.length : Int) = g.nrows) (hc : ∀ r ∈ g.data, (r.length : Int) = g.ncols)
    (hw : ∀ r ∈ g.data, ∀ w ∈ r, w < wordBound g.dtype) :
    load g .little (saveData g.dtype g.data) = .ok g := by
  have := load_file g .little g.data ht hb h0 hr hc hw
  have he : encode ByteOrder.little g.dtype.bytes = encodeLE g.dtype.bytes := by
    funext w; rfl
  rw [he] at this
  exact this

/-! ## 4. the header is parsed back to what was written -/

/-- **header round trip** (`parse (write g) = meta g`): for every supported dtype, either byte-order letter, every
shape, any georeferencing numbers, any no-data value, ANY name and comment (line breaks included: `save` writes
them as blanks) and any parent attributes, the text written by `Grid.save` is split into the same lines, every line is accepted, and `from_stream` builds
a grid with the same shape, corner, cell size, dtype, byte order and no-data word (fresh zero data, default
bounds). External facts used: `float(str(x)) = x` and "`str(x)` has no white space" (`IOok`), and for float
no-data values `NodataPrintable`. -/
theorem header_roundtrip {ν : Type} (io : NumIO ν) (hio : IOok io) (bo : ByteOrder) (g : Grid ν) (hg : HeaderOK io g)
    (d : Str) :
    ∃ h, writeHeaderBO io bo g = .ok h ∧ ∃ c hi,
      parseLines io (Config.init io d) (readlines h) = .ok c ∧ finishConfig io c = .ok hi ∧
      hi.byteorder = bo ∧ hi.grid.nrows = g.nrows ∧ hi.grid.ncols = g.ncols ∧
      hi.grid.xll = g.xll ∧ hi.grid.yll = g.yll ∧ hi.grid.csz = g.csz ∧ hi.grid.dtype = g.dtype ∧
      hi.grid.nodata = g.nodata ∧ hi.grid.lo = none ∧ hi.grid.hi = none ∧
      hi.grid.data = zeros g.nrows.toNat g.ncols.toNat := by
  obtain ⟨hpix, hpixline, hdtL, hdtB⟩ := pixel_table g.dtype hg.supported
  unfold writeHeaderBO
  rw [hpix]
  refine ⟨_, rfl, ?_⟩
  simp only [List.append_assoc]
  have nlF : ∀ x, NoNL (io.showF x) := fun x => (hio.showF_token x).noNL
  have nlI : ∀ i, NoNL (intStr i) := fun i => (intStr_noSpace i).noNL
  have nlN : ∀ n, NoNL (natStr n) := fun n => (natStr_noSpace n).noNL
  have hcomment : NoNL (if oneLine g.comment = [] then "No comment".toList else oneLine g.comment) := by
    split
    · decide
    · exact oneLine_noNL _
  have hparent : ∀ a v, lookup g.parent a = some v → NoNL (v.str io) := by
    intro a v hl
    cases v with
    | int n => exact nlI n
    | num x => exact nlF x
    | text t => exact hg.parent_text a t hl
  -- line by line
  have e1 := parseLine_int io (Config.init io d) 14 "NROWS".toList g.nrows (by decide) (by decide) (by decide)
  rw [readlines_fmtLine 14 _ _ _ (by decide) (nlI _), parseLines_step io _ _ _ _ e1]
  have e2 := parseLine_int io ((Config.init io d).setInt (lower "NROWS".toList) g.nrows) 14 "NCOLS".toList g.ncols
    (by decide) (by decide) (by decide)
  rw [readlines_fmtLine 14 _ _ _ (by decide) (nlI _), parseLines_step io _ _ _ _ e2]
  generalize hc2 : ((Config.init io d).setInt (lower "NROWS".toList) g.nrows).setInt (lower "NCOLS".toList) g.ncols = c2
  have e3 := parseLine_num io hio c2 14 "XLLCORNER".toList g.xll (by decide) (by decide) (by decide) (by decide)
  rw [readlines_fmtLine 14 _ _ _ (by decide) (nlF _), parseLines_step io _ _ _ _ e3]
  have e4 := parseLine_num io hio (c2.setNum (lower "XLLCORNER".toList) g.xll) 14 "YLLCORNER".toList g.yll
    (by decide) (by decide) (by decide) (by decide)
  rw [readlines_fmtLine 14 _ _ _ (by decide) (nlF _), parseLines_step io _ _ _ _ e4]
  generalize hc4 : (c2.setNum (lower "XLLCORNER".toList) g.xll).setNum (lower "YLLCORNER".toList) g.yll = c4
  have e5 := parseLine_num io hio c4 14 "CELLSIZE".toList g.csz (by decide) (by decide) (by decide) (by decide)
  rw [readlines_fmtLine 14 _ _ _ (by decide) (nlF _), parseLines_step io _ _ _ _ e5]
  have e6 := parseLine_int io (c4.setNum (lower "CELLSIZE".toList) g.csz) 14 "NBITS".toList ((g.dtype.bytes * 8 : Nat) : Int)
    (by decide) (by decide) (by decide)
  rw [intStr_natCast] at e6
  rw [readlines_fmtLine 14 _ _ _ (by decide) (nlN _), parseLines_step io _ _ _ _ e6]
  generalize hc6 : ((c4.setNum (lower "CELLSIZE".toList) g.csz).setInt (lower "NBITS".toList) ((g.dtype.bytes * 8 : Nat) : Int)) = c6
  have e7 := parseLine_text io c6 14 "PIXELTYPE".toList (upper (pixOf g.dtype.kind)) (by decide) (by decide)
  rw [hpixline] at e7
  have hpixnl : NoNL (upper (pixOf g.dtype.kind)) := by cases g.dtype.kind <;> decide
  rw [readlines_fmtLine 14 _ _ _ (by decide) hpixnl, parseLines_step io _ _ _ _ e7]
  have e8 := parseLine_text io (c6.setText (lower "PIXELTYPE".toList) (pixOf g.dtype.kind)) 14 "BYTEORDER".toList
    (boLetter bo) (by decide) (by decide)
  rw [byteorder_line] at e8
  rw [readlines_fmtLine 14 _ _ _ (by decide) (by cases bo <;> decide), parseLines_step io _ _ _ _ e8]
  generalize hc8 : ((c6.setText (lower "PIXELTYPE".toList) (pixOf g.dtype.kind)).setText (lower "BYTEORDER".toList)
    (boKey bo)) = c8
  obtain ⟨nv, e9, hnv, hnvnl⟩ := nodata_line io c8 g.dtype g.nodata hg.nodata_lt hg.nodata_printable
  rw [readlines_fmtLine 14 _ _ _ (by decide) hnvnl, parseLines_step io _ _ _ _ e9]
  have e10 := parseLine_text io (c8.setNodata "nodata_value".toList nv) 14 "NAME".toList (oneLine g.name) (by decide) (by decide)
  rw [readlines_fmtLine 14 _ _ _ (by decide) (oneLine_noNL _), parseLines_step io _ _ _ _ e10]
  generalize hc10 : ((c8.setNodata "nodata_value".toList nv).setText (lower "NAME".toList)
    (lower (strip (joinSp (splitRunsAux true (oneLine g.name ++ ['\n'])))))) = c10
  have e11 := parseLine_text io c10 14 "COMMENT".toList
    (if oneLine g.comment = [] then "No comment".toList else oneLine g.comment) (by decide) (by decide)
  rw [readlines_fmtLine 14 _ _ _ (by decide) hcomment, parseLines_step io _ _ _ _ e11]
  generalize hc11 : (c10.setText (lower "COMMENT".toList) (lower (strip (joinSp (splitRunsAux true
    ((if oneLine g.comment = [] then "No comment".toList else oneLine g.comment) ++ ['\n'])))))) = c11
  obtain ⟨p, hp⟩ := parseLines_parentBlock io g.parent hparent parentAttrs parentAttrs_ok c11
  suffices h : ∃ hi, finishConfig io { c11 with parent := p } = .ok hi ∧
      hi.byteorder = bo ∧ hi.grid.nrows = g.nrows ∧ hi.grid.ncols = g.ncols ∧
      hi.grid.xll = g.xll ∧ hi.grid.yll = g.yll ∧ hi.grid.csz = g.csz ∧ hi.grid.dtype = g.dtype ∧
      hi.grid.nodata = g.nodata ∧ hi.grid.lo = none ∧ hi.grid.hi = none ∧
      hi.grid.data = zeros g.nrows.toNat g.ncols.toNat by
    obtain ⟨hi, h1, h2⟩ := h
    exact ⟨_, hi, hp, h1, h2⟩
  subst hc11 hc10 hc8 hc6 hc4 hc2
  clear e1 e2 e3 e4 e5 e6 e7 e8 e9 e10 e11 hp
  have k1 : lower "NROWS".toList = "nrows".toList := by decide
  have k2 : lower "NCOLS".toList = "ncols".toList := by decide
  have k3 : lower "XLLCORNER".toList = "xllcorner".toList := by decide
  have k4 : lower "YLLCORNER".toList = "yllcorner".toList := by decide
  have k5 : lower "CELLSIZE".toList = "cellsize".toList := by decide
  have k6 : lower "NBITS".toList = "nbits".toList := by decide
  have k7 : lower "PIXELTYPE".toList = "pixeltype".toList := by decide
  have k8 : lower "BYTEORDER".toList = "byteorder".toList := by decide
  have k10 : lower "NAME".toList = "name".toList := by decide
  have k11 : lower "COMMENT".toList = "comment".toList := by decide
  rw [k1, k2, k3, k4, k5, k6, k7, k8, k10, k11]
  rw [setInt_nrows, setInt_ncols, setNum_xll, setNum_yll, setNum_csz, setInt_nbits, setText_pixeltype,
    setText_byteorder, setNodata_value, setText_name, setText_comment]
  have hshape : ¬ (g.nrows < 0 ∨ g.ncols < 0) := by
    have := hg.nrows_nonneg; have := hg.ncols_nonneg; omega
  cases bo with
  | little =>
    have hb1 : ¬ ("i".toList ≠ "m".toList ∧ "i".toList ≠ "i".toList) := by decide
    have hb2 : ¬ ("i".toList = "m".toList) := by decide
    simp only [boKey]
    unfold finishConfig
    dsimp only
    rw [if_neg hb1]
    simp only [if_neg hb2, hdtL, Config.init, mkGrid, hnv, if_neg hshape]
    exact ⟨_, rfl, rfl, rfl, rfl, rfl, rfl, rfl, rfl, rfl, rfl, rfl, rfl⟩
  | big =>
    have hb1 : ¬ ("m".toList ≠ "m".toList ∧ "m".toList ≠ "i".toList) := by decide
    simp only [boKey]
    unfold finishConfig
    dsimp only
    rw [if_neg hb1]
    simp only [↓reduceIte, hdtB, Config.init, mkGrid, hnv, if_neg hshape]
    exact ⟨_, rfl, rfl, rfl, rfl, rfl, rfl, rfl, rfl, rfl, rfl, rfl, rfl⟩

/-- **raster of either byte order**: the header written for `g` with byte-order letter `bo`, together with a data
file holding `g`'s words row by row in byte order `bo`, is loaded by `from_stream` to a grid with identical shape,
georeferencing, dtype, no-data value and bit-identical cell values -/
theorem fromStream_file {ν : Type} (io : NumIO ν) (hio : IOok io) (bo : ByteOrder) (g : Grid ν) (hg : GridOK io g)
    (d : Str) :
    ∃ h, writeHeaderBO io bo g = .ok h ∧ ∃ g',
      fromStream io d h (some (g.data.flatten.flatMap (encode bo g.dtype.bytes))) = .ok g' ∧
      g'.nrows = g.nrows ∧ g'.ncols = g.ncols ∧ g'.xll = g.xll ∧ g'.yll = g.yll ∧ g'.csz = g.csz ∧
      g'.dtype = g.dtype ∧ g'.nodata = g.nodata ∧ g'.data = g.data := by
  obtain ⟨h, hw, c, hi, hparse, hfin, hbo, hnr, hnc, hx, hy, hcs, hdt, hnd, hlo, hhi, _⟩ :=
    header_roundtrip io hio bo g hg.header d
  refine ⟨h, hw, ?_⟩
  have hload := load_file hi.grid bo g.data (by rw [hdt]; exact bytes_pos_of_mem hg.header.supported) ⟨hlo, hhi⟩
    (by rw [hnc]; exact hg.header.ncols_nonneg) (by rw [hnr]; exact hg.rows) (by rw [hnc]; exact hg.cols)
    (by rw [hdt]; exact hg.words)
  rw [hdt] at hload
  unfold fromStream
  simp only [hparse, hfin, hbo, hload]
  exact ⟨_, rfl, hnr, hnc, hx, hy, hcs, rfl, hnd, rfl⟩

/-- **save then load**: what `Grid.save` writes (header text, `tofile` bytes) is loaded back by
`from_header / from_stream / from_zip` to identical shape, georeferencing, dtype, no-data value and
bit-identical cell values -/
theorem save_load {ν : Type} (io : NumIO ν) (hio : IOok io) (g : Grid ν) (hg : GridOK io g) (d : Str) :
    ∃ h bytes, save io g = .ok (h, bytes) ∧ ∃ g', fromStream io d h (some bytes) = .ok g' ∧
      g'.nrows = g.nrows ∧ g'.ncols = g.ncols ∧ g'.xll = g.xll ∧ g'.yll = g.yll ∧ g'.csz = g.csz ∧
      g'.dtype = g.dtype ∧ g'.nodata = g.nodata ∧ g'.data = g.data := by
  obtain ⟨h, hw, g', hl, rest⟩ := fromStream_file io hio .little g hg d
  refine ⟨h, saveData g.dtype g.data, ?_, g', ?_, rest⟩
  · unfold save writeHeader; rw [hw]
  · have he : encode ByteOrder.little g.dtype.bytes = encodeLE g.dtype.bytes := by funext w; rfl
    rw [he] at hl
    exact hl

/-- **what is assumed of CPython / numpy** (not provable here: the shortest-repr printer and `float()` are external):
float printing has no white space and reads back exactly, and every float no-data word that is not a NaN with a
non-canonical payload is printed as a non-integer literal that reads back to the same word. The theorems above take
exactly these facts as hypotheses (`IOok`, `NodataPrintable`); the harness checks them directly on all 65536 float16
words and on random float32 / float64 words. -/
def external_text_statement {ν : Type} (io : NumIO ν) (isNaNWord : DType → Nat → Bool) : Prop :=
  IOok io ∧ ∀ t ∈ allDTypes, ∀ w, w < wordBound t → isNaNWord t w = false → NodataPrintable io t w

/-- the proved part: for the integer types nothing is assumed — their no-data text is produced and parsed concretely -/
theorem external_text_partial {ν : Type} (io : NumIO ν) (t : DType) (w : Nat) (hk : t.kind ≠ .float) :
    NodataPrintable io t w :=
  fun h => absurd h hk

/-! ## 5. dictionaries -/

/-- the no-data text of `to_dict` is turned back into the same scalar by the constructor -/
theorem nodataWord_text {ν : Type} (io : NumIO ν) (t : DType) (w : Nat) (hw : w < wordBound t)
    (hp : NodataPrintable io t w) : nodataWord io t (.text (nodataStr io t w)) = .ok w := by
  unfold nodataStr nodataWord
  cases hk : t.kind with
  | float =>
    obtain ⟨h1, _, y, h3, h4⟩ := hp hk
    simp only [strip_noSpace _ h1, h3, h4]
  | int =>
    simp only [strip_noSpace _ (intStr_noSpace _), parseInt?_intStr, intInRange_toInt t w hw, if_true,
      ofInt_toInt t w hw]
  | uint =>
    simp only [strip_noSpace _ (intStr_noSpace _), parseInt?_intStr, intInRange_toInt t w hw, if_true,
      ofInt_toInt t w hw]

/-- **grid dictionary round trip**: `Grid.from_dict(g.to_dict())` has the same name, shape, georeferencing, dtype,
no-data value and comment (its data are zeros: the dictionary carries metadata only) -/
theorem dict_roundtrip {ν : Type} (io : NumIO ν) (g : Grid ν) (hs : g.dtype ∈ allDTypes)
    (hw : g.nodata < wordBound g.dtype) (hp : NodataPrintable io g.dtype g.nodata)
    (hr : 0 ≤ g.nrows) (hc : 0 ≤ g.ncols) :
    ∃ g', fromDict io (toDict io g) = .ok g' ∧ g'.name = g.name ∧ g'.comment = g.comment ∧
      g'.nrows = g.nrows ∧ g'.ncols = g.ncols ∧ g'.xll = g.xll ∧ g'.yll = g.yll ∧ g'.csz = g.csz ∧
      g'.dtype = g.dtype ∧ g'.nodata = g.nodata ∧ g'.data = zeros g.nrows.toNat g.ncols.toNat := by
  unfold fromDict toDict
  have hshape : ¬ (g.nrows < 0 ∨ g.ncols < 0) := by omega
  simp only [dtypeOfStr_dtypeStr g.dtype hs, mkGrid, nodataWord_text io g.dtype g.nodata hw hp, if_neg hshape]
  exact ⟨_, rfl, rfl, rfl, rfl, rfl, rfl, rfl, rfl, rfl, rfl, rfl⟩

/-- `Catchment.to_dict` succeeds exactly on delineated catchments -/
theorem catchToDict_ok_iff {ν : Type} (io : NumIO ν) (c : Catchment ν) :
    (∃ d, catchToDict io c = .ok d) ↔ (c.area.isSome ∧ c.filled.isSome) := by
  unfold catchToDict
  cases c.area <;> cases c.filled <;> simp

/-- **catchment dictionary round trip**: outlet, inlets (present or absent), area cells and filled area cells
come back unchanged and in the same order, together with the name and the metadata of the flow-direction grid -/
theorem catchment_dict_roundtrip {ν : Type} (io : NumIO ν) (c : Catchment ν) (a f : List Int)
    (ha : c.area = some a) (hf : c.filled = some f) (hs : c.flowdir.dtype = int64)
    (hw : c.flowdir.nodata < wordBound int64) (hr : 0 ≤ c.flowdir.nrows) (hc : 0 ≤ c.flowdir.ncols) :
    ∃ d c', catchToDict io c = .ok d ∧ catchFromDict io d = .ok c' ∧
      c'.name = c.name ∧ c'.outlet = c.outlet ∧ c'.inlets = c.inlets ∧ c'.area = c.area ∧ c'.filled = c.filled ∧
      c'.flowdir.nrows = c.flowdir.nrows ∧ c'.flowdir.ncols = c.flowdir.ncols ∧ c'.flowdir.xll = c.flowdir.xll ∧
      c'.flowdir.yll = c.flowdir.yll ∧ c'.flowdir.csz = c.flowdir.csz ∧ c'.flowdir.dtype = c.flowdir.dtype ∧
      c'.flowdir.nodata = c.flowdir.nodata := by
  have hmem : c.flowdir.dtype ∈ allDTypes := by rw [hs]; decide
  have hp : NodataPrintable io c.flowdir.dtype c.flowdir.nodata := by
    intro hk; rw [hs] at hk; exact absurd hk (by decide)
  obtain ⟨g', hg', _, _, h3, h4, h5, h6, h7, h8, h9, _⟩ :=
    dict_roundtrip io c.flowdir hmem (by rw [hs]; exact hw) hp hr hc
  unfold catchToDict
  simp only [ha, hf]
  let d : CatchDict ν :=
    { name := c.name, outlet := c.outlet, inlets := c.inlets, area := a, filled := f, flowdir := toDict io c.flowdir }
  let c' : Catchment ν :=
    { name := c.name, flowdir := { g' with dtype := int64 }, outlet := c.outlet, inlets := c.inlets, area := some a,
      filled := some f }
  have hfrom : catchFromDict io d = .ok c' := by
    simp only [catchFromDict, d, hg', c']
  exact ⟨d, c', rfl, hfrom, rfl, rfl, rfl, rfl, rfl, h3, h4, h5, h6, h7, hs.symm, h9⟩

/-! ## 6. clones -/

/-- a clone is the same grid: shape, georeferencing, dtype, no-data value, bounds, parent attributes and every
cell word -/
theorem clone_eq {ν : Type} (g : Grid ν) : clone g = g := rfl

/-- **clone independence** (`copy.deepcopy`): the clone sees the same cell words as the original at the moment of
cloning; afterwards any sequence of item writes, fills and data rebindings applied through the clone leaves the
original's cells unchanged, and any such sequence applied through the original leaves the clone's cells unchanged -/
theorem clone_independent (s : Store) (a : Handle) (ha : a.arr < s.length) (ops : List SOp) :
    (s.clone a).1.read (s.clone a).2 = s.read a ∧
    (applyAll (s.clone a).1 (s.clone a).2 ops).1.read a = s.read a ∧
    (applyAll (s.clone a).1 a ops).1.read (s.clone a).2 = s.read a := by
  have hb : (s.clone a).2.arr < (s.clone a).1.length := by simp [Store.clone]
  have ha' : a.arr < (s.clone a).1.length := by simp [Store.clone]; omega
  have hne : a.arr ≠ (s.clone a).2.arr := by simp [Store.clone]; omega
  have hread : (s.clone a).1.read (s.clone a).2 = s.read a := by simp [Store.clone, read_append_new]
  refine ⟨hread, ?_, ?_⟩
  · rw [applyAll_other ops _ a _ ha' hb hne]
    simp [Store.clone, read_append _ _ _ ha]
  · rw [applyAll_other ops _ _ a hb ha' (Ne.symm hne), hread]

/-- **independence of `clone(dtype)`**, for every conversion `f` — in particular the identity, i.e. `dtype` equal to
the grid's own dtype (what `Catchment.__init__` does with an int64 flow-direction grid): the clone holds the
converted words in a NEW array; afterwards writes through the clone never reach the original and writes through the
original never reach the clone -/
theorem cloneAs_independent (s : Store) (a : Handle) (ha : a.arr < s.length) (f : Nat → Nat) (ops : List SOp) :
    (s.cloneMap a f).1.read (s.cloneMap a f).2 = (s.read a).map (fun r => r.map f) ∧
    (s.cloneMap a f).2.arr ≠ a.arr ∧
    (applyAll (s.cloneMap a f).1 (s.cloneMap a f).2 ops).1.read a = s.read a ∧
    (applyAll (s.cloneMap a f).1 a ops).1.read (s.cloneMap a f).2 = (s.read a).map (fun r => r.map f) := by
  have hb : (s.cloneMap a f).2.arr < (s.cloneMap a f).1.length := by simp [Store.cloneMap]
  have ha' : a.arr < (s.cloneMap a f).1.length := by simp [Store.cloneMap]; omega
  have hne : a.arr ≠ (s.cloneMap a f).2.arr := by simp [Store.cloneMap]; omega
  have hread : (s.cloneMap a f).1.read (s.cloneMap a f).2 = (s.read a).map (fun r => r.map f) := by
    simp [Store.cloneMap, read_append_new]
  refine ⟨hread, Ne.symm hne, ?_, ?_⟩
  · rw [applyAll_other ops _ a _ ha' hb hne]
    simp [Store.cloneMap, read_append _ _ _ ha]
  · rw [applyAll_other ops _ _ a hb ha' (Ne.symm hne), hread]

/-- `clone(dtype)` with the grid's own dtype is the grid itself (same words): `astype` has nothing to convert -/
theorem cloneAs_same {ν : Type} (io : NumIO ν) (g : Grid ν) : cloneAs io g g.dtype = g := by
  unfold cloneAs
  have hw : ∀ w, astypeWord io g.dtype g.dtype w = w := by intro w; simp [astypeWord]
  have hr : ∀ r : List Nat, r.map (astypeWord io g.dtype g.dtype) = r := fun r =>
    (List.map_congr_left (fun w _ => hw w)).trans (List.map_id _)
  have hd : g.data.map (fun r => r.map (astypeWord io g.dtype g.dtype)) = g.data :=
    (List.map_congr_left (fun r _ => hr r)).trans (List.map_id _)
  rw [hd]

/-! ## 6b. histories: any sequence of edits between two exports -/

/-- admissible edits (item writes, fills, data re-assignments of the grid's shape and dtype, re-assignment of name,
comment, corner, cell size, no-data value) keep the grid inside the property's domain, for histories of any length -/
theorem edits_preserve_gridOK {ν : Type} (io : NumIO ν) (es : List (Edit ν)) : ∀ (g : Grid ν), GridOK io g →
    (∀ e ∈ es, EditOK io g e) → ∃ g', applyEdits g es = .ok g' ∧ GridOK io g' ∧ SameFrame g g' := by
  induction es with
  | nil => intro g hg _; exact ⟨g, rfl, hg, rfl, rfl, rfl, rfl, rfl, rfl⟩
  | cons e es ih =>
    intro g hg hes
    obtain ⟨g1, h1, hg1, hf1⟩ := applyEdit_ok io g hg e (hes e (by simp))
    obtain ⟨g2, h2, hg2, hf2⟩ := ih g1 hg1 (fun e' he' => editOK_frame io g g1 hf1 e' (hes e' (by simp [he'])))
    refine ⟨g2, ?_, hg2, ?_⟩
    · simp only [applyEdits, h1, h2]
    · obtain ⟨a1, a2, a3, a4, a5, a6⟩ := hf1
      obtain ⟨b1, b2, b3, b4, b5, b6⟩ := hf2
      exact ⟨b1.trans a1, b2.trans a2, b3.trans a3, b4.trans a4, b5.trans a5, b6.trans a6⟩


/-- **save → edit → save again → load**: after ANY admissible history of edits the files written by `save` load back to
the CURRENT state (shape, georeferencing, dtype, current no-data value, current cell words) -/
theorem save_load_after_edits {ν : Type} (io : NumIO ν) (hio : IOok io) (g : Grid ν) (hg : GridOK io g)
    (es : List (Edit ν)) (hes : ∀ e ∈ es, EditOK io g e) (d : Str) :
    ∃ g1 h bytes, applyEdits g es = .ok g1 ∧ save io g1 = .ok (h, bytes) ∧ ∃ g2, fromStream io d h (some bytes) = .ok g2 ∧
      g2.nrows = g1.nrows ∧ g2.ncols = g1.ncols ∧ g2.xll = g1.xll ∧ g2.yll = g1.yll ∧ g2.csz = g1.csz ∧
      g2.dtype = g1.dtype ∧ g2.nodata = g1.nodata ∧ g2.data = g1.data := by
  obtain ⟨g1, h1, hg1, _⟩ := edits_preserve_gridOK io es g hg hes
  obtain ⟨h, bytes, hs, rest⟩ := save_load io hio g1 hg1 d
  exact ⟨g1, h, bytes, h1, hs, rest⟩

/-- **load / edit → to_dict → from_dict**: after any admissible history the dictionary rebuilds the CURRENT metadata -/
theorem dict_after_edits {ν : Type} (io : NumIO ν) (g : Grid ν) (hg : GridOK io g)
    (es : List (Edit ν)) (hes : ∀ e ∈ es, EditOK io g e) :
    ∃ g1 g2, applyEdits g es = .ok g1 ∧ fromDict io (toDict io g1) = .ok g2 ∧ g2.name = g1.name ∧ g2.comment = g1.comment ∧
      g2.nrows = g1.nrows ∧ g2.ncols = g1.ncols ∧ g2.xll = g1.xll ∧ g2.yll = g1.yll ∧ g2.csz = g1.csz ∧
      g2.dtype = g1.dtype ∧ g2.nodata = g1.nodata := by
  obtain ⟨g1, h1, hg1, _⟩ := edits_preserve_gridOK io es g hg hes
  obtain ⟨g2, h2, a1, a2, a3, a4, a5, a6, a7, a8, a9, _⟩ :=
    dict_roundtrip io g1 hg1.header.supported hg1.header.nodata_lt hg1.header.nodata_printable
      hg1.header.nrows_nonneg hg1.header.ncols_nonneg
  exact ⟨g1, g2, h1, h2, a1, a2, a3, a4, a5, a6, a7, a8, a9⟩

/-- **clone of a clone, any number of grids**: two grid objects that hold different arrays never see each other's
writes, whatever the history (every clone / `clone(dtype)` allocates a new array: `cloneAs_independent`) -/
theorem handles_independent (ops : List SOp) (s : Store) (a b : Handle) (ha : a.arr < s.length) (hb : b.arr < s.length)
    (hne : a.arr ≠ b.arr) : (applyAll s b ops).1.read a = s.read a :=
  applyAll_other ops s a b ha hb hne

/-! ## 7. clip -/

section ClipThm
open HydroVerif.C07
variable {α : Type} [Field α] [LinearOrder α] [IsStrictOrderedRing α] [FloorRing α]

/-- **clip holds the parent's values at coinciding cell centres** (exact arithmetic: any ordered field with a
floor). For a positive cell size and a box whose lower-left and upper-right corners both lie in the extent, `clip`
succeeds; the clipped grid keeps dtype, no-data value and cell size; it is the block of the parent that starts at
row `top` / column `left` (the row of the upper-right corner's cell, the column of the lower-left corner's cell),
it is not empty and lies inside the parent; and for every cell `(i, j)` of the clipped grid its centre IS the
centre of the parent cell `(top+i, left+j)`, and it holds that parent cell's word. -/
theorem clip_parent_values (io : NumIO α) (g : Grid α) (hcsz : 0 < g.csz) (hnc : 0 < g.ncols)
    (hr : (g.data.length : Int) = g.nrows) (hc : ∀ r ∈ g.data, (r.length : Int) = g.ncols)
    {x0 y0 x1 y1 : α} (h0 : InExtent (geom g) x0 y0) (h1 : InExtent (geom g) x1 y1) (hx : x0 ≤ x1) (hy : y0 ≤ y1) :
    ∃ ng top left, clip io g x0 y0 x1 y1 = .ok ng ∧
      ng.dtype = g.dtype ∧ ng.nodata = g.nodata ∧ ng.csz = g.csz ∧
      top = rowOf g.ncols (coord2cell (geom g) x1 y1) ∧ left = colOf g.ncols (coord2cell (geom g) x0 y0) ∧
      0 < ng.nrows ∧ 0 < ng.ncols ∧ 0 ≤ top ∧ top + ng.nrows ≤ g.nrows ∧ 0 ≤ left ∧ left + ng.ncols ≤ g.ncols ∧
      ∀ i j : Nat, (i : Int) < ng.nrows → (j : Int) < ng.ncols →
        (∃ xy, cell2coord (geom ng) (cellOf ng.ncols i j) = some xy ∧
               cell2coord (geom g) (cellOf g.ncols (top + i) (left + j)) = some xy) ∧
        (∃ v, (ng.data[i]?.bind (·[j]?)) = some v ∧ (g.data[top.toNat + i]?.bind (·[left.toNat + j]?)) = some v) := by
  obtain ⟨ng, hclip, hnr, hncols, hcs, hdt, hnd, hxll, hyll, hdata⟩ := clip_eq io g hcsz hnc hr hc h0 h1 hx hy
  obtain ⟨v0, _⟩ := coord2cell_of_inExtent (g := geom g) hcsz h0
  obtain ⟨v1, _⟩ := coord2cell_of_inExtent (g := geom g) hcsz h1
  obtain ⟨hcol, hrow⟩ := corner_cells_ordered (gm := geom g) hcsz h0 h1 hx hy
  have hgn : (geom g).ncols = g.ncols := rfl
  have hgr : (geom g).nrows = g.nrows := rfl
  rw [hgn] at hcol hrow
  rw [hgn, hgr] at v0 v1
  obtain ⟨a0, a1, a2, a3, _⟩ := valid_rowcol hnc v0
  obtain ⟨b0, b1, b2, b3, _⟩ := valid_rowcol hnc v1
  refine ⟨ng, _, _, hclip, hdt, hnd, hcs, rfl, rfl, by omega, by omega, b0, by omega, a2, by omega, ?_⟩
  intro i j hi hj
  constructor
  · have hcc := clip_centre g ng (coord2cell (geom g) x0 y0) (rowOf g.ncols (coord2cell (geom g) x1 y1)) i j
      hxll hyll hcs hi hj b0 (by omega) a1 a2 (by omega)
    have hv : validCell ng.nrows ng.ncols (cellOf ng.ncols i j) = true :=
      validCell_cellOf (Int.natCast_nonneg i) hi (Int.natCast_nonneg j) hj
    refine ⟨getcoord (geom ng) (cellOf ng.ncols i j), ?_, ?_⟩
    · unfold cell2coord; rw [show (geom ng).nrows = ng.nrows from rfl, show (geom ng).ncols = ng.ncols from rfl, if_pos hv]
    · rw [← hcc]; unfold cell2coord
      rw [show (geom ng).nrows = ng.nrows from rfl, show (geom ng).ncols = ng.ncols from rfl, if_pos hv]
  · rw [hdata]
    exact clip_block_get g.data g.nrows g.ncols _ _ _ _ i j hr hc b0 a1 a2 b3 (by omega) (by omega)


/-- the clipped grid is again a well-formed grid with a positive cell size: `clip` can be applied to it -/
theorem clip_wellformed (io : NumIO α) (g : Grid α) (hcsz : 0 < g.csz) (hnc : 0 < g.ncols)
    (hr : (g.data.length : Int) = g.nrows) (hc : ∀ r ∈ g.data, (r.length : Int) = g.ncols)
    {x0 y0 x1 y1 : α} (h0 : InExtent (geom g) x0 y0) (h1 : InExtent (geom g) x1 y1) (hx : x0 ≤ x1) (hy : y0 ≤ y1) :
    ∃ ng, clip io g x0 y0 x1 y1 = .ok ng ∧ 0 < ng.csz ∧ 0 < ng.ncols ∧ 0 < ng.nrows ∧
      (ng.data.length : Int) = ng.nrows ∧ ∀ r ∈ ng.data, (r.length : Int) = ng.ncols := by
  obtain ⟨ng, hclip, hnr, hncols, hcs, _, _, _, _, hdata⟩ := clip_eq io g hcsz hnc hr hc h0 h1 hx hy
  obtain ⟨v0, _⟩ := coord2cell_of_inExtent (g := geom g) hcsz h0
  obtain ⟨v1, _⟩ := coord2cell_of_inExtent (g := geom g) hcsz h1
  obtain ⟨hcol, hrow⟩ := corner_cells_ordered (gm := geom g) hcsz h0 h1 hx hy
  have hgn : (geom g).ncols = g.ncols := rfl
  have hgr : (geom g).nrows = g.nrows := rfl
  rw [hgn] at hcol hrow
  rw [hgn, hgr] at v0 v1
  obtain ⟨a0, a1, a2, a3, _⟩ := valid_rowcol hnc v0
  obtain ⟨b0, b1, b2, b3, _⟩ := valid_rowcol hnc v1
  refine ⟨ng, hclip, by rw [hcs]; exact hcsz, by omega, by omega, ?_, ?_⟩
  · rw [hdata, List.length_map, slice_length _ _ _ b0 (by omega) (by omega), hnr]; omega
  · intro r hrm
    rw [hdata] at hrm
    obtain ⟨r0, hr0, rfl⟩ := List.mem_map.mp hrm
    have hr0' : r0 ∈ g.data := by
      unfold slice at hr0
      exact List.mem_of_mem_drop (List.mem_of_mem_take hr0)
    have := hc r0 hr0'
    rw [slice_length _ _ _ a2 (by omega) (by omega), hncols]; omega


/-- **clip of a clip**: clipping the clipped grid again (second box inside the first clip's extent) still yields the
block of the ORIGINAL grid at offset (sum of the row offsets, sum of the column offsets): every cell centre is the
original grid's cell centre and holds the original grid's word -/
theorem clip_of_clip (io : NumIO α) (g : Grid α) (hcsz : 0 < g.csz) (hnc : 0 < g.ncols)
    (hr : (g.data.length : Int) = g.nrows) (hc : ∀ r ∈ g.data, (r.length : Int) = g.ncols)
    {x0 y0 x1 y1 : α} (h0 : InExtent (geom g) x0 y0) (h1 : InExtent (geom g) x1 y1) (hx : x0 ≤ x1) (hy : y0 ≤ y1)
    (mid : Grid α) (hmid : clip io g x0 y0 x1 y1 = .ok mid)
    {u0 v0 u1 v1 : α} (k0 : InExtent (geom mid) u0 v0) (k1 : InExtent (geom mid) u1 v1) (hu : u0 ≤ u1) (hv : v0 ≤ v1) :
    ∃ ng top left, clip io mid u0 v0 u1 v1 = .ok ng ∧ ng.dtype = g.dtype ∧ ng.nodata = g.nodata ∧ ng.csz = g.csz ∧
      0 < ng.nrows ∧ 0 < ng.ncols ∧ 0 ≤ top ∧ top + ng.nrows ≤ g.nrows ∧ 0 ≤ left ∧ left + ng.ncols ≤ g.ncols ∧
      ∀ i j : Nat, (i : Int) < ng.nrows → (j : Int) < ng.ncols →
        (∃ xy, cell2coord (geom ng) (cellOf ng.ncols i j) = some xy ∧
               cell2coord (geom g) (cellOf g.ncols (top + i) (left + j)) = some xy) ∧
        (∃ v, (ng.data[i]?.bind (·[j]?)) = some v ∧ (g.data[top.toNat + i]?.bind (·[left.toNat + j]?)) = some v) := by
  obtain ⟨m', t1, l1, hm', md, mn, mc, _, _, mr0, mc0, t10, t11, l10, l11, hval1⟩ :=
    clip_parent_values io g hcsz hnc hr hc h0 h1 hx hy
  obtain ⟨m'', hm'', wcs, wnc, _, wr, wc⟩ := clip_wellformed io g hcsz hnc hr hc h0 h1 hx hy
  have e1 : m' = mid := by rw [hmid] at hm'; exact (Except.ok.inj hm').symm
  have e2 : m'' = mid := by rw [hmid] at hm''; exact (Except.ok.inj hm'').symm
  subst e1
  subst e2
  obtain ⟨ng, t2, l2, hng, nd, nn, ncz, _, _, nr0, nc0, t20, t21, l20, l21, hval2⟩ :=
    clip_parent_values io m'' wcs wnc wr wc k0 k1 hu hv
  refine ⟨ng, t1 + t2, l1 + l2, hng, nd.trans md, nn.trans mn, ncz.trans mc, nr0, nc0, by omega, by omega, by omega, by omega, ?_⟩
  intro i j hi hj
  obtain ⟨⟨xy, c1, c2⟩, ⟨v, d1, d2⟩⟩ := hval2 i j hi hj
  have hi' : ((t2.toNat + i : Nat) : Int) < m''.nrows := by push_cast; omega
  have hj' : ((l2.toNat + j : Nat) : Int) < m''.ncols := by push_cast; omega
  obtain ⟨⟨xy', c3, c4⟩, ⟨v', d3, d4⟩⟩ := hval1 (t2.toNat + i) (l2.toNat + j) hi' hj'
  have ci : ((t2.toNat + i : Nat) : Int) = t2 + i := by push_cast; omega
  have cj : ((l2.toNat + j : Nat) : Int) = l2 + j := by push_cast; omega
  rw [ci, cj] at c3 c4
  constructor
  · refine ⟨xy, c1, ?_⟩
    rw [c3] at c2
    have : xy' = xy := Option.some.inj c2
    rw [← this, show t1 + t2 + (i : Int) = t1 + (t2 + i) by ring, show l1 + l2 + (j : Int) = l1 + (l2 + j) by ring]
    exact c4
  · refine ⟨v, d1, ?_⟩
    rw [d3] at d2
    have : v' = v := Option.some.inj d2
    rw [← this, show (t1 + t2).toNat + i = t1.toNat + (t2.toNat + i) by omega,
      show (l1 + l2).toNat + j = l1.toNat + (l2.toNat + j) by omega]
    exact d4


end ClipThm

/-! ## 8. the hypotheses are satisfiable; sample evaluations -/

section Examples
open HydroVerif.C07

example : IOok ioToy := ioToy_ok
example : GridOK ioToy g0 := g0_ok
/-- an admissible history on `g0`: an item write above 2^53, a fill, a re-assignment of the data, of the comment (two
lines), of the corner and of the no-data value -/
example : ∀ e ∈ ([.item 4 9007199254740993, .fill 7, .data [[1, 2, 3], [4, 5, 18446744073709551615]],
    .comment "a\nb".toList, .georef 1 2 3, .nodata 5] : List (Edit Int)), EditOK ioToy g0 e := by
  intro e he
  simp only [List.mem_cons, List.not_mem_nil, or_false] at he
  rcases he with rfl | rfl | rfl | rfl | rfl | rfl
  · show (9007199254740993 : Nat) < wordBound g0.dtype; decide
  · show (7 : Nat) < wordBound g0.dtype; decide
  · exact ⟨rfl, rfl, by decide, by decide, by decide⟩
  · trivial
  · trivial
  · exact ⟨by decide, fun h => absurd h (by decide)⟩

example : GridOK ioToy g1 :=
  ⟨⟨by decide, by decide, by decide, by decide, fun a v h => by simp [lookup, g1, g0] at h,
    fun _ => ⟨by decide, by decide, 2143289344, by decide, by decide⟩⟩, by decide, by decide, by decide⟩


set_option maxRecDepth 8000 in
/-- the header `Grid.save` writes for `g0` -/
example : (save ioToy g0).toOption.map (fun p => (p.1, p.2.length)) =
    some ("NROWS          2\nNCOLS          3\nXLLCORNER      -5\nYLLCORNER      7\nCELLSIZE       2\nNBITS          64\nPIXELTYPE      SIGNEDINT\nBYTEORDER      I\nNODATA_VALUE   -1\nNAME           My Grid\nCOMMENT        two lines\n".toList, 48) := by
  decide

/-- … and what `from_stream` makes of it and of the data bytes (an instance of `save_load`): same shape, corner,
cell size, dtype, no-data word and cell words (2^62+1, -2^63 included) -/
example : ∃ h b g, save ioToy g0 = .ok (h, b) ∧ fromStream ioToy "stem".toList h (some b) = .ok g ∧
    g.nrows = 2 ∧ g.ncols = 3 ∧ g.xll = -5 ∧ g.yll = 7 ∧ g.csz = 2 ∧ g.dtype = ⟨.int, 8⟩ ∧
    g.nodata = 18446744073709551615 ∧ g.data = g0.data := by
  obtain ⟨h, b, hs, g, hl, h1, h2, h3, h4, h5, h6, h7, h8⟩ := save_load ioToy ioToy_ok g0 g0_ok "stem".toList
  exact ⟨h, b, g, hs, hl, h1, h2, h3, h4, h5, h6, h7, h8⟩

/-- byte order matters: the big-endian bytes of 1 read as little-endian are 256 -/
example : decode .little (encode .big 2 1) = 256 ∧ decode .big (encode .big 2 1) = 1 := by decide

/-- the pixel-type regex of `from_stream` -/
example : pixelSub "signedint".toList = "i".toList ∧ pixelSub "unsignedint".toList = "u".toList ∧
    pixelSub "float".toList = "f".toList ∧ pixelSub "int".toList = "i".toList ∧ pixelSub "uint".toList = "ui".toList := by
  decide

/-- malformed headers are rejected with the error the code raises -/
example : (fromStream ioToy [] "NROWS 2\nBYTEORDER X\nNCOLS 2\n".toList none).toOption.isNone = true ∧
    (match parseHeader ioToy [] "NROWS\n".toList with | .error .malformedLine => true | _ => false) = true := by
  decide

/-- the hypotheses of `clip_parent_values` are met by a 2×3 grid and the box [(1/2,1/2), (5/2,3/2)] -/
example : 0 < gq.csz ∧ 0 < gq.ncols ∧ (gq.data.length : Int) = gq.nrows ∧ (∀ r ∈ gq.data, (r.length : Int) = gq.ncols) ∧
    InExtent (geom gq) (1/2) (1/2) ∧ InExtent (geom gq) (5/2) (3/2) ∧ ((1 : ℚ)/2 ≤ 5/2) ∧ ((1 : ℚ)/2 ≤ 3/2) := by
  refine ⟨by norm_num [gq], by decide, by decide, by decide, ?_, ?_, by norm_num, by norm_num⟩ <;>
    norm_num [InExtent, geom, gq]

end Examples

end HydroVerif.C13
