/-
C13 — property theorems. Model: `HydroVerif/Model/C13.lean`.
-/
import HydroVerif.Model.C13

namespace HydroVerif.C13

/-- the dtype string written by `to_dict` is read back by `from_dict` as the same type, for the 11 supported types -/
theorem dtypeOfStr_dtypeStr : ∀ t ∈ allDTypes, dtypeOfStr (dtypeStr t) = some (.little, t) := by
  decide

end HydroVerif.C13
