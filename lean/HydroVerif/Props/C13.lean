/-
C13 — property theorems. Model: `HydroVerif/Model/C13.lean`.
-/
import HydroVerif.Lemmas.C13Header

namespace HydroVerif.C13

/-! ## 1. type tables -/

/-- the dtype string written by `to_dict` is read back by `from_dict` as the same type, for the 11 supported types -/
theorem dtypeOfStr_dtypeStr : ∀ t ∈ allDTypes, dtypeOfStr (dtypeStr t) = some (.little, t) := by
  decide

/-- `allDTypes` is exactly the set of supported types -/
theorem supported_iff_mem (t : DType) : t.supported = true ↔ t ∈ allDTypes := by
  obtain ⟨k, b⟩ := t
  cases k <;> simp [DType.supported, allDTypes] <;> omega

/-! ## 2. bytes -/

/-- a word written in a byte order and read in the same byte order is unchanged -/
theorem decode_encode (bo : ByteOrder) (n w : Nat) (h : w < 256 ^ n) : decode bo (encode bo n w) = w := by
  cases bo <;> simp [decode, encode, decodeLE_encodeLE n w h]

/-- reading big-endian bytes as little-endian returns the word only when its byte string is a palindrome:
the byte order of the header must be honoured -/
theorem decode_little_encode_big_iff (n w : Nat) (h : w < 256 ^ n) :
    decode .little (encode .big n w) = w ↔ (encodeLE n w).reverse = encodeLE n w := by
  simp only [decode, encode]
  constructor
  · intro hd
    apply decodeLE_injective (by simp)
    rw [hd, decodeLE_encodeLE n w h]
  · intro hp
    rw [hp, decodeLE_encodeLE n w h]

/-- `np.fromfile` with byte order `bo` recovers the words of a file that stores them in byte order `bo` -/
theorem fromfile_encode (bo : ByteOrder) (t : DType) (ht : 0 < t.bytes) (ws : List Nat)
    (hw : ∀ w ∈ ws, w < wordBound t) :
    fromfile bo t (ws.flatMap (encode bo t.bytes)) = ws := by
  unfold fromfile
  rw [List.flatMap_def, chunks_flatten t.bytes ht]
  · rw [List.map_map]
    calc ws.map (decode bo ∘ encode bo t.bytes) = ws.map id := by
          apply List.map_congr_left
          intro w hwm
          exact decode_encode bo t.bytes w (hw w hwm)
      _ = ws := List.map_id _
  · intro b hb
    obtain ⟨w, _, rfl⟩ := List.mem_map.mp hb
    cases bo <;> simp [encode, encodeLE_length]

/-! ## 3. the data path is the identity -/

/-- `_clipdata` followed by `astype` leaves every value inside `[mindata, maxdata]` bit-identical; an
infinite bound (`none`) constrains nothing -/
theorem clipWord_id (t : DType) (lo hi : Option Int) (w : Nat) (hw : w < wordBound t)
    (hlo : ∀ l, lo = some l → l ≤ toInt t w) (hhi : ∀ h, hi = some h → toInt t w ≤ h) :
    clipWord t lo hi w = w := by
  unfold clipWord
  cases hk : t.kind <;> simp only
  all_goals
    cases lo with
    | none =>
      cases hi with
      | none => simp
      | some h =>
        have := hhi h rfl
        simp only [Option.isNone_none, Option.isNone_some, Bool.and_false, Bool.false_eq_true, if_false]
        rw [if_neg (by omega)]
        exact ofInt_toInt t w hw
    | some l =>
      have h1 := hlo l rfl
      simp only [Option.isNone_some, Bool.false_and, Bool.false_eq_true, if_false]
      rw [if_neg (by omega)]
      cases hi with
      | none => exact ofInt_toInt t w hw
      | some h =>
        have := hhi h rfl
        simp only
        rw [if_neg (by omega)]
        exact ofInt_toInt t w hw

/-- with the default bounds the whole array goes through unchanged, whatever the values (NaN, inf, 2^63-1 …) -/
theorem clipData_default (t : DType) (rows : List (List Nat)) : clipData t none none rows = rows := by
  unfold clipData
  have hw : ∀ w, clipWord t none none w = w := by
    intro w; unfold clipWord; cases t.kind <;> simp
  have hr : ∀ r : List Nat, r.map (clipWord t none none) = r := by
    intro r
    calc r.map (clipWord t none none) = r.map id := List.map_congr_left (fun w _ => hw w)
      _ = r := List.map_id _
  calc rows.map (fun r => r.map (clipWord t none none)) = rows.map id := List.map_congr_left (fun r _ => hr r)
    _ = rows := List.map_id _

/-- the data setter keeps an array of the right shape bit-identical (default bounds) -/
theorem setData_id {ν : Type} (g : Grid ν) (rows : List (List Nat)) (hb : g.lo = none ∧ g.hi = none)
    (hr : (rows.length : Int) = g.nrows) (hc : ∀ r ∈ rows, (r.length : Int) = g.ncols) :
    setData g rows = .ok { g with data := rows } := by
  unfold setData
  rw [if_neg (by simpa [hr] using hc)]
  rw [hb.1, hb.2, clipData_default]

/-- **load**: a file that stores `rows` row by row in byte order `bo` is loaded, with that byte order, to exactly
`rows` — for every dtype with a positive item size, every shape and every word (full range, NaN, inf) -/
theorem load_file {ν : Type} (g : Grid ν) (bo : ByteOrder) (rows : List (List Nat))
    (ht : 0 < g.dtype.bytes) (hb : g.lo = none ∧ g.hi = none)
    (h0 : 0 ≤ g.ncols)
    (hr : (rows.length : Int) = g.nrows) (hc : ∀ r ∈ rows, (r.length : Int) = g.ncols)
    (hw : ∀ r ∈ rows, ∀ w ∈ r, w < wordBound g.dtype) :
    load g bo (rows.flatten.flatMap (encode bo g.dtype.bytes)) = .ok { g with data := rows } := by
  unfold load
  have hc' : ∀ r ∈ rows, r.length = g.ncols.toNat := by
    intro r hrm
    have := hc r hrm
    omega
  rw [fromfile_encode bo g.dtype ht rows.flatten (by
    intro w hwm
    obtain ⟨r, hrm, hwr⟩ := List.mem_flatten.mp hwm
    exact hw r hrm w hwr)]
  have hlen : (rows.flatten.length : Int) = g.nrows * g.ncols := by
    rw [length_flatten_uniform g.ncols.toNat rows hc', ← hr]
    push_cast
    rw [Int.toNat_of_nonneg h0]
  simp only [hlen, ne_eq, not_true_eq_false, if_false]
  have hn : g.nrows.toNat = rows.length := by omega
  rw [hn, reshape_flatten g.ncols.toNat rows hc', hb.1, hb.2, clipData_default]

/-- **save then load**: the bytes written by `tofile` are loaded back (byte order `I`) to the same words -/
theorem load_saveData {ν : Type} (g : Grid ν) (ht : 0 < g.dtype.bytes) (hb : g.lo = none ∧ g.hi = none)
    (h0 : 0 ≤ g.ncols) (hr : (g.data.length : Int) = g.nrows) (hc : ∀ r ∈ g.data, (r.length : Int) = g.ncols)
    (hw : ∀ r ∈ g.data, ∀ w ∈ r, w < wordBound g.dtype) :
    load g .little (saveData g.dtype g.data) = .ok g := by
  have := load_file g .little g.data ht hb h0 hr hc hw
  have he : encode ByteOrder.little g.dtype.bytes = encodeLE g.dtype.bytes := by
    funext w; rfl
  rw [he] at this
  exact this

/-! ## 4. the header is parsed back to what was written -/

/-- **header round trip** (`parse (write g) = meta g`): for every supported dtype, either byte-order letter, every
shape, any georeferencing numbers, any no-data value and any single-line name / comment / parent attributes,
the text written by `Grid.save` is split into the same lines, every line is accepted, and `from_stream` builds
a grid with the same shape, corner, cell size, dtype, byte order and no-data word (fresh zero data, default
bounds). External facts used: `float(str(x)) = x` and "`str(x)` has no white space" (`IOok`), and for float
no-data values `NodataPrintable`. -/
theorem header_roundtrip {ν : Type} (io : NumIO ν) (hio : IOok io) (bo : ByteOrder) (g : Grid ν) (hg : HeaderOK io g)
    (d : Str) :
    ∃ h, writeHeaderBO io bo g = .ok h ∧ ∃ c hi,
      parseLines io (Config.init io d) (readlines h) = .ok c ∧ finishConfig io c = .ok hi ∧
      hi.byteorder = bo ∧ hi.grid.nrows = g.nrows ∧ hi.grid.ncols = g.ncols ∧
      hi.grid.xll = g.xll ∧ hi.grid.yll = g.yll ∧ hi.grid.csz = g.csz ∧ hi.grid.dtype = g.dtype ∧
      hi.grid.nodata = g.nodata ∧ hi.grid.lo = none ∧ hi.grid.hi = none ∧
      hi.grid.data = zeros g.nrows.toNat g.ncols.toNat := by
  obtain ⟨hpix, hpixline, hdtL, hdtB⟩ := pixel_table g.dtype hg.supported
  unfold writeHeaderBO
  rw [hpix]
  refine ⟨_, rfl, ?_⟩
  simp only [List.append_assoc]
  have nlF : ∀ x, NoNL (io.showF x) := fun x => (hio.showF_token x).noNL
  have nlI : ∀ i, NoNL (intStr i) := fun i => (intStr_noSpace i).noNL
  have nlN : ∀ n, NoNL (natStr n) := fun n => (natStr_noSpace n).noNL
  have hcomment : NoNL (if g.comment = [] then "No comment".toList else g.comment) := by
    split
    · decide
    · exact hg.comment_line
  -- line by line
  have e1 := parseLine_int io (Config.init io d) 14 "NROWS".toList g.nrows (by decide) (by decide) (by decide)
  rw [readlines_fmtLine 14 _ _ _ (by decide) (nlI _), parseLines_step io _ _ _ _ e1]
  have e2 := parseLine_int io ((Config.init io d).setInt (lower "NROWS".toList) g.nrows) 14 "NCOLS".toList g.ncols
    (by decide) (by decide) (by decide)
  rw [readlines_fmtLine 14 _ _ _ (by decide) (nlI _), parseLines_step io _ _ _ _ e2]
  generalize hc2 : ((Config.init io d).setInt (lower "NROWS".toList) g.nrows).setInt (lower "NCOLS".toList) g.ncols = c2
  have e3 := parseLine_num io hio c2 14 "XLLCORNER".toList g.xll (by decide) (by decide) (by decide) (by decide)
  rw [readlines_fmtLine 14 _ _ _ (by decide) (nlF _), parseLines_step io _ _ _ _ e3]
  have e4 := parseLine_num io hio (c2.setNum (lower "XLLCORNER".toList) g.xll) 14 "YLLCORNER".toList g.yll
    (by decide) (by decide) (by decide) (by decide)
  rw [readlines_fmtLine 14 _ _ _ (by decide) (nlF _), parseLines_step io _ _ _ _ e4]
  generalize hc4 : (c2.setNum (lower "XLLCORNER".toList) g.xll).setNum (lower "YLLCORNER".toList) g.yll = c4
  have e5 := parseLine_num io hio c4 14 "CELLSIZE".toList g.csz (by decide) (by decide) (by decide) (by decide)
  rw [readlines_fmtLine 14 _ _ _ (by decide) (nlF _), parseLines_step io _ _ _ _ e5]
  have e6 := parseLine_int io (c4.setNum (lower "CELLSIZE".toList) g.csz) 14 "NBITS".toList ((g.dtype.bytes * 8 : Nat) : Int)
    (by decide) (by decide) (by decide)
  rw [intStr_natCast] at e6
  rw [readlines_fmtLine 14 _ _ _ (by decide) (nlN _), parseLines_step io _ _ _ _ e6]
  generalize hc6 : ((c4.setNum (lower "CELLSIZE".toList) g.csz).setInt (lower "NBITS".toList) ((g.dtype.bytes * 8 : Nat) : Int)) = c6
  have e7 := parseLine_text io c6 14 "PIXELTYPE".toList (upper (pixOf g.dtype.kind)) (by decide) (by decide)
  rw [hpixline] at e7
  have hpixnl : NoNL (upper (pixOf g.dtype.kind)) := by cases g.dtype.kind <;> decide
  rw [readlines_fmtLine 14 _ _ _ (by decide) hpixnl, parseLines_step io _ _ _ _ e7]
  have e8 := parseLine_text io (c6.setText (lower "PIXELTYPE".toList) (pixOf g.dtype.kind)) 14 "BYTEORDER".toList
    (boLetter bo) (by decide) (by decide)
  rw [byteorder_line] at e8
  rw [readlines_fmtLine 14 _ _ _ (by decide) (by cases bo <;> decide), parseLines_step io _ _ _ _ e8]
  generalize hc8 : ((c6.setText (lower "PIXELTYPE".toList) (pixOf g.dtype.kind)).setText (lower "BYTEORDER".toList)
    (boKey bo)) = c8
  obtain ⟨nv, e9, hnv, hnvnl⟩ := nodata_line io c8 g.dtype g.nodata hg.nodata_lt hg.nodata_printable
  rw [readlines_fmtLine 14 _ _ _ (by decide) hnvnl, parseLines_step io _ _ _ _ e9]
  have e10 := parseLine_text io (c8.setNodata "nodata_value".toList nv) 14 "NAME".toList g.name (by decide) (by decide)
  rw [readlines_fmtLine 14 _ _ _ (by decide) hg.name_line, parseLines_step io _ _ _ _ e10]
  generalize hc10 : ((c8.setNodata "nodata_value".toList nv).setText (lower "NAME".toList)
    (lower (strip (joinSp (splitRunsAux true (g.name ++ ['\n'])))))) = c10
  have e11 := parseLine_text io c10 14 "COMMENT".toList (if g.comment = [] then "No comment".toList else g.comment)
    (by decide) (by decide)
  rw [readlines_fmtLine 14 _ _ _ (by decide) hcomment, parseLines_step io _ _ _ _ e11]
  generalize hc11 : (c10.setText (lower "COMMENT".toList) (lower (strip (joinSp (splitRunsAux true
    ((if g.comment = [] then "No comment".toList else g.comment) ++ ['\n'])))))) = c11
  obtain ⟨p, hp⟩ := parseLines_parentBlock io g.parent hg.parent_lines parentAttrs parentAttrs_ok c11
  suffices h : ∃ hi, finishConfig io { c11 with parent := p } = .ok hi ∧
      hi.byteorder = bo ∧ hi.grid.nrows = g.nrows ∧ hi.grid.ncols = g.ncols ∧
      hi.grid.xll = g.xll ∧ hi.grid.yll = g.yll ∧ hi.grid.csz = g.csz ∧ hi.grid.dtype = g.dtype ∧
      hi.grid.nodata = g.nodata ∧ hi.grid.lo = none ∧ hi.grid.hi = none ∧
      hi.grid.data = zeros g.nrows.toNat g.ncols.toNat by
    obtain ⟨hi, h1, h2⟩ := h
    exact ⟨_, hi, hp, h1, h2⟩
  subst hc11 hc10 hc8 hc6 hc4 hc2
  clear e1 e2 e3 e4 e5 e6 e7 e8 e9 e10 e11 hp
  have k1 : lower "NROWS".toList = "nrows".toList := by decide
  have k2 : lower "NCOLS".toList = "ncols".toList := by decide
  have k3 : lower "XLLCORNER".toList = "xllcorner".toList := by decide
  have k4 : lower "YLLCORNER".toList = "yllcorner".toList := by decide
  have k5 : lower "CELLSIZE".toList = "cellsize".toList := by decide
  have k6 : lower "NBITS".toList = "nbits".toList := by decide
  have k7 : lower "PIXELTYPE".toList = "pixeltype".toList := by decide
  have k8 : lower "BYTEORDER".toList = "byteorder".toList := by decide
  have k10 : lower "NAME".toList = "name".toList := by decide
  have k11 : lower "COMMENT".toList = "comment".toList := by decide
  rw [k1, k2, k3, k4, k5, k6, k7, k8, k10, k11]
  rw [setInt_nrows, setInt_ncols, setNum_xll, setNum_yll, setNum_csz, setInt_nbits, setText_pixeltype,
    setText_byteorder, setNodata_value, setText_name, setText_comment]
  have hshape : ¬ (g.nrows < 0 ∨ g.ncols < 0) := by
    have := hg.nrows_nonneg; have := hg.ncols_nonneg; omega
  cases bo with
  | little =>
    have hb1 : ¬ ("i".toList ≠ "m".toList ∧ "i".toList ≠ "i".toList) := by decide
    have hb2 : ¬ ("i".toList = "m".toList) := by decide
    simp only [boKey]
    unfold finishConfig
    dsimp only
    rw [if_neg hb1]
    simp only [if_neg hb2, hdtL, Config.init, mkGrid, hnv, if_neg hshape]
    exact ⟨_, rfl, rfl, rfl, rfl, rfl, rfl, rfl, rfl, rfl, rfl, rfl, rfl⟩
  | big =>
    have hb1 : ¬ ("m".toList ≠ "m".toList ∧ "m".toList ≠ "i".toList) := by decide
    simp only [boKey]
    unfold finishConfig
    dsimp only
    rw [if_neg hb1]
    simp only [↓reduceIte, hdtB, Config.init, mkGrid, hnv, if_neg hshape]
    exact ⟨_, rfl, rfl, rfl, rfl, rfl, rfl, rfl, rfl, rfl, rfl, rfl, rfl⟩

/-- a grid as the property quantifies over it: admissible header fields, default `mindata/maxdata`, an
`nrows × ncols` array of words of the grid's dtype -/
structure GridOK {ν : Type} (io : NumIO ν) (g : Grid ν) : Prop where
  header : HeaderOK io g
  default_bounds : g.lo = none ∧ g.hi = none
  rows : (g.data.length : Int) = g.nrows
  cols : ∀ r ∈ g.data, (r.length : Int) = g.ncols
  words : ∀ r ∈ g.data, ∀ w ∈ r, w < wordBound g.dtype

theorem bytes_pos_of_mem {t : DType} (h : t ∈ allDTypes) : 0 < t.bytes := by
  revert t; decide

/-- **raster of either byte order**: the header written for `g` with byte-order letter `bo`, together with a data
file holding `g`'s words row by row in byte order `bo`, is loaded by `from_stream` to a grid with identical shape,
georeferencing, dtype, no-data value and bit-identical cell values -/
theorem fromStream_file {ν : Type} (io : NumIO ν) (hio : IOok io) (bo : ByteOrder) (g : Grid ν) (hg : GridOK io g)
    (d : Str) :
    ∃ h, writeHeaderBO io bo g = .ok h ∧ ∃ g',
      fromStream io d h (some (g.data.flatten.flatMap (encode bo g.dtype.bytes))) = .ok g' ∧
      g'.nrows = g.nrows ∧ g'.ncols = g.ncols ∧ g'.xll = g.xll ∧ g'.yll = g.yll ∧ g'.csz = g.csz ∧
      g'.dtype = g.dtype ∧ g'.nodata = g.nodata ∧ g'.data = g.data := by
  obtain ⟨h, hw, c, hi, hparse, hfin, hbo, hnr, hnc, hx, hy, hcs, hdt, hnd, hlo, hhi, _⟩ :=
    header_roundtrip io hio bo g hg.header d
  refine ⟨h, hw, ?_⟩
  have hload := load_file hi.grid bo g.data (by rw [hdt]; exact bytes_pos_of_mem hg.header.supported) ⟨hlo, hhi⟩
    (by rw [hnc]; exact hg.header.ncols_nonneg) (by rw [hnr]; exact hg.rows) (by rw [hnc]; exact hg.cols)
    (by rw [hdt]; exact hg.words)
  rw [hdt] at hload
  unfold fromStream
  simp only [hparse, hfin, hbo, hload]
  exact ⟨_, rfl, hnr, hnc, hx, hy, hcs, rfl, hnd, rfl⟩

/-- **save then load**: what `Grid.save` writes (header text, `tofile` bytes) is loaded back by
`from_header / from_stream / from_zip` to identical shape, georeferencing, dtype, no-data value and
bit-identical cell values -/
theorem save_load {ν : Type} (io : NumIO ν) (hio : IOok io) (g : Grid ν) (hg : GridOK io g) (d : Str) :
    ∃ h bytes, save io g = .ok (h, bytes) ∧ ∃ g', fromStream io d h (some bytes) = .ok g' ∧
      g'.nrows = g.nrows ∧ g'.ncols = g.ncols ∧ g'.xll = g.xll ∧ g'.yll = g.yll ∧ g'.csz = g.csz ∧
      g'.dtype = g.dtype ∧ g'.nodata = g.nodata ∧ g'.data = g.data := by
  obtain ⟨h, hw, g', hl, rest⟩ := fromStream_file io hio .little g hg d
  refine ⟨h, saveData g.dtype g.data, ?_, g', ?_, rest⟩
  · unfold save writeHeader; rw [hw]
  · have he : encode ByteOrder.little g.dtype.bytes = encodeLE g.dtype.bytes := by funext w; rfl
    rw [he] at hl
    exact hl

end HydroVerif.C13
