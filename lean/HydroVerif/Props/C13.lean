/-
C13 — property theorems. Model: `HydroVerif/Model/C13.lean`.
-/
import HydroVerif.Lemmas.C13

namespace HydroVerif.C13

/-! ## 1. type tables -/

/-- the dtype string written by `to_dict` is read back by `from_dict` as the same type, for the 11 supported types -/
theorem dtypeOfStr_dtypeStr : ∀ t ∈ allDTypes, dtypeOfStr (dtypeStr t) = some (.little, t) := by
  decide

/-- `allDTypes` is exactly the set of supported types -/
theorem supported_iff_mem (t : DType) : t.supported = true ↔ t ∈ allDTypes := by
  obtain ⟨k, b⟩ := t
  cases k <;> simp [DType.supported, allDTypes] <;> omega

/-! ## 2. bytes -/

/-- a word written in a byte order and read in the same byte order is unchanged -/
theorem decode_encode (bo : ByteOrder) (n w : Nat) (h : w < 256 ^ n) : decode bo (encode bo n w) = w := by
  cases bo <;> simp [decode, encode, decodeLE_encodeLE n w h]

/-- reading big-endian bytes as little-endian returns the word only when its byte string is a palindrome:
the byte order of the header must be honoured -/
theorem decode_little_encode_big_iff (n w : Nat) (h : w < 256 ^ n) :
    decode .little (encode .big n w) = w ↔ (encodeLE n w).reverse = encodeLE n w := by
  simp only [decode, encode]
  constructor
  · intro hd
    apply decodeLE_injective (by simp)
    rw [hd, decodeLE_encodeLE n w h]
  · intro hp
    rw [hp, decodeLE_encodeLE n w h]

/-- `np.fromfile` with byte order `bo` recovers the words of a file that stores them in byte order `bo` -/
theorem fromfile_encode (bo : ByteOrder) (t : DType) (ht : 0 < t.bytes) (ws : List Nat)
    (hw : ∀ w ∈ ws, w < wordBound t) :
    fromfile bo t (ws.flatMap (encode bo t.bytes)) = ws := by
  unfold fromfile
  rw [List.flatMap_def, chunks_flatten t.bytes ht]
  · rw [List.map_map]
    calc ws.map (decode bo ∘ encode bo t.bytes) = ws.map id := by
          apply List.map_congr_left
          intro w hwm
          exact decode_encode bo t.bytes w (hw w hwm)
      _ = ws := List.map_id _
  · intro b hb
    obtain ⟨w, _, rfl⟩ := List.mem_map.mp hb
    cases bo <;> simp [encode, encodeLE_length]

/-! ## 3. the data path is the identity -/

/-- `_clipdata` followed by `astype` leaves every value inside `[mindata, maxdata]` bit-identical; an
infinite bound (`none`) constrains nothing -/
theorem clipWord_id (t : DType) (lo hi : Option Int) (w : Nat) (hw : w < wordBound t)
    (hlo : ∀ l, lo = some l → l ≤ toInt t w) (hhi : ∀ h, hi = some h → toInt t w ≤ h) :
    clipWord t lo hi w = w := by
  unfold clipWord
  cases hk : t.kind <;> simp only
  all_goals
    cases lo with
    | none =>
      cases hi with
      | none => simp
      | some h =>
        have := hhi h rfl
        simp only [Option.isNone_none, Option.isNone_some, Bool.and_false, Bool.false_eq_true, if_false]
        rw [if_neg (by omega)]
        exact ofInt_toInt t w hw
    | some l =>
      have h1 := hlo l rfl
      simp only [Option.isNone_some, Bool.false_and, Bool.false_eq_true, if_false]
      rw [if_neg (by omega)]
      cases hi with
      | none => exact ofInt_toInt t w hw
      | some h =>
        have := hhi h rfl
        simp only
        rw [if_neg (by omega)]
        exact ofInt_toInt t w hw

/-- with the default bounds the whole array goes through unchanged, whatever the values (NaN, inf, 2^63-1 …) -/
theorem clipData_default (t : DType) (rows : List (List Nat)) : clipData t none none rows = rows := by
  unfold clipData
  have hw : ∀ w, clipWord t none none w = w := by
    intro w; unfold clipWord; cases t.kind <;> simp
  have hr : ∀ r : List Nat, r.map (clipWord t none none) = r := by
    intro r
    calc r.map (clipWord t none none) = r.map id := List.map_congr_left (fun w _ => hw w)
      _ = r := List.map_id _
  calc rows.map (fun r => r.map (clipWord t none none)) = rows.map id := List.map_congr_left (fun r _ => hr r)
    _ = rows := List.map_id _

/-- the data setter keeps an array of the right shape bit-identical (default bounds) -/
theorem setData_id {ν : Type} (g : Grid ν) (rows : List (List Nat)) (hb : g.lo = none ∧ g.hi = none)
    (hr : (rows.length : Int) = g.nrows) (hc : ∀ r ∈ rows, (r.length : Int) = g.ncols) :
    setData g rows = .ok { g with data := rows } := by
  unfold setData
  rw [if_neg (by simpa [hr] using hc)]
  rw [hb.1, hb.2, clipData_default]

/-- **load**: a file that stores `rows` row by row in byte order `bo` is loaded, with that byte order, to exactly
`rows` — for every dtype with a positive item size, every shape and every word (full range, NaN, inf) -/
theorem load_file {ν : Type} (g : Grid ν) (bo : ByteOrder) (rows : List (List Nat))
    (ht : 0 < g.dtype.bytes) (hb : g.lo = none ∧ g.hi = none)
    (h0 : 0 ≤ g.ncols)
    (hr : (rows.length : Int) = g.nrows) (hc : ∀ r ∈ rows, (r.length : Int) = g.ncols)
    (hw : ∀ r ∈ rows, ∀ w ∈ r, w < wordBound g.dtype) :
    load g bo (rows.flatten.flatMap (encode bo g.dtype.bytes)) = .ok { g with data := rows } := by
  unfold load
  have hc' : ∀ r ∈ rows, r.length = g.ncols.toNat := by
    intro r hrm
    have := hc r hrm
    omega
  rw [fromfile_encode bo g.dtype ht rows.flatten (by
    intro w hwm
    obtain ⟨r, hrm, hwr⟩ := List.mem_flatten.mp hwm
    exact hw r hrm w hwr)]
  have hlen : (rows.flatten.length : Int) = g.nrows * g.ncols := by
    rw [length_flatten_uniform g.ncols.toNat rows hc', ← hr]
    push_cast
    rw [Int.toNat_of_nonneg h0]
  simp only [hlen, ne_eq, not_true_eq_false, if_false]
  have hn : g.nrows.toNat = rows.length := by omega
  rw [hn, reshape_flatten g.ncols.toNat rows hc', hb.1, hb.2, clipData_default]

/-- **save then load**: the bytes written by `tofile` are loaded back (byte order `I`) to the same words -/
theorem load_saveData {ν : Type} (g : Grid ν) (ht : 0 < g.dtype.bytes) (hb : g.lo = none ∧ g.hi = none)
    (h0 : 0 ≤ g.ncols) (hr : (g.data.length : Int) = g.nrows) (hc : ∀ r ∈ g.data, (r.length : Int) = g.ncols)
    (hw : ∀ r ∈ g.data, ∀ w ∈ r, w < wordBound g.dtype) :
    load g .little (saveData g.dtype g.data) = .ok g := by
  have := load_file g .little g.data ht hb h0 hr hc hw
  have he : encode ByteOrder.little g.dtype.bytes = encodeLE g.dtype.bytes := by
    funext w; rfl
  rw [he] at this
  exact this

end HydroVerif.C13
