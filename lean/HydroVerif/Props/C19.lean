/-
C19 — property theorems (only). Model: `HydroVerif/Model/C19.lean`.

Clause of the property                                   | theorems                                              | outside the theorems
---------------------------------------------------------|-------------------------------------------------------|---------------------
batches contiguous and ordered                           | batch_eq_range', bstart_succ, bstart_zero, bstart_last | numpy.array_split itself (compared by result)
pairwise disjoint, cover every element exactly once      | batches_partition, batches_disjoint, mem_batch_lt      | -
sizes differ by at most one; none empty for k <= n        | bsize_diff_le_one, bsize_pos                           | -
accepted / rejected calls (three guards, in code order)  | getBatch_ok, getBatch_rejects                          | exception types (by name in the correspondence)
SiteBatch.search returns the batch containing the site   | search_correct, search_none                            | site ids are unique (a site = its position)
every combination of option values exactly once          | product_length, mem_product, product_nodup, fromCartesian_task_keys, fromCartesian_task_values, fromCartesian_tasks_nodup, fromCartesian_ntasks | itertools.product (compared by result)
scalars given bare                                       | fromCartesianArgs_bare, fromCartesianArgs_ntasks       | isinstance tests of the wrapper (correspondence: `!v` rows)
equal in both directions after dictionary/JSON round trip| taskFromDict_taskToDict, fromDict_toDict, mEq_refl, roundtrip_eq_both, roundtrip_cartesian, roundtrip_fails_on_collision | json.dumps/loads (oracle on the real code); context values are opaque strings in the model
find returns exactly the tasks whose option equals value | mem_find, find_cartesian, find_sorted, find_unknown_key | `re.search` on string forms (anchored literal = equality for the value alphabet of the quantifier)
-/
import HydroVerif.Model.C19
import Mathlib.Data.List.Range
import Mathlib.Data.List.Nodup
import Mathlib.Data.List.Basic
import Mathlib.Tactic.Ring
import Mathlib.Tactic.Linarith

namespace HydroVerif.C19

/-- batches are contiguous and ordered: batch `i` is the interval `[bstart, bstart + bsize)` -/
theorem batch_eq_range' (n k i : Nat) : batch n k i = List.range' (bstart n k i) (bsize n k i) := by
  unfold batch
  rw [List.range_eq_range', List.map_add_range']
  simp

/-- consecutive: batch `i+1` starts where batch `i` ends -/
theorem bstart_succ (n k i : Nat) : bstart n k (i+1) = bstart n k i + bsize n k i := by
  unfold bstart bsize
  split <;> rename_i h
  · rw [Nat.min_eq_left (by omega), Nat.min_eq_left (by omega)]; ring
  · rw [Nat.min_eq_right (by omega), Nat.min_eq_right (by omega)]; ring

theorem bstart_zero (n k : Nat) : bstart n k 0 = 0 := by simp [bstart]

theorem bstart_last (n k : Nat) (hk : 0 < k) : bstart n k k = n := by
  unfold bstart
  have h1 : n % k < k := Nat.mod_lt _ hk
  rw [Nat.min_eq_right (by omega)]
  exact Nat.div_add_mod n k

theorem flatMap_batch_prefix (n k j : Nat) :
    (List.range j).flatMap (batch n k) = List.range (bstart n k j) := by
  induction j with
  | zero => simp [bstart_zero]
  | succ j ih =>
    rw [List.range_succ, List.flatMap_append, ih, bstart_succ, List.range_add]
    simp [batch]

/-- the batches, taken in order, list every element `0..n-1` exactly once and in order:
cover + pairwise disjoint + ordered, for every `n` and every `k ≥ 1` -/
theorem batches_partition (n k : Nat) (hk : 0 < k) :
    (List.range k).flatMap (batch n k) = List.range n := by
  rw [flatMap_batch_prefix, bstart_last n k hk]

/-- pairwise disjoint, stated directly -/
theorem batches_disjoint (n k i j : Nat) (hij : i < j) (x : Nat)
    (hi : x ∈ batch n k i) (hj : x ∈ batch n k j) : False := by
  rw [batch_eq_range'] at hi hj
  simp only [List.mem_range'_1] at hi hj
  have hmono : ∀ d, bstart n k (i + 1) ≤ bstart n k (i + 1 + d) := by
    intro d; induction d with
    | zero => simp
    | succ d ih =>
      have h := bstart_succ n k (i + 1 + d)
      show bstart n k (i + 1) ≤ bstart n k (i + 1 + d + 1)
      omega
  have := hmono (j - (i+1))
  rw [show i + 1 + (j - (i+1)) = j by omega, bstart_succ] at this
  omega

/-- sizes differ by at most one -/
theorem bsize_diff_le_one (n k i j : Nat) : bsize n k i ≤ bsize n k j + 1 := by
  unfold bsize; split <;> split <;> omega

/-- with `nbatch ≤ nelements` no batch is empty -/
theorem bsize_pos (n k i : Nat) (hk : 0 < k) (hkn : k ≤ n) : 0 < bsize n k i := by
  unfold bsize
  have : 0 < n / k := Nat.div_pos hkn hk
  omega

theorem mem_batch_lt (n k i x : Nat) (hk : 0 < k) (hi : i < k) (hx : x ∈ batch n k i) : x < n := by
  have h : x ∈ (List.range k).flatMap (batch n k) :=
    List.mem_flatMap.mpr ⟨i, List.mem_range.mpr hi, hx⟩
  rw [batches_partition n k hk] at h
  exact List.mem_range.mp h

/-- `search` returns the (unique) batch that contains the site -/
theorem search_correct (n k s : Nat) (hk : 0 < k) (hs : s < n) :
    ∃ i, search n k s = some i ∧ i < k ∧ s ∈ batch n k i ∧
      ∀ j, j < k → s ∈ batch n k j → j = i := by
  have hmem : s ∈ (List.range k).flatMap (batch n k) := by
    rw [batches_partition n k hk]; exact List.mem_range.mpr hs
  obtain ⟨i0, hi0, hsi0⟩ := List.mem_flatMap.mp hmem
  unfold search
  cases hf : (List.range k).find? (fun i => (batch n k i).contains s) with
  | none =>
    rw [List.find?_eq_none] at hf
    exact absurd (by simpa using hsi0) (hf i0 hi0)
  | some i =>
    have hi := List.mem_of_find?_eq_some hf
    have hp := List.find?_some hf
    have hsi : s ∈ batch n k i := by simpa using hp
    refine ⟨i, rfl, List.mem_range.mp hi, hsi, ?_⟩
    intro j _ hsj
    by_contra hne
    rcases Nat.lt_or_gt_of_ne hne with h | h
    · exact batches_disjoint n k j i h s hsj hsi
    · exact batches_disjoint n k i j h s hsi hsj

/-- a site that is not in the list is in no batch -/
theorem search_none (n k s : Nat) (hk : 0 < k) (hs : n ≤ s) : search n k s = none := by
  unfold search
  rw [List.find?_eq_none]
  intro i hi hc
  have := mem_batch_lt n k i s hk (List.mem_range.mp hi) (by simpa using hc)
  omega

/-- accepted calls return the batch, rejected calls are rejected (all three guards) -/
theorem getBatch_ok (n k i : Int) (h1 : 1 ≤ n) (h2 : k ≤ n) (h3 : 0 ≤ i) (h4 : i < k) :
    getBatch n k i = .ok (batch n.toNat k.toNat i.toNat) := by
  unfold getBatch
  rw [if_neg (by omega), if_neg (by omega), if_neg (by omega)]

theorem getBatch_rejects (n k i : Int) (h : n < 1 ∨ n < k ∨ i < 0 ∨ k ≤ i) :
    ∃ e, getBatch n k i = .error e := by
  unfold getBatch
  split
  · exact ⟨_, rfl⟩
  · split
    · exact ⟨_, rfl⟩
    · split
      · exact ⟨_, rfl⟩
      · omega

/-! ### cartesian product -/

theorem product_length (ls : List (List Val)) :
    (product ls).length = (ls.map List.length).prod := by
  induction ls with
  | nil => simp [product]
  | cons vs rest ih =>
    simp only [product, List.map_cons, List.prod_cons]
    rw [List.length_flatMap]
    simp only [List.length_map, ih]
    induction vs with
    | nil => simp
    | cons v vs ihv => simp [ihv]; ring

/-- a combination is enumerated iff each component comes from its own list -/
theorem mem_product (ls : List (List Val)) (t : List Val) :
    t ∈ product ls ↔ List.Forall₂ (fun v l => v ∈ l) t ls := by
  induction ls generalizing t with
  | nil => cases t <;> simp [product]
  | cons vs rest ih =>
    simp only [product, List.mem_flatMap, List.mem_map]
    constructor
    · rintro ⟨v, hv, t', ht', rfl⟩
      exact List.Forall₂.cons hv ((ih t').mp ht')
    · intro h
      cases h with
      | cons hv ht => exact ⟨_, hv, _, (ih _).mpr ht, rfl⟩

/-- every combination is enumerated exactly once when the value lists have no repeats -/
theorem product_nodup (ls : List (List Val)) (h : ∀ l ∈ ls, l.Nodup) : (product ls).Nodup := by
  induction ls with
  | nil => simp [product]
  | cons vs rest ih =>
    have hvs : vs.Nodup := h vs (by simp)
    have hrest : (product rest).Nodup := ih (fun l hl => h l (by simp [hl]))
    simp only [product]
    rw [List.nodup_flatMap]
    refine ⟨?_, ?_⟩
    · intro v _
      exact hrest.map (fun a b hab => by simpa using hab)
    · refine List.Pairwise.imp_of_mem ?_ hvs
      intro a b _ _ hab
      simp only [Function.onFun, List.disjoint_left, List.mem_map]
      rintro x ⟨t1, _, rfl⟩ ⟨t2, _, h2⟩
      exact hab (by simpa using (List.cons_eq_cons.mp h2).1.symm)

/-- the number of tasks of a cartesian-product manager -/
theorem fromCartesian_ntasks (name : String) (ctx : Dict) (opts : List (String × List Val)) :
    (fromCartesian name ctx opts).tasks.length = ((opts.map (·.2)).map List.length).prod := by
  simp [fromCartesian, product_length]

/-! ### find -/

theorem mem_find (m : Manager) (key : String) (val : Val) (hk : (m.options.lookup key).isSome) (i : Nat) :
    (∃ l, find m key val = some l ∧
      (i ∈ l ↔ ∃ t, m.tasks[i]? = some t ∧ t.lookup key = some val)) := by
  unfold find
  have : ¬ (m.options.lookup key).isNone := by
    cases h : m.options.lookup key <;> simp_all
  rw [if_neg this]
  refine ⟨_, rfl, ?_⟩
  simp only [List.mem_filter, List.mem_range]
  constructor
  · rintro ⟨hi, hp⟩
    cases ht : m.tasks[i]? with
    | none => simp [ht] at hp
    | some t => simp [ht] at hp; exact ⟨t, rfl, hp⟩
  · rintro ⟨t, ht, hv⟩
    have hi : i < m.tasks.length := by
      by_contra hc
      rw [List.getElem?_eq_none (by omega)] at ht
      cases ht
    exact ⟨hi, by simp [ht, hv]⟩

theorem find_unknown_key (m : Manager) (key : String) (val : Val) (hk : m.options.lookup key = none) :
    find m key val = none := by
  simp [find, hk]

/-! ### dictionary round trip -/

/-- the key names do not collide with each other nor with the fixed keys -/
def KeyNames.ok (kn : KeyNames) : Prop :=
  kn.context ≠ kn.taskOptions ∧ kn.context ≠ kn.managerOptions ∧
  kn.context ≠ "taskid" ∧ kn.taskOptions ≠ "taskid" ∧
  kn.context ≠ "name" ∧ kn.context ≠ "tasks" ∧
  kn.managerOptions ≠ "name" ∧ kn.managerOptions ≠ "tasks"

instance (kn : KeyNames) : Decidable kn.ok := by unfold KeyNames.ok; infer_instance

theorem taskFromDict_taskToDict (kn : KeyNames) (hk : kn.ok) (id : Nat) (ctx opts : Dict) :
    taskFromDict kn (pyDict (taskToDict kn id ctx opts)) = some opts := by
  obtain ⟨h1, _, h3, h4, _⟩ := hk
  have e1 : ("taskid" == kn.context) = false := by simpa using Ne.symm h3
  have e2 : (kn.context == kn.taskOptions) = false := by simpa using h1
  have e3 : ("taskid" == kn.taskOptions) = false := by simpa using Ne.symm h4
  have e4 : (kn.taskOptions == kn.context) = false := by simpa using Ne.symm h1
  have e5 : (kn.context == "taskid") = false := by simpa using h3
  have e6 : (kn.taskOptions == "taskid") = false := by simpa using h4
  simp [taskFromDict, taskToDict, pyDict, jlookup, List.lookup, e1, e2, e3, e4, e5, e6]

theorem allSome_map_some {α β} (l : List α) (f : α → Option β) (g : α → β) (h : ∀ a ∈ l, f a = some (g a)) :
    allSome (l.map f) = some (l.map g) := by
  induction l with
  | nil => rfl
  | cons a t ih =>
    simp only [List.map_cons, allSome]
    rw [h a (by simp)]
    simp only [allSome]
    rw [ih (fun b hb => h b (by simp [hb]))]
    rfl

theorem pyDict4 (k1 k2 k3 k4 : String) (v1 v2 v3 v4 : J)
    (h12 : k1 ≠ k2) (h13 : k1 ≠ k3) (h14 : k1 ≠ k4) (h23 : k2 ≠ k3) (h24 : k2 ≠ k4) (h34 : k3 ≠ k4) :
    pyDict [(k1, v1), (k2, v2), (k3, v3), (k4, v4)] = [(k1, v1), (k2, v2), (k3, v3), (k4, v4)] := by
  simp [pyDict, h12, h13, h14, h23, h24, h34]

/-- `from_dict (to_dict m) = m` for any non-colliding key names -/
theorem fromDict_toDict (kn : KeyNames) (hk : kn.ok) (m : Manager) :
    fromDict kn (toDict kn m) = some m := by
  have hk' := hk
  obtain ⟨_, h2, _, _, h5, h6, h7, h8⟩ := hk
  have htasks : allSome ((List.range m.tasks.length).map fun i =>
        taskFromDict kn (pyDict (taskToDict kn i m.context (m.tasks[i]?.getD [])))) = some m.tasks := by
    rw [allSome_map_some _ _ (fun i => m.tasks[i]?.getD []) (fun i _ => taskFromDict_taskToDict kn hk' _ _ _)]
    congr 1
    apply List.ext_getElem
    · simp
    · intro i h1 h2; simp [h2]
  unfold toDict
  rw [pyDict4 _ _ _ _ _ _ _ _ (Ne.symm h5) (Ne.symm h7) (by decide) h2 h6 h8]
  simp only [fromDict, jlookup, List.lookup, List.map_map, Function.comp_def]
  have e1 : (kn.context == "name") = false := by simpa using h5
  have e2 : (kn.managerOptions == "name") = false := by simpa using h7
  have e3 : (kn.managerOptions == kn.context) = false := by simpa using Ne.symm h2
  have e4 : ("tasks" == kn.context) = false := by simpa using Ne.symm h6
  have e5 : ("tasks" == kn.managerOptions) = false := by simpa using Ne.symm h8
  simp only [e1, e2, e3, e4, e5, beq_self_eq_true]
  have e6 : ("tasks" == "name") = false := by decide
  simp only [e6, List.map_map, Function.comp_def, htasks]

theorem lookup_all_refl {β : Type} [BEq β] [LawfulBEq β] (d : List (String × β))
    (h : (d.map (·.1)).Nodup) : (d.all fun kv => d.lookup kv.1 == some kv.2) = true := by
  induction d with
  | nil => rfl
  | cons kv t ih =>
    simp only [List.map_cons, List.nodup_cons] at h
    simp only [List.all_cons, List.lookup, beq_self_eq_true, Bool.true_and]
    rw [List.all_eq_true]
    intro x hx
    have hne : x.1 ≠ kv.1 := fun he => h.1 (he ▸ List.mem_map_of_mem hx)
    have : (x.1 == kv.1) = false := by simpa using hne
    simp only [this]
    have := ih h.2
    rw [List.all_eq_true] at this
    exact this x hx

theorem dictSub_refl (d : Dict) (h : (d.map (·.1)).Nodup) : dictSub d d = true :=
  lookup_all_refl d h

theorem zip_self_all (ts : List Dict) (ht : ∀ t ∈ ts, (t.map (·.1)).Nodup) :
    ((ts.zip ts).all fun p => dictEq p.1 p.2) = true := by
  induction ts with
  | nil => rfl
  | cons a t ih =>
    simp only [List.zip_cons_cons, List.all_cons, Bool.and_eq_true]
    refine ⟨?_, ih (fun x hx => ht x (by simp [hx]))⟩
    simp only [dictEq, beq_self_eq_true, Bool.true_and]
    exact dictSub_refl _ (ht a (by simp))

theorem mEq_refl (m : Manager)
    (hc : (m.context.map (·.1)).Nodup) (ho : (m.options.map (·.1)).Nodup)
    (ht : ∀ t ∈ m.tasks, (t.map (·.1)).Nodup) : mEq m m = true := by
  simp only [mEq, Bool.and_eq_true, beq_self_eq_true, and_true]
  exact ⟨⟨dictSub_refl _ hc, lookup_all_refl _ ho⟩, zip_self_all _ ht⟩

/-- a manager rebuilt from its dictionary compares equal to the original in both directions
(dictionaries have unique keys, as python dictionaries do) -/
theorem roundtrip_eq_both (kn : KeyNames) (hk : kn.ok) (m : Manager)
    (hc : (m.context.map (·.1)).Nodup) (ho : (m.options.map (·.1)).Nodup)
    (ht : ∀ t ∈ m.tasks, (t.map (·.1)).Nodup) :
    ∃ m', fromDict kn (toDict kn m) = some m' ∧ mEq m m' = true ∧ mEq m' m = true :=
  ⟨m, fromDict_toDict kn hk m, mEq_refl m hc ho ht, mEq_refl m hc ho ht⟩

/-- colliding key names do break the round trip (why `KeyNames.ok` is required): with
`context` and manager `options` exported under one key the context is lost -/
theorem roundtrip_fails_on_collision :
    fromDict ⟨"x", "options", "x"⟩ (toDict ⟨"x", "options", "x"⟩
      { name := "m", context := [("a", "1")], options := [], tasks := [] }) = none := by
  decide


/-! ### the property stated for a cartesian-product manager as a whole -/

theorem lookup_zip_nodup (keys : List String) (c : List Val) (hn : keys.Nodup) (j : Nat) (hj : j < keys.length)
    (hl : c.length = keys.length) (val : Val) :
    (keys.zip c).lookup keys[j] = some val ↔ c[j]? = some val := by
  induction keys generalizing c j with
  | nil => simp at hj
  | cons k ks ih =>
    cases c with
    | nil => simp at hl
    | cons v vs =>
      cases j with
      | zero => simp [List.lookup_cons]
      | succ j =>
        have hne : (ks[j]'(by simpa using hj) == k) = false := by
          have := (List.nodup_cons.mp hn).1
          have hm : ks[j]'(by simpa using hj) ∈ ks := List.getElem_mem _
          simp only [beq_eq_false_iff_ne, ne_eq]
          intro h
          exact this (h ▸ hm)
        simp only [List.zip_cons_cons, List.getElem_cons_succ, List.lookup_cons, hne, List.getElem?_cons_succ]
        exact ih vs (List.nodup_cons.mp hn).2 j (by simpa using hj) (by simpa using hl)


theorem product_mem_length (ls : List (List Val)) (t : List Val) (h : t ∈ product ls) : t.length = ls.length :=
  ((mem_product ls t).mp h).length_eq

/-- every task of a cartesian-product manager has exactly the option names as keys, in insertion order -/
theorem fromCartesian_task_keys (name : String) (ctx : Dict) (opts : List (String × List Val)) (t : Dict)
    (h : t ∈ (fromCartesian name ctx opts).tasks) : t.map (·.1) = opts.map (·.1) := by
  simp only [fromCartesian, List.mem_map] at h
  obtain ⟨c, hc, rfl⟩ := h
  have hl := product_mem_length _ _ hc
  rw [List.map_fst_zip]
  simp only [List.length_map] at hl ⊢
  omega

/-- ... and its values are a combination: the `j`-th value comes from the `j`-th option list -/
theorem fromCartesian_task_values (name : String) (ctx : Dict) (opts : List (String × List Val)) (t : Dict) :
    t ∈ (fromCartesian name ctx opts).tasks ↔
      t.map (·.1) = opts.map (·.1) ∧ List.Forall₂ (fun v l => v ∈ l) (t.map (·.2)) (opts.map (·.2)) := by
  constructor
  · intro h
    refine ⟨fromCartesian_task_keys name ctx opts t h, ?_⟩
    simp only [fromCartesian, List.mem_map] at h
    obtain ⟨c, hc, rfl⟩ := h
    have hl := product_mem_length _ _ hc
    rw [List.map_snd_zip]
    · exact (mem_product _ _).mp hc
    · simp only [List.length_map] at hl ⊢
      omega
  · rintro ⟨hk, hv⟩
    simp only [fromCartesian, List.mem_map]
    refine ⟨t.map (·.2), (mem_product _ _).mpr hv, ?_⟩
    rw [← hk]
    exact (List.zip_of_prod rfl rfl).symm

/-- every combination of option values is a task exactly once (option value lists without repeats) -/
theorem fromCartesian_tasks_nodup (name : String) (ctx : Dict) (opts : List (String × List Val))
    (h : ∀ kv ∈ opts, kv.2.Nodup) : (fromCartesian name ctx opts).tasks.Nodup := by
  simp only [fromCartesian]
  refine (product_nodup _ ?_).map_on ?_
  · intro l hl
    obtain ⟨kv, hkv, rfl⟩ := List.mem_map.mp hl
    exact h kv hkv
  · intro a ha b hb hab
    have la := product_mem_length _ _ ha
    have lb := product_mem_length _ _ hb
    have := congrArg (List.map (·.2)) hab
    rwa [List.map_snd_zip, List.map_snd_zip] at this
    · simp only [List.length_map] at lb ⊢; omega
    · simp only [List.length_map] at la ⊢; omega

/-- `find` answers with an increasing list of task numbers -/
theorem find_sorted (m : Manager) (key : String) (val : Val) (l : List Nat) (h : find m key val = some l) :
    l.Pairwise (· < ·) := by
  unfold find at h
  split at h
  · cases h
  · cases h
    exact List.Pairwise.filter _ List.pairwise_lt_range

/-- the round trip for a cartesian-product manager: unique option names and unique context keys (python
dictionaries) are all that is needed, for any number of options and values and any non-colliding key names -/
theorem roundtrip_cartesian (kn : KeyNames) (hk : kn.ok) (name : String) (ctx : Dict)
    (opts : List (String × List Val)) (hc : (ctx.map (·.1)).Nodup) (ho : (opts.map (·.1)).Nodup) :
    ∃ m', fromDict kn (toDict kn (fromCartesian name ctx opts)) = some m' ∧
      mEq (fromCartesian name ctx opts) m' = true ∧ mEq m' (fromCartesian name ctx opts) = true := by
  refine roundtrip_eq_both kn hk _ hc ho ?_
  intro t ht
  rw [fromCartesian_task_keys name ctx opts t ht]
  exact ho

/-- `find(key = val)` on a cartesian-product manager returns exactly the numbers of the combinations whose
component for `key` equals `val` (position `j` of `key` among the option names) -/
theorem find_cartesian (name : String) (ctx : Dict) (opts : List (String × List Val))
    (ho : (opts.map (·.1)).Nodup) (j : Nat) (hj : j < opts.length) (val : Val) (i : Nat) :
    ∃ l, find (fromCartesian name ctx opts) (opts[j]).1 val = some l ∧
      (i ∈ l ↔ ∃ c, (product (opts.map (·.2)))[i]? = some c ∧ c[j]? = some val) := by
  have hkey : ((fromCartesian name ctx opts).options.lookup (opts[j]).1).isSome := by
    simp only [fromCartesian]
    rw [List.lookup_isSome_iff]
    exact ⟨opts[j], List.getElem_mem hj, by simp⟩
  obtain ⟨l, hl, hmem⟩ := mem_find (fromCartesian name ctx opts) (opts[j]).1 val hkey i
  refine ⟨l, hl, hmem.trans ?_⟩
  have hj' : j < (opts.map (·.1)).length := by simpa using hj
  have hkj : (opts.map (·.1))[j] = (opts[j]).1 := by simp
  have key : ∀ c : List Val, c.length = opts.length →
      (((opts.map (·.1)).zip c).lookup (opts[j]).1 = some val ↔ c[j]? = some val) := by
    intro c hlen
    rw [← hkj]
    exact lookup_zip_nodup _ c ho j hj' (by simpa using hlen) val
  simp only [fromCartesian, List.getElem?_map]
  constructor
  · rintro ⟨t, ht, hv⟩
    cases hc : (product (opts.map (·.2)))[i]? with
    | none => simp [hc] at ht
    | some c =>
      simp only [hc, Option.map_some, Option.some.injEq] at ht
      subst ht
      have hlen := product_mem_length _ _ (List.mem_of_getElem? hc)
      exact ⟨c, rfl, (key c (by simpa using hlen)).mp hv⟩
  · rintro ⟨c, hc, hv⟩
    have hlen := product_mem_length _ _ (List.mem_of_getElem? hc)
    exact ⟨_, by simp only [hc, Option.map_some], (key c (by simpa using hlen)).mpr hv⟩

/-- a scalar given bare is the one-value list: it multiplies the number of tasks by one and every task carries it -/
theorem fromCartesianArgs_bare (name : String) (ctx : Dict) (pre post : List (String × OptArg)) (k : String) (v : Val) :
    fromCartesianArgs name ctx (pre ++ (k, .bare v) :: post) = fromCartesianArgs name ctx (pre ++ (k, .many [v]) :: post) := by
  simp [fromCartesianArgs, OptArg.toList]

theorem fromCartesianArgs_ntasks (name : String) (ctx : Dict) (opts : List (String × OptArg)) :
    (fromCartesianArgs name ctx opts).tasks.length = (opts.map fun kv => kv.2.toList.length).prod := by
  simp [fromCartesianArgs, fromCartesian_ntasks, Function.comp_def]

/-! ### non-vacuity: the hypotheses are met by concrete inputs, and sample evaluations -/

example : batch 20 5 1 = [4, 5, 6, 7] := by decide
example : batch 10 3 0 = [0, 1, 2, 3] ∧ batch 10 3 2 = [7, 8, 9] := by decide
example : search 10 3 7 = some 2 := by decide
example : (⟨"ctx", "opts", "mopts"⟩ : KeyNames).ok := by decide
example : (⟨"context", "options", "options"⟩ : KeyNames).ok := by decide
example : (product [["1","2"],["a","b","c"]]).length = 6 := by decide
example : find (fromCartesian "m" [] [("a", ["1","2"]), ("b", ["x","y","1"])]) "b" "1" = some [2, 5] := by decide
example : (fromCartesianArgs "m" [] [("a", .many ["1","2"]), ("b", .bare "solo")]).tasks
    = [[("a","1"),("b","solo")], [("a","2"),("b","solo")]] := by decide
example : (["a","b"].map id).Nodup ∧ (1 : Nat) < [("a", ["1","2"]), ("b", ["x","y","1"])].length := by decide

end HydroVerif.C19
